import Deb822Verif.Lemmas.RelBuildConv
import Deb822Verif.Model.RelEdit
import Deb822Verif.Spec.RelList
/-! The relation setters (`set_archqual`, `set_version`, `drop_constraint`, `set_architectures`,
    `add_profile`) seen through the read accessors, on ANY relation node (C11, node level). -/
set_option linter.unusedSimpArgs false
set_option linter.unusedVariables false
namespace Deb822Verif.Rel.Edit
open Deb822Verif Rel Node Build Lossy RelSpec

/-! ### the accessors as functions of the child list -/

def identF (c : RNode) : Option Str :=
  match c with
  | .tok k t => if k = .IDENT then some t else none
  | .node _ _ => none

theorem firstIdentTok_eq (r : RNode) : firstIdentTok r = r.children.findSome? identF := rfl

/-- the accessors only look at: the first IDENT token, the first ARCHQUAL / VERSION / ARCHITECTURES
    node, and the PROFILES nodes -/
theorem recOf_congr (r r' : RNode)
    (h0 : r'.children.findSome? identF = r.children.findSome? identF)
    (h1 : (cn .ARCHQUAL r'.children).head? = (cn .ARCHQUAL r.children).head?)
    (h2 : (cn .VERSION r'.children).head? = (cn .VERSION r.children).head?)
    (h3 : (cn .ARCHITECTURES r'.children).head? = (cn .ARCHITECTURES r.children).head?)
    (h4 : cn .PROFILES r'.children = cn .PROFILES r.children) : recOf r' = recOf r := by
  have c : ∀ k (n : RNode), childNodes k n = cn k n.children := fun k n => rfl
  simp only [recOf, name, archqual, version, architectures, profiles, firstChildNode, firstIdentTok_eq, c,
    h0, h1, h2, h3, h4]

/-! ### list surgery and the filters -/

theorem identF_node (k : Kind) (cs : List RNode) : identF (.node k cs) = none := rfl

theorem take_drop_of_split {α} (pre : List α) (x : α) (post : List α) :
    (pre ++ x :: post).take pre.length = pre ∧ (pre ++ x :: post).drop (pre.length + 1) = post
      ∧ (pre ++ x :: post).drop pre.length = x :: post := by
  refine ⟨by simp, ?_, by simp⟩
  rw [show pre.length + 1 = (pre ++ [x]).length by simp, show pre ++ x :: post = (pre ++ [x]) ++ post by simp,
    List.drop_left]

theorem findSome_insertAt (cs new : List RNode) (p : Nat) (h : ∀ x ∈ new, identF x = none) :
    (insertAt cs p new).findSome? identF = cs.findSome? identF := by
  have hn : new.findSome? identF = none := by
    rw [List.findSome?_eq_none_iff]; exact h
  have e := List.findSome?_append (f := identF) (xs := cs.take p) (ys := cs.drop p)
  rw [List.take_append_drop] at e
  rw [e]
  simp [insertAt, List.findSome?_append, hn]

theorem cn_insertAt (k : Kind) (cs new : List RNode) (p : Nat) :
    cn k (insertAt cs p new) = cn k (cs.take p) ++ cn k new ++ cn k (cs.drop p) := by
  simp [insertAt]

theorem cn_split (k : Kind) (cs : List RNode) (p : Nat) : cn k cs = cn k (cs.take p) ++ cn k (cs.drop p) := by
  rw [← cn_append, List.take_append_drop]

theorem cn_insertAt_other (k : Kind) (cs new : List RNode) (p : Nat) (h : cn k new = []) :
    cn k (insertAt cs p new) = cn k cs := by
  rw [cn_insertAt, h, List.append_nil, ← cn_split]

/-- `nodeIdx k cs = some i`: the element at `i` is the first node of kind `k` -/
theorem nodeIdx_some {k : Kind} {cs : List RNode} {i : Nat} (h : nodeIdx k cs = some i) :
    ∃ pre x post, cs = pre ++ x :: post ∧ pre.length = i ∧ (x.isNode && x.kind == k) = true ∧ cn k pre = [] := by
  induction cs generalizing i with
  | nil => simp [nodeIdx] at h
  | cons c cs ih =>
    simp only [nodeIdx, List.findIdx?_cons] at h
    by_cases hc : (c.isNode && c.kind == k) = true
    · simp [hc] at h; subst h
      exact ⟨[], c, cs, rfl, rfl, hc, rfl⟩
    · simp [hc] at h
      obtain ⟨j, hj, rfl⟩ := h
      obtain ⟨pre, x, post, e, hl, hx, hn⟩ := ih (i := j) (by simpa [nodeIdx] using hj)
      refine ⟨c :: pre, x, post, by rw [e]; rfl, by simp [hl], hx, ?_⟩
      simp only [cn, List.filter_cons, hc] at hn ⊢
      simpa using hn

theorem nodeIdx_none {k : Kind} {cs : List RNode} (h : nodeIdx k cs = none) : cn k cs = [] := by
  simp only [nodeIdx, List.findIdx?_eq_none_iff] at h
  simp only [cn, List.filter_eq_nil_iff]
  intro x hx; simpa using h x hx

theorem cn_single_node (k k' : Kind) (xs : List RNode) :
    cn k [Node.node k' xs] = if k' = k then [Node.node k' xs] else [] := by
  simpa using cn_cons_node k k' xs []

theorem cn_cons (k : Kind) (x : RNode) (xs : List RNode) : cn k (x :: xs) = cn k [x] ++ cn k xs := by
  rw [← cn_append]; rfl

theorem cn_replaceAt (k : Kind) (cs : List RNode) (i : Nat) (new : List RNode) :
    cn k (replaceAt cs i new) = cn k (cs.take i) ++ cn k new ++ cn k (cs.drop (i + 1)) := by
  simp [replaceAt]

theorem cn_elem (k : Kind) (x : RNode) : cn k [x] = if (x.isNode && x.kind == k) = true then [x] else [] := by
  by_cases h : (x.isNode && x.kind == k) = true <;> simp [cn, h]

/-- replacing the first node of kind `k0` by a node of the same kind: seen by the filter of kind `k0`
    as a replacement of its head, by the other filters not at all -/
theorem cn_replace_first {k0 : Kind} {cs : List RNode} {i : Nat} (h : nodeIdx k0 cs = some i)
    (ys : List RNode) (k : Kind) :
    cn k (replaceAt cs i [Node.node k0 ys]) =
      if k = k0 then Node.node k0 ys :: (cn k0 cs).tail else cn k cs := by
  obtain ⟨pre, x, post, rfl, rfl, hx, hn⟩ := nodeIdx_some h
  obtain ⟨e1, e2, _⟩ := take_drop_of_split pre x post
  have hk : x.kind = k0 := by simp only [Bool.and_eq_true, beq_iff_eq] at hx; exact hx.2
  have hnode : x.isNode = true := by simp only [Bool.and_eq_true] at hx; exact hx.1
  rw [cn_replaceAt, e1, e2]
  by_cases hkk : k = k0
  · subst hkk
    have hx1 : cn k [x] = [x] := by rw [cn_elem]; simp [hx]
    simp only [↓reduceIte, hn, List.nil_append, cn_single_node, cn_append, cn_cons k x post, hx1]
    simp
  · have hx0 : cn k [x] = [] := by
      rw [cn_elem]
      have : (x.isNode && x.kind == k) = false := by
        simp only [hnode, hk, Bool.true_and, beq_eq_false_iff_ne]; exact fun e => hkk e.symm
      simp [this]
    have hne : ¬ k0 = k := fun e => hkk e.symm
    simp only [hkk, ↓reduceIte, cn_single_node, hne, List.append_nil, cn_append, cn_cons k x post, hx0,
      List.nil_append]

theorem findSome_replace_node {cs : List RNode} {i : Nat} {k0 : Kind} (h : nodeIdx k0 cs = some i)
    (ys : List RNode) : (replaceAt cs i [Node.node k0 ys]).findSome? identF = cs.findSome? identF := by
  obtain ⟨pre, x, post, rfl, rfl, hx, _⟩ := nodeIdx_some h
  obtain ⟨e1, e2, _⟩ := take_drop_of_split pre x post
  have hnode : x.isNode = true := by simp only [Bool.and_eq_true] at hx; exact hx.1
  have hxf : identF x = none := by cases x <;> simp_all [identF, Node.isNode]
  simp [replaceAt, e1, e2, List.findSome?_append, hxf, identF_node, List.findSome?_cons]


/-! ### the record as a function of the child list -/

def verOfNode (vc : RNode) : Except Unit (Option (VC × Version)) :=
  match firstChildNode .CONSTRAINT vc with
  | some c =>
    if (versionText vc).isEmpty then .ok none
    else
      match VC.parse c.text with
      | none => .error ()
      | some k =>
        match Version.parse (versionText vc) with
        | none => .error ()
        | some ver => .ok (some (k, ver))
  | none => .ok none

def aqC (cs : List RNode) : Option Str := ((cn .ARCHQUAL cs).head?).bind firstIdentTok
def verC (cs : List RNode) : Except Unit (Option (VC × Version)) :=
  match (cn .VERSION cs).head? with
  | none => .ok none
  | some vc => verOfNode vc
def archC (cs : List RNode) : Option (List Str) :=
  ((cn .ARCHITECTURES cs).head?).map fun a => (a.children.foldl archStep (false, [])).2
def profC (cs : List RNode) : List (List BuildProfile) := (cn .PROFILES cs).map profileGroup

def recC (cs : List RNode) : RelRec := ⟨cs.findSome? identF, aqC cs, verC cs, archC cs, profC cs⟩

theorem recOf_eq (r : RNode) : recOf r = recC r.children := by
  simp only [recOf, recC, name, archqual, version, architectures, profiles, firstChildNode, firstIdentTok_eq,
    aqC, verC, archC, profC, verOfNode]
  have c : ∀ k (n : RNode), childNodes k n = cn k n.children := fun k n => rfl
  simp only [c]
  congr 1

theorem recOf_onChildren (r : RNode) (f : List RNode → List RNode) :
    recOf (onChildren r f) = recC (f r.children) := by
  rw [recOf_eq]; rfl

/-! ### `set_archqual` -/

def aqNode (q : Str) : RNode := Node.node .ARCHQUAL [T .COLON ":", .tok .IDENT q]

theorem firstIdentTok_aqNode (q : Str) : firstIdentTok (aqNode q) = some q := by
  simp [firstIdentTok, aqNode, Node.children, T]

/-- `set_archqual`: the qualifier becomes `q`, everything else reads as before -/
theorem recOf_setArchqual (r : RNode) (q : Str) :
    recOf (setArchqual r q) = { recOf r with archqual := some q } := by
  rw [recOf_eq r]
  unfold setArchqual
  cases h : nodeIdx .ARCHQUAL r.children with
  | some i =>
    simp only [recOf_onChildren, recC, RelRec.mk.injEq]
    have hc := cn_replace_first h [T .COLON ":", .tok .IDENT q]
    refine ⟨findSome_replace_node h _, ?_, ?_, ?_, ?_⟩
    · simp only [aqC, hc, ↓reduceIte, List.head?_cons, Option.bind_some]
      exact firstIdentTok_aqNode q
    · simp only [verC, hc]; rfl
    · simp only [archC, hc]; rfl
    · simp only [profC, hc]; rfl
  | none =>
    simp only [recOf_onChildren, recC, RelRec.mk.injEq]
    have hn := nodeIdx_none h
    have hnew : ∀ k, k ≠ Kind.ARCHQUAL → cn k [Node.node Kind.ARCHQUAL [T .COLON ":", .tok .IDENT q]] = [] := by
      intro k hk; rw [cn_single_node]; simp [Ne.symm hk]
    refine ⟨findSome_insertAt _ _ _ (by simp [identF_node]), ?_, ?_, ?_, ?_⟩
    · have h1 := cn_split .ARCHQUAL r.children (afterName r.children)
      rw [hn] at h1
      have h2 : cn .ARCHQUAL (r.children.take (afterName r.children)) = [] ∧
          cn .ARCHQUAL (r.children.drop (afterName r.children)) = [] := by
        have := h1.symm; simp only [List.append_eq_nil_iff] at this; exact this
      simp only [aqC, cn_insertAt, h2.1, h2.2, cn_single_node, ↓reduceIte, List.nil_append, List.append_nil,
        List.head?_cons, Option.bind_some]
      exact firstIdentTok_aqNode q
    · simp only [verC, cn_insertAt_other _ _ _ _ (hnew .VERSION (by decide))]
    · simp only [archC, cn_insertAt_other _ _ _ _ (hnew .ARCHITECTURES (by decide))]
    · simp only [profC, cn_insertAt_other _ _ _ _ (hnew .PROFILES (by decide))]


@[simp] theorem cn_tok (k k' : Kind) (t : Str) (cs : List RNode) : cn k (Node.tok k' t :: cs) = cn k cs := by
  simp [cn, Node.isNode]

/-! ### `set_version(Some(..))` -/

/-- the version tokens are tokens, and their IDENT / COLON texts spell the version -/
theorem versionTokens_spec (v : Version) :
    (∀ k, cn k (versionTokens v) = []) ∧ ((versionTokens v).filterMap vtF).flatten = v.display := by
  unfold versionTokens
  split
  · have h := splitOn_flatten ':' v.display
    cases hs : Text.splitOn ':' v.display with
    | nil => rw [hs] at h; simp at h
    | cons p ps =>
      rw [hs] at h
      rw [sepBy_colon]
      refine ⟨fun k => cn_tks k _, ?_⟩
      simp only [tks_cons, List.filterMap_cons, tk, vtF, true_or, ↓reduceIte, List.flatten_cons,
        vtF_colonTail]
      simpa using h
  · exact ⟨fun k => by simp [cn, Node.isNode], by simp [vtF]⟩

theorem constraintToks_cn (c : VC) (k : Kind) : cn k (constraintToks c) = [] := by
  cases c <;> simp [constraintToks, VC.display, cn, Node.isNode]

theorem constraintToks_text' (c : VC) : textList (constraintToks c) = c.display := by
  cases c <;> simp [constraintToks, VC.display]

/-- what `version()` reads from the node `set_version` writes -/
theorem verOfNode_versionNode (c : VC) (v : Version) (hp : Version.parse v.display = some v)
    (hne : v.display ≠ []) : verOfNode (versionNode c v) = .ok (some (c, v)) := by
  obtain ⟨hcn, htxt⟩ := versionTokens_spec v
  have hc : firstChildNode .CONSTRAINT (versionNode c v) = some (.node .CONSTRAINT (constraintToks c)) := by
    simp [firstChildNode, childNodes_node, versionNode, cn_cons_node, cn_tok, hcn, T]
  have hvt : versionText (versionNode c v) = v.display := by
    simp only [versionNode, versionText_node, List.filterMap_append, List.filterMap_cons, List.filterMap_nil]
    simp [vtF, T, htxt]
  have hemp : (v.display).isEmpty = false := by cases hd : v.display <;> simp_all
  simp [verOfNode, hc, hvt, hemp, constraintToks_text', VC.parse_display, hp]

/-- `set_version(Some((c, v)))`: the version becomes `(c, v)`, everything else reads as before.
    Needs a version that is the parse of its own (non-empty) text. -/
theorem recOf_setVersion_some (r : RNode) (c : VC) (v : Version)
    (hp : Version.parse v.display = some v) (hne : v.display ≠ []) :
    recOf (setVersion r (some (c, v))) = { recOf r with version := .ok (some (c, v)) } := by
  rw [recOf_eq r]
  simp only [setVersion]
  have hv := verOfNode_versionNode c v hp hne
  have e : versionNode c v = Node.node .VERSION ([T .L_PARENS "(", .node .CONSTRAINT (constraintToks c), T .WHITESPACE " "]
    ++ versionTokens v ++ [T .R_PARENS ")"]) := rfl
  cases h : nodeIdx .VERSION r.children with
  | some i =>
    simp only [recOf_onChildren, recC, RelRec.mk.injEq]
    have hc : ∀ k, cn k (replaceAt r.children i [versionNode c v]) =
        if k = Kind.VERSION then versionNode c v :: (cn Kind.VERSION r.children).tail else cn k r.children := by
      intro k; rw [e]; exact cn_replace_first h _ k
    have hf : (replaceAt r.children i [versionNode c v]).findSome? identF = r.children.findSome? identF := by
      rw [e]; exact findSome_replace_node h _
    refine ⟨hf, ?_, ?_, ?_, ?_⟩
    · simp only [aqC, hc]; rfl
    · simp only [verC, hc, ↓reduceIte, List.head?_cons, hv]
    · simp only [archC, hc]; rfl
    · simp only [profC, hc]; rfl
  | none =>
    simp only [recOf_onChildren, recC, RelRec.mk.injEq]
    have hn := nodeIdx_none h
    have hnew : ∀ k, k ≠ Kind.VERSION → cn k [T .WHITESPACE " ", versionNode c v] = [] := by
      intro k hk; rw [e, cn_tok, cn_single_node]; simp [Ne.symm hk]
    refine ⟨findSome_insertAt _ _ _ (by intro x hx; simp at hx; rcases hx with rfl | rfl <;> simp [identF, T, e]), ?_, ?_, ?_, ?_⟩
    · simp only [aqC, cn_insertAt_other _ _ _ _ (hnew .ARCHQUAL (by decide))]
    · have h1 := cn_split .VERSION r.children (versionAnchor r.children)
      rw [hn] at h1
      have h2 : cn .VERSION (r.children.take (versionAnchor r.children)) = [] ∧
          cn .VERSION (r.children.drop (versionAnchor r.children)) = [] := by
        have := h1.symm; simp only [List.append_eq_nil_iff] at this; exact this
      have h3 : cn .VERSION [T .WHITESPACE " ", versionNode c v] = [versionNode c v] := by
        rw [e, cn_tok, cn_single_node]; simp
      simp only [verC, cn_insertAt, h2.1, h2.2, h3, List.nil_append, List.append_nil, List.head?_cons, hv]
    · simp only [archC, cn_insertAt_other _ _ _ _ (hnew .ARCHITECTURES (by decide))]
    · simp only [profC, cn_insertAt_other _ _ _ _ (hnew .PROFILES (by decide))]

/-! ### removing a node and the whitespace before it -/

theorem dropTrailing_spec (P : RNode → Bool) (l : List RNode) :
    ∃ ws, l = (l.reverse.dropWhile P).reverse ++ ws ∧ ∀ x ∈ ws, P x = true := by
  refine ⟨(l.reverse.takeWhile P).reverse, ?_, ?_⟩
  · have := List.takeWhile_append_dropWhile (p := P) (l := l.reverse)
    have h2 := congrArg List.reverse this
    simp only [List.reverse_append, List.reverse_reverse] at h2
    exact h2.symm
  · intro x hx
    have : x ∈ l.reverse.takeWhile P := by simpa using hx
    exact mem_takeWhile_imp this

theorem wsElem_cn (k : Kind) (hk : k ≠ .WHITESPACE ∧ k ≠ .NEWLINE) (ws : List RNode)
    (h : ∀ x ∈ ws, isWsElem x = true) : cn k ws = [] := by
  simp only [cn, List.filter_eq_nil_iff]
  intro x hx
  have := h x hx
  simp only [isWsElem, Bool.or_eq_true, beq_iff_eq] at this
  simp only [Bool.and_eq_true, beq_iff_eq, not_and]
  intro _ hkx
  rcases this with e | e <;> (rw [hkx] at e; first | exact hk.1 e | exact hk.2 e)

theorem wsElem_identF (ws : List RNode) (h : ∀ x ∈ ws, isWsElem x = true) : ws.findSome? identF = none := by
  rw [List.findSome?_eq_none_iff]
  intro x hx
  have := h x hx
  simp only [isWsElem, Bool.or_eq_true, beq_iff_eq] at this
  cases x with
  | node k cs => rfl
  | tok k t =>
    simp only [Node.kind] at this
    simp only [identF]
    rcases this with e | e <;> simp [e]

/-- the accessor-relevant filters after `removeWithWsBefore cs i`, `i` the first node of kind `k0` -/
theorem cn_removeWithWs {k0 : Kind} {cs : List RNode} {i : Nat} (h : nodeIdx k0 cs = some i) (k : Kind)
    (hk : k ≠ .WHITESPACE ∧ k ≠ .NEWLINE) :
    cn k (removeWithWsBefore cs i) = if k = k0 then (cn k0 cs).tail else cn k cs := by
  obtain ⟨pre, x, post, rfl, rfl, hx, hn⟩ := nodeIdx_some h
  obtain ⟨e1, e2, _⟩ := take_drop_of_split pre x post
  obtain ⟨ws, hws, hall⟩ := dropTrailing_spec isWsElem pre
  have hk0 : x.kind = k0 := by simp only [Bool.and_eq_true, beq_iff_eq] at hx; exact hx.2
  have hnode : x.isNode = true := by simp only [Bool.and_eq_true] at hx; exact hx.1
  have hpre : cn k pre = cn k ((pre.reverse.dropWhile isWsElem).reverse) := by
    conv => lhs; rw [hws]
    rw [cn_append, wsElem_cn k hk ws hall, List.append_nil]
  simp only [removeWithWsBefore, e1, e2, cn_append, ← hpre, cn_cons k x post]
  by_cases hkk : k = k0
  · subst hkk
    have hx1 : cn k [x] = [x] := by rw [cn_elem]; simp [hx]
    rw [cn_cons k x post, hx1]
    simp [hn]
  · have hx0 : cn k [x] = [] := by
      rw [cn_elem]
      have : (x.isNode && x.kind == k) = false := by
        simp only [hnode, hk0, Bool.true_and, beq_eq_false_iff_ne]; exact fun e => hkk e.symm
      simp [this]
    simp [hkk, hx0]

theorem findSome_removeWithWs {k0 : Kind} {cs : List RNode} {i : Nat} (h : nodeIdx k0 cs = some i) :
    (removeWithWsBefore cs i).findSome? identF = cs.findSome? identF := by
  obtain ⟨pre, x, post, rfl, rfl, hx, _⟩ := nodeIdx_some h
  obtain ⟨e1, e2, _⟩ := take_drop_of_split pre x post
  have hnode : x.isNode = true := by simp only [Bool.and_eq_true] at hx; exact hx.1
  have hxf : identF x = none := by
    cases x with
    | node k cs => rfl
    | tok k t => simp [Node.isNode] at hnode
  obtain ⟨ws, hws, hall⟩ := dropTrailing_spec isWsElem pre
  have hpre : pre.findSome? identF = ((pre.reverse.dropWhile isWsElem).reverse).findSome? identF := by
    conv => lhs; rw [hws]
    rw [List.findSome?_append, wsElem_identF ws hall]; simp
  simp only [removeWithWsBefore, e1, e2, List.findSome?_append, List.findSome?_cons, hxf, ← hpre]

/-- `set_version(None)` / `drop_constraint` on a relation with at most one VERSION node: no version
    any more, everything else reads as before -/
theorem recOf_setVersion_none (r : RNode) (h1 : (cn .VERSION r.children).length ≤ 1) :
    recOf (setVersion r none) = { recOf r with version := .ok none } := by
  rw [recOf_eq r]
  simp only [setVersion]
  cases h : nodeIdx .VERSION r.children with
  | some i =>
    simp only [recOf_onChildren, recC, RelRec.mk.injEq]
    have hc := cn_removeWithWs h
    have htail : (cn Kind.VERSION r.children).tail = [] := by
      cases hl : cn Kind.VERSION r.children with
      | nil => rfl
      | cons a t => rw [hl] at h1; cases t <;> simp at h1 ⊢
    refine ⟨findSome_removeWithWs h, ?_, ?_, ?_, ?_⟩
    · simp only [aqC, hc .ARCHQUAL (by decide)]; rfl
    · simp only [verC, hc .VERSION (by decide), ↓reduceIte, htail, List.head?_nil]
    · simp only [archC, hc .ARCHITECTURES (by decide)]; rfl
    · simp only [profC, hc .PROFILES (by decide)]; rfl
  | none =>
    have hn := nodeIdx_none h
    simp [recOf_eq, recC, verC, hn]

theorem recOf_dropConstraint (r : RNode) (h1 : (cn .VERSION r.children).length ≤ 1) :
    recOf (dropConstraint r).1 = { recOf r with version := .ok none } := by
  have : (dropConstraint r).1 = setVersion r none := by
    simp only [dropConstraint, setVersion]; cases nodeIdx Kind.VERSION r.children <;> rfl
  rw [this]; exact recOf_setVersion_none r h1


/-! ### `set_architectures` -/

theorem archToks_fold (a : Str) (acc : List Str) :
    (Build.archToks a).foldl archStep (false, acc) = (false, acc ++ [a]) := by
  unfold Build.archToks
  split <;> simp [archStep, T]

theorem archStep_sepToks (as : List Str) (acc : List Str) :
    (sepBy [T .WHITESPACE " "] (as.map Build.archToks)).foldl archStep (false, acc) = (false, acc ++ as) := by
  cases as with
  | nil => simp [sepBy]
  | cons a rest =>
    rw [List.map_cons, sepBy_cons, List.foldl_append, archToks_fold]
    have : ∀ (l : List Str) (acc' : List Str),
        ((l.map Build.archToks).map ([T .WHITESPACE " "] ++ ·)).flatten.foldl archStep (false, acc')
          = (false, acc' ++ l) := by
      intro l
      induction l with
      | nil => intro acc'; simp
      | cons b bs ih =>
        intro acc'
        simp only [List.map_cons, List.flatten_cons, List.foldl_append, List.foldl_cons, List.foldl_nil]
        have e1 : archStep (false, acc') (T .WHITESPACE " ") = (false, acc') := by simp [archStep, T]
        rw [e1, archToks_fold, ih]; simp
    rw [this]; simp

theorem archC_node (as : List Str) :
    ((architecturesNode as).children.foldl archStep (false, [])).2 = as := by
  simp only [architecturesNode, Node.children, List.foldl_cons, List.foldl_append]
  have e1 : archStep (false, []) (T .L_BRACKET "[") = (false, []) := by simp [archStep, T]
  rw [e1, archStep_sepToks]
  simp [archStep, T]

theorem architecturesNode_eq (as : List Str) : architecturesNode as = Node.node .ARCHITECTURES
    (T .L_BRACKET "[" :: (sepBy [T .WHITESPACE " "] (as.map Build.archToks) ++ [T .R_BRACKET "]"])) := rfl

/-- `set_architectures(as)`, `as` non-empty: the list becomes `as`, everything else as before -/
theorem recOf_setArchitectures (r : RNode) (as : List Str) (hne : as ≠ []) :
    recOf (setArchitectures r as) = { recOf r with architectures := some as } := by
  rw [recOf_eq r]
  have hemp : as.isEmpty = false := by cases as <;> simp at hne ⊢
  simp only [setArchitectures, hemp, Bool.false_eq_true, ↓reduceIte]
  have e := architecturesNode_eq as
  have hnew : ∀ k, k ≠ Kind.ARCHITECTURES → cn k [architecturesNode as] = [] := by
    intro k hk; rw [e, cn_single_node]; simp [Ne.symm hk]
  cases h : nodeIdx .ARCHITECTURES r.children with
  | some i =>
    simp only [recOf_onChildren, recC, RelRec.mk.injEq]
    have hc : ∀ k, cn k (replaceAt r.children i [architecturesNode as]) =
        if k = Kind.ARCHITECTURES then architecturesNode as :: (cn Kind.ARCHITECTURES r.children).tail
        else cn k r.children := by
      intro k; rw [e]; exact cn_replace_first h _ k
    have hf : (replaceAt r.children i [architecturesNode as]).findSome? identF = r.children.findSome? identF := by
      rw [e]; exact findSome_replace_node h _
    refine ⟨hf, ?_, ?_, ?_, ?_⟩
    · simp only [aqC, hc]; rfl
    · simp only [verC, hc]; rfl
    · simp only [archC, hc, ↓reduceIte, List.head?_cons, Option.map_some, archC_node]
    · simp only [profC, hc]; rfl
  | none =>
    have hn := nodeIdx_none h
    have key : ∀ (p : Nat) (new : List RNode), (∀ x ∈ new, identF x = none) →
        (∀ k, k ≠ Kind.ARCHITECTURES → cn k new = []) → cn .ARCHITECTURES new = [architecturesNode as] →
        recC (insertAt r.children p new) = { recC r.children with architectures := some as } := by
      intro p new hid hoth hself
      simp only [recC, RelRec.mk.injEq]
      have h1 := cn_split .ARCHITECTURES r.children p
      rw [hn] at h1
      have h2 : cn .ARCHITECTURES (r.children.take p) = [] ∧ cn .ARCHITECTURES (r.children.drop p) = [] := by
        have := h1.symm; simp only [List.append_eq_nil_iff] at this; exact this
      refine ⟨findSome_insertAt _ _ _ hid, ?_, ?_, ?_, ?_⟩
      · simp only [aqC, cn_insertAt_other _ _ _ _ (hoth .ARCHQUAL (by decide))]
      · simp only [verC, cn_insertAt_other _ _ _ _ (hoth .VERSION (by decide))]
      · simp only [archC, cn_insertAt, h2.1, h2.2, hself, List.nil_append, List.append_nil, List.head?_cons,
          Option.map_some, archC_node]
      · simp only [profC, cn_insertAt_other _ _ _ _ (hoth .PROFILES (by decide))]
    cases hp : nodeIdx .PROFILES r.children with
    | some j =>
      simp only [recOf_onChildren]
      exact key j [architecturesNode as, T .WHITESPACE " "]
        (by intro x hx; simp at hx; rcases hx with rfl | rfl <;> simp [identF, T, e])
        (by intro k hk; rw [cn_cons, hnew k hk]; simp [T])
        (by rw [cn_cons, e, cn_single_node]; simp [T])
    | none =>
      simp only [recOf_onChildren]
      exact key r.children.length [T .WHITESPACE " ", architecturesNode as]
        (by intro x hx; simp at hx; rcases hx with rfl | rfl <;> simp [identF, T, e])
        (by intro k hk; simp only [T, cn_tok]; exact hnew k hk)
        (by simp only [T, cn_tok]; rw [e, cn_single_node]; simp)

/-- `set_architectures([])` on a relation with at most one ARCHITECTURES node: no list any more -/
theorem recOf_setArchitectures_nil (r : RNode) (h1 : (cn .ARCHITECTURES r.children).length ≤ 1) :
    recOf (setArchitectures r []) = { recOf r with architectures := none } := by
  rw [recOf_eq r]
  simp only [setArchitectures, List.isEmpty_nil, ↓reduceIte]
  cases h : nodeIdx .ARCHITECTURES r.children with
  | some i =>
    simp only [recOf_onChildren, recC, RelRec.mk.injEq]
    have hc := cn_removeWithWs h
    have htail : (cn Kind.ARCHITECTURES r.children).tail = [] := by
      cases hl : cn Kind.ARCHITECTURES r.children with
      | nil => rfl
      | cons a t => rw [hl] at h1; cases t <;> simp at h1 ⊢
    refine ⟨findSome_removeWithWs h, ?_, ?_, ?_, ?_⟩
    · simp only [aqC, hc .ARCHQUAL (by decide)]; rfl
    · simp only [verC, hc .VERSION (by decide)]; rfl
    · simp only [archC, hc .ARCHITECTURES (by decide), ↓reduceIte, htail, List.head?_nil, Option.map_none]
    · simp only [profC, hc .PROFILES (by decide)]; rfl
  | none =>
    have hn := nodeIdx_none h
    simp [recOf_eq, recC, archC, hn]

/-! ### `add_profile` -/

theorem findIdx_take_none (P : RNode → Bool) (l : List RNode) (j : Nat) (h : l.findIdx? P = some j) :
    ∀ x ∈ l.take j, P x = false := by
  induction l generalizing j with
  | nil => simp at h
  | cons a as ih =>
    simp only [List.findIdx?_cons] at h
    by_cases ha : P a = true
    · simp [ha] at h; subst h; simp
    · simp [ha] at h
      obtain ⟨j', hj', rfl⟩ := h
      intro x hx
      simp only [List.take_succ_cons, List.mem_cons] at hx
      rcases hx with rfl | hx
      · simpa using ha
      · exact ih j' hj' x hx

/-- nothing of kind `k` after the position `lastNodeIdx` returns (or anywhere, when it returns none) -/
theorem lastNodeIdx_spec (k : Kind) (cs : List RNode) :
    cn k (cs.drop (match lastNodeIdx k cs with | some i => i + 1 | none => cs.length)) = [] := by
  unfold lastNodeIdx
  cases h : cs.reverse.findIdx? (fun c => c.isNode && c.kind == k) with
  | none => simp
  | some j =>
    have hjl : j < cs.reverse.length := by
      have := List.findIdx?_eq_some_iff_findIdx_eq.1 h
      exact this.1
    have hnone := findIdx_take_none _ _ j h
    simp only [List.length_reverse] at hjl
    simp only [cn, List.filter_eq_nil_iff]
    intro x hx
    have e : cs.length - 1 - j + 1 = cs.length - j := by omega
    rw [e] at hx
    have : x ∈ cs.reverse.take j := by
      rw [List.take_reverse]
      simpa using hx
    simpa using hnone x this

theorem parse_disabled (n : Str) : BuildProfile.parse ('!' :: n) = .Disabled n := rfl

theorem termFold (p : BuildProfile) (hp : isIdent (profName p) = true) (ret : List BuildProfile) :
    ∃ cur, (termToks p).foldl profileStep (ret, []) = (ret, cur) ∧ cur ≠ []
      ∧ BuildProfile.parse cur.flatten = p := by
  cases p with
  | Enabled n =>
    exact ⟨[n], by simp [termToks, profileStep, Node.kind, Node.text], by simp,
      by simpa using parse_ident_profile n hp⟩
  | Disabled n =>
    exact ⟨[['!'], n], by simp [termToks, profileStep, Node.kind, Node.text, T], by simp,
      by simp [BuildProfile.parse]⟩

theorem profileStep_wsTok (st : List BuildProfile × List Str) :
    profileStep st (T .WHITESPACE " ") = (flush st, []) := by
  simpa [tk, T] using profileStep_ws st (.WHITESPACE, [' ']) rfl

/-- `profiles()` reads back the list `add_profile` writes -/
theorem profileGroup_built (p : List BuildProfile) (hp : ∀ x ∈ p, isIdent (profName x) = true) :
    profileGroup (profilesNode p) = p := by
  have e : profilesNode p = Node.node .PROFILES
      (T .L_ANGLE "<" :: (sepBy [T .WHITESPACE " "] (p.map termToks) ++ [T .R_ANGLE ">"])) := rfl
  rw [e]
  simp only [profileGroup, Node.children, List.foldl_cons, List.foldl_append, List.foldl_nil]
  have e1 : profileStep ([], []) (T .L_ANGLE "<") = ([], []) := by simp [profileStep, Node.kind, T]
  have e2 : ∀ st, profileStep st (T .R_ANGLE ">") = st := by intro st; simp [profileStep, Node.kind, T]
  have hfl : ∀ st : List BuildProfile × List Str,
      (if !st.2.isEmpty then BuildProfile.parse st.2.flatten :: st.1 else st.1) = flush st := by
    intro st; simp only [flush]; cases st.2.isEmpty <;> simp
  rw [e1, e2, hfl]
  cases p with
  | nil => simp [sepBy, flush]
  | cons a rest =>
    rw [List.map_cons, sepBy_cons, List.foldl_append]
    obtain ⟨cur, hc, hne, hpa⟩ := termFold a (hp a (by simp)) []
    rw [hc]
    have : ∀ (l : List BuildProfile) (st : List BuildProfile × List Str),
        (∀ x ∈ l, isIdent (profName x) = true) →
        flush (((l.map termToks).map ([T .WHITESPACE " "] ++ ·)).flatten.foldl profileStep st)
          = l.reverse ++ flush st := by
      intro l
      induction l with
      | nil => intro st _; simp
      | cons b bs ih =>
        intro st hb
        simp only [List.map_cons, List.flatten_cons, List.foldl_append, List.foldl_cons, List.foldl_nil]
        rw [profileStep_wsTok]
        obtain ⟨cur', hc', hne', hpb⟩ := termFold b (hb b (by simp)) (flush st)
        rw [hc', ih _ (fun x hx => hb x (by simp [hx]))]
        have : flush (flush st, cur') = b :: flush st := by
          cases cur' with
          | nil => exact absurd rfl hne'
          | cons c cs => simp [flush, ← hpb]
        rw [this]; simp
    rw [this rest _ (fun x hx => hp x (by simp [hx]))]
    have : flush (([] : List BuildProfile), cur) = [a] := by
      cases cur with
      | nil => exact absurd rfl hne
      | cons c cs => simp [flush, ← hpa]
    rw [this]; simp

/-- `add_profile(p)`: one more restriction list at the end, everything else as before -/
theorem recOf_addProfile (r : RNode) (p : List BuildProfile) (hp : ∀ x ∈ p, isIdent (profName x) = true) :
    recOf (addProfile r p) = { recOf r with profiles := (recOf r).profiles ++ [p] } := by
  have e : profilesNode p = Node.node .PROFILES
      (T .L_ANGLE "<" :: (sepBy [T .WHITESPACE " "] (p.map termToks) ++ [T .R_ANGLE ">"])) := rfl
  have hnew : ∀ k, k ≠ Kind.PROFILES → cn k [T .WHITESPACE " ", profilesNode p] = [] := by
    intro k hk; rw [e]; simp only [T, cn_tok]; rw [cn_single_node]; simp [Ne.symm hk]
  have key : ∀ idx, cn .PROFILES (r.children.drop idx) = [] →
      recC (insertAt r.children idx [T .WHITESPACE " ", profilesNode p])
        = { recC r.children with profiles := (recC r.children).profiles ++ [p] } := by
    intro idx hspec
    simp only [recC, RelRec.mk.injEq]
    refine ⟨findSome_insertAt _ _ _ (by intro x hx; simp at hx; rcases hx with rfl | rfl <;> simp [identF, T, e]), ?_, ?_, ?_, ?_⟩
    · simp only [aqC, cn_insertAt_other _ _ _ _ (hnew .ARCHQUAL (by decide))]
    · simp only [verC, cn_insertAt_other _ _ _ _ (hnew .VERSION (by decide))]
    · simp only [archC, cn_insertAt_other _ _ _ _ (hnew .ARCHITECTURES (by decide))]
    · have h3 : cn .PROFILES [T .WHITESPACE " ", profilesNode p] = [profilesNode p] := by
        rw [e]; simp only [T, cn_tok]; rw [cn_single_node]; simp
      have h4 : cn .PROFILES r.children = cn .PROFILES (r.children.take idx) := by
        rw [cn_split .PROFILES r.children idx, hspec, List.append_nil]
      simp only [profC, cn_insertAt, h3, hspec, List.append_nil, List.map_append, List.map_cons, List.map_nil,
        ← h4, profileGroup_built p hp]
  rw [recOf_eq r]
  simp only [addProfile, recOf_onChildren]
  exact key _ (lastNodeIdx_spec .PROFILES r.children)

end Deb822Verif.Rel.Edit
