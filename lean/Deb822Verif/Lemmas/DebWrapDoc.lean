import Deb822Verif.Lemmas.DebWrapIdem
/-!
  Document-level structure of the wrap-and-sort model: what `deb822Wrap` returns as a function of
  the grouping `(comments in front of a paragraph, paragraph)`, regrouping, idempotence.
-/
namespace Deb822Verif.Deb
open Deb822Verif Node

def isParaNode (c : DNode) : Bool := c.isNode && c.kind == .PARAGRAPH

/-- a document as the model groups it: per paragraph the top-level comment / error tokens in front
    of it (those inside blank-line nodes included), and the ones after the last paragraph -/
def rootGroups (root : DNode) : List (List DNode × DNode) × List DNode := groupRoot root.children []

/-- the per-paragraph callback (identity when absent) -/
def applyW (wp : Option (DNode → Option DNode)) (p : DNode) : Option DNode :=
  match wp with
  | some w => w p
  | none => some p

/-- the line terminator added after an unterminated paragraph -/
def termOf (p : DNode) : List DNode :=
  match lastTok p.children with
  | some t => if t.1 == .NEWLINE then [] else [Node.tok .NEWLINE ['\n']]
  | none => []

def docGroup (w : List DNode × DNode) : List DNode := commentLines w.1 ++ [w.2] ++ termOf w.2

/-- what a reformatted document consists of -/
def docOut (ws : List (List DNode × DNode)) (trailing : List DNode) : List DNode :=
  joinParas (ws.map docGroup) ++ commentLines trailing

theorem emptyLineKeep_trivia (c : DNode) : ∀ x ∈ emptyLineKeep c, isTriviaNode x = true := by
  intro x hx
  have := (List.mem_filter.1 hx).2
  simp only [isTriviaNode]
  rw [Bool.or_comm]; exact this

theorem groupRoot_trivia (cs cur : List DNode) (hc : ∀ c ∈ cur, isTriviaNode c = true) :
    (∀ g ∈ (groupRoot cs cur).1, ∀ c ∈ g.1, isTriviaNode c = true)
    ∧ (∀ c ∈ (groupRoot cs cur).2, isTriviaNode c = true) := by
  induction cs generalizing cur with
  | nil => simp [groupRoot]; exact hc
  | cons c cs ih =>
    simp only [groupRoot]
    split
    · have := ih [] (by simp)
      refine ⟨?_, this.2⟩
      intro g hg
      simp only [List.mem_cons] at hg
      rcases hg with rfl | hg
      · exact hc
      · exact this.1 g hg
    · split
      · rename_i ht
        exact ih _ (by
          intro x hx
          simp only [List.mem_append, List.mem_cons, List.not_mem_nil, or_false] at hx
          rcases hx with hx | rfl
          · exact hc x hx
          · simp only [isTriviaNode]; rw [Bool.or_comm]; exact ht)
      · split
        · exact ih _ (by
            intro x hx
            simp only [List.mem_append] at hx
            rcases hx with hx | hx
            · exact hc x hx
            · exact emptyLineKeep_trivia c x hx)
        · exact ih _ hc

theorem groupRoot_units (cs cur : List DNode) :
    (groupRoot cs cur).1.map (·.2) = cs.filter isParaNode := by
  induction cs generalizing cur with
  | nil => simp [groupRoot]
  | cons c cs ih =>
    simp only [groupRoot]
    by_cases h : isParaNode c = true
    · have h' : (c.isNode && c.kind == Kind.PARAGRAPH) = true := h
      simp [h', h, ih]
    · have h' : isParaNode c = false := by simpa using h
      have h'' : (c.isNode && c.kind == Kind.PARAGRAPH) = false := h'
      simp only [h'', Bool.false_eq_true, ↓reduceIte, List.filter_cons, h']
      split
      · exact ih _
      · split <;> exact ih _

theorem groupRoot_paras (cs cur : List DNode) : ∀ g ∈ (groupRoot cs cur).1, isParaNode g.2 = true := by
  intro g hg
  have h1 : g.2 ∈ (groupRoot cs cur).1.map (·.2) := List.mem_map_of_mem hg
  rw [groupRoot_units] at h1
  exact (List.mem_filter.1 h1).2

/-! ### regrouping -/

theorem groupRoot_nl (l cur : List DNode) :
    groupRoot (Node.tok .NEWLINE ['\n'] :: l) cur = groupRoot l cur := by
  simp [groupRoot, Node.isNode, Node.kind]

theorem groupRoot_commentLines (pre rest cur : List DNode) (hp : ∀ c ∈ pre, isTrivTok c = true) :
    groupRoot (commentLines pre ++ rest) cur = groupRoot rest (cur ++ pre) := by
  induction pre generalizing cur with
  | nil => simp [commentLines]
  | cons c cs ih =>
    have hc := hp c (by simp)
    have hcs : ∀ x ∈ cs, isTrivTok x = true := fun x hx => hp x (by simp [hx])
    cases c with
    | node k cs' => simp [isTrivTok] at hc
    | tok k t =>
      simp only [isTrivTok, Bool.or_eq_true, beq_iff_eq] at hc
      rcases hc with rfl | rfl
      · simp only [commentLines, Node.kind, show (Kind.ERROR = Kind.COMMENT) = False from by simp,
          ↓reduceIte, List.cons_append, List.nil_append]
        rw [show groupRoot (Node.tok Kind.ERROR t :: (commentLines cs ++ rest)) cur
            = groupRoot (commentLines cs ++ rest) (cur ++ [Node.tok Kind.ERROR t]) from by
          simp [groupRoot, Node.isNode, Node.kind]]
        rw [ih _ hcs]; simp
      · simp only [commentLines, Node.kind, ↓reduceIte, List.cons_append, List.nil_append]
        rw [show groupRoot (Node.tok Kind.COMMENT t :: Node.tok .NEWLINE ['\n'] :: (commentLines cs ++ rest)) cur
            = groupRoot (Node.tok .NEWLINE ['\n'] :: (commentLines cs ++ rest)) (cur ++ [Node.tok Kind.COMMENT t]) from by
          simp [groupRoot, Node.isNode, Node.kind]]
        rw [groupRoot_nl, ih _ hcs]; simp

theorem groupRoot_termOf (p : DNode) (rest cur : List DNode) :
    groupRoot (termOf p ++ rest) cur = groupRoot rest cur := by
  unfold termOf
  split
  · split
    · rfl
    · exact groupRoot_nl _ _
  · rfl

theorem groupRoot_emptyLine (rest cur : List DNode) :
    groupRoot (joinParas.emptyLine' :: rest) cur = groupRoot rest cur := by
  simp [groupRoot, joinParas.emptyLine', Node.isNode, Node.kind, emptyLineKeep, Node.children]

theorem groupRoot_docGroup (w : List DNode × DNode) (rest : List DNode)
    (hpre : ∀ c ∈ w.1, isTrivTok c = true) (hpara : isParaNode w.2 = true) :
    groupRoot (docGroup w ++ rest) [] = (w :: (groupRoot rest []).1, (groupRoot rest []).2) := by
  unfold docGroup
  simp only [List.append_assoc]
  rw [groupRoot_commentLines w.1 _ [] hpre]
  have h' : (w.2.isNode && w.2.kind == Kind.PARAGRAPH) = true := hpara
  simp only [List.nil_append, List.cons_append, groupRoot, h', ↓reduceIte, groupRoot_termOf]

/-- **regrouping**: grouping the output of `deb822Wrap` gives back the groups it was built from -/
theorem groupRoot_docOut (ws : List (List DNode × DNode)) (trailing : List DNode)
    (hpre : ∀ w ∈ ws, ∀ c ∈ w.1, isTrivTok c = true) (hpara : ∀ w ∈ ws, isParaNode w.2 = true)
    (htr : ∀ c ∈ trailing, isTrivTok c = true) :
    groupRoot (docOut ws trailing) [] = (ws, trailing) := by
  have htrail : groupRoot (commentLines trailing) [] = ([], trailing) := by
    have := groupRoot_commentLines trailing [] [] htr
    simp only [List.append_nil, List.nil_append] at this
    simp [this, groupRoot]
  unfold docOut
  cases ws with
  | nil => simpa [joinParas] using htrail
  | cons w ws =>
    induction ws generalizing w with
    | nil =>
      simp only [List.map_cons, List.map_nil, joinParas]
      rw [groupRoot_docGroup w _ (hpre w (by simp)) (hpara w (by simp)), htrail]
    | cons w' ws ih =>
      simp only [List.map_cons, joinParas, List.append_assoc, List.cons_append]
      rw [groupRoot_docGroup w _ (hpre w (by simp)) (hpara w (by simp)), groupRoot_emptyLine]
      have := ih w' (fun x hx => hpre x (by simp [hx])) (fun x hx => hpara x (by simp [hx]))
      simp only [List.map_cons] at this
      rw [this]

/-! ### what `deb822Wrap` returns -/

/-- one output group, when the pending trivia are tokens -/
def docGroupOpt (pp : List DNode × DNode) : Option (List DNode) :=
  (allTokens pp.1).map fun pre => withNewlines pre ++ [pp.2] ++ termOf pp.2

theorem mapM'_docGroups (G : List DNode × DNode → Option (List DNode)) (hG : ∀ pp, G pp = docGroupOpt pp)
    (es : List (List DNode × DNode)) (gs : List (List DNode)) (h : mapM' G es = some gs) :
    gs = es.map docGroup ∧ ∀ w ∈ es, ∀ c ∈ w.1, c.isNode = false := by
  rw [show G = docGroupOpt from funext hG] at h
  clear hG
  induction es generalizing gs with
  | nil => simp [mapM'] at h; subst h; simp
  | cons a es ih =>
    simp only [mapM'] at h
    split at h
    · rename_i b bs hb hbs
      simp only [Option.some.injEq] at h; subst h
      simp only [docGroupOpt, Option.map_eq_some_iff] at hb
      obtain ⟨pre, hpre, hb⟩ := hb
      subst hb
      have := ih bs hbs
      have ha := allTokens_eq hpre
      refine ⟨?_, ?_⟩
      · simp only [List.map_cons, ← this.1, docGroup, withNewlines_eq, ← ha]
      · intro w hw
        simp only [List.mem_cons] at hw
        rcases hw with rfl | hw
        · exact (allTokens_some_iff _).1 ⟨pre, hpre⟩
        · exact this.2 w hw
    · simp at h

theorem mapM'_docGroups_intro (G : List DNode × DNode → Option (List DNode)) (hG : ∀ pp, G pp = docGroupOpt pp)
    (es : List (List DNode × DNode))
    (h : ∀ w ∈ es, ∀ c ∈ w.1, c.isNode = false) :
    mapM' G es = some (es.map docGroup) := by
  rw [show G = docGroupOpt from funext hG]
  apply mapM'_of_pointwise
  induction es with
  | nil => trivial
  | cons a es ih =>
    refine ⟨?_, ih fun w hw => h w (by simp [hw])⟩
    obtain ⟨ts, hts, he⟩ := allTokens_of_toks a.1 (h a (by simp))
    simp only [docGroupOpt, hts, Option.map_some, withNewlines_eq, ← he, docGroup]

/-- `deb822Wrap`: the result is `docOut` of the input's groups, each paragraph passed through the
    callback, then (stably) sorted; all pending comments / errors are tokens -/
theorem deb822Wrap_spec (le : Option (DNode → DNode → Bool)) (wp : Option (DNode → Option DNode))
    (root root' : DNode) (h : deb822Wrap le wp root = some root') :
    ∃ ws : List (List DNode × DNode),
      Pointwise (fun g w => w.1 = g.1 ∧ applyW wp g.2 = some w.2) (rootGroups root).1 ws
      ∧ (∀ w ∈ ws, ∀ c ∈ w.1, isTrivTok c = true)
      ∧ (∀ c ∈ (rootGroups root).2, isTrivTok c = true)
      ∧ root' = .node .ROOT (docOut (sortBy le ws) (rootGroups root).2) := by
  unfold deb822Wrap at h
  cases le
  all_goals
    simp only at h
    split at h
    · simp at h
    · rename_i wrapped hw
      split at h
      · rename_i groups trailing hg ht
        simp only [Option.some.injEq] at h
        subst h
        have hpw := mapM'_pointwise _ _ _ hw
        have hpw' : Pointwise (fun g w => w.1 = g.1 ∧ applyW wp g.2 = some w.2) (rootGroups root).1 wrapped := by
          refine Pointwise.imp ?_ hpw
          intro a b hab
          split at hab
          · rename_i p' hp
            simp only [Option.some.injEq] at hab; subst hab
            exact ⟨rfl, hp⟩
          · simp at hab
        have hgroups := mapM'_docGroups _ (by
          intro pp; simp only [docGroupOpt, termOf]; cases allTokens pp.1 <;> rfl) _ _ hg
        have htriv := groupRoot_trivia root.children [] (by simp)
        have hwpre : ∀ w ∈ wrapped, ∀ c ∈ w.1, isTrivTok c = true := by
          intro w hw' c hc
          obtain ⟨g, hg', hr⟩ := Pointwise.mem_right hpw' w hw'
          have h1 := htriv.1 g hg' c (by rw [← hr.1]; exact hc)
          exact trivTok_of c h1 (hgroups.2 w (by first | exact hw' | exact List.mem_mergeSort.2 hw') c hc)
        have htr : ∀ c ∈ (rootGroups root).2, isTrivTok c = true := by
          intro c hc
          exact trivTok_of c (htriv.2 c hc) ((allTokens_some_iff _).1 ⟨trailing, ht⟩ c hc)
        refine ⟨wrapped, hpw', hwpre, htr, ?_⟩
        have htrail := allTokens_eq ht
        simp only [docOut, hgroups.1, withNewlines_eq]
        rw [show (rootGroups root).2 = trailing.map tk from htrail]
        rfl
      · simp at h

/-- converse of `deb822Wrap_spec` -/
theorem deb822Wrap_intro (le : Option (DNode → DNode → Bool)) (wp : Option (DNode → Option DNode))
    (root : DNode) (ws : List (List DNode × DNode))
    (hpw : Pointwise (fun g w => w.1 = g.1 ∧ applyW wp g.2 = some w.2) (rootGroups root).1 ws)
    (hpre : ∀ w ∈ ws, ∀ c ∈ w.1, isTrivTok c = true)
    (htr : ∀ c ∈ (rootGroups root).2, isTrivTok c = true) :
    deb822Wrap le wp root = some (.node .ROOT (docOut (sortBy le ws) (rootGroups root).2)) := by
  have hpw' : ∀ F : List DNode × DNode → Option (List DNode × DNode),
      (∀ pp, F pp = match applyW wp pp.2 with
        | some p' => some (pp.1, p')
        | none => none) → mapM' F (rootGroups root).1 = some ws := by
    intro F hF
    apply mapM'_of_pointwise
    refine Pointwise.imp ?_ hpw
    intro g w hgw
    rw [hF]
    simp only [hgw.2, ← hgw.1]
  have h2 : ∀ G : List DNode × DNode → Option (List DNode), (∀ pp, G pp = docGroupOpt pp) →
      mapM' G (sortBy le ws) = some ((sortBy le ws).map docGroup) := fun G hG =>
    mapM'_docGroups_intro G hG (sortBy le ws) (fun w hw c hc =>
      trivTok_isTok c (hpre w ((mem_sortBy le ws w).1 hw) c hc))
  have hGG : ∀ pp : List DNode × DNode,
      (match allTokens pp.1, some pp.2 with
      | some pre, some p' =>
        some (withNewlines pre ++ [p'] ++ match lastTok p'.children with
          | some t => if t.1 == .NEWLINE then [] else [Node.tok .NEWLINE ['\n']]
          | none => [])
      | _, _ => none) = docGroupOpt pp := by
    intro pp; simp only [docGroupOpt, termOf]; cases allTokens pp.1 <;> rfl
  obtain ⟨tts, htts, hte⟩ := allTokens_of_toks (rootGroups root).2 (fun c hc => trivTok_isTok c (htr c hc))
  unfold deb822Wrap
  cases le
  all_goals
    simp only
    split
    · rename_i hnone
      have e : none = some ws := hnone.symm.trans (hpw' _ (fun _ => rfl))
      cases e
    · rename_i wrapped hw
      have hw' : some wrapped = some ws := hw.symm.trans (hpw' _ (fun _ => rfl))
      simp only [Option.some.injEq] at hw'
      subst hw'
      split
      · rename_i groups trailing hgr htra
        have e1 : some groups = some _ := hgr.symm.trans (h2 _ hGG)
        have e2 : some trailing = some tts := htra.symm.trans htts
        simp only [Option.some.injEq] at e1 e2
        subst e1 e2
        simp only [docOut, withNewlines_eq, ← hte]
      · rename_i hno
        exact (hno _ _ (h2 _ hGG) htts).elim

/-- **document level idempotence**, for any per-paragraph callback that returns paragraphs and is
    the identity on its own results; paragraph order absent or a total preorder -/
theorem deb822Wrap_idem (le : Option (DNode → DNode → Bool)) (hle : OrderOK le)
    (wp : Option (DNode → Option DNode))
    (hwpara : ∀ p p', isParaNode p = true → applyW wp p = some p' → isParaNode p' = true)
    (hwidem : ∀ p p', isParaNode p = true → applyW wp p = some p' → applyW wp p' = some p')
    (root root' : DNode) (h : deb822Wrap le wp root = some root') :
    deb822Wrap le wp root' = some root' := by
  obtain ⟨ws, hpw, hpre, htr, rfl⟩ := deb822Wrap_spec le wp root root' h
  have hpre' : ∀ w ∈ sortBy le ws, ∀ c ∈ w.1, isTrivTok c = true :=
    fun w hw => hpre w ((mem_sortBy le ws w).1 hw)
  have hsrc : ∀ w ∈ ws, ∃ g, isParaNode g = true ∧ applyW wp g = some w.2 := by
    intro w hw
    obtain ⟨g, hg, hr⟩ := Pointwise.mem_right hpw w hw
    exact ⟨g.2, groupRoot_paras _ _ g hg, hr.2⟩
  have hpara' : ∀ w ∈ sortBy le ws, isParaNode w.2 = true := by
    intro w hw
    obtain ⟨g, hg, hr⟩ := hsrc w ((mem_sortBy le ws w).1 hw)
    exact hwpara g w.2 hg hr
  have hg : rootGroups (.node .ROOT (docOut (sortBy le ws) (rootGroups root).2))
      = (sortBy le ws, (rootGroups root).2) := groupRoot_docOut _ _ hpre' hpara' htr
  have := deb822Wrap_intro le wp (.node .ROOT (docOut (sortBy le ws) (rootGroups root).2))
    (sortBy le ws)
    (by
      rw [hg]
      apply pointwise_self
      intro w hw
      refine ⟨rfl, ?_⟩
      obtain ⟨g, hg, hr⟩ := hsrc w ((mem_sortBy le ws w).1 hw)
      exact hwidem g w.2 hg hr)
    hpre' (by rw [hg]; exact htr)
  rw [this, hg, sortBy_idem le hle]

/-! ### top-level comments -/

/-- the comment texts one child of the root contributes at top level: a COMMENT token itself, or
    the COMMENT tokens inside a blank-line node -/
def topCommentTexts1 (c : DNode) : List Str :=
  if c.kind == .EMPTY_LINE then commentTexts c.children else commentTexts [c]

def topCommentTexts (root : DNode) : List Str := root.children.flatMap topCommentTexts1

theorem commentTexts_emptyLineKeep (c : DNode) : commentTexts (emptyLineKeep c) = commentTexts c.children := by
  unfold commentTexts emptyLineKeep
  rw [List.filter_filter]
  congr 1
  apply List.filter_congr
  intro x _
  cases x with
  | node k cs => simp [isTokOf]
  | tok k t => by_cases hk : k = .COMMENT <;> simp [isTokOf, Node.kind, hk]

theorem groupRoot_comments (cs cur : List DNode) :
    groupsComments (groupRoot cs cur).1 (groupRoot cs cur).2
      = commentTexts cur ++ cs.flatMap topCommentTexts1 := by
  induction cs generalizing cur with
  | nil => simp [groupRoot, groupsComments, commentTexts]
  | cons c cs ih =>
    simp only [groupRoot, List.flatMap_cons]
    split
    · rename_i hc
      simp only [Bool.and_eq_true, beq_iff_eq] at hc
      have := ih []
      simp only [groupsComments] at this ⊢
      simp only [List.map_cons, List.flatten_cons, List.append_assoc, this]
      have h1 : topCommentTexts1 c = [] := by
        simp only [topCommentTexts1, hc.2, show (Kind.PARAGRAPH == Kind.EMPTY_LINE) = false from rfl,
          Bool.false_eq_true, ↓reduceIte]
        exact commentTexts_entry c hc.1
      rw [h1]; simp [commentTexts]
    · split
      · rename_i h1 h2
        have hne : (c.kind == Kind.EMPTY_LINE) = false := by
          simp only [Bool.or_eq_true, beq_iff_eq] at h2
          rcases h2 with h2 | h2 <;> simp [h2]
        rw [ih, commentTexts_append]
        simp only [topCommentTexts1, hne, Bool.false_eq_true, ↓reduceIte, List.append_assoc]
      · split
        · rename_i h1 h2 h3
          rw [ih, commentTexts_append, commentTexts_emptyLineKeep]
          simp only [topCommentTexts1, h3, ↓reduceIte, List.append_assoc]
        · rename_i h1 h2 h3
          rw [ih]
          have : topCommentTexts1 c = [] := by
            simp only [topCommentTexts1, h3, Bool.false_eq_true, ↓reduceIte]
            cases c with
            | node k cs' => simp [commentTexts, isTokOf]
            | tok k t =>
              have : k ≠ .COMMENT := by
                intro hk; subst hk; simp [Node.kind] at h2
              simp [commentTexts, isTokOf, this]
          rw [this, List.nil_append]

theorem topCommentTexts_eq (root : DNode) :
    topCommentTexts root = groupsComments (rootGroups root).1 (rootGroups root).2 := by
  unfold topCommentTexts rootGroups
  rw [groupRoot_comments]; simp [commentTexts]

theorem groupsComments_congr (gs ws : List (List DNode × DNode)) (tr : List DNode)
    (h : Pointwise (fun g w => w.1 = g.1) gs ws) : groupsComments ws tr = groupsComments gs tr := by
  unfold groupsComments
  rw [Pointwise.map_eq (fun g : List DNode × DNode => commentTexts g.1) (fun w => commentTexts w.1)
    (fun a b hab => by rw [hab]) h]

/-! ### blank lines of the result -/

def isEmptyLineKind (c : DNode) : Bool := c.kind == .EMPTY_LINE

theorem filter_el_commentLines (cs : List DNode) (h : ∀ c ∈ cs, isTrivTok c = true) :
    (commentLines cs).filter isEmptyLineKind = [] := by
  induction cs with
  | nil => rfl
  | cons c cs ih =>
    have hc := h c (by simp)
    have hk : isEmptyLineKind c = false := by
      cases c with
      | node k cs' => simp [isTrivTok] at hc
      | tok k t =>
        simp only [isTrivTok, Bool.or_eq_true, beq_iff_eq] at hc
        rcases hc with rfl | rfl <;> rfl
    simp only [commentLines, List.filter_append, ih fun x hx => h x (by simp [hx]), List.append_nil]
    have hnl : isEmptyLineKind (Node.tok Kind.NEWLINE ['\n']) = false := rfl
    split <;> simp [List.filter_cons, hk, hnl]

theorem filter_el_termOf (p : DNode) : (termOf p).filter isEmptyLineKind = [] := by
  unfold termOf
  split
  · split <;> simp [isEmptyLineKind, Node.kind]
  · rfl

theorem filter_el_docGroup (w : List DNode × DNode) (hpre : ∀ c ∈ w.1, isTrivTok c = true)
    (hpara : isParaNode w.2 = true) : (docGroup w).filter isEmptyLineKind = [] := by
  have hk : isEmptyLineKind w.2 = false := by
    simp only [isParaNode, Bool.and_eq_true, beq_iff_eq] at hpara
    simp [isEmptyLineKind, hpara.2]
  simp [docGroup, List.filter_append, filter_el_commentLines w.1 hpre, filter_el_termOf, List.filter_cons, hk]

/-- the blank-line nodes of the result: exactly one, consisting of one `"\n"`, between consecutive
    paragraph groups, none anywhere else -/
theorem filter_el_docOut (ws : List (List DNode × DNode)) (tr : List DNode)
    (hpre : ∀ w ∈ ws, ∀ c ∈ w.1, isTrivTok c = true) (hpara : ∀ w ∈ ws, isParaNode w.2 = true)
    (htr : ∀ c ∈ tr, isTrivTok c = true) :
    (docOut ws tr).filter isEmptyLineKind = List.replicate (ws.length - 1) joinParas.emptyLine' := by
  unfold docOut
  rw [List.filter_append, filter_el_commentLines tr htr, List.append_nil]
  cases ws with
  | nil => rfl
  | cons w ws =>
    induction ws generalizing w with
    | nil =>
      simp only [List.map_cons, List.map_nil, joinParas]
      exact filter_el_docGroup w (hpre w (by simp)) (hpara w (by simp))
    | cons w' ws ih =>
      simp only [List.map_cons, joinParas, List.filter_append, List.filter_cons]
      rw [filter_el_docGroup w (hpre w (by simp)) (hpara w (by simp))]
      have := ih w' (fun x hx => hpre x (by simp [hx])) (fun x hx => hpara x (by simp [hx]))
      simp only [List.map_cons] at this
      rw [this]
      simp [isEmptyLineKind, joinParas.emptyLine', Node.kind, List.replicate_succ]

theorem filter_para_commentLines (cs : List DNode) (h : ∀ c ∈ cs, isTrivTok c = true) :
    (commentLines cs).filter isParaNode = [] := by
  induction cs with
  | nil => rfl
  | cons c cs ih =>
    have hc := h c (by simp)
    have hk : isParaNode c = false := by
      cases c with
      | node k cs' => simp [isTrivTok] at hc
      | tok k t => rfl
    simp only [commentLines, List.filter_append, ih fun x hx => h x (by simp [hx]), List.append_nil]
    have hnl : isParaNode (Node.tok Kind.NEWLINE ['\n']) = false := rfl
    split <;> simp [List.filter_cons, hk, hnl]

/-- the paragraphs of a document with the given groups -/
theorem paragraphs_of_groups (root : DNode) : paragraphs root = (rootGroups root).1.map (·.2) := by
  unfold rootGroups
  rw [groupRoot_units]; rfl

/-- success of the document-level call depends neither on the paragraph comparator nor on the
    entry comparator of the per-paragraph callback -/
theorem deb822Wrap_any_order (cfg : WrapCfg) (ple ple' ele ele' : Option (DNode → DNode → Bool)) (fmt)
    (root r0 : DNode) (h : deb822Wrap ple (some (paragraphWrap cfg ele fmt)) root = some r0) :
    ∃ r', deb822Wrap ple' (some (paragraphWrap cfg ele' fmt)) root = some r' := by
  obtain ⟨ws, hpw, hpre, htr, _⟩ := deb822Wrap_spec ple _ root r0 h
  obtain ⟨ws', hws'⟩ := Pointwise.choose
    (S := fun (g : List DNode × DNode) (w : List DNode × DNode) =>
      w.1 = g.1 ∧ applyW (some (paragraphWrap cfg ele' fmt)) g.2 = some w.2)
    (fun g w hgw => by
      obtain ⟨p', hp'⟩ := paragraphWrap_any_order cfg ele ele' fmt g.2 w.2 hgw.2
      exact ⟨(g.1, p'), rfl, hp'⟩) hpw
  refine ⟨_, deb822Wrap_intro ple' _ root ws' hws' ?_ htr⟩
  intro w hw c hc
  obtain ⟨g, hg, hr⟩ := Pointwise.mem_right hws' w hw
  have htriv := groupRoot_trivia root.children [] (by simp)
  -- the pending trivia of `g` are tokens because the first call succeeded
  have hlen := Pointwise.length hpw
  have : ∀ {gs : List (List DNode × DNode)} {ws : List (List DNode × DNode)},
      Pointwise (fun g w => w.1 = g.1 ∧ applyW (some (paragraphWrap cfg ele fmt)) g.2 = some w.2) gs ws →
      g ∈ gs → ∃ w0 ∈ ws, w0.1 = g.1 := by
    intro gs
    induction gs with
    | nil => intro ws _ hg; simp at hg
    | cons a as ih =>
      intro ws hp hg
      cases ws with
      | nil => exact hp.elim
      | cons b bs =>
        simp only [List.mem_cons] at hg
        rcases hg with rfl | hg
        · exact ⟨b, by simp, hp.1.1⟩
        · obtain ⟨w0, hw0, he⟩ := ih hp.2 hg
          exact ⟨w0, by simp [hw0], he⟩
  obtain ⟨w0, hw0, he⟩ := this hpw hg
  exact hpre w0 hw0 c (by rw [he, ← hr.1]; exact hc)

end Deb822Verif.Deb
