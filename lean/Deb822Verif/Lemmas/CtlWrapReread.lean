import Deb822Verif.Lemmas.CtlWrapIdem
/-!
  Strict re-read on the formatter path: `Lemmas/DebWrapReread.lean` generalised from the no-formatter
  path to any formatter for which every field of the document is reformatted to the node of a
  well-formed, fully terminated field (`EntryOut`).
-/
namespace Deb822Verif.Deb
open Deb822Verif Node Spec

/-- the field `e` is reformatted to (the node of) the well-formed, fully terminated field `eo` -/
def EntryOut (cfg : WrapCfg) (fmt : Option (Str → Str → Str)) (e eo : EntryS) : Prop :=
  entryWrap cfg fmt e.node = some eo.node ∧ eo.WF ∧ eo.TermAll

theorem paragraphWrap_paraS_gen (cfg : WrapCfg) (le : Option (DNode → DNode → Bool)) (fmt) (p : ParaS)
    (more : Bool) (hwf : p.WF) (ht : p.Term more) (outE : EntryS → EntryS)
    (hout : ∀ e ∈ paraEntries p, EntryOut cfg fmt e (outE e)) :
    ∃ pg : PG, pg.OK ∧ paragraphWrap cfg le fmt p.node = some pg.node := by
  let xs : List (List Str × EntryS) := ([], p.first) :: (groupItems p.rest []).1
  have hprops := groupItems_props p.rest more [] hwf.rest_ok ht.2 (by simp)
  have hxs : ∀ x ∈ xs, x.2 ∈ paraEntries p ∧ ∀ c ∈ x.1, NoNl c := by
    intro x hx
    simp only [xs, List.mem_cons] at hx
    rcases hx with rfl | hx
    · exact ⟨by simp [paraEntries], by simp⟩
    · refine ⟨?_, (hprops.1 x hx).2.2⟩
      have : x.2 ∈ (groupItems p.rest []).1.map (·.2) := List.mem_map_of_mem hx
      rw [groupItems_entries] at this
      simp [paraEntries, this]
  have hg := paraGroups_node p
  let ws : List (List DNode × DNode) := xs.map fun x => (x.1.map cTok, (outE x.2).node)
  have hpw : Pointwise (fun g w => w.1 = g.1 ∧ entryWrap cfg fmt g.2 = some w.2) (paraGroups p.node).1 ws := by
    rw [hg]
    apply pointwise_map
    intro x hx
    exact ⟨rfl, (hout x.2 (hxs x hx).1).1⟩
  have hpre : ∀ w ∈ ws, ∀ c ∈ w.1, isTrivTok c = true := by
    intro w hw
    simp only [ws, List.mem_map] at hw
    obtain ⟨x, _, rfl⟩ := hw
    exact cTok_trivs _
  have htr : ∀ c ∈ (paraGroups p.node).2, isTrivTok c = true := by
    rw [hg]; exact cTok_trivs _
  have hres := paragraphWrap_intro cfg le fmt p.node ws hpw hpre htr
  obtain ⟨ys, hys, hsort⟩ := lift_map
    (fun y : List Str × EntryS => y.2.WF ∧ y.2.TermAll ∧ ∀ c ∈ y.1, NoNl c) egrp (sortBy le ws) (by
      intro w hw
      have hw' := (mem_sortBy le ws w).1 hw
      simp only [ws, List.mem_map] at hw'
      obtain ⟨x, hx, rfl⟩ := hw'
      have ho := hout x.2 (hxs x hx).1
      exact ⟨(x.1, outE x.2), ⟨ho.2.1, ho.2.2, (hxs x hx).2⟩, rfl⟩)
  refine ⟨⟨ys, (groupItems p.rest []).2⟩, ⟨?_, hys, hprops.2⟩, ?_⟩
  · intro hnil
    have hnil' : ys = [] := hnil
    have h1 : (sortBy le ws).length = ws.length := (sortBy_perm le ws).length_eq
    rw [hsort, hnil'] at h1
    simp [ws, xs] at h1
  · rw [hres, hsort, hg]
    rfl

theorem groupParas_mem (ps : List (ParaS × List Gap)) (cur : List Str) :
    ∀ x ∈ (groupParas ps cur).1, ∃ pg ∈ ps, x.2 = pg.1 := by
  induction ps generalizing cur with
  | nil => simp [groupParas]
  | cons pg ps ih =>
    intro x hx
    simp only [groupParas, List.mem_cons] at hx
    rcases hx with rfl | hx
    · exact ⟨pg, by simp, rfl⟩
    · obtain ⟨q, hq, he⟩ := ih _ x hx
      exact ⟨q, by simp [hq], he⟩

theorem deb822Wrap_docS_gen (cfg : WrapCfg) (ele ple : Option (DNode → DNode → Bool)) (fmt) (d : DocS)
    (hwf : d.WF) (outE : EntryS → EntryS)
    (hout : ∀ pg ∈ d.paras, ∀ e ∈ paraEntries pg.1, EntryOut cfg fmt e (outE e)) :
    ∃ (zs : List (List Str × PG)) (tr : List Str),
      (∀ z ∈ zs, z.2.OK ∧ ∀ c ∈ z.1, NoNl c) ∧ (∀ c ∈ tr, NoNl c)
      ∧ zs.length = d.paras.length
      ∧ deb822Wrap ple (some (paragraphWrap cfg ele fmt)) d.tree
          = some (.node .ROOT (docOut (zs.map zgrp) (tr.map cTok))) := by
  let gp := groupParas d.paras (gapComments d.lead)
  have hprops := groupParas_props d.paras (gapComments d.lead) hwf.paras_ok
    (parasTerm_each d.paras hwf.paras_term) (gapComments_nonl d.lead hwf.lead_ok)
  have hg := rootGroups_tree d
  have hex : ∀ x ∈ gp.1, ∃ pg : PG, pg.OK ∧ paragraphWrap cfg ele fmt x.2.node = some pg.node := by
    intro x hx
    obtain ⟨h1, ⟨m, h2⟩, _⟩ := hprops.1 x hx
    obtain ⟨pg, hpg, he⟩ := groupParas_mem _ _ x hx
    exact paragraphWrap_paraS_gen cfg ele fmt x.2 m h1 h2 outE (by rw [he]; exact hout pg hpg)
  have hchoose : ∀ (l : List (List Str × ParaS)),
      (∀ x ∈ l, (∃ pg : PG, pg.OK ∧ paragraphWrap cfg ele fmt x.2.node = some pg.node) ∧ ∀ c ∈ x.1, NoNl c) →
      ∃ us : List (List Str × PG), (∀ z ∈ us, z.2.OK ∧ ∀ c ∈ z.1, NoNl c) ∧ us.length = l.length ∧
        Pointwise (fun g w => w.1 = g.1 ∧ applyW (some (paragraphWrap cfg ele fmt)) g.2 = some w.2)
          (l.map pgrp) (us.map zgrp) := by
    intro l
    induction l with
    | nil => intro _; exact ⟨[], by simp, rfl, trivial⟩
    | cons x l ih =>
      intro h
      obtain ⟨⟨pg, hok, hpg⟩, hcn⟩ := h x (by simp)
      obtain ⟨us, hus, hlen, hpw⟩ := ih fun y hy => h y (by simp [hy])
      refine ⟨(x.1, pg) :: us, ?_, by simp [hlen], ⟨rfl, hpg⟩, hpw⟩
      intro z hz
      simp only [List.mem_cons] at hz
      rcases hz with rfl | hz
      · exact ⟨hok, hcn⟩
      · exact hus z hz
  obtain ⟨us, hus, hlen, hpw⟩ := hchoose gp.1 fun x hx => ⟨hex x hx, (hprops.1 x hx).2.2⟩
  have hpre : ∀ w ∈ us.map zgrp, ∀ c ∈ w.1, isTrivTok c = true := by
    intro w hw
    simp only [List.mem_map] at hw
    obtain ⟨z, _, rfl⟩ := hw
    exact cTok_trivs _
  have htr : ∀ c ∈ (rootGroups d.tree).2, isTrivTok c = true := by rw [hg]; exact cTok_trivs _
  have hres := deb822Wrap_intro ple (some (paragraphWrap cfg ele fmt)) d.tree (us.map zgrp)
    (by rw [hg]; exact hpw) hpre htr
  obtain ⟨zs, hzs, hsort⟩ := lift_map (fun z : List Str × PG => z.2.OK ∧ ∀ c ∈ z.1, NoNl c) zgrp
    (sortBy ple (us.map zgrp)) (by
      intro w hw
      have hw' := (mem_sortBy ple _ w).1 hw
      simp only [List.mem_map] at hw'
      obtain ⟨z, hz, rfl⟩ := hw'
      exact ⟨z, hus z hz, rfl⟩)
  refine ⟨zs, gp.2, hzs, hprops.2, ?_, ?_⟩
  · have h1 : (sortBy ple (us.map zgrp)).length = (us.map zgrp).length := (sortBy_perm ple _).length_eq
    rw [hsort] at h1
    have h2 : gp.1.length = d.paras.length := by
      have : ∀ (ps : List (ParaS × List Gap)) cur, (groupParas ps cur).1.length = ps.length := by
        intro ps
        induction ps with
        | nil => intro cur; rfl
        | cons pg ps ih => intro cur; simp [groupParas, ih]
      exact this _ _
    simp only [List.length_map] at h1
    omega
  · rw [hres, hsort, hg]

/-- **strict re-read, any formatter**: if every field of the well-formed document `d` is reformatted
    to the node of a well-formed, fully terminated field, wrap-and-sort succeeds and its printed text
    is the text of a well-formed, fully terminated document with the same fields per paragraph as
    the returned tree -/
theorem deb822Wrap_reread_gen (cfg : WrapCfg) (ele ple : Option (DNode → DNode → Bool)) (fmt) (d : DocS)
    (hwf : d.WF) (outE : EntryS → EntryS)
    (hout : ∀ pg ∈ d.paras, ∀ e ∈ paraEntries pg.1, EntryOut cfg fmt e (outE e)) :
    ∃ (root' : DNode) (d' : DocS),
      deb822Wrap ple (some (paragraphWrap cfg ele fmt)) d.tree = some root'
      ∧ d'.WF ∧ DocTermAll d' ∧ root'.text = d'.str ∧ root'.leaves = d'.toks
      ∧ docItems d'.tree = docItems root'
      ∧ (paragraphs root').length = d.paras.length
      ∧ (∃ cs, d'.lead = cGaps cs)
      ∧ (∀ pg ∈ d'.paras, pg.2 = [] ∨ ∃ cs, pg.2 = Gap.blank :: cGaps cs) := by
  obtain ⟨zs, tr, hzs, htr, hlen, hres⟩ := deb822Wrap_docS_gen cfg ele ple fmt d hwf outE hout
  have hok : ∀ z ∈ zs, z.2.OK := fun z hz => (hzs z hz).1
  have hd' := mkDoc_wf zs tr hzs htr
  have hleaves : (Node.node Kind.ROOT (docOut (zs.map zgrp) (tr.map cTok))).leaves = (mkDoc zs tr).toks := by
    rw [leaves_node]; exact leaves_docOut zs tr hok
  refine ⟨_, mkDoc zs tr, hres, hd', mkDoc_termAll zs tr hzs htr, ?_, hleaves, ?_, ?_,
    (mkDoc_shape zs tr).1, (mkDoc_shape zs tr).2⟩
  · rw [← tokText_leaves, hleaves, tokText_docToks _ hd']
  · rw [mkDoc_items zs tr hok]
    simp only [docItems, paragraphs_docOut, List.map_map]
    rfl
  · rw [paragraphs_docOut, List.length_map, hlen]

/-! ### fields whose formatter output is a single line -/

/-- the field a single-line formatter output is written as -/
def lineEntry (cfg : WrapCfg) (key out : Str) : EntryS :=
  { key := key,
    ws := if rbFits (optTok .VALUE out) (utf8Len key) cfg.maxLineLengthOneLiner then [] else [' '],
    v := out, nl := true, conts := [] }

theorem entryOut_line (cfg : WrapCfg) (f : Str → Str → Str) (e : EntryS) (more : Bool)
    (hwf : e.WF) (ht : e.Term more) (hc : IndentOK cfg)
    (hn : NoNl (f e.key (rawText e))) (hh : HeadFails isIndent (f e.key (rawText e))) :
    EntryOut cfg (some f) e (lineEntry cfg e.key (f e.key (rawText e))) := by
  refine ⟨?_, ⟨hwf.key_ok, ?_, ⟨hn, fun c hc => hh c hc⟩, by simp [lineEntry]⟩, ⟨rfl, by simp [lineEntry]⟩⟩
  · rw [entryWrap_fmt_node cfg f e more hwf ht hc, fmtToks_line _ hn hh, rebuildValue_line]
    generalize f e.key (rawText e) = out
    have hT : ∀ ws : Str, (EntryS.node ⟨e.key, ws, out, true, []⟩) = .node .ENTRY
        (Node.tok .KEY e.key :: Node.tok .COLON [':'] :: ((optTok .WHITESPACE ws).map tk
          ++ ((optTok .VALUE out).map tk ++ [Node.tok .NEWLINE ['\n']]))) := by
      intro ws
      simp [EntryS.node, EntryS.toks_eq, EntryS.tailToks, nlTok, contsToks]
    unfold lineEntry
    by_cases hfit : rbFits (optTok Kind.VALUE out) (utf8Len e.key) cfg.maxLineLengthOneLiner = true
    · rw [if_pos hfit, if_pos hfit, hT]
      rfl
    · rw [if_neg hfit, if_neg hfit, hT]
      rfl
  · simp only [lineEntry]
    split
    · exact allIndent_nil
    · exact allIndent_space


/-! ### fields whose formatter output consists of good lines -/

/-- lines a formatter may return for the re-read theorem: at least one; every line non-empty, without
    CR / LF, not starting with a space or tab; no line after the first starts with `#` (finding
    F-C07-10: such a line reads back as a comment) -/
structure GoodLines (L : List Str) : Prop where
  ne : L ≠ []
  line : ∀ l ∈ L, NoNl l ∧ ∃ c cs, l = c :: cs ∧ isIndent c = false
  nohash : ∀ l ∈ L.tail, l.head? ≠ some '#'

/-- the field whose content tokens are these lines -/
def linesEntry (key : Str) (L : List Str) : EntryS :=
  { key := key, ws := [], v := L.headD [], nl := true, conts := L.tail.map (mkCont 1) }

theorem linesEntry_wf (key : Str) (hk : ValidKey key) (L : List Str) (h : GoodLines L) : (linesEntry key L).WF := by
  cases L with
  | nil => exact absurd rfl h.ne
  | cons l r =>
    refine ⟨hk, allIndent_nil, ?_, ?_⟩
    · obtain ⟨hn, c, cs, rfl, hi⟩ := h.line l (by simp)
      exact ⟨hn, fun x hx => by
        have hx' : x = c := by simpa [linesEntry] using hx.symm
        subst hx'; exact hi⟩
    · intro c hc
      simp only [linesEntry, List.tail_cons, List.mem_map] at hc
      obtain ⟨t, ht, rfl⟩ := hc
      obtain ⟨hn, x, xs, rfl, hi⟩ := h.line t (by simp [ht])
      refine mkCont_wf 1 _ (by decide) ⟨hn, x, xs, rfl, hi, ?_⟩
      intro hx
      exact h.nohash (x :: xs) (by simpa using ht) (by simp [hx])

theorem linesEntry_cts (key : Str) (L : List Str) (h : GoodLines L) : (linesEntry key L).cts = joinNL L := by
  cases L with
  | nil => exact absurd rfl h.ne
  | cons l r =>
    have hl : l ≠ [] := by
      obtain ⟨_, c, cs, rfl, _⟩ := h.line l (by simp); simp
    have hmap : (r.map (mkCont 1)).map ContS.text = r := by
      simp [List.map_map, Function.comp_def, mkCont]
    cases r with
    | nil => simp [linesEntry, EntryS.cts, hl, optTok, joinNL]
    | cons u r' =>
      simp only [linesEntry, EntryS.cts, List.headD_cons, List.tail_cons, List.map_cons]
      rw [if_neg (by simp)]
      have := hmap
      simp only [List.map_cons] at this
      rw [this]
      simp [optTok, hl, joinNL]

theorem lineToks_plain (l : Str) (h : ∃ c cs, l = c :: cs ∧ isIndent c = false) : lineToks l = [(.VALUE, l)] := by
  obtain ⟨c, cs, rfl, hi⟩ := h
  simp [lineToks, List.takeWhile_cons, List.dropWhile_cons, hi, optTok]

theorem linesToks_plain (L : List Str) (h : ∀ l ∈ L, ∃ c cs, l = c :: cs ∧ isIndent c = false) :
    linesToks L = joinNL L := by
  induction L with
  | nil => rfl
  | cons l r ih =>
    cases r with
    | nil => simp only [linesToks, joinNL]; exact lineToks_plain l (h l (by simp))
    | cons u r' =>
      simp only [linesToks, joinNL]
      rw [lineToks_plain l (h l (by simp)), ih fun x hx => h x (by simp [hx])]
      rfl

theorem tokText_joinNL (L : List Str) : tokText (joinNL L) = Text.join ['\n'] L := by
  induction L with
  | nil => rfl
  | cons l r ih =>
    cases r with
    | nil => simp [joinNL, Text.join]
    | cons u r' => simp only [joinNL, tokText_cons, ih, Text.join]; simp

theorem fmtToks_lines (L : List Str) (h : GoodLines L) : fmtToks (Text.join ['\n'] L) = joinNL L := by
  unfold fmtToks
  rw [← tokText_joinNL, tokText_joinNL_split L h.ne fun l hl => (h.line l hl).1]
  rw [lexLines_eq L fun l hl => (h.line l hl).1]
  exact linesToks_plain L fun l hl => (h.line l hl).2

/-- a formatter whose output for the field consists of good lines (joined by LF, no trailing LF):
    the result is the node of a well-formed, fully terminated field -/
theorem entryOut_lines (cfg : WrapCfg) (f : Str → Str → Str) (e : EntryS) (more : Bool)
    (hwf : e.WF) (ht : e.Term more) (hc : IndentOK cfg) (L : List Str) (hL : GoodLines L)
    (hout : f e.key (rawText e) = Text.join ['\n'] L) :
    EntryOut cfg (some f) e ((linesEntry e.key L).wrap cfg) := by
  have hEwf := linesEntry_wf e.key hwf.key_ok L hL
  refine ⟨?_, wrap_wf cfg _ hEwf hc, wrap_termAll cfg _⟩
  rw [entryWrap_fmt_node cfg f e more hwf ht hc, hout, fmtToks_lines L hL, ← linesEntry_cts e.key L hL]
  have hind : indOf cfg e = indOf cfg (linesEntry e.key L) := by
    unfold indOf; cases cfg.indentation <;> rfl
  rw [hind]
  have := rebuildValue_cts cfg (linesEntry e.key L) hEwf
  rw [show (linesEntry e.key L).key = e.key from rfl] at this
  rw [this]
  simp only [EntryS.node, EntryS.toks_eq, wrap_key, List.map_cons]
  rfl

end Deb822Verif.Deb

namespace Deb822Verif.Ctl
open Deb822Verif Deb Node Spec

/-- every field of a well-formed control file that is not `Uploaders` is reformatted to the node of a
    well-formed, fully terminated field: relationship fields to the canonical text on one line, the
    others as without a formatter -/
theorem entryOut_control (cfg : WrapCfg) (e : EntryS) (more : Bool) (hwf : e.WF) (ht : e.Term more)
    (hc : IndentOK cfg) (hu : e.key ≠ kUploaders)
    (hrel : relFields.contains e.key = true → ∃ f : RelSpec.FieldA, f.WF ∧ f.str = rawText e) :
    ∃ eo, EntryOut cfg (some formatField) e eo := by
  by_cases hr : relFields.contains e.key = true
  · obtain ⟨f, hf, hs⟩ := hrel hr
    have hout : formatField e.key (rawText e) = canonOf f := by rw [← hs]; exact formatField_rel e.key hr f hf
    exact ⟨_, entryOut_line cfg formatField e more hwf ht hc
      (by rw [hout]; intro c hcm; exact (canonChar_plain c (canonOf_chars f hf c hcm)).1)
      (by rw [hout]; intro c hcm; exact canonOf_head f hf c hcm)⟩
  · have hr' : relFields.contains e.key = false := by simpa using hr
    have hid : ∀ v, formatField e.key v = v := by
      intro v
      have : formatFieldO e.key v = some v := by
        unfold formatFieldO; rw [if_neg hu, hr']; rfl
      simp [formatField, this]
    exact ⟨e.wrap cfg, (entryWrap_other_fixed cfg formatField e more hwf ht hc hid).1,
      wrap_wf cfg e hwf hc, wrap_termAll cfg e⟩

end Deb822Verif.Ctl

namespace Deb822Verif.Ctl
open Deb822Verif Deb Node Spec

/-! ### `Source::wrap_and_sort` / `Binary::wrap_and_sort`: one paragraph -/

/-- the hypothesis on the relationship fields of one paragraph -/
def ParaRelOK (p : ParaS) : Prop :=
  ∀ e ∈ paraEntries p, relFields.contains e.key = true → ∃ f : RelSpec.FieldA, f.WF ∧ f.str = rawText e

theorem paraSrc (p : ParaS) (more : Bool) (hwf : p.WF) (ht : p.Term more) (hrel : ParaRelOK p) :
    ∀ e ∈ entries p.node, ∃ x : EntryS, e = x.node ∧ x.WF ∧ (∃ m, x.Term m)
      ∧ (relFields.contains x.key = true → ∃ f : RelSpec.FieldA, f.WF ∧ f.str = rawText x) := by
  intro e he
  rw [entries_para] at he
  simp only [List.mem_map] at he
  obtain ⟨x, hx, rfl⟩ := he
  obtain ⟨h1, h2⟩ := paraEntries_props p more hwf ht x hx
  exact ⟨x, rfl, h1, h2, hrel x hx⟩

/-- **`Source` / `Binary::wrap_and_sort` is idempotent** on a well-formed paragraph whose
    relationship fields are well-formed -/
theorem paraWrap_idem (cfg : WrapCfg) (p : ParaS) (more : Bool) (hwf : p.WF) (ht : p.Term more)
    (hc : IndentOK cfg) (hrel : ParaRelOK p) (p' : DNode) (h : paraWrap cfg p.node = some p') :
    paraWrap cfg p' = some p' := by
  obtain ⟨_, hd⟩ := paraWrap_some cfg p.node p' h
  have hsrc := paraSrc p more hwf ht hrel
  have h2 := paragraphWrap_idem_of cfg none (some formatField) (by intro f hf; cases hf) p.node p' hd
    (fun e e' he hee => by
      obtain ⟨x, rfl, h1, ⟨m, h2'⟩, h3⟩ := hsrc e he
      exact entry_fixed cfg x m h1 h2' hc h3 e' hee)
  obtain ⟨ws', hpw', _, _, he', he, _⟩ := paragraphWrap_fmt cfg none formatField p.node p' hd
  have hguard : paraPanics p' = false := by
    unfold paraPanics
    apply List.any_eq_false.2
    intro e' hem
    rw [he'] at hem
    simp only [sortBy, List.mem_map] at hem
    obtain ⟨w0, hw0, rfl⟩ := hem
    obtain ⟨g0, hg0, hr0⟩ := Pointwise.mem_right hpw' w0 hw0
    have hge : g0.2 ∈ entries p.node := by rw [he]; exact List.mem_map_of_mem hg0
    obtain ⟨x, hx, h1, ⟨m, h2'⟩, h3⟩ := hsrc g0.2 hge
    rw [hx] at hr0
    simp [entryPanics_result cfg x m h1 h2' h3 w0.2 hr0.2.1]
  simp [paraWrap, hguard, h2]

/-- **strict re-read of `Source` / `Binary::wrap_and_sort`'s output**: the printed paragraph parses
    strictly to one paragraph with exactly the items the returned paragraph reports -/
theorem paraWrap_reread (cfg : WrapCfg) (p : ParaS) (more : Bool) (hwf : p.WF) (ht : p.Term more)
    (hc : IndentOK cfg) (hrel : ParaRelOK p)
    (hup : ∀ e ∈ paraEntries p, e.key = kUploaders →
      ∃ L, GoodLines L ∧ fmtCommaLines kUploaders (rawText e) = Text.join ['\n'] L) :
    ∃ p' : DNode, paraWrap cfg p.node = some p'
      ∧ ∃ d' : DocS, d'.WF ∧ DocTermAll d' ∧ p'.text = d'.str ∧ parse p'.text = ⟨d'.tree, []⟩
          ∧ docItems d'.tree = [items p'] := by
  classical
  have hout : ∀ e ∈ paraEntries p, ∃ eo, EntryOut cfg (some formatField) e eo := by
    intro e he
    obtain ⟨h1, m', h2⟩ := paraEntries_props p more hwf ht e he
    by_cases hu : e.key = kUploaders
    · obtain ⟨L, hL, hfl⟩ := hup e he hu
      exact ⟨_, entryOut_lines cfg formatField e m' h1 h2 hc L hL (by
        rw [hu, formatField_uploaders]; exact hfl)⟩
    · exact entryOut_control cfg e m' h1 h2 hc hu (hrel e he)
  let outE : EntryS → EntryS := fun e =>
    if h : ∃ eo, EntryOut cfg (some formatField) e eo then Classical.choose h else e
  have houtE : ∀ e ∈ paraEntries p, EntryOut cfg (some formatField) e (outE e) := by
    intro e he
    have h := hout e he
    simp only [outE, dif_pos h]
    exact Classical.choose_spec h
  obtain ⟨pg, hok, hpg⟩ := paragraphWrap_paraS_gen cfg none (some formatField) p more hwf ht outE houtE
  have hnp : paraPanics p.node = false :=
    paraPanics_node p more hwf ht (fun e he => fieldOK_of e (hrel e he))
  refine ⟨pg.node, by simp [paraWrap, hnp, hpg], ?_⟩
  have hzs : ∀ z ∈ [(([] : List Str), pg)], z.2.OK ∧ ∀ c ∈ z.1, NoNl c := by
    intro z hz
    simp only [List.mem_cons, List.not_mem_nil, or_false] at hz
    subst hz; exact ⟨hok, by simp⟩
  have hd' := mkDoc_wf [([], pg)] [] hzs (by simp)
  have hleaves : pg.node.leaves = (mkDoc [([], pg)] []).toks := by
    have := leaves_docOut [([], pg)] [] (fun z hz => (hzs z hz).1)
    simp only [docOut, List.map_cons, List.map_nil, joinParas, commentLines, List.append_nil, docGroup, zgrp,
      termOf_pg pg hok] at this
    simpa using this
  have htext : pg.node.text = (mkDoc [([], pg)] []).str := by
    rw [← tokText_leaves, hleaves, tokText_docToks _ hd']
  refine ⟨mkDoc [([], pg)] [], hd', mkDoc_termAll _ _ hzs (by simp), htext, ?_, ?_⟩
  · rw [htext]; unfold parse; rw [lex_doc _ hd', parse_doc _ hd']
  · rw [mkDoc_items _ _ (fun z hz => (hzs z hz).1)]; rfl

end Deb822Verif.Ctl
