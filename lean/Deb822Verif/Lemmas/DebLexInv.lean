import Deb822Verif.Model.DebLex
/-!
  Invariants of the token list produced by `lex` for an ARBITRARY text, stated on neighbouring
  tokens (so that they survive taking a suffix, which is what the two reader loops do):

  * a VALUE token is followed by a NEWLINE token (or nothing): it runs to the end of its line;
  * a WHITESPACE token never follows a NEWLINE token and is never the first token: at the start of
    a line a run of blanks is an INDENT token;
  * the text of a VALUE token contains no line terminator (`\n`, `\r`).
-/
namespace Deb822Verif.Deb

/-- what the kind of a token says about the kind of the next one -/
def Follows (a b : Kind) : Prop := (a = .VALUE → b = .NEWLINE) ∧ (a = .NEWLINE → b ≠ .WHITESPACE)

/-- a VALUE token holds no line terminator -/
def ValOK (t : Tok) : Prop := t.1 = .VALUE → ∀ c ∈ t.2, isNewline c = false

/-- `Lx p ts`: `ts` can follow a token of kind `p` in a lexer output. `Lx .NEWLINE` is "at the
    start of a line" (also the start of the text); `Lx .KEY` puts no condition on the first token. -/
def Lx (p : Kind) : List Tok → Prop
  | [] => True
  | t :: ts => Follows p t.1 ∧ ValOK t ∧ Lx t.1 ts

theorem Lx_nil (p : Kind) : Lx p [] := trivial

theorem Lx_tail {p : Kind} {t : Tok} {ts : List Tok} (h : Lx p (t :: ts)) : Lx t.1 ts := h.2.2

theorem follows_key (b : Kind) : Follows .KEY b := ⟨(fun h => nomatch h), (fun h => nomatch h)⟩

/-- forget what came before -/
theorem Lx_weaken {p : Kind} {ts : List Tok} (h : Lx p ts) : Lx .KEY ts := by
  cases ts with
  | nil => trivial
  | cons t ts => exact ⟨follows_key _, h.2.1, h.2.2⟩

theorem Lx_append_right {p : Kind} (a b : List Tok) (h : Lx p (a ++ b)) : Lx .KEY b := by
  induction a generalizing p with
  | nil => exact Lx_weaken h
  | cons t a ih => exact ih (Lx_tail h)

theorem Lx_dropWhile {p : Kind} (f : Tok → Bool) (ts : List Tok) (h : Lx p ts) : Lx .KEY (ts.dropWhile f) := by
  induction ts generalizing p with
  | nil => trivial
  | cons t ts ih =>
    simp only [List.dropWhile_cons]
    split
    · exact ih (Lx_tail h)
    · exact Lx_weaken h

/-- after a NEWLINE token we are at the start of a line -/
theorem Lx_after_nl {p : Kind} {n : Tok} {ts : List Tok} (h : Lx p (n :: ts)) (hn : n.1 = .NEWLINE) :
    Lx .NEWLINE ts := by
  have := Lx_tail h; rwa [hn] at this

/-- a VALUE token ends its line -/
theorem Lx_after_value {p : Kind} {x : Str} {ts : List Tok} (h : Lx p ((.VALUE, x) :: ts)) :
    ts = [] ∨ ∃ n r, ts = n :: r ∧ n.1 = .NEWLINE := by
  cases ts with
  | nil => exact Or.inl rfl
  | cons n r => exact Or.inr ⟨n, r, rfl, (Lx_tail h).1.1 rfl⟩

theorem Lx_value_ok {p : Kind} {x : Str} {ts : List Tok} (h : Lx p ((.VALUE, x) :: ts)) :
    ∀ c ∈ x, isNewline c = false := h.2.1 rfl

theorem Lx_linestart_not_ws {t : Tok} {ts : List Tok} (h : Lx .NEWLINE (t :: ts)) : t.1 ≠ .WHITESPACE :=
  h.1.2 rfl

/-! ### the lexer establishes the invariant -/

/-- the next character after the remaining input of a VALUE token is a line terminator -/
theorem head_dropWhile_notNl (rest : Str) :
    ∀ c, (rest.dropWhile fun c => !isNewline c).head? = some c → isNewline c = true := by
  induction rest with
  | nil => intro c h; simp at h
  | cons a rest ih =>
    intro c h
    simp only [List.dropWhile_cons] at h
    split at h
    · exact ih c h
    · rename_i hn; simp at h; subst h; simpa using hn

theorem mem_takeWhile_notNl (rest : Str) : ∀ c ∈ rest.takeWhile (fun c => !isNewline c), isNewline c = false := by
  induction rest with
  | nil => intro c h; simp at h
  | cons a rest ih =>
    intro c h
    simp only [List.takeWhile_cons] at h
    split at h
    · rename_i ha
      simp only [List.mem_cons] at h
      rcases h with rfl | h
      · simpa using ha
      · exact ih c h
    · simp at h

/-- a line terminator is lexed as NEWLINE, whatever the state -/
theorem lexStep_of_newline (st : LexState) (c : Char) (rest : Str) (h : isNewline c = true) :
    (lexStep st c rest).1.1 = .NEWLINE := by
  have hc : (c == ':') = false := by
    simp only [isNewline, Bool.or_eq_true, beq_iff_eq] at h
    rcases h with rfl | rfl <;> decide
  simp [lexStep, hc, h]

/-- at the start of a line no WHITESPACE token is produced -/
theorem lexStep_sol_not_ws (st : LexState) (c : Char) (rest : Str) (h : st.sol = true) :
    (lexStep st c rest).1.1 ≠ .WHITESPACE := by
  unfold lexStep
  (repeat' split) <;> simp_all

/-- after NEWLINE the state is "start of line" -/
theorem lexStep_nl_sol (st : LexState) (c : Char) (rest : Str) (h : (lexStep st c rest).1.1 = .NEWLINE) :
    (lexStep st c rest).2.1.sol = true := by
  unfold lexStep at h ⊢
  (repeat' split) <;> simp_all

/-- after VALUE the remaining input starts with a line terminator (or is empty) -/
theorem lexStep_value_rest (st : LexState) (c : Char) (rest : Str) (h : (lexStep st c rest).1.1 = .VALUE) :
    ∀ x, (lexStep st c rest).2.2.head? = some x → isNewline x = true := by
  unfold lexStep at h ⊢
  (repeat' split) <;> simp_all
  exact head_dropWhile_notNl rest

theorem lexStep_valOK (st : LexState) (c : Char) (rest : Str) : ValOK (lexStep st c rest).1 := by
  intro h x hx
  unfold lexStep at h hx
  (repeat' split at h) <;> simp_all
  rcases hx with rfl | hx
  · assumption
  · exact mem_takeWhile_notNl rest x hx

theorem lexAux_lx (st : LexState) (input : Str) : ∀ p : Kind,
    (p = .NEWLINE → st.sol = true) →
    (p = .VALUE → ∀ c, input.head? = some c → isNewline c = true) →
    Lx p (lexAux st input) := by
  fun_induction lexAux st input with
  | case1 => intro p _ _; trivial
  | case2 st c rest r ih =>
    intro p h1 h2
    refine ⟨⟨?_, ?_⟩, lexStep_valOK st c rest, ih _ ?_ ?_⟩
    · intro hp; exact lexStep_of_newline st c rest (h2 hp c rfl)
    · intro hp; exact lexStep_sol_not_ws st c rest (h1 hp)
    · exact lexStep_nl_sol st c rest
    · exact lexStep_value_rest st c rest

/-- **lexer invariant**: the token list of any text is a start-of-line token list -/
theorem lex_lx (s : Str) : Lx .NEWLINE (lex s) :=
  lexAux_lx initState s .NEWLINE (fun _ => rfl) (by intro h; cases h)

end Deb822Verif.Deb
