import Deb822Verif.Lemmas.DebReject
/-! An *orphan continuation line* — indentation followed by text, placed where there is no field it
    could continue (first line of the document, or after a blank / comment line that follows a
    blank line) — makes the parser report the error "expected key".

    `parse_entry` (lossless.rs:158-171) sees an INDENT token where a KEY is expected; the model
    (`keyPart`) mirrors that. `DebReject.lean` (`BadLine`, `BadStart`) covers lines that do not
    begin with indentation; this file covers the ones that do. -/
namespace Deb822Verif.Deb
open Deb822Verif Node Spec

/-- token lists that begin with an INDENT token -/
def IndentStart : List Tok → Prop
  | [] => False
  | t :: _ => t.1 = .INDENT

theorem indentStart_head {R : List Tok} (h : IndentStart R) : ∃ t ts, R = t :: ts ∧ t.1 = .INDENT := by
  cases R with
  | nil => exact absurd h (by simp [IndentStart])
  | cons t ts => exact ⟨t, ts, rfl, h⟩

/-! ### the parser: INDENT where a key is expected -/

theorem keyPart_indent (t : Tok) (ts : List Tok) (h : t.1 = .INDENT) :
    keyPart (t :: ts) = ⟨[Node.node .ERROR [tk t]], ["expected key"], ts⟩ := by
  have : t.1 ≠ .KEY := by rw [h]; simp
  simp [keyPart, this]

theorem entryBody_indent (t : Tok) (ts : List Tok) (h : t.1 = .INDENT) :
    "expected key" ∈ (entryBody (t :: ts)).errs := by
  simp only [entryBody, keyPart_indent t ts h]
  simp

theorem parseEntry_indent (t : Tok) (ts : List Tok) (h : t.1 = .INDENT) :
    "expected key" ∈ (parseEntry (t :: ts)).errs := by
  have hc : t.1 ≠ .COMMENT := by rw [h]; simp
  have hn : t.1 ≠ .NEWLINE := by rw [h]; simp
  have he : endsParagraph (t :: ts) = false := by simp [endsParagraph, hn]
  simp only [parseEntry, commentLoop_id t ts hc, he, Bool.false_eq_true, Bool.or_self, ↓reduceIte,
    List.nil_append]
  exact entryBody_indent t ts h

theorem paraLoop_indent (R : List Tok) (h : IndentStart R) : "expected key" ∈ (paraLoop R).errs := by
  obtain ⟨t, ts, rfl, hk⟩ := indentStart_head h
  have hn : t.1 ≠ .NEWLINE := by rw [hk]; simp
  rw [paraLoop_step t ts hn]
  exact List.mem_append_left _ (parseEntry_indent t ts hk)

theorem indentStart_headNot_blank {R : List Tok} (h : IndentStart R) :
    HeadNot [.WHITESPACE, .COMMENT, .NEWLINE] R := by
  obtain ⟨t, ts, rfl, hk⟩ := indentStart_head h
  apply headNot_cons
  rw [hk]; simp

/-! ### an INDENT token after a comment line inside a paragraph -/

def _root_.Deb822Verif.Spec.PItem.isComment : PItem → Bool
  | .comment _ _ => true
  | .entry _ => false

/-- the list of items ends with a comment line -/
def endsComment (is : List PItem) : Prop := is.getLast?.map PItem.isComment = some true

instance (is : List PItem) : Decidable (endsComment is) := by unfold endsComment; exact inferInstance

theorem headNot_items_cons (i : PItem) (is : List PItem) (rest : List Tok) :
    HeadNot [.INDENT] (itemsToks (i :: is) ++ rest) := by
  cases i with
  | comment t nl =>
    simp only [itemsToks_cons, PItem.toks, List.cons_append]; exact headNot_cons _ _ _ (by simp)
  | entry e =>
    simp only [itemsToks_cons, PItem.toks, EntryS.toks, List.cons_append]
    exact headNot_cons _ _ _ (by simp)

/-- the paragraph loop runs through items the last of which is a comment line; the INDENT token that
    follows is then met where a key is expected -/
theorem paraLoop_items_indent (is : List PItem) (R : List Tok)
    (hne : ∀ i ∈ is, ∀ e, i = .entry e → ∀ c ∈ e.conts, c.text ≠ [])
    (hterm : itemsTermT is R) (hR : IndentStart R) (hlast : endsComment is) :
    "expected key" ∈ (paraLoop (itemsToks is ++ R)).errs := by
  have hRne : R ≠ [] := by
    obtain ⟨t, ts, rfl, _⟩ := indentStart_head hR; simp
  induction is with
  | nil => simp [endsComment] at hlast
  | cons i is ih =>
    cases is with
    | nil =>
      cases i with
      | entry e => simp [endsComment, PItem.isComment] at hlast
      | comment t nl =>
        have hnl : nl = true := by
          rcases hterm.1 with h | ⟨_, h⟩
          · exact h
          · exact absurd h hRne
        subst hnl
        simp only [itemsToks, PItem.toks, nlTok, List.map_cons, List.map_nil, List.flatten_cons,
          List.flatten_nil, List.append_nil, ↓reduceIte, List.cons_append, List.nil_append]
        rw [paraLoop_comment]
        exact paraLoop_indent R hR
    | cons j js =>
      have hlast' : endsComment (j :: js) := by
        simpa [endsComment, List.getLast?_cons_cons] using hlast
      have hrec := fun ht => ih (fun x hx => hne x (by simp [hx])) ht hlast'
      cases i with
      | comment t nl =>
        obtain ⟨h1, h2⟩ := hterm
        have hnl : nl = true := by
          rcases h1 with h | ⟨h, _⟩
          · exact h
          · simp at h
        subst hnl
        simp only [itemsToks_cons (.comment t true), PItem.toks, nlTok, ↓reduceIte, List.cons_append,
          List.nil_append]
        rw [paraLoop_comment]
        exact hrec h2
      | entry e =>
        obtain ⟨h1, h2⟩ := hterm
        have hne' := hne (.entry e) (by simp) e rfl
        simp only [itemsToks_cons (.entry e), PItem.toks, List.append_assoc]
        have hpe := parseEntry_entry e (itemsToks (j :: js) ++ R) hne' h1 (headNot_items_cons j js R)
        rw [paraLoop_step' _ (by simp [EntryS.toks, endsParagraph]), hpe]
        simp only [List.nil_append]
        exact hrec h2

/-- the last paragraph (if there is one) is followed by at least one blank / comment line (with
    `parasTermR` the first of them is a blank line), or its last line is a comment line -/
def parasClosed (ps : List (ParaS × List Gap)) : Prop :=
  ∀ pg, ps.getLast? = some pg → pg.2 ≠ [] ∨ endsComment pg.1.rest

instance (ps : List (ParaS × List Gap)) : Decidable (parasClosed ps) :=
  decidable_of_iff ((ps.getLast?.all fun pg => decide (pg.2 ≠ [] ∨ endsComment pg.1.rest)) = true) (by
    unfold parasClosed; cases ps.getLast? <;> simp)

theorem parasClosed_tail (pg q : ParaS × List Gap) (ps : List (ParaS × List Gap))
    (h : parasClosed (pg :: q :: ps)) : parasClosed (q :: ps) := by
  intro x hx
  exact h x (by rw [List.getLast?_cons_cons]; exact hx)

theorem endsComment_cons (i : PItem) (is : List PItem) (h : endsComment is) : endsComment (i :: is) := by
  cases is with
  | nil => simp [endsComment] at h
  | cons j js => simpa [endsComment, List.getLast?_cons_cons] using h

/-- **the parser reports "expected key"** when an INDENT token follows a fully terminated document
    prefix whose last line is not a field or continuation line -/
theorem rootLoop_indent (ps : List (ParaS × List Gap)) : ∀ (g0 : List Gap) (R : List Tok),
    IndentStart R → (∀ pg ∈ ps, pg.1.WF) → parasTermR ps → parasClosed ps →
    gapsTermT g0 (parasToks ps ++ R) →
    "expected key" ∈ (rootLoop (gapsToks g0 ++ (parasToks ps ++ R))).errs := by
  induction ps with
  | nil =>
    intro g0 R hR _ _ _ hg
    simp only [parasToks, List.map_nil, List.flatten_nil, List.nil_append] at hg ⊢
    obtain ⟨t, ts, rfl, hk⟩ := indentStart_head hR
    have hs := skipWsNl_gaps g0 (t :: ts) hg (indentStart_headNot_blank hR)
    rw [rootLoop_of_cons _ (by simp) _ _ _ hs]
    exact List.mem_append_left _ (paraLoop_indent _ hR)
  | cons pg ps ih =>
    obtain ⟨p, g⟩ := pg
    intro g0 R hR hwf hterm hcl hg
    have hp := hwf (p, g) (by simp)
    obtain ⟨r, hr⟩ := para_toks_head p (gapsToks g ++ (parasToks ps ++ R))
    have htoks : parasToks ((p, g) :: ps) ++ R = p.toks ++ (gapsToks g ++ (parasToks ps ++ R)) := by
      rw [parasToks_cons]; simp
    rw [htoks] at hg ⊢
    have hs := skipWsNl_gaps g0 _ hg (by rw [hr]; exact headNot_cons _ _ _ (by simp))
    rw [hr] at hs
    have hne : gapsToks g0 ++ ((Kind.KEY, p.first.key) :: r) ≠ [] := by simp
    have hstep := rootLoop_of_cons _ hne _ _ _ hs
    rw [hr, hstep, ← hr]
    have hpt : p.Term true := by
      cases ps with
      | nil => exact hterm.1
      | cons q ps' => exact hterm.1
    have hitems := para_termT p (gapsToks g ++ (parasToks ps ++ R)) hpt
    have hgshape : (g = [] ∧ ps = [] ∧ endsComment p.rest) ∨ ∃ g', g = .blank :: g' := by
      cases ps with
      | nil =>
        rcases hterm.2.1 with h | h
        · rcases hcl (p, g) (by simp) with h' | h'
          · exact absurd h h'
          · exact Or.inl ⟨h, rfl, h'⟩
        · exact Or.inr h
      | cons q ps' => exact Or.inr hterm.2.1
    have hgterm : gapsTerm g true := by
      cases ps with
      | nil => exact hterm.2.2
      | cons q ps' => exact hterm.2.2.1
    have hrest : parasTermR ps := by
      cases ps with
      | nil => trivial
      | cons q ps' => exact hterm.2.2.2
    have hcl' : parasClosed ps := by
      cases ps with
      | nil => intro x hx; simp at hx
      | cons q ps' => exact parasClosed_tail _ _ _ hcl
    rcases hgshape with ⟨hg0, hps, hec⟩ | ⟨g', hg'⟩
    · -- the line follows a comment line of the last paragraph: it is met inside that paragraph
      subst hg0 hps
      simp only [gapsToks, List.map_nil, List.flatten_nil, List.nil_append, parasToks] at hitems ⊢
      have := paraLoop_items_indent (PItem.entry p.first :: p.rest) R (para_entries_ne p hp) hitems hR
        (endsComment_cons _ _ hec)
      simp only [itemsToks_cons, PItem.toks, List.append_assoc] at this
      have hpt2 : p.toks ++ R = p.first.toks ++ (itemsToks p.rest ++ R) := by simp [ParaS.toks]
      rw [hpt2]
      exact List.mem_append_left _ this
    · -- a blank line ends the paragraph; carry on with the rest of the document
      subst hg'
      have hends : endsParagraph (gapsToks (Gap.blank :: g') ++ (parasToks ps ++ R)) = true := by
        simp [gapsToks, Gap.toks, endsParagraph]
      have hpl := paraLoop_para p true _ hp hpt (by simp) hends
      rw [hpl]
      simp only [List.nil_append]
      apply ih (Gap.blank :: g') R hR (fun x hx => hwf x (by simp [hx])) hrest hcl'
      exact gapsTermT_of _ true _ hgterm (by simp)

/-! ### the lexer on an orphan continuation line -/

/-- an orphan continuation line (its text; where it stands is said by the theorems): newline-free,
    non-empty indentation (spaces / tabs) followed by non-empty text that begins neither with a
    space / tab nor with '#' -/
structure OrphanLine (l : Str) : Prop where
  noNl : NoNl l
  shape : ∃ ws c cs, l = ws ++ c :: cs ∧ ws ≠ [] ∧ AllIndent ws ∧ isIndent c = false ∧ c ≠ '#'

/-- the lexer turns it into INDENT, VALUE — whatever the text contains (':' included) -/
theorem lex_orphan (l tail : Str) (ho : OrphanLine l) (he : LineEnd tail) :
    ∃ ws r, l = ws ++ r ∧
      lexAux initState (l ++ tail) =
        (.INDENT, ws) :: (.VALUE, r) :: lexAux { sol := true, colon := 0, indent := ws.length } tail := by
  obtain ⟨ws, c, cs, rfl, hne, hws, hci, hch⟩ := ho.shape
  refine ⟨ws, c :: cs, rfl, ?_⟩
  have hvc : ValidCont (c :: cs) :=
    ⟨fun x hx => ho.noNl x (by simp only [List.mem_append]; exact Or.inr hx), c, cs, rfl, hci, hch⟩
  exact lex_contLine ws (c :: cs) tail hne hws hvc he

theorem lex_orphan_start (l tail : Str) (ho : OrphanLine l) (he : LineEnd tail) :
    IndentStart (lexAux initState (l ++ tail)) := by
  obtain ⟨ws, r, _, h⟩ := lex_orphan l tail ho he
  rw [h]; rfl

/-! ### documents whose last line is not a field or continuation line -/

/-- the last line of the document is not a field or continuation line: the document has no
    paragraph (blank / comment lines only, possibly none), or its last paragraph is followed by at
    least one blank / comment line (the first of which is a blank line, by `DocTermAll`), or the last
    line of its last paragraph is a comment line -/
def ClosedEnd (d : DocS) : Prop := parasClosed d.paras

instance (d : DocS) : Decidable (ClosedEnd d) := by unfold ClosedEnd; exact inferInstance

/-- the blank / comment lines at the very end of the document -/
def lastGap (d : DocS) : List Gap :=
  match d.paras.getLast? with
  | none => d.lead
  | some pg => pg.2

/-- the document is empty, or its last line is a blank line -/
def EndsBlank (d : DocS) : Prop := (d.lead = [] ∧ d.paras = []) ∨ (lastGap d).getLast? = some .blank

theorem EndsBlank.closed {d : DocS} (h : EndsBlank d) : ClosedEnd d := by
  intro pg hpg
  rcases h with ⟨_, h⟩ | h
  · rw [h] at hpg; simp at hpg
  · left
    intro he
    simp only [lastGap, hpg, he] at h
    simp at h

instance (d : DocS) : Decidable (EndsBlank d) := by unfold EndsBlank; exact inferInstance

/-- **rejection**: an orphan continuation line after any well-formed, fully terminated document whose
    last line is not a field or continuation line — whatever follows the orphan line — makes the
    parser report "expected key" -/
theorem parse_orphan_line (d : DocS) (h : d.WF) (ha : DocTermAll d) (hc : ClosedEnd d) (l tail : Str)
    (ho : OrphanLine l) (he : LineEnd tail) :
    "expected key" ∈ (parse (d.str ++ (l ++ tail))).errors := by
  unfold parse
  rw [lex_doc_rest d h ha]
  have hR := lex_orphan_start l tail ho he
  have hg : gapsTermT d.lead (parasToks d.paras ++ lexAux initState (l ++ tail)) :=
    gapsTermT_of d.lead true _ ha.lead (by simp)
  have := rootLoop_indent d.paras d.lead _ hR (fun pg hpg => (h.paras_ok pg hpg).1) ha.paras hc hg
  simpa [parseTokens, DocS.toks] using this

end Deb822Verif.Deb
