import Deb822Verif.Lemmas.CtlWrapMoreRel
/-!
  The lines of the `Uploaders` formatter's output (`fmtCommaLines`: split at `','`, trim, join with
  `",\n"`) for the raw text of a well-formed field.

  `lineOK g b s`: scanning `s`, every character that starts a line (the first one when `b`, and every
  one behind a `'\n'`) satisfies `g`. It is inherited by infixes (`lineOK_infix`), hence by the trimmed
  pieces of the raw text, and rebuilt over the `",\n"` joins (`lineOK_join`).
  * with `g = goodC` (not a space / tab / LF): every line of the output is non-empty and does not
    start with a blank, except that the last line may be empty (`LinesOK`) — the output of a value
    with a trailing comma ends with LF;
  * with `g = (· ≠ '#')`: no line after the first starts with `#` as soon as no element after the first
    does (`hashLine_of_elems`) — the trigger of finding F-C07-10 in terms of the input.
-/
namespace Deb822Verif.Ctl
open Deb822Verif Deb Node Spec Text

/-! ### the scanner -/

def lineOK (g : Char → Bool) : Bool → Str → Bool
  | _, [] => true
  | b, c :: r => (!b || g c) && lineOK g (c == '\n') r

theorem lineOK_nil (g : Char → Bool) (b : Bool) : lineOK g b [] = true := by
  cases b <;> rfl

theorem lineOK_cons (g : Char → Bool) (b : Bool) (c : Char) (r : Str) :
    lineOK g b (c :: r) = ((!b || g c) && lineOK g (c == '\n') r) := by
  cases b <;> rfl

theorem lineOK_weaken (g : Char → Bool) (s : Str) (h : lineOK g true s = true) : lineOK g false s = true := by
  cases s with
  | nil => rfl
  | cons c r =>
    rw [lineOK_cons] at h ⊢
    simp only [Bool.and_eq_true] at h
    simp [h.2]

theorem lineOK_any (g : Char → Bool) (b : Bool) (s : Str) (h : lineOK g true s = true) : lineOK g b s = true := by
  cases b
  · exact lineOK_weaken g s h
  · exact h

theorem lineOK_suffix (g : Char → Bool) (x y : Str) : ∀ b, lineOK g b (x ++ y) = true → lineOK g false y = true := by
  induction x with
  | nil =>
    intro b h
    cases b
    · exact h
    · exact lineOK_weaken g y h
  | cons c x ih =>
    intro b h
    rw [List.cons_append, lineOK_cons] at h
    simp only [Bool.and_eq_true] at h
    exact ih _ h.2

theorem lineOK_prefix (g : Char → Bool) (x y : Str) : ∀ b, lineOK g b (x ++ y) = true → lineOK g b x = true := by
  induction x with
  | nil => intro b _; exact lineOK_nil g b
  | cons c x ih =>
    intro b h
    rw [List.cons_append, lineOK_cons] at h
    rw [lineOK_cons]
    simp only [Bool.and_eq_true] at h ⊢
    exact ⟨h.1, ih _ h.2⟩

theorem lineOK_infix (g : Char → Bool) (a m b : Str) (h : lineOK g false (a ++ m ++ b) = true) :
    lineOK g false m = true := by
  rw [List.append_assoc] at h
  exact lineOK_prefix g m b false (lineOK_suffix g a (m ++ b) false h)

theorem lineOK_append (g : Char → Bool) (r Y : Str) (hY : ∀ b, lineOK g b Y = true) :
    ∀ b, lineOK g b r = true → lineOK g b (r ++ Y) = true := by
  induction r with
  | nil => intro b _; exact hY b
  | cons c r ih =>
    intro b h
    rw [lineOK_cons] at h
    rw [List.cons_append, lineOK_cons]
    simp only [Bool.and_eq_true] at h ⊢
    exact ⟨h.1, ih _ h.2⟩

/-- over text without LF nothing is checked after the first character -/
theorem lineOK_nonl (g : Char → Bool) (x Y : Str) (hx : '\n' ∉ x) :
    lineOK g false (x ++ Y) = lineOK g false Y := by
  induction x with
  | nil => rfl
  | cons c x ih =>
    have hc : (c == '\n') = false := by
      simp only [beq_eq_false_iff_ne]; intro e; apply hx; simp [e]
    rw [List.cons_append, lineOK_cons, hc]
    simp only [Bool.not_false, Bool.true_or, Bool.true_and]
    exact ih (fun hm => hx (by simp [hm]))

/-! ### joins -/

theorem lineOK_sep (g : Char → Bool) (hg : g ',' = true) (J : Str) (hJ : lineOK g true J = true) :
    ∀ b, lineOK g b (',' :: '\n' :: J) = true := by
  intro b
  rw [lineOK_cons, lineOK_cons]
  have e1 : (',' == '\n') = false := by decide
  have e2 : ('\n' == '\n') = true := by decide
  rw [e1, e2, hg, hJ]
  cases b <;> rfl

/-- the first piece is only scanned from inside a line, the others from their first character -/
theorem lineOK_join (g : Char → Bool) (hg : g ',' = true) (P : List Str) :
    ∀ b, (∀ p, P.head? = some p → lineOK g b p = true) → (∀ p ∈ P.tail, lineOK g true p = true) →
      lineOK g b (Text.join [',', '\n'] P) = true := by
  induction P with
  | nil => intro b _ _; exact lineOK_nil g b
  | cons p r ih =>
    intro b h1 h2
    cases r with
    | nil => exact h1 p rfl
    | cons q r' =>
      have hJ : lineOK g true (Text.join [',', '\n'] (q :: r')) = true :=
        ih true (fun x hx => h2 x (by simp only [List.head?_cons, Option.some.injEq] at hx; subst hx; simp))
          (fun x hx => h2 x (by simp only [List.tail_cons] at hx ⊢; simp [hx]))
      show lineOK g b (p ++ [',', '\n'] ++ Text.join [',', '\n'] (q :: r')) = true
      rw [List.append_assoc]
      exact lineOK_append g p _ (lineOK_sep g hg _ hJ) b (h1 p rfl)

/-! ### pieces and trimming are infixes -/

theorem mem_join_infix (sep : Str) (xs : List Str) (q : Str) (hq : q ∈ xs) :
    ∃ a b, Text.join sep xs = a ++ q ++ b := by
  induction xs with
  | nil => cases hq
  | cons x r ih =>
    cases r with
    | nil =>
      simp only [List.mem_cons, List.not_mem_nil, or_false] at hq
      subst hq
      exact ⟨[], [], by simp [Text.join]⟩
    | cons y r' =>
      simp only [List.mem_cons] at hq
      rcases hq with rfl | hq
      · exact ⟨[], sep ++ Text.join sep (y :: r'), by simp [Text.join]⟩
      · obtain ⟨a, b, hab⟩ := ih (by simpa using hq)
        exact ⟨x ++ sep ++ a, b, by simp only [Text.join]; rw [hab]; simp⟩

theorem splitOn_mem_infix (sep : Char) (v q : Str) (hq : q ∈ splitOn sep v) : ∃ a b, v = a ++ q ++ b := by
  have := mem_join_infix [sep] (splitOn sep v) q hq
  rwa [join_splitOn] at this

theorem trim_infix (q : Str) : ∃ a b, q = a ++ trim q ++ b := by
  obtain ⟨t, ht⟩ := trimEnd_prefix (trimStart q)
  refine ⟨q.takeWhile isWhitespace, t, ?_⟩
  show q = q.takeWhile isWhitespace ++ trimEnd (trimStart q) ++ t
  rw [List.append_assoc, ← ht]
  exact (List.takeWhile_append_dropWhile).symm

/-- a trimmed text does not start with white space -/
theorem trim_head (q : Str) : ∀ c, (trim q).head? = some c → isWhitespace c = false := by
  intro c hc
  obtain ⟨t, ht⟩ := trimEnd_prefix (trimStart q)
  have h1 : (trimStart q).head? = some c := by
    rw [ht]
    cases h : trimEnd (trimStart q) with
    | nil =>
      have : trim q = [] := h
      rw [this] at hc; cases hc
    | cons x r =>
      have : trim q = x :: r := h
      rw [this] at hc
      simpa using hc
  exact headFails_dropWhile' isWhitespace q c h1

/-! ### the two instances -/

/-- a character that may start a line of the rebuilt value: not a space, tab or LF -/
def goodC (c : Char) : Bool := !isIndent c && c != '\n'
/-- … that does not turn the line into a comment -/
def goodH (c : Char) : Bool := c != '#'

theorem goodC_of_nonws (c : Char) (h : isWhitespace c = false) : goodC c = true := by
  have h3 : isWs3 c = false := by
    cases h' : isWs3 c with
    | false => rfl
    | true => rw [(ws3_whitespace c h').1] at h; cases h
  simp only [isWs3, Bool.or_eq_false_iff, beq_eq_false_iff_ne] at h3
  simp [goodC, h3.1, h3.2]

/-- the head of a continuation line satisfies both -/
theorem validCont_good (g : Char → Bool) (hg : g = goodC ∨ g = goodH) (t : Str) (ht : ValidCont t) :
    ∃ c cs, t = c :: cs ∧ g c = true ∧ '\n' ∉ cs := by
  obtain ⟨hn, c, cs, rfl, hi, hh⟩ := ht
  refine ⟨c, cs, rfl, ?_, fun hm => ?_⟩
  · rcases hg with rfl | rfl
    · have : c ≠ '\n' := by
        intro e
        have := hn c (by simp)
        rw [e] at this; simp [isNewline] at this
      simp [goodC, hi, this]
    · simp [goodH, hh]
  · have := hn '\n' (by simp [hm])
    simp [isNewline] at this

theorem lineOK_joinNL (g : Char → Bool) (hg : g = goodC ∨ g = goodH) (L : List Str) (hL : ∀ l ∈ L, ValidCont l) :
    lineOK g true (tokText (joinNL L)) = true := by
  induction L with
  | nil => rfl
  | cons l r ih =>
    obtain ⟨c, cs, rfl, hc, hcs⟩ := validCont_good g hg l (hL l (by simp))
    have hcn : (c == '\n') = false := by
      rcases hL (c :: cs) (by simp) with ⟨hn, _⟩
      have := hn c (by simp)
      simp only [isNewline, Bool.or_eq_false_iff, beq_eq_false_iff_ne] at this
      simp [this.1]
    cases r with
    | nil =>
      simp only [joinNL, tokText_cons, tokText_nil, List.append_nil]
      rw [lineOK_cons, hc, hcn]
      have := lineOK_nonl g cs [] hcs
      rw [List.append_nil] at this
      rw [this]; rfl
    | cons u r' =>
      have ih' := ih fun x hx => hL x (by simp [hx])
      simp only [joinNL, tokText_cons]
      show lineOK g true (c :: (cs ++ (['\n'] ++ tokText (joinNL (u :: r'))))) = true
      rw [lineOK_cons, hc, hcn, lineOK_nonl g cs _ hcs]
      show (true && lineOK g false ('\n' :: tokText (joinNL (u :: r')))) = true
      rw [lineOK_cons]
      have e2 : ('\n' == '\n') = true := by decide
      rw [e2, ih']; rfl

/-- in the raw text of a well-formed field every character behind a LF is good -/
theorem lineOK_rawText (g : Char → Bool) (hg : g = goodC ∨ g = goodH) (e : EntryS) (hwf : e.WF) :
    lineOK g false (rawText e) = true := by
  have hfirst : '\n' ∉ e.ws ++ e.v := nl_notin_of_nonl _ (nonl_first e.ws e.v hwf.ws_ok hwf.v_ok)
  unfold rawText EntryS.cts
  by_cases hc : e.conts = []
  · simp only [hc, ↓reduceIte]
    by_cases hv : e.v = []
    · simp [hv, lineOK]
    · simp only [hv, ↓reduceIte, tokText_append, tokText_optTok, tokText_cons, tokText_nil, List.append_nil]
      have := lineOK_nonl g (e.ws ++ e.v) [] hfirst
      rw [List.append_nil] at this
      rw [this]; rfl
  · simp only [hc, ↓reduceIte, tokText_append, tokText_optTok, tokText_cons]
    rw [lineOK_nonl g (e.ws ++ e.v) _ hfirst]
    show lineOK g false ('\n' :: tokText (joinNL (e.conts.map ContS.text))) = true
    rw [lineOK_cons]
    have e2 : ('\n' == '\n') = true := by decide
    rw [e2, lineOK_joinNL g hg _ (by
      intro l hl
      simp only [List.mem_map] at hl
      obtain ⟨c, hcm, rfl⟩ := hl
      exact (hwf.conts_ok c hcm).text_ok)]
    rfl

/-- … hence also in every trimmed piece of it -/
theorem lineOK_piece (g : Char → Bool) (hg : g = goodC ∨ g = goodH) (e : EntryS) (hwf : e.WF) (q : Str)
    (hq : q ∈ splitOn ',' (rawText e)) : lineOK g false (trim q) = true := by
  obtain ⟨a, b, hab⟩ := splitOn_mem_infix ',' _ q hq
  obtain ⟨a', b', hq'⟩ := trim_infix q
  have h := lineOK_rawText g hg e hwf
  rw [hab, hq'] at h
  apply lineOK_infix g (a ++ a') (trim q) (b' ++ b)
  simpa [List.append_assoc] using h

/-- shape: scanned from its first character, the output has good line starts only -/
theorem lineOK_uploaders (k : Str) (e : EntryS) (hwf : e.WF) :
    lineOK goodC true (fmtCommaLines k (rawText e)) = true := by
  unfold fmtCommaLines
  have hp : ∀ p ∈ (splitOn ',' (rawText e)).map trim, lineOK goodC true p = true := by
    intro p hp
    simp only [List.mem_map] at hp
    obtain ⟨q, hq, rfl⟩ := hp
    have h1 := lineOK_piece goodC (Or.inl rfl) e hwf q hq
    cases h : trim q with
    | nil => rfl
    | cons c r =>
      rw [h] at h1
      rw [lineOK_cons] at h1 ⊢
      have hc := goodC_of_nonws c (trim_head q c (by rw [h]; rfl))
      have hcn : (c == '\n') = false := by
        simp only [goodC, Bool.and_eq_true, bne_iff_ne] at hc
        simp [hc.2]
      rw [hcn] at h1
      rw [hc, hcn]
      simpa using h1
  apply lineOK_join goodC (by decide) _ true
  · intro p hpm; exact hp p (List.mem_of_mem_head? hpm)
  · intro p hpm; exact hp p (List.mem_of_mem_tail hpm)

/-- elements after the first do not start with `#` -/
def ElemsNoHash (v : Str) : Prop := ∀ p ∈ ((splitOn ',' v).map trim).tail, p.head? ≠ some '#'

/-- hash: scanned from inside the first line, no line start of the output is a `#` -/
theorem lineOK_uploaders_hash (k : Str) (e : EntryS) (hwf : e.WF) (hel : ElemsNoHash (rawText e)) :
    lineOK goodH false (fmtCommaLines k (rawText e)) = true := by
  unfold fmtCommaLines
  have hp : ∀ p ∈ (splitOn ',' (rawText e)).map trim, lineOK goodH false p = true := by
    intro p hp
    simp only [List.mem_map] at hp
    obtain ⟨q, hq, rfl⟩ := hp
    exact lineOK_piece goodH (Or.inr rfl) e hwf q hq
  apply lineOK_join goodH (by decide) _ false
  · intro p hpm; exact hp p (List.mem_of_mem_head? hpm)
  · intro p hpm
    have h1 := hp p (List.mem_of_mem_tail hpm)
    have h2 := hel p hpm
    cases p with
    | nil => rfl
    | cons c r =>
      rw [lineOK_cons] at h1 ⊢
      have : goodH c = true := by
        simp only [goodH, bne_iff_ne]
        intro e'; apply h2; simp [e']
      rw [this]
      simpa using h1

/-! ### from the scanner to the list of lines -/

/-- non-empty, not starting with a space or tab -/
def GoodL (l : Str) : Prop := ∃ c cs, l = c :: cs ∧ isIndent c = false

/-- every line is good, except that the last may be empty -/
def LinesOK : List Str → Prop
  | [] => True
  | [l] => l = [] ∨ GoodL l
  | l :: m :: r => GoodL l ∧ LinesOK (m :: r)

theorem linesOK_cons (l : Str) (r : List Str) (hl : GoodL l) (hr : LinesOK r) : LinesOK (l :: r) := by
  cases r with
  | nil => exact Or.inr hl
  | cons m r' => exact ⟨hl, hr⟩

theorem lineOK_lines (s : Str) : ∀ b, lineOK goodC b s = true →
    LinesOK (if b then splitOn '\n' s else (splitOn '\n' s).tail) := by
  induction s with
  | nil =>
    intro b _
    cases b
    · trivial
    · exact Or.inl rfl
  | cons c r ih =>
    intro b h
    rw [lineOK_cons] at h
    simp only [Bool.and_eq_true] at h
    obtain ⟨x, xs, hsp⟩ : ∃ x xs, splitOn '\n' r = x :: xs := by
      cases hs : splitOn '\n' r with
      | nil => exact absurd hs (splitOn_ne_nil' '\n' r)
      | cons x xs => exact ⟨x, xs, rfl⟩
    by_cases hc : c = '\n'
    · subst hc
      have hsplit : splitOn '\n' ('\n' :: r) = [] :: splitOn '\n' r := by simp [splitOn]
      have ih' := ih true (by simpa using h.2)
      simp only [↓reduceIte] at ih'
      cases b
      · simp only [Bool.false_eq_true, ↓reduceIte, hsplit, List.tail_cons]
        exact ih'
      · -- a line start that is a LF is excluded by `goodC`
        simp [goodC] at h
    · have hcn : (c == '\n') = false := by simp [hc]
      have hsplit : splitOn '\n' (c :: r) = (c :: x) :: xs := by simp [splitOn, hc, hsp]
      have ih' := ih false (by rw [hcn] at h; exact h.2)
      simp only [Bool.false_eq_true, ↓reduceIte, hsp, List.tail_cons] at ih'
      cases b
      · simp only [Bool.false_eq_true, ↓reduceIte, hsplit, List.tail_cons]
        exact ih'
      · simp only [↓reduceIte, hsplit]
        have hg : goodC c = true := by simpa using h.1
        refine linesOK_cons _ _ ⟨c, x, rfl, ?_⟩ ih'
        simp only [goodC, Bool.and_eq_true, Bool.not_eq_true'] at hg
        exact hg.1

theorem lineOK_hash_lines (s : Str) : ∀ b, lineOK goodH b s = true →
    ∀ l ∈ (if b then splitOn '\n' s else (splitOn '\n' s).tail), l.head? ≠ some '#' := by
  induction s with
  | nil =>
    intro b _ l hl
    cases b
    · simp [splitOn] at hl
    · simp only [↓reduceIte, splitOn, List.mem_cons, List.not_mem_nil, or_false] at hl
      subst hl; simp
  | cons c r ih =>
    intro b h
    rw [lineOK_cons] at h
    simp only [Bool.and_eq_true] at h
    obtain ⟨x, xs, hsp⟩ : ∃ x xs, splitOn '\n' r = x :: xs := by
      cases hs : splitOn '\n' r with
      | nil => exact absurd hs (splitOn_ne_nil' '\n' r)
      | cons x xs => exact ⟨x, xs, rfl⟩
    by_cases hc : c = '\n'
    · subst hc
      have hsplit : splitOn '\n' ('\n' :: r) = [] :: splitOn '\n' r := by simp [splitOn]
      have ih' := ih true (by simpa using h.2)
      simp only [↓reduceIte] at ih'
      intro l hl
      cases b
      · simp only [Bool.false_eq_true, ↓reduceIte, hsplit, List.tail_cons] at hl
        exact ih' l hl
      · simp only [↓reduceIte, hsplit, List.mem_cons] at hl
        rcases hl with rfl | hl
        · simp
        · exact ih' l hl
    · have hcn : (c == '\n') = false := by simp [hc]
      have hsplit : splitOn '\n' (c :: r) = (c :: x) :: xs := by simp [splitOn, hc, hsp]
      have ih' := ih false (by rw [hcn] at h; exact h.2)
      simp only [Bool.false_eq_true, ↓reduceIte, hsp, List.tail_cons] at ih'
      intro l hl
      cases b
      · simp only [Bool.false_eq_true, ↓reduceIte, hsplit, List.tail_cons] at hl
        exact ih' l hl
      · simp only [↓reduceIte, hsplit, List.mem_cons] at hl
        rcases hl with rfl | hl
        · have hg : goodH c = true := by simpa using h.1
          simp only [goodH, bne_iff_ne] at hg
          simpa using hg
        · exact ih' l hl

theorem linesOK_mem (ls : List Str) (h : LinesOK ls) : ∀ l ∈ ls, l = [] ∨ GoodL l := by
  induction ls with
  | nil => intro l hl; cases hl
  | cons x r ih =>
    cases r with
    | nil =>
      intro l hl
      simp only [List.mem_cons, List.not_mem_nil, or_false] at hl
      subst hl; exact h
    | cons m r' =>
      intro l hl
      simp only [List.mem_cons] at hl
      rcases hl with rfl | hl
      · exact Or.inr h.1
      · exact ih h.2 l (by simpa using hl)

/-- the three shapes: one empty line; good lines; good lines and an empty last line -/
theorem linesOK_shape (ls : List Str) (hne : ls ≠ []) (h : LinesOK ls) :
    ls = [[]] ∨ ∃ L, L ≠ [] ∧ (∀ l ∈ L, GoodL l) ∧ (ls = L ∨ ls = L ++ [[]]) := by
  induction ls with
  | nil => exact absurd rfl hne
  | cons x r ih =>
    cases r with
    | nil =>
      rcases h with rfl | hx
      · exact Or.inl rfl
      · exact Or.inr ⟨[x], by simp, by intro l hl; simp at hl; subst hl; exact hx, Or.inl rfl⟩
    | cons m r' =>
      right
      rcases ih (by simp) h.2 with he | ⟨L, hL, hg, he⟩
      · exact ⟨[x], by simp, by intro l hl; simp at hl; subst hl; exact h.1, Or.inr (by rw [he]; rfl)⟩
      · refine ⟨x :: L, by simp, ?_, ?_⟩
        · intro l hl
          simp only [List.mem_cons] at hl
          rcases hl with rfl | hl
          · exact h.1
          · exact hg l hl
        · rcases he with he | he
          · exact Or.inl (by rw [he])
          · exact Or.inr (by rw [he]; rfl)

/-- **the trigger of F-C07-10 in terms of the input**: if no element after the first starts with `#`,
    no line after the first of the formatter's output does -/
theorem hashLine_of_elems (k : Str) (e : EntryS) (hwf : e.WF) (hel : ElemsNoHash (rawText e)) :
    hashLine (fmtCommaLines k (rawText e)) = false := by
  unfold hashLine
  apply List.any_eq_false.2
  intro l hl
  rw [List.drop_one] at hl
  have h1 := lineOK_hash_lines _ false (lineOK_uploaders_hash k e hwf hel) l (by simpa using hl)
  have h2 := lineOK_lines _ true (lineOK_uploaders k e hwf)
  simp only [↓reduceIte] at h2
  rcases linesOK_mem _ h2 l (List.mem_of_mem_tail hl) with rfl | ⟨c, cs, rfl, hi⟩
  · simp
  · simp only [List.dropWhile_cons, hi, Bool.false_eq_true, ↓reduceIte]
    simpa using h1

end Deb822Verif.Ctl
