import Deb822Verif.Model.DebEdit
/-!
  Live paragraph handles against the list-of-lists model of the history oracle
  (`harness/src/edit.rs`, struct `ListModel`).

  * `LModel` mirrors `ListModel { order: Vec<usize>, paras: Vec<Option<Items>> }`: `paras[h]` is what
    handle number `h` must read (`none` = the paragraph was removed), `order` lists the handle
    numbers of the paragraphs in document order.
  * `HRel kids handles M` is the invariant tying a `Doc` to the model: every handle reads what the
    model says (`reads`), the handles of `order` point, in this order, at exactly the PARAGRAPH
    children (`order`), every live handle is in `order` (`cover`), no two live handles share a
    paragraph (`inj`).
  * generic steps: replacing a paragraph node in place, splicing in a block with one new
    paragraph, erasing one child. The operations of `Model/DebEdit.lean` are compositions of these.
-/
namespace Deb822Verif.Deb
open Node

abbrev Items := List (Str × Str)

/-- `ListModel` of harness/src/edit.rs -/
structure LModel where
  paras : List (Option Items)
  order : List Nat
  deriving Repr, DecidableEq

/-- a field edit through handle `h` (skipped when the handle is dead or was never handed out):
    `if let Some(Some(m)) = model.paras.get_mut(h) { … }` -/
def LModel.edit (M : LModel) (h : Nat) (g : Items → Items) : LModel :=
  match M.paras[h]? with
  | some (some m) => { M with paras := M.paras.set h (some (g m)) }
  | _ => M

/-- `addp`: `paras.push(Some(vec![])); order.push(paras.len() - 1)` -/
def LModel.addp (M : LModel) : LModel := ⟨M.paras ++ [some []], M.order ++ [M.paras.length]⟩

/-- `insp i`: `paras.push(Some(vec![])); order.insert(min(i, order.len()), paras.len() - 1)` -/
def LModel.insp (M : LModel) (i : Nat) : LModel :=
  ⟨M.paras ++ [some []], M.order.insertIdx (min i M.order.length) M.paras.length⟩

/-- `rmp i`: `if i < order.len() { let h = order.remove(i); paras[h] = None }` -/
def LModel.rmp (M : LModel) (i : Nat) : LModel :=
  match M.order[i]? with
  | some h => ⟨M.paras.set h none, M.order.eraseIdx i⟩
  | none => M

/-! ### positions of the PARAGRAPH children -/

def slots : List DNode → Nat → List Nat
  | [], _ => []
  | c :: cs, off => if isParaNode c then off :: slots cs (off + 1) else slots cs (off + 1)

theorem slots_append (a b : List DNode) (off : Nat) :
    slots (a ++ b) off = slots a off ++ slots b (off + a.length) := by
  induction a generalizing off with
  | nil => simp [slots]
  | cons c cs ih =>
    simp only [List.cons_append, slots, ih, List.length_cons]
    have : off + 1 + cs.length = off + (cs.length + 1) := by omega
    split <;> simp [this]

theorem slots_shift (l : List DNode) (off k : Nat) : slots l (off + k) = (slots l off).map (· + k) := by
  induction l generalizing off with
  | nil => rfl
  | cons c cs ih =>
    have : off + k + 1 = off + 1 + k := by omega
    simp only [slots, this, ih]
    split <;> simp

theorem slots_bounds (l : List DNode) (off s : Nat) (h : s ∈ slots l off) : off ≤ s ∧ s < off + l.length := by
  induction l generalizing off with
  | nil => simp [slots] at h
  | cons c cs ih =>
    simp only [slots] at h
    split at h
    · simp only [List.mem_cons] at h
      rcases h with rfl | h
      · simp
      · have := ih _ h; simp; omega
    · have := ih _ h; simp; omega

theorem slots_para (l : List DNode) (off s : Nat) (h : s ∈ slots l off) :
    ∃ n, l[s - off]? = some n ∧ isParaNode n = true := by
  induction l generalizing off with
  | nil => simp [slots] at h
  | cons c cs ih =>
    simp only [slots] at h
    have key : s ∈ slots cs (off + 1) → ∃ n, (c :: cs)[s - off]? = some n ∧ isParaNode n = true := by
      intro h'
      obtain ⟨n, h1, h2⟩ := ih _ h'
      have hb := (slots_bounds _ _ _ h').1
      refine ⟨n, ?_, h2⟩
      have : s - off = (s - (off + 1)) + 1 := by omega
      rw [this]; simpa using h1
    split at h
    · rename_i hc
      simp only [List.mem_cons] at h
      rcases h with rfl | h
      · exact ⟨c, by simp, hc⟩
      · exact key h
    · exact key h

theorem slots_none (l : List DNode) (off : Nat) (h : ∀ c ∈ l, isParaNode c = false) : slots l off = [] := by
  induction l generalizing off with
  | nil => rfl
  | cons c cs ih =>
    simp only [slots, h c (by simp), Bool.false_eq_true, ↓reduceIte]
    exact ih _ (fun x hx => h x (by simp [hx]))

theorem convertIndexAux_slots (kids : List DNode) (i off : Nat) :
    convertIndexAux kids i off = (slots kids off)[i]? := by
  induction kids generalizing i off with
  | nil => simp [convertIndexAux, slots]
  | cons c cs ih =>
    simp only [convertIndexAux, slots]
    split
    · cases i with
      | zero => simp
      | succ i => simp [ih]
    · exact ih _ _

/-- `convert_index(i)` is the i-th paragraph position -/
theorem convertIndex_slots (kids : List DNode) (i : Nat) : convertIndex kids i = (slots kids 0)[i]? :=
  convertIndexAux_slots kids i 0

theorem take_sub_cons (c : DNode) (cs : List DNode) (p off : Nat) (hb : off + 1 ≤ p) :
    (c :: cs).take (p - off) = c :: cs.take (p - (off + 1)) := by
  have : p - off = (p - (off + 1)) + 1 := by omega
  rw [this]; rfl

/-- the number of paragraphs in front of the i-th paragraph position is `i` -/
theorem slots_index (l : List DNode) (off i p : Nat) (h : (slots l off)[i]? = some p) :
    (slots (l.take (p - off)) off).length = i := by
  induction l generalizing off i with
  | nil => simp [slots] at h
  | cons c cs ih =>
    simp only [slots] at h
    split at h
    · rename_i hc
      cases i with
      | zero => simp at h; subst h; simp [slots]
      | succ i =>
        simp only [List.getElem?_cons_succ] at h
        have hb := (slots_bounds _ _ _ (List.mem_of_getElem? h)).1
        rw [take_sub_cons c cs p off hb]
        simp [slots, hc, ih _ _ h]
    · rename_i hc
      have hb := (slots_bounds _ _ _ (List.mem_of_getElem? h)).1
      rw [take_sub_cons c cs p off hb]
      simp [slots, hc, ih _ _ h]

theorem paraPositions_slots_aux (l : List DNode) (off : Nat) :
    ((l.zip (List.range' off l.length)).filter fun ci => isParaNode ci.1).map (·.2) = slots l off := by
  induction l generalizing off with
  | nil => rfl
  | cons c cs ih =>
    simp only [List.length_cons, List.range'_succ, List.zip_cons_cons, List.filter_cons, slots]
    split <;> simp [ih]

theorem paraPositions_slots (kids : List DNode) : paraPositions kids = slots kids 0 := by
  unfold paraPositions
  rw [List.range_eq_range']
  exact paraPositions_slots_aux kids 0

/-- the paragraphs of the document, read through their positions -/
theorem slots_read (l : List DNode) (off : Nat) :
    (slots l off).map (fun s => (l[s - off]?).map items) = (l.filter isParaNode).map (fun n => some (items n)) := by
  induction l generalizing off with
  | nil => rfl
  | cons c cs ih =>
    have hrest : (slots cs (off + 1)).map (fun s => ((c :: cs)[s - off]?).map items) =
        (slots cs (off + 1)).map (fun s => (cs[s - (off + 1)]?).map items) := by
      apply List.map_congr_left
      intro s hs
      have hb := (slots_bounds _ _ _ hs).1
      have : s - off = (s - (off + 1)) + 1 := by omega
      rw [this]; simp
    simp only [slots, List.filter_cons]
    split
    · simp only [List.map_cons, Nat.sub_self, List.getElem?_cons_zero, Option.map_some, hrest, ih]
    · rw [hrest, ih]

/-! ### the invariant -/

/-- what a handle entry reads: `none` = dead, `some s` = the items of the child at slot `s` -/
def rd (kids : List DNode) (o : Option Nat) : Option Items := o.bind fun s => (kids[s]?).map items

def ss (s : Nat) : Option (Option Nat) := some (some s)

structure HRel (kids : List DNode) (hs : List (Option Nat)) (M : LModel) : Prop where
  /-- oracle step (1): handle `h` reads `M.paras[h]`; dead handles are `none` on both sides -/
  reads : M.paras = hs.map (rd kids)
  /-- oracle step (2): the handles of `order` point at the PARAGRAPH children, in document order -/
  order : M.order.map (fun h => hs[h]?) = (slots kids 0).map ss
  /-- every live handle is listed in `order` -/
  cover : ∀ j s : Nat, hs[j]? = some (some s) → j ∈ M.order
  /-- two live handles never denote the same paragraph -/
  inj : ∀ j j' s : Nat, hs[j]? = some (some s) → hs[j']? = some (some s) → j = j'

theorem HRel.valid {kids hs M} (H : HRel kids hs M) {j s : Nat} (hj : hs[j]? = some (some s)) :
    s ∈ slots kids 0 := by
  have h1 := H.cover j s hj
  have h2 : (fun h => hs[h]?) j ∈ M.order.map (fun h => hs[h]?) := List.mem_map_of_mem h1
  rw [H.order] at h2
  simp only [List.mem_map, ss, hj] at h2
  obtain ⟨s', hs', he⟩ := h2
  simp at he; subst he; exact hs'

theorem HRel.valid_node {kids hs M} (H : HRel kids hs M) {j s : Nat} (hj : hs[j]? = some (some s)) :
    ∃ n, kids[s]? = some n ∧ isParaNode n = true := by
  have := slots_para _ _ _ (H.valid hj)
  simpa using this

theorem HRel.len {kids hs M} (H : HRel kids hs M) : M.paras.length = hs.length := by
  rw [H.reads]; simp

theorem HRel.order_len {kids hs M} (H : HRel kids hs M) : M.order.length = (slots kids 0).length := by
  have := congrArg List.length H.order; simpa using this

theorem map_transfer {α} (f f' : α → Option (Option Nat)) (t : Nat → Nat) (P : Nat → Prop) :
    ∀ (l : List α) (S : List Nat), l.map f = S.map ss → (∀ s ∈ S, P s) →
      (∀ h ∈ l, ∀ s, f h = some (some s) → P s → f' h = some (some (t s))) →
      l.map f' = (S.map t).map ss := by
  intro l
  induction l with
  | nil => intro S h _ _; cases S <;> simp_all
  | cons h l ih =>
    intro S hm hP hf
    cases S with
    | nil => simp at hm
    | cons s S =>
      simp only [List.map_cons, List.cons.injEq] at hm ⊢
      refine ⟨?_, ih S hm.2 (fun x hx => hP x (by simp [hx])) (fun x hx => hf x (by simp [hx]))⟩
      exact hf h (by simp) s hm.1 (hP s (by simp))

/-! ### step: a paragraph node is replaced in place -/

theorem slots_set (kids : List DNode) (s : Nat) (n n' : DNode) (hn : kids[s]? = some n)
    (hp : isParaNode n' = isParaNode n) : slots (kids.set s n') 0 = slots kids 0 := by
  obtain ⟨hl, he⟩ := List.getElem?_eq_some_iff.mp hn
  have hsplit : kids = kids.take s ++ n :: kids.drop (s + 1) := by rw [← he]; simp
  have hset : kids.set s n' = kids.take s ++ n' :: kids.drop (s + 1) := by
    rw [List.set_eq_take_append_cons_drop]; simp [hl]
  rw [hset]
  conv => rhs; rw [hsplit]
  simp only [slots_append, slots, hp]

theorem HRel.set {kids hs M} (H : HRel kids hs M) (h s : Nat) (n n' : DNode)
    (hh : hs[h]? = some (some s)) (hn : kids[s]? = some n) (hp : isParaNode n' = isParaNode n) :
    HRel (kids.set s n') hs ⟨M.paras.set h (some (items n')), M.order⟩ := by
  have hsl : s < kids.length := (List.getElem?_eq_some_iff.mp hn).1
  refine ⟨?_, ?_, H.cover, H.inj⟩
  · simp only [H.reads]
    apply List.ext_getElem?
    intro j
    by_cases hj : j = h
    · subst hj
      have hjl : j < hs.length := (List.getElem?_eq_some_iff.mp hh).1
      rw [List.getElem?_set_self (by simpa using hjl)]
      simp [hh, rd, hsl]
    · rw [List.getElem?_set_ne (Ne.symm hj)]
      simp only [List.getElem?_map]
      cases hjj : hs[j]? with
      | none => rfl
      | some o =>
        cases o with
        | none => rfl
        | some s' =>
          have : s' ≠ s := by intro e; subst e; exact hj (H.inj j h s' hjj hh)
          simp [rd, List.getElem?_set_ne (Ne.symm this)]
  · simp only [slots_set kids s n n' hn hp]; exact H.order

/-! ### step: a block with one new paragraph is spliced in at child position `q` -/

theorem ins_get (kids new : List DNode) (q s : Nat) (hq : q ≤ kids.length) :
    (kids.take q ++ new ++ kids.drop q)[if s ≥ q then s + new.length else s]? = kids[s]? := by
  have hlen : (kids.take q).length = q := by simp; omega
  by_cases hs : s ≥ q
  · simp only [hs, ↓reduceIte, List.append_assoc]
    rw [List.getElem?_append_right (by omega), hlen, List.getElem?_append_right (by omega),
      List.getElem?_drop]
    congr 1; omega
  · simp only [hs, ↓reduceIte, List.append_assoc]
    rw [List.getElem?_append_left (by omega), List.getElem?_take_of_lt (by omega)]

theorem shiftIns_get (hs : List (Option Nat)) (q n j : Nat) :
    (shiftIns hs q n)[j]? = (hs[j]?).map (Option.map fun i => if i ≥ q then i + n else i) := by
  simp [shiftIns]

theorem insertIdx_take_drop {α} (l : List α) (a : Nat) (x : α) (h : a ≤ l.length) :
    l.insertIdx a x = l.take a ++ x :: l.drop a := by
  induction a generalizing l with
  | zero => simp
  | succ a ih =>
    cases l with
    | nil => simp at h
    | cons y ys => simp [List.insertIdx_succ_cons, ih ys (by simpa using h)]

theorem HRel.ins {kids hs M} (H : HRel kids hs M) (q : Nat) (hq : q ≤ kids.length)
    (pre post : List DNode) (x : DNode) (hx : isParaNode x = true)
    (hpre : ∀ c ∈ pre, isParaNode c = false) (hpost : ∀ c ∈ post, isParaNode c = false) :
    HRel (kids.take q ++ (pre ++ x :: post) ++ kids.drop q)
      (shiftIns hs q (pre ++ x :: post).length ++ [some (q + pre.length)])
      ⟨M.paras ++ [some (items x)], M.order.insertIdx (slots (kids.take q) 0).length hs.length⟩ := by
  generalize hnew : pre ++ x :: post = new
  have hnl : pre.length < new.length := by rw [← hnew]; simp
  have hlenT : (kids.take q).length = q := by simp; omega
  have hlenS : (shiftIns hs q new.length).length = hs.length := by simp [shiftIns]
  -- the new child list, and where its paragraphs are
  have hslots : slots (kids.take q ++ new ++ kids.drop q) 0 =
      slots (kids.take q) 0 ++ (q + pre.length) :: (slots (kids.drop q) q).map (· + new.length) := by
    rw [slots_append, slots_append, ← hnew, slots_append]
    simp only [List.length_append, hlenT, Nat.zero_add, slots, hx, ↓reduceIte, slots_none pre _ hpre,
      slots_none post _ hpost, List.nil_append, List.append_nil, List.length_cons]
    rw [← slots_shift]
    simp [List.append_assoc]
  have hsl0 : slots kids 0 = slots (kids.take q) 0 ++ slots (kids.drop q) q := by
    conv => lhs; rw [← List.take_append_drop q kids]
    rw [slots_append, hlenT, Nat.zero_add]
  have hget : ∀ s, (kids.take q ++ new ++ kids.drop q)[if s ≥ q then s + new.length else s]? = kids[s]? :=
    fun s => ins_get kids new q s hq
  have hold : ∀ j s : Nat, hs[j]? = some (some s) →
      (shiftIns hs q new.length ++ [some (q + pre.length)])[j]? =
        some (some (if s ≥ q then s + new.length else s)) := by
    intro j s hj
    have hjl : j < hs.length := (List.getElem?_eq_some_iff.mp hj).1
    rw [List.getElem?_append_left (by omega), shiftIns_get, hj]; rfl
  have hnewh : (shiftIns hs q new.length ++ [some (q + pre.length)])[hs.length]? = some (some (q + pre.length)) := by
    rw [List.getElem?_append_right (by omega), hlenS]; simp
  refine ⟨?_, ?_, ?_, ?_⟩
  · -- reads
    simp only [H.reads, List.map_append, List.map_cons, List.map_nil]
    congr 1
    · apply List.ext_getElem?
      intro j
      simp only [List.getElem?_map, shiftIns_get]
      cases hs[j]? with
      | none => rfl
      | some o =>
        cases o with
        | none => rfl
        | some s => simp only [Option.map_some, rd, Option.bind_some]; rw [hget s]
    · have : (kids.take q ++ new ++ kids.drop q)[q + pre.length]? = some x := by
        rw [List.append_assoc, List.getElem?_append_right (by omega), hlenT,
          List.getElem?_append_left (by omega), ← hnew]
        simp
      simp only [rd, Option.bind_some]; rw [this]; rfl
  · -- order
    have ha : (slots (kids.take q) 0).length ≤ M.order.length := by
      rw [H.order_len, hsl0]; simp
    rw [insertIdx_take_drop _ _ _ ha]
    have hord := H.order
    rw [hsl0, ← List.take_append_drop (slots (kids.take q) 0).length M.order, List.map_append,
      List.map_append] at hord
    have hlt : ((M.order.take (slots (kids.take q) 0).length).map fun h => hs[h]?).length =
        ((slots (kids.take q) 0).map ss).length := by simp [Nat.min_eq_left ha]
    obtain ⟨hA, hB⟩ := List.append_inj hord hlt
    rw [hslots]
    simp only [List.map_append, List.map_cons]
    congr 1
    · have := map_transfer (fun h => hs[h]?) (fun h => (shiftIns hs q new.length ++ [some (q + pre.length)])[h]?)
        id (fun s => s < q) _ _ hA
        (by intro s hs'; have := slots_bounds _ _ _ hs'; simp at this; omega)
        (by intro h _ s hh hP; rw [hold h s hh]; have : ¬ s ≥ q := by omega
            simp [this])
      simpa using this
    · have := map_transfer (fun h => hs[h]?) (fun h => (shiftIns hs q new.length ++ [some (q + pre.length)])[h]?)
          (· + new.length) (fun s => s ≥ q) _ _ hB
          (by intro s hs'; exact (slots_bounds _ _ _ hs').1)
          (by intro h _ s hh hP; rw [hold h s hh]; simp [hP])
      rw [this, hnewh]; rfl
  · -- cover
    intro j s' hj
    have ha : (slots (kids.take q) 0).length ≤ M.order.length := by
      rw [H.order_len, hsl0]; simp
    rw [List.mem_insertIdx ha]
    by_cases hjl : j < hs.length
    · right
      rw [List.getElem?_append_left (by omega), shiftIns_get] at hj
      cases hjj : hs[j]? with
      | none => rw [hjj] at hj; simp at hj
      | some o =>
        cases o with
        | none => rw [hjj] at hj; simp at hj
        | some s => exact H.cover j s hjj
    · left
      have : j = hs.length := by
        have hlt := (List.getElem?_eq_some_iff.mp hj).1
        simp [hlenS] at hlt; omega
      exact this
  · -- inj
    intro j j' s' hj hj'
    have hcase : ∀ j : Nat, (shiftIns hs q new.length ++ [some (q + pre.length)])[j]? = some (some s') →
        (j = hs.length ∧ s' = q + pre.length) ∨
        (∃ s, hs[j]? = some (some s) ∧ s' = if s ≥ q then s + new.length else s) := by
      intro j hj
      by_cases hjl : j < hs.length
      · right
        rw [List.getElem?_append_left (by omega), shiftIns_get] at hj
        cases hjj : hs[j]? with
        | none => rw [hjj] at hj; simp at hj
        | some o =>
          cases o with
          | none => rw [hjj] at hj; simp at hj
          | some s => rw [hjj] at hj; simp at hj; exact ⟨s, rfl, hj.symm⟩
      · left
        have hlt := (List.getElem?_eq_some_iff.mp hj).1
        simp [hlenS] at hlt
        have : j = hs.length := by omega
        subst this
        rw [hnewh] at hj; simp at hj
        exact ⟨rfl, hj.symm⟩
    rcases hcase j hj with ⟨h1, h2⟩ | ⟨s, h1, h2⟩ <;> rcases hcase j' hj' with ⟨h3, h4⟩ | ⟨t, h3, h4⟩
    · omega
    · exfalso; split at h4 <;> omega
    · exfalso; split at h2 <;> omega
    · have : s = t := by split at h2 <;> split at h4 <;> omega
      subst this; exact H.inj j j' s h1 h3

/-! ### step: one child is erased -/

theorem del_get (kids : List DNode) (q s : Nat) (hsq : s ≠ q) :
    (kids.eraseIdx q)[if s > q then s - 1 else s]? = kids[s]? := by
  rw [List.getElem?_eraseIdx]
  by_cases hgt : s > q
  · have : ¬ (s - 1 < q) := by omega
    simp only [hgt, ↓reduceIte, this]
    congr 1; omega
  · have : s < q := by omega
    simp [hgt, this]

def delAdj (q : Nat) (o : Option Nat) : Option Nat :=
  match o with
  | none => none
  | some i => if i = q then none else if i > q then some (i - 1) else some i

theorem shiftDel_get' (hs : List (Option Nat)) (q j : Nat) : (shiftDel hs q)[j]? = (hs[j]?).map (delAdj q) := by
  simp only [shiftDel, List.getElem?_map]; rfl

theorem shiftDel_live (hs : List (Option Nat)) (q j s' : Nat) (h : (shiftDel hs q)[j]? = some (some s')) :
    ∃ s, hs[j]? = some (some s) ∧ s ≠ q ∧ s' = if s > q then s - 1 else s := by
  rw [shiftDel_get'] at h
  cases hjj : hs[j]? with
  | none => rw [hjj] at h; simp at h
  | some o =>
    cases o with
    | none => rw [hjj] at h; simp [delAdj] at h
    | some s =>
      rw [hjj] at h
      simp only [Option.map_some, delAdj, Option.some.injEq] at h
      by_cases hsq : s = q
      · simp [hsq] at h
      · refine ⟨s, rfl, hsq, ?_⟩
        simp only [hsq, ↓reduceIte] at h
        by_cases hgt : s > q
        · simp only [hgt, ↓reduceIte, Option.some.injEq] at h ⊢; exact h.symm
        · simp only [hgt, ↓reduceIte, Option.some.injEq] at h ⊢; exact h.symm

theorem shiftDel_of_live (hs : List (Option Nat)) (q j s : Nat) (h : hs[j]? = some (some s)) (hsq : s ≠ q) :
    (shiftDel hs q)[j]? = some (some (if s > q then s - 1 else s)) := by
  rw [shiftDel_get', h]
  simp only [Option.map_some, delAdj, hsq, ↓reduceIte]
  split <;> rfl

/-- the slots around child `q` -/
theorem slots_split (kids : List DNode) (q : Nat) (n : DNode) (hn : kids[q]? = some n) :
    slots kids 0 = slots (kids.take q) 0 ++ (if isParaNode n then [q] else []) ++
        (slots (kids.drop (q + 1)) q).map (· + 1)
    ∧ slots (kids.eraseIdx q) 0 = slots (kids.take q) 0 ++ slots (kids.drop (q + 1)) q := by
  obtain ⟨hl, he⟩ := List.getElem?_eq_some_iff.mp hn
  have hlenT : (kids.take q).length = q := by simp; omega
  have hsplit : kids = kids.take q ++ n :: kids.drop (q + 1) := by rw [← he]; simp
  constructor
  · conv => lhs; rw [hsplit]
    rw [slots_append, hlenT, Nat.zero_add]
    simp only [slots, ← slots_shift]
    split <;> simp
  · rw [List.eraseIdx_eq_take_drop_succ, slots_append, hlenT, Nat.zero_add]

theorem adj_slots (kids : List DNode) (q : Nat) :
    (slots (kids.take q) 0 ++ (slots (kids.drop (q + 1)) q).map (· + 1)).map
        (fun s => if s > q then s - 1 else s) =
      slots (kids.take q) 0 ++ slots (kids.drop (q + 1)) q := by
  rw [List.map_append, List.map_map]
  congr 1
  · have : ∀ s ∈ slots (kids.take q) 0, (fun s => if s > q then s - 1 else s) s = id s := by
      intro s hs'
      have := slots_bounds _ _ _ hs'
      have hl : (kids.take q).length ≤ q := by simp; omega
      have : ¬ s > q := by omega
      simp [this]
    rw [List.map_congr_left this]; simp
  · have : ∀ s ∈ slots (kids.drop (q + 1)) q,
        ((fun s => if s > q then s - 1 else s) ∘ (· + 1)) s = id s := by
      intro s hs'
      have := (slots_bounds _ _ _ hs').1
      have : s + 1 > q := by omega
      simp [this]
    rw [List.map_congr_left this]; simp

theorem HRel.del_nonpara {kids hs M} (H : HRel kids hs M) (q : Nat) (n : DNode) (hn : kids[q]? = some n)
    (hnp : isParaNode n = false) : HRel (kids.eraseIdx q) (shiftDel hs q) M := by
  obtain ⟨hs0, hs1⟩ := slots_split kids q n hn
  simp only [hnp, Bool.false_eq_true, ↓reduceIte, List.append_nil] at hs0
  have hlive : ∀ j s : Nat, hs[j]? = some (some s) → s ≠ q := by
    intro j s hj e; subst e
    obtain ⟨n', h1, h2⟩ := H.valid_node hj
    rw [hn] at h1; simp at h1; subst h1; rw [hnp] at h2; simp at h2
  refine ⟨?_, ?_, ?_, ?_⟩
  · rw [H.reads]
    apply List.ext_getElem?
    intro j
    simp only [List.getElem?_map, shiftDel_get']
    cases hjj : hs[j]? with
    | none => rfl
    | some o =>
      cases o with
      | none => rfl
      | some s =>
        have hsq := hlive j s hjj
        simp only [Option.map_some, delAdj, hsq, ↓reduceIte, rd]
        have := del_get kids q s hsq
        split <;> simp_all
  · have hord := H.order
    rw [hs0] at hord
    have hmem : ∀ s ∈ slots (kids.take q) 0 ++ (slots (kids.drop (q + 1)) q).map (· + 1), s ≠ q := by
      intro s hs' e; subst e
      have : s ∈ slots kids 0 := by rw [hs0]; exact hs'
      obtain ⟨n', h1, h2⟩ := slots_para _ _ _ this
      simp only [Nat.sub_zero] at h1
      rw [hn] at h1; simp at h1; subst h1; rw [hnp] at h2; simp at h2
    have := map_transfer (fun h => hs[h]?) (fun h => (shiftDel hs q)[h]?)
      (fun s => if s > q then s - 1 else s) (fun s => s ≠ q) _ _ hord hmem
      (by intro h _ s hh hP; exact shiftDel_of_live hs q h s hh hP)
    rw [this, hs1, adj_slots]
  · intro j s' hj
    obtain ⟨s, h1, _, _⟩ := shiftDel_live hs q j s' hj
    exact H.cover j s h1
  · intro j j' s' hj hj'
    obtain ⟨s, h1, h2, h3⟩ := shiftDel_live hs q j s' hj
    obtain ⟨t, h4, h5, h6⟩ := shiftDel_live hs q j' s' hj'
    have : s = t := by split at h3 <;> split at h6 <;> omega
    subst this; exact H.inj j j' s h1 h4

theorem HRel.del_para {kids hs M} (H : HRel kids hs M) (h q : Nat) (hh : hs[h]? = some (some q)) :
    HRel (kids.eraseIdx q) (shiftDel hs q)
      ⟨M.paras.set h none, M.order.eraseIdx (slots (kids.take q) 0).length⟩ := by
  obtain ⟨n, hn, hpn⟩ := H.valid_node hh
  obtain ⟨hs0, hs1⟩ := slots_split kids q n hn
  simp only [hpn, ↓reduceIte] at hs0
  generalize ha : (slots (kids.take q) 0).length = a at *
  -- the handle list of `order`, split at the removed paragraph
  have hord := H.order
  rw [hs0] at hord
  have halt : a < M.order.length := by
    have := congrArg List.length hord
    simp at this; omega
  have hdrop : M.order.drop a = M.order[a] :: M.order.drop (a + 1) := List.drop_eq_getElem_cons halt
  have hsplit : M.order = M.order.take a ++ M.order[a] :: M.order.drop (a + 1) := by
    rw [← hdrop, List.take_append_drop]
  rw [hsplit] at hord
  simp only [List.map_append, List.map_cons, List.append_assoc, List.singleton_append] at hord
  have hlt : ((M.order.take a).map fun h => hs[h]?).length = ((slots (kids.take q) 0).map ss).length := by
    simp [ha]; omega
  obtain ⟨hA, hB⟩ := List.append_inj hord hlt
  simp only [List.cons.injEq] at hB
  obtain ⟨hB1, hB2⟩ := hB
  have hhe : M.order[a] = h := H.inj _ _ q hB1 hh
  have herase : M.order.eraseIdx a = M.order.take a ++ M.order.drop (a + 1) :=
    List.eraseIdx_eq_take_drop_succ _ _
  refine ⟨?_, ?_, ?_, ?_⟩
  · simp only [H.reads]
    apply List.ext_getElem?
    intro j
    by_cases hj : j = h
    · subst hj
      have hjl : j < hs.length := (List.getElem?_eq_some_iff.mp hh).1
      rw [List.getElem?_set_self (by simpa using hjl)]
      simp [shiftDel_get', hh, delAdj, rd]
    · rw [List.getElem?_set_ne (Ne.symm hj)]
      simp only [List.getElem?_map, shiftDel_get']
      cases hjj : hs[j]? with
      | none => rfl
      | some o =>
        cases o with
        | none => rfl
        | some s =>
          have hsq : s ≠ q := by intro e; subst e; exact hj (H.inj j h s hjj hh)
          simp only [Option.map_some, delAdj, hsq, ↓reduceIte, rd]
          have := del_get kids q s hsq
          by_cases hgt : s > q <;> simp only [hgt, ↓reduceIte, Option.bind_some] at this ⊢ <;> rw [this]
  · simp only [herase, List.map_append]
    have h1 := map_transfer (fun h => hs[h]?) (fun h => (shiftDel hs q)[h]?)
      (fun s => if s > q then s - 1 else s) (fun s => s ≠ q) _ _ hA
      (by intro s hs'
          have := slots_bounds _ _ _ hs'
          have hl : (kids.take q).length ≤ q := by simp; omega
          omega)
      (by intro h _ s hh hP; exact shiftDel_of_live hs q h s hh hP)
    have h2 := map_transfer (fun h => hs[h]?) (fun h => (shiftDel hs q)[h]?)
      (fun s => if s > q then s - 1 else s) (fun s => s ≠ q) _ _ hB2
      (by intro s hs'
          simp only [List.mem_map] at hs'
          obtain ⟨t, ht, rfl⟩ := hs'
          have := (slots_bounds _ _ _ ht).1
          omega)
      (by intro h _ s hh hP; exact shiftDel_of_live hs q h s hh hP)
    rw [h1, h2, hs1, ← List.map_append, ← List.map_append, adj_slots]
  · intro j s' hj
    obtain ⟨s, h1, h2, _⟩ := shiftDel_live hs q j s' hj
    have hjo := H.cover j s h1
    have hjh : j ≠ h := by intro e; subst e; rw [hh] at h1; simp at h1; exact h2 h1.symm
    rw [hsplit] at hjo
    simp only [List.mem_append, List.mem_cons] at hjo
    rw [herase, List.mem_append]
    rcases hjo with hjo | hjo | hjo
    · exact Or.inl hjo
    · exact absurd (hjo.trans hhe) hjh
    · exact Or.inr hjo
  · intro j j' s' hj hj'
    obtain ⟨s, h1, h2, h3⟩ := shiftDel_live hs q j s' hj
    obtain ⟨t, h4, h5, h6⟩ := shiftDel_live hs q j' s' hj'
    have : s = t := by split at h3 <;> split at h6 <;> omega
    subst this; exact H.inj j j' s h1 h4

/-! ### step: the child list is replaced by one with the same paragraph positions and items -/

def sig (n : DNode) : Bool × Items := (isParaNode n, items n)

theorem slots_congr (a b : List DNode) (h : a.map sig = b.map sig) (off : Nat) : slots a off = slots b off := by
  induction a generalizing b off with
  | nil => cases b <;> simp_all
  | cons x xs ih =>
    cases b with
    | nil => simp at h
    | cons y ys =>
      simp only [List.map_cons, List.cons.injEq, sig, Prod.mk.injEq] at h
      simp only [slots, h.1.1, ih ys h.2]

theorem HRel.congr {kids kids' hs M} (H : HRel kids hs M) (h : kids.map sig = kids'.map sig) :
    HRel kids' hs M := by
  have hget : ∀ s : Nat, (kids[s]?).map items = (kids'[s]?).map items := by
    intro s
    have := congrArg (fun l => (l[s]?).map (·.2)) h
    simpa [sig, Function.comp_def] using this
  refine ⟨?_, ?_, H.cover, H.inj⟩
  · rw [H.reads]
    apply List.map_congr_left
    intro o _
    cases o with
    | none => rfl
    | some s => simp only [rd, Option.bind_some]; exact hget s
  · rw [← slots_congr kids kids' h]; exact H.order

/-! ## the operations of `Model/DebEdit.lean` -/

theorem para_node_shape (n : DNode) (h : isParaNode n = true) : ∃ cs, n = .node .PARAGRAPH cs := by
  cases n with
  | tok k t => simp [isParaNode, Node.isNode] at h
  | node k cs =>
    simp only [isParaNode, Node.isNode, Node.kind, Bool.true_and, beq_iff_eq] at h
    subst h; exact ⟨cs, rfl⟩

/-- a field edit through handle `h`: the model edits entry `h` (nothing happens through a dead
    handle, on both sides) -/
theorem HRel.onPara {d : Doc} {M : LModel} (H : HRel d.kids d.handles M) (h : Nat)
    (f : List DNode → List DNode) (g : Items → Items)
    (hfg : ∀ cs, items (.node .PARAGRAPH (f cs)) = g (items (.node .PARAGRAPH cs))) :
    HRel (d.onPara h f).kids (d.onPara h f).handles (M.edit h g) := by
  have hp : M.paras[h]? = (d.handles[h]?).map (rd d.kids) := by rw [H.reads]; simp
  unfold Doc.onPara LModel.edit
  cases hh : d.handles[h]? with
  | none => rw [hh] at hp; simp only [hp]; exact H
  | some o =>
    cases o with
    | none => rw [hh] at hp; simp only [hp, Option.map_some, rd, Option.bind_none]; exact H
    | some s =>
      obtain ⟨n, hn, hpn⟩ := H.valid_node hh
      obtain ⟨cs, rfl⟩ := para_node_shape n hpn
      rw [hh] at hp
      simp only [hn, hp, Option.map_some, rd, Option.bind_some]
      rw [← hfg cs]
      exact H.set h s _ _ hh hn (by simp [isParaNode, Node.isNode, Node.kind])

theorem HRel.slot_of_index {kids hs M} (H : HRel kids hs M) (i p : Nat) (hp : (slots kids 0)[i]? = some p) :
    ∃ h, M.order[i]? = some h ∧ hs[h]? = some (some p) := by
  have := congrArg (fun l => l[i]?) H.order
  simp only [List.getElem?_map, hp, Option.map_some, ss] at this
  cases ho : M.order[i]? with
  | none => rw [ho] at this; simp at this
  | some h => rw [ho] at this; simp at this; exact ⟨h, rfl, this⟩

/-- `insert_paragraph(i)` at an existing position -/
theorem HRel.insert_at {d : Doc} {M : LModel} (H : HRel d.kids d.handles M) (i p : Nat)
    (hc : convertIndex d.kids i = some p) :
    HRel (insertParagraph d i).kids (insertParagraph d i).handles (M.insp i) := by
  rw [convertIndex_slots] at hc
  have hmem := List.mem_of_getElem? hc
  obtain ⟨n, hn, hpn⟩ := slots_para _ _ _ hmem
  simp only [Nat.sub_zero] at hn
  have hlt : p < d.kids.length := (List.getElem?_eq_some_iff.mp hn).1
  have hpos : (d.kids.filter Node.isNode).length > 0 := by
    apply List.length_pos_of_mem (a := n)
    refine List.mem_filter.2 ⟨List.mem_of_getElem? hn, ?_⟩
    simp only [isParaNode, Bool.and_eq_true] at hpn; exact hpn.1
  have hi : (slots (d.kids.take p) 0).length = i := by
    have := slots_index d.kids 0 i p hc; simpa using this
  have hilt : i < M.order.length := by
    rw [H.order_len]; exact (List.getElem?_eq_some_iff.mp hc).1
  have := H.ins p (by omega) [] [emptyLine] (.node .PARAGRAPH []) (by simp [isParaNode, Node.isNode, Node.kind])
    (by simp) (by simp [emptyLine, isParaNode, Node.isNode, Node.kind])
  have hc' : convertIndex d.kids i = some p := by rw [convertIndex_slots]; exact hc
  simp only [insertParagraph, insertEmptyParagraph, hc', hpos, ↓reduceIte, insertAt, LModel.insp,
    Nat.min_eq_left (Nat.le_of_lt hilt), H.len]
  simpa [hi, items, entries, Node.children] using this

/-- `add_paragraph` (also `insert_paragraph` beyond the end), given what `terminate_last_line`
    does to the root's children: same length, same paragraph positions, same items -/
theorem HRel.add {d : Doc} {M : LModel} (H : HRel d.kids d.handles M)
    (hnodes : ∀ c ∈ d.kids, c.isNode = true)
    (hsig : (terminateLastLine d.kids).map sig = d.kids.map sig) :
    HRel (addParagraph d).kids (addParagraph d).handles M.addp := by
  have hlen : (terminateLastLine d.kids).length = d.kids.length := by
    have := congrArg List.length hsig; simpa using this
  have H' := H.congr hsig.symm
  generalize hsep : (if (d.kids.filter Node.isNode).length > 0 then [emptyLine] else ([] : List DNode)) = sep
  have hsepnp : ∀ c ∈ sep, isParaNode c = false := by
    intro c hc; rw [← hsep] at hc
    split at hc
    · simp at hc; subst hc; simp [emptyLine, isParaNode, Node.isNode, Node.kind]
    · simp at hc
  have := H'.ins (terminateLastLine d.kids).length (Nat.le_refl _) sep [] (.node .PARAGRAPH [])
    (by simp [isParaNode, Node.isNode, Node.kind]) hsepnp (by simp)
  simp only [List.take_length, List.drop_length, List.append_nil] at this
  have hordl : (slots (terminateLastLine d.kids) 0).length = M.order.length := H'.order_len.symm
  rw [hordl, insertIdx_take_drop _ _ _ (Nat.le_refl _), List.take_length, List.drop_length] at this
  simp only [addParagraph, insertEmptyParagraph, insertAt, hsep, LModel.addp]
  rw [List.take_length, List.drop_length, H.len]
  have e1 : 1 + sep.length = (sep ++ [Node.node Kind.PARAGRAPH []]).length := by simp; omega
  rw [e1]
  simpa [items, entries, Node.children] using this

/-- `remove_paragraph(i)` -/
theorem HRel.remove {d : Doc} {M : LModel} (H : HRel d.kids d.handles M) (i : Nat) :
    HRel (removeParagraph d i).kids (removeParagraph d i).handles (M.rmp i) := by
  unfold removeParagraph LModel.rmp
  cases hc : convertIndex d.kids i with
  | none =>
    rw [convertIndex_slots] at hc
    have : M.order[i]? = none := by
      have hl : (slots d.kids 0).length ≤ i := by
        rcases Nat.lt_or_ge i (slots d.kids 0).length with h | h
        · rw [List.getElem?_eq_getElem h] at hc; simp at hc
        · exact h
      rw [List.getElem?_eq_none]; rw [H.order_len]; exact hl
    simp only [this]; exact H
  | some p =>
    rw [convertIndex_slots] at hc
    obtain ⟨h, ho, hh⟩ := H.slot_of_index i p hc
    have hi : (slots (d.kids.take p) 0).length = i := by
      have := slots_index d.kids 0 i p hc; simpa using this
    have H1 := H.del_para h p hh
    rw [hi] at H1
    simp only [ho]
    cases hn : (d.kids.eraseIdx p)[p]? with
    | none => exact H1
    | some n =>
      simp only
      split
      · rename_i hk
        have hnp : isParaNode n = false := by
          simp only [Bool.and_eq_true, beq_iff_eq] at hk
          simp [isParaNode, hk.1, hk.2]
        exact H1.del_nonpara p n hn hnp
      · exact H1

/-- the start state: one handle per paragraph, in order (`startDoc` of `Driver/Deb.lean`,
    `doc.paragraphs().collect()` in the harness) -/
def LModel.init (kids : List DNode) : LModel :=
  ⟨(kids.filter isParaNode).map fun n => some (items n), List.range (kids.filter isParaNode).length⟩

theorem slots_length (l : List DNode) (off : Nat) : (slots l off).length = (l.filter isParaNode).length := by
  have := congrArg List.length (slots_read l off); simpa using this

theorem HRel.init (kids : List DNode) :
    HRel kids ((paraPositions kids).map some) (LModel.init kids) := by
  rw [paraPositions_slots]
  have hget : ∀ j : Nat, ((slots kids 0).map some)[j]? = ((slots kids 0)[j]?).map some := by
    intro j; simp
  refine ⟨?_, ?_, ?_, ?_⟩
  · simp only [LModel.init, List.map_map]
    rw [← slots_read kids 0]
    apply List.map_congr_left
    intro s _; simp [rd]
  · simp only [LModel.init, ← slots_length kids 0]
    apply List.ext_getElem?
    intro j
    simp only [List.getElem?_map, List.getElem?_range']
    by_cases hj : j < (slots kids 0).length
    · simp [List.getElem?_range hj, hj, ss]
    · have : (slots kids 0).length ≤ j := by omega
      simp [List.getElem?_eq_none, this]
  · intro j s hj
    rw [hget] at hj
    simp only [LModel.init, ← slots_length kids 0, List.mem_range]
    rcases Nat.lt_or_ge j (slots kids 0).length with h | h
    · exact h
    · rw [List.getElem?_eq_none h] at hj; simp at hj
  · intro j j' s hj hj'
    rw [hget] at hj hj'
    -- positions are strictly increasing, so equal positions have equal indices
    have hsorted : ∀ (l : List DNode) (off a b : Nat), a < b → ∀ x y,
        (slots l off)[a]? = some x → (slots l off)[b]? = some y → x < y := by
      intro l
      induction l with
      | nil => intro off a b _ x y h; simp [slots] at h
      | cons c cs ih =>
        intro off a b hab x y hx hy
        simp only [slots] at hx hy
        by_cases hc : isParaNode c = true
        · simp only [hc, ↓reduceIte] at hx hy
          cases b with
          | zero => omega
          | succ b =>
            simp only [List.getElem?_cons_succ] at hy
            cases a with
            | zero =>
              simp only [List.getElem?_cons_zero, Option.some.injEq] at hx; subst hx
              have := (slots_bounds _ _ _ (List.mem_of_getElem? hy)).1; omega
            | succ a => simp only [List.getElem?_cons_succ] at hx; exact ih _ a b (by omega) x y hx hy
        · simp only [hc, Bool.false_eq_true, ↓reduceIte] at hx hy
          exact ih _ a b hab x y hx hy
    have h1 : (slots kids 0)[j]? = some s := by
      cases h : (slots kids 0)[j]? with
      | none => rw [h] at hj; simp at hj
      | some x => rw [h] at hj; simp at hj; rw [hj]
    have h2 : (slots kids 0)[j']? = some s := by
      cases h : (slots kids 0)[j']? with
      | none => rw [h] at hj'; simp at hj'
      | some x => rw [h] at hj'; simp at hj'; rw [hj']
    rcases Nat.lt_trichotomy j j' with h | h | h
    · have := hsorted kids 0 j j' h s s h1 h2; omega
    · exact h
    · have := hsorted kids 0 j' j h s s h2 h1; omega

/-! ## what the invariant says about the observables -/

/-- oracle step (1): per handle number — never handed out / dead on both sides / live and reading
    a PARAGRAPH node whose items are the model's -/
theorem HRel.oracle1 {d : Doc} {M : LModel} (H : HRel d.kids d.handles M) (j : Nat) :
    match M.paras[j]? with
    | none => d.handles.length ≤ j ∧ d.para j = none
    | some none => d.handles[j]? = some none ∧ d.para j = none
    | some (some m) => ∃ n, d.para j = some n ∧ isParaNode n = true ∧ items n = m := by
  have hp : M.paras[j]? = (d.handles[j]?).map (rd d.kids) := by rw [H.reads]; simp
  rw [hp]
  unfold Doc.para
  cases hh : d.handles[j]? with
  | none =>
    simp only [Option.map_none]
    refine ⟨?_, trivial⟩
    rcases Nat.lt_or_ge j d.handles.length with h | h
    · rw [List.getElem?_eq_getElem h] at hh; simp at hh
    · exact h
  | some o =>
    cases o with
    | none => simp [rd]
    | some s =>
      obtain ⟨n, hn, hpn⟩ := H.valid_node hh
      simp only [Option.map_some, rd, Option.bind_some, hn]
      exact ⟨n, rfl, hpn, rfl⟩

/-- oracle step (2): the document lists the paragraphs in the model's order
    (`model.order.iter().map(|h| model.paras[*h].clone().unwrap_or_default())`), and every handle
    in `order` is live -/
theorem HRel.oracle2 {d : Doc} {M : LModel} (H : HRel d.kids d.handles M) :
    docItems d.root = M.order.map (fun h => ((M.paras[h]?).join).getD [])
    ∧ ∀ h ∈ M.order, ∃ m, M.paras[h]? = some (some m) := by
  have hp : ∀ h : Nat, M.paras[h]? = (d.handles[h]?).map (rd d.kids) := by
    intro h; rw [H.reads]; simp
  have hlive : ∀ h ∈ M.order, ∃ s, d.handles[h]? = some (some s) ∧ s ∈ slots d.kids 0 := by
    intro h hh
    have h2 : (fun h => d.handles[h]?) h ∈ M.order.map (fun h => d.handles[h]?) := List.mem_map_of_mem hh
    rw [H.order] at h2
    simp only [List.mem_map, ss] at h2
    obtain ⟨s, hs, he⟩ := h2
    exact ⟨s, he.symm, hs⟩
  constructor
  · have h1 : docItems d.root = (d.kids.filter isParaNode).map items := rfl
    have h2 := slots_read d.kids 0
    simp only [Nat.sub_zero] at h2
    have h3 : M.order.map (fun h => (M.paras[h]?).join) = (slots d.kids 0).map (fun s => (d.kids[s]?).map items) := by
      have : M.order.map (fun h => (M.paras[h]?).join) =
          (M.order.map (fun h => d.handles[h]?)).map (fun o => (o.map (rd d.kids)).join) := by
        rw [List.map_map]; apply List.map_congr_left; intro h _; simp [hp h]
      rw [this, H.order, List.map_map]
      apply List.map_congr_left
      intro s _; simp [ss, rd]
    rw [h2] at h3
    have h4 := congrArg (List.map (fun o : Option Items => o.getD [])) h3
    simp only [List.map_map, Function.comp_def, Option.getD_some] at h4
    rw [h1]; exact h4.symm
  · intro h hh
    obtain ⟨s, hs, hmem⟩ := hlive h hh
    obtain ⟨n, hn, _⟩ := H.valid_node hs
    exact ⟨items n, by rw [hp h, hs]; simp [rd, hn]⟩

/-! dead handles stay dead, handle numbers are never reused (facts about the model) -/

theorem LModel.edit_dead (M : LModel) (h : Nat) (g : Items → Items) (j : Nat) (hj : M.paras[j]? = some none) :
    (M.edit h g).paras[j]? = some none := by
  unfold LModel.edit
  split
  · rename_i m hm
    by_cases e : h = j
    · subst e; rw [hm] at hj; simp at hj
    · simp only; rw [List.getElem?_set_ne e]; exact hj
  · exact hj

theorem getElem?_append_some {α} (l r : List α) (j : Nat) (x : α) (h : l[j]? = some x) : (l ++ r)[j]? = some x := by
  rw [List.getElem?_append_left (List.getElem?_eq_some_iff.mp h).1]; exact h

theorem LModel.rmp_dead (M : LModel) (i j : Nat) (hj : M.paras[j]? = some none) :
    (M.rmp i).paras[j]? = some none := by
  unfold LModel.rmp
  split
  · rename_i h _
    simp only
    by_cases e : h = j
    · subst e; rw [List.getElem?_set_self (List.getElem?_eq_some_iff.mp hj).1]
    · rw [List.getElem?_set_ne e]; exact hj
  · exact hj

/-! ### the invariant is decidable -/

theorem live_iff (hs : List (Option Nat)) (j : Nat) :
    ((hs[j]?).join.isSome = true) ↔ ∃ s, hs[j]? = some (some s) := by
  cases h : hs[j]? with
  | none => simp
  | some o => cases o <;> simp

theorem hrel_iff (kids : List DNode) (hs : List (Option Nat)) (M : LModel) :
    HRel kids hs M ↔
      (M.paras = hs.map (rd kids)
      ∧ M.order.map (fun h => hs[h]?) = (slots kids 0).map ss
      ∧ (∀ j, j < hs.length → (hs[j]?).join.isSome = true → j ∈ M.order)
      ∧ (∀ j, j < hs.length → ∀ j', j' < hs.length →
          (hs[j]?).join.isSome = true → hs[j]? = hs[j']? → j = j')) := by
  constructor
  · intro H
    refine ⟨H.reads, H.order, ?_, ?_⟩
    · intro j _ hl
      obtain ⟨s, hs'⟩ := (live_iff hs j).1 hl
      exact H.cover j s hs'
    · intro j _ j' _ hl he
      obtain ⟨s, hs'⟩ := (live_iff hs j).1 hl
      exact H.inj j j' s hs' (he ▸ hs')
  · rintro ⟨h1, h2, h3, h4⟩
    refine ⟨h1, h2, ?_, ?_⟩
    · intro j s hj
      exact h3 j (List.getElem?_eq_some_iff.mp hj).1 ((live_iff hs j).2 ⟨s, hj⟩)
    · intro j j' s hj hj'
      exact h4 j (List.getElem?_eq_some_iff.mp hj).1 j' (List.getElem?_eq_some_iff.mp hj').1
        ((live_iff hs j).2 ⟨s, hj⟩) (hj.trans hj'.symm)

instance (kids : List DNode) (hs : List (Option Nat)) (M : LModel) : Decidable (HRel kids hs M) :=
  have d1 : Decidable (M.paras = hs.map (rd kids)) := inferInstance
  have d2 : Decidable (M.order.map (fun h => hs[h]?) = (slots kids 0).map ss) := inferInstance
  have d3 : Decidable (∀ j, j < hs.length → (hs[j]?).join.isSome = true → j ∈ M.order) := inferInstance
  have d4 : Decidable (∀ j, j < hs.length → ∀ j', j' < hs.length →
      (hs[j]?).join.isSome = true → hs[j]? = hs[j']? → j = j') := inferInstance
  have d34 := @instDecidableAnd _ _ d3 d4
  have d234 := @instDecidableAnd _ _ d2 d34
  have d := @instDecidableAnd _ _ d1 d234
  @decidable_of_iff _ _ (hrel_iff kids hs M).symm d


end Deb822Verif.Deb
