import Deb822Verif.Lemmas.RelLexField
/-! The lossless relation parser on the token list of a well-formed field: it produces exactly
    `FieldA.tree`, without errors (C10, stage 2). -/
set_option linter.unusedSimpArgs false
set_option linter.unusedVariables false
namespace Deb822Verif.Rel
open Deb822Verif Node RelSpec PR

/-- the next token (if any) is not whitespace / newline -/
def NoWs (ts : List Tok) : Prop := ∀ t, ts.head? = some t → isWsKind t.1 = false

theorem noWs_nil : NoWs [] := by intro t h; simp at h
theorem noWs_cons (t : Tok) (r : List Tok) (h : isWsKind t.1 = false) : NoWs (t :: r) := by
  intro x hx; simp at hx; subst hx; exact h

theorem gapToks_ws (g : Gap) : ∀ t ∈ gapToks g, isWsKind t.1 = true := by
  intro t ht
  simp only [gapToks, List.mem_map] at ht
  obtain ⟨p, _, rfl⟩ := ht
  cases p <;> rfl

theorem skipWs_ws (ws rest : List Tok) (hws : ∀ t ∈ ws, isWsKind t.1 = true) (hr : NoWs rest) :
    skipWs (ws ++ rest) = ⟨tks ws, [], rest⟩ := by
  induction ws with
  | nil =>
    cases rest with
    | nil => simp [skipWs, tks]
    | cons t r => simp [skipWs, tks, hr t (by simp)]
  | cons w ws ih =>
    have := ih (fun t ht => hws t (by simp [ht]))
    simp [skipWs, hws w (by simp), this, tks]

theorem skipWs_gap (g : Gap) (rest : List Tok) (hr : NoWs rest) :
    skipWs (gapToks g ++ rest) = ⟨tks (gapToks g), [], rest⟩ := skipWs_ws _ _ (gapToks_ws g) hr

theorem skipWs_noWs (rest : List Tok) (hr : NoWs rest) : skipWs rest = ⟨[], [], rest⟩ := by
  simpa [tks] using skipWs_ws [] rest (by simp) hr

theorem peek_ws (ws rest : List Tok) (hws : ∀ t ∈ ws, isWsKind t.1 = true) (hr : NoWs rest) :
    peekPastWs (ws ++ rest) = cur rest := by
  rw [peek_eq_cur_skip, skipWs_ws ws rest hws hr]

theorem peek_gap (g : Gap) (rest : List Tok) (hr : NoWs rest) :
    peekPastWs (gapToks g ++ rest) = cur rest := peek_ws _ _ (gapToks_ws g) hr

theorem peek_noWs (rest : List Tok) (hr : NoWs rest) : peekPastWs rest = cur rest := by
  simpa using peek_ws [] rest (by simp) hr

theorem expect_hit (k : Kind) (msg : String) (t : Tok) (rest : List Tok) (h : t.1 = k) :
    expect k msg (t :: rest) = ⟨[tk t], [], rest⟩ := by
  simp [expect, cur, h, bump1]

@[simp] theorem tks_nil : tks [] = [] := rfl
@[simp] theorem tks_cons (t : Tok) (ts) : tks (t :: ts) = tk t :: tks ts := rfl
@[simp] theorem tks_append (a b : List Tok) : tks (a ++ b) = tks a ++ tks b := by simp [tks]

/-! ### architecture qualifier stage -/

theorem archqualPart_some (a : Str) (g : Gap) (more : List Tok) (hm : NoWs more) :
    archqualPart ((.COLON, [':']) :: (.IDENT, a) :: (gapToks g ++ more))
      = ⟨Node.node .ARCHQUAL [tk (.COLON, [':']), tk (.IDENT, a)] :: tks (gapToks g), [], more⟩ := by
  have h1 : skipWs ((Kind.IDENT, a) :: (gapToks g ++ more)) = ⟨[], [], (Kind.IDENT, a) :: (gapToks g ++ more)⟩ :=
    skipWs_noWs _ (noWs_cons _ _ rfl)
  simp [archqualPart, peekPastWs, isWsKind, skipWs, PR.andThen, PR.wrap, bump1, h1, expect, cur,
    skipWs_gap g more hm]

/-- no qualifier, and what follows (past whitespace) opens a version / architecture / profile
    block or is the end of input: the whitespace is consumed -/
theorem archqualPart_skip (g : Gap) (more : List Tok) (hm : NoWs more)
    (hk : cur more = none ∨ cur more = some .L_PARENS ∨ cur more = some .L_BRACKET ∨ cur more = some .L_ANGLE) :
    archqualPart (gapToks g ++ more) = ⟨tks (gapToks g), [], more⟩ := by
  have hp := peek_gap g more hm
  rcases hk with h | h | h | h <;> simp [archqualPart, hp, h, skipWs_gap g more hm]

/-- no qualifier, followed (past whitespace) by `|` or `,`: nothing is consumed -/
theorem archqualPart_stay (g : Gap) (more : List Tok) (hm : NoWs more)
    (hk : cur more = some .PIPE ∨ cur more = some .COMMA) :
    archqualPart (gapToks g ++ more) = PR.nil (gapToks g ++ more) := by
  have hp := peek_gap g more hm
  rcases hk with h | h <;> simp [archqualPart, hp, h]

/-! ### version stage -/

theorem constraintLoop_op (op : VC) (more : List Tok)
    (hm : ∀ t, more.head? = some t → t.1 ≠ .L_ANGLE ∧ t.1 ≠ .R_ANGLE ∧ t.1 ≠ .EQUAL) :
    constraintLoop (opToks op ++ more) = ⟨tks (opToks op), [], more⟩ := by
  have hstop : constraintLoop more = ⟨[], [], more⟩ := by
    cases more with
    | nil => simp [constraintLoop]
    | cons t r =>
      obtain ⟨a, b, c⟩ := hm t (by simp)
      simp [constraintLoop, a, b, c]
  cases op <;> simp [opToks, constraintLoop, hstop]

/-- the loop takes `COLON IDENT` pairs as long as a COLON comes next -/
theorem versionLoop_colonTail (qs : List Str) (more : List Tok) (hm : cur more ≠ some .COLON) :
    versionLoop (colonTail qs ++ more) = ⟨tks (colonTail qs), [], more⟩ := by
  induction qs with
  | nil =>
    match more, hm with
    | [], _ => simp [versionLoop]
    | [c], hm =>
      have : c.1 ≠ .COLON := by simpa [cur] using hm
      simp [versionLoop, this]
    | c :: t :: r, hm =>
      have : c.1 ≠ .COLON := by simpa [cur] using hm
      simp [versionLoop, this]
  | cons q qs ih => simp [versionLoop, ih]

theorem versionTok_ver (v : VersionA) (more : List Tok) (hm : cur more ≠ some .COLON) :
    versionTok (v.toks ++ more) = ⟨tks v.toks, [], more⟩ := by
  simp [VersionA.toks, versionTok, cur, bump1, PR.andThen, versionLoop_colonTail _ _ hm]

theorem opToks_noWs (op : VC) (more : List Tok) : NoWs (opToks op ++ more) := by
  cases op <;> exact noWs_cons _ _ rfl

theorem verToks_noWs (v : VersionA) (more : List Tok) : NoWs (v.toks ++ more) := by
  exact noWs_cons _ _ rfl

theorem gap_head_not {P : Kind → Prop} (g : Gap) (more : List Tok) (hws : P .WHITESPACE) (hnl : P .NEWLINE)
    (hm : ∀ t, more.head? = some t → P t.1) : ∀ t, (gapToks g ++ more).head? = some t → P t.1 := by
  cases g with
  | nil => simpa [gapToks] using hm
  | cons x g =>
    intro t ht
    cases x <;> (simp [gapToks, GapPiece.tok] at ht; subst ht; assumption)

/-- the whole `( … )` block, preceded by any gap -/
theorem versionPart_ver (g : Gap) (v : VerPart) (more : List Tok) :
    versionPart (gapToks g ++ (.L_PARENS, ['(']) :: (v.inner ++ (.R_PARENS, [')']) :: more))
      = ⟨tks (gapToks g) ++ [v.node], [], more⟩ := by
  have hp : peekPastWs (gapToks g ++ (Kind.L_PARENS, ['(']) :: (v.inner ++ (Kind.R_PARENS, [')']) :: more))
      = some .L_PARENS := by
    rw [peek_gap _ _ (noWs_cons _ _ rfl)]; rfl
  have hs := skipWs_gap g ((Kind.L_PARENS, ['(']) :: (v.inner ++ (Kind.R_PARENS, [')']) :: more))
    (noWs_cons _ _ rfl)
  have e1 : v.inner ++ (Kind.R_PARENS, [')']) :: more
      = gapToks v.g2 ++ (opToks v.op ++ (gapToks v.g3 ++ (v.ver.toks ++ (gapToks v.g4 ++ (Kind.R_PARENS, [')']) :: more)))) := by
    simp [VerPart.inner]
  have s2 := skipWs_gap v.g2 (opToks v.op ++ (gapToks v.g3 ++ (v.ver.toks ++ (gapToks v.g4 ++ (Kind.R_PARENS, [')']) :: more))))
    (opToks_noWs _ _)
  have c := constraintLoop_op v.op (gapToks v.g3 ++ (v.ver.toks ++ (gapToks v.g4 ++ (Kind.R_PARENS, [')']) :: more)))
    (gap_head_not (P := fun k => k ≠ .L_ANGLE ∧ k ≠ .R_ANGLE ∧ k ≠ .EQUAL) _ _ (by decide) (by decide) (by
      intro t ht
      simp [VersionA.toks] at ht; subst ht; simp))
  have s3 := skipWs_gap v.g3 (v.ver.toks ++ (gapToks v.g4 ++ (Kind.R_PARENS, [')']) :: more)) (verToks_noWs _ _)
  have hnc : cur (gapToks v.g4 ++ (Kind.R_PARENS, [')']) :: more) ≠ some .COLON := by
    have := gap_head_not (P := fun k => k ≠ Kind.COLON) v.g4 ((Kind.R_PARENS, [')']) :: more)
      (by decide) (by decide) (by intro t ht; simp at ht; subst ht; simp)
    cases hx : gapToks v.g4 ++ (Kind.R_PARENS, [')']) :: more with
    | nil => simp [cur]
    | cons t r => simpa [cur] using this t (by rw [hx]; rfl)
  have vt := versionTok_ver v.ver (gapToks v.g4 ++ (Kind.R_PARENS, [')']) :: more) hnc
  have s4 := skipWs_gap v.g4 ((Kind.R_PARENS, [')']) :: more) (noWs_cons _ _ rfl)
  have ex := expect_hit .R_PARENS "Expected ')'" (Kind.R_PARENS, [')']) more rfl
  simp only [versionPart, hp, ↓reduceIte, PR.andThen, hs, bump1]
  simp only [e1, s2, PR.wrap, c, s3, vt, s4, ex]
  simp [VerPart.node]

theorem versionPart_none (ts : List Tok) (h : peekPastWs ts ≠ some .L_PARENS) :
    versionPart ts = PR.nil ts := by
  simp [versionPart, h]


/-! ### architecture list -/

/-- one iteration of the architectures loop on `whitespace… t more` -/
theorem archLoop_step (ws : List Tok) (t : Tok) (more : List Tok)
    (hws : ∀ x ∈ ws, isWsKind x.1 = true) (ht : isWsKind t.1 = false) :
    archLoop (ws ++ t :: more) =
      if t.1 = .NOT ∨ t.1 = .IDENT then
        ⟨tks ws ++ tk t :: (archLoop more).nodes, (archLoop more).errs, (archLoop more).rest⟩
      else if t.1 = .R_BRACKET then ⟨tks ws ++ [tk t], [], more⟩
      else ⟨tks ws ++ Node.node .ERROR [tk t] :: (archLoop more).nodes,
        archMsg :: (archLoop more).errs, (archLoop more).rest⟩ := by
  have hs := skipWs_ws ws (t :: more) hws (noWs_cons _ _ ht)
  rw [archLoop]
  split
  · rename_i h; rw [hs] at h; simp at h
  · rename_i t' r h
    rw [hs] at h; simp at h; obtain ⟨rfl, rfl⟩ := h
    simp only [hs]

theorem archLoop_items (is : List Item) (post : Gap) (more : List Tok) :
    archLoop (itemsToks is ++ (gapToks post ++ (.R_BRACKET, [']']) :: more))
      = ⟨tks (itemsToks is ++ (gapToks post ++ [(.R_BRACKET, [']'])])), [], more⟩ := by
  induction is with
  | nil =>
    have := archLoop_step (gapToks post) (.R_BRACKET, [']']) more (gapToks_ws post) rfl
    simpa [itemsToks] using this
  | cons i is ih =>
    simp only [itemsToks, List.map_cons, List.flatten_cons, List.append_assoc] at ih ⊢
    cases hn : i.neg with
    | false =>
      have := archLoop_step (gapToks i.gap) (.IDENT, i.name)
        ((is.map Item.toks).flatten ++ (gapToks post ++ (.R_BRACKET, [']']) :: more)) (gapToks_ws _) rfl
      simp only [Item.toks, hn, Bool.false_eq_true, ↓reduceIte, List.append_nil, List.append_assoc,
        List.cons_append, List.nil_append]
      rw [this, ih]; simp
    | true =>
      have h1 := archLoop_step (gapToks i.gap) (.NOT, ['!'])
        ((.IDENT, i.name) :: ((is.map Item.toks).flatten ++ (gapToks post ++ (.R_BRACKET, [']']) :: more)))
        (gapToks_ws _) rfl
      have h2 := archLoop_step [] (.IDENT, i.name)
        ((is.map Item.toks).flatten ++ (gapToks post ++ (.R_BRACKET, [']']) :: more)) (by simp) rfl
      simp only [Item.toks, hn, ↓reduceIte, List.append_assoc, List.cons_append, List.nil_append] at h2 ⊢
      rw [h1, h2, ih]; simp

/-- the whole `[ … ]` block, preceded by any gap -/
theorem archPart_archs (g : Gap) (a : Bracket) (more : List Tok) :
    archPart (gapToks g ++ (archBody a ++ more))
      = ⟨tks (gapToks g) ++ [Node.node .ARCHITECTURES (tks (archBody a))], [], more⟩ := by
  have hp : peekPastWs (gapToks g ++ (archBody a ++ more)) = some .L_BRACKET := by
    rw [archBody, Bracket.body, List.cons_append, peek_gap _ _ (noWs_cons _ _ rfl)]; rfl
  have hs := skipWs_gap g (archBody a ++ more) (by
    rw [archBody, Bracket.body, List.cons_append]; exact noWs_cons _ _ rfl)
  have hl := archLoop_items a.items a.post more
  simp only [archPart, hp, ↓reduceIte, PR.andThen, hs]
  simp only [archBody, Bracket.body, List.cons_append, List.append_assoc, bump1, PR.wrap]
  simp [hl]

theorem archPart_none (ts : List Tok) (h : peekPastWs ts ≠ some .L_BRACKET) : archPart ts = PR.nil ts := by
  simp [archPart, h]

/-! ### profile groups -/

theorem profLoop_step (ws : List Tok) (t : Tok) (more : List Tok)
    (hws : ∀ x ∈ ws, isWsKind x.1 = true) (ht : isWsKind t.1 = false) :
    profLoop (ws ++ t :: more) =
      if t.1 = .IDENT then
        ⟨tks ws ++ tk t :: (profLoop more).nodes, (profLoop more).errs, (profLoop more).rest⟩
      else if t.1 = .NOT then
        ⟨tks ws ++ tk t :: ((notTail more).nodes ++ (profLoop (notTail more).rest).nodes),
          (notTail more).errs ++ (profLoop (notTail more).rest).errs, (profLoop (notTail more).rest).rest⟩
      else if t.1 = .R_ANGLE then ⟨tks ws ++ [tk t], [], more⟩
      else ⟨tks ws ++ Node.node .ERROR [tk t] :: (profLoop more).nodes,
        "Expected profile or '!' or '>'" :: (profLoop more).errs, (profLoop more).rest⟩ := by
  have hs := skipWs_ws ws (t :: more) hws (noWs_cons _ _ ht)
  rw [profLoop]
  split
  · rename_i h; rw [hs] at h; simp at h
  · rename_i t' r h
    rw [hs] at h; simp at h; obtain ⟨rfl, rfl⟩ := h
    simp only [hs]

theorem notTail_ident (n : Str) (more : List Tok) :
    notTail ((.IDENT, n) :: more) = ⟨[tk (.IDENT, n)], [], more⟩ := by
  simp [notTail, PR.andThen, skipWs_noWs _ (noWs_cons (Kind.IDENT, n) more rfl), expect_hit]

theorem profLoop_items (is : List Item) (post : Gap) (more : List Tok) :
    profLoop (itemsToks is ++ (gapToks post ++ (.R_ANGLE, ['>']) :: more))
      = ⟨tks (itemsToks is ++ (gapToks post ++ [(.R_ANGLE, ['>'])])), [], more⟩ := by
  induction is with
  | nil =>
    have := profLoop_step (gapToks post) (.R_ANGLE, ['>']) more (gapToks_ws post) rfl
    simpa [itemsToks] using this
  | cons i is ih =>
    simp only [itemsToks, List.map_cons, List.flatten_cons, List.append_assoc] at ih ⊢
    cases hn : i.neg with
    | false =>
      have := profLoop_step (gapToks i.gap) (.IDENT, i.name)
        ((is.map Item.toks).flatten ++ (gapToks post ++ (.R_ANGLE, ['>']) :: more)) (gapToks_ws _) rfl
      simp only [Item.toks, hn, Bool.false_eq_true, ↓reduceIte, List.append_nil, List.append_assoc,
        List.cons_append, List.nil_append]
      rw [this, ih]; simp
    | true =>
      have h1 := profLoop_step (gapToks i.gap) (.NOT, ['!'])
        ((.IDENT, i.name) :: ((is.map Item.toks).flatten ++ (gapToks post ++ (.R_ANGLE, ['>']) :: more)))
        (gapToks_ws _) rfl
      simp only [Item.toks, hn, ↓reduceIte, List.append_assoc, List.cons_append, List.nil_append]
      rw [h1, notTail_ident, ih]; simp

theorem profBlock_group (g : Gap) (p : Bracket) (more : List Tok) :
    profBlock (gapToks g ++ (profBody p ++ more))
      = ⟨tks (gapToks g) ++ [Node.node .PROFILES (tks (profBody p))], [], more⟩ := by
  have hs := skipWs_gap g (profBody p ++ more) (by
    rw [profBody, Bracket.body, List.cons_append]; exact noWs_cons _ _ rfl)
  have hl := profLoop_items p.items p.post more
  simp only [profBlock, PR.andThen, hs]
  simp only [profBody, Bracket.body, List.cons_append, List.append_assoc, bump1, PR.wrap]
  simp [hl]

def profsNodes (ps : List Bracket) : List RNode :=
  (ps.map fun p => tks (gapToks p.pre) ++ [Node.node .PROFILES (tks (profBody p))]).flatten

theorem profilesLoop_stop (ts : List Tok) (h : peekPastWs ts ≠ some .L_ANGLE) :
    profilesLoop ts = PR.nil ts := by
  rw [profilesLoop]; simp [h]

theorem profilesLoop_groups (ps : List Bracket) (more : List Tok) (hm : peekPastWs more ≠ some .L_ANGLE) :
    profilesLoop (profsToks ps ++ more) = ⟨profsNodes ps, [], more⟩ := by
  induction ps with
  | nil => simpa [profsToks, profsNodes, PR.nil] using profilesLoop_stop more hm
  | cons p ps ih =>
    simp only [profsToks, profsNodes, List.map_cons, List.flatten_cons, List.append_assoc] at ih ⊢
    have hp : peekPastWs (gapToks p.pre ++ (profBody p ++ ((ps.map fun p => gapToks p.pre ++ profBody p).flatten ++ more)))
        = some .L_ANGLE := by
      rw [profBody, Bracket.body, List.cons_append, peek_gap _ _ (noWs_cons _ _ rfl)]; rfl
    rw [profilesLoop]
    simp only [hp, ↓reduceDIte, profBlock_group, ih]
    simp

/-- the same with an arbitrary gap before the first group -/
theorem profilesLoop_groups' (g : Gap) (p : Bracket) (ps : List Bracket) (more : List Tok)
    (hm : peekPastWs more ≠ some .L_ANGLE) :
    profilesLoop (gapToks g ++ (profBody p ++ (profsToks ps ++ more)))
      = ⟨tks (gapToks g) ++ Node.node .PROFILES (tks (profBody p)) :: profsNodes ps, [], more⟩ := by
  have hp : peekPastWs (gapToks g ++ (profBody p ++ (profsToks ps ++ more))) = some .L_ANGLE := by
    rw [profBody, Bracket.body, List.cons_append, peek_gap _ _ (noWs_cons _ _ rfl)]; rfl
  rw [profilesLoop]
  simp only [hp, ↓reduceDIte, profBlock_group, profilesLoop_groups ps more hm]
  simp


/-! ### a whole relation -/

/-- version, architectures, profiles: what `parse_relation` runs after the qualifier stage -/
def stage2 (ts : List Tok) : PR :=
  (versionPart ts).andThen fun ts => (archPart ts).andThen profilesLoop

theorem parseRelation_eq (ts : List Tok) :
    parseRelation ts = ((expect .IDENT "Expected package name" ts).andThen fun ts =>
      (archqualPart ts).andThen stage2).wrap .RELATION := rfl

/-- past whitespace comes `|`, `,` or the end of input -/
def EndPeek (x : List Tok) : Prop :=
  peekPastWs x = none ∨ peekPastWs x = some .PIPE ∨ peekPastWs x = some .COMMA

theorem EndPeek.ne {x : List Tok} (h : EndPeek x) :
    peekPastWs x ≠ some .L_PARENS ∧ peekPastWs x ≠ some .L_BRACKET ∧ peekPastWs x ≠ some .L_ANGLE := by
  rcases h with h | h | h <;> simp [h]

theorem stage2_none (x : List Tok) (hx : EndPeek x) : stage2 x = ⟨[], [], x⟩ := by
  obtain ⟨h1, h2, h3⟩ := hx.ne
  simp [stage2, versionPart_none x h1, PR.nil, PR.andThen, archPart_none x h2, profilesLoop_stop x h3]

def vbody (v : VerPart) : List Tok := (.L_PARENS, ['(']) :: (v.inner ++ [(.R_PARENS, [')'])])
def archNodes (a : Option Bracket) : List RNode :=
  match a with
  | some a => tks (gapToks a.pre) ++ [Node.node .ARCHITECTURES (tks (archBody a))]
  | none => []

theorem peek_profsToks (ps : List Bracket) (x : List Tok) (k : Kind) (hk : k ≠ .L_ANGLE)
    (hx : peekPastWs x ≠ some k) : peekPastWs (profsToks ps ++ x) ≠ some k := by
  cases ps with
  | nil => simpa [profsToks] using hx
  | cons p ps =>
    simp only [profsToks, List.map_cons, List.flatten_cons, List.append_assoc, profBody, Bracket.body,
      List.cons_append]
    rw [peek_gap _ _ (noWs_cons _ _ rfl)]
    simpa [cur] using hk.symm

theorem stage2_p (g : Gap) (p : Bracket) (ps : List Bracket) (x : List Tok) (hx : EndPeek x) :
    stage2 (gapToks g ++ (profBody p ++ (profsToks ps ++ x)))
      = ⟨tks (gapToks g) ++ Node.node .PROFILES (tks (profBody p)) :: profsNodes ps, [], x⟩ := by
  have hp : peekPastWs (gapToks g ++ (profBody p ++ (profsToks ps ++ x))) = some .L_ANGLE := by
    rw [profBody, Bracket.body, List.cons_append, peek_gap _ _ (noWs_cons _ _ rfl)]; rfl
  simp [stage2, versionPart_none _ (by rw [hp]; simp), archPart_none _ (by rw [hp]; simp), PR.nil,
    PR.andThen, profilesLoop_groups' g p ps x hx.ne.2.2]

theorem profs_stage (ps : List Bracket) (x : List Tok) (hx : EndPeek x) :
    profilesLoop (profsToks ps ++ x) = ⟨profsNodes ps, [], x⟩ := profilesLoop_groups ps x hx.ne.2.2

theorem stage2_a (g : Gap) (a : Bracket) (ps : List Bracket) (x : List Tok) (hx : EndPeek x) :
    stage2 (gapToks g ++ (archBody a ++ (profsToks ps ++ x)))
      = ⟨tks (gapToks g) ++ Node.node .ARCHITECTURES (tks (archBody a)) :: profsNodes ps, [], x⟩ := by
  have hp : peekPastWs (gapToks g ++ (archBody a ++ (profsToks ps ++ x))) = some .L_BRACKET := by
    rw [archBody, Bracket.body, List.cons_append, peek_gap _ _ (noWs_cons _ _ rfl)]; rfl
  simp [stage2, versionPart_none _ (by rw [hp]; simp), PR.nil, PR.andThen, archPart_archs,
    profs_stage ps x hx]

theorem arch_stage (a : Option Bracket) (ps : List Bracket) (x : List Tok) (hx : EndPeek x) :
    (archPart (archToks a ++ (profsToks ps ++ x))).andThen profilesLoop
      = ⟨archNodes a ++ profsNodes ps, [], x⟩ := by
  cases a with
  | none =>
    have := archPart_none (profsToks ps ++ x) (peek_profsToks ps x _ (by decide) hx.ne.2.1)
    simp [archToks, archNodes, this, PR.nil, PR.andThen, profs_stage ps x hx]
  | some a =>
    simp [archToks, archNodes, PR.andThen, archPart_archs, profs_stage ps x hx]

theorem stage2_v (g : Gap) (v : VerPart) (a : Option Bracket) (ps : List Bracket) (x : List Tok)
    (hx : EndPeek x) :
    stage2 (gapToks g ++ (vbody v ++ (archToks a ++ (profsToks ps ++ x))))
      = ⟨tks (gapToks g) ++ v.node :: (archNodes a ++ profsNodes ps), [], x⟩ := by
  have := versionPart_ver g v (archToks a ++ (profsToks ps ++ x))
  simp only [vbody, List.cons_append, List.append_assoc, List.nil_append] at this ⊢
  have h2 := arch_stage a ps x hx
  simp only [PR.andThen] at h2
  simp only [stage2, this, PR.andThen]
  simp [PR.mk.injEq] at h2 ⊢
  simp [h2]

/-- what may follow a relation and its trailing gap -/
def RelEnd (more : List Tok) : Prop :=
  more = [] ∨ ∃ t r, more = t :: r ∧ (t.1 = .PIPE ∨ t.1 = .COMMA)

def followOf : List Tok → Follow
  | [] => .eof
  | t :: _ => if t.1 = .PIPE then .pipe else .comma

theorem RelEnd.noWs {more} (h : RelEnd more) : NoWs more := by
  rcases h with rfl | ⟨t, r, rfl, h | h⟩
  · exact noWs_nil
  · exact noWs_cons _ _ (by simp [isWsKind, h])
  · exact noWs_cons _ _ (by simp [isWsKind, h])

theorem RelEnd.endPeek {more} (h : RelEnd more) (g : Gap) : EndPeek (gapToks g ++ more) := by
  unfold EndPeek
  rw [peek_gap g more h.noWs]
  rcases h with rfl | ⟨t, r, rfl, h | h⟩
  · simp [cur]
  · simp [cur, h]
  · simp [cur, h]


def aqNodes (aq : Option Str) : List RNode :=
  match aq with
  | some a => [Node.node .ARCHQUAL [tk (.COLON, [':']), tk (.IDENT, a)]]
  | none => []

/-- the qualifier stage consumes the gap that follows, unless there is no qualifier and `|` / `,`
    comes next -/
theorem aq_stage (aq : Option Str) (L : Gap) (S : List Tok) (hS : NoWs S)
    (h : aq.isSome = true ∨ cur S = none ∨ cur S = some .L_PARENS ∨ cur S = some .L_BRACKET
      ∨ cur S = some .L_ANGLE) :
    archqualPart (aqToks aq ++ (gapToks L ++ S)) = ⟨aqNodes aq ++ tks (gapToks L), [], S⟩ := by
  cases aq with
  | some a => simpa [aqToks, aqNodes] using archqualPart_some a L S hS
  | none =>
    simp only [Option.isSome_none, Bool.false_eq_true, false_or] at h
    simpa [aqToks, aqNodes] using archqualPart_skip L S hS h

theorem RelA.node_eq (r : RelA) (tail : List Tok) :
    r.node tail = .node .RELATION (tk (.IDENT, r.name) :: (aqNodes r.archqual
      ++ ((match r.version with | some v => tks (gapToks v.pre) ++ [v.node] | none => [])
      ++ (archNodes r.archs ++ (profsNodes r.profiles ++ tks tail))))) := by
  cases r with
  | mk n aq v a ps =>
    cases aq <;> cases v <;> cases a <;> simp [RelA.node, aqNodes, archNodes, profsNodes, tks]

theorem profsToks_cons (p : Bracket) (ps : List Bracket) :
    profsToks (p :: ps) = gapToks p.pre ++ (profBody p ++ profsToks ps) := by
  simp [profsToks]

theorem profsNodes_cons (p : Bracket) (ps : List Bracket) :
    profsNodes (p :: ps) = tks (gapToks p.pre) ++ Node.node .PROFILES (tks (profBody p)) :: profsNodes ps := by
  simp [profsNodes]

theorem VerPart.toks_eq (v : VerPart) : v.toks = gapToks v.pre ++ vbody v := by
  simp [VerPart.toks, vbody]

/-- C10 stage 2, one relation: `parse_relation` on the tokens of a well-formed relation followed by
    a gap and then `|`, `,` or the end of input -/
theorem parseRelation_rel (r : RelA) (tail : Gap) (more : List Tok)
    (hm : RelEnd more) :
    parseRelation (r.toks ++ (gapToks tail ++ more)) =
      if r.tailInside (followOf more) then ⟨[r.node (gapToks tail)], [], more⟩
      else ⟨[r.node []], [], gapToks tail ++ more⟩ := by
  have hx : EndPeek (gapToks tail ++ more) := hm.endPeek tail
  have hx0 : EndPeek more := by simpa [gapToks] using hm.endPeek []
  rw [parseRelation_eq, RelA.toks_eq, RelA.node_eq, RelA.node_eq]
  cases r with
  | mk name aq v a ps =>
  simp only [List.cons_append, List.append_assoc, expect_hit .IDENT _ (Kind.IDENT, name) _ rfl, PR.andThen]
  cases v with
  | some v =>
    have h1 := aq_stage aq v.pre (vbody v ++ (archToks a ++ (profsToks ps ++ (gapToks tail ++ more))))
      (noWs_cons _ _ rfl) (by simp [vbody, cur])
    have h2 := stage2_v [] v a ps (gapToks tail ++ more) hx
    simp only [gapToks, List.map_nil, List.nil_append, tks_nil] at h2
    simp only [verToks, VerPart.toks_eq, List.append_assoc, h1]
    simp [RelA.tailInside, RelA.bare, PR.wrap, h2, gapToks]
  | none =>
    cases a with
    | some a =>
      have h1 := aq_stage aq a.pre (archBody a ++ (profsToks ps ++ (gapToks tail ++ more)))
        (by rw [archBody, Bracket.body, List.cons_append]; exact noWs_cons _ _ rfl)
        (by simp [archBody, Bracket.body, cur])
      have h2 := stage2_a [] a ps (gapToks tail ++ more) hx
      simp only [gapToks, List.map_nil, List.nil_append, tks_nil] at h2
      simp only [verToks, archToks, List.nil_append, List.append_assoc, h1]
      simp [RelA.tailInside, RelA.bare, PR.wrap, h2, gapToks, archNodes]
    | none =>
      cases ps with
      | cons p ps =>
        have h1 := aq_stage aq p.pre (profBody p ++ (profsToks ps ++ (gapToks tail ++ more)))
          (by rw [profBody, Bracket.body, List.cons_append]; exact noWs_cons _ _ rfl)
          (by simp [profBody, Bracket.body, cur])
        have h2 := stage2_p [] p ps (gapToks tail ++ more) hx
        have e0 : gapToks [] = [] := rfl
        simp only [e0, List.nil_append, tks_nil] at h2
        simp only [verToks, archToks, profsToks_cons, List.nil_append, List.append_assoc, h1, h2]
        simp [RelA.tailInside, RelA.bare, PR.wrap, archNodes, profsNodes_cons]
      | nil =>
        simp only [verToks, archToks, profsToks, List.map_nil, List.flatten_nil, List.nil_append]
        cases aq with
        | some q =>
          have h1 := aq_stage (some q) tail more hm.noWs (by simp)
          simp [h1, stage2_none more hx0, RelA.tailInside, RelA.bare, PR.wrap, archNodes, profsNodes]
        | none =>
          rcases hm with rfl | ⟨t, rest, rfl, hk⟩
          · have h1 := aq_stage none tail [] noWs_nil (by simp [cur])
            simp only [List.append_nil, aqToks, List.nil_append] at h1 hx0 ⊢
            simp [h1, stage2_none [] hx0, RelA.tailInside, RelA.bare, PR.wrap, archNodes, profsNodes,
              followOf]
          · have h1 := archqualPart_stay tail (t :: rest) (by
              rcases hk with h | h <;> exact noWs_cons _ _ (by simp [isWsKind, h])) (by simpa [cur] using hk)
            have hf : followOf (t :: rest) ≠ .eof := by
              simp only [followOf]; split <;> simp
            simp [aqToks, h1, PR.nil, stage2_none _ hx, RelA.tailInside, RelA.bare, PR.wrap, archNodes,
              profsNodes, aqNodes, hf]


/-! ### an entry: alternatives separated by `|` -/

/-- what may follow an entry and its trailing gap: the end of input or a comma -/
def EntryEnd (more : List Tok) : Prop := more = [] ∨ ∃ x, more = commaTok :: x

theorem EntryEnd.relEnd {more} (h : EntryEnd more) : RelEnd more := by
  rcases h with rfl | ⟨x, rfl⟩
  · exact Or.inl rfl
  · exact Or.inr ⟨_, _, rfl, Or.inr rfl⟩

theorem AltA.toks_eq (a : AltA) :
    a.toks = gapToks a.gb ++ (.PIPE, ['|']) :: (gapToks a.ga ++ a.rel.toks) := rfl

theorem relToks_noWs (r : RelA) (x : List Tok) : NoWs (r.toks ++ x) := by
  rw [RelA.toks_eq]; exact noWs_cons _ _ rfl

theorem entryLoop_alts (r : RelA) (rest : List AltA) (post : Gap) (more : List Tok)
    (hm : EntryEnd more) :
    entryLoop (r.toks ++ (altsToks rest ++ (gapToks post ++ more)))
      = ⟨(altsNodes r rest post (followOf more)).1, [], (altsNodes r rest post (followOf more)).2 ++ more⟩ := by
  induction rest generalizing r with
  | nil =>
    have hpr := parseRelation_rel r post more hm.relEnd
    simp only [altsToks, List.map_nil, List.flatten_nil, List.nil_append]
    rw [entryLoop]
    rcases hm with rfl | ⟨x, rfl⟩
    · -- end of input
      by_cases ht : r.tailInside .eof = true
      · simp only [followOf, ht, ↓reduceIte] at hpr
        simp only [hpr]
        simp [peekPastWs, altsNodes, followOf, ht, PR.andThen, skipWs]
      · simp only [followOf, ht, Bool.false_eq_true, ↓reduceIte] at hpr
        have hp : peekPastWs (gapToks post ++ []) = none := by rw [peek_gap _ _ noWs_nil]; rfl
        have hs := skipWs_gap post [] noWs_nil
        simp only [hpr, hp]
        simp only [List.append_nil] at hs
        simp [altsNodes, followOf, ht, PR.andThen, hs]
    · -- a comma follows
      have hf : followOf (commaTok :: x) = .comma := by simp [followOf, commaTok]
      by_cases ht : r.tailInside .comma = true
      · simp only [hf, ht, ↓reduceIte] at hpr
        simp only [hpr]
        have hf' : followOf ((Kind.COMMA, [',']) :: x) = .comma := hf
        simp [peekPastWs, altsNodes, hf', ht, commaTok, isWsKind]
      · simp only [hf, ht, Bool.false_eq_true, ↓reduceIte] at hpr
        have hp : peekPastWs (gapToks post ++ commaTok :: x) = some .COMMA := by
          rw [peek_gap _ _ (noWs_cons _ _ rfl)]; rfl
        simp only [hpr, hp]
        simp [altsNodes, hf, ht]
  | cons a as ih =>
    have ih' := ih a.rel
    have hpr := parseRelation_rel r a.gb
      ((.PIPE, ['|']) :: (gapToks a.ga ++ (a.rel.toks ++ (altsToks as ++ (gapToks post ++ more)))))
      (Or.inr ⟨_, _, rfl, Or.inl rfl⟩)
    have hf : followOf ((Kind.PIPE, ['|']) :: (gapToks a.ga ++ (a.rel.toks ++ (altsToks as ++ (gapToks post ++ more)))))
        = .pipe := by simp [followOf]
    simp only [altsToks, List.map_cons, List.flatten_cons, AltA.toks_eq, List.append_assoc,
      List.cons_append] at ih' hpr hf ⊢
    have hsa := skipWs_gap a.ga (a.rel.toks ++ ((as.map AltA.toks).flatten ++ (gapToks post ++ more)))
      (relToks_noWs _ _)
    rw [entryLoop]
    by_cases ht : r.tailInside .pipe = true
    · simp only [hf, ht, ↓reduceIte] at hpr
      have hp : peekPastWs ((Kind.PIPE, ['|']) :: (gapToks a.ga ++ (a.rel.toks ++ ((as.map AltA.toks).flatten ++ (gapToks post ++ more)))))
          = some .PIPE := by simp [peekPastWs, isWsKind]
      have hps : pipeSep ((Kind.PIPE, ['|']) :: (gapToks a.ga ++ (a.rel.toks ++ ((as.map AltA.toks).flatten ++ (gapToks post ++ more)))))
          = ⟨tk (.PIPE, ['|']) :: tks (gapToks a.ga), [],
              a.rel.toks ++ ((as.map AltA.toks).flatten ++ (gapToks post ++ more))⟩ := by
        simp [pipeSep, PR.andThen, skipWs_noWs _ (noWs_cons (Kind.PIPE, ['|']) _ rfl), bump1, hsa]
      simp only [hpr, hp, hps]
      simp [ih', altsNodes, ht]
    · simp only [hf, ht, Bool.false_eq_true, ↓reduceIte] at hpr
      have hp : peekPastWs (gapToks a.gb ++ (Kind.PIPE, ['|']) :: (gapToks a.ga ++ (a.rel.toks ++ ((as.map AltA.toks).flatten ++ (gapToks post ++ more)))))
          = some .PIPE := by rw [peek_gap _ _ (noWs_cons _ _ rfl)]; rfl
      have hps : pipeSep (gapToks a.gb ++ (Kind.PIPE, ['|']) :: (gapToks a.ga ++ (a.rel.toks ++ ((as.map AltA.toks).flatten ++ (gapToks post ++ more)))))
          = ⟨tks (gapToks a.gb) ++ tk (.PIPE, ['|']) :: tks (gapToks a.ga), [],
              a.rel.toks ++ ((as.map AltA.toks).flatten ++ (gapToks post ++ more))⟩ := by
        simp [pipeSep, PR.andThen, skipWs_gap a.gb _ (noWs_cons (Kind.PIPE, ['|']) _ rfl), bump1, hsa]
      simp only [hpr, hp, hps] at ih' ⊢
      simp [ih', altsNodes, ht]


/-! ### the root loop: segments separated by commas -/

theorem rootLoop_cons (allow : Bool) (t : Tok) (r : List Tok) (n1 n2 : List RNode) (x more : List Tok)
    (h1 : rootFirst allow t r = ⟨n1, [], x⟩) (h2 : skipWs x = ⟨n2, [], more⟩) :
    rootLoop allow (t :: r) =
      match more with
      | [] => ⟨n1 ++ n2, [], []⟩
      | c :: r2 =>
        ⟨n1 ++ n2 ++ (rootSep c).1 ++ (skipWs r2).nodes ++ (rootLoop allow (skipWs r2).rest).nodes,
          (rootSep c).2 ++ (rootLoop allow (skipWs r2).rest).errs, (rootLoop allow (skipWs r2).rest).rest⟩ := by
  rw [rootLoop]
  split
  · rename_i h; rw [h1] at h; simp only [h2] at h; subst h; simp [h1, h2]
  · rename_i c r2 h; rw [h1] at h; simp only [h2] at h; subst h; simp [h1, h2]

/-- one segment body done, a comma and the next segment's leading gap follow -/
theorem rootLoop_step (allow : Bool) (t : Tok) (r : List Tok) (n1 n2 : List RNode) (x : List Tok)
    (g : Gap) (y : List Tok) (hy : NoWs y)
    (h1 : rootFirst allow t r = ⟨n1, [], x⟩) (h2 : skipWs x = ⟨n2, [], commaTok :: (gapToks g ++ y)⟩) :
    rootLoop allow (t :: r) =
      ⟨n1 ++ n2 ++ tk commaTok :: (tks (gapToks g) ++ (rootLoop allow y).nodes),
        (rootLoop allow y).errs, (rootLoop allow y).rest⟩ := by
  rw [rootLoop_cons allow t r n1 n2 x _ h1 h2]
  simp [rootSep, commaTok, skipWs_gap g y hy]

theorem rootLoop_last (allow : Bool) (t : Tok) (r : List Tok) (n1 n2 : List RNode) (x : List Tok)
    (h1 : rootFirst allow t r = ⟨n1, [], x⟩) (h2 : skipWs x = ⟨n2, [], []⟩) :
    rootLoop allow (t :: r) = ⟨n1 ++ n2, [], []⟩ := by
  rw [rootLoop_cons allow t r n1 n2 x _ h1 h2]

def bodyToks (s : Seg) : List Tok := s.entry.toks ++ gapToks s.post
def tailToks (ss : List Seg) : List Tok :=
  (ss.map fun s => commaTok :: (gapToks s.pre ++ bodyToks s)).flatten

theorem segsToks_eq (s : Seg) (ss : List Seg) :
    segsToks (s :: ss) = gapToks s.pre ++ (bodyToks s ++ tailToks ss) := by
  induction ss generalizing s with
  | nil => simp [segsToks, Seg.toks, bodyToks, tailToks]
  | cons t ts ih =>
    simp only [segsToks, ih t, Seg.toks, bodyToks, tailToks, List.map_cons, List.flatten_cons,
      List.append_assoc, List.cons_append]

def flOf (ss : List Seg) : Follow := if ss.isEmpty then .eof else .comma

/-- `Seg.nodes` without the leading gap -/
def bodyNodes (s : Seg) (fl : Follow) : List RNode :=
  match s.entry with
  | .alts r rest => Node.node .ENTRY (altsNodes r rest s.post fl).1 :: tks (altsNodes r rest s.post fl).2
  | .substvar p ps => Node.node .SUBSTVAR (tks (substvarToks p ps)) :: tks (gapToks s.post)
  | .empty => tks (gapToks s.post)

def tailNodes : List Seg → List RNode
  | [] => []
  | s :: ss => tk commaTok :: (tks (gapToks s.pre) ++ (bodyNodes s (flOf ss) ++ tailNodes ss))

theorem segsNodes_eq (s : Seg) (ss : List Seg) :
    segsNodes (s :: ss) = tks (gapToks s.pre) ++ (bodyNodes s (flOf ss) ++ tailNodes ss) := by
  induction ss generalizing s with
  | nil =>
    cases s with
    | mk pre entry post => cases entry <;> simp [segsNodes, Seg.nodes, bodyNodes, tailNodes, flOf]
  | cons t ts ih =>
    have := ih t
    cases s with
    | mk pre entry post =>
      cases entry <;>
        simp [segsNodes, this, Seg.nodes, bodyNodes, tailNodes, flOf]

theorem tailToks_entryEnd (ss : List Seg) : EntryEnd (tailToks ss) := by
  cases ss with
  | nil => exact Or.inl rfl
  | cons s ss => exact Or.inr ⟨gapToks s.pre ++ (bodyToks s ++ tailToks ss), by simp [tailToks]⟩

theorem followOf_tail (ss : List Seg) : followOf (tailToks ss) = flOf ss := by
  cases ss <;> simp [tailToks, followOf, flOf, commaTok]

theorem altsNodes_snd_ws (r : RelA) (rest : List AltA) (post : Gap) (fl : Follow) :
    ∀ t ∈ (altsNodes r rest post fl).2, isWsKind t.1 = true := by
  induction rest generalizing r with
  | nil =>
    simp only [altsNodes]
    (repeat' split) <;> first | exact gapToks_ws post | simp
  | cons a as ih => simpa [altsNodes] using ih a.rel

theorem substLoop_pairs (qs : List Str) (x : List Tok) :
    substLoop ((qs.map fun q => [(Kind.COLON, [':']), (Kind.IDENT, q)]).flatten ++ (.R_CURLY, ['}']) :: x)
      = ⟨tks ((qs.map fun q => [(Kind.COLON, [':']), (Kind.IDENT, q)]).flatten), [], (.R_CURLY, ['}']) :: x⟩ := by
  induction qs with
  | nil => simp [substLoop]
  | cons q qs ih => simp [substLoop, ih]

theorem parseSubstvar_sv (p : Str) (ps : List Str) (x : List Tok) :
    parseSubstvar (substvarToks p ps ++ x) = ⟨[Node.node .SUBSTVAR (tks (substvarToks p ps))], [], x⟩ := by
  have := substLoop_pairs ps x
  simp [parseSubstvar, substvarToks, bump1, PR.andThen, PR.wrap, substOpen, cur, substLoop, this, substClose]

theorem bodyToks_noWs (s : Seg) (hs : s.ok = true) (ss : List Seg) : NoWs (bodyToks s ++ tailToks ss) := by
  obtain ⟨_, _, _, h4⟩ := (Seg.ok_iff s).1 hs
  cases he : s.entry with
  | empty =>
    have : s.post = [] := h4 (by simp [he, EntryA.isEmpty])
    simp only [bodyToks, he, EntryA.toks, this, gapToks, List.map_nil, List.nil_append]
    cases ss with
    | nil => exact noWs_nil
    | cons t ts => exact noWs_cons _ _ rfl
  | substvar p ps => simp only [bodyToks, he, EntryA.toks, substvarToks, List.cons_append]; exact noWs_cons _ _ rfl
  | alts r rest =>
    simp only [bodyToks, he, EntryA.toks, List.append_assoc]
    exact relToks_noWs _ _

/-- condition under which the parser reproduces `tree`: substitution variables only when they are
    allowed -/
def segParseOk (allow : Bool) (s : Seg) : Prop := s.entry.isSubstvar = true → allow = true

def svTail (p : Str) (ps : List Str) : List Tok :=
  (.L_CURLY, ['{']) :: (.IDENT, p)
    :: ((ps.map fun q => [(Kind.COLON, [':']), (Kind.IDENT, q)]).flatten ++ [(.R_CURLY, ['}'])])

theorem substvarToks_eq (p : Str) (ps : List Str) : substvarToks p ps = (.DOLLAR, ['$']) :: svTail p ps := rfl

/-- the first `match` of the root loop body followed by `skip_ws`, on a non-empty entry and its
    trailing gap -/
theorem seg_head (allow : Bool) (s : Seg) (hp : segParseOk allow s) (hne : s.entry.isEmpty = false)
    (more : List Tok) (hm : EntryEnd more) :
    ∃ t r x n1 n2, bodyToks s ++ more = t :: r ∧ rootFirst allow t r = ⟨n1, [], x⟩
      ∧ skipWs x = ⟨n2, [], more⟩ ∧ n1 ++ n2 = bodyNodes s (followOf more) := by
  have hsv := hp
  cases he : s.entry with
  | empty => simp [he, EntryA.isEmpty] at hne
  | substvar p ps =>
    have ha : allow = true := hsv (by simp [he, EntryA.isSubstvar])
    refine ⟨(.DOLLAR, ['$']), svTail p ps ++ (gapToks s.post ++ more), gapToks s.post ++ more,
      [Node.node .SUBSTVAR (tks (substvarToks p ps))], tks (gapToks s.post), ?_, ?_, ?_, ?_⟩
    · simp [bodyToks, he, EntryA.toks, substvarToks_eq]
    · have := parseSubstvar_sv p ps (gapToks s.post ++ more)
      simp only [rootFirst, ha]
      simpa [substvarToks_eq] using this
    · exact skipWs_gap s.post more hm.relEnd.noWs
    · simp [bodyNodes, he]
  | alts r rest =>
    have hel := entryLoop_alts r rest s.post more hm
    have hnw : NoWs (r.toks ++ (altsToks rest ++ (gapToks s.post ++ more))) := relToks_noWs _ _
    have h1' : parseEntry (r.toks ++ (altsToks rest ++ (gapToks s.post ++ more)))
        = ⟨[Node.node .ENTRY (altsNodes r rest s.post (followOf more)).1], [],
            (altsNodes r rest s.post (followOf more)).2 ++ more⟩ := by
      simp [parseEntry, PR.andThen, skipWs_noWs _ hnw, hel, PR.wrap]
    rw [RelA.toks_eq] at h1'
    refine ⟨(.IDENT, r.name),
      (aqToks r.archqual ++ (verToks r.version ++ (archToks r.archs ++ profsToks r.profiles)))
        ++ (altsToks rest ++ (gapToks s.post ++ more)),
      (altsNodes r rest s.post (followOf more)).2 ++ more,
      [Node.node .ENTRY (altsNodes r rest s.post (followOf more)).1],
      tks (altsNodes r rest s.post (followOf more)).2, ?_, ?_, ?_, ?_⟩
    · have e : (EntryA.alts r rest).toks = r.toks ++ altsToks rest := by simp [EntryA.toks, altsToks]
      simp only [bodyToks, he, e, List.append_assoc]
      rw [RelA.toks_eq]; simp [List.append_assoc]
    · simp only [rootFirst, ↓reduceIte]; exact h1'
    · exact skipWs_ws _ _ (altsNodes_snd_ws _ _ _ _) hm.relEnd.noWs
    · simp [bodyNodes, he]

theorem rootLoop_segs (allow : Bool) (s : Seg) (ss : List Seg) (hok : ∀ x ∈ s :: ss, x.ok = true)
    (hp : ∀ x ∈ s :: ss, segParseOk allow x) :
    rootLoop allow (bodyToks s ++ tailToks ss) = ⟨bodyNodes s (flOf ss) ++ tailNodes ss, [], []⟩ := by
  induction ss generalizing s with
  | nil =>
    have hs := hok s (by simp)
    obtain ⟨_, _, _, h4⟩ := (Seg.ok_iff s).1 hs
    cases hemp : s.entry.isEmpty with
    | true =>
      have hpost : s.post = [] := h4 hemp
      have he : s.entry = .empty := by cases h : s.entry <;> simp [h, EntryA.isEmpty] at hemp; rfl
      simp [bodyToks, he, EntryA.toks, hpost, gapToks, tailToks, rootLoop, bodyNodes, tailNodes]
    | false =>
      obtain ⟨t, r, x, n1, n2, e, h1, h2, hn⟩ := seg_head allow s (hp s (by simp)) hemp [] (Or.inl rfl)
      have := rootLoop_last allow t r n1 n2 x h1 h2
      have e' : bodyToks s ++ tailToks [] = t :: r := by simpa [tailToks] using e
      rw [e', this, hn]; simp [followOf, flOf, tailNodes]
  | cons u us ih =>
    have hs := hok s (by simp)
    have hu := hok u (by simp)
    obtain ⟨_, _, _, h4⟩ := (Seg.ok_iff s).1 hs
    have ih' := ih u (fun x hx => hok x (List.mem_cons_of_mem _ hx))
      (fun x hx => hp x (List.mem_cons_of_mem _ hx))
    have hy : NoWs (bodyToks u ++ tailToks us) := bodyToks_noWs u hu us
    have etail : tailToks (u :: us) = commaTok :: (gapToks u.pre ++ (bodyToks u ++ tailToks us)) := by
      simp [tailToks]
    cases hemp : s.entry.isEmpty with
    | true =>
      have hpost : s.post = [] := h4 hemp
      have he : s.entry = .empty := by cases h : s.entry <;> simp [h, EntryA.isEmpty] at hemp; rfl
      have h1 : rootFirst allow commaTok (gapToks u.pre ++ (bodyToks u ++ tailToks us))
          = ⟨[], [], commaTok :: (gapToks u.pre ++ (bodyToks u ++ tailToks us))⟩ := by
        simp [rootFirst, commaTok, PR.nil]
      have h2 := skipWs_noWs (commaTok :: (gapToks u.pre ++ (bodyToks u ++ tailToks us))) (noWs_cons _ _ rfl)
      have := rootLoop_step allow _ _ _ _ _ u.pre _ hy h1 h2
      have e' : bodyToks s ++ tailToks (u :: us) = commaTok :: (gapToks u.pre ++ (bodyToks u ++ tailToks us)) := by
        simp [bodyToks, he, EntryA.toks, hpost, gapToks, etail]
      rw [e', this, ih']
      simp [bodyNodes, he, tailNodes, hpost, gapToks]
    | false =>
      obtain ⟨t, r, x, n1, n2, e, h1, h2, hn⟩ :=
        seg_head allow s (hp s (by simp)) hemp (tailToks (u :: us)) (tailToks_entryEnd _)
      rw [etail] at h2
      have := rootLoop_step allow t r n1 n2 x u.pre _ hy h1 h2
      rw [e, this, ih', ← List.append_assoc, hn, followOf_tail]
      simp [tailNodes]

/-- C10 stage 2: on the token list of a well-formed field (with substitution variables only if they
    are allowed) the parser builds exactly `tree`, no error -/
theorem parse_field_toks (allow : Bool) (f : FieldA) (h : f.WF)
    (hp : ∀ s ∈ f.segs, segParseOk allow s) : parseTokens allow f.toks = ⟨f.tree, []⟩ := by
  have hok : ∀ s ∈ f.segs, s.ok = true := by
    simpa [FieldA.WF, FieldA.ok, List.all_eq_true] using h
  cases hsegs : f.segs with
  | nil => simp [parseTokens, FieldA.toks, FieldA.tree, hsegs, segsToks, segsNodes, skipWs, rootLoop]
  | cons s ss =>
    rw [hsegs] at hok hp
    have h1 := skipWs_gap s.pre (bodyToks s ++ tailToks ss) (bodyToks_noWs s (hok s (by simp)) ss)
    have h2 := rootLoop_segs allow s ss hok hp
    simp [parseTokens, FieldA.toks, FieldA.tree, hsegs, segsToks_eq, segsNodes_eq, h1, h2]

end Deb822Verif.Rel
