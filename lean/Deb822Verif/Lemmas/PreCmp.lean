import Deb822Verif.Model.DebVersion
/-!
  Comparison functions that are total preorders, and the combinators `DebVersion.compare` is built
  from (`Ordering.then`, comparison of an image, `lexPad`): each preserves the property.
-/
namespace Deb822Verif.DebVersion
universe u

/-- `cmp` is the three-way comparison of a total preorder: swapping the arguments swaps the
    answer, and `≤` (= "not greater") is transitive -/
structure PreCmp {α : Type u} (cmp : α → α → Ordering) : Prop where
  swap : ∀ a b, cmp b a = (cmp a b).swap
  le_trans : ∀ a b c, cmp a b ≠ .gt → cmp b c ≠ .gt → cmp a c ≠ .gt

namespace PreCmp
variable {α : Type u} {cmp : α → α → Ordering}

theorem refl (h : PreCmp cmp) (a : α) : cmp a a = .eq := by
  have := h.swap a a
  cases hc : cmp a a <;> rw [hc] at this <;> simp [Ordering.swap] at this

theorem gt_iff_lt (h : PreCmp cmp) (a b : α) : cmp a b = .gt ↔ cmp b a = .lt := by
  rw [h.swap a b]; cases cmp a b <;> simp [Ordering.swap]

theorem eq_symm (h : PreCmp cmp) {a b : α} (e : cmp a b = .eq) : cmp b a = .eq := by
  rw [h.swap a b, e]; rfl

theorem lt_of_lt_of_le (h : PreCmp cmp) {a b c : α} (h1 : cmp a b = .lt) (h2 : cmp b c ≠ .gt) :
    cmp a c = .lt := by
  have hac : cmp a c ≠ .gt := h.le_trans a b c (by simp [h1]) h2
  cases hc : cmp a c with
  | lt => rfl
  | gt => exact absurd hc hac
  | eq =>
    -- c ≤ a and b ≤ c give b ≤ a, but a < b
    have hca : cmp c a ≠ .gt := by rw [h.eq_symm hc]; simp
    have hba := h.le_trans b c a h2 hca
    rw [h.swap a b, h1] at hba
    exact absurd rfl hba

theorem lt_of_le_of_lt (h : PreCmp cmp) {a b c : α} (h1 : cmp a b ≠ .gt) (h2 : cmp b c = .lt) :
    cmp a c = .lt := by
  have hac : cmp a c ≠ .gt := h.le_trans a b c h1 (by simp [h2])
  cases hc : cmp a c with
  | lt => rfl
  | gt => exact absurd hc hac
  | eq =>
    have hca : cmp c a ≠ .gt := by rw [h.eq_symm hc]; simp
    have hcb := h.le_trans c a b hca h1
    rw [h.swap b c, h2] at hcb
    exact absurd rfl hcb

theorem eq_trans (h : PreCmp cmp) {a b c : α} (h1 : cmp a b = .eq) (h2 : cmp b c = .eq) :
    cmp a c = .eq := by
  have hac : cmp a c ≠ .gt := h.le_trans a b c (by simp [h1]) (by simp [h2])
  have hca : cmp c a ≠ .gt :=
    h.le_trans c b a (by rw [h.eq_symm h2]; simp) (by rw [h.eq_symm h1]; simp)
  cases hc : cmp a c with
  | eq => rfl
  | gt => exact absurd hc hac
  | lt => rw [h.swap a c, hc] at hca; exact absurd rfl hca

/-- equivalent elements compare alike against anything -/
theorem congr_left (h : PreCmp cmp) {a b : α} (e : cmp a b = .eq) (c : α) : cmp a c = cmp b c := by
  cases hb : cmp b c with
  | lt => exact h.lt_of_le_of_lt (by simp [e]) hb
  | eq => exact h.eq_trans e hb
  | gt =>
    have : cmp c b = .lt := (h.gt_iff_lt b c).1 hb
    have : cmp c a = .lt := h.lt_of_lt_of_le this (by rw [h.eq_symm e]; simp)
    exact (h.gt_iff_lt a c).2 this

/-- total: one of `a ≤ b`, `b ≤ a` -/
theorem total (h : PreCmp cmp) (a b : α) : cmp a b ≠ .gt ∨ cmp b a ≠ .gt := by
  rw [h.swap a b]; cases cmp a b <;> simp [Ordering.swap]

/-- antisymmetric up to the equivalence of the comparison -/
theorem antisymm (h : PreCmp cmp) {a b : α} (h1 : cmp a b ≠ .gt) (h2 : cmp b a ≠ .gt) :
    cmp a b = .eq := by
  rw [h.swap a b] at h2
  cases hc : cmp a b <;> simp_all [Ordering.swap]

end PreCmp

/-! ### the pointwise core of "lexicographic composition is transitive" -/

theorem then_le_trans_core {A B C x y z : Ordering}
    (hlt1 : A = .lt → B ≠ .gt → C = .lt) (hlt2 : A ≠ .gt → B = .lt → C = .lt)
    (heq : A = .eq → B = .eq → C = .eq) (hxyz : x ≠ .gt → y ≠ .gt → z ≠ .gt) :
    A.then x ≠ .gt → B.then y ≠ .gt → C.then z ≠ .gt := by
  intro h1 h2
  cases A with
  | gt => simp [Ordering.then] at h1
  | lt =>
    have hB : B ≠ .gt := by intro e; subst e; simp [Ordering.then] at h2
    rw [hlt1 rfl hB]; simp [Ordering.then]
  | eq =>
    cases B with
    | gt => simp [Ordering.then] at h2
    | lt => rw [hlt2 (by simp) rfl]; simp [Ordering.then]
    | eq =>
      rw [heq rfl rfl]
      simp only [Ordering.then] at h1 h2 ⊢
      exact hxyz h1 h2

theorem swap_then (a b : Ordering) : (a.then b).swap = a.swap.then b.swap := by
  cases a <;> rfl

/-! ### instances and closure properties -/

theorem natCmp_pre : PreCmp natCmp := by
  constructor
  · intro a b; unfold natCmp; (repeat' split) <;> first | rfl | omega
  · intro a b c; unfold natCmp; (repeat' split) <;> simp <;> omega

theorem intCmp_pre : PreCmp intCmp := by
  constructor
  · intro a b; unfold intCmp; (repeat' split) <;> first | rfl | omega
  · intro a b c; unfold intCmp; (repeat' split) <;> simp <;> omega

/-- comparing images -/
theorem PreCmp.comap {α β : Type u} {cmp : β → β → Ordering} (h : PreCmp cmp) (f : α → β) :
    PreCmp (fun x y => cmp (f x) (f y)) :=
  ⟨fun a b => h.swap (f a) (f b), fun a b c => h.le_trans (f a) (f b) (f c)⟩

/-- first criterion, then second criterion -/
theorem PreCmp.andThen {α : Type u} {c1 c2 : α → α → Ordering} (h1 : PreCmp c1) (h2 : PreCmp c2) :
    PreCmp (fun x y => (c1 x y).then (c2 x y)) := by
  constructor
  · intro a b
    simp only [swap_then, ← h1.swap, ← h2.swap]
  · intro a b c
    exact then_le_trans_core (A := c1 a b) (B := c1 b c) (C := c1 a c)
      (fun e l => h1.lt_of_lt_of_le e l) (fun l e => h1.lt_of_le_of_lt l e)
      (fun e e' => h1.eq_trans e e') (h2.le_trans a b c)

/-! ### `lexPad` -/

/-- one uniform unfolding: compare the heads (the pad standing in for a missing one), then the tails -/
theorem lexPad_unfold {α : Type u} {cmp : α → α → Ordering} (h : PreCmp cmp) (pad : α) (l1 l2 : List α) :
    lexPad cmp pad l1 l2 =
      (cmp (l1.head?.getD pad) (l2.head?.getD pad)).then (lexPad cmp pad l1.tail l2.tail) := by
  cases l1 <;> cases l2 <;> simp [lexPad, lexPadNil, h.refl, Ordering.then]

theorem lexPad_nil {α : Type u} (cmp : α → α → Ordering) (pad : α) : lexPad cmp pad [] [] = .eq := by
  simp [lexPad, lexPadNil]

theorem lexPad_pre {α : Type u} {cmp : α → α → Ordering} (h : PreCmp cmp) (pad : α) :
    PreCmp (lexPad cmp pad) := by
  constructor
  · -- swap, by induction on the total length
    intro l1 l2
    generalize hn : l1.length + l2.length = n
    induction n using Nat.strongRecOn generalizing l1 l2 with
    | _ n ih =>
      by_cases hne : l1 = [] ∧ l2 = []
      · obtain ⟨rfl, rfl⟩ := hne; simp [lexPad_nil, Ordering.swap]
      · rw [lexPad_unfold h pad l2 l1, lexPad_unfold h pad l1 l2, swap_then, ← h.swap]
        have hlt : l1.tail.length + l2.tail.length < n := by
          subst hn
          cases l1 <;> cases l2 <;> simp at hne ⊢ <;> omega
        rw [ih _ hlt l1.tail l2.tail rfl]
  · intro l1 l2 l3
    generalize hn : l1.length + l2.length + l3.length = n
    induction n using Nat.strongRecOn generalizing l1 l2 l3 with
    | _ n ih =>
      by_cases hne : l1 = [] ∧ l2 = [] ∧ l3 = []
      · obtain ⟨rfl, rfl, rfl⟩ := hne; simp [lexPad, lexPadNil]
      · rw [lexPad_unfold h pad l1 l2, lexPad_unfold h pad l2 l3, lexPad_unfold h pad l1 l3]
        have hlt : l1.tail.length + l2.tail.length + l3.tail.length < n := by
          subst hn
          cases l1 <;> cases l2 <;> cases l3 <;> simp at hne ⊢ <;> omega
        exact then_le_trans_core (A := cmp (l1.head?.getD pad) (l2.head?.getD pad))
          (B := cmp (l2.head?.getD pad) (l3.head?.getD pad))
          (C := cmp (l1.head?.getD pad) (l3.head?.getD pad))
          (fun e l => h.lt_of_lt_of_le e l) (fun l e => h.lt_of_le_of_lt l e)
          (fun e e' => h.eq_trans e e') (ih _ hlt l1.tail l2.tail l3.tail rfl)

/-! ### the Debian version ordering is a total preorder -/

theorem nonDigitCmp_pre : PreCmp nonDigitCmp :=
  (lexPad_pre intCmp_pre 0).comap (fun s : Str => s.map order)

theorem chunkCmp_pre : PreCmp chunkCmp :=
  PreCmp.andThen (nonDigitCmp_pre.comap fun c : Chunk => c.1) (natCmp_pre.comap fun c : Chunk => runVal c.2)

theorem cmpPart_pre : PreCmp cmpPart := (lexPad_pre chunkCmp_pre ([], [])).comap chunks

theorem compare_pre : PreCmp compare :=
  PreCmp.andThen (natCmp_pre.comap epochOf)
    (PreCmp.andThen (cmpPart_pre.comap fun v : Rel.Version => v.upstream) (cmpPart_pre.comap revOf))

end Deb822Verif.DebVersion
