import Deb822Verif.Lemmas.RelEditShape
/-!
  The handle bookkeeping of Model/RelEdit.lean: every edit of a child list comes with a position
  map (`Cut.remap`); the map is FAITHFUL — an element that survives is the same node at its new
  position, the others are reported gone. Hence a live handle keeps pointing at its node (or at the
  edited node, for the target of the operation) through every operation, a handle whose node was
  removed dies with the text the node had, and a dead handle stays dead.
-/
set_option linter.unusedSimpArgs false
set_option linter.unusedVariables false
namespace Deb822Verif.Rel.Edit
open Deb822Verif Rel Node Build Lossy RelSpec

/-- surviving elements are the same nodes at their new positions -/
def Cut.Faithful (cs : List RNode) (c : Cut) : Prop :=
  ∀ p x, cs[p]? = some x → ∀ p', c.remap p = some p' → c.kids[p']? = some x

theorem faithful_ins (cs new : List RNode) (pos : Nat) (hpos : pos ≤ cs.length) :
    Cut.Faithful cs ⟨insertAt cs pos new, Remap.ins pos new.length⟩ := by
  intro p x hx p' hp'
  simp only [Remap.ins] at hp'
  have hp : p < cs.length := by
    rcases Nat.lt_or_ge p cs.length with h | h
    · exact h
    · rw [List.getElem?_eq_none_iff.2 h] at hx; cases hx
  simp only [insertAt]
  split at hp'
  · rename_i hlt
    simp only [Option.some.injEq] at hp'; subst hp'
    rw [List.append_assoc, List.getElem?_append_left (by simp; omega), List.getElem?_take_of_lt hlt]
    exact hx
  · rename_i hge
    simp only [Option.some.injEq] at hp'; subst hp'
    rw [List.getElem?_append_right (by simp; omega)]
    simp only [List.length_append, List.length_take, Nat.min_eq_left hpos]
    rw [List.getElem?_drop]
    have : pos + (p + new.length - (pos + new.length)) = p := by omega
    rw [this]; exact hx

theorem faithful_cut (cs A B : List RNode) (hA : A <+: cs) (hB : B <:+ cs) (hl : A.length + B.length ≤ cs.length) :
    Cut.Faithful cs ⟨A ++ B, Remap.cut A.length (cs.length - B.length)⟩ := by
  intro p x hx p' hp'
  simp only [Remap.cut] at hp'
  obtain ⟨t, ht⟩ := hA
  obtain ⟨s, hs⟩ := hB
  have hp : p < cs.length := by
    rcases Nat.lt_or_ge p cs.length with h | h
    · exact h
    · rw [List.getElem?_eq_none_iff.2 h] at hx; cases hx
  split at hp'
  · rename_i hlt
    simp only [Option.some.injEq] at hp'; subst hp'
    rw [List.getElem?_append_left hlt]
    rw [← ht, List.getElem?_append_left hlt] at hx
    exact hx
  · split at hp'
    · cases hp'
    · rename_i h1 h2
      simp only [Option.some.injEq] at hp'; subst hp'
      have hsl : s.length = cs.length - B.length := by rw [← hs]; simp
      rw [List.getElem?_append_right (by omega)]
      rw [← hs, List.getElem?_append_right (by omega)] at hx
      have : p - (cs.length - B.length - A.length) - A.length = p - s.length := by omega
      rw [this]; exact hx

/-! ### what the handles point at -/

/-- the entry handle points at an ENTRY node -/
def EOk (f : Field) : ERef → Prop
  | .at p => ∃ e, f.kids[p]? = some e ∧ isNodeOf .ENTRY e = true
  | .gone _ => True

/-- the relation handle points at a RELATION node of an ENTRY node -/
def ROk (f : Field) : RRef → Prop
  | .at p q => ∃ e r, f.kids[p]? = some e ∧ isNodeOf .ENTRY e = true ∧ e.children[q]? = some r
      ∧ isNodeOf .RELATION r = true
  | .gone _ => True

def HOk (f : Field) : Prop := (∀ h ∈ f.ehs, EOk f h.2) ∧ (∀ h ∈ f.rhs, ROk f h.2)

/-- the node a live entry handle reads -/
def Field.eNode (f : Field) : ERef → Option RNode
  | .at p => f.kids[p]?
  | .gone _ => none

/-- the node a live relation handle reads -/
def Field.rNode (f : Field) : RRef → Option RNode
  | .at p q => (f.kids[p]?).bind (·.children[q]?)
  | .gone _ => none

/-- an entry handle before and after an operation: it reads the same node, or died with the text of
    its node; a dead handle stays as it is -/
def ETrack (f f' : Field) : ERef → ERef → Prop
  | .at p, .at p' => f'.kids[p']? = f.kids[p]?
  | .at p, .gone t => ∃ e, f.kids[p]? = some e ∧ t = e.text
  | .gone t, r' => r' = .gone t

/-- a relation handle across an edit of the root's children: same entry node, same position in it -/
def RTrackRoot (f f' : Field) : RRef → RRef → Prop
  | .at p q, .at p' q' => q' = q ∧ f'.kids[p']? = f.kids[p]?
  | .at p q, .gone t => ∃ x, f.rNode (.at p q) = some x ∧ t = x.text
  | .gone t, r' => r' = .gone t

/-- a relation handle across an edit of the children of the entry at `p` -/
def RTrackEntry (f f' : Field) (p : Nat) (lost : Nat → Option Str) : RRef → RRef → Prop
  | .at p1 q, .at p2 q' => p2 = p1 ∧ f'.rNode (.at p2 q') = f.rNode (.at p1 q)
  | .at p1 q, .gone t => p1 = p ∧ ∃ x, f.rNode (.at p1 q) = some x ∧ t = (lost q).getD x.text
  | .gone t, r' => r' = .gone t

/-- the handle after an edit of the root's children -/
def eAfterRoot (f : Field) (c : Cut) : ERef → ERef
  | .at p => match c.remap p with | some p' => .at p' | none => .gone (childText f.kids p)
  | g => g

def rAfterRoot (f : Field) (c : Cut) : RRef → RRef
  | .at p q => match c.remap p with | some p' => .at p' q | none => .gone (childText (f.entryKids p) q)
  | g => g

theorem rootEdit_ehs (f : Field) (c : Cut) : (f.rootEdit c).ehs = f.ehs.map fun h => (h.1, eAfterRoot f c h.2) := by
  simp only [Field.rootEdit]
  apply List.map_congr_left
  intro h _
  obtain ⟨id, r⟩ := h
  cases r <;> rfl

theorem rootEdit_rhs (f : Field) (c : Cut) : (f.rootEdit c).rhs = f.rhs.map fun h => (h.1, rAfterRoot f c h.2) := by
  simp only [Field.rootEdit]
  apply List.map_congr_left
  intro h _
  obtain ⟨id, r⟩ := h
  cases r <;> rfl

/-- after an edit of the root's children with a faithful position map: a live entry handle reads the
    same node as before, or died with the text of its node; a dead one stays as it is -/
theorem root_entry_handle (f : Field) (c : Cut) (hc : c.Faithful f.kids) (r : ERef) (hr : EOk f r) :
    EOk (f.rootEdit c) (eAfterRoot f c r) ∧ ETrack f (f.rootEdit c) r (eAfterRoot f c r) := by
  cases r with
  | gone t => exact ⟨trivial, by simp [ETrack, eAfterRoot]⟩
  | «at» p =>
    obtain ⟨e, he, hent⟩ := hr
    simp only [eAfterRoot]
    cases hm : c.remap p with
    | none => exact ⟨trivial, by simp only [ETrack]; exact ⟨e, he, by simp [childText, he]⟩⟩
    | some p' =>
      have := hc p e he p' hm
      exact ⟨⟨e, this, hent⟩, by simp only [ETrack, Field.rootEdit]; rw [this, he]⟩

theorem root_rel_handle (f : Field) (c : Cut) (hc : c.Faithful f.kids) (r : RRef) (hr : ROk f r) :
    ROk (f.rootEdit c) (rAfterRoot f c r) ∧ RTrackRoot f (f.rootEdit c) r (rAfterRoot f c r) := by
  cases r with
  | gone t => exact ⟨trivial, by simp [RTrackRoot, rAfterRoot]⟩
  | «at» p q =>
    obtain ⟨e, x, he, hent, hx, hrel⟩ := hr
    simp only [rAfterRoot]
    cases hm : c.remap p with
    | none =>
      refine ⟨trivial, ?_⟩
      simp only [RTrackRoot]
      refine ⟨x, by simp [Field.rNode, he, hx], ?_⟩
      simp [childText, Field.entryKids, he, hx]
    | some p' =>
      have := hc p e he p' hm
      exact ⟨⟨e, x, this, hent, hx, hrel⟩, by simp only [RTrackRoot, Field.rootEdit]; exact ⟨trivial, by rw [this, he]⟩⟩

/-! ### an edit of one entry's children -/

def rAfterEntry (f : Field) (p : Nat) (c : Cut) (lost : Nat → Option Str) : RRef → RRef
  | .at p' q =>
    if p' = p then
      (match c.remap q with
        | some q' => .at p q'
        | none => .gone ((lost q).getD (childText (f.entryKids p) q)))
    else .at p' q
  | g => g

theorem entryEdit_rhs (f : Field) (p : Nat) (c : Cut) (lost : Nat → Option Str) :
    (f.entryEdit p c lost).rhs = f.rhs.map fun h => (h.1, rAfterEntry f p c lost h.2) := by
  simp only [Field.entryEdit]
  apply List.map_congr_left
  intro h _
  obtain ⟨id, r⟩ := h
  cases r <;> rfl

theorem entryEdit_ehs (f : Field) (p : Nat) (c : Cut) (lost : Nat → Option Str) : (f.entryEdit p c lost).ehs = f.ehs := rfl

theorem entryEdit_get (f : Field) (p : Nat) (c : Cut) (lost : Nat → Option Str) (e : RNode) (he : f.kids[p]? = some e)
    (p' : Nat) : (f.entryEdit p c lost).kids[p']? = if p' = p then some (.node e.kind c.kids) else f.kids[p']? := by
  have hp : p < f.kids.length := by
    rcases Nat.lt_or_ge p f.kids.length with h | h
    · exact h
    · rw [List.getElem?_eq_none_iff.2 h] at he; cases he
  simp only [Field.entryEdit, he, replaceAt]
  by_cases h : p' = p
  · subst h
    rw [if_pos rfl, List.append_assoc, List.getElem?_append_right (by simp; omega)]
    simp [Nat.min_eq_left (Nat.le_of_lt hp)]
  · rw [if_neg h]
    rcases Nat.lt_or_gt_of_ne h with h1 | h1
    · rw [List.append_assoc, List.getElem?_append_left (by simp; omega), List.getElem?_take_of_lt h1]
    · rw [List.getElem?_append_right (by simp; omega)]
      simp only [List.length_append, List.length_take, Nat.min_eq_left (Nat.le_of_lt hp), List.length_singleton]
      rw [List.getElem?_drop]
      have : p + 1 + (p' - (p + 1)) = p' := by omega
      rw [this]

/-- after an edit of the children of the entry at `p` with a faithful position map: every entry handle
    still points at an entry (the one at `p` at the edited node, the others at the same node); a
    relation handle of another entry reads the same node; one of this entry reads the same node at its
    new position or died with its text (or the text `lost` says) -/
theorem entry_handles (f : Field) (p : Nat) (c : Cut) (lost : Nat → Option Str) (e : RNode)
    (he : f.kids[p]? = some e) (hent : isNodeOf .ENTRY e = true) (hc : c.Faithful e.children) :
    (∀ r, EOk f r → EOk (f.entryEdit p c lost) r)
    ∧ (∀ r, ROk f r → ROk (f.entryEdit p c lost) (rAfterEntry f p c lost r)
        ∧ RTrackEntry f (f.entryEdit p c lost) p lost r (rAfterEntry f p c lost r)) := by
  have hk : e.kind = .ENTRY := isNodeOf_kind hent
  constructor
  · intro r hr
    cases r with
    | gone t => trivial
    | «at» p1 =>
      obtain ⟨e1, he1, hent1⟩ := hr
      simp only [EOk]
      rw [entryEdit_get f p c lost e he]
      by_cases h : p1 = p
      · subst h; exact ⟨_, by rw [if_pos rfl], by simp [isNodeOf_node, hk]⟩
      · exact ⟨e1, by rw [if_neg h]; exact he1, hent1⟩
  · intro r hr
    cases r with
    | gone t => exact ⟨trivial, by simp [RTrackEntry, rAfterEntry]⟩
    | «at» p1 q =>
      obtain ⟨e1, x, he1, hent1, hx, hrel⟩ := hr
      simp only [rAfterEntry]
      by_cases h : p1 = p
      · subst h
        rw [if_pos rfl]
        have : e1 = e := Option.some.inj (he1.symm.trans he)
        subst this
        cases hm : c.remap q with
        | none =>
          refine ⟨trivial, ?_⟩
          simp only [RTrackEntry]
          refine ⟨trivial, x, by simp [Field.rNode, he, hx], ?_⟩
          simp [childText, Field.entryKids, he, hx]
        | some q' =>
          have hq := hc q x hx q' hm
          refine ⟨⟨Node.node e1.kind c.kids, x, by rw [entryEdit_get f p1 c lost e1 he, if_pos rfl], by simp [isNodeOf_node, hk], hq, hrel⟩, ?_⟩
          simp only [RTrackEntry]
          refine ⟨trivial, ?_⟩
          simp only [Field.rNode]
          rw [entryEdit_get f p1 c lost e1 he, if_pos rfl, he]
          simp [hq, hx]
      · rw [if_neg h]
        refine ⟨⟨e1, x, by rw [entryEdit_get f p c lost e he, if_neg h]; exact he1, hent1, hx, hrel⟩, ?_⟩
        simp only [RTrackEntry]
        refine ⟨trivial, ?_⟩
        simp only [Field.rNode]
        rw [entryEdit_get f p c lost e he, if_neg h]


/-! ### the invariant: every live handle points at a node of its kind -/

theorem hok_rootEdit (f : Field) (c : Cut) (hc : c.Faithful f.kids) (h : HOk f) : HOk (f.rootEdit c) := by
  constructor
  · intro x hx
    rw [rootEdit_ehs, List.mem_map] at hx
    obtain ⟨y, hy, rfl⟩ := hx
    exact (root_entry_handle f c hc y.2 (h.1 y hy)).1
  · intro x hx
    rw [rootEdit_rhs, List.mem_map] at hx
    obtain ⟨y, hy, rfl⟩ := hx
    exact (root_rel_handle f c hc y.2 (h.2 y hy)).1

theorem hok_entryEdit (f : Field) (p : Nat) (c : Cut) (lost : Nat → Option Str)
    (hc : ∀ e, f.kids[p]? = some e → isNodeOf .ENTRY e = true → c.Faithful e.children) (h : HOk f) :
    HOk (f.entryEdit p c lost) := by
  cases he : f.kids[p]? with
  | none =>
    have hk : (f.entryEdit p c lost).kids = f.kids := by simp [Field.entryEdit, he]
    constructor
    · intro x hx
      have := h.1 x hx
      cases hx2 : x.2 with
      | gone t => trivial
      | «at» p1 => rw [hx2] at this; simpa [EOk, hk] using this
    · intro x hx
      rw [entryEdit_rhs, List.mem_map] at hx
      obtain ⟨y, hy, rfl⟩ := hx
      have := h.2 y hy
      cases hy2 : y.2 with
      | gone t => trivial
      | «at» p1 q =>
        rw [hy2] at this
        obtain ⟨e1, x1, he1, _⟩ := this
        have hne : p1 ≠ p := by intro hh; subst hh; rw [he] at he1; cases he1
        simp only [rAfterEntry, if_neg hne]
        simpa [ROk, hk, hy2] using h.2 y hy
  | some e =>
    by_cases hent : isNodeOf .ENTRY e = true
    · obtain ⟨h1, h2⟩ := entry_handles f p c lost e he hent (hc e he hent)
      constructor
      · intro x hx; exact h1 x.2 (h.1 x hx)
      · intro x hx
        rw [entryEdit_rhs, List.mem_map] at hx
        obtain ⟨y, hy, rfl⟩ := hx
        exact (h2 y.2 (h.2 y hy)).1
    · -- no handle points at a non-entry
      constructor
      · intro x hx
        have := h.1 x hx
        cases hx2 : x.2 with
        | gone t => trivial
        | «at» p1 =>
          rw [hx2] at this
          obtain ⟨e1, he1, hent1⟩ := this
          have hne : p1 ≠ p := by intro hh; subst hh; rw [he] at he1; cases he1; exact hent hent1
          exact ⟨e1, by rw [entryEdit_get f p c lost e he, if_neg hne]; exact he1, hent1⟩
      · intro x hx
        rw [entryEdit_rhs, List.mem_map] at hx
        obtain ⟨y, hy, rfl⟩ := hx
        have := h.2 y hy
        cases hy2 : y.2 with
        | gone t => trivial
        | «at» p1 q =>
          rw [hy2] at this
          obtain ⟨e1, x1, he1, hent1, hx1, hrel⟩ := this
          have hne : p1 ≠ p := by intro hh; subst hh; rw [he] at he1; cases he1; exact hent hent1
          simp only [rAfterEntry, if_neg hne]
          exact ⟨e1, x1, by rw [entryEdit_get f p c lost e he, if_neg hne]; exact he1, hent1, hx1, hrel⟩

theorem getElem?_replaceAt (cs : List RNode) (q : Nat) (y : RNode) (hq : q < cs.length) (q' : Nat) :
    (replaceAt cs q [y])[q']? = if q' = q then some y else cs[q']? := by
  simp only [replaceAt]
  by_cases h : q' = q
  · subst h
    rw [if_pos rfl, List.append_assoc, List.getElem?_append_right (by simp; omega)]
    simp [Nat.min_eq_left (Nat.le_of_lt hq)]
  · rw [if_neg h]
    rcases Nat.lt_or_gt_of_ne h with h1 | h1
    · rw [List.append_assoc, List.getElem?_append_left (by simp; omega), List.getElem?_take_of_lt h1]
    · rw [List.getElem?_append_right (by simp; omega)]
      simp only [List.length_append, List.length_take, Nat.min_eq_left (Nat.le_of_lt hq), List.length_singleton]
      rw [List.getElem?_drop]
      have : q + 1 + (q' - (q + 1)) = q' := by omega
      rw [this]

/-- a setter: no handle moves; the handle of the relation reads the rewritten node, every other one
    the node it read before -/
theorem hok_relEdit (f : Field) (p q : Nat) (g : RNode → RNode)
    (hg : ∀ r, isNodeOf .RELATION r = true → isNodeOf .RELATION (g r) = true) (h : HOk f) :
    HOk (f.relEdit p q g) := by
  unfold Field.relEdit
  cases he : f.kids[p]? with
  | none => exact h
  | some e =>
    cases hr : e.children[q]? with
    | none => simp only [hr]; exact h
    | some r =>
      simp only [hr]
      have hp : p < f.kids.length := by
        rcases Nat.lt_or_ge p f.kids.length with h' | h'
        · exact h'
        · rw [List.getElem?_eq_none_iff.2 h'] at he; cases he
      have hq : q < e.children.length := by
        rcases Nat.lt_or_ge q e.children.length with h' | h'
        · exact h'
        · rw [List.getElem?_eq_none_iff.2 h'] at hr; cases hr
      constructor
      · intro x hx
        have := h.1 x hx
        cases hx2 : x.2 with
        | gone t => trivial
        | «at» p1 =>
          rw [hx2] at this
          obtain ⟨e1, he1, hent1⟩ := this
          simp only [EOk, getElem?_replaceAt f.kids p _ hp]
          by_cases hh : p1 = p
          · subst hh
            have : e1 = e := Option.some.inj (he1.symm.trans he)
            subst this
            exact ⟨_, by rw [if_pos rfl], by simp [isNodeOf_node, isNodeOf_kind hent1]⟩
          · exact ⟨e1, by rw [if_neg hh]; exact he1, hent1⟩
      · intro x hx
        have := h.2 x hx
        cases hx2 : x.2 with
        | gone t => trivial
        | «at» p1 q1 =>
          rw [hx2] at this
          obtain ⟨e1, x1, he1, hent1, hx1, hrel⟩ := this
          simp only [ROk, getElem?_replaceAt f.kids p _ hp]
          by_cases hh : p1 = p
          · subst hh
            have : e1 = e := Option.some.inj (he1.symm.trans he)
            subst this
            refine ⟨_, if q1 = q then g r else x1, by rw [if_pos rfl], by simp [isNodeOf_node, isNodeOf_kind hent1], ?_, ?_⟩
            · simp only [children_node, getElem?_replaceAt e1.children q _ hq]
              by_cases hq1 : q1 = q
              · simp [hq1]
              · simp [hq1, hx1]
            · by_cases hq1 : q1 = q
              · subst hq1
                have : x1 = r := Option.some.inj (hx1.symm.trans hr)
                subst this
                simp [hg x1 hrel]
              · simp [hq1, hrel]
          · exact ⟨e1, x1, by rw [if_neg hh]; exact he1, hent1, hx1, hrel⟩


/-! ### the position maps of the operations are faithful -/

theorem faithful_cut' (cs A B : List RNode) (a b : Nat) (hA : A <+: cs) (hB : B <:+ cs)
    (hl : A.length + B.length ≤ cs.length) (ha : a = A.length ∨ (cs.length ≤ a ∧ A = cs))
    (hb : b = cs.length - B.length ∨ cs.length ≤ b) :
    Cut.Faithful cs ⟨A ++ B, Remap.cut a b⟩ := by
  intro p x hx p' hp'
  simp only [Remap.cut] at hp'
  obtain ⟨t, ht⟩ := hA
  obtain ⟨s, hs⟩ := hB
  have hp : p < cs.length := by
    rcases Nat.lt_or_ge p cs.length with h | h
    · exact h
    · rw [List.getElem?_eq_none_iff.2 h] at hx; cases hx
  have hsl : s.length = cs.length - B.length := by rw [← hs]; simp
  split at hp'
  · rename_i hlt
    simp only [Option.some.injEq] at hp'; subst hp'
    rcases ha with ha | ⟨ha, hAc⟩
    · subst ha
      rw [List.getElem?_append_left hlt]
      rw [← ht, List.getElem?_append_left hlt] at hx
      exact hx
    · rw [hAc, List.getElem?_append_left hp]; exact hx
  · split at hp'
    · cases hp'
    · rename_i h1 h2
      simp only [Option.some.injEq] at hp'; subst hp'
      rcases hb with hb | hb
      · rcases ha with ha | ⟨ha, _⟩
        · subst ha; subst hb
          rw [List.getElem?_append_right (by omega)]
          rw [← hs, List.getElem?_append_right (by omega)] at hx
          have : p - (cs.length - B.length - A.length) - A.length = p - s.length := by omega
          rw [this]; exact hx
        · omega
      · omega

theorem entryRemove_form (cs : List RNode) (p : Nat) (c : Cut) (h : entryRemove cs p = .ok c) :
    ∃ A B, c = ⟨A ++ B, Remap.cut A.length (cs.length - B.length)⟩ ∧ A <+: cs.take p ∧ B <:+ cs.drop (p + 1) := by
  unfold entryRemove at h
  simp only at h
  split at h
  · split at h
    · rename_i x' rest hdw hx'
      simp only [Outcome.ok.injEq] at h
      refine ⟨_, _, h.symm, ?_, ?_⟩
      · split
        · exact dropTrailing_prefix _ _
        · exact List.prefix_refl _
      · have h1 : (x' :: rest) <:+ cs.drop (p + 1) := by rw [← hdw]; exact List.dropWhile_suffix _
        have h2 : rest <:+ cs.drop (p + 1) := List.IsSuffix.trans (List.suffix_cons _ _) h1
        rw [hdw]
        split
        · simpa using h2
        · exact List.IsSuffix.trans (List.dropWhile_suffix _) (by simpa using h2)
    · cases h
  · simp only [Outcome.ok.injEq] at h
    refine ⟨_, [], by rw [← h, List.append_nil]; rfl, ?_, List.nil_suffix⟩
    split
    · split
      · rename_i y r hb1
        split
        · have h1 := dropTrailing_prefix isWsElem (cs.take p)
          rw [hb1, List.reverse_cons] at h1
          exact List.IsPrefix.trans (List.prefix_append _ _) h1
        · exact dropTrailing_prefix _ _
      · exact List.nil_prefix
    · exact List.prefix_refl _

theorem faithful_entryRemove (cs : List RNode) (p : Nat) (c : Cut) (h : entryRemove cs p = .ok c) : c.Faithful cs := by
  obtain ⟨A, B, rfl, hA, hB⟩ := entryRemove_form cs p c h
  have h1 : A.length ≤ (cs.take p).length := hA.length_le
  have h2 : B.length ≤ (cs.drop (p + 1)).length := hB.length_le
  simp only [List.length_take, List.length_drop] at h1 h2
  exact faithful_cut' cs A B _ _ (List.IsPrefix.trans hA (List.take_prefix _ _))
    (List.IsSuffix.trans hB (List.drop_suffix _ _)) (by omega) (Or.inl rfl) (Or.inl rfl)

theorem faithful_relationsInsert (cs : List RNode) (i : Nat) (entry : RNode) : (relationsInsert cs i entry).Faithful cs := by
  unfold relationsInsert
  cases hn : nthNode .ENTRY cs i with
  | some pos =>
    obtain ⟨pre, x, post, e, hl, _, _⟩ := nthPos_some hn
    exact faithful_ins cs _ pos (by rw [e, ← hl]; simp)
  | none =>
    cases hlast : lastPos isItemNode cs with
    | none => exact faithful_ins cs _ _ (Nat.le_refl _)
    | some last =>
      obtain ⟨pre, x, post, e, hl, _, _⟩ := lastPos_some hlast
      simp only
      split
      · have hb : ∀ b : Bool, Cut.Faithful cs ⟨insertAt cs cs.length (if b = true then [entry] else [T .WHITESPACE " ", entry]),
            Remap.ins cs.length (if b = true then [entry] else [T .WHITESPACE " ", entry]).length⟩ :=
          fun b => faithful_ins cs _ _ (Nat.le_refl _)
        exact hb _
      · exact faithful_ins cs _ (last + 1) (by rw [e, ← hl]; simp)

theorem faithful_entryPushIn (es : List RNode) (rel : RNode) : (entryPushIn es rel).Faithful es := by
  unfold entryPushIn
  cases hl : lastPos (isNodeOf .RELATION) es with
  | some last =>
    obtain ⟨pre, x, post, e, hlen, _, _⟩ := lastPos_some hl
    simp only
    exact faithful_ins es _ (last + 1) (by rw [e, ← hlen]; simp)
  | none =>
    simp only
    exact faithful_ins es _ _ (Nat.le_refl _)

theorem faithful_cut_after (es A : List RNode) (q : Nat) (hA : A <+: es.take q) :
    Cut.Faithful es ⟨A ++ es.drop (q + 1), Remap.cut A.length (q + 1)⟩ := by
  have hAl := hA.length_le
  simp only [List.length_take] at hAl
  have hdl : (es.drop (q + 1)).length = es.length - (q + 1) := by simp
  exact faithful_cut' es A (es.drop (q + 1)) _ (q + 1) (List.IsPrefix.trans hA (List.take_prefix _ _))
    (List.drop_suffix _ _) (by rw [hdl]; omega) (Or.inl rfl) (by rw [hdl]; omega)

theorem faithful_cut_before (es B : List RNode) (q : Nat) (hB : B <:+ es.drop (q + 1)) :
    Cut.Faithful es ⟨es.take q ++ B, Remap.cut q (es.length - B.length)⟩ := by
  have hBl := hB.length_le
  have hdl : (es.drop (q + 1)).length = es.length - (q + 1) := by simp
  rw [hdl] at hBl
  exact faithful_cut' es (es.take q) B q _ (List.take_prefix _ _)
    (List.IsSuffix.trans hB (List.drop_suffix _ _)) (by simp only [List.length_take]; omega)
    (by
      rcases Nat.lt_or_ge q es.length with hq | hq
      · left; simp [Nat.min_eq_left (Nat.le_of_lt hq)]
      · right; exact ⟨hq, List.take_of_length_le hq⟩)
    (Or.inl rfl)

theorem faithful_relationRemoveIn (es : List RNode) (q : Nat) (c : Cut) (h : relationRemoveIn es q = .ok c) :
    c.Faithful es := by
  unfold relationRemoveIn at h
  simp only at h
  have hdl : (es.drop (q + 1)).length = es.length - (q + 1) := by simp
  split at h
  · simp only [Outcome.ok.injEq] at h
    rw [← h]
    have hpre : ∀ l : List RNode, (l.dropWhile isWsElem).reverse <+: l.reverse := by
      intro l
      have := List.dropWhile_suffix (l := l) isWsElem
      exact List.reverse_prefix.2 this
    have hA : (List.dropWhile isWsElem
        (match List.dropWhile isWsElem (es.take q).reverse with
          | y :: r => if (y.kind == Kind.PIPE) = true then r else List.dropWhile isWsElem (es.take q).reverse
          | [] => [])).reverse <+: es.take q := by
      refine List.IsPrefix.trans (hpre _) ?_
      have h0 := dropTrailing_prefix isWsElem (es.take q)
      split
      · rename_i y r heq
        split
        · rw [heq, List.reverse_cons] at h0
          exact List.IsPrefix.trans (List.prefix_append _ _) h0
        · exact h0
      · simp
    exact faithful_cut_after es _ q hA
  · split at h
    · split at h
      · rename_i x' r' heq _
        simp only [Outcome.ok.injEq] at h
        rw [← h]
        have hB : r'.dropWhile isWsElem <:+ es.drop (q + 1) := by
          refine List.IsSuffix.trans (List.dropWhile_suffix _) ?_
          have h1 : (x' :: r') <:+ es.drop (q + 1) := by rw [← heq]; exact List.dropWhile_suffix _
          exact List.IsSuffix.trans (List.suffix_cons _ _) h1
        exact faithful_cut_before es _ q hB
      · cases h
    · simp only [Outcome.ok.injEq] at h
      rw [← h]
      have := faithful_cut_before es [] q List.nil_suffix
      simpa using this


/-! ### every operation keeps the handles sound -/

theorem entryKids_eq (f : Field) (p : Nat) (e : RNode) (he : f.kids[p]? = some e) : f.entryKids p = e.children := by
  simp [Field.entryKids, he]

theorem hok_removeEntryAt (f f' : Field) (p : Nat) (h : HOk f) (hr : f.removeEntryAt p = .ok f') : HOk f' := by
  unfold Field.removeEntryAt at hr
  cases hc : entryRemove f.kids p with
  | panic s => rw [hc] at hr; simp [Outcome.map] at hr
  | ok c =>
    rw [hc] at hr
    simp only [Outcome.map, Outcome.ok.injEq] at hr
    rw [← hr]
    exact hok_rootEdit f c (faithful_entryRemove f.kids p c hc) h

theorem hok_entryPushAt (f : Field) (p : Nat) (rel : RNode) (h : HOk f) : HOk (f.entryPushAt p rel) := by
  unfold Field.entryPushAt
  apply hok_entryEdit f p _ _ _ h
  intro e he _
  rw [entryKids_eq f p e he]
  exact faithful_entryPushIn _ _

theorem hok_removeRelationAt (f f' : Field) (p q : Nat) (h : HOk f) (hr : f.removeRelationAt p q = .ok f') : HOk f' := by
  unfold Field.removeRelationAt at hr
  cases hc : relationRemoveIn (f.entryKids p) q with
  | panic s => rw [hc] at hr; simp [Outcome.bind] at hr
  | ok c =>
    rw [hc] at hr
    simp only [Outcome.bind] at hr
    have h1 : HOk (f.entryEdit p c) := by
      apply hok_entryEdit f p c _ _ h
      intro e he _
      rw [entryKids_eq f p e he] at hc
      exact faithful_relationRemoveIn _ q c hc
    split at hr
    · exact hok_removeEntryAt _ f' p h1 hr
    · simp only [Outcome.ok.injEq] at hr; rw [← hr]; exact h1

theorem hok_replace (f f' : Field) (i : Nat) (entry : RNode) (h : HOk f) (hr : f.replace i entry = .ok f') : HOk f' := by
  unfold Field.replace at hr
  cases hn : nthNode .ENTRY f.kids i with
  | none => rw [hn] at hr; cases hr
  | some p =>
    rw [hn] at hr
    simp only [Outcome.ok.injEq] at hr
    rw [← hr]
    obtain ⟨pre, x, post, e, hl, _, _⟩ := nthPos_some hn
    have h1 : HOk (f.rootEdit ⟨f.kids.take p ++ f.kids.drop (p + 1), Remap.cut p (p + 1)⟩) := by
      apply hok_rootEdit f _ _ h
      have := faithful_cut_after f.kids (f.kids.take p) p (List.prefix_refl _)
      have hlen : (f.kids.take p).length = p := by rw [e, ← hl]; simp
      rw [hlen] at this
      exact this
    apply hok_rootEdit _ _ _ h1
    apply faithful_ins
    simp only [Field.rootEdit]
    rw [e, ← hl]; simp

theorem hok_entryReplaceAt (f f' : Field) (p j : Nat) (rel : RNode) (h : HOk f)
    (hr : f.entryReplaceAt p j rel = .ok f') : HOk f' := by
  unfold Field.entryReplaceAt at hr
  cases hq : nthNode .RELATION (f.entryKids p) j with
  | none => rw [hq] at hr; cases hr
  | some q =>
    rw [hq] at hr
    simp only at hr
    obtain ⟨pre', r, post', hes, hl', _, _⟩ := nthPos_some hq
    unfold entryReplaceIn at hr
    have hget : (f.entryKids p)[q]? = some r := by rw [hes, ← hl']; simp
    rw [hget] at hr
    simp only [Outcome.map, Outcome.ok.injEq] at hr
    rw [← hr]
    have h1 : HOk (f.entryEdit p ⟨(f.entryKids p).take q ++ (f.entryKids p).drop (q + 1), Remap.cut q (q + 1)⟩
        (fun x => if x = q then some (graftWs r rel).2.text else none)) := by
      apply hok_entryEdit f p _ _ _ h
      intro e he _
      rw [entryKids_eq f p e he] at hes ⊢
      have := faithful_cut_after e.children (e.children.take q) q (List.prefix_refl _)
      have hlen : (e.children.take q).length = q := by rw [hes, ← hl']; simp
      rw [hlen] at this
      exact this
    apply hok_entryEdit _ p _ _ _ h1
    intro e1 he1 _
    -- the entry at `p` after the first edit has the old relation cut out
    cases he : f.kids[p]? with
    | none =>
      have : f.entryKids p = [] := by simp [Field.entryKids, he]
      rw [this] at hes; cases pre' <;> cases hes
    | some e =>
      rw [entryEdit_get f p _ _ e he, if_pos rfl] at he1
      simp only [Option.some.injEq] at he1
      subst he1
      simp only [children_node]
      have hrep : replaceAt (f.entryKids p) q [(graftWs r rel).1]
          = insertAt ((f.entryKids p).take q ++ (f.entryKids p).drop (q + 1)) q [(graftWs r rel).1] := by
        rw [hes, ← hl']; simp [replaceAt, insertAt]
      rw [hrep]
      apply faithful_ins
      rw [hes, ← hl']; simp

theorem isNodeOf_onChildren' {k : Kind} {r : RNode} (h : isNodeOf k r = true) (g : List RNode → List RNode) :
    isNodeOf k (onChildren r g) = true := by
  simp only [isNodeOf, Bool.and_eq_true] at h
  simp [isNodeOf, onChildren, h.2]

theorem hok_step (f f' : Field) (op : Op) (h : HOk f) (hs : step f op = .ok f') : HOk f' := by
  cases op with
  | setArchqual p q aq =>
    simp only [step, Outcome.ok.injEq] at hs; rw [← hs]
    exact hok_relEdit f p q _ (fun r hr => by unfold setArchqual; split <;> exact isNodeOf_onChildren' hr _) h
  | setVersion p q vc =>
    simp only [step, Outcome.ok.injEq] at hs; rw [← hs]
    exact hok_relEdit f p q _ (fun r hr => by
      unfold setVersion; split <;> split <;> first | exact isNodeOf_onChildren' hr _ | exact hr) h
  | dropConstraint p q =>
    simp only [step, Outcome.ok.injEq] at hs; rw [← hs]
    exact hok_relEdit f p q _ (fun r hr => by
      unfold dropConstraint; split
      · exact isNodeOf_onChildren' hr (fun cs => removeWithWsBefore cs _)
      · exact hr) h
  | setArchitectures p q as =>
    simp only [step, Outcome.ok.injEq] at hs; rw [← hs]
    exact hok_relEdit f p q _ (fun r hr => by
      unfold setArchitectures; split <;> split <;> (try split) <;>
        first | exact isNodeOf_onChildren' hr _ | exact hr) h
  | addProfile p q g =>
    simp only [step, Outcome.ok.injEq] at hs; rw [← hs]
    exact hok_relEdit f p q _ (fun r hr => by
      simp only [addProfile]; exact isNodeOf_onChildren' hr (fun cs => insertAt cs _ _)) h
  | entryPush p rel =>
    simp only [step, Outcome.ok.injEq] at hs; rw [← hs]
    exact hok_entryPushAt f p rel h
  | entryReplace p j rel => exact hok_entryReplaceAt f f' p j rel h hs
  | removeRelationAt p q => exact hok_removeRelationAt f f' p q h hs
  | removeRelation i j =>
    simp only [step, Field.removeRelation] at hs
    split at hs
    · cases hs
    · split at hs
      · cases hs
      · exact hok_removeRelationAt f f' _ _ h hs
  | insert i entry =>
    simp only [step, Outcome.ok.injEq] at hs; rw [← hs]
    exact hok_rootEdit f _ (faithful_relationsInsert f.kids i entry) h
  | push entry =>
    simp only [step, Outcome.ok.injEq] at hs; rw [← hs]
    exact hok_rootEdit f _ (faithful_relationsInsert f.kids _ entry) h
  | replace i entry => exact hok_replace f f' i entry h hs
  | removeEntry i =>
    simp only [step, Field.removeEntry] at hs
    split at hs
    · exact hok_removeEntryAt f f' _ h hs
    · cases hs
  | removeEntryAt p => exact hok_removeEntryAt f f' p h hs

/-- whole histories: every live handle keeps pointing at a node of its kind -/
theorem hok_run (f f' : Field) (ops : List Op) (h : HOk f) (hr : run f ops = .ok f') : HOk f' := by
  induction ops generalizing f with
  | nil => simp only [run, Outcome.ok.injEq] at hr; rw [← hr]; exact h
  | cons op ops ih =>
    simp only [run] at hr
    cases hst : step f op with
    | panic s => rw [hst] at hr; simp [Outcome.bind] at hr
    | ok f1 =>
      rw [hst] at hr
      simp only [Outcome.bind] at hr
      exact ih f1 (hok_step f f1 op h hst) hr


/-! ### a live handle is `get_entry(i)` / `get_relation(j)` for the index of its position -/

theorem nthPos_of_get (P : RNode → Bool) (cs : List RNode) (p : Nat) (x : RNode) (hx : cs[p]? = some x)
    (hP : P x = true) : nthPos P cs ((cs.take p).countP P) = some p := by
  have e := textList_split cs p x hx
  have hp : p < cs.length := by
    rcases Nat.lt_or_ge p cs.length with h | h
    · exact h
    · rw [List.getElem?_eq_none_iff.2 h] at hx; cases hx
  have hl : (cs.take p).length = p := by simp [Nat.min_eq_left (Nat.le_of_lt hp)]
  have := nthPos_split (cs.take p) x (cs.drop (p + 1)) hP
  rw [← e, hl] at this
  exact this

/-- a live entry handle reads the entry of the list model whose index is the number of entries before
    its position -/
theorem entry_handle_reads (f : Field) (p : Nat) (h : EOk f (.at p)) :
    ∃ e, f.kids[p]? = some e
      ∧ nthNode .ENTRY f.kids ((f.kids.take p).countP (isNodeOf .ENTRY)) = some p
      ∧ S.entry? (absKids f.kids) ((f.kids.take p).countP (isNodeOf .ENTRY)) = some (relsOf e) := by
  obtain ⟨e, he, hent⟩ := h
  have hn := nthPos_of_get (isNodeOf .ENTRY) f.kids p e he hent
  refine ⟨e, he, hn, ?_⟩
  obtain ⟨pre, e', post, hk, hl, _, hcnt, hne, habs⟩ := abs_split hn
  have : e' = e := by
    subst hl
    rw [hk] at he; simpa using he
  subst this
  rw [habs, ← hne, S.entry?_at]

/-- a live relation handle reads the alternative of its entry whose index is the number of relations
    before its position -/
theorem rel_handle_reads (f : Field) (p q : Nat) (h : ROk f (.at p q)) :
    ∃ e r, f.kids[p]? = some e ∧ e.children[q]? = some r
      ∧ nthNode .RELATION (f.entryKids p) ((e.children.take q).countP (isNodeOf .RELATION)) = some q
      ∧ (relsOf e)[(e.children.take q).countP (isNodeOf .RELATION)]? = some (recOf r) := by
  obtain ⟨e, r, he, hent, hr, hrel⟩ := h
  have hn := nthPos_of_get (isNodeOf .RELATION) e.children q r hr hrel
  refine ⟨e, r, he, hr, by rw [entryKids_eq f p e he]; exact hn, ?_⟩
  obtain ⟨pre, r', post, hk, hl, hr', hcnt⟩ := nthPos_some hn
  have : r' = r := by
    subst hl
    rw [hk] at hr; simpa using hr
  subst this
  have hj : (e.children.take q).countP (isNodeOf .RELATION) = ((cn .RELATION pre).map recOf).length := by
    rw [← hcnt, List.length_map, cn_length_countP]
  rw [hj, relsOf_eq]
  conv => lhs; arg 1; rw [hk, cn_append, cn_cons .RELATION r' post, cn_of_isNodeOf hrel]
  simp

end Deb822Verif.Rel.Edit
