import Deb822Verif.Lemmas.RelEditOracle
/-!
  The tree of a field of the grammar (`FieldA.tree`, any layout) taken apart around one relation:
  the entry node and the RELATION node with the whitespace that ended up inside it, the text before
  and after, and the same split of the text of the field with that relation (and the gap after it)
  exchanged.
-/
set_option linter.unusedSimpArgs false
set_option linter.unusedVariables false
namespace Deb822Verif.Rel.Edit
open Deb822Verif Rel Node Build Lossy RelSpec

/-! ### texts -/

@[simp] theorem textList_tks (ts : List Tok) : textList (tks ts) = tokText ts := by
  induction ts with
  | nil => rfl
  | cons t ts ih => simp [tks, tk] at ih ⊢; exact ih

@[simp] theorem tokText_gapToks (g : Gap) : tokText (gapToks g) = gapStr g := by
  induction g with
  | nil => rfl
  | cons p g ih =>
    simp only [gapToks, List.map_cons, tokText_cons, gapStr, List.flatten_cons] at ih ⊢
    rw [ih]; cases p <;> rfl

theorem itemsToks_text (is : List Item) : tokText (itemsToks is) = (is.map Item.str).flatten := by
  induction is with
  | nil => rfl
  | cons i is ih =>
    simp only [itemsToks, List.map_cons, List.flatten_cons, tokText_append] at ih ⊢
    rw [ih]
    cases i with
    | mk gap neg name => cases neg <;> simp [Item.toks, Item.str, Item.text]

theorem body_text (ok ck : Kind) (o c : Char) (b : Bracket) :
    tokText (b.body ok ck o c) = o :: ((b.items.map Item.str).flatten ++ gapStr b.post ++ [c]) := by
  simp [Bracket.body, itemsToks_text]

theorem colonTail_text (qs : List Str) : tokText (colonTail qs) = (qs.map fun q => ':' :: q).flatten := by
  induction qs with
  | nil => rfl
  | cons q qs ih => simp [ih]

theorem version_toks_text (v : VersionA) : tokText v.toks = v.str := by
  rw [VersionA.str_eq]
  simp [VersionA.toks, colonTail_text]

theorem opToks_text (op : VC) : tokText (opToks op) = op.display := by
  cases op <;> simp [opToks, VC.display]

theorem verNode_text (v : VerPart) : v.node.text = '(' :: (gapStr v.g2 ++ v.op.display ++ gapStr v.g3 ++ v.ver.str ++ gapStr v.g4 ++ [')']) := by
  simp [VerPart.node, tk, opToks_text, version_toks_text]

theorem profsNodes_text (ps : List Bracket) : textList (profsNodes ps) = (ps.map (Bracket.str '<' '>')).flatten := by
  induction ps with
  | nil => rfl
  | cons p ps ih =>
    rw [profsNodes_cons]
    simp [ih, profBody, body_text, Bracket.str]

/-- the text of a RELATION node of the grammar: the relation, then the whitespace inside it -/
theorem RelA.node_text' (r : RelA) (tail : List Tok) : (r.node tail).text = r.str ++ tokText tail := by
  rw [RelA.node_eq]
  cases r with
  | mk name aq ver archs profs =>
    cases aq <;> cases ver <;> cases archs <;>
      simp [aqNodes, archNodes, tk, RelA.str, verNode_text, VerPart.str, archBody, body_text, Bracket.str,
        profsNodes_text]


/-! ### the alternatives of an entry -/

def altsStr (r : RelA) (rest : List AltA) (post : Gap) : Str :=
  r.str ++ (rest.map AltA.str).flatten ++ gapStr post

theorem altsStr_cons (r : RelA) (a : AltA) (as : List AltA) (post : Gap) :
    altsStr r (a :: as) post = r.str ++ gapStr a.gb ++ '|' :: (gapStr a.ga ++ altsStr a.rel as post) := by
  simp [altsStr, AltA.str]

theorem alts_text (r : RelA) (rest : List AltA) (post : Gap) (fl : Follow) :
    textList (altsNodes r rest post fl).1 ++ tokText (altsNodes r rest post fl).2 = altsStr r rest post := by
  induction rest generalizing r with
  | nil =>
    simp only [altsNodes, altsStr]
    split
    · simp [RelA.node_text']
    · split <;> simp [RelA.node_text']
  | cons a as ih =>
    rw [altsStr_cons, ← ih a.rel]
    simp only [altsNodes]
    split <;> simp [RelA.node_text', tk]

/-- the `j`-th alternative, the gap after it and what follows that gap -/
def altAt (fl : Follow) (post : Gap) : RelA → List AltA → Nat → Option (RelA × Gap × Follow)
  | r, [], 0 => some (r, post, fl)
  | _, [], _ + 1 => none
  | r, a :: _, 0 => some (r, a.gb, .pipe)
  | _, a :: as, j + 1 => altAt fl post a.rel as j

/-- the alternatives with the `j`-th one and the gap after it exchanged -/
def setAlt (post : Gap) : RelA → List AltA → Nat → RelA → Gap → RelA × List AltA × Gap
  | _, [], 0, r', g' => (r', [], g')
  | r, [], _ + 1, _, _ => (r, [], post)
  | _, a :: as, 0, r', g' => (r', { a with gb := g' } :: as, post)
  | r, a :: as, j + 1, r', g' =>
    let x := setAlt post a.rel as j r' g'
    (r, { a with rel := x.1 } :: x.2.1, x.2.2)

/-- what of the relation's trailing gap is inside the RELATION node -/
def tailOf (r : RelA) (g : Gap) (fl : Follow) : List Tok := if r.tailInside fl then gapToks g else []
/-- … and what is outside -/
def outOf (r : RelA) (g : Gap) (fl : Follow) : Str := if r.tailInside fl then [] else gapStr g

theorem isRel_node (r : RelA) (t : List Tok) : isNodeOf .RELATION (r.node t) = true := rfl

theorem isNodeOf_tk (k : Kind) (t : Tok) : isNodeOf k (tk t) = false := rfl

theorem countP_tks (k : Kind) (ts : List Tok) : (tks ts).countP (isNodeOf k) = 0 := by
  rw [List.countP_eq_zero]
  intro x hx
  simp only [tks, List.mem_map] at hx
  obtain ⟨t, _, rfl⟩ := hx
  simp [isNodeOf, tk]

theorem alts_zip (fl : Follow) (post : Gap) (r : RelA) (rest : List AltA) (j : Nat) (rj : RelA) (gj : Gap) (flj : Follow)
    (h : altAt fl post r rest j = some (rj, gj, flj)) :
    ∃ pre' post' L R,
      (altsNodes r rest post fl).1 = pre' ++ rj.node (tailOf rj gj flj) :: post'
      ∧ pre'.countP (isNodeOf .RELATION) = j
      ∧ (∀ N' : RNode, textList (pre' ++ N' :: post') ++ tokText (altsNodes r rest post fl).2
          = L ++ N'.text ++ outOf rj gj flj ++ R)
      ∧ (∀ r' g', altsStr (setAlt post r rest j r' g').1 (setAlt post r rest j r' g').2.1 (setAlt post r rest j r' g').2.2
          = L ++ r'.str ++ gapStr g' ++ R) := by
  induction rest generalizing r j with
  | nil =>
    cases j with
    | succ j => simp [altAt] at h
    | zero =>
      simp only [altAt, Option.some.injEq, Prod.mk.injEq] at h
      obtain ⟨rfl, rfl, rfl⟩ := h
      by_cases hin : r.tailInside fl = true
      · refine ⟨[], [], [], [], by simp [altsNodes, hin, tailOf], rfl, ?_, ?_⟩
        · intro N'; simp [altsNodes, hin, outOf]
        · intro r' g'; simp [setAlt, altsStr]
      · by_cases he : fl = .eof
        · subst he
          refine ⟨[], tks (gapToks post), [], [], by simp [altsNodes, hin, tailOf], rfl, ?_, ?_⟩
          · intro N'; simp [altsNodes, hin, outOf]
          · intro r' g'; simp [setAlt, altsStr]
        · refine ⟨[], [], [], [], by simp [altsNodes, hin, he, tailOf], rfl, ?_, ?_⟩
          · intro N'; simp [altsNodes, hin, he, outOf]
          · intro r' g'; simp [setAlt, altsStr]
  | cons a as ih =>
    cases j with
    | zero =>
      simp only [altAt, Option.some.injEq, Prod.mk.injEq] at h
      obtain ⟨rfl, rfl, rfl⟩ := h
      have ht := alts_text a.rel as post fl
      by_cases hin : r.tailInside .pipe = true
      · refine ⟨[], tk (.PIPE, ['|']) :: (tks (gapToks a.ga) ++ (altsNodes a.rel as post fl).1), [],
          '|' :: (gapStr a.ga ++ altsStr a.rel as post), by simp [altsNodes, hin, tailOf], rfl, ?_, ?_⟩
        · intro N'
          simp only [altsNodes, outOf, hin, ↓reduceIte, List.nil_append, textList_cons, textList_append,
            textList_tks, tokText_gapToks, List.append_assoc, List.append_nil]
          rw [ht]; simp [tk]
        · intro r' g'; simp [setAlt, altsStr_cons]
      · refine ⟨[], tks (gapToks a.gb) ++ tk (.PIPE, ['|']) :: (tks (gapToks a.ga) ++ (altsNodes a.rel as post fl).1), [],
          '|' :: (gapStr a.ga ++ altsStr a.rel as post), by simp [altsNodes, hin, tailOf], rfl, ?_, ?_⟩
        · intro N'
          simp only [altsNodes, outOf, hin, Bool.false_eq_true, ↓reduceIte, List.nil_append, textList_cons,
            textList_append, textList_tks, tokText_gapToks, List.append_assoc]
          rw [ht]; simp [tk]
        · intro r' g'; simp [setAlt, altsStr_cons]
    | succ j =>
      simp only [altAt] at h
      obtain ⟨pre0, post0, L0, R0, hk, hc, ht, hs⟩ := ih a.rel j h
      refine ⟨(if r.tailInside .pipe then [r.node (gapToks a.gb)] else r.node [] :: tks (gapToks a.gb))
          ++ tk (.PIPE, ['|']) :: (tks (gapToks a.ga) ++ pre0), post0,
        r.str ++ gapStr a.gb ++ '|' :: (gapStr a.ga ++ L0), R0, ?_, ?_, ?_, ?_⟩
      · simp only [altsNodes, hk]; simp
      · rw [List.countP_append, List.countP_cons, List.countP_append, countP_tks, hc]
        split <;> simp [List.countP_cons, isRel_node, countP_tks, isNodeOf_tk] <;> omega
      · intro N'
        have := ht N'
        have hX : textList (if r.tailInside .pipe then [r.node (gapToks a.gb)] else r.node [] :: tks (gapToks a.gb))
            = r.str ++ gapStr a.gb := by split <;> simp [RelA.node_text']
        have e : ((if r.tailInside .pipe then [r.node (gapToks a.gb)] else r.node [] :: tks (gapToks a.gb))
              ++ tk (.PIPE, ['|']) :: (tks (gapToks a.ga) ++ pre0)) ++ N' :: post0
            = (if r.tailInside .pipe then [r.node (gapToks a.gb)] else r.node [] :: tks (gapToks a.gb))
              ++ tk (.PIPE, ['|']) :: (tks (gapToks a.ga) ++ (pre0 ++ N' :: post0)) := by simp
        simp only [altsNodes]
        rw [e, textList_append, textList_cons, textList_append, hX]
        simp only [List.append_assoc]
        rw [this]
        simp [tk]
      · intro r' g'
        simp only [setAlt, altsStr_cons, hs r' g']
        simp


/-! ### the segments of a field -/

def flOf (ss : List Seg) : Follow := if ss.isEmpty then .eof else .comma

def segsStr (ss : List Seg) : Str := Text.join [','] (ss.map Seg.str)

theorem segsNodes_cons (s : Seg) (ss : List Seg) :
    segsNodes (s :: ss) = s.nodes (flOf ss) ++ (if ss.isEmpty then [] else tk commaTok :: segsNodes ss) := by
  cases ss <;> simp [segsNodes, flOf]

theorem segsStr_cons (s : Seg) (ss : List Seg) :
    segsStr (s :: ss) = s.str ++ (if ss.isEmpty then [] else ',' :: segsStr ss) := by
  cases ss <;> simp [segsStr, Text.join]

theorem seg_text (s : Seg) (fl : Follow) : textList (s.nodes fl) = s.str := by
  cases s with
  | mk pre entry post =>
    cases entry with
    | alts r rest =>
      have := alts_text r rest post fl
      simp only [altsStr] at this
      simp only [Seg.nodes, Seg.str, EntryA.str, textList_append, textList_cons, textList_tks, tokText_gapToks,
        text_node, List.append_assoc]
      rw [this]; simp
    | substvar p ps =>
      have h1 : tokText (substvarToks p ps) = (EntryA.substvar p ps).str := by simpa using substvar_text p ps
      simp [Seg.nodes, Seg.str, h1]
    | empty => simp [Seg.nodes, Seg.str, EntryA.str]

theorem segs_text (ss : List Seg) : textList (segsNodes ss) = segsStr ss := by
  induction ss with
  | nil => rfl
  | cons s ss ih =>
    rw [segsNodes_cons, segsStr_cons, textList_append, seg_text]
    cases ss with
    | nil => simp
    | cons t ts => simp [ih, tk, commaTok]

def relAtSegs : List Seg → Nat → Nat → Option (RelA × Gap × Follow)
  | [], _, _ => none
  | s :: ss, i, j =>
    match s.entry, i with
    | .alts r rest, 0 => altAt (flOf ss) s.post r rest j
    | .alts _ _, i + 1 => relAtSegs ss i j
    | _, i => relAtSegs ss i j

def setSegs : List Seg → Nat → Nat → RelA → Gap → List Seg
  | [], _, _, _, _ => []
  | s :: ss, i, j, r', g' =>
    match s.entry, i with
    | .alts r rest, 0 =>
      { s with entry := .alts (setAlt s.post r rest j r' g').1 (setAlt s.post r rest j r' g').2.1,
               post := (setAlt s.post r rest j r' g').2.2 } :: ss
    | .alts _ _, i + 1 => s :: setSegs ss i j r' g'
    | _, i => s :: setSegs ss i j r' g'

theorem setSegs_isEmpty (ss : List Seg) (i j : Nat) (r' : RelA) (g' : Gap) :
    (setSegs ss i j r' g').isEmpty = ss.isEmpty := by
  cases ss with
  | nil => rfl
  | cons s ss =>
    simp only [setSegs]
    split <;> rfl

theorem seg_noEntry (s : Seg) (fl : Follow) (h : ∀ r rest, s.entry ≠ .alts r rest) :
    (s.nodes fl).countP (isNodeOf .ENTRY) = 0 := by
  cases s with
  | mk pre entry post =>
    cases entry with
    | alts r rest => exact absurd rfl (h r rest)
    | substvar p ps => simp [Seg.nodes, List.countP_cons, countP_tks, isNodeOf]
    | empty => simp [Seg.nodes, countP_tks]

theorem seg_oneEntry (s : Seg) (fl : Follow) (r : RelA) (rest : List AltA) (h : s.entry = .alts r rest) :
    (s.nodes fl).countP (isNodeOf .ENTRY) = 1 := by
  cases s with
  | mk pre entry post =>
    simp only at h; subst h
    simp [Seg.nodes, List.countP_cons, countP_tks, isNodeOf]

/-- the tree of the segments split around the `j`-th alternative of the `i`-th entry -/
theorem segs_zip (ss : List Seg) (i j : Nat) (rj : RelA) (gj : Gap) (flj : Follow)
    (h : relAtSegs ss i j = some (rj, gj, flj)) :
    ∃ pre pre' post' post L R,
      segsNodes ss = pre ++ Node.node .ENTRY (pre' ++ rj.node (tailOf rj gj flj) :: post') :: post
      ∧ pre.countP (isNodeOf .ENTRY) = i ∧ pre'.countP (isNodeOf .RELATION) = j
      ∧ (∀ N' : RNode, textList (pre ++ Node.node .ENTRY (pre' ++ N' :: post') :: post)
          = L ++ N'.text ++ outOf rj gj flj ++ R)
      ∧ (∀ r' g', segsStr (setSegs ss i j r' g') = L ++ r'.str ++ gapStr g' ++ R) := by
  induction ss generalizing i with
  | nil => simp [relAtSegs] at h
  | cons s ss ih =>
    -- a segment without entry, or an entry before the `i`-th: go on in the rest
    have skip : ∀ i', relAtSegs ss i' j = some (rj, gj, flj) →
        (s.nodes (flOf ss)).countP (isNodeOf .ENTRY) + i' = i →
        (∀ r' g', setSegs (s :: ss) i j r' g' = s :: setSegs ss i' j r' g') →
        ∃ pre pre' post' post L R,
          segsNodes (s :: ss) = pre ++ Node.node .ENTRY (pre' ++ rj.node (tailOf rj gj flj) :: post') :: post
          ∧ pre.countP (isNodeOf .ENTRY) = i ∧ pre'.countP (isNodeOf .RELATION) = j
          ∧ (∀ N' : RNode, textList (pre ++ Node.node .ENTRY (pre' ++ N' :: post') :: post)
              = L ++ N'.text ++ outOf rj gj flj ++ R)
          ∧ (∀ r' g', segsStr (setSegs (s :: ss) i j r' g') = L ++ r'.str ++ gapStr g' ++ R) := by
      intro i' h' hcnt hset
      obtain ⟨pre, pre', post', post, L, R, hk, hc, hc', ht, hs⟩ := ih i' h'
      have hne : ss.isEmpty = false := by cases ss <;> simp [relAtSegs] at h' ⊢
      refine ⟨s.nodes (flOf ss) ++ tk commaTok :: pre, pre', post', post, s.str ++ ',' :: L, R, ?_, ?_, hc', ?_, ?_⟩
      · rw [segsNodes_cons, hne, hk]; simp
      · rw [List.countP_append, List.countP_cons, hc, ← hcnt]; simp [isNodeOf_tk]
      · intro N'
        have := ht N'
        simp only [List.append_assoc, List.cons_append, textList_append, textList_cons, seg_text] at this ⊢
        rw [this]; simp [tk, commaTok]
      · intro r' g'
        rw [hset, segsStr_cons, setSegs_isEmpty, hne, hs]; simp
    cases he : s.entry with
    | alts r rest =>
      cases i with
      | zero =>
        simp only [relAtSegs, he] at h
        obtain ⟨pre', post', L0, R0, hk, hc, ht, hs⟩ := alts_zip (flOf ss) s.post r rest j rj gj flj h
        have hnodes : s.nodes (flOf ss) = tks (gapToks s.pre)
            ++ Node.node .ENTRY (altsNodes r rest s.post (flOf ss)).1 :: tks (altsNodes r rest s.post (flOf ss)).2 := by
          simp [Seg.nodes, he]
        refine ⟨tks (gapToks s.pre), pre', post',
          tks (altsNodes r rest s.post (flOf ss)).2 ++ (if ss.isEmpty then [] else tk commaTok :: segsNodes ss),
          gapStr s.pre ++ L0, R0 ++ (if ss.isEmpty then [] else ',' :: segsStr ss), ?_, countP_tks _ _, hc, ?_, ?_⟩
        · rw [segsNodes_cons, hnodes, hk]; simp
        · intro N'
          have e : textList (if ss.isEmpty then [] else tk commaTok :: segsNodes ss) = (if ss.isEmpty then [] else ',' :: segsStr ss) := by
            split <;> simp [segs_text, tk, commaTok]
          have hL : textList (tks (gapToks s.pre) ++ Node.node .ENTRY (pre' ++ N' :: post')
                :: (tks (altsNodes r rest s.post (flOf ss)).2 ++ (if ss.isEmpty then [] else tk commaTok :: segsNodes ss)))
              = gapStr s.pre ++ ((textList (pre' ++ N' :: post') ++ tokText (altsNodes r rest s.post (flOf ss)).2)
                ++ textList (if ss.isEmpty then [] else tk commaTok :: segsNodes ss)) := by
            simp only [textList_append, textList_cons, text_node, textList_tks, tokText_gapToks, List.append_assoc]
          rw [hL, ht N', e]; simp
        · intro r' g'
          simp only [setSegs, he]
          have e2 : ∀ (x : RelA × List AltA × Gap),
              ({ s with entry := .alts x.1 x.2.1, post := x.2.2 } : Seg).str = gapStr s.pre ++ altsStr x.1 x.2.1 x.2.2 := by
            intro x; simp [Seg.str, EntryA.str, altsStr]
          rw [segsStr_cons, e2, hs r' g']; simp
      | succ i' =>
        simp only [relAtSegs, he] at h
        exact skip i' h (by rw [seg_oneEntry s _ r rest he]; omega) (fun r' g' => by simp [setSegs, he])
    | substvar p ps =>
      simp only [relAtSegs, he] at h
      exact skip i h (by rw [seg_noEntry s _ (by simp [he])]; omega) (fun r' g' => by simp [setSegs, he])
    | empty =>
      simp only [relAtSegs, he] at h
      exact skip i h (by rw [seg_noEntry s _ (by simp [he])]; omega) (fun r' g' => by simp [setSegs, he])

end Deb822Verif.Rel.Edit
