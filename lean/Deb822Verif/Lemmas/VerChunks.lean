import Deb822Verif.Model.DebVersion
/-!
  `DebVersion.chunks` read from the LEFT, and arithmetic of digit runs.

  `chunks` (Model/DebVersion.lean) is built from the right so that it is structural. The loop of
  `version_cmp_part` — and dpkg's `verrevcmp` — walk the strings from the left: one round cuts the
  maximal non-digit run, then the maximal digit run. `chunks_cons` says that this is the same
  decomposition; `cmpPart_unfold` / `cmpPartO_unfold` are one round of the comparison.
-/
namespace Deb822Verif.DebVersion
open Deb822Verif.Rel (isAsciiDigit digitsVal)

/-! ### one round, from the left -/

def nonDig (c : Char) : Bool := !isAsciiDigit c
/-- the maximal non-digit run at the front -/
def ndRun (s : Str) : Str := s.takeWhile nonDig
/-- what follows it -/
def ndRest (s : Str) : Str := s.dropWhile nonDig
/-- the maximal digit run after the non-digit run -/
def dgRun (s : Str) : Str := (ndRest s).takeWhile isAsciiDigit
/-- what is left after one round -/
def dgRest (s : Str) : Str := (ndRest s).dropWhile isAsciiDigit
/-- the first chunk; of the empty string: the pad chunk `("", "")` -/
def hdChunk (s : Str) : Chunk := (ndRun s, dgRun s)

theorem hdChunk_nil : hdChunk [] = ([], []) := rfl
theorem dgRest_nil : dgRest [] = [] := rfl

theorem ndRest_eq (s : Str) : ndRest s = dgRun s ++ dgRest s := by
  simp [dgRun, dgRest, List.takeWhile_append_dropWhile]

theorem eq_ndRun_append (s : Str) : s = ndRun s ++ (dgRun s ++ dgRest s) := by
  rw [← ndRest_eq]; simp [ndRun, ndRest, List.takeWhile_append_dropWhile]

theorem mem_takeWhile_imp' {α} {p : α → Bool} {l : List α} {x : α} (h : x ∈ l.takeWhile p) : p x = true := by
  induction l with
  | nil => simp at h
  | cons a as ih =>
    by_cases ha : p a = true
    · rw [List.takeWhile_cons_of_pos ha] at h
      rcases List.mem_cons.1 h with rfl | h
      · exact ha
      · exact ih h
    · rw [List.takeWhile_cons_of_neg ha] at h; simp at h

theorem ndRun_all (s : Str) : ∀ c ∈ ndRun s, isAsciiDigit c = false := by
  intro c hc
  have := mem_takeWhile_imp' hc
  simpa [nonDig] using this

theorem dgRun_all (s : Str) : ∀ c ∈ dgRun s, isAsciiDigit c = true := fun _ hc =>
  mem_takeWhile_imp' hc

/-- what a `dropWhile p` leaves does not start with a `p` -/
theorem head_dropWhile_not {α} (p : α → Bool) (l : List α) :
    ∀ c r, l.dropWhile p = c :: r → p c = false := by
  induction l with
  | nil => intro c r h; simp at h
  | cons x xs ih =>
    intro c r h
    by_cases hx : p x = true
    · rw [List.dropWhile_cons_of_pos hx] at h; exact ih c r h
    · rw [List.dropWhile_cons_of_neg hx] at h
      simp only [List.cons.injEq] at h
      obtain ⟨rfl, _⟩ := h
      simpa using hx

/-- the rest of a round does not start with a digit -/
theorem dgRest_head (s : Str) : ∀ c r, dgRest s = c :: r → isAsciiDigit c = false :=
  head_dropWhile_not _ _

/-- what follows the non-digit run does not start with a non-digit -/
theorem ndRest_head (s : Str) : ∀ c r, ndRest s = c :: r → isAsciiDigit c = true := by
  intro c r h
  have := head_dropWhile_not _ _ c r h
  simpa [nonDig] using this

theorem length_dropWhile_le' {α} (p : α → Bool) (l : List α) : (l.dropWhile p).length ≤ l.length :=
  (List.dropWhile_sublist p).length_le

theorem dgRest_length_le (s : Str) : (dgRest s).length ≤ s.length :=
  Nat.le_trans (length_dropWhile_le' _ _) (length_dropWhile_le' _ _)

/-- a round on a non-empty string consumes at least one character -/
theorem dgRest_length_lt {s : Str} (h : s ≠ []) : (dgRest s).length < s.length := by
  cases s with
  | nil => exact absurd rfl h
  | cons c cs =>
    by_cases hc : isAsciiDigit c = true
    · have h1 : ndRest (c :: cs) = c :: cs := by simp [ndRest, nonDig, hc]
      have h2 : dgRest (c :: cs) = cs.dropWhile isAsciiDigit := by
        simp [dgRest, h1, hc]
      rw [h2]
      have := length_dropWhile_le' isAsciiDigit cs
      simp; omega
    · have h1 : ndRest (c :: cs) = ndRest cs := by simp [ndRest, nonDig, hc]
      have h2 : dgRest (c :: cs) = dgRest cs := by simp [dgRest, h1]
      rw [h2]
      have := dgRest_length_le cs
      simp; omega

/-- **`chunks` from the left**: first chunk = (maximal non-digit run, maximal digit run after it) -/
theorem chunks_cons (c : Char) (cs : Str) :
    chunks (c :: cs) = hdChunk (c :: cs) :: chunks (dgRest (c :: cs)) := by
  induction cs generalizing c with
  | nil =>
    by_cases hc : isAsciiDigit c = true
    · simp [chunks, hdChunk, ndRun, dgRun, dgRest, ndRest, nonDig, hc]
    · simp [chunks, hdChunk, ndRun, dgRun, dgRest, ndRest, nonDig, hc]
  | cons d ds ih =>
    have ihd := ih d
    rw [chunks, ihd]
    by_cases hc : isAsciiDigit c = true
    · by_cases hd : isAsciiDigit d = true
      · simp [hdChunk, ndRun, dgRun, dgRest, ndRest, nonDig, hc, hd]
      · have e : chunks (d :: ds) = hdChunk (d :: ds) :: chunks (dgRest (d :: ds)) := ihd
        simp only [hdChunk, ndRun, dgRun, dgRest, ndRest, nonDig, hc, hd, if_true, Bool.not_true,
          Bool.not_false, List.takeWhile_cons_of_pos, List.dropWhile_cons_of_pos,
          Bool.false_eq_true, not_false_eq_true, List.takeWhile_cons_of_neg,
          List.dropWhile_cons_of_neg, List.isEmpty_cons, if_false] at e ⊢
        rw [e]
    · simp [hdChunk, ndRun, dgRun, dgRest, ndRest, nonDig, hc]

theorem chunks_nil : chunks [] = [] := rfl

/-! ### one round of the comparison -/

/-- `version_cmp_part`, one round: compare the first chunks (an exhausted string supplies
    `("", "")`), then go on with what the round leaves -/
theorem cmpPart_unfold (a b : Str) (h : ¬(a = [] ∧ b = [])) :
    cmpPart a b = (chunkCmp (hdChunk a) (hdChunk b)).then (cmpPart (dgRest a) (dgRest b)) := by
  unfold cmpPart
  cases a with
  | nil =>
    cases b with
    | nil => exact absurd ⟨rfl, rfl⟩ h
    | cons y ys =>
      rw [chunks_cons y ys]
      simp [chunks_nil, dgRest_nil, hdChunk_nil, lexPad, lexPadNil]
  | cons x xs =>
    cases b with
    | nil =>
      rw [chunks_cons x xs]
      simp [chunks_nil, dgRest_nil, hdChunk_nil, lexPad]
    | cons y ys =>
      rw [chunks_cons x xs, chunks_cons y ys]
      simp [lexPad]

theorem cmpPart_nil : cmpPart [] [] = .eq := by
  simp [cmpPart, chunks_nil, lexPad, lexPadNil]

/-- the same for the form with the `parse::<i32>().unwrap()` panic -/
theorem cmpPartO_unfold (a b : Str) (h : ¬(a = [] ∧ b = [])) :
    cmpPartO a b =
      match chunkCmpO (hdChunk a) (hdChunk b) with
      | .ok .eq => cmpPartO (dgRest a) (dgRest b)
      | r => r := by
  unfold cmpPartO
  cases a with
  | nil =>
    cases b with
    | nil => exact absurd ⟨rfl, rfl⟩ h
    | cons y ys =>
      rw [chunks_cons y ys]
      simp only [chunks_nil, dgRest_nil, hdChunk_nil, lexPadO, lexPadNilO]
      cases chunkCmpO ([], []) (hdChunk (y :: ys)) with
      | panic s => rfl
      | ok o => cases o <;> rfl
  | cons x xs =>
    cases b with
    | nil =>
      rw [chunks_cons x xs]
      simp only [chunks_nil, dgRest_nil, hdChunk_nil, lexPadO]
      cases chunkCmpO (hdChunk (x :: xs)) ([], []) with
      | panic s => rfl
      | ok o => cases o <;> rfl
    | cons y ys =>
      rw [chunks_cons x xs, chunks_cons y ys]
      simp only [lexPadO]
      cases chunkCmpO (hdChunk (x :: xs)) (hdChunk (y :: ys)) with
      | panic s => rfl
      | ok o => cases o <;> rfl

theorem cmpPartO_nil : cmpPartO [] [] = .ok .eq := by
  simp [cmpPartO, chunks_nil, lexPadO, lexPadNilO]

/-! ### the value of a digit run -/

/-- the digit a character stands for -/
def dig (c : Char) : Nat := c.toNat - 48

theorem digitsVal_foldl (ds : Str) (acc : Nat) :
    ds.foldl (fun acc c => acc * 10 + (c.toNat - 48)) acc = acc * 10 ^ ds.length + digitsVal ds := by
  unfold digitsVal
  induction ds generalizing acc with
  | nil => simp
  | cons c cs ih =>
    simp only [List.foldl_cons, List.length_cons]
    rw [ih (acc * 10 + (c.toNat - 48)), ih (0 * 10 + (c.toNat - 48))]
    rw [Nat.pow_succ, Nat.add_mul, Nat.add_mul, Nat.mul_assoc, Nat.mul_comm 10 (10 ^ cs.length)]
    simp [Nat.add_assoc]

theorem digitsVal_nil : digitsVal [] = 0 := rfl

theorem digitsVal_cons (c : Char) (cs : Str) :
    digitsVal (c :: cs) = dig c * 10 ^ cs.length + digitsVal cs := by
  have := digitsVal_foldl cs (0 * 10 + (c.toNat - 48))
  simp only [digitsVal, List.foldl_cons] at this ⊢
  rw [this]; simp [dig, digitsVal]

theorem dig_le {c : Char} (h : isAsciiDigit c = true) : dig c ≤ 9 := by
  simp only [isAsciiDigit, Bool.and_eq_true, decide_eq_true_eq] at h
  unfold dig; omega

theorem digitsVal_lt (ds : Str) (h : ∀ c ∈ ds, isAsciiDigit c = true) : digitsVal ds < 10 ^ ds.length := by
  induction ds with
  | nil => simp [digitsVal]
  | cons c cs ih =>
    rw [digitsVal_cons]
    have h1 := dig_le (h c (by simp))
    have h2 := ih fun x hx => h x (by simp [hx])
    simp only [List.length_cons, Nat.pow_succ]
    have h3 : dig c * 10 ^ cs.length ≤ 9 * 10 ^ cs.length := Nat.mul_le_mul_right _ h1
    omega

/-- `*a == '0'` -/
def isZero (c : Char) : Bool := c == '0'

/-- leading zeros do not count -/
theorem digitsVal_dropZeros (ds : Str) : digitsVal (ds.dropWhile isZero) = digitsVal ds := by
  induction ds with
  | nil => rfl
  | cons c cs ih =>
    by_cases hc : isZero c = true
    · rw [List.dropWhile_cons_of_pos hc, ih, digitsVal_cons]
      have : c = '0' := by simpa [isZero] using hc
      subst this
      simp [dig]
    · rw [List.dropWhile_cons_of_neg hc]

/-- a digit run without leading zero is at least `10 ^ (length - 1)` -/
theorem digitsVal_ge (c : Char) (cs : Str) (hc : isAsciiDigit c = true) (h0 : c ≠ '0') :
    10 ^ cs.length ≤ digitsVal (c :: cs) := by
  rw [digitsVal_cons]
  have : 1 ≤ dig c := by
    simp only [isAsciiDigit, Bool.and_eq_true, decide_eq_true_eq] at hc
    have hne : c.toNat ≠ 48 := by
      intro e
      apply h0
      have e' : c.val.toNat = ('0' : Char).val.toNat := e
      exact Char.ext (UInt32.toNat_inj.1 e')
    unfold dig; omega
  have := Nat.mul_le_mul_right (10 ^ cs.length) this
  omega

/-- two-digit-block comparison: the high parts decide unless they are equal -/
theorem natCmp_block (p q u v N : Nat) (hu : u < N) (hv : v < N) :
    natCmp (p * N + u) (q * N + v) = (natCmp p q).then (natCmp u v) := by
  unfold natCmp
  by_cases h1 : p < q
  · have : (p + 1) * N ≤ q * N := Nat.mul_le_mul_right N h1
    rw [Nat.add_mul] at this
    have h2 : p * N + u < q * N + v := by omega
    simp [h1, h2, Ordering.then]
  · by_cases h2 : p = q
    · subst h2
      simp only [Nat.lt_irrefl, if_false, if_true, Ordering.then]
      by_cases h3 : u < v
      · simp [h3]
      · by_cases h4 : u = v
        · simp [h4]
        · have : ¬ (p * N + u < p * N + v) := by omega
          have h5 : ¬ (p * N + u = p * N + v) := by omega
          simp [h3, h4]
    · have hq : q < p := by omega
      have : (q + 1) * N ≤ p * N := Nat.mul_le_mul_right N hq
      rw [Nat.add_mul] at this
      have h3 : ¬ (p * N + u < q * N + v) := by omega
      have h4 : ¬ (p * N + u = q * N + v) := by omega
      simp [h1, h2, h3, h4, Ordering.then]

end Deb822Verif.DebVersion
