import Deb822Verif.Lemmas.DebWrapFmt
/-!
  Idempotence on the formatter path, entry level, for a formatter whose output is a single line that
  it maps to itself (also with one space in front): the reformatted field is a fixed point.
-/
namespace Deb822Verif.Deb
open Deb822Verif Node Spec

/-- how to compute `entryWrap` with a formatter (converse of `entryWrap_fmt_cases`) -/
theorem entryWrap_fmt_intro (cfg : WrapCfg) (f : Str → Str → Str) (e : DNode) (k arg : Str)
    (hbad : ewBadKinds e.children = false) (hind : ewIndent cfg e.children ≠ 0)
    (hk : entryKey e = some k) (harg : Ctl.fmtArg e = some arg) :
    entryWrap cfg (some f) e = some (.node .ENTRY (e.children.filterMap headOf ++
      rebuildValue (fmtToks (f k arg)) (utf8Len k) (ewIndent cfg e.children)
        cfg.immediateEmptyLine cfg.maxLineLengthOneLiner)) := by
  unfold entryWrap
  rw [hbad, ewTokens_fmt, harg]
  simp only [Bool.false_eq_true, ↓reduceIte, hind, hk, Option.map_some, ewKeyLen]

theorem takeWhile_headFails {α} (p : α → Bool) (l : List α) (h : HeadFails p l) : l.takeWhile p = [] := by
  cases l with
  | nil => rfl
  | cons a r => simp [List.takeWhile_cons, h a rfl]

theorem dropWhile_headFails {α} (p : α → Bool) (l : List α) (h : HeadFails p l) : l.dropWhile p = l := by
  cases l with
  | nil => rfl
  | cons a r => simp [List.dropWhile_cons, h a rfl]

/-- the tokens of a single-line formatter output that does not start with a space -/
theorem fmtToks_line (out : Str) (hn : NoNl out) (hh : HeadFails isIndent out) :
    fmtToks out = optTok .VALUE out := by
  unfold fmtToks
  rw [Text.splitOn_none _ _ (nl_notin_of_nonl out hn)]
  simp only [lexLines]
  rw [lexInline_line out hn]
  unfold lineToks
  rw [takeWhile_headFails _ _ hh, dropWhile_headFails _ _ hh]
  simp [optTok]

theorem optV_noTrail (out : Str) : NoTrail (optTok .VALUE out) := by
  unfold optTok
  split
  · intro t ht; simp at ht
  · intro t ht
    simp only [List.getLast?_singleton, Option.some.injEq] at ht
    subst ht; rfl

/-- `rebuild_value` of a single VALUE token (or nothing): on the line of the field name -/
theorem rebuildValue_line (out : Str) (kl ind : Nat) (imm : Bool) (mx : Option Nat) :
    rebuildValue (optTok .VALUE out) kl ind imm mx =
      if rbFits (optTok .VALUE out) kl mx then (optTok .VALUE out).map tk ++ [Node.tok .NEWLINE ['\n']]
      else Node.tok .WHITESPACE [' '] :: ((optTok .VALUE out).map tk ++ [Node.tok .NEWLINE ['\n']]) := by
  have hnl : rbHasNewline (optTok .VALUE out) = false := by
    unfold optTok; split <;> simp [rbHasNewline]
  have hcm : rbFirstIsComment (optTok .VALUE out) = false := by
    unfold optTok; split <;> simp [rbFirstIsComment]
  have hst : rbStrip (optTok .VALUE out) = optTok .VALUE out := by
    unfold optTok; split
    · rfl
    · exact rbStrip_cons_neg _ _ (by rfl)
  have hflag : (rbGo ind (optTok .VALUE out) false).2 = false := by
    unfold optTok; split <;> simp [rbGo]
  unfold rebuildValue
  rw [hnl, hcm, hst, go_noNewline ind _ hnl, hflag]
  simp [rbClose]

theorem valueToks_content (out : Str) : ContentToks (optTok .VALUE out) := by
  intro t ht
  rw [mem_optTok ht]; rfl

/-- **formatter path, entry-level fixed point.** If the formatter's output `out = f k arg` is a
    single line (no CR / LF) that does not start with a space or tab, and the formatter maps `out`
    to itself, also with one space in front (`": "` + value is how the reformatted field is written),
    then reformatting the reformatted field changes nothing. -/
theorem entryWrap_fmt_line_fixed (cfg : WrapCfg) (f : Str → Str → Str) (e e' : DNode) (k arg : Str)
    (hk : entryKey e = some k) (harg : Ctl.fmtArg e = some arg)
    (hn : NoNl (f k arg)) (hh : HeadFails isIndent (f k arg))
    (hst1 : f k (f k arg) = f k arg) (hst2 : f k arg ≠ [] → f k (' ' :: f k arg) = f k arg)
    (h : entryWrap cfg (some f) e = some e') :
    entryWrap cfg (some f) e' = some e' := by
  have hcr : '\r' ∉ f k arg := by
    intro hm; have := hn '\r' hm; simp [isNewline] at this
  obtain ⟨hkey', hheads', _, _⟩ := entryWrap_fmt cfg f e e' k arg hk harg hcr h
  rcases entryWrap_fmt_cases cfg f e e' h with ⟨h0, _⟩ | ⟨k', arg', hk', harg', he'⟩
  · rw [harg] at h0; cases h0
  rw [hk] at hk'; rw [harg] at harg'
  cases hk'; cases harg'
  -- the first call succeeded: no bad kinds, positive indentation
  have hfirst : ewBadKinds e.children = false ∧ ewIndent cfg e.children ≠ 0 := by
    unfold entryWrap at h
    split at h
    · cases h
    · rename_i hb
      split at h
      · cases h
      · rename_i hi
        exact ⟨by simpa using hb, hi⟩
  generalize hout : f k arg = out at *
  rw [fmtToks_line out hn hh] at he'
  obtain ⟨T, hT⟩ : ∃ T, T = optTok Kind.VALUE out := ⟨_, rfl⟩
  rw [← hT] at he'
  have hTkinds : ∀ t ∈ T, t.1 = .VALUE := fun t ht => by rw [hT] at ht; rw [mem_optTok ht]
  have hch : e'.children = e.children.filterMap headOf ++
      rebuildValue T (utf8Len k) (ewIndent cfg e.children) cfg.immediateEmptyLine cfg.maxLineLengthOneLiner := by
    rw [he']; rfl
  have hnokey : ∀ t ∈ T, t.1 ≠ .KEY := fun t ht hkk => by rw [hTkinds t ht] at hkk; cases hkk
  have hkeyfind : e'.children.find? (isTokOf .KEY) = e.children.find? (isTokOf .KEY) := by
    rw [hch, List.find?_append, heads_key, rebuildValue_no_key _ _ _ _ _ hnokey, Option.or_none]
  have hind' : ewIndent cfg e'.children = ewIndent cfg e.children := by
    unfold ewIndent; rw [hkeyfind]
  have hbad' : ewBadKinds e'.children = false := by
    rw [hch]
    unfold ewBadKinds
    apply Bool.eq_false_iff.2
    intro hany
    simp only [List.any_eq_true, List.mem_append] at hany
    obtain ⟨c, hc, hkk⟩ := hany
    rcases hc with hc | hc
    · simp only [List.mem_filterMap] at hc
      obtain ⟨c0, _, hc0⟩ := hc
      rcases (headOf_fixed c0 c hc0).2.2.2 with hk'' | hk'' <;> simp [hk''] at hkk
    · rcases rebuildValue_mem _ _ _ _ _ c hc with rfl | rfl | rfl | ⟨t, ht, rfl⟩
      · simp [Node.kind] at hkk
      · simp [Node.kind] at hkk
      · simp [Node.kind] at hkk
      · simp [Node.kind, hTkinds t ht] at hkk
  -- the raw text of the result
  have hnlq : nlwsN (Node.tok Kind.NEWLINE ['\n']) = true := rfl
  have hargs : ∃ a, Ctl.fmtArg e' = some a ∧ f k a = out := by
    have hcont : ∀ R : List DNode, ewContent (e.children.filterMap headOf ++ R)
        = dropTrailing nlwsN (R.filter contentKinds) := by
      intro R
      simp only [ewContent, List.filter_append, heads_content, List.nil_append]
    have hTf : (T.map tk).filter contentKinds = T.map tk := map_tk_filter T (by rw [hT]; exact valueToks_content out)
    have hnoce : ∀ ts : List Tok, (∀ t ∈ ts, t.1 = .VALUE ∨ t.1 = .WHITESPACE) →
        ((ts.map tk).any fun c => c.kind == .ERROR || c.kind == .COMMENT) = false := by
      intro ts hts
      apply List.any_eq_false.2
      intro c hc
      simp only [List.mem_map] at hc
      obtain ⟨t, ht, rfl⟩ := hc
      rcases hts t ht with h1 | h1 <;> simp [Node.kind, h1]
    unfold Ctl.fmtArg
    rw [hch, hT, rebuildValue_line, ← hT]
    by_cases hfit : rbFits T (utf8Len k) cfg.maxLineLengthOneLiner = true
    · rw [if_pos hfit, hcont]
      rw [List.filter_append, hTf, show [Node.tok Kind.NEWLINE ['\n']].filter contentKinds
          = [Node.tok Kind.NEWLINE ['\n']] from rfl, dropTrailing_concat_pos _ _ _ hnlq,
        dropTrailing_map_tk T (by rw [hT]; exact optV_noTrail out)]
      rw [hnoce T (fun t ht => Or.inl (hTkinds t ht))]
      refine ⟨_, rfl, ?_⟩
      rw [texts_map_tk _ (fun t => rfl)]
      have : tokText T = out := by
        rw [hT]; unfold optTok; split <;> simp_all
      rw [this]; exact hst1
    · rw [if_neg hfit, hcont]
      have e1 : (Node.tok Kind.WHITESPACE [' '] :: (T.map tk ++ [Node.tok Kind.NEWLINE ['\n']])).filter contentKinds
          = (((Kind.WHITESPACE, [' ']) :: T).map tk) ++ [Node.tok Kind.NEWLINE ['\n']] := by
        rw [show Node.tok Kind.WHITESPACE [' '] :: (T.map tk ++ [Node.tok Kind.NEWLINE ['\n']])
            = [Node.tok Kind.WHITESPACE [' ']] ++ (T.map tk ++ [Node.tok Kind.NEWLINE ['\n']]) from rfl,
          List.filter_append, List.filter_append, hTf]
        rfl
      rw [e1, dropTrailing_concat_pos _ _ _ hnlq]
      by_cases hempty : out = []
      · have hTnil : T = [] := by simp [hT, optTok, hempty]
        rw [hTnil]
        refine ⟨[], ?_, ?_⟩
        · simp [dropTrailing, Node.kind]
        · have := hst1
          rw [hempty] at this ⊢
          exact this
      · have hTone : T = [(.VALUE, out)] := by simp [hT, optTok, hempty]
        rw [hTone, dropTrailing_map_tk _ (noTrail_cons _ _ (by simp) (by
          intro t ht; simp only [List.getLast?_singleton, Option.some.injEq] at ht; subst ht; rfl))]
        rw [hnoce _ (by
          intro t ht
          simp only [List.mem_cons, List.not_mem_nil, or_false] at ht
          rcases ht with rfl | rfl
          · exact Or.inr rfl
          · exact Or.inl rfl)]
        refine ⟨_, rfl, ?_⟩
        rw [texts_map_tk _ (fun t => rfl)]
        simp only [tokText_cons, tokText_nil, List.append_nil, List.singleton_append]
        exact hst2 hempty
  obtain ⟨a, ha, hfa⟩ := hargs
  have hres := entryWrap_fmt_intro cfg f e' k a hbad' (by rw [hind']; exact hfirst.2) hkey' ha
  rw [hres, hheads', hind', hfa, fmtToks_line out hn hh, he', hT]

end Deb822Verif.Deb
