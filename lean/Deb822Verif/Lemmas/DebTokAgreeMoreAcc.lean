import Deb822Verif.Lemmas.DebTokAgree
import Deb822Verif.Lemmas.DebTokAgreeMoreLex
/-!
  Acceptance containment, token level (property C06): on a token list with the lexer invariants
  `Lx .NEWLINE` (Lemmas/DebLexInv.lean) and `Lx2 .KEY` (Lemmas/DebTokAgreeMoreLex.lean), whatever
  the lossy reader accepts the lossless parser parses without an error.

  Same lock-step structure as `Lemmas/DebTokAgree.lean`: `cont_ok` (continuation lines),
  `entry_ok` (one field), `acc_aux` (the two main loops, "between paragraphs" / "inside a paragraph").
-/
namespace Deb822Verif.Deb
open Deb822Verif Node Lossy

theorem afterNl_leaves (ts : List Tok) : leavesList (afterNl ts).nodes ++ (afterNl ts).rest = ts := by
  cases ts with
  | nil => simp [afterNl]
  | cons i r3 =>
    simp only [afterNl]
    split
    · simp only [leavesList_cons, leavesList_append, List.append_assoc, leaves_tok]
      rw [entryLines_leaves, skipWs_leaves]; simp
    · simp

/-- continuation lines: what the lossy `contLines` accepts the parser's `afterNl` takes without error -/
theorem cont_ok : ∀ (n : Nat) (ts3 : List Tok), ts3.length < n → ∀ (acc v2 : Str) (ts4 : List Tok),
    Lx .NEWLINE ts3 → Lx2 .KEY ts3 →
    contLines acc ts3 = .ok (v2, ts4) → (afterNl ts3).errs = [] := by
  intro n
  induction n with
  | zero => intro ts3 h; omega
  | succ n ih =>
    intro ts3 hlen acc v2 ts4 hl hl2 h
    cases ts3 with
    | nil => simp [afterNl]
    | cons i r3 =>
      obtain ⟨ki, si⟩ := i
      by_cases hi : ki = .INDENT
      · subst hi
        cases hc : contLine acc r3 with
        | error e => rw [contLines_indent_err _ _ _ _ hc] at h; simp at h
        | ok pr =>
          obtain ⟨acc', rest1⟩ := pr
          rw [contLines_indent _ _ _ _ _ hc] at h
          obtain ⟨cs, tail, hr, hcs, hcase⟩ := contLine_shape r3 acc acc' rest1 (Lx_tail hl) hc
          subst hr
          have hltail : Lx .KEY tail := Lx_append_right cs tail (Lx_tail hl)
          rcases hcase with ⟨rfl, rfl, rfl⟩ | ⟨nl, hn, rfl, rfl⟩ | ⟨x, rfl, rfl, rfl⟩ |
            ⟨x, nl, hn, rfl, rfl⟩ | ⟨t, r, ht, rfl⟩
          · have ha := afterNl_indent si cs [] hcs (headNot_nil _)
            rw [entryLines_nil] at ha
            rw [ha]
          · have ha := afterNl_indent si cs (nl :: rest1) hcs (headNot_cons _ _ _ (by simp [hn]))
            rw [entryLines_nl nl rest1 hn] at ha
            rw [ha]; simp only []
            have hl2' : Lx2 .KEY rest1 := by
              have : (Kind.INDENT, si) :: (cs ++ nl :: rest1) = ((Kind.INDENT, si) :: (cs ++ [nl])) ++ rest1 := by
                simp
              rw [this] at hl2
              exact Lx2_append_right _ _ hl2
            exact ih rest1 (by simp at hlen ⊢; omega) (acc ++ ['\n']) v2 ts4
              (Lx_after_nl hltail hn) hl2' h
          · have ha := afterNl_indent si cs [(.VALUE, x)] hcs (headNot_cons _ _ _ (by simp))
            rw [entryLines_value] at ha
            rw [ha]
          · have ha := afterNl_indent si cs ((.VALUE, x) :: nl :: rest1) hcs
              (headNot_cons _ _ _ (by simp))
            rw [entryLines_value_nl x nl rest1 hn] at ha
            rw [ha]; simp only []
            have hl2' : Lx2 .KEY rest1 := by
              have : (Kind.INDENT, si) :: (cs ++ (Kind.VALUE, x) :: nl :: rest1)
                  = ((Kind.INDENT, si) :: (cs ++ [(Kind.VALUE, x), nl])) ++ rest1 := by
                simp
              rw [this] at hl2
              exact Lx2_append_right _ _ hl2
            exact ih rest1 (by simp at hlen ⊢; omega) (acc ++ x ++ ['\n']) v2 ts4
              (Lx_after_nl (Lx_tail hltail) hn) hl2' h
          · -- INDENT COMMENT* KEY does not occur in a lexer output
            exact absurd ht (Lx2_indent_comments (.INDENT, si) cs t r rfl hcs hl2)
      · simp [afterNl, hi]

/-- **one field**: what the lossy reader reads after `KEY` the parser builds without an error -/
theorem entry_ok {p : Kind} (k : Str) (ts' : List Tok) (v : Str) (rest : List Tok)
    (hl : Lx p ts') (hl2 : Lx2 .KEY ts') (hf : fieldValue ts' = .ok (v, rest)) :
    (entryBody ((.KEY, k) :: ts')).errs = [] := by
  cases ts' with
  | nil => simp [fieldValue] at hf
  | cons c ts1 =>
    obtain ⟨kc, sc⟩ := c
    simp only [fieldValue] at hf
    split at hf
    · rename_i hk
      subst hk
      split at hf
      · simp at hf
      · rename_i v1 ts3 h1
        split at hf
        · simp at hf
        · rename_i v2 ts4 h2
          have hl2d : Lx .KEY (ts1.dropWhile fun t => t.1 = .WHITESPACE) :=
            Lx_dropWhile _ _ (Lx_tail hl)
          obtain ⟨ns, hel, hnb1, hlf1, hcr1, hl3, hhead⟩ := first_agree _ v1 ts3 hl2d h1
          obtain ⟨ws, hsk, hws⟩ := skipWs_dropWs ts1 hhead
          have hkp : keyPart ((.KEY, k) :: (.COLON, sc) :: ts1)
              = ⟨[tk (.KEY, k)], [], (.COLON, sc) :: ts1⟩ := by
            simp [keyPart, skipWs]
          have hcp : colonPart ((.COLON, sc) :: ts1)
              = ⟨tk (.COLON, sc) :: ws, [], ts1.dropWhile fun t => t.1 = .WHITESPACE⟩ := by
            simp [colonPart, hsk]
          have heb : (entryBody ((.KEY, k) :: (.COLON, sc) :: ts1)).errs = (afterNl ts3).errs := by
            simp only [entryBody, hkp, hcp, hel]
            simp
          rw [heb]
          -- `ts3` is a suffix of `ts1`
          have hsuf : ∃ pre, ts1 = pre ++ ts3 := by
            have e1 := skipWs_leaves ts1
            have e2 := entryLines_leaves (ts1.dropWhile fun t => t.1 = .WHITESPACE)
            rw [hsk] at e1
            rw [hel] at e2
            simp only [leavesList_append, List.append_assoc] at e1 e2
            have e3 := afterNl_leaves ts3
            refine ⟨leavesList ws ++ leavesList ns, ?_⟩
            rw [← e1, ← e2, e3]; simp
          obtain ⟨pre, hpre⟩ := hsuf
          have hl23 : Lx2 .KEY ts3 := by
            have : (Kind.COLON, sc) :: ts1 = ((Kind.COLON, sc) :: pre) ++ ts3 := by simp [hpre]
            rw [this] at hl2
            exact Lx2_append_right _ _ hl2
          exact cont_ok (ts3.length + 1) ts3 (by omega) (v1 ++ ['\n']) v2 ts4 hl3 hl23 h2
    · simp at hf

/-- the remaining tokens of a parser fragment are a suffix of its input -/
theorem suffix_of_leaves {nodes : List DNode} {rest ts : List Tok} (h : leavesList nodes ++ rest = ts) :
    ∃ pre, ts = pre ++ rest := ⟨leavesList nodes, h.symm⟩

theorem Lx2_of_suffix {ts rest : List Tok} (h : Lx2 .KEY ts) (hs : ∃ pre, ts = pre ++ rest) : Lx2 .KEY rest := by
  obtain ⟨pre, rfl⟩ := hs
  exact Lx2_append_right _ _ h

/-- a KEY token: the lossy reader reads one field, the parser builds the entry without error,
    both carry on at the same token -/
theorem key_step_ok {p : Kind} (k : Str) (ts' : List Tok) (paras : Doc) (cur : Para) (d : Doc)
    (hl : Lx p ((.KEY, k) :: ts')) (hl2 : Lx2 .KEY ((.KEY, k) :: ts'))
    (h : loop paras cur ((.KEY, k) :: ts') = .ok d) :
    ∃ v rest, loop paras (cur ++ [(k, v)]) rest = .ok d ∧
      (paraLoop ((.KEY, k) :: ts')).errs = (paraLoop rest).errs ∧
      (paraLoop ((.KEY, k) :: ts')).rest = (paraLoop rest).rest ∧
      Lx .NEWLINE rest ∧ Lx2 .KEY rest ∧ rest.length < ts'.length + 1 := by
  cases hf : fieldValue ts' with
  | error e => rw [loop_key_err _ _ _ _ _ hf] at h; simp at h
  | ok pr =>
    obtain ⟨v, rest⟩ := pr
    rw [loop_key _ _ _ _ _ _ hf] at h
    have hstep := paraLoop_step (.KEY, k) ts' (by simp)
    rw [parseEntry_key _ _ rfl] at hstep
    have he := entry_ok k ts' v rest (Lx_tail hl) (Lx2_weaken (Lx2_tail hl2)) hf
    obtain ⟨cs, h1, h2, h3, h4⟩ := entry_agree k ts' v rest (Lx_tail hl) hf he
    have hsuf : ∃ pre, (Kind.KEY, k) :: ts' = pre ++ rest := by
      have := suffix_of_leaves (entryBody_leaves ((.KEY, k) :: ts'))
      rwa [h2] at this
    refine ⟨v, rest, h, ?_, ?_, h3, Lx2_of_suffix hl2 hsuf, ?_⟩
    · rw [hstep, h2, he]; simp
    · rw [hstep, h2]
    · have := fieldValue_len _ _ _ hf; omega

/-- between paragraphs -/
def AccRoot (ts : List Tok) : Prop :=
  ∀ (paras : Doc) (cur : Para) (d : Doc), Lx .NEWLINE ts → Lx2 .KEY ts → loop paras cur ts = .ok d →
    (rootLoop ts).errs = []

/-- inside a paragraph -/
def AccPara (ts : List Tok) : Prop :=
  ∀ (paras : Doc) (cur : Para) (d : Doc), Lx .NEWLINE ts → Lx2 .KEY ts → loop paras cur ts = .ok d →
    (paraLoop ts).errs = [] ∧ (rootLoop (paraLoop ts).rest).errs = []

theorem acc_aux : ∀ n : Nat,
    (∀ ts : List Tok, ts.length < n → AccRoot ts) ∧ (∀ ts : List Tok, ts.length < n → AccPara ts) := by
  intro n
  induction n with
  | zero => exact ⟨fun ts h => by omega, fun ts h => by omega⟩
  | succ n ih =>
    obtain ⟨ihR, ihP⟩ := ih
    constructor
    · intro ts hlen paras cur d hl hl2 h
      cases ts with
      | nil => rw [rootLoop_nil]
      | cons t ts' =>
        obtain ⟨k, s⟩ := t
        simp only [List.length_cons] at hlen
        cases k with
        | NEWLINE =>
          rw [loop_newline] at h
          have hb := rootLoop_blank (.NEWLINE, s) ts' rfl
          have hu : untilNl ((.NEWLINE, s) :: ts') = ([tk (.NEWLINE, s)], ts') := by simp [untilNl]
          rw [hu] at hb
          rw [hb]
          exact ihR ts' (by omega) _ _ d (Lx_after_nl hl rfl) (Lx2_weaken (Lx2_tail hl2)) h
        | COMMENT =>
          rw [loop_comment] at h
          have hb := rootLoop_blank (.COMMENT, s) ts' rfl
          have hu : (untilNl ((.COMMENT, s) :: ts')).2 = skipComment ts' := by
            rw [← untilNl_snd ts']; simp [untilNl]
          rw [hu] at hb
          rw [hb]
          have hlen' := skipComment_len ts'
          have hsuf : ∃ pre, (Kind.COMMENT, s) :: ts' = pre ++ skipComment ts' := by
            have := suffix_of_leaves (untilNl_leaves ((.COMMENT, s) :: ts'))
            rwa [hu] at this
          exact ihR (skipComment ts') (by omega) paras cur d (Lx_skipComment ts' (Lx_tail hl))
            (Lx2_of_suffix hl2 hsuf) h
        | WHITESPACE => exact absurd rfl (Lx_linestart_not_ws hl)
        | KEY =>
          have hb := rootLoop_start (.KEY, s) ts' rfl
          rw [hb]
          obtain ⟨v, rest, hloop, he, hr, hlr, hlr2, hlen'⟩ := key_step_ok s ts' paras cur d hl hl2 h
          have := ihP rest (by omega) paras (cur ++ [(s, v)]) d hlr hlr2 hloop
          simp only []
          rw [he, hr, this.1, this.2]; rfl
        | _ => rw [loop] at h; simp at h
    · intro ts hlen paras cur d hl hl2 h
      cases ts with
      | nil => rw [paraLoop_nil]; simp only []; rw [rootLoop_nil]; simp
      | cons t ts' =>
        obtain ⟨k, s⟩ := t
        simp only [List.length_cons] at hlen
        cases k with
        | NEWLINE =>
          rw [paraLoop_newline _ _ rfl]
          simp only []
          refine ⟨trivial, ?_⟩
          rw [loop_newline] at h
          have hb := rootLoop_blank (.NEWLINE, s) ts' rfl
          have hu : untilNl ((.NEWLINE, s) :: ts') = ([tk (.NEWLINE, s)], ts') := by simp [untilNl]
          rw [hu] at hb
          rw [hb]
          exact ihR ts' (by omega) _ _ d (Lx_after_nl hl rfl) (Lx2_weaken (Lx2_tail hl2)) h
        | COMMENT =>
          rw [loop_comment] at h
          cases ts' with
          | nil =>
            have hp : paraLoop [(.COMMENT, s)] = ⟨[tk (.COMMENT, s)], [], []⟩ := by
              rw [paraLoop_step _ _ (by simp), parseEntry_comment_eof]; simp [paraLoop_nil]
            rw [hp]; simp only []; rw [rootLoop_nil]; simp
          | cons nt ts'' =>
            obtain ⟨kn, sn⟩ := nt
            have hn : kn = .NEWLINE := Lx2_after_comment hl2 rfl
            subst hn
            simp only [skipComment, if_true] at h
            rw [paraLoop_comment]
            simp only []
            simp only [List.length_cons] at hlen
            have hl2' : Lx2 .KEY ts'' := Lx2_weaken (Lx2_tail (Lx2_tail hl2))
            exact ihP ts'' (by omega) paras cur d (Lx_after_nl (Lx_tail hl) rfl) hl2' h
        | WHITESPACE => exact absurd rfl (Lx_linestart_not_ws hl)
        | KEY =>
          obtain ⟨v, rest, hloop, he, hr, hlr, hlr2, hlen'⟩ := key_step_ok s ts' paras cur d hl hl2 h
          have := ihP rest (by omega) paras (cur ++ [(s, v)]) d hlr hlr2 hloop
          rw [he, hr]; exact this
        | _ => rw [loop] at h; simp at h

end Deb822Verif.Deb

namespace Deb822Verif.Deb
open Deb822Verif Node Lossy

/-- **token-level containment**: on a token list with the lexer invariants, what the lossy reader
    accepts the lossless parser parses without an error -/
theorem acc_tok (ts : List Tok) (d : Doc) (hl : Lx .NEWLINE ts) (hl2 : Lx2 .KEY ts)
    (h : loop [] [] ts = .ok d) : (parseTokens ts).errors = [] := by
  have := (acc_aux (ts.length + 1)).1 ts (by omega) [] [] d hl hl2 h
  simpa [parseTokens] using this

end Deb822Verif.Deb
