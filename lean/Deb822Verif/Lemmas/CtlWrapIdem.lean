import Deb822Verif.Lemmas.CtlWrapDoc
import Deb822Verif.Lemmas.DebWrapFmtFixed
/-!
  Idempotence of the control-file wrappers on well-formed control files: every field is an
  entry-level fixed point (`Uploaders` by the stability of `fmtCommaLines`, relationship fields by
  C13, the other fields by the no-formatter path), and the panic guard does not fire on the result.
-/
namespace Deb822Verif.Ctl
open Deb822Verif Deb Node Spec

theorem formatField_uploaders (v : Str) : formatField kUploaders v = fmtCommaLines kUploaders v := by
  simp [formatField, formatFieldO]

/-- **the `Uploaders` field is left unchanged by a second pass** (any entry tree whose raw text has
    no CR) -/
theorem entryWrap_uploaders_fixed (cfg : WrapCfg) (e e' : DNode) (arg : Str)
    (hk : entryKey e = some kUploaders) (harg : fmtArg e = some arg) (hcr : '\r' ∉ arg)
    (h : entryWrap cfg (some formatField) e = some e') :
    entryWrap cfg (some formatField) e' = some e' := by
  refine entryWrap_fmt_fixed_of cfg formatField e e' kUploaders arg hk harg ?_ ?_ h
  · rw [formatField_uploaders]
    intro hm
    rcases fmtCommaLines_chars _ _ _ hm with h1 | h1 | h1
    · exact hcr h1
    · cases h1
    · cases h1
  · intro a ha
    rw [formatField_uploaders] at ha ⊢
    rw [formatField_uploaders]
    exact fmtCommaLines_stable _ _ _ ha

/-- the raw text of a well-formed field has no CR -/
theorem rawText_nocr (e : EntryS) (hwf : e.WF) : '\r' ∉ rawText e := by
  intro hm
  unfold rawText tokText at hm
  simp only [List.mem_flatten, List.mem_map] at hm
  obtain ⟨l, ⟨t, ht, rfl⟩, hc⟩ := hm
  have hnn : ∀ s : Str, NoNl s → '\r' ∉ s := by
    intro s hs hmem
    have := hs '\r' hmem
    simp [isNewline] at this
  have hai : ∀ s : Str, AllIndent s → '\r' ∉ s := by
    intro s hs hmem
    have := hs '\r' hmem
    simp [isIndent] at this
  have hconts : ∀ t ∈ joinNL (e.conts.map ContS.text), '\r' ∉ t.2 := by
    have : ∀ L : List Str, (∀ l ∈ L, NoNl l) → ∀ t ∈ joinNL L, '\r' ∉ t.2 := by
      intro L
      induction L with
      | nil => intro _ t ht; simp [joinNL] at ht
      | cons l r ih =>
        intro hL t ht
        cases r with
        | nil =>
          simp only [joinNL, List.mem_cons, List.not_mem_nil, or_false] at ht
          subst ht; exact hnn l (hL l (by simp))
        | cons u r' =>
          simp only [joinNL, List.mem_cons] at ht
          rcases ht with rfl | rfl | ht
          · exact hnn l (hL l (by simp))
          · simp
          · exact ih (fun x hx => hL x (by simp [hx])) t ht
    apply this
    intro l hl
    simp only [List.mem_map] at hl
    obtain ⟨c, hcm, rfl⟩ := hl
    exact (hwf.conts_ok c hcm).text_ok.1
  unfold EntryS.cts at ht
  split at ht
  · split at ht
    · simp at ht
    · simp only [List.mem_append, List.mem_cons, List.not_mem_nil, or_false] at ht
      rcases ht with ht | rfl
      · rw [mem_optTok ht] at hc; exact hai _ hwf.ws_ok hc
      · exact hnn _ hwf.v_ok.1 hc
  · simp only [List.mem_append, List.mem_cons] at ht
    rcases ht with (ht | ht) | rfl | ht
    · rw [mem_optTok ht] at hc; exact hai _ hwf.ws_ok hc
    · rw [mem_optTok ht] at hc; exact hnn _ hwf.v_ok.1 hc
    · simp at hc
    · exact hconts t ht hc

/-- the hypothesis on the relationship fields of a control file: their raw text is the text of a
    well-formed relationship field (C10 grammar) -/
def RelFieldsOK (d : DocS) : Prop :=
  ∀ pg ∈ d.paras, ∀ e ∈ paraEntries pg.1, relFields.contains e.key = true →
    ∃ f : RelSpec.FieldA, f.WF ∧ f.str = rawText e

/-- every field of a well-formed control file is an entry-level fixed point -/
theorem entry_fixed (cfg : WrapCfg) (e : EntryS) (more : Bool) (hwf : e.WF) (ht : e.Term more)
    (hc : IndentOK cfg)
    (hrel : relFields.contains e.key = true → ∃ f : RelSpec.FieldA, f.WF ∧ f.str = rawText e)
    (e' : DNode) (h : entryWrap cfg (some formatField) e.node = some e') :
    entryWrap cfg (some formatField) e' = some e' := by
  by_cases hu : e.key = kUploaders
  · exact entryWrap_uploaders_fixed cfg e.node e' (rawText e) (by rw [entryKey_node, hu])
      (fmtArg_node e more ht) (rawText_nocr e hwf) h
  · by_cases hr : relFields.contains e.key = true
    · obtain ⟨f, hf, hs⟩ := hrel hr
      exact entryWrap_rel_fixed cfg e.node e' e.key (entryKey_node e) hr f hf
        (by rw [fmtArg_node e more ht, hs]) h
    · have hr' : relFields.contains e.key = false := by simpa using hr
      have hid : ∀ v, formatField e.key v = v := by
        intro v
        have : formatFieldO e.key v = some v := by
          unfold formatFieldO; rw [if_neg hu, hr']; rfl
        simp [formatField, this]
      obtain ⟨h1, h2⟩ := entryWrap_other_fixed cfg formatField e more hwf ht hc hid
      rw [h1] at h
      cases h
      exact h2

/-- the panic guard does not fire on a reformatted field -/
theorem entryPanics_result (cfg : WrapCfg) (e : EntryS) (more : Bool) (hwf : e.WF) (ht : e.Term more)
    (hrel : relFields.contains e.key = true → ∃ f : RelSpec.FieldA, f.WF ∧ f.str = rawText e)
    (e' : DNode) (h : entryWrap cfg (some formatField) e.node = some e') :
    entryPanics e' = false := by
  have hkey : entryKey e' = some e.key := by
    rw [entryWrap_fmt_key cfg formatField e.node e' h, entryKey_node]
  unfold entryPanics
  rw [hkey]
  by_cases hr : relFields.contains e.key = true
  · obtain ⟨f, hf, hs⟩ := hrel hr
    have hout : formatField e.key (rawText e) = canonOf f := by rw [← hs]; exact formatField_rel e.key hr f hf
    obtain ⟨a, hfa, _, ha⟩ := entryWrap_fmt_second_line cfg formatField e.node e' e.key (rawText e)
      (entryKey_node e) (fmtArg_node e more ht)
      (by rw [hout]; intro c hc; exact (canonChar_plain c (canonOf_chars f hf c hc)).1)
      (by rw [hout]; intro c hc; exact canonOf_head f hf c hc) h
    rw [hfa, hout] at *
    rcases ha with rfl | ⟨hne, rfl⟩
    · simp [formatFieldO_canon e.key hr f hf]
    · simp [formatFieldO_sp_canon e.key hr f hf hne]
  · have hr' : relFields.contains e.key = false := by simpa using hr
    cases hfa : fmtArg e' with
    | none => rfl
    | some v =>
      simp only
      unfold formatFieldO
      by_cases hu : e.key = kUploaders
      · simp [hu]
      · rw [if_neg hu, hr']; rfl

/-- **`Control::wrap_and_sort` is idempotent on well-formed control files** whose relationship
    fields are well-formed (indentation ≥ 1): the second application returns the same tree -/
theorem controlWrap_idem (cfg : WrapCfg) (d : DocS) (hwf : d.WF) (hc : IndentOK cfg) (hrel : RelFieldsOK d)
    (root' : DNode) (h : controlWrap cfg d.tree = some root') : controlWrap cfg root' = some root' := by
  obtain ⟨_, hd⟩ := controlWrap_some cfg d.tree root' h
  -- the fields of the input
  have hsrc : ∀ p ∈ paragraphs d.tree, ∀ e ∈ entries p, ∃ x : EntryS, e = x.node ∧ x.WF ∧ (∃ m, x.Term m)
      ∧ (relFields.contains x.key = true → ∃ f : RelSpec.FieldA, f.WF ∧ f.str = rawText x) := by
    intro p hp e he
    rw [paragraphs_tree] at hp
    simp only [List.mem_map] at hp
    obtain ⟨pg, hpg, rfl⟩ := hp
    rw [entries_para] at he
    simp only [List.mem_map] at he
    obtain ⟨x, hx, rfl⟩ := he
    obtain ⟨m, hm⟩ := parasTerm_each d.paras hwf.paras_term pg hpg
    obtain ⟨h1, h2⟩ := paraEntries_props pg.1 m (hwf.paras_ok pg hpg).1 hm x hx
    exact ⟨x, rfl, h1, h2, hrel pg hpg x hx⟩
  have hfix : ∀ p ∈ paragraphs d.tree, ∀ e ∈ entries p, ∀ e',
      entryWrap cfg (some formatField) e = some e' → entryWrap cfg (some formatField) e' = some e' := by
    intro p hp e he e' hee
    obtain ⟨x, rfl, h1, ⟨m, h2⟩, h3⟩ := hsrc p hp e he
    exact entry_fixed cfg x m h1 h2 hc h3 e' hee
  have h2 := deb822Wrap_idem_on (some ctlParaLe) ctlParaLe_ok
    (some (paragraphWrap cfg none (some formatField)))
    (fun p p' _ hp => paragraphWrap_isPara cfg none (some formatField) p p' hp) d.tree root' hd
    (fun p p' hp hpp => paragraphWrap_idem_of cfg none (some formatField)
      (by intro f hf; cases hf) p p' hpp (fun e e' he hee => hfix p hp e he e' hee))
  -- the guard on the result
  obtain ⟨ws, hpw, hparas, _, _, hp', _, _⟩ := deb822Wrap_content (some ctlParaLe)
    (some (paragraphWrap cfg none (some formatField)))
    (fun p p' _ hp => paragraphWrap_isPara cfg none (some formatField) p p' hp) d.tree root' hd
  have hguard : (paragraphs root').any paraPanics = false := by
    apply List.any_eq_false.2
    intro q hq
    rw [hp'] at hq
    simp only [List.mem_map] at hq
    obtain ⟨w, hw, rfl⟩ := hq
    obtain ⟨g, hg, hr⟩ := Pointwise.mem_right hpw w ((mem_sortBy _ ws w).1 hw)
    have hgp : g.2 ∈ paragraphs d.tree := by rw [← hparas]; exact List.mem_map_of_mem hg
    obtain ⟨ws', hpw', _, _, he', he, _⟩ := paragraphWrap_fmt cfg none formatField g.2 w.2 hr.2
    have : (entries w.2).any entryPanics = false := by
      apply List.any_eq_false.2
      intro e' hem
      rw [he'] at hem
      simp only [sortBy, List.mem_map] at hem
      obtain ⟨w0, hw0, rfl⟩ := hem
      obtain ⟨g0, hg0, hr0⟩ := Pointwise.mem_right hpw' w0 hw0
      have hge : g0.2 ∈ entries g.2 := by rw [he]; exact List.mem_map_of_mem hg0
      obtain ⟨x, hx, h1, ⟨m, h2'⟩, h3⟩ := hsrc g.2 hgp g0.2 hge
      rw [hx] at hr0
      simp [entryPanics_result cfg x m h1 h2' h3 w0.2 hr0.2.1]
    simpa [paraPanics] using this
  simp [controlWrap, hguard, h2]

end Deb822Verif.Ctl
