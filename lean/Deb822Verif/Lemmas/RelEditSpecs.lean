import Deb822Verif.Lemmas.RelEditReread
/-!
  The `NodeSpec` of every relation setter on every RELATION node of the grammar (any gaps, with or
  without the following whitespace inside the node).
-/
set_option linter.unusedSimpArgs false
set_option linter.unusedVariables false
namespace Deb822Verif.Rel.Edit
open Deb822Verif Rel Node Build Lossy RelSpec

/-! ### finding nodes in a child list given as a split -/

theorem nodeIdx_split (k : Kind) (P : List RNode) (X : RNode) (S : List RNode) (hX : isNodeOf k X = true)
    (hP : cn k P = []) : nodeIdx k (P ++ X :: S) = some P.length := by
  induction P with
  | nil => simp only [isNodeOf] at hX; simp [nodeIdx, List.findIdx?_cons, hX]
  | cons c P ih =>
    rw [cn_cons] at hP
    have h1 := (List.append_eq_nil_iff.1 hP).1
    have h2 := (List.append_eq_nil_iff.1 hP).2
    have hc : (c.isNode && c.kind == k) = false := by
      rw [cn_elem] at h1
      by_cases hh : (c.isNode && c.kind == k) = true
      · simp [hh] at h1
      · simpa using hh
    have := ih h2
    simp only [nodeIdx] at this ⊢
    simp [List.findIdx?_cons, hc, this]

theorem nodeIdx_nil (k : Kind) (cs : List RNode) (h : cn k cs = []) : nodeIdx k cs = none := by
  simp only [nodeIdx, List.findIdx?_eq_none_iff]
  simp only [cn, List.filter_eq_nil_iff] at h
  intro x hx; simpa using h x hx

theorem elemIdx_split (k : Kind) (P : List RNode) (X : RNode) (S : List RNode) (hX : X.kind = k)
    (hP : ∀ y ∈ P, y.kind ≠ k) : elemIdx k (P ++ X :: S) = some P.length := by
  induction P with
  | nil => simp [elemIdx, List.findIdx?_cons, hX]
  | cons c P ih =>
    have hc : (c.kind == k) = false := by simpa using hP c (by simp)
    have := ih (fun y hy => hP y (by simp [hy]))
    simp only [elemIdx] at this ⊢
    simp [List.findIdx?_cons, hc, this]

theorem elemIdx_nil (k : Kind) (cs : List RNode) (h : ∀ y ∈ cs, y.kind ≠ k) : elemIdx k cs = none := by
  simp only [elemIdx, List.findIdx?_eq_none_iff]
  intro x hx; simpa using h x hx

theorem lastNodeIdx_split (k : Kind) (P : List RNode) (X : RNode) (S : List RNode) (hX : isNodeOf k X = true)
    (hS : cn k S = []) : lastNodeIdx k (P ++ X :: S) = some P.length := by
  have hS' : ∀ y ∈ S.reverse, (y.isNode && y.kind == k) = false := by
    intro y hy
    simp only [cn, List.filter_eq_nil_iff] at hS
    simpa using hS y (by simpa using hy)
  have h1 : (S.reverse.findIdx? fun c => c.isNode && c.kind == k) = none := by
    rw [List.findIdx?_eq_none_iff]; intro y hy; simpa using hS' y hy
  simp only [isNodeOf] at hX
  simp only [lastNodeIdx, List.reverse_append, List.reverse_cons, List.append_assoc, List.findIdx?_append, h1]
  simp [List.findIdx?_cons, hX]

theorem lastNodeIdx_nil (k : Kind) (cs : List RNode) (h : cn k cs = []) : lastNodeIdx k cs = none := by
  have : (cs.reverse.findIdx? fun c => c.isNode && c.kind == k) = none := by
    rw [List.findIdx?_eq_none_iff]
    intro y hy
    simp only [cn, List.filter_eq_nil_iff] at h
    simpa using h y (by simpa using hy)
  simp [lastNodeIdx, this]

/-! ### generic spec patterns -/

theorem tail_out (r : RelA) (g : Gap) (fl : Follow) : tokText (tailOf r g fl) ++ outOf r g fl = gapStr g := by
  simp only [tailOf, outOf]; split <;> simp

/-- the setter maps the node of `r` to the node of `r'` with the same inner tail -/
theorem spec_keep (g : RNode → RNode) (G : RelRec → RelRec) (r r' : RelA) (gp : Gap) (fl : Follow)
    (htree : ∀ t : Gap, g (r.node (gapToks t)) = r'.node (gapToks t)) (hok : r'.ok = true) (hg : gapOk gp = true)
    (hview : RelRec.ofLossy r'.view = G (RelRec.ofLossy r.view)) : NodeSpec g G r gp fl r' gp := by
  refine ⟨hok, hg, ?_, hview⟩
  have ht : tailOf r gp fl = gapToks (if r.tailInside fl then gp else []) := by
    simp only [tailOf]; split <;> rfl
  rw [ht, htree, ← ht, RelA.node_text', List.append_assoc, tail_out]

theorem tkT (k : Kind) (s : String) : tk (k, s.toList) = T k s := rfl

/-! ### `set_archqual` -/

theorem setArchqual_node (r : RelA) (q : Str) (tail : List Tok) :
    setArchqual (r.node tail) q = ({ r with archqual := some q } : RelA).node tail := by
  rw [RelA.node_eq', RelA.node_eq']
  cases haq : r.archqual with
  | some a =>
    have hi : nodeIdx .ARCHQUAL (tk (.IDENT, r.name) :: (aqNodes (some a) ++ (verNodes r.version ++ (archNodes r.archs
        ++ (profsNodes r.profiles ++ tks tail))))) = some 1 := by
      have := nodeIdx_split .ARCHQUAL [tk (.IDENT, r.name)] (Node.node .ARCHQUAL [tk (.COLON, [':']), tk (.IDENT, a)])
        (verNodes r.version ++ (archNodes r.archs ++ (profsNodes r.profiles ++ tks tail))) rfl rfl
      simpa [aqNodes] using this
    simp only [setArchqual, children_node, hi, onChildren, kind_node]
    simp [aqNodes, replaceAt, T, tk]
  | none =>
    have hi : nodeIdx .ARCHQUAL (tk (.IDENT, r.name) :: (aqNodes none ++ (verNodes r.version ++ (archNodes r.archs
        ++ (profsNodes r.profiles ++ tks tail))))) = none := by
      apply nodeIdx_nil
      simp [aqNodes, cn_cons_tok, cn_verNodes, cn_archNodes, cn_profsNodes]
    simp only [setArchqual, children_node, hi, onChildren, kind_node]
    simp [aqNodes, insertAt, afterName, elemIdx, List.findIdx?_cons, tk, T]

theorem spec_setArchqual (r : RelA) (gp : Gap) (fl : Follow) (q : Str) (hr : r.ok = true) (hg : gapOk gp = true)
    (hq : isIdent q = true) :
    NodeSpec (setArchqual · q) (fun x => { x with archqual := some q }) r gp fl { r with archqual := some q } gp := by
  apply spec_keep _ _ r _ gp fl (fun t => setArchqual_node r q (gapToks t)) _ hg rfl
  obtain ⟨h1, h2, h3, h4, h5⟩ := (RelA.ok_iff r).1 hr
  exact (RelA.ok_iff _).2 ⟨h1, fun a ha => by simp only [Option.some.injEq] at ha; subst ha; exact hq, h3, h4, h5⟩


/-! ### helpers: gaps are whitespace, bodies of the canonical brackets -/

theorem tks_gap_ws (g : Gap) : ∀ x ∈ tks (gapToks g), isWsElem x = true := by
  intro x hx
  simp only [tks, List.mem_map] at hx
  obtain ⟨t, ht, rfl⟩ := hx
  have := gapToks_ws g t ht
  simpa [isWsElem, isWsKind, tk] using this

theorem dropWhile_all {α} (p : α → Bool) (a b : List α) (ha : ∀ x ∈ a, p x = true)
    (hb : ∀ x, b.head? = some x → p x = false) : (a ++ b).dropWhile p = b := by
  induction a with
  | nil =>
    cases b with
    | nil => rfl
    | cons x xs => simp [List.dropWhile, hb x rfl]
  | cons x a ih => simp [List.dropWhile, ha x (by simp), ih (fun y hy => ha y (by simp [hy]))]

/-- dropping the whitespace at the end of `P0 ++ gap` gives `P0` when `P0` ends in something else -/
theorem dropTrailing_gap (P0 : List RNode) (g : Gap) (h : ∀ x, P0.getLast? = some x → isWsElem x = false) :
    ((P0 ++ tks (gapToks g)).reverse.dropWhile isWsElem).reverse = P0 := by
  rw [List.reverse_append, dropWhile_all isWsElem _ _ (fun x hx => tks_gap_ws g x (by simpa using hx))
    (fun x hx => h x (by simpa [List.head?_reverse] using hx))]
  simp

theorem removeWs_split (P0 : List RNode) (g : Gap) (X : RNode) (S : List RNode)
    (h : ∀ x, P0.getLast? = some x → isWsElem x = false) :
    removeWithWsBefore (P0 ++ tks (gapToks g) ++ X :: S) (P0 ++ tks (gapToks g)).length = P0 ++ S := by
  obtain ⟨e1, e2, _⟩ := take_drop_of_split (P0 ++ tks (gapToks g)) X S
  simp only [removeWithWsBefore]
  rw [e1, e2, dropTrailing_gap P0 g h]

theorem archNode_body (pre : Gap) (as : List Str) :
    architecturesNode as = Node.node .ARCHITECTURES (tks (archBody ⟨pre, canonItems archItem as, []⟩)) := by
  have := canonItems_tks archItem Build.archToks archToks_item as
  simp only [architecturesNode, archBody, Bracket.body, tks_cons, tks_append, this]
  simp [gapToks, tks, tk, T]

theorem profNode_body (pre : Gap) (g : List BuildProfile) :
    profilesNode g = Node.node .PROFILES (tks (profBody ⟨pre, canonItems profItem g, []⟩)) := by
  have := canonItems_tks profItem termToks termToks_item g
  simp only [profilesNode, profBody, Bracket.body, tks_cons, tks_append, this]
  simp [gapToks, tks, tk, T]

theorem verNode_pre (pre : Gap) (c : VC) (v : Version) (h : validVersion v = true) :
    versionNode c v = (⟨pre, [], c, sp, versionAOf v, []⟩ : VerPart).node := by
  rw [versionNode_valid c v h]; rfl

theorem tks_sp' : tks (gapToks sp) = [T .WHITESPACE " "] := rfl

theorem isWs_tk_ident (s : Str) : isWsElem (tk (.IDENT, s)) = false := rfl

/-- the children before the version part end in the name or the qualifier -/
theorem last_head (name : Str) (aq : Option Str) :
    ∀ x, (tk (.IDENT, name) :: aqNodes aq).getLast? = some x → isWsElem x = false := by
  intro x hx
  cases aq with
  | none => simp [aqNodes] at hx; subst hx; rfl
  | some a => simp [aqNodes] at hx; subst hx; rfl

/-! ### `set_version` -/

theorem setVersion_some_node (r : RelA) (c : VC) (v : Version) (hv : validVersion v = true) (t : Gap) :
    setVersion (r.node (gapToks t)) (some (c, v))
      = ({ r with version := some ⟨(match r.version with | some vp => vp.pre | none => sp), [], c, sp, versionAOf v, []⟩ } : RelA).node (gapToks t) := by
  rw [RelA.node_eq', RelA.node_eq']
  cases hver : r.version with
  | some vp =>
    have hi := nodeIdx_split .VERSION (tk (.IDENT, r.name) :: (aqNodes r.archqual ++ tks (gapToks vp.pre))) vp.node
      (archNodes r.archs ++ (profsNodes r.profiles ++ tks (gapToks t))) rfl
      (by simp [cn_cons_tok, cn_aqNodes])
    have e : tk (.IDENT, r.name) :: (aqNodes r.archqual ++ (verNodes (some vp) ++ (archNodes r.archs
          ++ (profsNodes r.profiles ++ tks (gapToks t)))))
        = (tk (.IDENT, r.name) :: (aqNodes r.archqual ++ tks (gapToks vp.pre))) ++ vp.node
          :: (archNodes r.archs ++ (profsNodes r.profiles ++ tks (gapToks t))) := by simp [verNodes]
    simp only [setVersion, children_node, e, hi, onChildren, kind_node, replaceAt_split]
    simp [verNodes, verNode_pre vp.pre c v hv]
  | none =>
    have hi : nodeIdx .VERSION (tk (.IDENT, r.name) :: (aqNodes r.archqual ++ (verNodes none ++ (archNodes r.archs
        ++ (profsNodes r.profiles ++ tks (gapToks t)))))) = none := by
      apply nodeIdx_nil
      simp [verNodes, cn_cons_tok, cn_aqNodes, cn_archNodes, cn_profsNodes]
    simp only [setVersion, children_node, hi, onChildren, kind_node]
    have hkinds : ∀ y ∈ archNodes r.archs ++ (profsNodes r.profiles ++ tks (gapToks t)), y.kind ≠ Kind.ARCHQUAL := by
      intro y hy
      simp only [List.mem_append] at hy
      rcases hy with hy | hy | hy
      · cases ha : r.archs with
        | none => simp [ha, archNodes] at hy
        | some ab =>
          simp only [ha, archNodes, List.mem_append, List.mem_singleton] at hy
          rcases hy with hy | rfl
          · have := tks_gap_ws ab.pre y hy
            intro hk; simp [isWsElem, hk] at this
          · simp
      · simp only [profsNodes, List.mem_flatten, List.mem_map] at hy
        obtain ⟨l, ⟨p, _, rfl⟩, hy⟩ := hy
        simp only [List.mem_append, List.mem_singleton] at hy
        rcases hy with hy | rfl
        · have := tks_gap_ws p.pre y hy
          intro hk; simp [isWsElem, hk] at this
        · simp
      · have := tks_gap_ws t y hy
        intro hk; simp [isWsElem, hk] at this
    cases haq : r.archqual with
    | some a =>
      have ha : versionAnchor (tk (.IDENT, r.name) :: (aqNodes (some a) ++ (verNodes none ++ (archNodes r.archs
          ++ (profsNodes r.profiles ++ tks (gapToks t)))))) = 2 := by
        simp [versionAnchor, elemIdx, List.findIdx?_cons, aqNodes, tk]
      rw [ha]
      simp [insertAt, aqNodes, verNodes, tks_sp', verNode_pre sp c v hv]
    | none =>
      have ha : versionAnchor (tk (.IDENT, r.name) :: (aqNodes none ++ (verNodes none ++ (archNodes r.archs
          ++ (profsNodes r.profiles ++ tks (gapToks t)))))) = 1 := by
        have h1 : elemIdx .ARCHQUAL (tk (.IDENT, r.name) :: (archNodes r.archs ++ (profsNodes r.profiles ++ tks (gapToks t)))) = none := by
          apply elemIdx_nil
          intro y hy
          simp only [List.mem_cons] at hy
          rcases hy with rfl | hy
          · simp [tk]
          · exact hkinds y hy
        simp only [versionAnchor, aqNodes, verNodes, List.nil_append]
        rw [h1]
        simp [afterName, elemIdx, List.findIdx?_cons, tk]
      rw [ha]
      simp [insertAt, aqNodes, verNodes, tks_sp', verNode_pre sp c v hv]


theorem relA_eta_version (r : RelA) (h : r.version = none) : ({ r with version := none } : RelA) = r := by
  cases r; simp_all
theorem relA_eta_archs (r : RelA) (h : r.archs = none) : ({ r with archs := none } : RelA) = r := by
  cases r; simp_all

theorem setVersion_none_node (r : RelA) (t : Gap) :
    setVersion (r.node (gapToks t)) none = ({ r with version := none } : RelA).node (gapToks t) := by
  cases hver : r.version with
  | none =>
    rw [relA_eta_version r hver, RelA.node_eq']
    have hi : nodeIdx .VERSION (tk (.IDENT, r.name) :: (aqNodes r.archqual ++ (verNodes r.version ++ (archNodes r.archs
        ++ (profsNodes r.profiles ++ tks (gapToks t)))))) = none := by
      apply nodeIdx_nil
      simp [hver, verNodes, cn_cons_tok, cn_aqNodes, cn_archNodes, cn_profsNodes]
    simp only [setVersion, children_node, hi]
  | some vp =>
    rw [RelA.node_eq', RelA.node_eq']
    have e : tk (.IDENT, r.name) :: (aqNodes r.archqual ++ (verNodes r.version ++ (archNodes r.archs
          ++ (profsNodes r.profiles ++ tks (gapToks t)))))
        = (tk (.IDENT, r.name) :: aqNodes r.archqual) ++ tks (gapToks vp.pre) ++ vp.node
          :: (archNodes r.archs ++ (profsNodes r.profiles ++ tks (gapToks t))) := by simp [hver, verNodes]
    have hi := nodeIdx_split .VERSION ((tk (.IDENT, r.name) :: aqNodes r.archqual) ++ tks (gapToks vp.pre)) vp.node
      (archNodes r.archs ++ (profsNodes r.profiles ++ tks (gapToks t))) rfl
      (by simp [cn_cons_tok, cn_aqNodes])
    simp only [setVersion, children_node, e, hi, onChildren, kind_node,
      removeWs_split _ vp.pre vp.node _ (last_head r.name r.archqual)]
    simp [verNodes]

theorem dropConstraint_node (r : RelA) (t : Gap) :
    (dropConstraint (r.node (gapToks t))).1 = ({ r with version := none } : RelA).node (gapToks t) := by
  have : (dropConstraint (r.node (gapToks t))).1 = setVersion (r.node (gapToks t)) none := by
    simp only [dropConstraint, setVersion]; cases nodeIdx Kind.VERSION (r.node (gapToks t)).children <;> rfl
  rw [this, setVersion_none_node]

/-- the children before the architecture list end in the name, the qualifier or the version -/
theorem last_head2 (name : Str) (aq : Option Str) (v : Option VerPart) :
    ∀ x, (tk (.IDENT, name) :: (aqNodes aq ++ verNodes v)).getLast? = some x → isWsElem x = false := by
  intro x hx
  cases v with
  | none => simp only [verNodes, List.append_nil] at hx; exact last_head name aq x hx
  | some vp =>
    simp only [verNodes, ← List.append_assoc, ← List.cons_append] at hx
    rw [List.getLast?_append] at hx
    simp at hx; subst hx; rfl

theorem setArchitectures_nil_node (r : RelA) (t : Gap) :
    setArchitectures (r.node (gapToks t)) [] = ({ r with archs := none } : RelA).node (gapToks t) := by
  cases ha : r.archs with
  | none =>
    rw [relA_eta_archs r ha, RelA.node_eq']
    have hi : nodeIdx .ARCHITECTURES (tk (.IDENT, r.name) :: (aqNodes r.archqual ++ (verNodes r.version ++ (archNodes r.archs
        ++ (profsNodes r.profiles ++ tks (gapToks t)))))) = none := by
      apply nodeIdx_nil
      simp [ha, archNodes, cn_cons_tok, cn_aqNodes, cn_verNodes, cn_profsNodes]
    simp only [setArchitectures, List.isEmpty_nil, ↓reduceIte, children_node, hi]
  | some ab =>
    rw [RelA.node_eq', RelA.node_eq']
    have e : tk (.IDENT, r.name) :: (aqNodes r.archqual ++ (verNodes r.version ++ (archNodes r.archs
          ++ (profsNodes r.profiles ++ tks (gapToks t)))))
        = (tk (.IDENT, r.name) :: (aqNodes r.archqual ++ verNodes r.version)) ++ tks (gapToks ab.pre)
          ++ Node.node .ARCHITECTURES (tks (archBody ab)) :: (profsNodes r.profiles ++ tks (gapToks t)) := by
      simp [ha, archNodes]
    have hi := nodeIdx_split .ARCHITECTURES ((tk (.IDENT, r.name) :: (aqNodes r.archqual ++ verNodes r.version))
        ++ tks (gapToks ab.pre)) (Node.node .ARCHITECTURES (tks (archBody ab)))
      (profsNodes r.profiles ++ tks (gapToks t)) rfl
      (by simp [cn_cons_tok, cn_aqNodes, cn_verNodes])
    simp only [setArchitectures, List.isEmpty_nil, ↓reduceIte, children_node, e, hi, onChildren, kind_node,
      removeWs_split _ ab.pre _ _ (last_head2 r.name r.archqual r.version)]
    simp [archNodes]


/-! ### `set_architectures` with a non-empty list -/

theorem setArchs_replace_node (r : RelA) (ab : Bracket) (ha : r.archs = some ab) (a : Str) (as : List Str) (t : Gap) :
    setArchitectures (r.node (gapToks t)) (a :: as)
      = ({ r with archs := some ⟨ab.pre, canonItems archItem (a :: as), []⟩ } : RelA).node (gapToks t) := by
  rw [RelA.node_eq', RelA.node_eq']
  have e : tk (.IDENT, r.name) :: (aqNodes r.archqual ++ (verNodes r.version ++ (archNodes r.archs
        ++ (profsNodes r.profiles ++ tks (gapToks t)))))
      = (tk (.IDENT, r.name) :: (aqNodes r.archqual ++ verNodes r.version)) ++ tks (gapToks ab.pre)
        ++ Node.node .ARCHITECTURES (tks (archBody ab)) :: (profsNodes r.profiles ++ tks (gapToks t)) := by
    simp [ha, archNodes]
  have hi := nodeIdx_split .ARCHITECTURES ((tk (.IDENT, r.name) :: (aqNodes r.archqual ++ verNodes r.version))
      ++ tks (gapToks ab.pre)) (Node.node .ARCHITECTURES (tks (archBody ab)))
    (profsNodes r.profiles ++ tks (gapToks t)) rfl
    (by simp [cn_cons_tok, cn_aqNodes, cn_verNodes])
  simp only [setArchitectures, List.isEmpty_cons, Bool.false_eq_true, ↓reduceIte, children_node, e, hi, onChildren,
    kind_node, replaceAt_split]
  simp [archNodes, archNode_body ab.pre (a :: as)]

theorem setArchs_beforeProfiles_node (r : RelA) (ha : r.archs = none) (p1 : Bracket) (ps : List Bracket)
    (hp : r.profiles = p1 :: ps) (a : Str) (as : List Str) (t : Gap) :
    setArchitectures (r.node (gapToks t)) (a :: as)
      = ({ r with archs := some ⟨p1.pre, canonItems archItem (a :: as), []⟩,
                  profiles := { p1 with pre := sp } :: ps } : RelA).node (gapToks t) := by
  rw [RelA.node_eq', RelA.node_eq']
  have hi0 : nodeIdx .ARCHITECTURES (tk (.IDENT, r.name) :: (aqNodes r.archqual ++ (verNodes r.version ++ (archNodes r.archs
      ++ (profsNodes r.profiles ++ tks (gapToks t)))))) = none := by
    apply nodeIdx_nil
    simp [ha, archNodes, cn_cons_tok, cn_aqNodes, cn_verNodes, cn_profsNodes]
  have e : tk (.IDENT, r.name) :: (aqNodes r.archqual ++ (verNodes r.version ++ (archNodes r.archs
        ++ (profsNodes r.profiles ++ tks (gapToks t)))))
      = ((tk (.IDENT, r.name) :: (aqNodes r.archqual ++ verNodes r.version)) ++ tks (gapToks p1.pre))
        ++ Node.node .PROFILES (tks (profBody p1)) :: (profsNodes ps ++ tks (gapToks t)) := by
    simp [ha, hp, archNodes, profsNodes_cons]
  have hi := nodeIdx_split .PROFILES ((tk (.IDENT, r.name) :: (aqNodes r.archqual ++ verNodes r.version))
      ++ tks (gapToks p1.pre)) (Node.node .PROFILES (tks (profBody p1))) (profsNodes ps ++ tks (gapToks t)) rfl
    (by simp [cn_cons_tok, cn_aqNodes, cn_verNodes])
  simp only [setArchitectures, List.isEmpty_cons, Bool.false_eq_true, ↓reduceIte, children_node, hi0]
  simp only [e, hi, onChildren, kind_node, children_node]
  rw [show ((tk (Kind.IDENT, r.name) :: (aqNodes r.archqual ++ verNodes r.version)) ++ tks (gapToks p1.pre))
      ++ Node.node Kind.PROFILES (tks (profBody p1)) :: (profsNodes ps ++ tks (gapToks t))
    = ((tk (Kind.IDENT, r.name) :: (aqNodes r.archqual ++ verNodes r.version)) ++ tks (gapToks p1.pre))
      ++ (Node.node Kind.PROFILES (tks (profBody p1)) :: (profsNodes ps ++ tks (gapToks t))) from rfl, insertAt_split]
  simp [archNodes, profsNodes_cons, archNode_body p1.pre (a :: as), tks_sp', profBody, Bracket.body]

theorem gapToks_append (a b : Gap) : gapToks (a ++ b) = gapToks a ++ gapToks b := by simp [gapToks]

theorem setArchs_append_node (r : RelA) (ha : r.archs = none) (hp : r.profiles = []) (a : Str) (as : List Str) (t : Gap) :
    setArchitectures (r.node (gapToks t)) (a :: as)
      = ({ r with archs := some ⟨t ++ sp, canonItems archItem (a :: as), []⟩ } : RelA).node [] := by
  rw [RelA.node_eq', RelA.node_eq']
  have hi0 : nodeIdx .ARCHITECTURES (tk (.IDENT, r.name) :: (aqNodes r.archqual ++ (verNodes r.version ++ (archNodes r.archs
      ++ (profsNodes r.profiles ++ tks (gapToks t)))))) = none := by
    apply nodeIdx_nil
    simp [ha, archNodes, cn_cons_tok, cn_aqNodes, cn_verNodes, cn_profsNodes]
  have hi1 : nodeIdx .PROFILES (tk (.IDENT, r.name) :: (aqNodes r.archqual ++ (verNodes r.version ++ (archNodes r.archs
      ++ (profsNodes r.profiles ++ tks (gapToks t)))))) = none := by
    apply nodeIdx_nil
    simp [ha, hp, archNodes, profsNodes, cn_cons_tok, cn_aqNodes, cn_verNodes]
  simp only [setArchitectures, List.isEmpty_cons, Bool.false_eq_true, ↓reduceIte, children_node, hi0, hi1, onChildren,
    kind_node, happ]
  simp [ha, hp, archNodes, profsNodes, gapToks_append, tks_sp', archNode_body (t ++ sp) (a :: as)]

/-! ### `add_profile` -/

theorem profsNodes_snoc (ps : List Bracket) (p : Bracket) :
    profsNodes (ps ++ [p]) = profsNodes ps ++ tks (gapToks p.pre) ++ [Node.node .PROFILES (tks (profBody p))] := by
  simp [profsNodes]

theorem addProfile_after_node (r : RelA) (ps : List Bracket) (pl : Bracket) (hp : r.profiles = ps ++ [pl])
    (g : List BuildProfile) (t : Gap) :
    addProfile (r.node (gapToks t)) g
      = ({ r with profiles := r.profiles ++ [⟨sp, canonItems profItem g, []⟩] } : RelA).node (gapToks t) := by
  rw [RelA.node_eq', RelA.node_eq']
  have e : tk (.IDENT, r.name) :: (aqNodes r.archqual ++ (verNodes r.version ++ (archNodes r.archs
        ++ (profsNodes r.profiles ++ tks (gapToks t)))))
      = (tk (.IDENT, r.name) :: (aqNodes r.archqual ++ (verNodes r.version ++ (archNodes r.archs
          ++ (profsNodes ps ++ tks (gapToks pl.pre))))))
        ++ Node.node .PROFILES (tks (profBody pl)) :: tks (gapToks t) := by
    simp [hp, profsNodes_snoc]
  have hi := lastNodeIdx_split .PROFILES (tk (.IDENT, r.name) :: (aqNodes r.archqual ++ (verNodes r.version ++ (archNodes r.archs
      ++ (profsNodes ps ++ tks (gapToks pl.pre)))))) (Node.node .PROFILES (tks (profBody pl))) (tks (gapToks t)) rfl
    (by simp)
  simp only [addProfile, children_node, e, hi, onChildren, kind_node]
  have hl : ∀ (P : List RNode) (X : RNode) (S new : List RNode), insertAt (P ++ X :: S) (P.length + 1) new = P ++ X :: (new ++ S) := by
    intro P X S new
    have := insertAt_split (P ++ [X]) S new
    simpa using this
  rw [hl]
  have hsn : ∀ X : Bracket, ps ++ [pl] ++ [X] = (ps ++ [pl]) ++ [X] := fun X => rfl
  simp only [hp, hsn, profsNodes_snoc]
  simp [tks_sp', profNode_body sp g]

theorem addProfile_append_node (r : RelA) (hp : r.profiles = []) (g : List BuildProfile) (t : Gap) :
    addProfile (r.node (gapToks t)) g
      = ({ r with profiles := [⟨t ++ sp, canonItems profItem g, []⟩] } : RelA).node [] := by
  rw [RelA.node_eq', RelA.node_eq']
  have hi : lastNodeIdx .PROFILES (tk (.IDENT, r.name) :: (aqNodes r.archqual ++ (verNodes r.version ++ (archNodes r.archs
      ++ (profsNodes r.profiles ++ tks (gapToks t)))))) = none := by
    apply lastNodeIdx_nil
    simp [hp, profsNodes, cn_cons_tok, cn_aqNodes, cn_verNodes, cn_archNodes]
  simp only [addProfile, children_node, hi, onChildren, kind_node, happ]
  simp [hp, profsNodes, gapToks_append, tks_sp', profNode_body (t ++ sp) g]


/-! ### well-formedness and views of the new parts -/

theorem archItem_name (g : Gap) (a : Str) : (archItem g a).name = (archItem [] a).name := by
  unfold archItem; split <;> rfl

theorem archBracket_ok (pre : Gap) (hpre : gapOk pre = true) (as : List Str) (h : ∀ a ∈ as, validArch a = true) :
    (⟨pre, canonItems archItem as, []⟩ : Bracket).ok = true := by
  rw [Bracket.ok_iff]
  refine ⟨hpre, rfl, ?_, canonItems_later archItem archItem_gap as⟩
  intro i hi
  cases as with
  | nil => simp [canonItems] at hi
  | cons x xs =>
    simp only [canonItems, List.mem_cons, List.mem_map] at hi
    rw [Item.ok_iff]
    rcases hi with rfl | ⟨y, hy, rfl⟩
    · exact ⟨by rw [archItem_gap]; rfl, h x (by simp)⟩
    · exact ⟨by rw [archItem_gap]; exact sp_ok, by rw [archItem_name]; exact h y (by simp [hy])⟩

theorem profItem_gap (g : Gap) (p : BuildProfile) : (profItem g p).gap = g := by cases p <;> rfl
theorem profItem_name (g : Gap) (p : BuildProfile) : (profItem g p).name = profName p := by cases p <;> rfl

theorem profBracket_ok (pre : Gap) (hpre : gapOk pre = true) (g : List BuildProfile)
    (h : ∀ p ∈ g, isIdent (profName p) = true) : (⟨pre, canonItems profItem g, []⟩ : Bracket).ok = true := by
  rw [Bracket.ok_iff]
  refine ⟨hpre, rfl, ?_, canonItems_later profItem profItem_gap g⟩
  intro i hi
  cases g with
  | nil => simp [canonItems] at hi
  | cons x xs =>
    simp only [canonItems, List.mem_cons, List.mem_map] at hi
    rw [Item.ok_iff]
    rcases hi with rfl | ⟨y, hy, rfl⟩
    · exact ⟨by rw [profItem_gap]; rfl, by rw [profItem_name]; exact h x (by simp)⟩
    · exact ⟨by rw [profItem_gap]; exact sp_ok, by rw [profItem_name]; exact h y (by simp [hy])⟩

theorem archs_view (as : List Str) : (canonItems archItem as).map Item.text = as := by
  simp [canonItems_map archItem Item.text id archItem_text]

theorem profs_view (g : List BuildProfile) : (canonItems profItem g).map Item.profile = g := by
  simp [canonItems_map profItem Item.profile id profItem_profile]

/-- one more blank at the end of a gap, merged into a trailing run of blanks -/
def snocSp : Gap → Gap
  | [] => sp
  | [.ws s] => [.ws (s ++ [' '])]
  | [.nl] => [.nl, .ws [' ']]
  | p :: q :: rest => p :: snocSp (q :: rest)

theorem gapStr_snocSp (t : Gap) : gapStr (snocSp t) = gapStr (t ++ sp) := by
  induction t with
  | nil => rfl
  | cons p t ih =>
    cases t with
    | nil => cases p <;> simp [snocSp, gapStr, sp, GapPiece.str]
    | cons q rest =>
      simp only [snocSp, gapStr, List.map_cons, List.flatten_cons, List.cons_append] at ih ⊢
      rw [ih]

theorem snocSp_head (t : Gap) (h : ∀ s rest, t ≠ .ws s :: rest) : ∀ s rest, t ≠ [] → snocSp t ≠ .ws s :: rest := by
  intro s rest hne
  cases t with
  | nil => exact absurd rfl hne
  | cons p t' =>
    cases t' with
    | nil =>
      cases p with
      | nl => simp [snocSp]
      | ws s' => exact absurd rfl (h s' [])
    | cons q r =>
      cases p with
      | nl => simp [snocSp]
      | ws s' => exact absurd rfl (h s' (q :: r))

theorem gapOk_snocSp (t : Gap) (h : gapOk t = true) : gapOk (snocSp t) = true := by
  induction t with
  | nil => decide
  | cons p t ih =>
    cases t with
    | nil =>
      cases p with
      | nl => decide
      | ws s =>
        simp only [gapOk, Bool.and_eq_true, Bool.not_eq_true', List.all_eq_true] at h
        simp only [snocSp, gapOk, Bool.and_eq_true, Bool.not_eq_true', List.all_eq_true]
        refine ⟨⟨⟨by simp, ?_⟩, trivial⟩, trivial⟩
        intro c hc
        simp only [List.mem_append, List.mem_singleton] at hc
        rcases hc with hc | rfl
        · exact h.1.1.2 c hc
        · decide
    | cons q rest =>
      cases p with
      | nl =>
        simp only [gapOk] at h
        simp only [snocSp, gapOk]
        exact ih h
      | ws s =>
        simp only [gapOk, Bool.and_eq_true] at h
        obtain ⟨⟨⟨h1, h2⟩, h3⟩, h4⟩ := h
        have hq : ∀ s', q ≠ .ws s' := by
          intro s' hh; subst hh; simp at h3
        simp only [snocSp, gapOk, Bool.and_eq_true]
        refine ⟨⟨⟨h1, h2⟩, ?_⟩, ih h4⟩
        cases q with
        | ws s' => exact absurd rfl (hq s')
        | nl =>
          cases rest with
          | nil => rfl
          | cons x y => rfl

theorem bracket_str_pre (o c : Char) (p p' : Gap) (items : List Item) (post : Gap) (h : gapStr p = gapStr p') :
    Bracket.str o c ⟨p, items, post⟩ = Bracket.str o c ⟨p', items, post⟩ := by
  simp [Bracket.str, h]


/-! ### the specs -/

theorem spec_setVersion_some (r : RelA) (gp : Gap) (fl : Follow) (c : VC) (v : Version) (hr : r.ok = true)
    (hg : gapOk gp = true) (hv : validVersion v = true) :
    ∃ r', NodeSpec (setVersion · (some (c, v))) (fun x => { x with version := .ok (some (c, v)) }) r gp fl r' gp := by
  obtain ⟨h1, h2, h3, h4, h5⟩ := (RelA.ok_iff r).1 hr
  obtain ⟨hvok, hval⟩ := (validVersion_iff v).1 hv
  refine ⟨_, spec_keep _ _ r _ gp fl (fun t => setVersion_some_node r c v hv t) ?_ hg ?_⟩
  · refine (RelA.ok_iff _).2 ⟨h1, h2, ?_, h4, h5⟩
    intro vp hvp
    simp only [Option.some.injEq] at hvp
    subst hvp
    rw [VerPart.ok_iff]
    refine ⟨?_, rfl, sp_ok, rfl, hvok⟩
    cases hver : r.version with
    | none => exact sp_ok
    | some vp => exact ((VerPart.ok_iff vp).1 (h3 vp hver)).1
  · simp [RelA.view, RelRec.ofLossy, hval]

theorem spec_setVersion_none (r : RelA) (gp : Gap) (fl : Follow) (hr : r.ok = true) (hg : gapOk gp = true) :
    NodeSpec (setVersion · none) (fun x => { x with version := .ok none }) r gp fl { r with version := none } gp := by
  obtain ⟨h1, h2, h3, h4, h5⟩ := (RelA.ok_iff r).1 hr
  exact spec_keep _ _ r _ gp fl (fun t => setVersion_none_node r t)
    ((RelA.ok_iff _).2 ⟨h1, h2, (fun vp hvp => by cases hvp), h4, h5⟩) hg rfl

theorem spec_dropConstraint (r : RelA) (gp : Gap) (fl : Follow) (hr : r.ok = true) (hg : gapOk gp = true) :
    NodeSpec (fun x => (dropConstraint x).1) (fun x => { x with version := .ok none }) r gp fl { r with version := none } gp := by
  obtain ⟨h1, h2, h3, h4, h5⟩ := (RelA.ok_iff r).1 hr
  exact spec_keep _ _ r _ gp fl (fun t => dropConstraint_node r t)
    ((RelA.ok_iff _).2 ⟨h1, h2, (fun vp hvp => by cases hvp), h4, h5⟩) hg rfl

theorem spec_setArchs_nil (r : RelA) (gp : Gap) (fl : Follow) (hr : r.ok = true) (hg : gapOk gp = true) :
    NodeSpec (setArchitectures · []) (fun x => { x with architectures := none }) r gp fl { r with archs := none } gp := by
  obtain ⟨h1, h2, h3, h4, h5⟩ := (RelA.ok_iff r).1 hr
  exact spec_keep _ _ r _ gp fl (fun t => setArchitectures_nil_node r t)
    ((RelA.ok_iff _).2 ⟨h1, h2, h3, (fun ab hab => by cases hab), h5⟩) hg rfl

/-- the gap that is inside the node, and the gap left after the relation when a bracket is appended
    behind the inner whitespace -/
def inGap (r : RelA) (gp : Gap) (fl : Follow) : Gap := if r.tailInside fl then gp else []
def restGap (r : RelA) (gp : Gap) (fl : Follow) : Gap := if r.tailInside fl then [] else gp

theorem tailOf_inGap (r : RelA) (gp : Gap) (fl : Follow) : tailOf r gp fl = gapToks (inGap r gp fl) := by
  simp only [tailOf, inGap]; split <;> rfl
theorem outOf_restGap (r : RelA) (gp : Gap) (fl : Follow) : outOf r gp fl = gapStr (restGap r gp fl) := by
  simp only [outOf, restGap]; split <;> rfl
theorem inGap_ok (r : RelA) (gp : Gap) (fl : Follow) (h : gapOk gp = true) : gapOk (inGap r gp fl) = true := by
  simp only [inGap]; split <;> first | exact h | rfl
theorem restGap_ok (r : RelA) (gp : Gap) (fl : Follow) (h : gapOk gp = true) : gapOk (restGap r gp fl) = true := by
  simp only [restGap]; split <;> first | exact h | rfl

theorem spec_setArchs_cons (r : RelA) (gp : Gap) (fl : Follow) (a : Str) (as : List Str) (hr : r.ok = true)
    (hg : gapOk gp = true) (hv : ∀ x ∈ a :: as, validArch x = true) :
    ∃ r' g', NodeSpec (setArchitectures · (a :: as)) (fun x => { x with architectures := some (a :: as) }) r gp fl r' g' := by
  obtain ⟨h1, h2, h3, h4, h5⟩ := (RelA.ok_iff r).1 hr
  cases ha : r.archs with
  | some ab =>
    refine ⟨_, gp, spec_keep _ _ r _ gp fl (fun t => setArchs_replace_node r ab ha a as t) ?_ hg ?_⟩
    · exact (RelA.ok_iff _).2 ⟨h1, h2, h3, fun b hb => by
        simp only [Option.some.injEq] at hb; subst hb
        exact archBracket_ok ab.pre ((Bracket.ok_iff ab).1 (h4 ab ha)).1 _ hv, h5⟩
    · simp [RelA.view, RelRec.ofLossy, archs_view]
  | none =>
    cases hp : r.profiles with
    | cons p1 ps =>
      have hp1 := (Bracket.ok_iff p1).1 (h5 p1 (by simp [hp]))
      refine ⟨_, gp, spec_keep _ _ r _ gp fl (fun t => setArchs_beforeProfiles_node r ha p1 ps hp a as t) ?_ hg ?_⟩
      · refine (RelA.ok_iff _).2 ⟨h1, h2, h3, fun b hb => ?_, ?_⟩
        · simp only [Option.some.injEq] at hb; subst hb
          exact archBracket_ok p1.pre hp1.1 _ hv
        · intro p hpm
          simp only [List.mem_cons] at hpm
          rcases hpm with rfl | hpm
          · exact (Bracket.ok_iff _).2 ⟨sp_ok, hp1.2.1, hp1.2.2.1, hp1.2.2.2⟩
          · exact h5 p (by simp [hp, hpm])
      · simp [RelA.view, RelRec.ofLossy, archs_view, hp]
    | nil =>
      refine ⟨{ r with archs := some ⟨snocSp (inGap r gp fl), canonItems archItem (a :: as), []⟩ }, restGap r gp fl, ?_, ?_, ?_, ?_⟩
      · exact (RelA.ok_iff _).2 ⟨h1, h2, h3, fun b hb => by
          simp only [Option.some.injEq] at hb; subst hb
          exact archBracket_ok _ (gapOk_snocSp _ (inGap_ok r gp fl hg)) _ hv, h5⟩
      · exact restGap_ok r gp fl hg
      · rw [tailOf_inGap, setArchs_append_node r ha hp a as, RelA.node_text', outOf_restGap]
        simp [RelA.str, Bracket.str, gapStr_snocSp]
      · simp [RelA.view, RelRec.ofLossy, archs_view]

theorem spec_addProfile (r : RelA) (gp : Gap) (fl : Follow) (g : List BuildProfile) (hr : r.ok = true)
    (hg : gapOk gp = true) (hv : ∀ p ∈ g, isIdent (profName p) = true) :
    ∃ r' g', NodeSpec (addProfile · g) (fun x => { x with profiles := x.profiles ++ [g] }) r gp fl r' g' := by
  obtain ⟨h1, h2, h3, h4, h5⟩ := (RelA.ok_iff r).1 hr
  rcases List.eq_nil_or_concat r.profiles with hp | ⟨ps, pl, hp⟩
  · refine ⟨{ r with profiles := [⟨snocSp (inGap r gp fl), canonItems profItem g, []⟩] }, restGap r gp fl, ?_, ?_, ?_, ?_⟩
    · exact (RelA.ok_iff _).2 ⟨h1, h2, h3, h4, fun p hpm => by
        simp only [List.mem_singleton] at hpm; subst hpm
        exact profBracket_ok _ (gapOk_snocSp _ (inGap_ok r gp fl hg)) _ hv⟩
    · exact restGap_ok r gp fl hg
    · rw [tailOf_inGap, addProfile_append_node r hp g, RelA.node_text', outOf_restGap]
      simp [RelA.str, Bracket.str, gapStr_snocSp, hp]
    · simp [RelA.view, RelRec.ofLossy, profs_view, hp]
  · rw [List.concat_eq_append] at hp
    refine ⟨_, gp, spec_keep _ _ r _ gp fl (fun t => addProfile_after_node r ps pl hp g t) ?_ hg ?_⟩
    · refine (RelA.ok_iff _).2 ⟨h1, h2, h3, h4, fun p hpm => ?_⟩
      simp only [List.mem_append, List.mem_singleton] at hpm
      rcases hpm with hpm | rfl
      · exact h5 p hpm
      · exact profBracket_ok sp sp_ok _ hv
    · simp [RelA.view, RelRec.ofLossy, profs_view]

/-! ### the relation and the gap found by `relAtSegs` are well-formed -/

theorem altAt_ok (fl : Follow) (post : Gap) (r : RelA) (rest : List AltA) (j : Nat) (rj : RelA) (gj : Gap) (flj : Follow)
    (h : altAt fl post r rest j = some (rj, gj, flj)) (hr : r.ok = true) (hrest : ∀ a ∈ rest, a.ok = true)
    (hp : gapOk post = true) : rj.ok = true ∧ gapOk gj = true := by
  induction rest generalizing r j with
  | nil =>
    cases j with
    | succ j => simp [altAt] at h
    | zero =>
      simp only [altAt, Option.some.injEq, Prod.mk.injEq] at h
      obtain ⟨rfl, rfl, _⟩ := h; exact ⟨hr, hp⟩
  | cons a as ih =>
    have ha := (AltA.ok_iff a).1 (hrest a (by simp))
    cases j with
    | zero =>
      simp only [altAt, Option.some.injEq, Prod.mk.injEq] at h
      obtain ⟨rfl, rfl, _⟩ := h; exact ⟨hr, ha.1⟩
    | succ j =>
      simp only [altAt] at h
      exact ih a.rel j h ha.2.2 (fun x hx => hrest x (by simp [hx]))

theorem relAt_ok (ss : List Seg) (i j : Nat) (rj : RelA) (gj : Gap) (flj : Follow)
    (h : relAtSegs ss i j = some (rj, gj, flj)) (hok : ∀ s ∈ ss, s.ok = true) : rj.ok = true ∧ gapOk gj = true := by
  induction ss generalizing i with
  | nil => simp [relAtSegs] at h
  | cons s ss ih =>
    have ih' := fun i h => ih i h (fun x hx => hok x (by simp [hx]))
    simp only [relAtSegs] at h
    split at h
    · rename_i r rest he
      obtain ⟨_, h2, h3, _⟩ := (Seg.ok_iff s).1 (hok s (by simp))
      rw [he] at h3
      simp only [EntryA.ok, Bool.and_eq_true, List.all_eq_true] at h3
      exact altAt_ok _ _ r rest j rj gj flj h h3.1 h3.2 h2
    · exact ih' _ h
    · exact ih' _ h

end Deb822Verif.Rel.Edit
