import Deb822Verif.Lemmas.CtlWrapMoreLines
/-!
  Strict re-read on the formatter path when the formatter's output ends with a line feed (the
  `Uploaders` formatter on a value with a trailing comma): the re-lexed output is
  `joinNL L ++ [NEWLINE]`, `rebuild_value` closes every line exactly once (`rebuildValue_lines_nl`),
  and the result is the node of an explicit well-formed, fully terminated field
  (`entryOut_lines_nl`). With the line structure of `Lemmas/CtlWrapMoreLines.lean` this gives the
  output field for EVERY well-formed `Uploaders` field none of whose output lines after the first
  starts with `#` (`entryOut_uploaders`).
-/
namespace Deb822Verif.Deb
open Deb822Verif Node Spec

/-! ### `rebuild_value` on lines followed by a NEWLINE token -/

theorem go_append_nl (ind : Nat) (T : List Tok) : ∀ b,
    rbGo ind (T ++ [(Kind.NEWLINE, ['\n'])]) b
      = ((rbGo ind T b).1 ++ (if (rbGo ind T b).2 then [Node.tok .INDENT (List.replicate ind ' ')] else [])
          ++ [Node.tok .NEWLINE ['\n']], true) := by
  induction T with
  | nil => intro b; cases b <;> rfl
  | cons t T ih => intro b; simp [rbGo, ih]

theorem go_flag_value (ind : Nat) (A : List Tok) (t : Str) : ∀ b,
    (rbGo ind (A ++ [(Kind.VALUE, t)]) b).2 = false := by
  induction A with
  | nil => intro b; simp [rbGo]
  | cons a A ih => intro b; simp [rbGo, ih]

theorem go_flag_joinNL (ind : Nat) (L : List Str) (hL : L ≠ []) (b : Bool) : (rbGo ind (joinNL L) b).2 = false := by
  obtain ⟨a, t, hat⟩ := joinNL_last L hL
  rw [hat]; exact go_flag_value ind a t b

theorem go_nl_eq (ind : Nat) (L : List Str) (hL : L ≠ []) (b : Bool) :
    (rbGo ind (joinNL L ++ [(Kind.NEWLINE, ['\n'])]) b).1 ++ rbClose (rbGo ind (joinNL L ++ [(Kind.NEWLINE, ['\n'])]) b).2
      = (rbGo ind (joinNL L) b).1 ++ rbClose (rbGo ind (joinNL L) b).2 := by
  rw [go_append_nl, go_flag_joinNL ind L hL b]
  simp [rbClose]

/-- **`rebuild_value` on value lines followed by a NEWLINE token**: every line is closed once — the
    layout is that of the lines alone in the multi-line form (never the one-liner) -/
theorem rebuildValue_lines_nl (l : Str) (L : List Str) (kl ind : Nat) (imm : Bool) (mx : Option Nat) :
    rebuildValue (joinNL (l :: L) ++ [(Kind.NEWLINE, ['\n'])]) kl ind imm mx =
      if imm && !(l.head? == some '#') then
        Node.tok .NEWLINE ['\n'] :: (contsToks ((l :: L).map (mkCont ind))).map tk
      else
        Node.tok .WHITESPACE [' '] ::
          ((Kind.VALUE, l) :: (Kind.NEWLINE, ['\n']) :: contsToks (L.map (mkCont ind))).map tk := by
  obtain ⟨R, hR⟩ : ∃ R, joinNL (l :: L) ++ [(Kind.NEWLINE, ['\n'])] = (Kind.VALUE, l) :: R := by
    cases L <;> exact ⟨_, rfl⟩
  have hnl : rbHasNewline (joinNL (l :: L) ++ [(Kind.NEWLINE, ['\n'])]) = true := by
    simp [rbHasNewline]
  have hcm : rbFirstIsComment (joinNL (l :: L) ++ [(Kind.NEWLINE, ['\n'])]) = false := by
    apply firstIsComment_none
    intro t ht
    simp only [List.mem_append, List.mem_cons, List.not_mem_nil, or_false] at ht
    rcases ht with ht | rfl
    · rcases mem_joinNL ht with h | h <;> simp [h]
    · simp
  have hh : rbFirstIsHash (joinNL (l :: L) ++ [(Kind.NEWLINE, ['\n'])]) = (l.head? == some '#') := by
    rw [hR]; exact firstIsHash_value _ _
  have hst : rbStrip (joinNL (l :: L) ++ [(Kind.NEWLINE, ['\n'])])
      = joinNL (l :: L) ++ [(Kind.NEWLINE, ['\n'])] := by
    rw [hR]; exact rbStrip_cons_neg _ _ (by rfl)
  unfold rebuildValue
  rw [hnl, hcm, hh, hst]
  simp only [Bool.not_true, Bool.and_false, Bool.false_eq_true, ↓reduceIte, Bool.false_or, Bool.and_true]
  by_cases hB : (imm && !(l.head? == some '#')) = true
  · rw [if_pos hB, if_pos hB, List.cons_append, go_nl_eq ind (l :: L) (by simp) true, go_joinNL_true ind (l :: L) (by simp)]
  · rw [if_neg hB, if_neg hB, List.cons_append, go_nl_eq ind (l :: L) (by simp) false, go_joinNL_false]

/-! ### the output field -/

theorem mkCont_all_nl (ind : Nat) (L : List Str) : ∀ c ∈ L.map (mkCont ind), c.nl = true := by
  intro c hc
  simp only [List.mem_map] at hc
  obtain ⟨t, _, rfl⟩ := hc; rfl

/-- **a formatter whose re-lexed output consists of good lines followed by a NEWLINE token** (its
    output ends with a line feed): the result is the node of a well-formed, fully terminated field —
    all lines as continuation lines, or the first one behind `": "` -/
theorem entryOut_toks_nl (cfg : WrapCfg) (f : Str → Str → Str) (e : EntryS) (more : Bool)
    (hwf : e.WF) (ht : e.Term more) (hc : IndentOK cfg) (L : List Str) (hL : GoodLines L)
    (htoks : fmtToks (f e.key (rawText e)) = joinNL L ++ [(Kind.NEWLINE, ['\n'])]) :
    ∃ eo, EntryOut cfg (some f) e eo ∧ eo.key = e.key ∧ eo.valueLines = L := by
  have hind := indOf_pos cfg e hc hwf.key_ok
  cases L with
  | nil => exact absurd rfl hL.ne
  | cons l L' =>
    have hl := hL.line l (by simp)
    have hl' : l ≠ [] := by obtain ⟨_, c, cs, rfl, _⟩ := hl; simp
    have htail : ∀ t ∈ L', ValidCont t := by
      intro t ht'
      obtain ⟨hn, x, xs, rfl, hi⟩ := hL.line t (by simp [ht'])
      refine ⟨hn, x, xs, rfl, hi, ?_⟩
      intro hx
      exact hL.nohash (x :: xs) (by simpa using ht') (by simp [hx])
    have hres := entryWrap_fmt_node cfg f e more hwf ht hc
    rw [htoks, rebuildValue_lines_nl] at hres
    by_cases hB : (cfg.immediateEmptyLine && !(l.head? == some '#')) = true
    · rw [if_pos hB] at hres
      refine ⟨⟨e.key, [], [], true, (l :: L').map (mkCont (indOf cfg e))⟩, ⟨?_, ?_, ?_⟩, rfl, ?_⟩
      · rw [hres]
        simp [EntryS.node, EntryS.toks, optTok, nlTok]
      · refine ⟨hwf.key_ok, allIndent_nil, validFirst_nil, ?_⟩
        intro c hcm
        simp only [List.mem_map] at hcm
        obtain ⟨t, ht', rfl⟩ := hcm
        apply mkCont_wf _ _ hind
        simp only [List.mem_cons] at ht'
        rcases ht' with rfl | ht'
        · obtain ⟨hn, x, xs, rfl, hi⟩ := hl
          refine ⟨hn, x, xs, rfl, hi, ?_⟩
          intro hx
          simp [hx] at hB
        · exact htail t ht'
      · exact ⟨rfl, mkCont_all_nl _ _⟩
      · simp [EntryS.valueLines, mkCont, Function.comp_def]
    · rw [if_neg hB] at hres
      refine ⟨⟨e.key, [' '], l, true, L'.map (mkCont (indOf cfg e))⟩, ⟨?_, ?_, ?_⟩, rfl, ?_⟩
      · rw [hres]
        simp [EntryS.node, EntryS.toks, optTok, nlTok, hl']
      · refine ⟨hwf.key_ok, allIndent_space, ?_, ?_⟩
        · obtain ⟨hn, x, xs, rfl, hi⟩ := hl
          exact ⟨hn, fun y hy => by simp at hy; subst hy; exact hi⟩
        · intro c hcm
          simp only [List.mem_map] at hcm
          obtain ⟨t, ht', rfl⟩ := hcm
          exact mkCont_wf _ _ hind (htail t ht')
      · exact ⟨rfl, mkCont_all_nl _ _⟩
      · simp [EntryS.valueLines, mkCont, Function.comp_def, hl']

/-! ### from the text of the output to its tokens -/

theorem splitOn_append_sep (sep : Char) (a b : Str) :
    Text.splitOn sep (a ++ sep :: b) = Text.splitOn sep a ++ Text.splitOn sep b := by
  induction a with
  | nil => simp [Text.splitOn]
  | cons c a ih =>
    by_cases hc : c = sep
    · simp [Text.splitOn, hc, ih]
    · cases hs : Text.splitOn sep a with
      | nil => exact absurd hs (Ctl.splitOn_ne_nil' sep a)
      | cons x xs =>
        simp only [List.cons_append, Text.splitOn, hc, ↓reduceIte, ih, hs]

theorem lineToks_nil : lineToks [] = [] := by simp [lineToks, optTok]

theorem linesToks_snoc_nil (L : List Str) (hne : L ≠ [])
    (h : ∀ l ∈ L, ∃ c cs, l = c :: cs ∧ isIndent c = false) :
    linesToks (L ++ [[]]) = joinNL L ++ [(Kind.NEWLINE, ['\n'])] := by
  induction L with
  | nil => exact absurd rfl hne
  | cons l r ih =>
    cases r with
    | nil =>
      simp only [List.cons_append, List.nil_append, linesToks, joinNL, lineToks_nil]
      rw [lineToks_plain l (h l (by simp))]
      rfl
    | cons u r' =>
      have ih' := ih (by simp) fun x hx => h x (by simp [hx])
      simp only [List.cons_append] at ih' ⊢
      simp only [linesToks, joinNL]
      rw [ih', lineToks_plain l (h l (by simp))]
      rfl

/-- the tokens of an output made of good lines, LF-terminated -/
theorem fmtToks_lines_nl (L : List Str) (h : GoodLines L) :
    fmtToks (Text.join ['\n'] L ++ ['\n']) = joinNL L ++ [(Kind.NEWLINE, ['\n'])] := by
  unfold fmtToks
  have hn : ∀ l ∈ L, NoNl l := fun l hl => (h.line l hl).1
  rw [splitOn_append_sep, ← tokText_joinNL, tokText_joinNL_split L h.ne hn]
  rw [show Text.splitOn '\n' [] = [[]] from rfl]
  rw [lexLines_eq (L ++ [[]]) (by
    intro l hl
    simp only [List.mem_append, List.mem_cons, List.not_mem_nil, or_false] at hl
    rcases hl with hl | rfl
    · exact hn l hl
    · intro c hc; cases hc)]
  exact linesToks_snoc_nil L h.ne fun l hl => (h.line l hl).2

/-- **strict re-read, output ending with a line feed**: a formatter whose output for the field is
    good lines joined by LF and followed by one more LF -/
theorem entryOut_lines_nl (cfg : WrapCfg) (f : Str → Str → Str) (e : EntryS) (more : Bool)
    (hwf : e.WF) (ht : e.Term more) (hc : IndentOK cfg) (L : List Str) (hL : GoodLines L)
    (hout : f e.key (rawText e) = Text.join ['\n'] L ++ ['\n']) :
    ∃ eo, EntryOut cfg (some f) e eo ∧ eo.key = e.key ∧ eo.valueLines = L :=
  entryOut_toks_nl cfg f e more hwf ht hc L hL (by rw [hout]; exact fmtToks_lines_nl L hL)

end Deb822Verif.Deb

namespace Deb822Verif.Ctl
open Deb822Verif Deb Node Spec

theorem fmtCommaLines_nocr (k v : Str) (hcr : '\r' ∉ v) : '\r' ∉ fmtCommaLines k v := by
  intro hm
  rcases fmtCommaLines_chars _ _ _ hm with h1 | h1 | h1
  · exact hcr h1
  · cases h1
  · cases h1

/-- good lines from the line list of an output without a `#` line -/
theorem goodLines_of (ls L : List Str) (hne : L ≠ []) (hsub : ∀ l ∈ L.tail, l ∈ ls.drop 1)
    (hnonl : ∀ l ∈ L, NoNl l) (hg : ∀ l ∈ L, GoodL l)
    (hh : ((ls.drop 1).any fun l => (l.dropWhile isIndent).head? == some '#') = false) : GoodLines L := by
  refine ⟨hne, fun l hl => ⟨hnonl l hl, hg l hl⟩, ?_⟩
  intro l hl hhead
  have h1 := List.any_eq_false.1 hh l (hsub l hl)
  obtain ⟨c, cs, rfl, hi⟩ := hg l (List.mem_of_mem_tail hl)
  simp only [List.dropWhile_cons, hi, Bool.false_eq_true, ↓reduceIte] at h1
  rw [hhead] at h1
  simp at h1

/-- **every well-formed `Uploaders` field is reformatted to the node of a well-formed, fully
    terminated field**, unless a line after the first of the formatter's output starts with `#`
    (finding F-C07-10): also with a trailing comma (output ending with LF), empty elements, an empty
    value -/
theorem entryOut_uploaders (cfg : WrapCfg) (e : EntryS) (more : Bool) (hwf : e.WF) (ht : e.Term more)
    (hc : IndentOK cfg) (hk : e.key = kUploaders)
    (hh : hashLine (fmtCommaLines kUploaders (rawText e)) = false) :
    ∃ eo, EntryOut cfg (some formatField) e eo := by
  have hff : formatField e.key (rawText e) = fmtCommaLines kUploaders (rawText e) := by
    rw [hk, formatField_uploaders]
  generalize hout : fmtCommaLines kUploaders (rawText e) = out at hff hh
  have hcr : '\r' ∉ out := by rw [← hout]; exact fmtCommaLines_nocr _ _ (rawText_nocr e hwf)
  have hnonl := splitOn_nonl out hcr
  have hlines := lineOK_lines out true (by rw [← hout]; exact lineOK_uploaders kUploaders e hwf)
  simp only [↓reduceIte] at hlines
  have hjoin := join_splitOn '\n' out
  unfold hashLine at hh
  rcases linesOK_shape _ (splitOn_ne_nil' '\n' out) hlines with he | ⟨L, hLne, hg, he | he⟩
  · -- the output is empty
    rw [he] at hjoin
    have hempty : out = [] := by rw [← hjoin]; rfl
    exact ⟨_, entryOut_line cfg formatField e more hwf ht hc
      (by rw [hff, hempty]; intro c hcm; cases hcm) (by rw [hff, hempty]; intro c hcm; cases hcm)⟩
  · -- good lines, no trailing line feed
    have hL : GoodLines L := goodLines_of _ L hLne
      (by intro l hl; rw [he, List.drop_one]; exact hl)
      (fun l hl => hnonl l (by rw [he]; exact hl)) hg hh
    rw [he] at hjoin
    exact ⟨_, entryOut_lines cfg formatField e more hwf ht hc L hL (by rw [hff, hjoin])⟩
  · -- good lines and a trailing line feed (trailing comma)
    have hL : GoodLines L := goodLines_of _ L hLne
      (by
        intro l hl
        rw [he, List.drop_one, List.tail_append_of_ne_nil hLne]
        simp [hl])
      (fun l hl => hnonl l (by rw [he]; simp [hl])) hg hh
    have htoks : fmtToks (formatField e.key (rawText e)) = joinNL L ++ [(Kind.NEWLINE, ['\n'])] := by
      rw [hff]
      unfold fmtToks
      rw [lexLines_eq _ hnonl, he]
      exact linesToks_snoc_nil L hLne hg
    obtain ⟨eo, heo, _⟩ := entryOut_toks_nl cfg formatField e more hwf ht hc L hL htoks
    exact ⟨eo, heo⟩

/-- the same with the hypothesis on the input: no element after the first starts with `#` -/
theorem entryOut_uploaders_elems (cfg : WrapCfg) (e : EntryS) (more : Bool) (hwf : e.WF) (ht : e.Term more)
    (hc : IndentOK cfg) (hk : e.key = kUploaders) (hel : ElemsNoHash (rawText e)) :
    ∃ eo, EntryOut cfg (some formatField) e eo :=
  entryOut_uploaders cfg e more hwf ht hc hk (hashLine_of_elems kUploaders e hwf hel)

end Deb822Verif.Ctl
