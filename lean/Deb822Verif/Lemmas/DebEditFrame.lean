import Deb822Verif.Model.DebEdit
/-!
  Tree-level facts about the editing primitives of `Model/DebEdit.lean`, for EVERY tree:
  what `terminateLastLine`, `replaceFirst`, `Entry::new` do to the child list and to its text.
  (Used by the frame clauses of C04 / C05 and by `Lemmas/DebEditDoc.lean`.)
-/
namespace Deb822Verif.Deb
open Node

/-! ### `terminateLast` / `terminateLastLine` -/

def lastIsNode' (cs : List DNode) : Bool :=
  match cs.getLast? with
  | some (Node.node _ _) => true
  | _ => false

/-- the last child after `terminateLast` -/
def terminatedLast' : DNode → List DNode
  | .tok k t => [.tok k t, .tok .NEWLINE ['\n']]
  | .node k cs => [.node k (if lastIsNode' cs then terminateLast cs else cs ++ [.tok .NEWLINE ['\n']])]

theorem terminateLast_snoc' (init : List DNode) (last : DNode) :
    terminateLast (init ++ [last]) = init ++ terminatedLast' last := by
  induction init with
  | nil =>
    cases last with
    | tok k t => simp [terminateLast, terminatedLast']
    | node k cs =>
      simp only [List.nil_append, terminateLast, terminatedLast', lastIsNode']
      split <;> simp_all
  | cons c init ih =>
    cases init with
    | nil => simp only [List.cons_append, List.nil_append] at ih ⊢; rw [terminateLast, ih]
    | cons d init => simp only [List.cons_append] at ih ⊢; rw [terminateLast, ih]

theorem snoc_cases {α} (cs : List α) : cs = [] ∨ ∃ init last, cs = init ++ [last] := by
  cases h : cs.getLast? with
  | none => left; simpa using h
  | some x => right; exact ⟨_, x, (List.getLast?_eq_some_iff.mp h).choose_spec⟩

/-- whether `terminate_last_line` has to supply a terminator: there is a last token and it is
    not a NEWLINE -/
def needsNl (cs : List DNode) : Bool :=
  match lastLeafKind cs with
  | none => false
  | some k => k != .NEWLINE

/-- the parse of `A` (a key at the end of the input) is `PARAGRAPH(ENTRY(KEY "A", ERROR()))`: the
    chain of last children ends in the EMPTY ERROR node, so `last_token()` is `None` although the
    tree has a last leaf, and `terminate_last_line` does nothing — `insert` then fuses the new field
    with the dangling key, exactly as /repo does (`deb.hist t.x41 ins.0.x42.x63` prints `AB: c\n`) -/
example : needsNl (parse "A".toList).tree.children = false
    ∧ (leavesList (parse "A".toList).tree.children).getLast? = some (.KEY, "A".toList)
    ∧ (match (parse "A".toList).tree.children with
       | [Node.node .PARAGRAPH cs] => textList (paraInsert cs "B".toList "c".toList)
       | _ => []) = "AB: c\n".toList := by decide +kernel

theorem terminateLastLine_of_not_needs (cs : List DNode) (h : needsNl cs = false) :
    terminateLastLine cs = cs := by
  unfold needsNl at h
  unfold terminateLastLine
  split
  · rfl
  · rename_i k hk
    rw [hk] at h
    have : k = .NEWLINE := by simpa using h
    simp [this]

/-- `terminateLast` adds exactly one `\n` at the very end of the text -/
theorem textList_terminateLast' (cs : List DNode) (h : cs ≠ []) :
    textList (terminateLast cs) = textList cs ++ ['\n'] := by
  fun_induction terminateLast cs
  case case1 => exact absurd rfl h
  case case2 k cs a b hl ih =>
    have : cs ≠ [] := by intro e; subst e; simp at hl
    simp [ih this]
  case case3 => simp
  case case4 => simp
  case case5 c d cs ih => simp [ih (by simp)]

theorem text_terminateLast_node (n : DNode) : textList (terminatedLast' n) = n.text ++ ['\n'] := by
  have := textList_terminateLast' [n] (by simp)
  rw [show [n] = [] ++ [n] from rfl, terminateLast_snoc'] at this
  simpa using this

/-- **terminator characterisation**: `terminate_last_line` changes the text by exactly one `\n`
    appended at the end, and only when the last token exists and is not a NEWLINE -/
theorem textList_terminateLastLine (cs : List DNode) :
    textList (terminateLastLine cs) = textList cs ++ (if needsNl cs then ['\n'] else []) := by
  by_cases hn : needsNl cs = false
  · simp [terminateLastLine_of_not_needs cs hn, hn]
  · have hn' : needsNl cs = true := by simpa using hn
    simp only [hn', ↓reduceIte]
    unfold needsNl at hn'
    unfold terminateLastLine
    split
    · rename_i h0; rw [h0] at hn'; simp at hn'
    · rename_i k hk
      rw [hk] at hn'
      have hk' : k ≠ .NEWLINE := by simpa using hn'
      simp only [hk', ↓reduceIte]
      have hne : cs ≠ [] := by
        intro e; subst e; simp [lastLeafKind, lastTok_nil] at hk
      split
      · simp
      · exact textList_terminateLast' cs hne

/-- only the last child is modified (a NEWLINE token is appended inside or after it) -/
theorem terminateLastLine_shape (cs : List DNode) :
    terminateLastLine cs = cs ∨
    ∃ init last last', cs = init ++ [last] ∧ terminateLastLine cs = init ++ last' ∧
      textList last' = last.text ++ ['\n'] := by
  by_cases hn : needsNl cs = false
  · left; exact terminateLastLine_of_not_needs cs hn
  · right
    have hn' : needsNl cs = true := by simpa using hn
    unfold needsNl at hn'
    have hne : cs ≠ [] := by
      intro e; subst e; simp [lastLeafKind, lastTok_nil] at hn'
    rcases snoc_cases cs with rfl | ⟨init, last, rfl⟩
    · exact absurd rfl hne
    · unfold terminateLastLine
      split
      · rename_i h0; rw [h0] at hn'; simp at hn'
      · rename_i k hk
        rw [hk] at hn'
        have hk' : k ≠ .NEWLINE := by simpa using hn'
        simp only [hk', ↓reduceIte]
        split
        · rename_i k' t' hl
          have : last = .tok k' t' := by simpa using hl
          subst this
          exact ⟨init, _, [.tok k' t', .tok .NEWLINE ['\n']], rfl, by simp, by simp⟩
        · exact ⟨init, last, terminatedLast' last, rfl, terminateLast_snoc' init last,
            text_terminateLast_node last⟩

/-! ### `replaceFirst` -/

theorem replaceFirst_some (p : DNode → Bool) (f : DNode → DNode) (cs cs' : List DNode)
    (h : replaceFirst p f cs = some cs') :
    ∃ pre e post, cs = pre ++ e :: post ∧ (∀ c ∈ pre, p c = false) ∧ p e = true ∧
      cs' = pre ++ f e :: post := by
  induction cs generalizing cs' with
  | nil => simp [replaceFirst] at h
  | cons c cs ih =>
    simp only [replaceFirst] at h
    split at h
    · rename_i hc
      simp at h; subst h
      exact ⟨[], c, cs, rfl, by simp, hc, rfl⟩
    · rename_i hc
      split at h
      · rename_i cs'' hr
        simp at h; subst h
        obtain ⟨pre, e, post, h1, h2, h3, h4⟩ := ih cs'' hr
        refine ⟨c :: pre, e, post, by simp [h1], ?_, h3, by simp [h4]⟩
        intro x hx
        simp only [List.mem_cons] at hx
        rcases hx with rfl | hx
        · simpa using hc
        · exact h2 x hx
      · simp at h

theorem replaceFirst_none (p : DNode → Bool) (f : DNode → DNode) (cs : List DNode)
    (h : replaceFirst p f cs = none) : ∀ c ∈ cs, p c = false := by
  induction cs with
  | nil => simp
  | cons c cs ih =>
    simp only [replaceFirst] at h
    split at h
    · simp at h
    · rename_i hc
      split at h
      · simp at h
      · rename_i hr
        intro x hx
        simp only [List.mem_cons] at hx
        rcases hx with rfl | hx
        · simpa using hc
        · exact ih hr x hx

theorem replaceFirst_skip (p : DNode → Bool) (f : DNode → DNode) (ts rest : List DNode)
    (h : ∀ t ∈ ts, p t = false) :
    replaceFirst p f (ts ++ rest) = (replaceFirst p f rest).map (ts ++ ·) := by
  induction ts with
  | nil => cases h0 : replaceFirst p f rest <;> simp [h0]
  | cons t ts ih =>
    have ht : p t = false := h t (by simp)
    simp only [List.cons_append, replaceFirst, ht, Bool.false_eq_true, ↓reduceIte]
    rw [ih (fun x hx => h x (by simp [hx]))]
    cases replaceFirst p f rest <;> simp

/-! ### the text of `Entry::new` -/

theorem textList_valueLineToks (ls : List Str) :
    textList (valueLineToks false ls) = (ls.map fun l => ' ' :: l ++ ['\n']).flatten := by
  induction ls with
  | nil => simp [valueLineToks]
  | cons l ls ih => simp [valueLineToks, ih]

/-- `Entry::new(k, v)` prints as `k: ` + the lines of `v`, each LF-terminated, every line but the
    first indented by one space -/
theorem text_entryNew (k v : Str) :
    (entryNew k v).text = k ++ ':' :: ' ' ::
      (match Text.splitOn '\n' v with
       | [] => []
       | l :: ls => l ++ '\n' :: (ls.map fun l => ' ' :: l ++ ['\n']).flatten) := by
  simp only [entryNew, text_node, textList_append, textList_cons, text_tok, textList_nil]
  cases Text.splitOn '\n' v with
  | nil => simp [valueLineToks]
  | cons l ls => simp [valueLineToks, textList_valueLineToks]

end Deb822Verif.Deb
