import Deb822Verif.Spec.DocC
import Deb822Verif.Lemmas.DebWrapRereadC
import Deb822Verif.Lemmas.DebLexLines
import Deb822Verif.Lemmas.DebWrapReread
/-!
  Lexer inversion for documents with comment lines inside values (`Spec/DocC.lean`): on a
  well-formed `DocC` the lexer produces exactly `DocC.toks`. The analogue of `lex_doc`
  (Lemmas/DebLexLines.lean), built from the same per-line lemmas plus `lex_indentComment`
  (Lemmas/DebWrapRereadC.lean). Names live in the namespace `DebC` (same base names as the `DocS`
  development in `Deb`).
-/
namespace Deb822Verif.DebC
open Deb822Verif Deb Node Spec

/-- continuation lines (value lines and indented comment lines); only the very last line of the
    input may lack its terminator -/
theorem lex_conts (cs : List ContC) (more : Bool) (rest : Str) (hwf : ∀ c ∈ cs, c.WF)
    (hterm : contsTermCM cs more) (hmore : more = false → rest = []) :
    lexAux initState ((cs.map ContC.str).flatten ++ rest) = contsToksC cs ++ lexAux initState rest := by
  induction cs with
  | nil => simp [contsToksC]
  | cons c cs ih =>
    have hc := hwf c (by simp)
    obtain ⟨hn, hrest⟩ := hterm
    have hnl : c.nl = true ∨ (cs.map ContC.str).flatten ++ rest = [] := by
      rcases hn with h | ⟨h1, h2⟩
      · exact Or.inl h
      · right; subst h1; simp [hmore h2]
    have he := lineEnd_nlText c.nl _ hnl
    have ih' := ih (fun x hx => hwf x (by simp [hx])) hrest
    simp only [List.map_cons, List.flatten_cons, ContC.str, List.append_assoc, contsToksC_cons]
    cases hi : c.isC with
    | false =>
      have htx := hc.text_ok
      rw [hi] at htx
      simp only [Bool.false_eq_true, ↓reduceIte] at htx
      have := lex_contLine c.indent c.text (nlText c.nl ++ ((cs.map ContC.str).flatten ++ rest))
        hc.indent_ne hc.indent_ok htx he
      simp only [List.append_assoc] at this
      rw [this, lex_nlText _ _ _ hnl, ih']
      simp [ContC.toks, ContC.tok, ContC.kind, hi]
    | true =>
      have htx := hc.text_ok
      rw [hi] at htx
      simp only [↓reduceIte] at htx
      obtain ⟨t, hte, htn⟩ := htx
      have := lex_indentComment c.indent t (nlText c.nl ++ ((cs.map ContC.str).flatten ++ rest))
        hc.indent_ne hc.indent_ok htn he
      simp only [List.append_assoc] at this
      rw [hte, this, lex_nlText _ _ _ hnl, ih']
      simp [ContC.toks, ContC.tok, ContC.kind, hi, hte]

theorem lex_entry (e : EntryC) (more : Bool) (rest : Str) (hwf : e.WF) (hterm : e.TermM more)
    (hmore : more = false → rest = []) :
    lexAux initState (e.str ++ rest) = e.toks ++ lexAux initState rest := by
  obtain ⟨hn, hct⟩ := hterm
  have hnl : e.nl = true ∨ (e.conts.map ContC.str).flatten ++ rest = [] := by
    rcases hn with h | ⟨h1, h2⟩
    · exact Or.inl h
    · right; rw [h1]; simp [hmore h2]
  have he := lineEnd_nlText e.nl _ hnl
  have := lex_fieldLine e.key e.ws e.v (nlText e.nl ++ ((e.conts.map ContC.str).flatten ++ rest))
    hwf.key_ok hwf.ws_ok hwf.v_ok he
  simp only [EntryC.str, List.append_assoc, List.cons_append] at this ⊢
  rw [this, lex_nlText _ _ _ hnl, lex_conts e.conts more rest hwf.conts_ok hct hmore]
  simp [EntryC.toks, EntryC.tailToks]

theorem lex_items (is : List PItemC) (more : Bool) (rest : Str) (hwf : ∀ i ∈ is, i.WF)
    (hterm : itemsTermC is more) (hmore : more = false → rest = []) :
    lexAux initState ((is.map PItemC.str).flatten ++ rest) = itemsToksC is ++ lexAux initState rest := by
  induction is with
  | nil => simp [itemsToksC]
  | cons i is ih =>
    have hi := hwf i (by simp)
    have hrec := fun ht => ih (fun x hx => hwf x (by simp [hx])) ht
    cases i with
    | comment t nl =>
      obtain ⟨hn, hrest⟩ := hterm
      have hnl : nl = true ∨ (is.map PItemC.str).flatten ++ rest = [] := by
        rcases hn with h | ⟨h1, h2⟩
        · exact Or.inl h
        · right; subst h1; simp [hmore h2]
      have he := lineEnd_nlText nl _ hnl
      have := lex_commentLine t (nlText nl ++ ((is.map PItemC.str).flatten ++ rest)) hi he
      simp only [List.map_cons, List.flatten_cons, PItemC.str, List.append_assoc, List.cons_append,
        itemsToksC] at this ⊢
      rw [this, lex_nlText _ _ _ hnl, hrec hrest]
      simp [PItemC.toks, itemsToksC]
    | entry e =>
      obtain ⟨hn, hrest⟩ := hterm
      simp only [List.map_cons, List.flatten_cons, PItemC.str, List.append_assoc, itemsToksC]
      rw [lex_entry e (!is.isEmpty || more) _ hi hn (by
        intro h
        simp only [Bool.or_eq_false_iff, Bool.not_eq_eq_eq_not, Bool.not_false,
          List.isEmpty_iff] at h
        rw [h.1]; simp [hmore h.2])]
      rw [hrec hrest]
      simp [PItemC.toks, itemsToksC]

theorem lex_para (p : ParaC) (more : Bool) (rest : Str) (hwf : p.WF) (hterm : p.Term more)
    (hmore : more = false → rest = []) :
    lexAux initState (p.str ++ rest) = p.toks ++ lexAux initState rest := by
  obtain ⟨h1, h2⟩ := hterm
  simp only [ParaC.str, List.append_assoc, ParaC.toks]
  rw [lex_entry p.first (!p.rest.isEmpty || more) _ hwf.first_ok h1 (by
    intro h
    simp only [Bool.or_eq_false_iff, Bool.not_eq_eq_eq_not, Bool.not_false, List.isEmpty_iff] at h
    rw [h.1]; simp [hmore h.2])]
  rw [lex_items p.rest more rest hwf.rest_ok h2 hmore]

theorem lex_paras (ps : List (ParaC × List Gap)) (hwf : ∀ pg ∈ ps, pg.1.WF ∧ ∀ g ∈ pg.2, g.WF)
    (hterm : parasTermC ps) :
    lexAux initState ((ps.map fun pg => pg.1.str ++ gapsStr pg.2).flatten) = parasToksC ps := by
  induction ps with
  | nil => simp [parasToksC, lexAux_nil]
  | cons pg ps ih =>
    obtain ⟨p, g⟩ := pg
    have hp := hwf (p, g) (by simp)
    cases ps with
    | nil =>
      obtain ⟨h1, _, h2⟩ := hterm
      simp only [List.map_cons, List.map_nil, List.flatten_cons, List.flatten_nil, List.append_nil,
        parasToksC]
      rw [lex_para p (!g.isEmpty) (gapsStr g) hp.1 h1 (by
        intro h; simp at h; subst h; simp [gapsStr])]
      have := lex_gaps g false [] hp.2 h2 (fun _ => rfl)
      simp only [List.append_nil, lexAux_nil] at this
      rw [this]
    | cons q ps =>
      obtain ⟨h1, ⟨g', hg⟩, h2, h3⟩ := hterm
      have ihq := ih (fun x hx => hwf x (by simp [hx])) h3
      simp only [List.map_cons, List.flatten_cons, parasToksC, List.append_assoc] at ihq ⊢
      rw [lex_para p true _ hp.1 h1 (by simp)]
      rw [lex_gaps g true _ hp.2 h2 (by simp)]
      rw [ihq]

/-- **Lexer inversion** for documents with comment lines inside values: the lexer produces exactly
    `DocC.toks`. -/
theorem lex_doc (d : DocC) (h : d.WF) : lex d.str = d.toks := by
  unfold lex DocC.str DocC.toks
  rw [lex_gaps d.lead (!d.paras.isEmpty) _ h.lead_ok h.lead_term (by
    intro hm; simp at hm; rw [hm]; simp)]
  rw [lex_paras d.paras h.paras_ok h.paras_term]

theorem tokText_docToks (d : DocC) (h : d.WF) : tokText d.toks = d.str := by
  rw [← lex_doc d h]; exact lexAux_tokText _ _

end Deb822Verif.DebC
