import Deb822Verif.Spec.DocSDec
import Deb822Verif.Lemmas.DebEditFrame
import Deb822Verif.Lemmas.DebContentDoc
import Deb822Verif.Lemmas.SplitOn
/-!
  Edited documents as structured values.

  A document under edit is a list of *units* (`EUnit`): blank / comment lines between paragraphs
  (`Gap`) and paragraph bodies — ANY list of comment lines and fields, possibly empty (a paragraph
  just added, or one whose fields were all removed), possibly starting with comment lines (after
  the first field was removed). `EUnit.node` is the tree, `UWF` the well-formedness invariant
  (valid names / values, only the very last line may lack its terminator, a paragraph is followed
  by a blank line or nothing).

  * every edit of `Model/DebEdit.lean` maps `UWF` unit lists to `UWF` unit lists (tree equation
    + invariant): section "operations";
  * the text of a `UWF` unit list is the text of a well-formed `DocS` (`erase`), whose content
    is the non-empty paragraphs' content: section "erasure". With `C03_parse_inverts` this gives
    the re-read clauses of C04 / C05.
-/
namespace Deb822Verif.Spec
open Deb822Verif Deb Node

/-! ### valid arguments of `Entry::new` -/

/-- a value `Entry::new` can lay out so that it reads back: its lines (split at `\n`) are
    non-empty, free of CR/LF, do not start with space/tab, and every line but the first does not
    start with `#` (the harness' `canon_value(v) && !v.is_empty() && !v.starts_with('\n')`) -/
def ValidValue (v : Str) : Prop :=
  match Text.splitOn '\n' v with
  | [] => False
  | l :: ls => l ≠ [] ∧ ValidFirst l ∧ ∀ t ∈ ls, ValidCont t

instance (v : Str) : Decidable (ValidValue v) := by
  unfold ValidValue; split <;> exact inferInstance

def mkCont (t : Str) : ContS := ⟨[' '], t, true⟩

/-- the field `Entry::new(k, v)` builds -/
def newEntry (k v : Str) : EntryS :=
  match Text.splitOn '\n' v with
  | [] => ⟨k, [' '], [], true, []⟩
  | l :: ls => ⟨k, [' '], l, true, ls.map mkCont⟩

/-- `Entry::new(k, "")` as a field of the grammar (its TREE has an empty VALUE token, see
    `LItem.bare`) -/
def bareS (k : Str) : EntryS := ⟨k, [' '], [], true, []⟩

/-! ### paragraph bodies and units -/

/-- one item of a paragraph under edit; `bare k` is the entry `Entry::new(k, "")` (what `rename`
    makes of a field with an empty value): it prints as `k: \n` but carries an empty VALUE token -/
inductive LItem
  | comment (t : Str) (nl : Bool)
  | entry (e : EntryS)
  | bare (k : Str)
  deriving Repr, DecidableEq

def LItem.toP : LItem → PItem
  | .comment t nl => .comment t nl
  | .entry e => .entry e
  | .bare k => .entry (bareS k)

def LItem.nodes : LItem → List DNode
  | .comment t nl => ((.COMMENT, '#' :: t) :: nlTok nl).map tk
  | .entry e => [e.node]
  | .bare k => [entryNew k []]

def lnodes (b : List LItem) : List DNode := (b.map LItem.nodes).flatten
def toPs (b : List LItem) : List PItem := b.map LItem.toP

inductive EUnit
  | gap (g : Gap)
  | para (b : List LItem)
  deriving Repr, DecidableEq

def EUnit.node : EUnit → DNode
  | .gap g => g.node
  | .para b => .node .PARAGRAPH (lnodes b)

def bodyStr (b : List LItem) : Str := ((toPs b).map PItem.str).flatten
def EUnit.str : EUnit → Str
  | .gap g => g.str
  | .para b => bodyStr b

def unitsStr (us : List EUnit) : Str := (us.map EUnit.str).flatten
def unitsKids (us : List EUnit) : List DNode := us.map EUnit.node

theorem lnodes_nil : lnodes [] = [] := rfl
theorem lnodes_cons (i : LItem) (is) : lnodes (i :: is) = i.nodes ++ lnodes is := by simp [lnodes]
theorem lnodes_append (a b : List LItem) : lnodes (a ++ b) = lnodes a ++ lnodes b := by simp [lnodes]
theorem bodyStr_cons (i : LItem) (is) : bodyStr (i :: is) = i.toP.str ++ bodyStr is := by
  simp [bodyStr, toPs]

/-! ### the text of the tree is the text of the units -/

theorem textList_toks (ts : List Tok) : textList (ts.map tk) = tokText ts := by
  induction ts with
  | nil => rfl
  | cons t ts ih => simp [ih]

theorem tokText_optTok (k : Kind) (s : Str) : tokText (optTok k s) = s := by
  unfold optTok; split <;> simp_all

theorem tokText_nlTok (nl : Bool) : tokText (nlTok nl) = nlText nl := by
  cases nl <;> simp [nlTok, nlText]

theorem tokText_conts (cs : List ContS) : tokText (contsToks cs) = (cs.map ContS.str).flatten := by
  induction cs with
  | nil => rfl
  | cons c cs ih =>
    have : contsToks (c :: cs) = c.toks ++ contsToks cs := by simp [contsToks]
    rw [this, tokText_append, ih]
    simp [ContS.toks, ContS.str, tokText_nlTok]

theorem tokText_entry (e : EntryS) : tokText e.toks = e.str := by
  simp [EntryS.toks, EntryS.str, tokText_optTok, tokText_nlTok, tokText_conts]

theorem text_entry_node (e : EntryS) : e.node.text = e.str := by
  simp [EntryS.node, textList_toks, tokText_entry]

theorem text_gap_node (g : Gap) : g.node.text = g.str := by
  cases g <;> simp [Gap.node, Gap.toks, Gap.str, textList_toks, tokText_nlTok]

theorem text_bare (k : Str) : (entryNew k []).text = (bareS k).str := by
  simp [text_entryNew, Text.splitOn, bareS, EntryS.str, nlText]

theorem textList_item (i : LItem) : textList i.nodes = i.toP.str := by
  cases i with
  | comment t nl =>
    simp only [LItem.nodes, textList_toks, LItem.toP, PItem.str]
    simp [tokText_nlTok]
  | entry e => simp [LItem.nodes, LItem.toP, PItem.str, text_entry_node]
  | bare k => simp [LItem.nodes, LItem.toP, PItem.str, text_bare]

theorem textList_lnodes (b : List LItem) : textList (lnodes b) = bodyStr b := by
  induction b with
  | nil => rfl
  | cons i is ih => rw [lnodes_cons, textList_append, textList_item, ih, bodyStr_cons]

theorem text_unit (u : EUnit) : u.node.text = u.str := by
  cases u with
  | gap g => exact text_gap_node g
  | para b => simp [EUnit.node, EUnit.str, textList_lnodes]

theorem textList_units (us : List EUnit) : textList (unitsKids us) = unitsStr us := by
  induction us with
  | nil => rfl
  | cons u us ih =>
    simp only [unitsKids, List.map_cons, textList_cons, unitsStr, List.flatten_cons] at ih ⊢
    rw [text_unit, ih]

/-! ### line termination: "fully terminated", monotonicity, append -/

def EntryS.AllNl (e : EntryS) : Prop := e.nl = true ∧ ∀ c ∈ e.conts, c.nl = true
def PItem.AllNl : PItem → Prop
  | .comment _ nl => nl = true
  | .entry e => e.AllNl

theorem contsTerm_of_allNl (cs : List ContS) (m : Bool) (h : ∀ c ∈ cs, c.nl = true) : contsTerm cs m := by
  induction cs with
  | nil => trivial
  | cons c cs ih =>
    exact ⟨Or.inl (h c (by simp)), ih (fun x hx => h x (by simp [hx]))⟩

theorem allNl_of_contsTerm (cs : List ContS) (h : contsTerm cs true) : ∀ c ∈ cs, c.nl = true := by
  induction cs with
  | nil => simp
  | cons c cs ih =>
    obtain ⟨h1, h2⟩ := h
    intro x hx
    simp only [List.mem_cons] at hx
    rcases hx with rfl | hx
    · rcases h1 with h | ⟨_, h⟩
      · exact h
      · simp at h
    · exact ih h2 x hx

theorem contsTerm_mono (cs : List ContS) (m m' : Bool) (hm : m' = true → m = true)
    (h : contsTerm cs m) : contsTerm cs m' := by
  induction cs with
  | nil => trivial
  | cons c cs ih =>
    obtain ⟨h1, h2⟩ := h
    refine ⟨?_, ih h2⟩
    rcases h1 with h | ⟨ha, hb⟩
    · exact Or.inl h
    · right; refine ⟨ha, ?_⟩
      cases m' with
      | false => rfl
      | true => rw [hm rfl] at hb; simp at hb

theorem EntryS.term_of_allNl (e : EntryS) (m : Bool) (h : e.AllNl) : e.Term m :=
  ⟨Or.inl h.1, contsTerm_of_allNl _ _ h.2⟩

theorem EntryS.allNl_of_term (e : EntryS) (h : e.Term true) : e.AllNl := by
  obtain ⟨h1, h2⟩ := h
  refine ⟨?_, allNl_of_contsTerm _ h2⟩
  rcases h1 with h | ⟨_, h⟩
  · exact h
  · simp at h

theorem EntryS.term_mono (e : EntryS) (m m' : Bool) (hm : m' = true → m = true) (h : e.Term m) :
    e.Term m' := by
  obtain ⟨h1, h2⟩ := h
  refine ⟨?_, contsTerm_mono _ _ _ hm h2⟩
  rcases h1 with h | ⟨ha, hb⟩
  · exact Or.inl h
  · right; refine ⟨ha, ?_⟩
    cases m' with
    | false => rfl
    | true => rw [hm rfl] at hb; simp at hb

theorem itemsTerm_of_allNl (is : List PItem) (m : Bool) (h : ∀ i ∈ is, i.AllNl) : itemsTerm is m := by
  induction is with
  | nil => trivial
  | cons i is ih =>
    have hi := h i (by simp)
    have := ih (fun x hx => h x (by simp [hx]))
    cases i with
    | comment t nl => exact ⟨Or.inl hi, this⟩
    | entry e => exact ⟨EntryS.term_of_allNl e _ hi, this⟩

theorem allNl_of_itemsTerm (is : List PItem) (h : itemsTerm is true) : ∀ i ∈ is, i.AllNl := by
  induction is with
  | nil => simp
  | cons i is ih =>
    intro x hx
    simp only [List.mem_cons] at hx
    cases i with
    | comment t nl =>
      obtain ⟨h1, h2⟩ := h
      rcases hx with rfl | hx
      · rcases h1 with h | ⟨_, h⟩
        · exact h
        · simp at h
      · exact ih h2 x hx
    | entry e =>
      obtain ⟨h1, h2⟩ := h
      rcases hx with rfl | hx
      · exact EntryS.allNl_of_term e (by simpa using h1)
      · exact ih h2 x hx

theorem itemsTerm_mono (is : List PItem) (m m' : Bool) (hm : m' = true → m = true)
    (h : itemsTerm is m) : itemsTerm is m' := by
  induction is with
  | nil => trivial
  | cons i is ih =>
    cases i with
    | comment t nl =>
      obtain ⟨h1, h2⟩ := h
      refine ⟨?_, ih h2⟩
      rcases h1 with h | ⟨ha, hb⟩
      · exact Or.inl h
      · right; refine ⟨ha, ?_⟩
        cases m' with
        | false => rfl
        | true => rw [hm rfl] at hb; simp at hb
    | entry e =>
      obtain ⟨h1, h2⟩ := h
      refine ⟨EntryS.term_mono e _ _ ?_ h1, ih h2⟩
      intro hh
      simp only [Bool.or_eq_true] at hh ⊢
      rcases hh with hh | hh
      · exact Or.inl hh
      · exact Or.inr (hm hh)

theorem itemsTerm_append (a b : List PItem) (m : Bool) :
    itemsTerm (a ++ b) m ↔ itemsTerm a (!b.isEmpty || m) ∧ itemsTerm b m := by
  induction a with
  | nil => simp [itemsTerm]
  | cons i a ih =>
    cases i with
    | comment t nl =>
      simp only [List.cons_append, itemsTerm, ih]
      constructor
      · rintro ⟨h1, h2, h3⟩
        refine ⟨⟨?_, h2⟩, h3⟩
        rcases h1 with h | ⟨ha, hb⟩
        · exact Or.inl h
        · simp only [List.append_eq_nil_iff] at ha
          right; exact ⟨ha.1, by simp [ha.2, hb]⟩
      · rintro ⟨⟨h1, h2⟩, h3⟩
        refine ⟨?_, h2, h3⟩
        rcases h1 with h | ⟨ha, hb⟩
        · exact Or.inl h
        · simp only [Bool.or_eq_false_iff, Bool.not_eq_eq_eq_not, Bool.not_false,
            List.isEmpty_iff] at hb
          right; exact ⟨by simp [ha, hb.1], hb.2⟩
    | entry e =>
      simp only [List.cons_append, itemsTerm, ih]
      have : (!(a ++ b).isEmpty || m) = (!a.isEmpty || (!b.isEmpty || m)) := by
        cases a <;> simp
      rw [this]
      constructor
      · rintro ⟨h1, h2, h3⟩; exact ⟨⟨h1, h2⟩, h3⟩
      · rintro ⟨⟨h1, h2⟩, h3⟩; exact ⟨h1, h2, h3⟩

/-! ### the invariant of a document under edit -/

/-- what may follow a unit: a comment line without terminator only if nothing follows; a paragraph
    is followed by nothing or by a blank line, and its last line may lack the terminator only if
    nothing follows -/
def follows : EUnit → Option EUnit → Prop
  | .gap .blank, _ => True
  | .gap (.comment _ nl), n => nl = true ∨ n = none
  | .para b, n => itemsTerm (toPs b) n.isSome ∧ (n = none ∨ n = some (.gap .blank))

def unitsTermN : List EUnit → Option EUnit → Prop
  | [], _ => True
  | [x], n => follows x n
  | x :: y :: us, n => follows x (some y) ∧ unitsTermN (y :: us) n

def EUnit.WF : EUnit → Prop
  | .gap g => g.WF
  | .para b => ∀ i ∈ toPs b, i.WF

/-- **the invariant**: valid lines, valid layout -/
structure UWF (us : List EUnit) : Prop where
  ok : ∀ u ∈ us, u.WF
  term : unitsTermN us none

instance (u : EUnit) (n : Option EUnit) : Decidable (follows u n) := by
  cases u with
  | gap g => cases g <;> simp only [follows] <;> exact inferInstance
  | para b => simp only [follows]; exact inferInstance

instance unitsTermNDec : (us : List EUnit) → (n : Option EUnit) → Decidable (unitsTermN us n)
  | [], _ => isTrue trivial
  | [x], n => by simp only [unitsTermN]; exact inferInstance
  | x :: y :: us, n =>
    have := unitsTermNDec (y :: us) n
    by simp only [unitsTermN]; exact inferInstance

instance (u : EUnit) : Decidable u.WF := by
  cases u <;> simp only [EUnit.WF] <;> exact inferInstance

theorem uwf_iff (us : List EUnit) : UWF us ↔ ((∀ u ∈ us, u.WF) ∧ unitsTermN us none) :=
  ⟨fun h => ⟨h.ok, h.term⟩, fun h => ⟨h.1, h.2⟩⟩
instance (us : List EUnit) : Decidable (UWF us) := decidable_of_iff _ (uwf_iff us).symm

def nxt (us : List EUnit) (n : Option EUnit) : Option EUnit :=
  match us with
  | [] => n
  | y :: _ => some y

theorem unitsTermN_cons (x : EUnit) (us : List EUnit) (n) :
    unitsTermN (x :: us) n ↔ follows x (nxt us n) ∧ unitsTermN us n := by
  cases us with
  | nil => simp [unitsTermN, nxt]
  | cons y us => simp [unitsTermN, nxt]

theorem nxt_append (a b : List EUnit) (n) : nxt (a ++ b) n = nxt a (nxt b n) := by
  cases a <;> simp [nxt]

theorem unitsTermN_append (a b : List EUnit) (n) :
    unitsTermN (a ++ b) n ↔ unitsTermN a (nxt b n) ∧ unitsTermN b n := by
  induction a with
  | nil => simp [unitsTermN]
  | cons x a ih =>
    simp only [List.cons_append, unitsTermN_cons, ih, nxt_append]
    constructor
    · rintro ⟨h1, h2, h3⟩; exact ⟨⟨h1, h2⟩, h3⟩
    · rintro ⟨⟨h1, h2⟩, h3⟩; exact ⟨h1, h2, h3⟩

/-- `follows` looks at what comes next only through "is there something" and "is it a blank line" -/
theorem follows_congr (x : EUnit) (n n' : Option EUnit) (h1 : n.isSome = n'.isSome)
    (h2 : n = some (.gap .blank) ↔ n' = some (.gap .blank)) (h : follows x n) : follows x n' := by
  have hn : n = none ↔ n' = none := by
    cases n <;> cases n' <;> simp_all
  cases x with
  | gap g =>
    cases g with
    | blank => trivial
    | comment t nl =>
      rcases h with h | h
      · exact Or.inl h
      · exact Or.inr (hn.1 h)
  | para b =>
    obtain ⟨ha, hb⟩ := h
    refine ⟨by rw [← h1]; exact ha, ?_⟩
    rcases hb with hb | hb
    · exact Or.inl (hn.1 hb)
    · exact Or.inr (h2.1 hb)

/-! ### erasure: the well-formed `DocS` that prints the same text -/

/-- leading comment lines of a body become lines between paragraphs; the rest is a paragraph -/
def splitBody : List PItem → List Gap × Option ParaS
  | [] => ([], none)
  | .comment t nl :: is => (.comment t nl :: (splitBody is).1, (splitBody is).2)
  | .entry e :: is => ([], some ⟨e, is⟩)

def eraseU : List EUnit → List Gap × List (ParaS × List Gap)
  | [] => ([], [])
  | .gap g :: us => (g :: (eraseU us).1, (eraseU us).2)
  | .para b :: us =>
    match (splitBody (toPs b)).2 with
    | none => ((splitBody (toPs b)).1 ++ (eraseU us).1, (eraseU us).2)
    | some p => ((splitBody (toPs b)).1, (p, (eraseU us).1) :: (eraseU us).2)

/-- the document a reader sees: empty bodies vanish, comment-only bodies and leading comment lines
    become lines between paragraphs -/
def erase (us : List EUnit) : DocS := ⟨(eraseU us).1, (eraseU us).2⟩

def parasStr (ps : List (ParaS × List Gap)) : Str := (ps.map fun pg => pg.1.str ++ gapsStr pg.2).flatten

theorem gapsStr_cons (g : Gap) (gs) : gapsStr (g :: gs) = g.str ++ gapsStr gs := by simp [gapsStr]
theorem gapsStr_append (a b : List Gap) : gapsStr (a ++ b) = gapsStr a ++ gapsStr b := by simp [gapsStr]

theorem splitBody_str (is : List PItem) :
    gapsStr (splitBody is).1 ++ (match (splitBody is).2 with | none => [] | some p => p.str)
      = (is.map PItem.str).flatten := by
  induction is with
  | nil => rfl
  | cons i is ih =>
    cases i with
    | comment t nl =>
      simp only [splitBody, gapsStr_cons, List.map_cons, List.flatten_cons, List.append_assoc, ih]
      simp [Gap.str, PItem.str]
    | entry e => simp [splitBody, gapsStr, ParaS.str, PItem.str]

theorem eraseU_str (us : List EUnit) :
    gapsStr (eraseU us).1 ++ parasStr (eraseU us).2 = unitsStr us := by
  induction us with
  | nil => rfl
  | cons u us ih =>
    cases u with
    | gap g =>
      simp only [eraseU, gapsStr_cons, List.append_assoc, ih]
      simp [unitsStr, EUnit.str]
    | para b =>
      have hs := splitBody_str (toPs b)
      have hu : unitsStr (.para b :: us) = bodyStr b ++ unitsStr us := by simp [unitsStr, EUnit.str]
      rw [hu, ← ih]
      simp only [eraseU]
      cases h2 : (splitBody (toPs b)).2 with
      | none =>
        rw [h2] at hs
        simp only [gapsStr_append, List.append_assoc]
        simp only [List.append_nil] at hs
        rw [← List.append_assoc, hs]; simp [bodyStr]
      | some p =>
        rw [h2] at hs
        simp only [parasStr, List.map_cons, List.flatten_cons, List.append_assoc] at hs ⊢
        rw [← List.append_assoc, hs]; simp [bodyStr]

theorem erase_str (us : List EUnit) : (erase us).str = unitsStr us := by
  simp only [erase, DocS.str]; exact eraseU_str us

theorem splitBody_wf (is : List PItem) (h : ∀ i ∈ is, i.WF) :
    (∀ g ∈ (splitBody is).1, g.WF) ∧ ∀ p, (splitBody is).2 = some p → p.WF := by
  induction is with
  | nil => simp [splitBody]
  | cons i is ih =>
    have hi := h i (by simp)
    have := ih (fun x hx => h x (by simp [hx]))
    cases i with
    | comment t nl =>
      simp only [splitBody]
      refine ⟨?_, this.2⟩
      intro g hg
      simp only [List.mem_cons] at hg
      rcases hg with rfl | hg
      · exact hi
      · exact this.1 g hg
    | entry e =>
      simp only [splitBody]
      refine ⟨by simp, ?_⟩
      intro p hp
      simp at hp; subst hp
      exact ⟨hi, fun x hx => h x (by simp [hx])⟩

theorem eraseU_wf (us : List EUnit) (h : ∀ u ∈ us, u.WF) :
    (∀ g ∈ (eraseU us).1, g.WF) ∧ ∀ pg ∈ (eraseU us).2, pg.1.WF ∧ ∀ g ∈ pg.2, g.WF := by
  induction us with
  | nil => simp [eraseU]
  | cons u us ih =>
    have hu := h u (by simp)
    obtain ⟨ih1, ih2⟩ := ih (fun x hx => h x (by simp [hx]))
    cases u with
    | gap g =>
      simp only [eraseU]
      refine ⟨?_, ih2⟩
      intro x hx
      simp only [List.mem_cons] at hx
      rcases hx with rfl | hx
      · exact hu
      · exact ih1 x hx
    | para b =>
      obtain ⟨hs1, hs2⟩ := splitBody_wf (toPs b) hu
      simp only [eraseU]
      cases h2 : (splitBody (toPs b)).2 with
      | none =>
        refine ⟨?_, ih2⟩
        intro x hx
        simp only [List.mem_append] at hx
        rcases hx with hx | hx
        · exact hs1 x hx
        · exact ih1 x hx
      | some p =>
        refine ⟨hs1, ?_⟩
        intro pg hpg
        simp only [List.mem_cons] at hpg
        rcases hpg with rfl | hpg
        · exact ⟨hs2 p h2, ih1⟩
        · exact ih2 pg hpg

theorem gapsTerm_mono (gs : List Gap) (m m' : Bool) (hm : m' = true → m = true)
    (h : gapsTerm gs m) : gapsTerm gs m' := by
  induction gs with
  | nil => trivial
  | cons g gs ih =>
    cases g with
    | blank => exact ih h
    | comment t nl =>
      obtain ⟨h1, h2⟩ := h
      refine ⟨?_, ih h2⟩
      rcases h1 with h | ⟨ha, hb⟩
      · exact Or.inl h
      · right; refine ⟨ha, ?_⟩
        cases m' with
        | false => rfl
        | true => rw [hm rfl] at hb; simp at hb

theorem gapsTerm_append (a b : List Gap) (m : Bool) (ha : gapsTerm a true) (hb : gapsTerm b m) :
    gapsTerm (a ++ b) m := by
  induction a with
  | nil => exact hb
  | cons g a ih =>
    cases g with
    | blank => exact ih ha
    | comment t nl =>
      obtain ⟨h1, h2⟩ := ha
      refine ⟨?_, ih h2⟩
      rcases h1 with h | ⟨_, h⟩
      · exact Or.inl h
      · simp at h

theorem splitBody_term (is : List PItem) (m : Bool) (h : itemsTerm is m) :
    match (splitBody is).2 with
    | none => gapsTerm (splitBody is).1 m
    | some p => gapsTerm (splitBody is).1 true ∧ p.Term m := by
  induction is with
  | nil => simp [splitBody, gapsTerm]
  | cons i is ih =>
    cases i with
    | comment t nl =>
      obtain ⟨h1, h2⟩ := h
      have := ih h2
      simp only [splitBody]
      cases h2' : (splitBody is).2 with
      | none =>
        rw [h2'] at this
        refine ⟨?_, this⟩
        rcases h1 with h | ⟨ha, hb⟩
        · exact Or.inl h
        · subst ha; right; exact ⟨by simp [splitBody], hb⟩
      | some p =>
        rw [h2'] at this
        refine ⟨⟨?_, this.1⟩, this.2⟩
        rcases h1 with h | ⟨ha, hb⟩
        · exact Or.inl h
        · subst ha; simp [splitBody] at h2'
    | entry e =>
      simp only [splitBody]
      exact ⟨trivial, h⟩

theorem eraseU_nil : eraseU [] = ([], []) := rfl

/-- the layout invariant of the units gives the layout conditions of `DocS.WF` -/
theorem eraseU_term (us : List EUnit) (h : unitsTermN us none) :
    parasTerm (eraseU us).2 ∧ gapsTerm (eraseU us).1 (!(eraseU us).2.isEmpty) := by
  induction us with
  | nil => simp [eraseU, parasTerm, gapsTerm]
  | cons u us ih =>
    rw [unitsTermN_cons] at h
    obtain ⟨hf, ht⟩ := h
    obtain ⟨ih1, ih2⟩ := ih ht
    cases u with
    | gap g =>
      simp only [eraseU]
      refine ⟨ih1, ?_⟩
      cases g with
      | blank => exact ih2
      | comment t nl =>
        refine ⟨?_, ih2⟩
        rcases hf with hf | hf
        · exact Or.inl hf
        · cases us with
          | nil => right; simp [eraseU]
          | cons y us => simp [nxt] at hf
    | para b =>
      obtain ⟨hb1, hb2⟩ := hf
      have hsp := splitBody_term (toPs b) _ hb1
      simp only [eraseU]
      cases h2 : (splitBody (toPs b)).2 with
      | none =>
        rw [h2] at hsp
        refine ⟨ih1, ?_⟩
        cases us with
        | nil => simpa [eraseU, nxt] using hsp
        | cons y us' =>
          simp only [nxt, Option.isSome_some] at hsp
          exact gapsTerm_append _ _ _ hsp ih2
      | some p =>
        rw [h2] at hsp
        obtain ⟨hg, hp⟩ := hsp
        refine ⟨?_, by simpa using hg⟩
        cases us with
        | nil =>
          simp only [eraseU, parasTerm, List.isEmpty_nil, Bool.not_true]
          simp only [nxt, Option.isSome_none] at hp
          exact ⟨hp, by simp, trivial⟩
        | cons y us' =>
          simp only [nxt, Option.isSome_some] at hp
          have hy : y = .gap .blank := by
            rcases hb2 with hb2 | hb2
            · simp [nxt] at hb2
            · simpa [nxt] using hb2
          subst hy
          have hstart : ∃ g', (eraseU (.gap .blank :: us')).1 = .blank :: g' := ⟨_, rfl⟩
          cases hr : (eraseU (.gap .blank :: us')).2 with
          | nil =>
            rw [hr] at ih2
            simp only [parasTerm]
            exact ⟨itemsTerm_mono (.entry p.first :: p.rest) _ _ (by simp) hp, Or.inr hstart, by simpa using ih2⟩
          | cons q ps =>
            rw [hr] at ih1 ih2
            simp only [parasTerm]
            exact ⟨hp, hstart, by simpa using ih2, ih1⟩

/-- **erasure is well-formed** -/
theorem erase_wf (us : List EUnit) (h : UWF us) : (erase us).WF := by
  obtain ⟨h1, h2⟩ := eraseU_wf us h.ok
  obtain ⟨h3, h4⟩ := eraseU_term us h.term
  exact ⟨h1, h4, h2, h3⟩

/-! ### content -/

def bodyContent (b : List LItem) : List (Str × Str) := ((toPs b).map PItem.content).flatten

def EUnit.body? : EUnit → Option (List LItem)
  | .gap _ => none
  | .para b => some b

/-- the live content of the document: one list per PARAGRAPH node, empty ones included -/
def unitsContent (us : List EUnit) : List (List (Str × Str)) := (us.filterMap EUnit.body?).map bodyContent

theorem splitBody_content (is : List PItem) :
    match (splitBody is).2 with
    | none => (is.map PItem.content).flatten = []
    | some p => (is.map PItem.content).flatten = p.content ∧ p.content ≠ [] := by
  induction is with
  | nil => simp [splitBody]
  | cons i is ih =>
    cases i with
    | comment t nl =>
      simp only [splitBody]
      cases h2 : (splitBody is).2 with
      | none => rw [h2] at ih; simpa [PItem.content] using ih
      | some p => rw [h2] at ih; simpa [PItem.content] using ih
    | entry e => simp [splitBody, ParaS.content, PItem.content]

/-- a reader of the printed text sees the non-empty paragraphs -/
theorem erase_content (us : List EUnit) :
    (erase us).content = (unitsContent us).filter (fun p => !p.isEmpty) := by
  simp only [erase, DocS.content, unitsContent]
  induction us with
  | nil => rfl
  | cons u us ih =>
    cases u with
    | gap g => simpa [eraseU, EUnit.body?, List.filterMap_cons] using ih
    | para b =>
      have hc := splitBody_content (toPs b)
      simp only [eraseU, List.filterMap_cons, EUnit.body?, List.map_cons, List.filter_cons]
      cases h2 : (splitBody (toPs b)).2 with
      | none =>
        rw [h2] at hc
        simp only [bodyContent, hc, List.isEmpty_nil, Bool.not_true, Bool.false_eq_true, ↓reduceIte]
        exact ih
      | some p =>
        rw [h2] at hc
        have hne : (bodyContent b).isEmpty = false := by
          simp only [bodyContent, hc.1]
          cases hpc : p.content with
          | nil => exact absurd hpc hc.2
          | cons _ _ => rfl
        simp only [hne, Bool.not_false, ↓reduceIte, List.map_cons, ih]
        simp [bodyContent, hc.1]

/-! what the accessors read from the live tree -/

theorem entryKey_bare (k : Str) : entryKey (entryNew k []) = some k := by
  simp [entryKey, entryNew, Node.children, isTokOf, tokTextOf]

theorem entryValue_bare (k : Str) : entryValue (entryNew k []) = [] := by
  simp [entryValue, entryNew, Node.children, Text.splitOn, valueLineToks, isTokOf, tokTextOf, Text.join]

def itemsOf (cs : List DNode) : List (Str × Str) :=
  (cs.filter isEntry).filterMap fun e => (entryKey e).map fun k => (k, entryValue e)

theorem items_node (k : Kind) (cs : List DNode) : items (.node k cs) = itemsOf cs := rfl

theorem itemsOf_append (a b : List DNode) : itemsOf (a ++ b) = itemsOf a ++ itemsOf b := by
  simp [itemsOf, List.filter_append, List.filterMap_append]

theorem itemsOf_item (i : LItem) : itemsOf i.nodes = i.toP.content := by
  cases i with
  | comment t nl =>
    simp only [itemsOf, LItem.nodes, filter_entry_tokens, LItem.toP, PItem.content, List.filterMap_nil]
  | entry e =>
    simp [itemsOf, LItem.nodes, LItem.toP, PItem.content, EntryS.node, isEntry, Node.isNode,
      Node.kind, List.filter_cons]
    have h1 := entryKey_node e
    have h2 := entryValue_node e
    simp only [EntryS.node] at h1 h2
    simp [h1, h2, EntryS.content]
  | bare k =>
    have h0 : isEntry (entryNew k []) = true := by simp [isEntry, entryNew, Node.isNode, Node.kind]
    simp only [itemsOf, LItem.nodes, List.filter_cons, h0, ↓reduceIte, List.filter_nil,
      List.filterMap_cons, entryKey_bare, entryValue_bare, Option.map_some, List.filterMap_nil]
    simp [LItem.toP, PItem.content, EntryS.content, bareS, EntryS.valueLines, Text.join]

theorem itemsOf_lnodes (b : List LItem) : itemsOf (lnodes b) = bodyContent b := by
  induction b with
  | nil => rfl
  | cons i is ih =>
    rw [lnodes_cons, itemsOf_append, itemsOf_item, ih]
    simp [bodyContent, toPs]

theorem docItems_units (us : List EUnit) : docItems (.node .ROOT (unitsKids us)) = unitsContent us := by
  simp only [docItems, paragraphs_def, Node.children, unitsContent, unitsKids]
  induction us with
  | nil => rfl
  | cons u us ih =>
    cases u with
    | gap g =>
      simp only [List.map_cons, List.filter_cons, EUnit.node, List.filterMap_cons, EUnit.body?]
      have : isPara g.node = false := by simp [Gap.node, isPara, Node.isNode, Node.kind]
      simp only [this, Bool.false_eq_true, ↓reduceIte]
      exact ih
    | para b =>
      simp only [List.map_cons, List.filter_cons, EUnit.node, List.filterMap_cons, EUnit.body?]
      have : isPara (.node .PARAGRAPH (lnodes b)) = true := by simp [isPara, Node.isNode, Node.kind]
      simp only [this, ↓reduceIte, List.map_cons, items_node, itemsOf_lnodes]
      rw [ih]

/-! ## operations on paragraph bodies -/

def LItem.key? : LItem → Option Str
  | .comment _ _ => none
  | .entry e => some e.key
  | .bare k => some k

def hasKey (k : Str) (i : LItem) : Bool := i.key? == some k

theorem isEntryWithKey_tok (k : Str) (kd : Kind) (t : Str) : isEntryWithKey k (.tok kd t) = false := by
  simp [isEntryWithKey, Node.isNode]

theorem isEntryWithKey_toks (k : Str) (ts : List Tok) : ∀ n ∈ ts.map tk, isEntryWithKey k n = false := by
  intro n hn
  simp only [List.mem_map] at hn
  obtain ⟨t, _, rfl⟩ := hn
  exact isEntryWithKey_tok k _ _

theorem isEntryWithKey_entry (k : Str) (e : EntryS) : isEntryWithKey k e.node = (some e.key == some k) := by
  have h1 := entryKey_node e
  simp only [isEntryWithKey, h1]
  simp [EntryS.node, Node.isNode, Node.kind]

theorem isEntryWithKey_bare (k k' : Str) : isEntryWithKey k (entryNew k' []) = (some k' == some k) := by
  simp only [isEntryWithKey, entryKey_bare]
  simp [entryNew, Node.isNode, Node.kind]

theorem isEntryWithKey_item (k : Str) (i : LItem) : ∀ n ∈ i.nodes, isEntryWithKey k n = hasKey k i := by
  cases i with
  | comment t nl =>
    intro n hn
    simp only [LItem.nodes] at hn
    rw [isEntryWithKey_toks k _ n hn]; simp [hasKey, LItem.key?]
  | entry e =>
    intro n hn
    simp only [LItem.nodes, List.mem_singleton] at hn
    subst hn; rw [isEntryWithKey_entry]; rfl
  | bare k' =>
    intro n hn
    simp only [LItem.nodes, List.mem_singleton] at hn
    subst hn; rw [isEntryWithKey_bare]; rfl

/-- an item that has a key is a single node -/
theorem nodes_of_hasKey (k : Str) (i : LItem) (h : hasKey k i = true) : ∃ n, i.nodes = [n] := by
  cases i with
  | comment t nl => simp [hasKey, LItem.key?] at h
  | entry e => exact ⟨_, rfl⟩
  | bare k' => exact ⟨_, rfl⟩

/-- replace the first item of that name -/
def replB (k : Str) (g : LItem → LItem) : List LItem → Option (List LItem)
  | [] => none
  | i :: is => if hasKey k i then some (g i :: is) else (replB k g is).map (i :: ·)

theorem replaceFirst_lnodes (k : Str) (f : DNode → DNode) (g : LItem → LItem) (b : List LItem)
    (hfg : ∀ i ∈ b, hasKey k i = true → ∀ n, i.nodes = [n] → (g i).nodes = [f n]) :
    replaceFirst (isEntryWithKey k) f (lnodes b) = (replB k g b).map lnodes := by
  induction b with
  | nil => rfl
  | cons i is ih =>
    have ih' := ih (fun x hx => hfg x (by simp [hx]))
    by_cases hk : hasKey k i = true
    · obtain ⟨n, hn⟩ := nodes_of_hasKey k i hk
      have hm : isEntryWithKey k n = true := by
        rw [isEntryWithKey_item k i n (by simp [hn])]; exact hk
      have hg := hfg i (by simp) hk n hn
      simp only [lnodes_cons, hn, List.cons_append, List.nil_append, replaceFirst, hm, ↓reduceIte,
        replB, hk, Option.map_some, hg]
    · have hk' : hasKey k i = false := by simpa using hk
      have hsk : ∀ t ∈ i.nodes, isEntryWithKey k t = false := by
        intro t ht; rw [isEntryWithKey_item k i t ht]; exact hk'
      rw [lnodes_cons, replaceFirst_skip _ _ _ _ hsk, ih']
      simp only [replB, hk', Bool.false_eq_true, ↓reduceIte, Option.map_map]
      cases replB k g is <;> simp [lnodes_cons]

theorem replB_some (k : Str) (g : LItem → LItem) (b b' : List LItem) (h : replB k g b = some b') :
    ∃ pre x post, b = pre ++ x :: post ∧ hasKey k x = true ∧ b' = pre ++ g x :: post := by
  induction b generalizing b' with
  | nil => simp [replB] at h
  | cons i is ih =>
    simp only [replB] at h
    split at h
    · rename_i hk
      simp at h; subst h
      exact ⟨[], i, is, rfl, hk, rfl⟩
    · cases hr : replB k g is with
      | none => rw [hr] at h; simp at h
      | some b'' =>
        rw [hr] at h; simp at h; subst h
        obtain ⟨pre, x, post, h1, h2, h3⟩ := ih b'' hr
        exact ⟨i :: pre, x, post, by simp [h1], h2, by simp [h3]⟩

theorem toPs_append (a b : List LItem) : toPs (a ++ b) = toPs a ++ toPs b := by simp [toPs]
theorem toPs_cons (i : LItem) (is) : toPs (i :: is) = i.toP :: toPs is := rfl

/-- replacing one item by a fully terminated one keeps the layout -/
theorem itemsTerm_replace (pre post : List LItem) (x y : LItem) (m : Bool) (hy : y.toP.AllNl)
    (h : itemsTerm (toPs (pre ++ x :: post)) m) : itemsTerm (toPs (pre ++ y :: post)) m := by
  simp only [toPs_append, toPs_cons, itemsTerm_append] at h ⊢
  obtain ⟨h1, h2⟩ := h
  refine ⟨by simpa using h1, ?_⟩
  have h3 : itemsTerm (toPs post) m := by
    have := (itemsTerm_append [x.toP] (toPs post) m).1 h2
    exact this.2
  have := (itemsTerm_append [y.toP] (toPs post) m).2
    ⟨itemsTerm_of_allNl _ _ (by simpa using hy), h3⟩
  exact this

theorem filter_lnodes (k : Str) (b : List LItem) :
    (lnodes b).filter (fun c => !isEntryWithKey k c) = lnodes (b.filter fun i => !hasKey k i) := by
  induction b with
  | nil => rfl
  | cons i is ih =>
    rw [lnodes_cons, List.filter_append, ih, List.filter_cons]
    by_cases hk : hasKey k i = true
    · have : i.nodes.filter (fun c => !isEntryWithKey k c) = [] := by
        apply List.filter_eq_nil_iff.2
        intro n hn; rw [isEntryWithKey_item k i n hn, hk]; simp
      simp [this, hk]
    · have hk' : hasKey k i = false := by simpa using hk
      have : i.nodes.filter (fun c => !isEntryWithKey k c) = i.nodes := by
        apply List.filter_eq_self.2
        intro n hn; rw [isEntryWithKey_item k i n hn, hk']; rfl
      simp [this, hk', lnodes_cons]

theorem itemsTerm_filter (p : LItem → Bool) (b : List LItem) (m : Bool) (h : itemsTerm (toPs b) m) :
    itemsTerm (toPs (b.filter p)) m := by
  induction b with
  | nil => exact h
  | cons i is ih =>
    have hcons := (itemsTerm_append [i.toP] (toPs is) m).1 h
    have hrest := ih hcons.2
    rw [List.filter_cons]
    split
    · apply (itemsTerm_append [i.toP] (toPs (is.filter p)) m).2
      refine ⟨itemsTerm_mono _ _ _ ?_ hcons.1, hrest⟩
      intro hh
      simp only [Bool.or_eq_true, Bool.not_eq_eq_eq_not, Bool.not_true] at hh ⊢
      rcases hh with hh | hh
      · left
        cases hf : is.filter p with
        | nil => simp [toPs, hf] at hh
        | cons a as =>
          cases is with
          | nil => simp at hf
          | cons _ _ => simp [toPs]
      · exact Or.inr hh
    · exact hrest

/-! ### terminating the last line -/

def needsT (ts : List Tok) : Bool :=
  match ts.getLast? with
  | none => false
  | some t => t.1 != .NEWLINE

theorem needsNl_lastTok (cs : List DNode) :
    needsNl cs = match lastTok cs with
      | none => false
      | some t => t.1 != .NEWLINE := by
  unfold needsNl lastLeafKind
  cases lastTok cs <;> rfl

theorem needsT_append (a b : List Tok) (h : b ≠ []) : needsT (a ++ b) = needsT b := by
  unfold needsT
  have : (a ++ b).getLast? = b.getLast? := by
    rw [List.getLast?_append]
    cases hb : b.getLast? with
    | none => simp at hb; exact absurd hb h
    | some x => simp
  rw [this]

theorem leavesList_toks (ts : List Tok) : leavesList (ts.map tk) = ts := by
  induction ts with
  | nil => rfl
  | cons t ts ih => simp [ih]

/-- `last_token()` of a list of tokens is its last element -/
theorem lastTok_toks (ts : List Tok) : lastTok (ts.map tk) = ts.getLast? := by
  rcases Deb.snoc_cases ts with rfl | ⟨init, t, rfl⟩
  · simp [lastTok_nil]
  · rw [List.map_append, List.map_cons, List.map_nil, lastTok_snoc_tok]
    simp

theorem needsNl_toks (ts : List Tok) : needsNl (ts.map tk) = needsT ts := by
  rw [needsNl_lastTok, lastTok_toks]; rfl

/-- `last_token()` of a node is the `last_token()` of its children -/
theorem needsNl_node (k : Kind) (cs : List DNode) : needsNl [Node.node k cs] = needsNl cs := by
  simp [needsNl_lastTok, lastTok, lastTokN]

theorem needsNl_nil0 : needsNl [] = false := by simp [needsNl_lastTok, lastTok_nil]

/-- only the last child matters (rowan's `last_token()` does not fall back to earlier siblings) -/
theorem needsNl_append (X Y : List DNode) :
    needsNl (X ++ Y) = if Y = [] then needsNl X else needsNl Y := by
  split
  · rename_i h; simp [h]
  · rename_i h; simp only [needsNl_lastTok, lastTok_append X Y h]

theorem terminateLastLine_of_needs (cs : List DNode) (h : needsNl cs = true) :
    terminateLastLine cs =
      match cs.getLast? with
      | some (Node.tok _ _) => cs ++ [Node.tok .NEWLINE ['\n']]
      | _ => terminateLast cs := by
  unfold needsNl at h
  unfold terminateLastLine
  split
  · rename_i h0; rw [h0] at h; simp at h
  · rename_i k hk
    rw [hk] at h
    have hk' : k ≠ .NEWLINE := by simpa using h
    simp only [hk', ↓reduceIte]
    rfl

/-- the terminator goes into the last child (whatever is in front of it) -/
theorem terminateLastLine_into (X : List DNode) (k : Kind) (cs : List DNode) :
    terminateLastLine (X ++ [Node.node k cs]) = X ++ [Node.node k (terminateLastLine cs)] := by
  have hn : needsNl (X ++ [Node.node k cs]) = needsNl cs := by
    rw [needsNl_append, if_neg (by simp), needsNl_node]
  by_cases hc : needsNl cs = true
  · rw [hc] at hn
    rw [terminateLastLine_of_needs _ hn, terminateLastLine_of_needs _ hc]
    have hg : (X ++ [Node.node k cs]).getLast? = some (Node.node k cs) := by simp
    rw [hg]
    simp only [terminateLast_snoc', terminatedLast', lastIsNode']
    rcases Deb.snoc_cases cs with rfl | ⟨init, last, rfl⟩
    · simp [needsNl_nil0] at hc
    · cases last <;> simp
  · have hc' : needsNl cs = false := by simpa using hc
    rw [hc'] at hn
    rw [terminateLastLine_of_not_needs _ hn, terminateLastLine_of_not_needs _ hc']

/-- a child list of tokens: a NEWLINE token is appended iff the last one is not a NEWLINE -/
theorem terminateLastLine_toks (ts : List Tok) :
    terminateLastLine (ts.map tk) = (ts ++ if needsT ts then [(Kind.NEWLINE, ['\n'])] else []).map tk := by
  have hn : needsNl (ts.map tk) = needsT ts := needsNl_toks ts
  by_cases h : needsT ts = true
  · rw [terminateLastLine_of_needs _ (by rw [hn]; exact h)]
    simp only [h, ↓reduceIte]
    rcases Deb.snoc_cases ts with rfl | ⟨init, last, rfl⟩
    · simp [needsT] at h
    · simp
  · have h' : needsT ts = false := by simpa using h
    rw [terminateLastLine_of_not_needs _ (by rw [hn]; exact h')]
    simp [h']

def ContS.term (c : ContS) : ContS := { c with nl := true }
def EntryS.termE (e : EntryS) : EntryS := { e with nl := true, conts := e.conts.map ContS.term }
def LItem.term : LItem → LItem
  | .comment t _ => .comment t true
  | .entry e => .entry e.termE
  | .bare k => .bare k
def EUnit.term : EUnit → EUnit
  | .gap .blank => .gap .blank
  | .gap (.comment t _) => .gap (.comment t true)
  | .para b => .para (b.map LItem.term)

theorem ContS.term_id (c : ContS) (h : c.nl = true) : c.term = c := by
  cases c; simp_all [ContS.term]

theorem conts_term_id (cs : List ContS) (h : ∀ c ∈ cs, c.nl = true) : cs.map ContS.term = cs := by
  induction cs with
  | nil => rfl
  | cons c cs ih =>
    simp [ContS.term_id c (h c (by simp)), ih (fun x hx => h x (by simp [hx]))]

theorem EntryS.termE_id (e : EntryS) (h : e.AllNl) : e.termE = e := by
  cases e
  simp only [EntryS.AllNl] at h
  simp [EntryS.termE, h.1, conts_term_id _ h.2]

theorem LItem.term_id (i : LItem) (h : i.toP.AllNl) : i.term = i := by
  cases i with
  | comment t nl => simp only [LItem.toP, PItem.AllNl] at h; simp [LItem.term, h]
  | entry e => simp only [LItem.toP, PItem.AllNl] at h; simp [LItem.term, EntryS.termE_id e h]
  | bare k => rfl

theorem body_term_id (b : List LItem) (h : ∀ i ∈ toPs b, i.AllNl) : b.map LItem.term = b := by
  induction b with
  | nil => rfl
  | cons i is ih =>
    simp only [List.map_cons]
    rw [LItem.term_id i (h _ (by simp [toPs])), ih (fun x hx => h x (by simp [toPs] at hx ⊢; exact Or.inr hx))]

theorem EntryS.termE_allNl (e : EntryS) : e.termE.AllNl := by
  refine ⟨rfl, ?_⟩
  intro c hc
  simp only [EntryS.termE, List.mem_map] at hc
  obtain ⟨c', _, rfl⟩ := hc
  rfl

theorem LItem.term_allNl (i : LItem) : i.term.toP.AllNl := by
  cases i with
  | comment t nl => rfl
  | entry e => exact EntryS.termE_allNl e
  | bare k => exact ⟨rfl, by simp [bareS]⟩

theorem body_term_allNl (b : List LItem) : ∀ i ∈ toPs (b.map LItem.term), i.AllNl := by
  intro i hi
  simp only [toPs, List.map_map, List.mem_map, Function.comp] at hi
  obtain ⟨x, _, rfl⟩ := hi
  exact LItem.term_allNl x

theorem ContS.term_wf (c : ContS) (h : c.WF) : c.term.WF := ⟨h.indent_ne, h.indent_ok, h.text_ok⟩

theorem EntryS.termE_wf (e : EntryS) (h : e.WF) : e.termE.WF := by
  refine ⟨h.key_ok, h.ws_ok, h.v_ok, ?_⟩
  intro c hc
  simp only [EntryS.termE, List.mem_map] at hc
  obtain ⟨c', hc', rfl⟩ := hc
  exact ContS.term_wf c' (h.conts_ok c' hc')

theorem LItem.term_wf (i : LItem) (h : i.toP.WF) : i.term.toP.WF := by
  cases i with
  | comment t nl => exact h
  | entry e => exact EntryS.termE_wf e h
  | bare k => exact h

theorem body_term_wf (b : List LItem) (h : ∀ i ∈ toPs b, i.WF) : ∀ i ∈ toPs (b.map LItem.term), i.WF := by
  intro i hi
  simp only [toPs, List.map_map, List.mem_map, Function.comp] at hi
  obtain ⟨x, hx, rfl⟩ := hi
  exact LItem.term_wf x (h _ (by simp only [toPs, List.mem_map]; exact ⟨x, hx, rfl⟩))

theorem contsToks_cons (c : ContS) (cs) : contsToks (c :: cs) = c.toks ++ contsToks cs := by
  simp [contsToks]

theorem needsT_of_noNl (ts : List Tok) (hne : ts ≠ []) (h : ∀ t ∈ ts, t.1 ≠ .NEWLINE) : needsT ts = true := by
  unfold needsT
  cases hl : ts.getLast? with
  | none => simp at hl; exact absurd hl hne
  | some t => simpa using h t (List.mem_of_getLast? hl)

theorem contsToks_term (cs : List ContS) (h : contsTerm cs false) :
    contsToks (cs.map ContS.term) = contsToks cs ++ if needsT (contsToks cs) then [(.NEWLINE, ['\n'])] else [] := by
  induction cs with
  | nil => simp [contsToks, needsT]
  | cons c cs ih =>
    obtain ⟨h1, h2⟩ := h
    simp only [List.map_cons, contsToks_cons]
    cases cs with
    | nil =>
      simp only [List.map_nil, contsToks, List.flatten_nil, List.append_nil]
      cases hnl : c.nl with
      | true =>
        rw [ContS.term_id c hnl]
        simp [ContS.toks, hnl, nlTok, needsT]
      | false =>
        have : needsT c.toks = true := by
          apply needsT_of_noNl _ (by simp [ContS.toks])
          intro t ht
          simp only [ContS.toks, hnl, nlTok, Bool.false_eq_true, ↓reduceIte, List.mem_cons,
            List.not_mem_nil, or_false] at ht
          rcases ht with rfl | rfl <;> simp
        rw [this]
        simp [ContS.term, ContS.toks, hnl, nlTok]
    | cons d ds =>
      have hnl : c.nl = true := by
        rcases h1 with h | ⟨h, _⟩
        · exact h
        · simp at h
      have hne : contsToks (d :: ds) ≠ [] := by simp [contsToks_cons, ContS.toks]
      rw [ContS.term_id c hnl, ih h2, needsT_append _ _ hne, List.append_assoc]

theorem EntryS.toks_termE (e : EntryS) (h : e.Term false) :
    e.termE.toks = e.toks ++ if needsT e.toks then [(.NEWLINE, ['\n'])] else [] := by
  obtain ⟨h1, h2⟩ := h
  cases hc : e.conts with
  | nil =>
    cases hnl : e.nl with
    | true =>
      have : needsT e.toks = false := by
        simp only [EntryS.toks, hc, hnl, nlTok, contsToks, List.map_nil, List.flatten_nil,
          List.append_nil, ↓reduceIte]
        rw [show ((Kind.KEY, e.key) :: (Kind.COLON, [':']) ::
            (optTok .WHITESPACE e.ws ++ optTok .VALUE e.v ++ [(Kind.NEWLINE, ['\n'])])) =
            ((Kind.KEY, e.key) :: (Kind.COLON, [':']) ::
            (optTok .WHITESPACE e.ws ++ optTok .VALUE e.v)) ++ [(Kind.NEWLINE, ['\n'])] by simp]
        rw [needsT_append _ _ (by simp)]; rfl
      rw [this]
      simp [EntryS.termE, EntryS.toks, hc, hnl]
    | false =>
      have : needsT e.toks = true := by
        apply needsT_of_noNl _ (by simp [EntryS.toks])
        intro t ht
        simp only [EntryS.toks, hc, hnl, nlTok, contsToks, List.map_nil, List.flatten_nil,
          List.append_nil, Bool.false_eq_true, ↓reduceIte, List.mem_cons, List.mem_append] at ht
        rcases ht with rfl | rfl | ht | ht
        · simp
        · simp
        · unfold optTok at ht; split at ht <;> simp at ht; subst ht; simp
        · unfold optTok at ht; split at ht <;> simp at ht; subst ht; simp
      rw [this]
      simp [EntryS.termE, EntryS.toks, hc, hnl, nlTok, contsToks]
  | cons d ds =>
    have hnl : e.nl = true := by
      rcases h1 with h | ⟨h, _⟩
      · exact h
      · rw [hc] at h; simp at h
    rw [hc] at h2
    have hne : contsToks (d :: ds) ≠ [] := by simp [contsToks_cons, ContS.toks]
    have hct := contsToks_term (d :: ds) h2
    simp only [EntryS.termE, EntryS.toks, hc, hnl] at hct ⊢
    rw [hct]
    have : needsT ((Kind.KEY, e.key) :: (Kind.COLON, [':']) ::
        (optTok .WHITESPACE e.ws ++ optTok .VALUE e.v ++ nlTok true ++ contsToks (d :: ds))) =
        needsT (contsToks (d :: ds)) := by
      rw [show ((Kind.KEY, e.key) :: (Kind.COLON, [':']) ::
        (optTok .WHITESPACE e.ws ++ optTok .VALUE e.v ++ nlTok true ++ contsToks (d :: ds))) =
        ((Kind.KEY, e.key) :: (Kind.COLON, [':']) ::
        (optTok .WHITESPACE e.ws ++ optTok .VALUE e.v ++ nlTok true)) ++ contsToks (d :: ds) by simp]
      exact needsT_append _ _ hne
    rw [this]
    simp

theorem needsT_entry_allNl (e : EntryS) (h : e.AllNl) : needsT e.toks = false := by
  have h1 := EntryS.toks_termE e (EntryS.term_of_allNl e false h)
  rw [EntryS.termE_id e h] at h1
  cases hn : needsT e.toks with
  | false => rfl
  | true =>
    rw [hn] at h1
    have := congrArg List.length h1
    simp at this

theorem leaves_item_ne (i : LItem) : leavesList i.nodes ≠ [] := by
  cases i with
  | comment t nl => simp [LItem.nodes, leavesList_toks]
  | entry e => simp [LItem.nodes, EntryS.node, leavesList_toks, EntryS.toks]
  | bare k => simp [LItem.nodes, entryNew]

theorem item_nodes_ne (i : LItem) : i.nodes ≠ [] := by
  cases i <;> simp [LItem.nodes]

/-- the nodes of an item: `last_token()` is the last token of the item -/
theorem needsNl_item (i : LItem) : needsNl i.nodes = needsT (leavesList i.nodes) := by
  cases i with
  | comment t nl =>
    simp only [LItem.nodes]
    rw [needsNl_toks, leavesList_toks]
  | entry e =>
    simp only [LItem.nodes, EntryS.node, leavesList_cons, leaves_node, leavesList_nil, List.append_nil]
    rw [needsNl_node, needsNl_toks, leavesList_toks]
  | bare k =>
    simp [LItem.nodes, entryNew, Text.splitOn, valueLineToks, needsNl_lastTok, lastTok, lastTokN, needsT]

theorem needsNl_item_allNl (i : LItem) (h : i.toP.AllNl) : needsNl i.nodes = false := by
  rw [needsNl_item]
  cases i with
  | comment t nl =>
    simp only [LItem.toP, PItem.AllNl] at h
    subst h
    simp [LItem.nodes, leavesList_toks, nlTok, needsT]
  | entry e =>
    simp only [LItem.nodes, leavesList_cons, EntryS.node, leaves_node, leavesList_toks,
      leavesList_nil, List.append_nil]
    exact needsT_entry_allNl e h
  | bare k =>
    simp [LItem.nodes, entryNew, Text.splitOn, valueLineToks, needsT]

theorem needsNl_snoc_item (X : List DNode) (i : LItem) (h : i.toP.AllNl) : needsNl (X ++ i.nodes) = false := by
  rw [needsNl_append, if_neg (item_nodes_ne i)]; exact needsNl_item_allNl i h

/-- **`terminate_last_line` on a paragraph body** sets the terminator flag of the last line -/
theorem terminateLastLine_body (b : List LItem) (h : itemsTerm (toPs b) false) :
    ∀ X : List DNode, needsNl X = false →
      terminateLastLine (X ++ lnodes b) = X ++ lnodes (b.map LItem.term) := by
  induction b with
  | nil => intro X hX; simpa [lnodes] using terminateLastLine_of_not_needs X hX
  | cons i is ih =>
    intro X hX
    have hsplit := (itemsTerm_append [i.toP] (toPs is) false).1 h
    cases is with
    | nil =>
      simp only [lnodes_cons, lnodes_nil, List.append_nil, List.map_cons, List.map_nil]
      cases i with
      | comment t nl =>
        cases nl with
        | true => exact terminateLastLine_of_not_needs _ (needsNl_snoc_item X _ rfl)
        | false =>
          have hn : needsNl (X ++ (LItem.comment t false).nodes) = true := by
            rw [needsNl_append, if_neg (item_nodes_ne _), needsNl_item]
            simp [LItem.nodes, nlTok, needsT]
          rw [terminateLastLine_of_needs _ hn]
          simp [LItem.nodes, nlTok, LItem.term]
      | entry e =>
        have het : e.Term false := by simpa [toPs, LItem.toP, itemsTerm] using h
        simp only [LItem.nodes, EntryS.node, LItem.term]
        rw [terminateLastLine_into X _ _, terminateLastLine_toks, ← EntryS.toks_termE e het]
      | bare k => exact terminateLastLine_of_not_needs _ (needsNl_snoc_item X _ (LItem.term_allNl (.bare k)))
    | cons j js =>
      have hi : i.toP.AllNl := by
        have := allNl_of_itemsTerm [i.toP] (by simpa [toPs] using hsplit.1)
        exact this _ (by simp)
      have := ih hsplit.2 (X ++ i.nodes) (needsNl_snoc_item X i hi)
      rw [lnodes_cons, ← List.append_assoc, this]
      conv => rhs; rw [List.map_cons, lnodes_cons, LItem.term_id i hi]
      rw [List.append_assoc]

theorem terminateLastLine_lnodes (b : List LItem) (h : itemsTerm (toPs b) false) :
    terminateLastLine (lnodes b) = lnodes (b.map LItem.term) := by
  have := terminateLastLine_body b h [] needsNl_nil0
  simpa using this

/-- a fully terminated body needs no terminator -/
theorem needsNl_lnodes_allNl (b : List LItem) (h : ∀ i ∈ toPs b, i.AllNl) : needsNl (lnodes b) = false := by
  have h1 := terminateLastLine_lnodes b (itemsTerm_of_allNl _ _ h)
  rw [body_term_id b h] at h1
  have h2 := textList_terminateLastLine (lnodes b)
  rw [h1] at h2
  cases hn : needsNl (lnodes b) with
  | false => rfl
  | true =>
    rw [hn] at h2
    have := congrArg List.length h2
    simp at this

/-! ### `Entry::new` as a field of the grammar -/

theorem valueLineToks_conts (ls : List Str) :
    valueLineToks false ls = (contsToks (ls.map mkCont)).map tk := by
  induction ls with
  | nil => rfl
  | cons l ls ih =>
    simp only [valueLineToks, List.map_cons, contsToks_cons, List.map_append, ← ih]
    simp [mkCont, ContS.toks, nlTok]

/-- with a non-empty first line, `Entry::new(k, v)` is exactly the tree of the field `newEntry k v` -/
theorem entryNew_eq (k v : Str) (h : ValidValue v) : entryNew k v = (newEntry k v).node := by
  unfold ValidValue at h
  unfold entryNew newEntry
  cases hs : Text.splitOn '\n' v with
  | nil => rw [hs] at h; exact absurd h id
  | cons l ls =>
    rw [hs] at h
    simp only [EntryS.node, EntryS.toks, optTok, h.1, ↓reduceIte, nlTok, valueLineToks,
      valueLineToks_conts]
    simp

theorem newEntry_allNl (k v : Str) : (newEntry k v).AllNl := by
  unfold newEntry
  split
  · exact ⟨rfl, by simp⟩
  · refine ⟨rfl, ?_⟩
    intro c hc
    simp only [List.mem_map] at hc
    obtain ⟨t, _, rfl⟩ := hc
    rfl

theorem newEntry_wf (k v : Str) (hk : ValidKey k) (hv : ValidValue v) : (newEntry k v).WF := by
  unfold ValidValue at hv
  unfold newEntry
  cases hs : Text.splitOn '\n' v with
  | nil => rw [hs] at hv; exact absurd hv id
  | cons l ls =>
    rw [hs] at hv
    refine ⟨hk, by intro c hc; simp at hc; subst hc; rfl, hv.2.1, ?_⟩
    intro c hc
    simp only [List.mem_map] at hc
    obtain ⟨t, ht, rfl⟩ := hc
    exact ⟨by simp [mkCont], by intro c hc; simp [mkCont] at hc; subst hc; rfl, hv.2.2 t ht⟩

theorem newEntry_key (k v : Str) : (newEntry k v).key = k := by
  unfold newEntry; split <;> rfl

theorem join_cons_cons (sep : Str) (a b : Str) (r : List Str) :
    Text.join sep (a :: b :: r) = a ++ sep ++ Text.join sep (b :: r) := by simp [Text.join]

theorem splitOn_ne_nil' (s : Str) : Text.splitOn '\n' s ≠ [] := by
  cases s with
  | nil => simp [Text.splitOn]
  | cons c cs =>
    simp only [Text.splitOn]
    split
    · simp
    · split <;> simp

theorem join_splitOn' (v : Str) : Text.join ['\n'] (Text.splitOn '\n' v) = v := by
  induction v with
  | nil => simp [Text.splitOn, Text.join]
  | cons c cs ih =>
    obtain ⟨a, as, hs⟩ : ∃ a as, Text.splitOn '\n' cs = a :: as := by
      cases h : Text.splitOn '\n' cs with
      | nil => exact absurd h (splitOn_ne_nil' cs)
      | cons a as => exact ⟨a, as, rfl⟩
    rw [hs] at ih
    simp only [Text.splitOn, hs]
    split
    · rename_i h; subst h
      simp only [Text.join, List.nil_append, List.cons_append]
      rw [ih]
    · cases as with
      | nil => simp only [Text.join] at ih ⊢; rw [ih]
      | cons b bs =>
        simp only [Text.join, List.cons_append, List.append_assoc] at ih ⊢
        rw [ih]

theorem newEntry_content (k v : Str) (h : ValidValue v) : (newEntry k v).content = (k, v) := by
  unfold ValidValue at h
  have hj := join_splitOn' v
  unfold newEntry
  cases hs : Text.splitOn '\n' v with
  | nil => rw [hs] at h; exact absurd h id
  | cons l ls =>
    rw [hs] at h hj
    simp only [EntryS.content, EntryS.valueLines, h.1, ↓reduceIte, List.map_map]
    have : (ls.map (ContS.text ∘ mkCont)) = ls := by
      simp [Function.comp_def, mkCont]
    rw [this]
    simpa using hj

/-! ### the four field edits on bodies -/

/-- a tree edit `f` of a PARAGRAPH's children is the body edit `g` -/
structure BodyOp (f : List DNode → List DNode) (g : List LItem → List LItem) : Prop where
  tree : ∀ b, itemsTerm (toPs b) false → (∀ i ∈ toPs b, i.WF) → f (lnodes b) = lnodes (g b)
  term : ∀ b m, itemsTerm (toPs b) m → itemsTerm (toPs (g b)) m
  wf : ∀ b, (∀ i ∈ toPs b, i.WF) → ∀ i ∈ toPs (g b), i.WF

def insertB (k v : Str) (b : List LItem) : List LItem := b.map LItem.term ++ [.entry (newEntry k v)]

def setB (k v : Str) (b : List LItem) : List LItem :=
  match replB k (fun _ => .entry (newEntry k v)) b with
  | some b' => b'
  | none => insertB k v b

def removeB (k : Str) (b : List LItem) : List LItem := b.filter fun i => !hasKey k i

/-- `Entry::new(k', value of the item)` -/
def renameItem (k' : Str) : LItem → LItem
  | .comment t nl => .comment t nl
  | .entry e => if e.valueLines = [] then .bare k' else .entry (newEntry k' (Text.join ['\n'] e.valueLines))
  | .bare _ => .bare k'

def renameB (k k' : Str) (b : List LItem) : List LItem :=
  match replB k (renameItem k') b with
  | some b' => b'
  | none => b

theorem bodyOp_insert (k v : Str) (hk : ValidKey k) (hv : ValidValue v) :
    BodyOp (fun cs => paraInsert cs k v) (insertB k v) where
  tree := by
    intro b hb _
    simp only [paraInsert, insertB, lnodes_append, terminateLastLine_lnodes b hb, entryNew_eq k v hv]
    simp [lnodes, LItem.nodes]
  term := by
    intro b m _
    apply itemsTerm_of_allNl
    intro i hi
    simp only [insertB, toPs_append, List.mem_append] at hi
    rcases hi with hi | hi
    · exact body_term_allNl b i hi
    · simp only [toPs, List.map_cons, List.map_nil, List.mem_singleton] at hi
      subst hi; exact newEntry_allNl k v
  wf := by
    intro b hb i hi
    simp only [insertB, toPs_append, List.mem_append] at hi
    rcases hi with hi | hi
    · exact body_term_wf b hb i hi
    · simp only [toPs, List.map_cons, List.map_nil, List.mem_singleton] at hi
      subst hi; exact newEntry_wf k v hk hv

theorem mem_toPs_replace (pre post : List LItem) (x y : LItem) (i : PItem)
    (hi : i ∈ toPs (pre ++ y :: post)) : i = y.toP ∨ i ∈ toPs (pre ++ x :: post) := by
  simp only [toPs_append, toPs_cons, List.mem_append, List.mem_cons] at hi ⊢
  rcases hi with hi | hi | hi
  · exact Or.inr (Or.inl hi)
  · exact Or.inl hi
  · exact Or.inr (Or.inr (Or.inr hi))

theorem bodyOp_set (k v : Str) (hk : ValidKey k) (hv : ValidValue v) :
    BodyOp (fun cs => paraSet cs k v) (setB k v) where
  tree := by
    intro b hb hwf
    have hr := replaceFirst_lnodes k (fun _ => entryNew k v) (fun _ => .entry (newEntry k v)) b
      (by intro i _ _ n _; simp [LItem.nodes, entryNew_eq k v hv])
    simp only [paraSet, setB, hr]
    cases replB k (fun _ => LItem.entry (newEntry k v)) b with
    | some b' => rfl
    | none => exact (bodyOp_insert k v hk hv).tree b hb hwf
  term := by
    intro b m hb
    simp only [setB]
    cases hr : replB k (fun _ => LItem.entry (newEntry k v)) b with
    | some b' =>
      obtain ⟨pre, x, post, h1, _, h3⟩ := replB_some _ _ _ _ hr
      subst h1 h3
      exact itemsTerm_replace pre post x _ m (newEntry_allNl k v) hb
    | none => exact (bodyOp_insert k v hk hv).term b m hb
  wf := by
    intro b hb
    simp only [setB]
    cases hr : replB k (fun _ => LItem.entry (newEntry k v)) b with
    | some b' =>
      obtain ⟨pre, x, post, h1, _, h3⟩ := replB_some _ _ _ _ hr
      subst h1 h3
      intro i hi
      rcases mem_toPs_replace pre post x _ i hi with rfl | hi
      · exact newEntry_wf k v hk hv
      · exact hb i hi
    | none => exact (bodyOp_insert k v hk hv).wf b hb

theorem bodyOp_remove (k : Str) : BodyOp (fun cs => paraRemove cs k) (removeB k) where
  tree := by
    intro b _ _
    simp only [paraRemove, removeB]
    exact filter_lnodes k b
  term := by
    intro b m hb
    exact itemsTerm_filter _ b m hb
  wf := by
    intro b hb i hi
    simp only [removeB, toPs, List.mem_map] at hi
    obtain ⟨x, hx, rfl⟩ := hi
    exact hb _ (by simp only [toPs, List.mem_map]; exact ⟨x, (List.mem_filter.1 hx).1, rfl⟩)

/-! rename: the value is re-laid out by `Entry::new` -/

theorem splitOn_join' (ls : List Str) (hne : ls ≠ []) (h : ∀ l ∈ ls, '\n' ∉ l) :
    Text.splitOn '\n' (Text.join ['\n'] ls) = ls := by
  induction ls with
  | nil => exact absurd rfl hne
  | cons l ls ih =>
    cases ls with
    | nil => simpa [Text.join] using Text.splitOn_none '\n' l (h l (by simp))
    | cons m ms =>
      rw [join_cons_cons]
      simp only [List.append_assoc, List.cons_append, List.nil_append]
      rw [Text.splitOn_cons '\n' l _ (h l (by simp)), ih (by simp) (fun x hx => h x (by simp [hx]))]

theorem noNl_not_mem (l : Str) (h : NoNl l) : '\n' ∉ l := by
  intro hm
  have := h _ hm
  simp [isNewline] at this

theorem validCont_first (t : Str) (h : ValidCont t) : t ≠ [] ∧ ValidFirst t := by
  obtain ⟨h1, c, cs, rfl, h2, _⟩ := h
  refine ⟨by simp, h1, ?_⟩
  intro x hx; simp at hx; subst hx; exact h2

theorem validValue_of_lines (l : Str) (ls : List Str) (h1 : l ≠ []) (h2 : ValidFirst l)
    (h3 : ∀ t ∈ ls, ValidCont t) : ValidValue (Text.join ['\n'] (l :: ls)) := by
  unfold ValidValue
  rw [splitOn_join' (l :: ls) (by simp)]
  · exact ⟨h1, h2, h3⟩
  · intro x hx
    simp only [List.mem_cons] at hx
    rcases hx with rfl | hx
    · exact noNl_not_mem _ h2.1
    · exact noNl_not_mem _ (h3 x hx).1

theorem validValue_valueLines (e : EntryS) (h : e.WF) (hne : e.valueLines ≠ []) :
    ValidValue (Text.join ['\n'] e.valueLines) := by
  have hc : ∀ t ∈ e.conts.map ContS.text, ValidCont t := by
    intro t ht
    simp only [List.mem_map] at ht
    obtain ⟨c, hc, rfl⟩ := ht
    exact (h.conts_ok c hc).text_ok
  unfold EntryS.valueLines at hne ⊢
  by_cases hv : e.v = []
  · simp only [hv, ↓reduceIte, List.nil_append] at hne ⊢
    cases hm : e.conts.map ContS.text with
    | nil => exact absurd hm hne
    | cons t ts =>
      rw [hm] at hc
      have := validCont_first t (hc t (by simp))
      exact validValue_of_lines t ts this.1 this.2 (fun x hx => hc x (by simp [hx]))
  · simp only [hv, ↓reduceIte, List.singleton_append]
    exact validValue_of_lines e.v _ hv h.v_ok hc

theorem renameItem_nodes (k k' : Str) (i : LItem) (hk : hasKey k i = true) (hwf : i.toP.WF) (n : DNode)
    (hn : i.nodes = [n]) : (renameItem k' i).nodes = [entryNew k' (entryValue n)] := by
  cases i with
  | comment t nl => simp [hasKey, LItem.key?] at hk
  | entry e =>
    simp only [LItem.nodes, List.cons.injEq, and_true] at hn
    subst hn
    rw [entryValue_node]
    simp only [renameItem]
    split
    · rename_i hv; rw [hv]; simp [Text.join, LItem.nodes]
    · rename_i hv
      simp [LItem.nodes, entryNew_eq k' _ (validValue_valueLines e hwf hv)]
  | bare k0 =>
    simp only [LItem.nodes, List.cons.injEq, and_true] at hn
    subst hn
    simp [renameItem, LItem.nodes, entryValue_bare]

theorem bareS_wf (k : Str) (hk : ValidKey k) : (bareS k).WF :=
  ⟨hk, by intro c hc; simp [bareS] at hc; subst hc; rfl, ⟨by intro c hc; simp [bareS] at hc, by simp [bareS]⟩,
    by simp [bareS]⟩

theorem renameItem_allNl (k k' : Str) (i : LItem) (hk : hasKey k i = true) : (renameItem k' i).toP.AllNl := by
  cases i with
  | comment t nl => simp [hasKey, LItem.key?] at hk
  | entry e =>
    simp only [renameItem]
    split
    · exact ⟨rfl, by simp [bareS]⟩
    · exact newEntry_allNl _ _
  | bare k0 => exact ⟨rfl, by simp [bareS]⟩

theorem renameItem_wf (k k' : Str) (hk' : ValidKey k') (i : LItem) (hk : hasKey k i = true)
    (hwf : i.toP.WF) : (renameItem k' i).toP.WF := by
  cases i with
  | comment t nl => simp [hasKey, LItem.key?] at hk
  | entry e =>
    simp only [renameItem]
    split
    · exact bareS_wf k' hk'
    · rename_i hv; exact newEntry_wf _ _ hk' (validValue_valueLines e hwf hv)
  | bare k0 => exact bareS_wf k' hk'

theorem mem_toPs (b : List LItem) (i : LItem) (h : i ∈ b) : i.toP ∈ toPs b := by
  simp only [toPs, List.mem_map]; exact ⟨i, h, rfl⟩

theorem bodyOp_rename (k k' : Str) (hk' : ValidKey k') :
    BodyOp (fun cs => (paraRename cs k k').1) (renameB k k') where
  tree := by
    intro b _ hwf
    have hr := replaceFirst_lnodes k (fun e => entryNew k' (entryValue e)) (renameItem k') b
      (by intro i hi hk n hn; exact renameItem_nodes k k' i hk (hwf _ (mem_toPs b i hi)) n hn)
    simp only [paraRename, renameB, hr]
    cases replB k (renameItem k') b <;> rfl
  term := by
    intro b m hb
    simp only [renameB]
    cases hr : replB k (renameItem k') b with
    | some b' =>
      obtain ⟨pre, x, post, h1, h2, h3⟩ := replB_some _ _ _ _ hr
      subst h1 h3
      exact itemsTerm_replace pre post x _ m (renameItem_allNl k k' x h2) hb
    | none => exact hb
  wf := by
    intro b hb
    simp only [renameB]
    cases hr : replB k (renameItem k') b with
    | some b' =>
      obtain ⟨pre, x, post, h1, h2, h3⟩ := replB_some _ _ _ _ hr
      subst h1 h3
      intro i hi
      rcases mem_toPs_replace pre post x _ i hi with rfl | hi
      · exact renameItem_wf k k' hk' x h2 (hb _ (mem_toPs _ x (by simp)))
      · exact hb i hi
    | none => exact hb

/-! ## operations on documents -/

theorem unitsTermN_congr (a : List EUnit) (n n' : Option EUnit) (h1 : n.isSome = n'.isSome)
    (h2 : n = some (.gap .blank) ↔ n' = some (.gap .blank)) (h : unitsTermN a n) : unitsTermN a n' := by
  induction a with
  | nil => trivial
  | cons x a ih =>
    rw [unitsTermN_cons] at h ⊢
    refine ⟨?_, ih h.2⟩
    cases a with
    | nil => exact follows_congr x _ _ h1 h2 h.1
    | cons y a => exact h.1

/-- what precedes a paragraph may precede anything -/
theorem unitsTermN_before_para (a : List EUnit) (b : List LItem) (n : Option EUnit)
    (h : unitsTermN a (some (.para b))) : unitsTermN a n := by
  induction a with
  | nil => trivial
  | cons x a ih =>
    rw [unitsTermN_cons] at h ⊢
    refine ⟨?_, ih h.2⟩
    cases a with
    | cons y a => exact h.1
    | nil =>
      have hf := h.1
      simp only [nxt] at hf ⊢
      cases x with
      | gap g =>
        cases g with
        | blank => trivial
        | comment t nl =>
          rcases hf with hf | hf
          · exact Or.inl hf
          · simp at hf
      | para b0 =>
        rcases hf.2 with hf | hf <;> simp at hf

theorem follows_none (x y : EUnit) (h : follows x (some y)) : follows x none := by
  cases x with
  | gap g =>
    cases g with
    | blank => trivial
    | comment t nl => exact Or.inr rfl
  | para b => exact ⟨itemsTerm_mono _ _ _ (by simp) h.1, Or.inl rfl⟩

theorem unitsTermN_none (a : List EUnit) (y : EUnit) (h : unitsTermN a (some y)) : unitsTermN a none := by
  induction a with
  | nil => trivial
  | cons x a ih =>
    rw [unitsTermN_cons] at h ⊢
    refine ⟨?_, ih h.2⟩
    cases a with
    | cons z a => exact h.1
    | nil => exact follows_none x y h.1

theorem split_at {α} (l : List α) (i : Nat) (x : α) (h : l[i]? = some x) :
    l = l.take i ++ x :: l.drop (i + 1) ∧ (l.take i).length = i := by
  obtain ⟨hl, he⟩ := List.getElem?_eq_some_iff.mp h
  refine ⟨?_, by simp; omega⟩
  rw [← he]; simp

theorem unit_of_para_node (u : EUnit) (cs : List DNode) (h : u.node = .node .PARAGRAPH cs) :
    ∃ b, u = .para b ∧ cs = lnodes b := by
  cases u with
  | gap g => simp [EUnit.node, Gap.node] at h
  | para b => simp only [EUnit.node, Node.node.injEq, true_and] at h; exact ⟨b, rfl, h.symm⟩

/-- **a field edit through a paragraph handle keeps the invariant** -/
theorem onPara_units (f : List DNode → List DNode) (g : List LItem → List LItem) (hop : BodyOp f g)
    (us : List EUnit) (hu : UWF us) (d : Doc) (hd : d.kids = unitsKids us) (h : Nat) :
    ∃ us', (d.onPara h f).kids = unitsKids us' ∧ UWF us' := by
  unfold Doc.onPara
  split
  · rename_i i hi
    split
    · rename_i cs hk
      rw [hd] at hk
      simp only [unitsKids, List.getElem?_map, Option.map_eq_some_iff] at hk
      obtain ⟨u, hu1, hu2⟩ := hk
      obtain ⟨b, rfl, rfl⟩ := unit_of_para_node u cs hu2
      obtain ⟨hsplit, hlen⟩ := split_at us i _ hu1
      have hwfb : ∀ x ∈ toPs b, x.WF := hu.ok (.para b) (List.mem_of_getElem? hu1)
      have hterm := hu.term
      rw [hsplit, unitsTermN_append, unitsTermN_cons] at hterm
      obtain ⟨ht1, ht2, ht3⟩ := hterm
      have htb : itemsTerm (toPs b) false := itemsTerm_mono _ _ _ (by simp) ht2.1
      refine ⟨us.take i ++ .para (g b) :: us.drop (i + 1), ?_, ?_, ?_⟩
      · simp only [hd]
        rw [hop.tree b htb hwfb]
        conv => lhs; rw [hsplit]
        simp only [unitsKids, List.map_append, List.map_cons, EUnit.node]
        have hlt : i < us.length := (List.getElem?_eq_some_iff.mp hu1).1
        rw [List.set_append_right _ _ (by simp; omega)]
        have h0 : i - min i us.length = 0 := by omega
        simp [h0]
      · intro x hx
        simp only [List.mem_append, List.mem_cons] at hx
        rcases hx with hx | rfl | hx
        · exact hu.ok x (List.mem_of_mem_take hx)
        · exact hop.wf b hwfb
        · exact hu.ok x (List.mem_of_mem_drop hx)
      · rw [unitsTermN_append, unitsTermN_cons]
        refine ⟨unitsTermN_congr _ _ _ (by simp [nxt]) (by simp [nxt]) ht1, ⟨hop.term b _ ht2.1, ht2.2⟩, ht3⟩
    · exact ⟨us, hd, hu⟩
  · exact ⟨us, hd, hu⟩

/-! ### terminating the document's last line -/

theorem needsNl_nil : needsNl [] = false := needsNl_nil0

theorem unit_closed_of_follows (u y : EUnit) (h : follows u (some y)) :
    u.term = u ∧ ∀ X, needsNl X = false → needsNl (X ++ [u.node]) = false := by
  cases u with
  | gap g =>
    cases g with
    | blank =>
      refine ⟨rfl, fun X _ => ?_⟩
      rw [needsNl_append, if_neg (by simp)]
      simp only [EUnit.node, Gap.node]
      rw [needsNl_node, needsNl_toks]; simp [Gap.toks, needsT]
    | comment t nl =>
      have hnl : nl = true := by
        rcases h with h | h
        · exact h
        · simp at h
      subst hnl
      refine ⟨rfl, fun X _ => ?_⟩
      rw [needsNl_append, if_neg (by simp)]
      simp only [EUnit.node, Gap.node]
      rw [needsNl_node, needsNl_toks]; simp [Gap.toks, nlTok, needsT]
  | para b =>
    have hall := allNl_of_itemsTerm _ (by simpa using h.1)
    refine ⟨by simp [EUnit.term, body_term_id b hall], fun X _ => ?_⟩
    rw [needsNl_append, if_neg (by simp)]
    simp only [EUnit.node]
    rw [needsNl_node]; exact needsNl_lnodes_allNl b hall

theorem terminateLastLine_last_unit (u : EUnit) (h : follows u none) (X : List DNode) (_hX : needsNl X = false) :
    terminateLastLine (X ++ [u.node]) = X ++ [u.term.node] := by
  cases u with
  | gap g =>
    simp only [EUnit.node, Gap.node]
    rw [terminateLastLine_into X _ _, terminateLastLine_toks]
    cases g with
    | blank => simp [Gap.toks, needsT, EUnit.term, EUnit.node, Gap.node]
    | comment t nl =>
      cases nl <;> simp [Gap.toks, nlTok, needsT, EUnit.term, EUnit.node, Gap.node]
  | para b =>
    simp only [EUnit.node]
    rw [terminateLastLine_into X _ _, terminateLastLine_lnodes b (by simpa using h.1)]
    rfl

theorem terminateLastLine_units (us : List EUnit) (h : unitsTermN us none) :
    ∀ X : List DNode, needsNl X = false →
      terminateLastLine (X ++ unitsKids us) = X ++ unitsKids (us.map EUnit.term) := by
  induction us with
  | nil => intro X hX; simpa [unitsKids] using terminateLastLine_of_not_needs X hX
  | cons u us ih =>
    intro X hX
    rw [unitsTermN_cons] at h
    cases us with
    | nil =>
      simpa [unitsKids] using terminateLastLine_last_unit u (by simpa [nxt] using h.1) X hX
    | cons y ys =>
      obtain ⟨h1, h2⟩ := unit_closed_of_follows u y (by simpa [nxt] using h.1)
      have := ih h.2 (X ++ [u.node]) (h2 X hX)
      simp only [unitsKids, List.map_cons, List.append_assoc, List.cons_append, List.nil_append] at this ⊢
      rw [this, h1]

theorem EUnit.term_wf (u : EUnit) (h : u.WF) : u.term.WF := by
  cases u with
  | gap g => cases g <;> exact h
  | para b => exact body_term_wf b h

theorem follows_term (x : EUnit) (n n' : Option EUnit) (h : follows x n)
    (hn : n.isSome = n'.isSome) (hb : n = some (.gap .blank) → n' = some (.gap .blank)) :
    follows x.term n' := by
  cases x with
  | gap g =>
    cases g with
    | blank => trivial
    | comment t nl => exact Or.inl rfl
  | para b =>
    refine ⟨itemsTerm_of_allNl _ _ (body_term_allNl b), ?_⟩
    rcases h.2 with h2 | h2
    · subst h2; left; cases n' <;> simp_all
    · exact Or.inr (hb h2)

theorem unitsTermN_map_term (us : List EUnit) (h : unitsTermN us none) (n' : Option EUnit) :
    (∀ x, us.getLast? = some x → follows x.term n') → unitsTermN (us.map EUnit.term) n' := by
  induction us with
  | nil => intro _; trivial
  | cons x us ih =>
    intro hl
    rw [unitsTermN_cons] at h
    simp only [List.map_cons]
    rw [unitsTermN_cons]
    cases us with
    | nil => exact ⟨by simpa [nxt] using hl x (by simp), trivial⟩
    | cons y ys =>
      refine ⟨?_, ih h.2 (fun z hz => hl z (by simpa using hz))⟩
      have hf : follows x (some y) := by simpa [nxt] using h.1
      simp only [List.map_cons, nxt]
      apply follows_term x (some y) _ hf (by simp)
      intro hy
      simp only [Option.some.injEq] at hy
      subst hy; rfl

theorem last_term_follows (x : EUnit) (h : follows x none) : follows x.term (some (.gap .blank)) := by
  cases x with
  | gap g =>
    cases g with
    | blank => trivial
    | comment t nl => exact Or.inl rfl
  | para b => exact ⟨itemsTerm_of_allNl _ _ (body_term_allNl b), Or.inr rfl⟩

theorem last_follows_none (us : List EUnit) (n) (h : unitsTermN us n) (x : EUnit) (hx : us.getLast? = some x) :
    follows x n := by
  induction us with
  | nil => simp at hx
  | cons y us ih =>
    rw [unitsTermN_cons] at h
    cases us with
    | nil => simp at hx; subst hx; simpa [nxt] using h.1
    | cons z zs => exact ih h.2 (by simpa using hx)

/-! ### add / insert / remove paragraph -/

theorem unit_isNode (u : EUnit) : u.node.isNode = true := by
  cases u <;> simp [EUnit.node, Gap.node, Node.isNode]

theorem filter_isNode_units (us : List EUnit) : (unitsKids us).filter Node.isNode = unitsKids us := by
  apply List.filter_eq_self.2
  intro c hc
  simp only [unitsKids, List.mem_map] at hc
  obtain ⟨u, _, rfl⟩ := hc
  exact unit_isNode u

theorem emptyLine_eq : emptyLine = (EUnit.gap .blank).node := rfl

theorem isParaNode_unit (u : EUnit) : isParaNode u.node = true ↔ ∃ b, u = .para b := by
  cases u with
  | gap g => simp [isParaNode, EUnit.node, Gap.node, Node.isNode, Node.kind]
  | para b => simp [isParaNode, EUnit.node, Node.isNode, Node.kind]

theorem convertIndexAux_para (kids : List DNode) : ∀ (idx off p : Nat),
    convertIndexAux kids idx off = some p →
    ∃ q c, p = off + q ∧ kids[q]? = some c ∧ isParaNode c = true := by
  induction kids with
  | nil => intro idx off p h; simp [convertIndexAux] at h
  | cons c cs ih =>
    intro idx off p h
    simp only [convertIndexAux] at h
    split at h
    · rename_i hc
      split at h
      · simp at h; exact ⟨0, c, by omega, by simp, hc⟩
      · obtain ⟨q, c', h1, h2, h3⟩ := ih _ _ _ h
        exact ⟨q + 1, c', by omega, by simpa using h2, h3⟩
    · obtain ⟨q, c', h1, h2, h3⟩ := ih _ _ _ h
      exact ⟨q + 1, c', by omega, by simpa using h2, h3⟩

/-- `convert_index` on a unit list points at a paragraph unit -/
theorem convertIndex_units (us : List EUnit) (idx p : Nat) (h : convertIndex (unitsKids us) idx = some p) :
    ∃ b, us[p]? = some (.para b) := by
  obtain ⟨q, c, h1, h2, h3⟩ := convertIndexAux_para _ _ _ _ h
  simp only [Nat.zero_add] at h1; subst h1
  simp only [unitsKids, List.getElem?_map, Option.map_eq_some_iff] at h2
  obtain ⟨u, hu, rfl⟩ := h2
  obtain ⟨b, rfl⟩ := (isParaNode_unit u).1 h3
  exact ⟨b, hu⟩

theorem eraseIdx_mid {α} (A B : List α) (x : α) : (A ++ x :: B).eraseIdx A.length = A ++ B := by
  induction A with
  | nil => rfl
  | cons a A ih => simp [ih]

theorem getElem?_mid {α} (A B : List α) : (A ++ B)[A.length]? = B.head? := by
  induction A with
  | nil => cases B <;> simp
  | cons a A ih => simpa using ih

/-- **`insert_paragraph(i)` at an existing position keeps the invariant**: the new (empty) paragraph
    and a blank line are put in front of the i-th paragraph -/
theorem insertAt_units (us : List EUnit) (hu : UWF us) (d : Doc) (hd : d.kids = unitsKids us)
    (p : Nat) (b : List LItem) (hp : us[p]? = some (.para b)) :
    (insertEmptyParagraph d (some p)).kids =
        unitsKids (us.take p ++ [.para [], .gap .blank] ++ us.drop p)
      ∧ UWF (us.take p ++ [.para [], .gap .blank] ++ us.drop p) := by
  obtain ⟨hsplit, hlen⟩ := split_at us p _ hp
  have hlt : p < us.length := (List.getElem?_eq_some_iff.mp hp).1
  have hdrop : us.drop p = .para b :: us.drop (p + 1) := by
    rw [List.drop_eq_getElem_cons hlt]
    have := (List.getElem?_eq_some_iff.mp hp).2
    rw [this]
  constructor
  · simp only [insertEmptyParagraph, insertAt, hd, filter_isNode_units]
    have hpos : (unitsKids us).length > 0 := by simp [unitsKids]; omega
    simp only [hpos, ↓reduceIte, emptyLine_eq]
    simp [unitsKids, List.map_take, List.map_drop, EUnit.node, lnodes]
  · have hterm := hu.term
    rw [hsplit, unitsTermN_append, unitsTermN_cons] at hterm
    obtain ⟨ht1, ht2, ht3⟩ := hterm
    constructor
    · intro x hx
      simp only [List.mem_append, List.mem_cons, List.not_mem_nil, or_false] at hx
      rcases hx with (hx | rfl | rfl) | hx
      · exact hu.ok x (List.mem_of_mem_take hx)
      · intro i hi; simp [toPs] at hi
      · trivial
      · exact hu.ok x (List.mem_of_mem_drop hx)
    · rw [hdrop, List.append_assoc, unitsTermN_append]
      refine ⟨unitsTermN_before_para _ b _ (by simpa [nxt] using ht1), ?_⟩
      simp only [List.cons_append, List.nil_append, unitsTermN_cons, nxt]
      exact ⟨⟨trivial, Or.inr rfl⟩, trivial, ht2, ht3⟩

/-- **`add_paragraph` keeps the invariant**: the last line is terminated, a blank line (if the
    document is not empty) and the new empty paragraph are appended -/
theorem add_units (us : List EUnit) (hu : UWF us) (d : Doc) (hd : d.kids = unitsKids us) :
    (insertEmptyParagraph d none).kids =
        unitsKids (us.map EUnit.term ++ (if us = [] then [] else [.gap .blank]) ++ [.para []])
      ∧ UWF (us.map EUnit.term ++ (if us = [] then [] else [.gap .blank]) ++ [.para []]) := by
  have htl := terminateLastLine_units us hu.term [] needsNl_nil
  simp only [List.nil_append] at htl
  constructor
  · simp only [insertEmptyParagraph, insertAt, hd, filter_isNode_units, htl]
    have hl : (unitsKids us).length = (unitsKids (us.map EUnit.term)).length := by simp [unitsKids]
    rw [hl, List.take_length, List.drop_length]
    cases us with
    | nil => simp [unitsKids, EUnit.node, lnodes]
    | cons u us => simp [unitsKids, EUnit.node, lnodes, emptyLine_eq]
  · constructor
    · intro x hx
      simp only [List.mem_append, List.mem_map, List.mem_singleton] at hx
      rcases hx with (⟨y, hy, rfl⟩ | hx) | rfl
      · exact EUnit.term_wf y (hu.ok y hy)
      · split at hx
        · simp at hx
        · simp at hx; subst hx; trivial
      · intro i hi; simp [toPs] at hi
    · cases us with
      | nil => simp [unitsTermN, follows, toPs, itemsTerm]
      | cons u us =>
        simp only [reduceCtorEq, ↓reduceIte, List.append_assoc, List.cons_append, List.nil_append]
        rw [unitsTermN_append]
        refine ⟨?_, ?_⟩
        · apply unitsTermN_map_term _ hu.term
          intro x hx
          simpa [nxt] using last_term_follows x (last_follows_none _ _ hu.term x hx)
        · simp [unitsTermN, follows, toPs, itemsTerm]

/-- **`remove_paragraph(i)` keeps the invariant**: the paragraph goes, and so does the blank line
    that followed it -/
theorem remove_units (us : List EUnit) (hu : UWF us) (d : Doc) (hd : d.kids = unitsKids us) (idx : Nat) :
    ∃ us', (removeParagraph d idx).kids = unitsKids us' ∧ UWF us' ∧
      (us' = us ∨ ∃ pre b post, us = pre ++ .para b :: post ∧
        (us' = pre ++ post.tail ∨ (us' = pre ++ post ∧ post = []))) := by
  unfold removeParagraph
  cases hc : convertIndex d.kids idx with
  | none => exact ⟨us, hd, hu, Or.inl rfl⟩
  | some p =>
    rw [hd] at hc
    obtain ⟨b, hp⟩ := convertIndex_units us idx p hc
    obtain ⟨hsplit, hlen⟩ := split_at us p _ hp
    generalize hpre : us.take p = pre at hsplit hlen
    generalize hpost : us.drop (p + 1) = post at hsplit
    have hterm := hu.term
    rw [hsplit, unitsTermN_append, unitsTermN_cons] at hterm
    obtain ⟨ht1, ht2, ht3⟩ := hterm
    have hok : ∀ x, x ∈ pre ∨ x ∈ post → x.WF := by
      intro x hx
      apply hu.ok x
      rw [hsplit]; simp only [List.mem_append, List.mem_cons]
      rcases hx with hx | hx
      · exact Or.inl hx
      · exact Or.inr (Or.inr hx)
    have hk1 : d.kids.eraseIdx p = unitsKids pre ++ unitsKids post := by
      rw [hd, hsplit, ← hlen]
      simp only [unitsKids, List.map_append, List.map_cons]
      rw [← List.length_map (f := EUnit.node), eraseIdx_mid]
    simp only [hk1]
    have hget : (unitsKids pre ++ unitsKids post)[p]? = (unitsKids post).head? := by
      rw [← hlen, ← List.length_map (f := EUnit.node)]; exact getElem?_mid _ _
    rw [hget]
    cases post with
    | nil =>
      refine ⟨pre, by simp [unitsKids], ⟨fun x hx => hok x (Or.inl hx), ?_⟩,
        Or.inr ⟨pre, b, [], hsplit, Or.inl (by simp)⟩⟩
      exact unitsTermN_before_para _ b _ (by simpa [nxt] using ht1)
    | cons y post' =>
      have hy : y = .gap .blank := by
        rcases ht2.2 with h | h
        · simp [nxt] at h
        · simpa [nxt] using h
      subst hy
      simp only [unitsKids, List.map_cons, List.head?_cons, EUnit.node, Gap.node, Node.isNode,
        Node.kind, beq_self_eq_true, Bool.and_self, ↓reduceIte]
      rw [unitsTermN_cons] at ht3
      refine ⟨pre ++ post', ?_, ⟨?_, ?_⟩, Or.inr ⟨pre, b, _, hsplit, Or.inl rfl⟩⟩
      · rw [← hlen, ← List.length_map (f := EUnit.node), eraseIdx_mid]; simp
      · intro x hx
        simp only [List.mem_append] at hx
        rcases hx with hx | hx
        · exact hok x (Or.inl hx)
        · exact hok x (Or.inr (by simp [hx]))
      · rw [unitsTermN_append]
        exact ⟨unitsTermN_before_para _ b _ (by simpa [nxt] using ht1), ht3.2⟩

/-! ## the units of a well-formed document -/

def LItem.ofP : PItem → LItem
  | .comment t nl => .comment t nl
  | .entry e => .entry e

def paraBody (p : ParaS) : List LItem := .entry p.first :: p.rest.map LItem.ofP

def paraUnits (pg : ParaS × List Gap) : List EUnit := .para (paraBody pg.1) :: pg.2.map .gap

/-- a parsed well-formed document as a unit list -/
def unitsOf (d : DocS) : List EUnit := d.lead.map .gap ++ (d.paras.map paraUnits).flatten

theorem toP_ofP (i : PItem) : (LItem.ofP i).toP = i := by cases i <;> rfl

theorem toPs_ofP (is : List PItem) : toPs (is.map LItem.ofP) = is := by
  induction is with
  | nil => rfl
  | cons i is ih => simp only [List.map_cons, toPs_cons, toP_ofP]; rw [ih]

theorem toPs_paraBody (p : ParaS) : toPs (paraBody p) = .entry p.first :: p.rest := by
  simp only [paraBody, toPs_cons, toPs_ofP]; rfl

theorem lnodes_ofP (is : List PItem) : lnodes (is.map LItem.ofP) = itemsNodes is := by
  induction is with
  | nil => rfl
  | cons i is ih =>
    simp only [List.map_cons, lnodes_cons, ih, itemsNodes, List.flatten_cons]
    cases i <;> rfl

theorem node_paraBody (p : ParaS) : (EUnit.para (paraBody p)).node = p.node := by
  simp [EUnit.node, paraBody, lnodes_cons, lnodes_ofP, LItem.nodes, ParaS.node]

theorem unitsKids_append (a b : List EUnit) : unitsKids (a ++ b) = unitsKids a ++ unitsKids b := by
  simp [unitsKids]

theorem unitsKids_gaps (gs : List Gap) : unitsKids (gs.map .gap) = gs.map Gap.node := by
  simp [unitsKids, EUnit.node]

theorem unitsKids_paras (ps : List (ParaS × List Gap)) :
    unitsKids (ps.map paraUnits).flatten = parasNodes ps := by
  induction ps with
  | nil => rfl
  | cons pg ps ih =>
    simp only [List.map_cons, List.flatten_cons, unitsKids_append, ih, parasNodes]
    simp only [paraUnits, unitsKids, List.map_cons, node_paraBody]
    simp [EUnit.node]

/-- the unit list has exactly the children of the parsed tree -/
theorem unitsKids_unitsOf (d : DocS) : unitsKids (unitsOf d) = d.tree.children := by
  simp [unitsOf, unitsKids_append, unitsKids_gaps, unitsKids_paras, DocS.tree, Node.children]

theorem unitsTermN_gaps (gs : List Gap) (more : Bool) (n : Option EUnit) (h : gapsTerm gs more)
    (hm : more = false → n = none) : unitsTermN (gs.map .gap) n := by
  induction gs with
  | nil => trivial
  | cons g gs ih =>
    simp only [List.map_cons]
    rw [unitsTermN_cons]
    cases g with
    | blank => exact ⟨trivial, ih h⟩
    | comment t nl =>
      obtain ⟨h1, h2⟩ := h
      refine ⟨?_, ih h2⟩
      rcases h1 with h | ⟨ha, hb⟩
      · exact Or.inl h
      · subst ha; right; simpa [nxt] using hm hb

theorem unitsTermN_paras (ps : List (ParaS × List Gap)) (h : parasTerm ps) :
    unitsTermN (ps.map paraUnits).flatten none := by
  induction ps with
  | nil => trivial
  | cons pg ps ih =>
    obtain ⟨p, g⟩ := pg
    cases ps with
    | nil =>
      obtain ⟨h1, h2, h3⟩ := h
      simp only [List.map_cons, List.map_nil, List.flatten_cons, List.flatten_nil, List.append_nil,
        paraUnits]
      rw [unitsTermN_cons]
      refine ⟨⟨?_, ?_⟩, unitsTermN_gaps g false none h3 (fun _ => rfl)⟩
      · rw [toPs_paraBody]
        have : (nxt (g.map EUnit.gap) none).isSome = !g.isEmpty := by cases g <;> rfl
        rw [this]; exact h1
      · rcases h2 with rfl | ⟨g', rfl⟩
        · left; rfl
        · right; rfl
    | cons q qs =>
      obtain ⟨h1, ⟨g', hg⟩, h3, h4⟩ := h
      have hrec := ih h4
      subst hg
      simp only [List.map_cons, List.flatten_cons, paraUnits, List.cons_append] at hrec ⊢
      rw [unitsTermN_cons]
      refine ⟨⟨?_, Or.inr rfl⟩, ?_⟩
      · rw [toPs_paraBody]; exact h1
      · have := unitsTermN_gaps (.blank :: g') true
          (nxt (EUnit.para (paraBody q.1) :: (q.2.map EUnit.gap ++ (qs.map paraUnits).flatten)) none)
          h3 (by simp)
        rw [← List.cons_append, ← List.map_cons (f := EUnit.gap), unitsTermN_append]
        exact ⟨this, hrec⟩

/-- **a parsed well-formed document satisfies the invariant** -/
theorem uwf_unitsOf (d : DocS) (h : d.WF) : UWF (unitsOf d) := by
  constructor
  · intro u hu
    simp only [unitsOf, List.mem_append, List.mem_map, List.mem_flatten] at hu
    rcases hu with ⟨g, hg, rfl⟩ | ⟨l, ⟨pg, hpg, rfl⟩, hu⟩
    · exact h.lead_ok g hg
    · obtain ⟨hp, hgs⟩ := h.paras_ok pg hpg
      simp only [paraUnits, List.mem_cons, List.mem_map] at hu
      rcases hu with rfl | ⟨g, hg, rfl⟩
      · simp only [EUnit.WF, toPs_paraBody]
        intro i hi
        simp only [List.mem_cons] at hi
        rcases hi with rfl | hi
        · exact hp.first_ok
        · exact hp.rest_ok i hi
      · exact hgs g hg
  · simp only [unitsOf]
    rw [unitsTermN_append]
    refine ⟨unitsTermN_gaps _ _ _ h.lead_term ?_, unitsTermN_paras _ h.paras_term⟩
    intro hm
    have : d.paras = [] := by simpa using hm
    rw [this]; rfl

/-! ## edit histories -/

inductive EditOp
  | set (h : Nat) (k v : Str)
  | ins (h : Nat) (k v : Str)
  | rm (h : Nat) (k : Str)
  | ren (h : Nat) (k k' : Str)
  | addp
  | insp (i : Nat)
  | rmp (i : Nat)
  deriving Repr, DecidableEq

/-- valid arguments (what the harness generates / checks with `valid_key`, `canon_value`): names
    and values the grammar can hold. Removal takes any name. -/
def EditOp.Valid : EditOp → Prop
  | .set _ k v => ValidKey k ∧ ValidValue v
  | .ins _ k v => ValidKey k ∧ ValidValue v
  | .rm _ _ => True
  | .ren _ _ k' => ValidKey k'
  | .addp => True
  | .insp _ => True
  | .rmp _ => True

instance (o : EditOp) : Decidable o.Valid := by
  cases o <;> simp only [EditOp.Valid] <;> exact inferInstance

/-- one step of `Driver/Deb.lean`'s `histStep`, typed -/
def step (d : Doc) : EditOp → Doc
  | .set h k v => d.onPara h (fun cs => paraSet cs k v)
  | .ins h k v => d.onPara h (fun cs => paraInsert cs k v)
  | .rm h k => d.onPara h (fun cs => paraRemove cs k)
  | .ren h k k' => d.onPara h (fun cs => (paraRename cs k k').1)
  | .addp => addParagraph d
  | .insp i => insertParagraph d i
  | .rmp i => removeParagraph d i

def run (d : Doc) (ops : List EditOp) : Doc := ops.foldl step d

/-- **every edit keeps the invariant** -/
theorem step_units (us : List EUnit) (hu : UWF us) (d : Doc) (hd : d.kids = unitsKids us)
    (o : EditOp) (ho : o.Valid) : ∃ us', (step d o).kids = unitsKids us' ∧ UWF us' := by
  cases o with
  | set h k v => exact onPara_units _ _ (bodyOp_set k v ho.1 ho.2) us hu d hd h
  | ins h k v => exact onPara_units _ _ (bodyOp_insert k v ho.1 ho.2) us hu d hd h
  | rm h k => exact onPara_units _ _ (bodyOp_remove k) us hu d hd h
  | ren h k k' => exact onPara_units _ _ (bodyOp_rename k k' ho) us hu d hd h
  | addp => exact ⟨_, (add_units us hu d hd).1, (add_units us hu d hd).2⟩
  | insp i =>
    simp only [step, insertParagraph]
    cases hc : convertIndex d.kids i with
    | none => exact ⟨_, (add_units us hu d hd).1, (add_units us hu d hd).2⟩
    | some p =>
      rw [hd] at hc
      obtain ⟨b, hp⟩ := convertIndex_units us i p hc
      exact ⟨_, (insertAt_units us hu d hd p b hp).1, (insertAt_units us hu d hd p b hp).2⟩
  | rmp i =>
    obtain ⟨us', h1, h2, _⟩ := remove_units us hu d hd i
    exact ⟨us', h1, h2⟩

theorem run_units (ops : List EditOp) : ∀ (us : List EUnit) (d : Doc), UWF us → d.kids = unitsKids us →
    (∀ o ∈ ops, o.Valid) → ∃ us', (run d ops).kids = unitsKids us' ∧ UWF us' := by
  induction ops with
  | nil => intro us d hu hd _; exact ⟨us, hd, hu⟩
  | cons o ops ih =>
    intro us d hu hd hv
    obtain ⟨us1, h1, h2⟩ := step_units us hu d hd o (hv o (by simp))
    exact ih us1 (step d o) h2 h1 (fun x hx => hv x (by simp [hx]))

/-! ## documents built by `FromIterator` (`paraOfPairs`, `docOfParas`) -/

def builtBody (kvs : List (Str × Str)) : List LItem := kvs.map fun kv => .entry (newEntry kv.1 kv.2)

def builtUnits : List (List (Str × Str)) → List EUnit
  | [] => []
  | [p] => [.para (builtBody p)]
  | p :: q :: ps => .para (builtBody p) :: .gap .blank :: builtUnits (q :: ps)

def ValidPairs (kvs : List (Str × Str)) : Prop := ∀ kv ∈ kvs, ValidKey kv.1 ∧ ValidValue kv.2

instance (kvs : List (Str × Str)) : Decidable (ValidPairs kvs) := by unfold ValidPairs; exact inferInstance

theorem node_builtBody (kvs : List (Str × Str)) (h : ValidPairs kvs) :
    (EUnit.para (builtBody kvs)).node = paraOfPairs kvs := by
  simp only [EUnit.node, paraOfPairs, builtBody]
  congr 1
  induction kvs with
  | nil => rfl
  | cons kv kvs ih =>
    simp only [List.map_cons, lnodes_cons, LItem.nodes, List.singleton_append]
    rw [ih (fun x hx => h x (by simp [hx])), entryNew_eq _ _ (h kv (by simp)).2]

theorem builtBody_allNl (kvs : List (Str × Str)) : ∀ i ∈ toPs (builtBody kvs), i.AllNl := by
  intro i hi
  simp only [toPs, builtBody, List.map_map, List.mem_map, Function.comp] at hi
  obtain ⟨kv, _, rfl⟩ := hi
  exact newEntry_allNl _ _

/-- a paragraph built from pairs ends with a line terminator: `from_iter` leaves it as it is -/
theorem terminatePara_built (kvs : List (Str × Str)) (h : ValidPairs kvs) :
    terminatePara (paraOfPairs kvs) = paraOfPairs kvs := by
  rw [← node_builtBody kvs h]
  simp only [EUnit.node, terminatePara]
  rw [terminateLastLine_of_not_needs _ (needsNl_lnodes_allNl _ (builtBody_allNl kvs))]

theorem unitsKids_built (ps : List (List (Str × Str))) (h : ∀ p ∈ ps, ValidPairs p) :
    unitsKids (builtUnits ps) = docOfParas (ps.map paraOfPairs) := by
  induction ps with
  | nil => rfl
  | cons p ps ih =>
    cases ps with
    | nil => simp [builtUnits, unitsKids, docOfParas, node_builtBody p (h p (by simp))]
    | cons q qs =>
      have := ih (fun x hx => h x (by simp [hx]))
      simp only [builtUnits, unitsKids, List.map_cons, docOfParas, node_builtBody p (h p (by simp))] at this ⊢
      rw [this, terminatePara_built p (h p (by simp))]; rfl

/-- **a document built from valid (name, value) pairs satisfies the invariant** -/
theorem uwf_built (ps : List (List (Str × Str))) (h : ∀ p ∈ ps, ValidPairs p) : UWF (builtUnits ps) := by
  induction ps with
  | nil => exact ⟨by simp [builtUnits], trivial⟩
  | cons p ps ih =>
    have hp : (EUnit.para (builtBody p)).WF := by
      intro i hi
      simp only [toPs, builtBody, List.map_map, List.mem_map, Function.comp] at hi
      obtain ⟨kv, hkv, rfl⟩ := hi
      exact newEntry_wf _ _ (h p (by simp) kv hkv).1 (h p (by simp) kv hkv).2
    cases ps with
    | nil =>
      refine ⟨by intro u hu; simp [builtUnits] at hu; subst hu; exact hp, ?_⟩
      exact ⟨itemsTerm_of_allNl _ _ (builtBody_allNl p), Or.inl rfl⟩
    | cons q qs =>
      obtain ⟨ih1, ih2⟩ := ih (fun x hx => h x (by simp [hx]))
      refine ⟨?_, ?_⟩
      · intro u hu
        simp only [builtUnits, List.mem_cons] at hu
        rcases hu with rfl | rfl | hu
        · exact hp
        · trivial
        · exact ih1 u (by simpa [builtUnits] using hu)
      · simp only [builtUnits]
        rw [unitsTermN_cons, unitsTermN_cons]
        exact ⟨⟨itemsTerm_of_allNl _ _ (builtBody_allNl p), Or.inr rfl⟩, trivial, ih2⟩

end Deb822Verif.Spec
