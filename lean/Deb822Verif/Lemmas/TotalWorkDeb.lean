import Deb822Verif.Model.DebParse
/-!
# Work count of the lossless deb822 parser (`src/lossless.rs:125-288`) and of its lexer

Instrumented twins of the functions of `Model/DebParse.lean`: each returns the model's result *and*
the number of loop-body executions ("rounds") of the Rust loops it stands for.  A round is one
execution of the body of a `while` / `loop` (a round that ends in `break` / `return` is a round; the
final failing test of a `while` condition is not).

| twin            | Rust loop(s) counted                                                            |
|-----------------|---------------------------------------------------------------------------------|
| `skipWsC`       | `skip_ws`: `while current == WHITESPACE \|\| COMMENT` (lossless.rs:257-259)        |
| `bumpValsC`     | `while current == WHITESPACE \|\| VALUE` (191-193)                                 |
| `entryLinesC`   | the `loop { … }` of `parse_entry` (190-215) + the two above inside it            |
| `commentLoopC`  | `while current == COMMENT` (139-156)                                            |
| `keyPartC`, `colonPartC` | the `skip_ws` after the key / after the colon (169, 180)               |
| `parseEntryC`   | all loops of one `parse_entry` call                                             |
| `paraLoopC`     | `while current != NEWLINE && current.is_some()` of `parse_paragraph` (221-223) + the calls |
| `untilNlC`      | inner `while` of `skip_ws_and_newlines` (267-269)                               |
| `skipWsNlC`     | outer `while` of `skip_ws_and_newlines` (262-274) + inner                        |
| `rootLoopC`     | `while self.current().is_some()` of `Parser::parse` (230-235) + everything inside |

The trailing `skip_ws_and_newlines` (237) runs zero rounds (no token is left).  `*_fst`: the first
component is the model function.  `*_cost`: rounds + tokens left ≤ tokens given (+ a constant that
is only used when the input ends inside the loop).

Not loops of the parser and not counted: `lex(text).map(..).collect()` and `tokens.reverse()`
(lossless.rs:278-281, one pass each over the token vector), `GreenNodeBuilder` calls (one per token /
per node; the number of nodes is at most rounds + 3 per entry).
-/
namespace Deb822Verif.Deb.Work
open Deb822Verif Deb Node

/-! ### `skip_ws`, the value loop -/

def skipWsC : List Tok → (List DNode × List Tok) × Nat
  | [] => (([], []), 0)
  | t :: ts =>
    if t.1 = .WHITESPACE ∨ t.1 = .COMMENT then
      ((tk t :: (skipWsC ts).1.1, (skipWsC ts).1.2), (skipWsC ts).2 + 1)
    else (([], t :: ts), 0)

theorem skipWsC_fst (ts) : (skipWsC ts).1 = skipWs ts := by
  induction ts with
  | nil => rfl
  | cons t ts ih => simp only [skipWsC, skipWs]; split <;> simp [ih]

/-- every round of `skip_ws` bumps one token -/
theorem skipWsC_cost (ts) : (skipWsC ts).2 + (skipWs ts).2.length = ts.length := by
  induction ts with
  | nil => rfl
  | cons t ts ih => simp only [skipWsC, skipWs]; split <;> simp <;> omega

def bumpValsC : List Tok → (List DNode × List Tok) × Nat
  | [] => (([], []), 0)
  | t :: ts =>
    if t.1 = .WHITESPACE ∨ t.1 = .VALUE then
      ((tk t :: (bumpValsC ts).1.1, (bumpValsC ts).1.2), (bumpValsC ts).2 + 1)
    else (([], t :: ts), 0)

theorem bumpValsC_fst (ts) : (bumpValsC ts).1 = bumpVals ts := by
  induction ts with
  | nil => rfl
  | cons t ts ih => simp only [bumpValsC, bumpVals]; split <;> simp [ih]

theorem bumpValsC_cost (ts) : (bumpValsC ts).2 + (bumpVals ts).2.length = ts.length := by
  induction ts with
  | nil => rfl
  | cons t ts ih => simp only [bumpValsC, bumpVals]; split <;> simp <;> omega

/-! ### the `loop` of `parse_entry` -/

/-- rounds of the `loop` (one per value line / continuation line, the round that meets the end of the
    input included) + rounds of the value loop + rounds of `skip_ws` after each INDENT -/
def entryLinesC (ts : List Tok) : PR × Nat :=
  match h : (bumpValsC ts).1.2 with
  | [] => (⟨(bumpValsC ts).1.1, [], []⟩, (bumpValsC ts).2 + 1)
  | [t] => (⟨(bumpValsC ts).1.1 ++ nlNodes t, nlErrs t, []⟩, (bumpValsC ts).2 + 1)
  | t :: i :: r3 =>
    if i.1 = .INDENT then
      (⟨(bumpValsC ts).1.1 ++ nlNodes t ++ [tk i] ++ (skipWsC r3).1.1
          ++ (entryLinesC (skipWsC r3).1.2).1.nodes,
        nlErrs t ++ (entryLinesC (skipWsC r3).1.2).1.errs, (entryLinesC (skipWsC r3).1.2).1.rest⟩,
       (bumpValsC ts).2 + 1 + (skipWsC r3).2 + (entryLinesC (skipWsC r3).1.2).2)
    else (⟨(bumpValsC ts).1.1 ++ nlNodes t, nlErrs t, i :: r3⟩, (bumpValsC ts).2 + 1)
termination_by ts.length
decreasing_by
  all_goals
    rw [bumpValsC_fst] at h
    rw [skipWsC_fst]
    have h1 := bumpVals_len ts
    have h3 := skipWs_len r3
    rw [h] at h1
    simp at h1 ⊢
    omega

theorem entryLinesC_fst (ts) : (entryLinesC ts).1 = entryLines ts := by
  fun_induction entryLinesC ts
  case case1 x h =>
    rw [bumpValsC_fst] at h ⊢
    rw [entryLines]; split
    · rfl
    · rename_i h2; rw [h] at h2; cases h2
    · rename_i h2; rw [h] at h2; cases h2
  case case2 x t h =>
    rw [bumpValsC_fst] at h ⊢
    rw [entryLines]; split
    · rename_i h2; rw [h] at h2; cases h2
    · rename_i h2; rw [h] at h2; cases h2; rfl
    · rename_i h2; rw [h] at h2; cases h2
  case case3 x t i r3 h hi ih =>
    rw [bumpValsC_fst] at h ⊢
    rw [skipWsC_fst] at ih ⊢
    rw [entryLines]; split
    · rename_i h2; rw [h] at h2; cases h2
    · rename_i h2; rw [h] at h2; cases h2
    · rename_i h2; rw [h] at h2; cases h2
      simp only [if_pos hi, ih]
  case case4 x t i r3 h hi =>
    rw [bumpValsC_fst] at h ⊢
    rw [entryLines]; split
    · rename_i h2; rw [h] at h2; cases h2
    · rename_i h2; rw [h] at h2; cases h2
    · rename_i h2; rw [h] at h2; cases h2
      simp only [if_neg hi]

/-- 1 if the list is empty: the one round that consumes nothing is the one that finds no token -/
def atEnd (ts : List Tok) : Nat := if ts = [] then 1 else 0

@[simp] theorem atEnd_nil : atEnd [] = 1 := rfl
@[simp] theorem atEnd_cons (t : Tok) (ts) : atEnd (t :: ts) = 0 := rfl

theorem atEnd_spec (ts : List Tok) : (atEnd ts = 1 ∧ ts.length = 0) ∨ (atEnd ts = 0 ∧ 0 < ts.length) := by
  cases ts <;> simp

/-- the `loop` of `parse_entry`: every round bumps a token outside the inner loops (the NEWLINE or the
    token wrapped in ERROR) except a round that meets the end of the input -/
theorem entryLinesC_cost (ts) :
    (entryLinesC ts).2 + (entryLines ts).rest.length ≤ ts.length + atEnd (entryLines ts).rest := by
  rw [← entryLinesC_fst]
  fun_induction entryLinesC ts
  case case1 x h =>
    have := bumpValsC_cost x
    rw [bumpValsC_fst] at h; rw [h] at this
    simp at this ⊢; omega
  case case2 x t h =>
    have := bumpValsC_cost x
    rw [bumpValsC_fst] at h; rw [h] at this
    simp at this ⊢; omega
  case case3 x t i r3 h hi ih =>
    have h1 := bumpValsC_cost x
    have h2 := skipWsC_cost r3
    rw [bumpValsC_fst] at h; rw [h] at h1
    rw [skipWsC_fst] at ih ⊢
    simp only [List.length_cons] at h1 ⊢
    omega
  case case4 x t i r3 h hi =>
    have := bumpValsC_cost x
    rw [bumpValsC_fst] at h; rw [h] at this
    simp at this ⊢; omega

/-! ### the leading-comment loop -/

def commentLoopC : List Tok → CL × Nat
  | [] => (⟨[], [], [], false⟩, 0)
  | [t] => if t.1 = .COMMENT then (⟨[tk t], [], [], true⟩, 1) else (⟨[], [], [t], false⟩, 0)
  | t :: n :: ts =>
    if t.1 = .COMMENT then
      (⟨tk t :: (nlNodes n ++ (commentLoopC ts).1.nodes), nlErrs n ++ (commentLoopC ts).1.errs,
        (commentLoopC ts).1.rest, (commentLoopC ts).1.early⟩, (commentLoopC ts).2 + 1)
    else (⟨[], [], t :: n :: ts, false⟩, 0)

theorem commentLoopC_fst : ∀ ts, (commentLoopC ts).1 = commentLoop ts
  | [] => rfl
  | [t] => by simp only [commentLoopC, commentLoop]; split <;> rfl
  | t :: n :: ts => by
    simp only [commentLoopC, commentLoop]; split
    · simp [commentLoopC_fst ts]
    · rfl

/-- a round of the comment loop bumps two tokens, or one when the input ends after the COMMENT
    (`None => return`, `early`) -/
theorem commentLoopC_cost : ∀ ts,
    2 * (commentLoopC ts).2 + (commentLoop ts).rest.length
      = ts.length + (if (commentLoop ts).early then 1 else 0)
  | [] => rfl
  | [t] => by simp only [commentLoopC, commentLoop]; split <;> simp
  | t :: n :: ts => by
    simp only [commentLoopC, commentLoop]; split
    · have := commentLoopC_cost ts; simp only [List.length_cons]; omega
    · simp

theorem commentLoopC_id (t : Tok) (ts) (hc : t.1 ≠ .COMMENT) : (commentLoopC (t :: ts)).2 = 0 := by
  cases ts with
  | nil => simp only [commentLoopC, if_neg hc]
  | cons n ts => simp only [commentLoopC, if_neg hc]

theorem commentLoop_early_rest : ∀ ts, (commentLoop ts).early = true → (commentLoop ts).rest = []
  | [] => by simp [commentLoop]
  | [t] => by simp only [commentLoop]; split <;> simp
  | t :: n :: ts => by
    simp only [commentLoop]; split
    · exact commentLoop_early_rest ts
    · simp

/-! ### key, colon, entry -/

def keyPartC : List Tok → PR × Nat
  | [] => (⟨[Node.node .ERROR []], ["expected key"], []⟩, 0)
  | t :: ts =>
    if t.1 = .KEY then (⟨tk t :: (skipWsC ts).1.1, [], (skipWsC ts).1.2⟩, (skipWsC ts).2)
    else (⟨[Node.node .ERROR [tk t]], ["expected key"], ts⟩, 0)

theorem keyPartC_fst (ts) : (keyPartC ts).1 = keyPart ts := by
  cases ts with
  | nil => rfl
  | cons t ts => simp only [keyPartC, keyPart]; split <;> simp [skipWsC_fst]

/-- on a non-empty list the key (or the token wrapped in ERROR) is bumped outside any loop -/
theorem keyPartC_cost (t : Tok) (ts) :
    (keyPartC (t :: ts)).2 + (keyPart (t :: ts)).rest.length + 1 = (t :: ts).length := by
  simp only [keyPartC, keyPart]; split
  · have := skipWsC_cost ts; simp; omega
  · simp

def colonPartC : List Tok → PR × Nat
  | [] => (⟨[Node.node .ERROR []], ["expected ':', got None"], []⟩, 0)
  | t :: ts =>
    if t.1 = .COLON then (⟨tk t :: (skipWsC ts).1.1, [], (skipWsC ts).1.2⟩, (skipWsC ts).2)
    else (⟨[Node.node .ERROR [tk t]], [s!"expected ':', got {currentName ts}"], ts⟩, 0)

theorem colonPartC_fst (ts) : (colonPartC ts).1 = colonPart ts := by
  cases ts with
  | nil => rfl
  | cons t ts => simp only [colonPartC, colonPart]; split <;> simp [skipWsC_fst]

theorem colonPartC_cost (ts) :
    (colonPartC ts).2 + (colonPart ts).rest.length + 1 = ts.length + atEnd ts := by
  cases ts with
  | nil => rfl
  | cons t ts =>
    simp only [colonPartC, colonPart]; split
    · have := skipWsC_cost ts; simp; omega
    · simp

def entryBodyC (ts : List Tok) : PR × Nat :=
  (⟨[Node.node .ENTRY ((keyPartC ts).1.nodes ++ (colonPartC (keyPartC ts).1.rest).1.nodes
      ++ (entryLinesC (colonPartC (keyPartC ts).1.rest).1.rest).1.nodes)],
    (keyPartC ts).1.errs ++ (colonPartC (keyPartC ts).1.rest).1.errs
      ++ (entryLinesC (colonPartC (keyPartC ts).1.rest).1.rest).1.errs,
    (entryLinesC (colonPartC (keyPartC ts).1.rest).1.rest).1.rest⟩,
   (keyPartC ts).2 + (colonPartC (keyPartC ts).1.rest).2
      + (entryLinesC (colonPartC (keyPartC ts).1.rest).1.rest).2)

theorem entryBodyC_fst (ts) : (entryBodyC ts).1 = entryBody ts := by
  simp only [entryBodyC, entryBody, keyPartC_fst, colonPartC_fst, entryLinesC_fst]

theorem atEnd_of_len {a b : List Tok} (h : a.length ≤ b.length) : atEnd b ≤ atEnd a := by
  cases b with
  | nil => cases a with
    | nil => simp
    | cons x xs => simp at h
  | cons y ys => simp

/-- one ENTRY on a non-empty token list: rounds + tokens left + 2 ≤ tokens + 2·(nothing left):
    the key and the colon are bumped outside any loop -/
theorem entryBodyC_cost (t : Tok) (ts) :
    (entryBodyC (t :: ts)).2 + (entryBody (t :: ts)).rest.length + 2
      ≤ (t :: ts).length + 2 * atEnd (entryBody (t :: ts)).rest := by
  have h1 := keyPartC_cost t ts
  have h2 := colonPartC_cost (keyPart (t :: ts)).rest
  have h3 := entryLinesC_cost (colonPart (keyPart (t :: ts)).rest).rest
  have h4 := len_of_leaves (entryLines_leaves (colonPart (keyPart (t :: ts)).rest).rest)
  have h5 := len_of_leaves (colonPart_leaves (keyPart (t :: ts)).rest)
  have h6 := atEnd_of_len (Nat.le_trans h4 h5)
  simp only [entryBodyC, entryBody, keyPartC_fst, colonPartC_fst] at *
  omega

/-! ### `parse_entry` -/

def parseEntryC (ts : List Tok) : PR × Nat :=
  if (commentLoopC ts).1.early || endsParagraph (commentLoopC ts).1.rest then
    (⟨(commentLoopC ts).1.nodes, (commentLoopC ts).1.errs, (commentLoopC ts).1.rest⟩,
      (commentLoopC ts).2)
  else
    (⟨(commentLoopC ts).1.nodes ++ (entryBodyC (commentLoopC ts).1.rest).1.nodes,
      (commentLoopC ts).1.errs ++ (entryBodyC (commentLoopC ts).1.rest).1.errs,
      (entryBodyC (commentLoopC ts).1.rest).1.rest⟩,
     (commentLoopC ts).2 + (entryBodyC (commentLoopC ts).1.rest).2)

theorem parseEntryC_fst (ts) : (parseEntryC ts).1 = parseEntry ts := by
  simp only [parseEntryC, parseEntry, commentLoopC_fst, entryBodyC_fst]
  split <;> rfl

/-- `parse_entry` called as `parse_paragraph` calls it (first token not NEWLINE): rounds of all its
    loops + tokens left + 1 ≤ tokens + (nothing left) -/
theorem parseEntryC_cost (t : Tok) (ts) (hn : t.1 ≠ .NEWLINE) :
    (parseEntryC (t :: ts)).2 + (parseEntry (t :: ts)).rest.length + 1
      ≤ (t :: ts).length + atEnd (parseEntry (t :: ts)).rest := by
  by_cases hc : t.1 = .COMMENT
  · have h1 := commentLoopC_cost (t :: ts)
    have h0 := commentLoop_progress t ts hc
    have he := commentLoop_early_rest (t :: ts)
    simp only [parseEntryC, parseEntry, commentLoopC_fst, entryBodyC_fst]
    split
    · simp only []
      cases hr : (commentLoop (t :: ts)).rest with
      | nil => rw [hr] at h1 h0; split at h1 <;> simp at h1 h0 ⊢ <;> omega
      | cons a b =>
        have : (commentLoop (t :: ts)).early = false := by
          cases hq : (commentLoop (t :: ts)).early with
          | false => rfl
          | true => rw [he hq] at hr; cases hr
        rw [hr, this] at h1; rw [hr] at h0
        simp at h1 h0 ⊢; omega
    · rename_i hx
      simp only [Bool.or_eq_true, not_or, Bool.not_eq_true] at hx
      simp only []
      cases hr : (commentLoop (t :: ts)).rest with
      | nil => rw [hr] at hx; simp [endsParagraph] at hx
      | cons a b =>
        have h2 := entryBodyC_cost a b
        have h3 := atEnd_spec (entryBody (a :: b)).rest
        rw [hx.1, hr] at h1
        simp at h1 h2 ⊢; omega
  · have he : endsParagraph (t :: ts) = false := by simp [endsParagraph, hn]
    have h2 := entryBodyC_cost t ts
    have h3 := atEnd_spec (entryBody (t :: ts)).rest
    simp only [parseEntryC, parseEntry, commentLoopC_fst, entryBodyC_fst, commentLoop_id t ts hc, he,
      commentLoopC_id t ts hc]
    simp at h2 ⊢; omega

/-- … and when the first token is neither NEWLINE nor COMMENT (the first entry of a paragraph): two
    tokens — key and colon — are bumped outside any loop -/
theorem parseEntryC_cost_first (t : Tok) (ts) (hn : t.1 ≠ .NEWLINE) (hc : t.1 ≠ .COMMENT) :
    (parseEntryC (t :: ts)).2 + (parseEntry (t :: ts)).rest.length + 2
      ≤ (t :: ts).length + 2 * atEnd (parseEntry (t :: ts)).rest := by
  have he : endsParagraph (t :: ts) = false := by simp [endsParagraph, hn]
  have h2 := entryBodyC_cost t ts
  simp only [parseEntryC, parseEntry, commentLoopC_fst, entryBodyC_fst, commentLoop_id t ts hc, he,
    commentLoopC_id t ts hc]
  simp at h2 ⊢; omega

/-! ### `parse_paragraph` -/

def paraLoopC (ts : List Tok) : PR × Nat :=
  match ts with
  | [] => (⟨[], [], []⟩, 0)
  | t :: ts' =>
    if h : t.1 = .NEWLINE then (⟨[], [], t :: ts'⟩, 0)
    else
      (⟨(parseEntryC (t :: ts')).1.nodes ++ (paraLoopC (parseEntryC (t :: ts')).1.rest).1.nodes,
        (parseEntryC (t :: ts')).1.errs ++ (paraLoopC (parseEntryC (t :: ts')).1.rest).1.errs,
        (paraLoopC (parseEntryC (t :: ts')).1.rest).1.rest⟩,
       1 + (parseEntryC (t :: ts')).2 + (paraLoopC (parseEntryC (t :: ts')).1.rest).2)
termination_by ts.length
decreasing_by all_goals (rw [parseEntryC_fst]; exact parseEntry_progress t ts' h)

theorem paraLoopC_fst (ts) : (paraLoopC ts).1 = paraLoop ts := by
  fun_induction paraLoopC ts
  case case1 => simp [paraLoop]
  case case2 t ts' h => rw [paraLoop]; simp [h]
  case case3 t ts' h ih =>
    rw [parseEntryC_fst] at ih ⊢
    rw [paraLoop]; simp only [h, ↓reduceDIte, ih]

theorem paraLoopC_nil : paraLoopC [] = (⟨[], [], []⟩, 0) := by rw [paraLoopC]

/-- rounds of the paragraph loop and of everything inside + tokens left ≤ tokens + (nothing left) -/
theorem paraLoopC_cost (ts) :
    (paraLoopC ts).2 + (paraLoop ts).rest.length ≤ ts.length + atEnd (paraLoop ts).rest := by
  rw [← paraLoopC_fst]
  fun_induction paraLoopC ts
  case case1 => simp
  case case2 t ts' h => simp
  case case3 t ts' h ih =>
    have h1 := parseEntryC_cost t ts' h
    rw [parseEntryC_fst] at ih ⊢
    simp only []
    cases hr : (parseEntry (t :: ts')).rest with
    | nil =>
      rw [hr] at h1
      rw [paraLoopC_nil]
      simp at h1 ⊢; omega
    | cons a b =>
      rw [hr] at h1 ih
      simp at h1 ih ⊢; omega

/-- a paragraph that starts where `skip_ws_and_newlines` stopped: one more token to spare -/
theorem paraLoopC_cost_first (t : Tok) (ts) (hn : t.1 ≠ .NEWLINE) (hc : t.1 ≠ .COMMENT) :
    (paraLoopC (t :: ts)).2 + (paraLoop (t :: ts)).rest.length + 1
      ≤ (t :: ts).length + 2 * atEnd (paraLoop (t :: ts)).rest := by
  have h1 := parseEntryC_cost_first t ts hn hc
  have h2 := paraLoopC_cost (parseEntry (t :: ts)).rest
  rw [← paraLoopC_fst] at h2 ⊢
  rw [paraLoopC]
  simp only [hn, ↓reduceDIte, parseEntryC_fst] at h2 ⊢
  cases hr : (parseEntry (t :: ts)).rest with
  | nil =>
    rw [hr] at h1
    rw [paraLoopC_nil]
    simp at h1 ⊢; omega
  | cons a b =>
    rw [hr] at h1 h2
    simp at h1 h2 ⊢; omega

/-! ### `skip_ws_and_newlines` -/

def untilNlC : List Tok → (List DNode × List Tok) × Nat
  | [] => (([], []), 0)
  | t :: ts =>
    if t.1 = .NEWLINE then (([tk t], ts), 0)
    else ((tk t :: (untilNlC ts).1.1, (untilNlC ts).1.2), (untilNlC ts).2 + 1)

theorem untilNlC_fst (ts) : (untilNlC ts).1 = untilNl ts := by
  induction ts with
  | nil => rfl
  | cons t ts ih => simp only [untilNlC, untilNl]; split <;> simp [ih]

/-- the inner loop bumps one token per round; the NEWLINE after it is bumped outside the inner loop,
    so one EMPTY_LINE takes inner rounds + 1 tokens unless the input ends first -/
theorem untilNlC_cost (ts) :
    (untilNlC ts).2 + (untilNl ts).2.length + 1 ≤ ts.length + atEnd (untilNl ts).2 := by
  induction ts with
  | nil => simp [untilNlC, untilNl]
  | cons t ts ih =>
    simp only [untilNlC, untilNl]; split
    · simp
    · simp only [List.length_cons]; omega

def skipWsNlC (ts : List Tok) : (List DNode × List Tok) × Nat :=
  match ts with
  | [] => (([], []), 0)
  | t :: ts' =>
    if isBlankStart t.1 then
      ((Node.node .EMPTY_LINE (untilNlC (t :: ts')).1.1 :: (skipWsNlC (untilNlC (t :: ts')).1.2).1.1,
        (skipWsNlC (untilNlC (t :: ts')).1.2).1.2),
       1 + (untilNlC (t :: ts')).2 + (skipWsNlC (untilNlC (t :: ts')).1.2).2)
    else (([], t :: ts'), 0)
termination_by ts.length
decreasing_by
  all_goals
    rw [untilNlC_fst]
    have := untilNl_progress t ts'
    simp; omega

theorem skipWsNlC_fst (ts) : (skipWsNlC ts).1 = skipWsNl ts := by
  fun_induction skipWsNlC ts
  case case1 => simp [skipWsNl]
  case case2 t ts' hb ih =>
    rw [untilNlC_fst] at ih ⊢
    rw [skipWsNl]; simp only [hb, if_true, ih]
  case case3 t ts' hb => rw [skipWsNl]; simp [hb]

theorem skipWsNlC_nil : skipWsNlC [] = (([], []), 0) := by rw [skipWsNlC]

/-- outer + inner rounds + tokens left ≤ tokens + (nothing left) -/
theorem skipWsNlC_cost (ts) :
    (skipWsNlC ts).2 + (skipWsNl ts).2.length ≤ ts.length + atEnd (skipWsNl ts).2 := by
  rw [← skipWsNlC_fst]
  fun_induction skipWsNlC ts
  case case1 => simp
  case case2 t ts' hb ih =>
    have h1 := untilNlC_cost (t :: ts')
    rw [untilNlC_fst] at ih ⊢
    simp only []
    cases hr : (untilNl (t :: ts')).2 with
    | nil =>
      rw [hr] at h1
      rw [skipWsNlC_nil]
      simp at h1 ⊢; omega
    | cons a b =>
      rw [hr] at h1 ih
      simp at h1 ih ⊢; omega
  case case3 t ts' hb => simp

/-! ### the root loop -/

def rootLoopC (ts : List Tok) : PR × Nat :=
  match ts with
  | [] => (⟨[], [], []⟩, 0)
  | t0 :: ts0 =>
    match h : (skipWsNlC (t0 :: ts0)).1.2 with
    | [] => (⟨(skipWsNlC (t0 :: ts0)).1.1, [], []⟩, 1 + (skipWsNlC (t0 :: ts0)).2)
    | t :: r =>
      (⟨(skipWsNlC (t0 :: ts0)).1.1 ++ [Node.node .PARAGRAPH (paraLoopC (t :: r)).1.nodes]
          ++ (rootLoopC (paraLoopC (t :: r)).1.rest).1.nodes,
        (paraLoopC (t :: r)).1.errs ++ (rootLoopC (paraLoopC (t :: r)).1.rest).1.errs,
        (rootLoopC (paraLoopC (t :: r)).1.rest).1.rest⟩,
       1 + (skipWsNlC (t0 :: ts0)).2 + (paraLoopC (t :: r)).2
        + (rootLoopC (paraLoopC (t :: r)).1.rest).2)
termination_by ts.length
decreasing_by
  all_goals
    rw [skipWsNlC_fst] at h
    rw [paraLoopC_fst]
    have hb := skipWsNl_head (t0 :: ts0) t r h
    have hn : t.1 ≠ .NEWLINE := by
      intro e; rw [e] at hb; simp [isBlankStart] at hb
    have h1 := paraLoop_progress t r hn
    have h2 := congrArg List.length (skipWsNl_leaves (t0 :: ts0))
    rw [h] at h2
    simp only [List.length_append, List.length_cons] at h2 h1 ⊢
    omega

theorem rootLoopC_fst (ts) : (rootLoopC ts).1 = rootLoop ts := by
  fun_induction rootLoopC ts
  case case1 => simp [rootLoop]
  case case2 t0 ts0 h =>
    rw [skipWsNlC_fst] at h ⊢
    rw [rootLoop]; simp only []; split
    · rfl
    · rename_i h2; rw [h] at h2; cases h2
  case case3 t0 ts0 t r h ih =>
    rw [skipWsNlC_fst] at h ⊢
    rw [paraLoopC_fst] at ih ⊢
    rw [rootLoop]; simp only []; split
    · rename_i h2; rw [h] at h2; cases h2
    · rename_i h2; rw [h] at h2; cases h2
      simp only [ih]

theorem rootLoopC_nil : rootLoopC [] = (⟨[], [], []⟩, 0) := by rw [rootLoopC]

/-- all rounds of all loops of the lossless parser ≤ tokens + 2 -/
theorem rootLoopC_cost (ts) : (rootLoopC ts).2 ≤ ts.length + 2 := by
  fun_induction rootLoopC ts
  case case1 => simp
  case case2 t0 ts0 h =>
    have h1 := skipWsNlC_cost (t0 :: ts0)
    rw [skipWsNlC_fst] at h; rw [h] at h1
    simp at h1 ⊢; omega
  case case3 t0 ts0 t r h ih =>
    have h1 := skipWsNlC_cost (t0 :: ts0)
    rw [skipWsNlC_fst] at h; rw [h] at h1
    have hb := skipWsNl_head (t0 :: ts0) t r h
    have hn : t.1 ≠ .NEWLINE := by
      intro e; rw [e] at hb; simp [isBlankStart] at hb
    have hc : t.1 ≠ .COMMENT := by
      intro e; rw [e] at hb; simp [isBlankStart] at hb
    have h2 := paraLoopC_cost_first t r hn hc
    rw [paraLoopC_fst] at ih ⊢
    simp only []
    cases hr : (paraLoop (t :: r)).rest with
    | nil =>
      rw [hr] at h2
      rw [rootLoopC_nil]
      simp at h1 h2 ⊢; omega
    | cons a b =>
      rw [hr] at h2 ih
      simp at h1 h2 ih ⊢; omega

/-! ### entry points -/

/-- `Parser::parse` on a token list, with the rounds of all its loops -/
def parseTokensC (ts : List Tok) : Parsed × Nat :=
  (⟨Node.node .ROOT (rootLoopC ts).1.nodes, (rootLoopC ts).1.errs⟩, (rootLoopC ts).2)

theorem parseTokensC_fst (ts) : (parseTokensC ts).1 = parseTokens ts := by
  simp only [parseTokensC, parseTokens, rootLoopC_fst]

/-- `parse(text)` -/
def parseC (s : Str) : Parsed × Nat := parseTokensC (lex s)

theorem parseC_fst (s) : (parseC s).1 = parse s := parseTokensC_fst _

/-! ## the lexer (`src/lex.rs:31-96`)

`lexAuxC` counts the calls of the `from_fn` closure that return a token (`rounds`: one per token;
the last call, on the empty input, returns `None` and is not counted) and the character visits of
the closure (`visits`): the first character `c`, the characters the inner scan
(`find(|c| !pred(c))`, modelled by `takeWhile`) accepts — together exactly the characters of the
token — and one look-ahead character, the one on which the scan stops (counted also when the scan
stops at the end of the input or when the arm does not scan). -/

structure LexCount where
  rounds : Nat
  visits : Nat

def lexAuxC (st : LexState) (input : Str) : List Tok × LexCount :=
  match input with
  | [] => ([], ⟨0, 0⟩)
  | c :: rest =>
    ((lexStep st c rest).1 :: (lexAuxC (lexStep st c rest).2.1 (lexStep st c rest).2.2).1,
     ⟨(lexAuxC (lexStep st c rest).2.1 (lexStep st c rest).2.2).2.rounds + 1,
      (lexAuxC (lexStep st c rest).2.1 (lexStep st c rest).2.2).2.visits
        + (lexStep st c rest).1.2.length + 1⟩)
termination_by input.length
decreasing_by
  all_goals
    have := lexStep_len st c rest
    simp; omega

theorem lexAuxC_fst (st input) : (lexAuxC st input).1 = lexAux st input := by
  fun_induction lexAuxC st input
  case case1 => simp [lexAux]
  case case2 st c rest ih => rw [lexAux]; simp only [ih]

/-- one round per token -/
theorem lexAuxC_rounds (st input) : (lexAuxC st input).2.rounds = (lexAux st input).length := by
  fun_induction lexAuxC st input
  case case1 => simp [lexAux]
  case case2 st c rest ih => rw [lexAux]; simp only [ih, List.length_cons]

/-- character visits = characters of all tokens + one look-ahead per token -/
theorem lexAuxC_visits (st input) :
    (lexAuxC st input).2.visits = (tokText (lexAux st input)).length + (lexAux st input).length := by
  fun_induction lexAuxC st input
  case case1 => simp [lexAux]
  case case2 st c rest ih =>
    rw [lexAux]; simp only [ih, tokText_cons, List.length_cons, List.length_append]; omega

def lexC (s : Str) : List Tok × LexCount := lexAuxC initState s

theorem lexC_fst (s) : (lexC s).1 = lex s := lexAuxC_fst _ _

end Deb822Verif.Deb.Work
