import Deb822Verif.Props.C09Frame
import Deb822Verif.Lemmas.RelAccessField
import Deb822Verif.Spec.RelStrictBad
/-!
# Shape of the RELATION nodes of an error-free relation parse tree (C12, strict-accepted text)

`Lemmas/RelParseFrameTree.lean` describes the ROOT and ENTRY level of a tree `parse(s, false)` built without
errors. This file goes one level down:

* lexer: the text of an IDENT token of `lex s` is a non-empty run of identifier characters, the text of a
  COLON / L_ANGLE / R_ANGLE / EQUAL token is that one character (`TokStrong`, `lex_strong`);
* `parse_relation` without error: the RELATION node starts with an IDENT token and has at most one VERSION
  child, whose children are exactly `(` ws* CONSTRAINT[`<`/`>`/`=` tokens, any number] ws* IDENT (COLON IDENT)*
  ws* `)` (`VerShape`, `RelShape`, `parseRelation_shape`);
* every RELATION child of every ENTRY child of an error-free root has that shape and strong tokens
  (`strict_rel_shape`);
* what the accessors return on such a node (`RelShape.name_some`, `VerShape.access`, `RelShape.version_error_iff`).
-/
set_option linter.unusedVariables false
set_option linter.unusedSimpArgs false
namespace Deb822Verif.Rel
open Deb822Verif Node PR RelSpec

/-! ### lexer: texts of IDENT, COLON and operator tokens -/

/-- what `lex` guarantees about the text of the token kinds a VERSION node is made of -/
structure TokStrong (t : Tok) : Prop where
  ident : t.1 = .IDENT → isIdent t.2 = true
  colon : t.1 = .COLON → t.2 = [':']
  langle : t.1 = .L_ANGLE → t.2 = ['<']
  rangle : t.1 = .R_ANGLE → t.2 = ['>']
  equal : t.1 = .EQUAL → t.2 = ['=']

theorem punct_colon {c : Char} (h : punct c = some .COLON) : c = ':' := by
  unfold punct at h
  by_cases hd : (c == ':') = true
  · simpa using hd
  · rw [if_neg hd] at h
    iterate 14 replace h := Props.C09.ite_some_ne (by decide) h
    simp at h

theorem punct_langle {c : Char} (h : punct c = some .L_ANGLE) : c = '<' := by
  unfold punct at h
  iterate 11 replace h := Props.C09.ite_some_ne (by decide) h
  by_cases hd : (c == '<') = true
  · simpa using hd
  · rw [if_neg hd] at h
    iterate 3 replace h := Props.C09.ite_some_ne (by decide) h
    simp at h

theorem punct_rangle {c : Char} (h : punct c = some .R_ANGLE) : c = '>' := by
  unfold punct at h
  iterate 12 replace h := Props.C09.ite_some_ne (by decide) h
  by_cases hd : (c == '>') = true
  · simpa using hd
  · rw [if_neg hd] at h
    iterate 2 replace h := Props.C09.ite_some_ne (by decide) h
    simp at h

theorem punct_equal {c : Char} (h : punct c = some .EQUAL) : c = '=' := by
  unfold punct at h
  iterate 13 replace h := Props.C09.ite_some_ne (by decide) h
  by_cases hd : (c == '=') = true
  · simpa using hd
  · rw [if_neg hd] at h
    iterate 1 replace h := Props.C09.ite_some_ne (by decide) h
    simp at h

theorem punct_inv {c : Char} {k : Kind} (h : punct c = some k) :
    k ≠ .IDENT ∧ (k = .COLON → c = ':') ∧ (k = .L_ANGLE → c = '<') ∧ (k = .R_ANGLE → c = '>') ∧
      (k = .EQUAL → c = '=') :=
  ⟨fun e => punct_ne_ident c (e ▸ h), fun e => punct_colon (e ▸ h), fun e => punct_langle (e ▸ h),
    fun e => punct_rangle (e ▸ h), fun e => punct_equal (e ▸ h)⟩

theorem all_takeWhile {α} (p : α → Bool) (l : List α) : ∀ x ∈ l.takeWhile p, p x = true :=
  fun x hx => mem_takeWhile_imp hx

theorem lexStep_strong (c rest) : TokStrong (lexStep c rest).1 := by
  unfold lexStep
  split
  · rename_i k hk
    obtain ⟨h0, h1, h2, h3, h4⟩ := punct_inv hk
    refine ⟨fun h => absurd h h0, ?_, ?_, ?_, ?_⟩ <;> intro h <;> simp only at h ⊢
    · rw [h1 h]
    · rw [h2 h]
    · rw [h3 h]
    · rw [h4 h]
  · split
    · exact ⟨by simp, by simp, by simp, by simp, by simp⟩
    · split
      · rename_i hi
        refine ⟨fun _ => ?_, by simp, by simp, by simp, by simp⟩
        rw [isIdent_iff]
        refine ⟨by simp, ?_⟩
        intro x hx
        simp only [List.mem_cons] at hx
        rcases hx with rfl | hx
        · exact hi
        · exact mem_takeWhile_imp hx
      · exact ⟨by simp, by simp, by simp, by simp, by simp⟩

theorem lex_strong (s : Str) : ∀ t ∈ lex s, TokStrong t := by
  fun_induction lex s with
  | case1 => simp
  | case2 c rest ih =>
    intro t ht
    simp only [List.mem_cons] at ht
    rcases ht with rfl | ht
    · exact lexStep_strong c rest
    · exact ih t ht

/-! ### fragments of `parse_relation`: nodes and errors -/

theorem andThen_nodes (a : PR) (f : List Tok → PR) : (a.andThen f).nodes = a.nodes ++ (f a.rest).nodes := rfl
theorem andThen_errs (a : PR) (f : List Tok → PR) : (a.andThen f).errs = a.errs ++ (f a.rest).errs := rfl
theorem andThen_rest (a : PR) (f : List Tok → PR) : (a.andThen f).rest = (f a.rest).rest := rfl
theorem wrap_nodes (k : Kind) (a : PR) : (a.wrap k).nodes = [Node.node k a.nodes] := rfl
theorem wrap_errs (k : Kind) (a : PR) : (a.wrap k).errs = a.errs := rfl

theorem cn_ws {k : Kind} {ns : List RNode} (h : ∀ n ∈ ns, isWsTok n = true) : cn k ns = [] :=
  filter_nodes_of_ws h

theorem cn_skipWs (k : Kind) (ts : List Tok) : cn k (skipWs ts).nodes = [] := cn_ws (skipWs_nodes_ws ts)

theorem cn_bump1 (k : Kind) (ts : List Tok) : cn k (bump1 ts).nodes = [] := by
  cases ts <;> simp [bump1]

theorem skipWs_errs (ts : List Tok) : (skipWs ts).errs = [] := by
  cases ts with
  | nil => rfl
  | cons t r => unfold skipWs; split <;> rfl

theorem bump1_errs (ts : List Tok) : (bump1 ts).errs = [] := by cases ts <;> rfl

/-- an `expect` that pushes no error found its token -/
theorem expect_shape {k : Kind} {msg : String} {ts : List Tok} (he : (expect k msg ts).errs = []) :
    ∃ t r, ts = t :: r ∧ t.1 = k ∧ (expect k msg ts).nodes = [tk t] ∧ (expect k msg ts).rest = r := by
  unfold expect at he ⊢
  split
  · rename_i h
    cases ts with
    | nil => simp [cur] at h
    | cons t r => simp only [cur, Option.some.injEq] at h; exact ⟨t, r, rfl, h, rfl, rfl⟩
  · rename_i h
    rw [if_neg h] at he
    exact absurd he (errorTok_errs_ne _ _)

/-- the constraint loop never fails: it wraps whatever run of `<`, `>`, `=` tokens comes next — the empty
    run included — into the CONSTRAINT node -/
theorem constraintLoop_shape (ts : List Tok) :
    ∃ ops, (constraintLoop ts).nodes = tks ops ∧ (constraintLoop ts).errs = [] ∧
      ∀ o ∈ ops, o.1 = .L_ANGLE ∨ o.1 = .R_ANGLE ∨ o.1 = .EQUAL := by
  induction ts with
  | nil => exact ⟨[], rfl, rfl, by simp⟩
  | cons t r ih =>
    obtain ⟨ops, h1, h2, h3⟩ := ih
    unfold constraintLoop
    split
    · rename_i hk
      refine ⟨t :: ops, by simp [tks, h1], rfl, ?_⟩
      intro o ho
      simp only [List.mem_cons] at ho
      rcases ho with rfl | ho
      · exact hk
      · exact h3 o ho
    · exact ⟨[], rfl, rfl, by simp⟩

/-- `(COLON IDENT)*` as child tokens -/
def colonIdents (ps : List (Tok × Tok)) : List RNode := (ps.map fun p => [tk p.1, tk p.2]).flatten

@[simp] theorem colonIdents_nil : colonIdents [] = [] := rfl
@[simp] theorem colonIdents_cons (p : Tok × Tok) (ps) : colonIdents (p :: ps) = tk p.1 :: tk p.2 :: colonIdents ps := by
  simp [colonIdents]

theorem versionLoop_shape (ts : List Tok) (he : (versionLoop ts).errs = []) :
    ∃ ps, (versionLoop ts).nodes = colonIdents ps ∧ ∀ p ∈ ps, p.1.1 = .COLON ∧ p.2.1 = .IDENT := by
  fun_induction versionLoop ts with
  | case1 => exact ⟨[], rfl, by simp⟩
  | case2 c hc => simp at he
  | case3 c hc => exact ⟨[], rfl, by simp⟩
  | case4 c t ts hc ht ih =>
    obtain ⟨ps, h1, h2⟩ := ih he
    refine ⟨(c, t) :: ps, by simp [h1], ?_⟩
    intro p hp
    simp only [List.mem_cons] at hp
    rcases hp with rfl | hp
    · exact ⟨hc, ht⟩
    · exact h2 p hp
  | case5 c t ts hc ht ih => simp at he
  | case6 c t ts hc => exact ⟨[], rfl, by simp⟩

/-- `IDENT (COLON IDENT)*` -/
theorem versionTok_shape (ts : List Tok) (he : (versionTok ts).errs = []) :
    ∃ id ps, (versionTok ts).nodes = tk id :: colonIdents ps ∧ id.1 = .IDENT ∧
      ∀ p ∈ ps, p.1.1 = .COLON ∧ p.2.1 = .IDENT := by
  unfold versionTok at he ⊢
  split
  · rename_i h
    rw [if_pos h] at he
    cases ts with
    | nil => simp [cur] at h
    | cons t r =>
      simp only [cur, Option.some.injEq] at h
      simp only [andThen_errs, bump1, List.nil_append] at he
      obtain ⟨ps, h1, h2⟩ := versionLoop_shape r he
      exact ⟨t, ps, by simp [andThen_nodes, bump1, h1], h, h2⟩
  · rename_i h
    rw [if_neg h] at he
    exact absurd he (errorTok_errs_ne _ _)

/-- the children of a VERSION node built without error:
    `(` ws* CONSTRAINT[ops] ws* IDENT (COLON IDENT)* ws* `)` -/
def VerShape (vc : RNode) : Prop :=
  ∃ (lp : Tok) (w1 : List RNode) (ops : List Tok) (w2 : List RNode) (id : Tok) (ps : List (Tok × Tok))
    (w3 : List RNode) (rp : Tok),
    vc = Node.node .VERSION (tk lp :: (w1 ++ Node.node .CONSTRAINT (tks ops) ::
      (w2 ++ tk id :: (colonIdents ps ++ (w3 ++ [tk rp]))))) ∧
    lp.1 = .L_PARENS ∧ (∀ n ∈ w1, isWsTok n = true) ∧
    (∀ o ∈ ops, o.1 = .L_ANGLE ∨ o.1 = .R_ANGLE ∨ o.1 = .EQUAL) ∧
    (∀ n ∈ w2, isWsTok n = true) ∧ id.1 = .IDENT ∧ (∀ p ∈ ps, p.1.1 = .COLON ∧ p.2.1 = .IDENT) ∧
    (∀ n ∈ w3, isWsTok n = true) ∧ rp.1 = .R_PARENS

/-- `versionPart` without error: nothing, or WHITESPACE / NEWLINE tokens and one VERSION node of the shape -/
theorem versionPart_shape (ts : List Tok) (he : (versionPart ts).errs = []) :
    (versionPart ts).nodes = [] ∨
    ∃ w0 vc, (versionPart ts).nodes = w0 ++ [vc] ∧ (∀ n ∈ w0, isWsTok n = true) ∧ VerShape vc := by
  unfold versionPart at he ⊢
  split
  · rename_i hp
    rw [if_pos hp] at he
    right
    obtain ⟨lp, r, hr, hlp⟩ := peek_some hp
    simp only [andThen_errs, andThen_nodes, andThen_rest, wrap_errs, wrap_nodes, hr, bump1, skipWs_errs,
      List.nil_append, List.append_eq_nil_iff] at he ⊢
    obtain ⟨hc, hv, hx⟩ := he
    obtain ⟨ops, ho1, _, ho3⟩ := constraintLoop_shape (skipWs r).rest
    obtain ⟨id, ps, hv1, hv2, hv3⟩ := versionTok_shape _ hv
    obtain ⟨rp, r', _, hrp, hx1, _⟩ := expect_shape hx
    rw [ho1, hv1, hx1]
    exact ⟨_, _, rfl, skipWs_nodes_ws ts, lp, _, ops, _, id, ps, _, rp, rfl, hlp,
      skipWs_nodes_ws _, ho3, skipWs_nodes_ws _, hv2, hv3, skipWs_nodes_ws _, hrp⟩
  · left; rfl

/-! ### no other fragment of `parse_relation` appends a VERSION node -/

theorem cn_errorTok_version (msg : String) (ts : List Tok) : cn .VERSION (errorTok msg ts).nodes = [] := by
  cases ts <;> simp [errorTok, cn_cons_node]

theorem cn_expect_version (k : Kind) (msg : String) (ts : List Tok) : cn .VERSION (expect k msg ts).nodes = [] := by
  unfold expect; split
  · exact cn_bump1 _ _
  · exact cn_errorTok_version _ _

theorem cn_archqualPart_version (ts : List Tok) : cn .VERSION (archqualPart ts).nodes = [] := by
  unfold archqualPart
  (repeat' split) <;>
    simp [andThen_nodes, wrap_nodes, cn_skipWs, cn_cons_node, cn_errorTok_version, PR.nil]

theorem cn_archPart_version (ts : List Tok) : cn .VERSION (archPart ts).nodes = [] := by
  unfold archPart
  split <;> simp [andThen_nodes, wrap_nodes, cn_skipWs, cn_cons_node, PR.nil]

theorem cn_profBlock_version (ts : List Tok) : cn .VERSION (profBlock ts).nodes = [] := by
  simp [profBlock, andThen_nodes, wrap_nodes, cn_skipWs, cn_cons_node]

theorem cn_profilesLoop_version (ts : List Tok) : cn .VERSION (profilesLoop ts).nodes = [] := by
  fun_induction profilesLoop ts with
  | case1 x h ih => simp [cn_profBlock_version, ih]
  | case2 x h => simp [PR.nil]

/-- a RELATION node built without error: an IDENT token first, and among the other children at most one
    VERSION node, of the shape `VerShape` -/
def RelShape (r : RNode) : Prop :=
  ∃ t X, r = Node.node .RELATION (tk t :: X) ∧ t.1 = .IDENT ∧
    (cn .VERSION X = [] ∨ ∃ vc, cn .VERSION X = [vc] ∧ VerShape vc)

theorem VerShape.isVersion {vc : RNode} (h : VerShape vc) : ∃ cs, vc = Node.node .VERSION cs := by
  obtain ⟨lp, w1, ops, w2, id, ps, w3, rp, rfl, _⟩ := h
  exact ⟨_, rfl⟩

theorem parseRelation_shape (ts : List Tok) (he : (parseRelation ts).errs = []) :
    ∃ r, (parseRelation ts).nodes = [r] ∧ RelShape r := by
  simp only [parseRelation, wrap_errs, wrap_nodes, andThen_errs, andThen_nodes, andThen_rest,
    List.append_eq_nil_iff] at he ⊢
  obtain ⟨h1, h2, h3, h4, h5⟩ := he
  obtain ⟨t, r, _, ht, hn, _⟩ := expect_shape h1
  rw [hn, List.singleton_append]
  refine ⟨_, rfl, t, _, rfl, ht, ?_⟩
  simp only [cn_append, cn_archqualPart_version, cn_archPart_version, cn_profilesLoop_version,
    List.nil_append, List.append_nil]
  rcases versionPart_shape _ h3 with hv | ⟨w0, vc, hv, hw, hs⟩
  · left; rw [hv]; rfl
  · right
    obtain ⟨cs, hcs⟩ := hs.isVersion
    refine ⟨vc, ?_, hs⟩
    rw [hv, cn_append, cn_ws hw, hcs]
    simp [cn_cons_node]

/-! ### entry and root level -/

theorem cn_pipeSep (k : Kind) (ts : List Tok) : cn k (pipeSep ts).nodes = [] := by
  simp [pipeSep, andThen_nodes, cn_skipWs, cn_bump1]

theorem RelShape.cn_self {r : RNode} (h : RelShape r) : cn .RELATION [r] = [r] := by
  obtain ⟨t, X, rfl, _⟩ := h
  simp [cn_cons_node]

/-- every RELATION child of an ENTRY built without error has the shape -/
theorem entryLoop_rels (ts : List Tok) (he : (entryLoop ts).errs = []) :
    ∀ r ∈ cn .RELATION (entryLoop ts).nodes, RelShape r := by
  fun_induction entryLoop ts
  next x hc =>
    obtain ⟨r, hr, hs⟩ := parseRelation_shape x he
    intro r' hr'
    rw [hr, hs.cn_self] at hr'
    simp only [List.mem_singleton] at hr'
    subst hr'; exact hs
  next x hc hp ih =>
    simp only [List.append_eq_nil_iff] at he
    obtain ⟨⟨he1, he2⟩, he3⟩ := he
    obtain ⟨r, hr, hs⟩ := parseRelation_shape x he1
    intro r' hr'
    simp only [cn_append, cn_pipeSep, List.append_nil, List.mem_append] at hr'
    rcases hr' with hr' | hr'
    · rw [hr, hs.cn_self] at hr'
      simp only [List.mem_singleton] at hr'
      subst hr'; exact hs
    · exact ih he3 r' hr'
  next x hc hp hn =>
    simp only [andThen_errs, andThen_nodes, List.append_eq_nil_iff] at he ⊢
    obtain ⟨r, hr, hs⟩ := parseRelation_shape x he.1
    intro r' hr'
    simp only [cn_append, cn_skipWs, List.append_nil] at hr'
    rw [hr, hs.cn_self] at hr'
    simp only [List.mem_singleton] at hr'
    subst hr'; exact hs
  next x hc hp hn ih =>
    exfalso
    simp only [List.append_eq_nil_iff, junkSep, andThen_errs] at he
    exact popErr_errs_ne _ he.1.2.2

/-- every child of an error-free ROOT is a separator token or an ENTRY built by `parse_entry` without error -/
theorem RootShape.mem {ns : List RNode} (h : RootShape ns) :
    ∀ x ∈ ns, isSepTok x = true ∨
      ∃ t r, t.1 = Kind.IDENT ∧ x = Node.node .ENTRY (entryLoop (t :: r)).nodes ∧ (entryLoop (t :: r)).errs = [] := by
  induction h with
  | nil => simp
  | sep n ns h1 h2 ih =>
    intro x hx
    simp only [List.mem_cons] at hx
    rcases hx with rfl | hx
    · exact Or.inl h1
    · exact ih x hx
  | entry t r ns h1 h2 h3 hf h4 ih =>
    intro x hx
    simp only [List.mem_cons] at hx
    rcases hx with rfl | hx
    · exact Or.inr ⟨t, r, h1, rfl, h2⟩
    · exact ih x hx

theorem root_shape (s : Str) (he : (parse s false).errors = []) :
    ∃ cs, (parse s false).tree = Node.node .ROOT cs ∧ RootShape cs := by
  simp only [parse, parseTokens] at he ⊢
  exact ⟨_, rfl, RootShape.wss (skipWs_nodes_ws _) (rootLoop_shape _ he)⟩

/-- the ENTRY children of an error-free root -/
theorem strict_entries (s : Str) (he : (parse s false).errors = []) :
    ∀ e ∈ entries (parse s false).tree,
      ∃ t r, t.1 = Kind.IDENT ∧ e = Node.node .ENTRY (entryLoop (t :: r)).nodes ∧ (entryLoop (t :: r)).errs = [] := by
  obtain ⟨cs, hcs, hsh⟩ := root_shape s he
  intro e hmem
  obtain ⟨h1, h2, h3⟩ := Props.C09.childNodes_mem hmem
  rw [hcs] at h1
  rcases hsh.mem e h1 with hsep | h
  · have := isSepTok_not_node (k := Kind.ENTRY) hsep
    rw [h3, h2] at this
    simp at this
  · exact h

/-- **every RELATION child of every ENTRY child of an error-free root** has the shape `RelShape`, and its
    tokens are tokens of `lex s` -/
theorem strict_rel_shape (s : Str) (he : (parse s false).errors = []) :
    ∀ e ∈ entries (parse s false).tree, ∀ r ∈ relations e,
      RelShape r ∧ ∀ l ∈ r.leaves, TokStrong l := by
  intro e hmem r hr
  obtain ⟨t, ts, _, hE, hee⟩ := strict_entries s he e hmem
  refine ⟨?_, ?_⟩
  · rw [hE] at hr
    exact entryLoop_rels (t :: ts) hee r hr
  · intro l hl
    have h1 := (Props.C09.childNodes_mem hr).1
    have h2 := (Props.C09.childNodes_mem hmem).1
    have h3 := leaves_mem_children h2 l (leaves_mem_children h1 l hl)
    simp only [parse] at h3
    rw [Props.C09.C09_tokens_once] at h3
    exact lex_strong s l h3

/-! ### what the accessors return on such a node -/

/-- `name()` finds the IDENT token: its `unwrap()` (relations.rs:1291) cannot fail -/
theorem RelShape.name_some {r : RNode} (h : RelShape r) : ∃ n, name r = some n := by
  obtain ⟨t, X, rfl, ht, _⟩ := h
  exact ⟨t.2, by simp [name, firstIdentTok, Node.children, tk, ht]⟩

theorem vtF_ws {w : List RNode} (h : ∀ n ∈ w, isWsTok n = true) : w.filterMap vtF = [] := by
  rw [List.filterMap_eq_nil_iff]
  intro n hn
  have := h n hn
  cases n with
  | node k cs => rfl
  | tok k t =>
    simp only [isWsTok, isWsKind, Bool.or_eq_true, beq_iff_eq] at this
    rcases this with rfl | rfl <;> simp [vtF]

theorem vtF_colonIdents (ps : List (Tok × Tok)) (hk : ∀ p ∈ ps, p.1.1 = Kind.COLON ∧ p.2.1 = Kind.IDENT) :
    ((colonIdents ps).filterMap vtF).flatten = (ps.map fun p => p.1.2 ++ p.2.2).flatten := by
  induction ps with
  | nil => rfl
  | cons p ps ih =>
    have h1 := hk p (by simp)
    have := ih fun q hq => hk q (by simp [hq])
    simp [tk, vtF, h1.1, h1.2, this]

theorem cn_colonIdents (k : Kind) (ps : List (Tok × Tok)) : cn k (colonIdents ps) = [] := by
  induction ps with
  | nil => rfl
  | cons p ps ih => simp [ih]

theorem leavesList_tks (ts : List Tok) : leavesList (tks ts) = ts := by
  induction ts with
  | nil => rfl
  | cons t ts ih => simp only [tks, List.map_cons] at ih ⊢; simp [tk, ih]

theorem mem_leaves_colonIdents {ps : List (Tok × Tok)} {p : Tok × Tok} (hp : p ∈ ps) :
    p.1 ∈ leavesList (colonIdents ps) ∧ p.2 ∈ leavesList (colonIdents ps) := by
  induction ps with
  | nil => simp at hp
  | cons q ps ih =>
    simp only [List.mem_cons] at hp
    rcases hp with rfl | hp
    · simp [tk]
    · have := ih hp
      simp [tk, this.1, this.2]

theorem textList_tks (ts : List Tok) : textList (tks ts) = (ts.map (·.2)).flatten := by
  induction ts with
  | nil => rfl
  | cons t ts ih => simp only [tks, List.map_cons] at ih ⊢; simp [tk, ih]

/-- **what `version()` reads in a VERSION node built without error from lexer tokens**: the CONSTRAINT child
    exists and prints a (possibly empty) string over `<`, `>`, `=`; the version text is
    `IDENT(:IDENT)*`, each IDENT a non-empty run of identifier characters -/
theorem VerShape.access {vc : RNode} (h : VerShape vc) (hg : ∀ l ∈ vc.leaves, TokStrong l) :
    ∃ (c : RNode) (id : Str) (qs : List Str),
      firstChildNode .CONSTRAINT vc = some c ∧ (∀ ch ∈ c.text, ch = '<' ∨ ch = '>' ∨ ch = '=') ∧
      isIdent id = true ∧ (∀ q ∈ qs, isIdent q = true) ∧
      versionText vc = id ++ (qs.map fun q => ':' :: q).flatten := by
  obtain ⟨lp, w1, ops, w2, id, ps, w3, rp, rfl, hlp, hw1, hops, hw2, hid, hps, hw3, hrp⟩ := h
  simp only [leaves_node, leavesList_cons, leavesList_append, leaves_tok, leavesList_tks, leavesList_nil,
    tk] at hg
  have gid : TokStrong id := hg id (by simp)
  have gops : ∀ o ∈ ops, TokStrong o := fun o ho => hg o (by simp [ho])
  have gps : ∀ p ∈ ps, TokStrong p.1 ∧ TokStrong p.2 := fun p hp =>
    ⟨hg p.1 (by simp [(mem_leaves_colonIdents hp).1]), hg p.2 (by simp [(mem_leaves_colonIdents hp).2])⟩
  refine ⟨Node.node .CONSTRAINT (tks ops), id.2, ps.map (·.2.2), ?_, ?_, gid.ident hid, ?_, ?_⟩
  · simp [firstChildNode, childNodes_node, cn_ws hw1, cn_ws hw2, cn_ws hw3, cn_cons_node, cn_colonIdents]
  · intro ch hch
    simp only [text_node, textList_tks, List.mem_flatten, List.mem_map] at hch
    obtain ⟨l, ⟨o, ho, rfl⟩, hc⟩ := hch
    rcases hops o ho with h | h | h
    · rw [(gops o ho).langle h] at hc; simp at hc; exact Or.inl hc
    · rw [(gops o ho).rangle h] at hc; simp at hc; exact Or.inr (Or.inl hc)
    · rw [(gops o ho).equal h] at hc; simp at hc; exact Or.inr (Or.inr hc)
  · intro q hq
    simp only [List.mem_map] at hq
    obtain ⟨p, hp, rfl⟩ := hq
    exact (gps p hp).2.ident (hps p hp).2
  · have hcol : (ps.map fun p => p.1.2 ++ p.2.2) = (ps.map (·.2.2)).map fun q => ':' :: q := by
      rw [List.map_map]
      apply List.map_congr_left
      intro p hp
      simp [(gps p hp).1.colon (hps p hp).1]
    have hci : ((colonIdents ps).filterMap vtF).flatten
        = ((ps.map (·.2.2)).map fun q => ':' :: q).flatten := by rw [vtF_colonIdents ps hps, hcol]
    simp only [versionText_node, List.filterMap_cons, List.filterMap_append, vtF_ws hw1, vtF_ws hw2,
      vtF_ws hw3, List.nil_append, List.flatten_append]
    simp [vtF, tk, hlp, hrp, hid, hci]

/-! ### `Version::from_str` on `IDENT(:IDENT)*` fails exactly on a big epoch -/

theorem colon_not_mem_ident {e : Str} (he : isIdent e = true) : ':' ∉ e := by
  intro hm
  have := ((isIdent_iff e).1 he).2 ':' hm
  rw [colon_not_ident] at this; cases this

theorem bigEpochText_ident {e : Str} (he : isIdent e = true) : bigEpochText e = false := by
  unfold bigEpochText
  split
  · rename_i rest hh
    have hmem : ':' ∈ e.dropWhile isAsciiDigit := by rw [hh]; simp
    exact absurd ((List.dropWhile_sublist _).subset hmem) (colon_not_mem_ident he)
  · rfl

theorem bigEpochText_epoch (e body : Str) (he : isIdent e = true) :
    bigEpochText (e ++ ':' :: body) = true ↔ (isDigits e = true ∧ 4294967296 ≤ digitsVal e) := by
  obtain ⟨hene, heall⟩ := (isIdent_iff e).1 he
  by_cases hd : isDigits e = true
  · have hdig : ∀ c ∈ e, isAsciiDigit c = true := by
      cases e with
      | nil => simp [isDigits] at hd
      | cons c cs => simpa [isDigits, List.all_eq_true] using hd
    have hf : HeadFails isAsciiDigit (':' :: body) := headFails_cons _ _ _ (by decide)
    have h1 : (e ++ ':' :: body).dropWhile isAsciiDigit = ':' :: body := dropWhile_app _ _ _ hdig hf
    have h2 : (e ++ ':' :: body).takeWhile isAsciiDigit = e := takeWhile_app _ _ _ hdig hf
    simp [bigEpochText, h1, h2, hd]
  · have hnd : e.dropWhile isAsciiDigit ≠ [] := by
      intro hnil
      have hall : e.all isAsciiDigit = true := by
        rw [List.all_eq_true]
        intro c hc
        have := List.takeWhile_append_dropWhile (p := isAsciiDigit) (l := e)
        rw [hnil, List.append_nil] at this
        rw [← this] at hc
        exact mem_takeWhile_imp hc
      have : isDigits e = true := by
        cases e with
        | nil => exact absurd rfl hene
        | cons c cs => simpa [isDigits] using hall
      exact hd this
    obtain ⟨c, post, hcp⟩ : ∃ c post, e.dropWhile isAsciiDigit = c :: post := by
      cases h : e.dropWhile isAsciiDigit with
      | nil => exact absurd h hnd
      | cons c post => exact ⟨c, post, rfl⟩
    have hcmem : c ∈ e := (List.dropWhile_sublist _).subset (by rw [hcp]; simp)
    have hcne : c ≠ ':' := fun ec => colon_not_mem_ident he (ec ▸ hcmem)
    have hdrop : (e ++ ':' :: body).dropWhile isAsciiDigit = c :: (post ++ ':' :: body) := by
      rw [List.dropWhile_append, hcp]; simp
    have : bigEpochText (e ++ ':' :: body) = false := by
      unfold bigEpochText
      rw [hdrop]
      split
      · rename_i rest hh; simp at hh; exact absurd hh.1 hcne
      · rfl
    simp [this, hd]

/-- the version text of an error-free VERSION node: `Version::from_str` fails iff the text starts with an
    epoch that does not fit a `u32` -/
theorem Version.parse_none_iff_bigEpoch (id : Str) (qs : List Str) (hid : isIdent id = true)
    (hqs : ∀ q ∈ qs, isIdent q = true) :
    Version.parse (id ++ (qs.map fun q => ':' :: q).flatten) = none ↔
      bigEpochText (id ++ (qs.map fun q => ':' :: q).flatten) = true := by
  cases qs with
  | nil =>
    obtain ⟨hne, hall⟩ := (isIdent_iff id).1 hid
    obtain ⟨v, hv, _⟩ := Version.parse_ident id hne (by rw [List.all_eq_true]; exact hall)
    simp [hv, bigEpochText_ident hid]
  | cons q qs =>
    rw [Version.parse_epoch_idents id q qs hid hqs]
    have e1 : ((q :: qs).map fun x => ':' :: x).flatten = ':' :: (q ++ (qs.map fun x => ':' :: x).flatten) := by
      simp
    rw [e1, bigEpochText_epoch id _ hid]

/-- **`version()` on a RELATION node of an error-free tree panics exactly on a BAD relation** -/
theorem RelShape.version_error_iff {r : RNode} (h : RelShape r) (hg : ∀ l ∈ r.leaves, TokStrong l) :
    version r = .error () ↔ bad r = true := by
  obtain ⟨t, X, rfl, ht, hv⟩ := h
  have hfc : firstChildNode .VERSION (Node.node .RELATION (tk t :: X)) = (cn .VERSION X).head? := by
    simp [firstChildNode, childNodes_node]
  rcases hv with hv | ⟨vc, hv, hs⟩
  · simp [version, bad, badOp, bigEpoch, hfc, hv]
  · have hvc : vc ∈ X := by
      have : vc ∈ cn .VERSION X := by rw [hv]; simp
      exact (List.mem_filter.mp this).1
    have hgv : ∀ l ∈ vc.leaves, TokStrong l := by
      intro l hl
      refine hg l ?_
      simp only [leaves_node, leavesList_cons, List.mem_append]
      exact Or.inr (leaves_mem_of_mem hvc l hl)
    obtain ⟨c, id, qs, hc, _, hid, hqs, hvt⟩ := hs.access hgv
    have hne : (versionText vc).isEmpty = false := by
      rw [hvt]
      obtain ⟨hne, _⟩ := (isIdent_iff id).1 hid
      cases id with
      | nil => exact absurd rfl hne
      | cons a b => rfl
    have hp := Version.parse_none_iff_bigEpoch id qs hid hqs
    rw [← hvt] at hp
    simp only [version, bad, badOp, bigEpoch, hfc, hv, List.head?_cons, hc, hne, Bool.false_eq_true,
      if_false, Bool.or_eq_true]
    cases hvp : VC.parse c.text with
    | none => simp
    | some k =>
      cases hpp : Version.parse (versionText vc) with
      | none => simp [hp.1 hpp]
      | some ver =>
        have : bigEpochText (versionText vc) = false := by
          cases hb : bigEpochText (versionText vc) with
          | false => rfl
          | true => rw [hp.2 hb] at hpp; cases hpp
        simp [this]

end Deb822Verif.Rel
