import Deb822Verif.Model.Codec
import Deb822Verif.Model.Outcome
/-!
# Panic sites of the typed field-value parsers (`Model/Codec.lean`)

Inventory (non-test code reached from the `FromStr` impls / parsing functions `Model/Codec.lean`
covers): the only places that index, slice or unwrap are in `ParsedVcs::from_str`
(debian-control/src/vcs.rs:22-48):

| site       | code                                              | can it panic?                           |
|------------|---------------------------------------------------|------------------------------------------|
| vcs.rs:27  | `Regex::new(r" \[([^] ]+)\]").unwrap()`            | constant pattern, not input dependent    |
| vcs.rs:30  | `m.as_str()[2..m.as_str().len() - 1]`              | no — `parseO_eq` below                   |
| vcs.rs:31  | `s[..m.start()]`, `s[m.end()..]`                   | no — `parseO_eq`                         |
| vcs.rs:35  | `s.split_at(index)` (`index = s.find(" -b ")`)     | no — `parseO_eq`                         |
| vcs.rs:36  | `branch_str[4..]`                                  | no — `parseO_eq`                         |

The checksum / changes-file / package-list parsers use `split_whitespace` + `next().ok_or(..)?` +
`parse().map_err(..)?`; `parse_identity` uses `split_once` / `strip_suffix` / `trim`; `parse_origin`
uses `splitn` + `unwrap_or("")` + `strip_prefix`; `License`, `Signature`, `Vcs::from_field`
(`split_once`) likewise: none of them indexes, slices or unwraps, and `Model/Codec.lean` has no
`Outcome`/panic branch for them.

`Model/Codec.lean` models the four slices of `ParsedVcs::from_str` directly by their values (list
pieces).  Here the slices are made explicit: `byteSlice` is Rust's `str::get(a..b)` on the
`List Char` representation (`none` = `&s[a..b]` panics: `a > b`, `b > len`, or an offset inside a
character), `ParsedVcs.parseO` is `ParsedVcs.parse` written with these slices and a `panic` outcome
at every site, and `parseO_eq` shows that it never panics and returns the model's value.
-/
namespace Deb822Verif.Codec
open Deb822Verif Text

/-! ### byte-offset slicing of a `str` -/

/-- `s.get(..n)`: the prefix that ends at byte offset `n`; `none` when `n` is past the end or not
    on a character boundary -/
def takeBytes (n : Nat) : Str → Option Str
  | [] => if n = 0 then some [] else none
  | c :: cs =>
    if n = 0 then some []
    else if c.utf8Size ≤ n then (takeBytes (n - c.utf8Size) cs).map (c :: ·) else none

/-- `s.get(n..)` -/
def dropBytes (n : Nat) : Str → Option Str
  | [] => if n = 0 then some [] else none
  | c :: cs =>
    if n = 0 then some (c :: cs)
    else if c.utf8Size ≤ n then dropBytes (n - c.utf8Size) cs else none

/-- `s.get(a..b)`; `&s[a..b]` panics exactly when this is `none` -/
def byteSlice (s : Str) (a b : Nat) : Option Str :=
  if a ≤ b then (takeBytes b s).bind (dropBytes a) else none

theorem utf8Len_nil : utf8Len [] = 0 := rfl
theorem utf8Len_cons (c : Char) (s : Str) : utf8Len (c :: s) = c.utf8Size + utf8Len s := by
  simp [utf8Len]
theorem utf8Len_append (a b : Str) : utf8Len (a ++ b) = utf8Len a + utf8Len b := by
  simp [utf8Len]

theorem takeBytes_append (p q : Str) : takeBytes (utf8Len p) (p ++ q) = some p := by
  induction p with
  | nil => cases q <;> simp [takeBytes, utf8Len_nil]
  | cons c p ih =>
    have := Char.utf8Size_pos c
    have h0 : c.utf8Size + utf8Len p ≠ 0 := by omega
    have h1 : c.utf8Size ≤ c.utf8Size + utf8Len p := by omega
    simp only [List.cons_append, takeBytes, utf8Len_cons, if_neg h0, if_pos h1,
      Nat.add_sub_cancel_left, ih, Option.map_some]

theorem dropBytes_append (p q : Str) : dropBytes (utf8Len p) (p ++ q) = some q := by
  induction p with
  | nil => cases q <;> simp [dropBytes, utf8Len_nil]
  | cons c p ih =>
    have := Char.utf8Size_pos c
    have h0 : c.utf8Size + utf8Len p ≠ 0 := by omega
    have h1 : c.utf8Size ≤ c.utf8Size + utf8Len p := by omega
    simp only [List.cons_append, dropBytes, utf8Len_cons, if_neg h0, if_pos h1,
      Nat.add_sub_cancel_left, ih]

/-- the slice between two character boundaries is the text between them -/
theorem byteSlice_mid (p m q : Str) :
    byteSlice (p ++ (m ++ q)) (utf8Len p) (utf8Len p + utf8Len m) = some m := by
  have h : utf8Len p ≤ utf8Len p + utf8Len m := by omega
  have e : p ++ (m ++ q) = (p ++ m) ++ q := by simp
  simp only [byteSlice, if_pos h]
  rw [← utf8Len_append, e, takeBytes_append, Option.bind_some, dropBytes_append]

/-! ### what the model's text helpers return -/

theorem splitOnFirst_eq (pat s a b : Str) (h : splitOnFirst pat s = some (a, b)) :
    s = a ++ (pat ++ b) := by
  induction s generalizing a with
  | nil => simp [splitOnFirst] at h
  | cons c cs ih =>
    simp only [splitOnFirst] at h
    split at h
    · rename_i hp
      simp only [Option.some.injEq, Prod.mk.injEq] at h
      obtain ⟨rfl, rfl⟩ := h
      have := List.prefix_iff_eq_append.mp (List.isPrefixOf_iff_prefix.mp hp)
      simpa using this.symm
    · split at h
      · simp at h
      · rename_i r hr
        simp only [Option.some.injEq, Prod.mk.injEq] at h
        obtain ⟨rfl, rfl⟩ := h
        have := ih r.1 (by rw [hr])
        simp [← this]

/-- a match of ` \[([^] ]+)\]` at the head: the text is ` [` group `]` rest, the group non-empty -/
theorem matchSubAt_eq (s g rest : Str) (h : matchSubAt s = some (g, rest)) :
    s = ' ' :: '[' :: (g ++ ']' :: rest) ∧ g ≠ [] := by
  unfold matchSubAt at h
  split at h
  · rename_i t
    have e := List.takeWhile_append_dropWhile (p := subChar) (l := t)
    split at h
    · simp at h
    · rename_i rest' hdrop hne
      simp only [Option.some.injEq, Prod.mk.injEq] at h
      obtain ⟨rfl, rfl⟩ := h
      rw [hdrop] at e
      exact ⟨by rw [e], fun hnil => hne hnil⟩
    · simp at h
  · simp at h

/-- the leftmost match: before ++ ` [` group `]` ++ after -/
theorem findSub_eq (s pre g post : Str) (h : findSub s = some (pre, g, post)) :
    s = pre ++ (' ' :: '[' :: (g ++ [']'])) ++ post ∧ g ≠ [] := by
  induction s generalizing pre with
  | nil => simp [findSub] at h
  | cons c cs ih =>
    simp only [findSub] at h
    split at h
    · rename_i r hr
      simp only [Option.some.injEq, Prod.mk.injEq] at h
      obtain ⟨rfl, rfl, rfl⟩ := h
      have := matchSubAt_eq _ _ _ (show matchSubAt (c :: cs) = some (r.1, r.2) from hr)
      refine ⟨?_, this.2⟩
      rw [this.1]; simp
    · split at h
      · simp at h
      · rename_i r hr
        simp only [Option.some.injEq, Prod.mk.injEq] at h
        obtain ⟨rfl, rfl, rfl⟩ := h
        have := ih r.1 (by rw [hr])
        refine ⟨?_, this.2⟩
        rw [List.cons_append, List.cons_append, ← this.1]

/-! ### `ParsedVcs::from_str` with its slices spelled out -/

def orPanic {α} (site : String) : Option α → Outcome α
  | some a => .ok a
  | none => .panic site

/-- vcs.rs:34-41: `find(" -b ")`, `split_at`, `[4..]` -/
def branchO (s1 : Str) (subpath : Option Str) : Outcome ParsedVcs :=
  match splitOnFirst branchMark s1 with
  | some r =>
    -- `index`: the byte length of the text before the first occurrence
    (orPanic "vcs.rs:35 split_at(index)" (takeBytes (utf8Len r.1) s1)).bind fun url =>
    (orPanic "vcs.rs:35 split_at(index)" (dropBytes (utf8Len r.1) s1)).bind fun branchStr =>
    (orPanic "vcs.rs:36 branch_str[4..]" (dropBytes 4 branchStr)).bind fun b =>
    .ok ⟨url, some b, subpath⟩
  | none => .ok ⟨s1, none, subpath⟩

/-- vcs.rs:22-48.  The regex match is given by its byte offsets: `start` = bytes before the match,
    `end` = all bytes − bytes after it. -/
def ParsedVcs.parseO (s0 : Str) : Outcome ParsedVcs :=
  match findSub (trim s0) with
  | some r =>
    (orPanic "Match::as_str" (byteSlice (trim s0) (utf8Len r.1) (utf8Len (trim s0) - utf8Len r.2.2))).bind fun m =>
    (orPanic "vcs.rs:30 m.as_str()[2..len-1]" (byteSlice m 2 (utf8Len m - 1))).bind fun sub =>
    (orPanic "vcs.rs:31 s[..m.start()]" (takeBytes (utf8Len r.1) (trim s0))).bind fun a =>
    (orPanic "vcs.rs:31 s[m.end()..]" (dropBytes (utf8Len (trim s0) - utf8Len r.2.2) (trim s0))).bind fun b =>
    branchO (a ++ b) (some sub)
  | none => branchO (trim s0) none

theorem branchO_eq (s1 : Str) (sp : Option Str) :
    branchO s1 sp = .ok (match splitOnFirst branchMark s1 with
      | some r => ⟨r.1, some r.2, sp⟩
      | none => ⟨s1, none, sp⟩) := by
  unfold branchO
  split
  · rename_i r hr
    have e := splitOnFirst_eq branchMark s1 r.1 r.2 hr
    have e4 : (4 : Nat) = utf8Len branchMark := by decide
    have h1 : takeBytes (utf8Len r.1) s1 = some r.1 := by
      rw [e]; exact takeBytes_append _ _
    have h2 : dropBytes (utf8Len r.1) s1 = some (branchMark ++ r.2) := by
      rw [e]; exact dropBytes_append _ _
    have h3 : dropBytes 4 (branchMark ++ r.2) = some r.2 := by
      rw [e4]; exact dropBytes_append _ _
    simp only [h1, h2, orPanic, Outcome.bind, h3]
  · rfl

/-- `ParsedVcs::from_str` never panics at one of its slices, and the slices are the model's pieces -/
theorem parseO_eq (s0 : Str) : ParsedVcs.parseO s0 = .ok (ParsedVcs.parse s0) := by
  unfold ParsedVcs.parseO ParsedVcs.parse
  rcases hf : findSub (trim s0) with _ | ⟨pre, g, post⟩
  · simp only [branchO_eq, hf]
    cases splitOnFirst branchMark (trim s0) <;> rfl
  · obtain ⟨e, hg⟩ := findSub_eq _ _ _ _ hf
    have hm : utf8Len (' ' :: '[' :: (g ++ [']'])) = 2 + (utf8Len g + 1) := by
      have a : utf8Len [' ', '['] = 2 := by decide
      have b : utf8Len [']'] = 1 := by decide
      have : (' ' :: '[' :: (g ++ [']'])) = [' ', '['] ++ (g ++ [']']) := rfl
      rw [this, utf8Len_append, utf8Len_append, a, b]
    have hstop : utf8Len (trim s0) - utf8Len post
        = utf8Len pre + utf8Len (' ' :: '[' :: (g ++ [']'])) := by
      rw [e, utf8Len_append, utf8Len_append]; omega
    have h1 : byteSlice (trim s0) (utf8Len pre) (utf8Len pre + utf8Len (' ' :: '[' :: (g ++ [']'])))
        = some (' ' :: '[' :: (g ++ [']'])) := by
      have := byteSlice_mid pre (' ' :: '[' :: (g ++ [']'])) post
      rw [e]; simpa using this
    have h2 : byteSlice (' ' :: '[' :: (g ++ [']'])) 2 (utf8Len (' ' :: '[' :: (g ++ [']'])) - 1)
        = some g := by
      have a : utf8Len [' ', '['] = 2 := by decide
      have := byteSlice_mid [' ', '['] g [']']
      rw [a] at this
      have e2 : 2 + (utf8Len g + 1) - 1 = 2 + utf8Len g := by omega
      rw [hm, e2]; simpa using this
    have h3 : takeBytes (utf8Len pre) (trim s0) = some pre := by
      rw [e, List.append_assoc]; exact takeBytes_append _ _
    have h4 : dropBytes (utf8Len pre + utf8Len (' ' :: '[' :: (g ++ [']']))) (trim s0) = some post := by
      rw [e, ← utf8Len_append]; exact dropBytes_append _ _
    simp only [hstop, h1, h2, h3, h4, orPanic, Outcome.bind, branchO_eq, hf]
    cases splitOnFirst branchMark (pre ++ post) <;> rfl

end Deb822Verif.Codec
