import Deb822Verif.Lemmas.DebLexLines
import Deb822Verif.Lemmas.DebParseDoc
/-! A line that is neither field, continuation, comment nor blank — placed after any fully
    terminated well-formed document — makes the parser report an error. -/
namespace Deb822Verif.Deb
open Deb822Verif Node Spec

/-- token lists on which `parse_entry` must report an error: an ERROR or COLON token where a key is
    expected, or a KEY not followed (after whitespace) by a COLON -/
def BadStart : List Tok → Prop
  | [] => False
  | t :: ts => t.1 = .ERROR ∨ t.1 = .COLON ∨ (t.1 = .KEY ∧ HeadNot [.COLON] (skipWs ts).2)

theorem badStart_head {R : List Tok} (h : BadStart R) :
    ∃ t ts, R = t :: ts ∧ (t.1 = .ERROR ∨ t.1 = .COLON ∨ t.1 = .KEY) := by
  cases R with
  | nil => exact absurd h (by simp [BadStart])
  | cons t ts =>
    refine ⟨t, ts, rfl, ?_⟩
    rcases h with h | h | h
    · exact Or.inl h
    · exact Or.inr (Or.inl h)
    · exact Or.inr (Or.inr h.1)

theorem colonPart_errs_of_not_colon (ts : List Tok) (h : HeadNot [.COLON] ts) : (colonPart ts).errs ≠ [] := by
  cases ts with
  | nil => simp [colonPart]
  | cons t ts =>
    have : t.1 ≠ .COLON := by simpa using h t (by simp)
    simp [colonPart, this]

theorem entryBody_bad (R : List Tok) (h : BadStart R) : (entryBody R).errs ≠ [] := by
  cases R with
  | nil => exact absurd h (by simp [BadStart])
  | cons t ts =>
    simp only [entryBody]
    rcases h with h | h | ⟨hk, hc⟩
    · have : t.1 ≠ .KEY := by rw [h]; simp
      simp [keyPart, this]
    · have : t.1 ≠ .KEY := by rw [h]; simp
      simp [keyPart, this]
    · have hkp : keyPart (t :: ts) = ⟨tk t :: (skipWs ts).1, [], (skipWs ts).2⟩ := by simp [keyPart, hk]
      rw [hkp]
      have := colonPart_errs_of_not_colon _ hc
      intro he
      simp only [List.nil_append, List.append_eq_nil_iff] at he
      exact this he.1

theorem parseEntry_bad (R : List Tok) (h : BadStart R) : (parseEntry R).errs ≠ [] := by
  obtain ⟨t, ts, rfl, hk⟩ := badStart_head h
  have hc : t.1 ≠ .COMMENT := by rcases hk with e | e | e <;> (rw [e]; simp)
  have hn : t.1 ≠ .NEWLINE := by rcases hk with e | e | e <;> (rw [e]; simp)
  have he : endsParagraph (t :: ts) = false := by simp [endsParagraph, hn]
  simp only [parseEntry, commentLoop_id t ts hc, he, Bool.false_eq_true, Bool.or_self, ↓reduceIte,
    List.nil_append]
  exact entryBody_bad _ h

theorem paraLoop_bad (R : List Tok) (h : BadStart R) : (paraLoop R).errs ≠ [] := by
  obtain ⟨t, ts, rfl, hk⟩ := badStart_head h
  have hn : t.1 ≠ .NEWLINE := by rcases hk with e | e | e <;> (rw [e]; simp)
  rw [paraLoop_step t ts hn]
  have := parseEntry_bad _ h
  intro he
  simp only [List.append_eq_nil_iff] at he
  exact this he.1

theorem badStart_headNot_indent {R : List Tok} (h : BadStart R) : HeadNot [.INDENT] R := by
  obtain ⟨t, ts, rfl, hk⟩ := badStart_head h
  apply headNot_cons
  rcases hk with e | e | e <;> (rw [e]; simp)

theorem badStart_headNot_blank {R : List Tok} (h : BadStart R) :
    HeadNot [.WHITESPACE, .COMMENT, .NEWLINE] R := by
  obtain ⟨t, ts, rfl, hk⟩ := badStart_head h
  apply headNot_cons
  rcases hk with e | e | e <;> (rw [e]; simp)

/-- the paragraph loop runs through the items of a paragraph and carries on with what follows -/
theorem paraLoop_items_cont (is : List PItem) (R : List Tok)
    (hne : ∀ i ∈ is, ∀ e, i = .entry e → ∀ c ∈ e.conts, c.text ≠ [])
    (hterm : itemsTermT is R) (hR : HeadNot [.INDENT] R) :
    paraLoop (itemsToks is ++ R) =
      ⟨itemsNodes is ++ (paraLoop R).nodes, (paraLoop R).errs, (paraLoop R).rest⟩ := by
  induction is with
  | nil => simp [itemsToks, itemsNodes]
  | cons i is ih =>
    have hrec := fun ht => ih (fun x hx => hne x (by simp [hx])) ht
    cases i with
    | comment t nl =>
      obtain ⟨h1, h2⟩ := hterm
      cases nl with
      | true =>
        simp only [itemsToks_cons, PItem.toks, nlTok, ↓reduceIte, List.cons_append, List.nil_append,
          itemsNodes_cons, PItem.nodes, List.map_cons, List.map_nil]
        rw [paraLoop_comment, hrec h2]
      | false =>
        rcases h1 with h | ⟨ha, hb⟩
        · simp at h
        · subst ha hb
          simp only [itemsToks, PItem.toks, nlTok, List.map_cons, List.map_nil, List.flatten_cons,
            List.flatten_nil, List.append_nil, Bool.false_eq_true, ↓reduceIte, itemsNodes, PItem.nodes]
          rw [paraLoop_step _ _ (by simp), parseEntry_comment_eof]
          simp [paraLoop_nil]
    | entry e =>
      obtain ⟨h1, h2⟩ := hterm
      have hne' := hne (.entry e) (by simp) e rfl
      simp only [itemsToks_cons, PItem.toks, List.append_assoc, itemsNodes_cons, PItem.nodes]
      have hpe := parseEntry_entry e (itemsToks is ++ R) hne' h1 (headNot_items is R hR)
      rw [paraLoop_step' _ (by simp [EntryS.toks, endsParagraph]), hpe, hrec h2]
      simp

/-- fully terminated paragraphs: like `parasTerm`, but something follows the last one too -/
def parasTermR : List (ParaS × List Gap) → Prop
  | [] => True
  | [(p, g)] => p.Term true ∧ (g = [] ∨ ∃ g', g = .blank :: g') ∧ gapsTerm g true
  | (p, g) :: q :: ps => p.Term true ∧ (∃ g', g = .blank :: g') ∧ gapsTerm g true ∧ parasTermR (q :: ps)

theorem para_entries_ne (p : ParaS) (hwf : p.WF) :
    ∀ i ∈ PItem.entry p.first :: p.rest, ∀ e, i = .entry e → ∀ c ∈ e.conts, c.text ≠ [] := by
  intro i hi e he c hc
  have hewf : e.WF := by
    simp only [List.mem_cons] at hi
    rcases hi with h | h
    · rw [h] at he; cases he; exact hwf.first_ok
    · have := hwf.rest_ok i h; rw [he] at this; exact this
  obtain ⟨_, x, xs, hx, _⟩ := (hewf.conts_ok c hc).text_ok
  rw [hx]; simp

theorem para_termT (p : ParaS) (R : List Tok) (hterm : p.Term true) :
    itemsTermT (PItem.entry p.first :: p.rest) R := by
  obtain ⟨h1, h2⟩ := hterm
  refine ⟨EntryS.termT_of _ _ _ h1 ?_, itemsTermT_of _ _ _ h2 (by simp)⟩
  intro hf; simp at hf

/-- **the parser reports an error** when a bad start follows a fully terminated document prefix -/
theorem rootLoop_bad (ps : List (ParaS × List Gap)) : ∀ (g0 : List Gap) (R : List Tok),
    BadStart R → (∀ pg ∈ ps, pg.1.WF) → parasTermR ps → gapsTermT g0 (parasToks ps ++ R) →
    (rootLoop (gapsToks g0 ++ (parasToks ps ++ R))).errs ≠ [] := by
  induction ps with
  | nil =>
    intro g0 R hR _ _ hg
    simp only [parasToks, List.map_nil, List.flatten_nil, List.nil_append] at hg ⊢
    obtain ⟨t, ts, rfl, _⟩ := badStart_head hR
    have hs := skipWsNl_gaps g0 (t :: ts) hg (badStart_headNot_blank hR)
    rw [rootLoop_of_cons _ (by simp) _ _ _ hs]
    have := paraLoop_bad _ hR
    intro he
    simp only [List.append_eq_nil_iff] at he
    exact this he.1
  | cons pg ps ih =>
    obtain ⟨p, g⟩ := pg
    intro g0 R hR hwf hterm hg
    have hp := hwf (p, g) (by simp)
    obtain ⟨r, hr⟩ := para_toks_head p (gapsToks g ++ (parasToks ps ++ R))
    have htoks : parasToks ((p, g) :: ps) ++ R = p.toks ++ (gapsToks g ++ (parasToks ps ++ R)) := by
      rw [parasToks_cons]; simp
    rw [htoks] at hg ⊢
    have hs := skipWsNl_gaps g0 _ hg (by rw [hr]; exact headNot_cons _ _ _ (by simp))
    rw [hr] at hs
    have hne : gapsToks g0 ++ ((Kind.KEY, p.first.key) :: r) ≠ [] := by simp
    have hstep := rootLoop_of_cons _ hne _ _ _ hs
    rw [hr, hstep, ← hr]
    -- the paragraph itself
    have hpt : p.Term true := by
      cases ps with
      | nil => exact hterm.1
      | cons q ps' => exact hterm.1
    have hitems := para_termT p (gapsToks g ++ (parasToks ps ++ R)) hpt
    have hgshape : g = [] ∧ ps = [] ∨ ∃ g', g = .blank :: g' := by
      cases ps with
      | nil =>
        rcases hterm.2.1 with h | h
        · exact Or.inl ⟨h, rfl⟩
        · exact Or.inr h
      | cons q ps' => exact Or.inr hterm.2.1
    have hgterm : gapsTerm g true := by
      cases ps with
      | nil => exact hterm.2.2
      | cons q ps' => exact hterm.2.2.1
    have hrest : parasTermR ps := by
      cases ps with
      | nil => trivial
      | cons q ps' => exact hterm.2.2.2
    rcases hgshape with ⟨hg0, hps⟩ | ⟨g', hg'⟩
    · -- the bad line follows the last paragraph directly: it is parsed inside that paragraph
      subst hg0 hps
      simp only [gapsToks, List.map_nil, List.flatten_nil, List.nil_append, parasToks] at hitems ⊢
      have := paraLoop_items_cont (PItem.entry p.first :: p.rest) R (para_entries_ne p hp) hitems
        (badStart_headNot_indent hR)
      simp only [itemsToks_cons, PItem.toks, List.append_assoc] at this
      have hpt2 : p.toks ++ R = p.first.toks ++ (itemsToks p.rest ++ R) := by simp [ParaS.toks]
      rw [hpt2, this]
      have hb := paraLoop_bad _ hR
      intro he
      simp only [List.append_eq_nil_iff] at he
      exact hb he.1
    · -- a blank line ends the paragraph; carry on with the rest of the document
      subst hg'
      have hends : endsParagraph (gapsToks (Gap.blank :: g') ++ (parasToks ps ++ R)) = true := by
        simp [gapsToks, Gap.toks, endsParagraph]
      have hpl := paraLoop_para p true _ hp hpt (by simp) hends
      rw [hpl]
      simp only [List.nil_append]
      apply ih (Gap.blank :: g') R hR (fun x hx => hwf x (by simp [hx])) hrest
      exact gapsTermT_of _ true _ hgterm (by simp)

end Deb822Verif.Deb

namespace Deb822Verif.Deb
open Deb822Verif Node Spec

/-! ### the lexer on a line that is neither field, continuation, comment nor blank -/

/-- a bad line: newline-free, and either it starts with ':' ; or with a character that cannot start
    a field name (and is not space, tab or '#') ; or it is `name` `whitespace*` followed by
    something other than ':' (possibly nothing) -/
structure BadLine (l : Str) : Prop where
  noNl : NoNl l
  shape :
    (∃ cs, l = ':' :: cs)
    ∨ (∃ c cs, l = c :: cs ∧ isInitialKeyChar c = false ∧ isIndent c = false ∧ c ≠ '#' ∧ c ≠ ':')
    ∨ (∃ k ws r, l = k ++ (ws ++ r) ∧ ValidKey k ∧ AllIndent ws ∧ HeadFails isKeyChar (ws ++ r)
        ∧ HeadFails isIndent r ∧ (∀ c, r.head? = some c → c ≠ ':'))

theorem step_error (c : Char) (rest : Str) (hk : isInitialKeyChar c = false) (hi : isIndent c = false)
    (hn : isNewline c = false) (hh : c ≠ '#') (hc : c ≠ ':') :
    lexStep initState c rest = ((.ERROR, [c]), initState, rest) := by
  simp [lexStep, initState, hk, hi, hn, hh, hc]

/-- value text on a line that has a key but no colon yet -/
theorem step_value_nocolon (c : Char) (v tail : Str) (st : LexState) (hsol : st.sol = false)
    (hc : c ≠ ':') (hnl : isNewline c = false) (hni : isIndent c = false) (hv : NoNl v)
    (he : LineEnd tail) :
    lexStep st c (v ++ tail) = ((.VALUE, c :: v), st, tail) := by
  have tw := takeWhile_app _ _ _ (notNl_all v hv) (lineEnd_headFails tail he)
  have dw := dropWhile_app _ _ _ (notNl_all v hv) (lineEnd_headFails tail he)
  simp [lexStep, hc, hnl, hni, hsol, tw, dw]

theorem lexAux_lineEnd_head (st : LexState) (tail : Str) (he : LineEnd tail) :
    HeadNot [.COLON] (lexAux st tail) := by
  cases tail with
  | nil => simpa [lexAux_nil] using headNot_nil _
  | cons c r =>
    have hc : isNewline c = true := he c (by simp)
    have hne : c ≠ ':' := by intro e; subst e; simp [isNewline] at hc
    rw [lexAux_cons]
    apply headNot_cons
    simp [lexStep, hne, hc]

theorem lex_bad (l tail : Str) (hb : BadLine l) (he : LineEnd tail) :
    BadStart (lexAux initState (l ++ tail)) := by
  rcases hb.shape with ⟨cs, rfl⟩ | ⟨c, cs, rfl, hk, hi, hh, hc⟩ | ⟨k, ws, r, rfl, hkey, hws, hkf, hif, hcolon⟩
  · -- starts with ':'
    rw [List.cons_append, lexAux_cons, step_colon _ _ rfl rfl]
    exact Or.inr (Or.inl rfl)
  · -- a character that cannot start a key
    have hn : isNewline c = false := hb.noNl c (by simp)
    rw [List.cons_append, lexAux_cons, step_error c _ hk hi hn hh hc]
    exact Or.inl rfl
  · -- key, whitespace, then no colon
    obtain ⟨c, cs, rfl, hck, hch, hcs⟩ := hkey
    have hkf' : HeadFails isKeyChar (ws ++ (r ++ tail)) := by
      rw [← List.append_assoc]
      intro x hx
      cases hwr : ws ++ r with
      | nil =>
        rw [hwr] at hx
        simp at hx
        have := he x hx
        cases hkx : isKeyChar x
        · rfl
        · have := keyChar_not_newline x hkx; simp_all
      | cons y ys =>
        rw [hwr] at hx hkf
        simp at hx; subst hx
        exact hkf y (by simp)
    simp only [List.cons_append, List.append_assoc]
    rw [lexAux_cons, step_key c cs _ initState rfl rfl hck hch hcs hkf']
    refine Or.inr (Or.inr ⟨rfl, ?_⟩)
    simp only [initState]
    -- what follows the key
    have hr : NoNl r := fun x hx => hb.noNl x (by simp [hx])
    have hrest : HeadNot [.COLON] (lexAux { sol := false, colon := 0, indent := 0 } (r ++ tail))
        ∧ HeadNot [.WHITESPACE, .COMMENT] (lexAux { sol := false, colon := 0, indent := 0 } (r ++ tail)) := by
      cases r with
      | nil =>
        simp only [List.nil_append]
        refine ⟨lexAux_lineEnd_head _ _ he, ?_⟩
        cases tail with
        | nil => simpa [lexAux_nil] using headNot_nil _
        | cons x xs =>
          have hx : isNewline x = true := he x (by simp)
          have hne : x ≠ ':' := by intro e; subst e; simp [isNewline] at hx
          rw [lexAux_cons]; apply headNot_cons; simp [lexStep, hne, hx]
      | cons d ds =>
        have hd1 : d ≠ ':' := hcolon d (by simp)
        have hd2 : isNewline d = false := hr d (by simp)
        have hd3 : isIndent d = false := hif d (by simp)
        have hds : NoNl ds := fun x hx => hr x (by simp [hx])
        rw [List.cons_append, lexAux_cons,
          step_value_nocolon d ds tail _ rfl hd1 hd2 hd3 hds he]
        exact ⟨headNot_cons _ _ _ (by simp), headNot_cons _ _ _ (by simp)⟩
    cases ws with
    | nil =>
      simp only [List.nil_append]
      rw [skipWs_stop _ hrest.2]
      exact hrest.1
    | cons w ws' =>
      have hw : isIndent w = true := hws w (by simp)
      have hws' : ∀ x ∈ ws', isIndent x = true := fun x hx => hws x (by simp [hx])
      have hft : HeadFails isIndent (r ++ tail) := by
        intro x hx
        cases r with
        | nil =>
          simp at hx
          have := he x hx
          cases hi : isIndent x
          · rfl
          · have := indent_not_newline x hi; simp_all
        | cons d ds => simp at hx; subst hx; exact hif d (by simp)
      rw [List.cons_append, lexAux_cons,
        step_ws w ws' (r ++ tail) _ rfl hw hws' hft]
      simp only [skipWs, true_or, ↓reduceIte]
      rw [skipWs_stop _ hrest.2]
      exact hrest.1

end Deb822Verif.Deb

namespace Deb822Verif.Deb
open Deb822Verif Node Spec

theorem lex_paras_rest (ps : List (ParaS × List Gap)) (rest : Str)
    (hwf : ∀ pg ∈ ps, pg.1.WF ∧ ∀ g ∈ pg.2, g.WF) (hterm : parasTermR ps) :
    lexAux initState ((ps.map fun pg => pg.1.str ++ gapsStr pg.2).flatten ++ rest)
      = parasToks ps ++ lexAux initState rest := by
  induction ps with
  | nil => simp [parasToks]
  | cons pg ps ih =>
    obtain ⟨p, g⟩ := pg
    have hp := hwf (p, g) (by simp)
    have hpt : p.Term true ∧ gapsTerm g true ∧ parasTermR ps := by
      cases ps with
      | nil => exact ⟨hterm.1, hterm.2.2, trivial⟩
      | cons q ps' => exact ⟨hterm.1, hterm.2.2.1, hterm.2.2.2⟩
    have ihq := ih (fun x hx => hwf x (by simp [hx])) hpt.2.2
    simp only [List.map_cons, List.flatten_cons, parasToks, List.append_assoc] at ihq ⊢
    rw [lex_para p true _ hp.1 hpt.1 (by simp)]
    rw [lex_gaps g true _ hp.2 hpt.2.1 (by simp)]
    rw [ihq]

/-- every line of the document is LF-terminated -/
structure DocTermAll (d : DocS) : Prop where
  lead : gapsTerm d.lead true
  paras : parasTermR d.paras

theorem lex_doc_rest (d : DocS) (h : d.WF) (ha : DocTermAll d) (rest : Str) :
    lex (d.str ++ rest) = d.toks ++ lexAux initState rest := by
  unfold lex DocS.str DocS.toks
  rw [List.append_assoc, lex_gaps d.lead true _ h.lead_ok ha.lead (by simp)]
  rw [lex_paras_rest d.paras rest h.paras_ok ha.paras]
  simp

/-- **rejection**: a bad line after any well-formed, fully terminated document — whatever follows
    the bad line — makes the parser report at least one error -/
theorem parse_bad_line (d : DocS) (h : d.WF) (ha : DocTermAll d) (l tail : Str) (hb : BadLine l)
    (he : LineEnd tail) : (parse (d.str ++ (l ++ tail))).errors ≠ [] := by
  unfold parse
  rw [lex_doc_rest d h ha]
  have hR := lex_bad l tail hb he
  have hg : gapsTermT d.lead (parasToks d.paras ++ lexAux initState (l ++ tail)) :=
    gapsTermT_of d.lead true _ ha.lead (by simp)
  have := rootLoop_bad d.paras d.lead _ hR (fun pg hpg => (h.paras_ok pg hpg).1) ha.paras hg
  simpa [parseTokens, DocS.toks] using this

end Deb822Verif.Deb
