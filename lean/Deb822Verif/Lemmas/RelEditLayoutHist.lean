import Deb822Verif.Lemmas.RelEditLayoutEntry
/-!
  Layouts (Lemmas/RelEditLayout.lean): the relation setters keep them, the constructors build them,
  every call of a history keeps them, and a layout re-reads to its own list model.
-/
set_option linter.unusedSimpArgs false
set_option linter.unusedVariables false
namespace Deb822Verif.Rel.Edit
open Deb822Verif Rel Node Build Lossy RelSpec
open Deb822Verif.Props.C10

/-! ### the relation setters -/

theorem keeps_of_node (g : RNode → RNode)
    (h : ∀ (r : RelA) (t : Gap), r.okL = true → gapOkL t = true →
      ∃ (r' : RelA) (t' : Gap), r'.okL = true ∧ gapOkL t' = true ∧ g (r.node (gapToks t)) = r'.node (gapToks t')) :
    KeepsRel g := by
  intro x hx
  obtain ⟨h1, h2⟩ := (LRel.ok_iff x).1 hx
  obtain ⟨r', t', o1, o2, e⟩ := h x.r x.tail h1 h2
  exact ⟨⟨r', t'⟩, (LRel.ok_iff _).2 ⟨o1, o2⟩, e⟩

theorem keeps_setArchqual (q : Str) (hq : isIdent q = true) : KeepsRel (setArchqual · q) := by
  apply keeps_of_node
  intro r t hr ht
  obtain ⟨h1, h2, h3, h4, h5⟩ := (RelA.okL_iff r).1 hr
  refine ⟨{ r with archqual := some q }, t, ?_, ht, setArchqual_node r q (gapToks t)⟩
  exact (RelA.okL_iff _).2 ⟨h1, fun a ha => by simp only [Option.some.injEq] at ha; subst ha; exact hq, h3, h4, h5⟩

theorem keeps_setVersion_some (c : VC) (v : Version) (hv : validVersion v = true) :
    KeepsRel (setVersion · (some (c, v))) := by
  apply keeps_of_node
  intro r t hr ht
  obtain ⟨h1, h2, h3, h4, h5⟩ := (RelA.okL_iff r).1 hr
  obtain ⟨hvok, _⟩ := (validVersion_iff v).1 hv
  refine ⟨_, t, ?_, ht, setVersion_some_node r c v hv t⟩
  refine (RelA.okL_iff _).2 ⟨h1, h2, ?_, h4, h5⟩
  intro vp hvp
  simp only [Option.some.injEq] at hvp
  subst hvp
  rw [VerPart.okL_iff]
  refine ⟨?_, rfl, sp_ok, rfl, hvok⟩
  cases hver : r.version with
  | none => exact gapOkL_sp
  | some vp => exact ((VerPart.okL_iff vp).1 (h3 vp hver)).1

theorem keeps_setVersion_none : KeepsRel (setVersion · none) := by
  apply keeps_of_node
  intro r t hr ht
  obtain ⟨h1, h2, h3, h4, h5⟩ := (RelA.okL_iff r).1 hr
  exact ⟨{ r with version := none }, t, (RelA.okL_iff _).2 ⟨h1, h2, (fun vp hvp => by cases hvp), h4, h5⟩, ht,
    setVersion_none_node r t⟩

theorem keeps_setVersion (vc : Option (VC × Version)) (hv : ∀ c v, vc = some (c, v) → validVersion v = true) :
    KeepsRel (setVersion · vc) := by
  cases vc with
  | none => exact keeps_setVersion_none
  | some cv => obtain ⟨c, v⟩ := cv; exact keeps_setVersion_some c v (hv c v rfl)

theorem keeps_dropConstraint : KeepsRel (fun x => (dropConstraint x).1) := by
  apply keeps_of_node
  intro r t hr ht
  obtain ⟨h1, h2, h3, h4, h5⟩ := (RelA.okL_iff r).1 hr
  exact ⟨{ r with version := none }, t, (RelA.okL_iff _).2 ⟨h1, h2, (fun vp hvp => by cases hvp), h4, h5⟩, ht,
    dropConstraint_node r t⟩

theorem keeps_setArchs_nil : KeepsRel (setArchitectures · []) := by
  apply keeps_of_node
  intro r t hr ht
  obtain ⟨h1, h2, h3, h4, h5⟩ := (RelA.okL_iff r).1 hr
  exact ⟨{ r with archs := none }, t, (RelA.okL_iff _).2 ⟨h1, h2, h3, (fun ab hab => by cases hab), h5⟩, ht,
    setArchitectures_nil_node r t⟩

theorem archBracket_okL (pre : Gap) (hpre : gapOkL pre = true) (as : List Str) (h : ∀ a ∈ as, validArch a = true) :
    Bracket.okL ⟨pre, canonItems archItem as, []⟩ = true := by
  obtain ⟨_, h2, h3, h4⟩ := (Bracket.ok_iff _).1 (archBracket_ok [] rfl as h)
  exact (Bracket.okL_iff _).2 ⟨hpre, h2, h3, h4⟩

theorem profBracket_okL (pre : Gap) (hpre : gapOkL pre = true) (g : List BuildProfile)
    (h : ∀ p ∈ g, isIdent (profName p) = true) : Bracket.okL ⟨pre, canonItems profItem g, []⟩ = true := by
  obtain ⟨_, h2, h3, h4⟩ := (Bracket.ok_iff _).1 (profBracket_ok [] rfl g h)
  exact (Bracket.okL_iff _).2 ⟨hpre, h2, h3, h4⟩

theorem keeps_setArchs_cons (a : Str) (as : List Str) (hv : ∀ x ∈ a :: as, validArch x = true) :
    KeepsRel (setArchitectures · (a :: as)) := by
  apply keeps_of_node
  intro r t hr ht
  obtain ⟨h1, h2, h3, h4, h5⟩ := (RelA.okL_iff r).1 hr
  cases ha : r.archs with
  | some ab =>
    refine ⟨_, t, ?_, ht, setArchs_replace_node r ab ha a as t⟩
    exact (RelA.okL_iff _).2 ⟨h1, h2, h3, fun b hb => by
      simp only [Option.some.injEq] at hb; subst hb
      exact archBracket_okL ab.pre ((Bracket.okL_iff ab).1 (h4 ab ha)).1 _ hv, h5⟩
  | none =>
    cases hp : r.profiles with
    | cons p1 ps =>
      have hp1 := (Bracket.okL_iff p1).1 (h5 p1 (by simp [hp]))
      refine ⟨_, t, ?_, ht, setArchs_beforeProfiles_node r ha p1 ps hp a as t⟩
      refine (RelA.okL_iff _).2 ⟨h1, h2, h3, fun b hb => ?_, ?_⟩
      · simp only [Option.some.injEq] at hb; subst hb
        exact archBracket_okL p1.pre hp1.1 _ hv
      · intro p hpm
        simp only [List.mem_cons] at hpm
        rcases hpm with rfl | hpm
        · exact (Bracket.okL_iff _).2 ⟨gapOkL_sp, hp1.2.1, hp1.2.2.1, hp1.2.2.2⟩
        · exact h5 p (by simp [hp, hpm])
    | nil =>
      refine ⟨_, [], ?_, rfl, setArchs_append_node r ha hp a as t⟩
      exact (RelA.okL_iff _).2 ⟨h1, h2, h3, fun b hb => by
        simp only [Option.some.injEq] at hb; subst hb
        exact archBracket_okL _ (by rw [gapOkL_append, ht]; rfl) _ hv, h5⟩

theorem keeps_setArchitectures (as : List Str) (hv : ∀ x ∈ as, validArch x = true) :
    KeepsRel (setArchitectures · as) := by
  cases as with
  | nil => exact keeps_setArchs_nil
  | cons a as => exact keeps_setArchs_cons a as hv

theorem keeps_addProfile (g : List BuildProfile) (hv : ∀ p ∈ g, isIdent (profName p) = true) :
    KeepsRel (addProfile · g) := by
  apply keeps_of_node
  intro r t hr ht
  obtain ⟨h1, h2, h3, h4, h5⟩ := (RelA.okL_iff r).1 hr
  rcases List.eq_nil_or_concat r.profiles with hp | ⟨ps, pl, hp⟩
  · refine ⟨_, [], ?_, rfl, addProfile_append_node r hp g t⟩
    exact (RelA.okL_iff _).2 ⟨h1, h2, h3, h4, fun p hpm => by
      simp only [List.mem_singleton] at hpm; subst hpm
      exact profBracket_okL _ (by rw [gapOkL_append, ht]; rfl) _ hv⟩
  · rw [List.concat_eq_append] at hp
    refine ⟨_, t, ?_, ht, addProfile_after_node r ps pl hp g t⟩
    refine (RelA.okL_iff _).2 ⟨h1, h2, h3, h4, fun p hpm => ?_⟩
    simp only [List.mem_append, List.mem_singleton] at hpm
    rcases hpm with hpm | rfl
    · exact h5 p hpm
    · exact profBracket_okL sp gapOkL_sp _ hv

/-! ### what the constructors build -/

/-- the layout of the RELATION node `Relation::from(lossy)` builds -/
def builtLRel (r : Lossy.Relation) : LRel := ⟨canonRel r, []⟩

theorem builtLRel_node (r : Lossy.Relation) (h : validRS r = true) : (builtLRel r).node = toLossless r :=
  (toLossless_canon r h).symm

theorem builtLRel_ok (r : Lossy.Relation) (h : validRS r = true) : (builtLRel r).ok = true :=
  (LRel.ok_iff _).2 ⟨RelA.okL_of_ok _ (canonRel_ok r (validR_of_validRS h)), rfl⟩

/-- a built relation is an operand -/
theorem relOperand_built (r : Lossy.Relation) (h : validRS r = true) : RelOperand (toLossless r) :=
  ⟨builtLRel r, builtLRel_ok r h, (builtLRel_node r h).symm⟩

/-- a RELATION node of the parser is an operand -/
theorem relOperand_parsed (r : RelA) (hr : r.ok = true) (t : Gap) (ht : gapOk t = true) : RelOperand (r.node (gapToks t)) :=
  ⟨⟨r, t⟩, (LRel.ok_iff _).2 ⟨RelA.okL_of_ok r hr, gapOkL_of_ok t ht⟩, rfl⟩

/-- the layout of the ENTRY node `Entry::from(Vec<Relation>)` builds -/
def builtLEnt (r : Lossy.Relation) (rest : List Lossy.Relation) : LEnt :=
  ⟨builtLRel r, rest.map fun x => ⟨sp, sp, builtLRel x⟩, []⟩

theorem builtLEnt_node (r : Lossy.Relation) (rest : List Lossy.Relation) (h : ∀ x ∈ r :: rest, validRS x = true) :
    (builtLEnt r rest).node = entryFromLossy (r :: rest) := by
  rw [entryFromLossy_eq, List.map_cons, sepBy_singletons]
  simp only [LEnt.node, builtLEnt, LEnt.kids, builtLRel_node r (h r (by simp))]
  congr 2
  have hrest : ∀ x ∈ rest, validRS x = true := fun x hx => h x (by simp [hx])
  clear h
  induction rest with
  | nil => rfl
  | cons a as ih =>
    have := ih (fun x hx => hrest x (by simp [hx]))
    simp only [gapToks, List.map_nil, tks_nil, List.append_nil] at this ⊢
    rw [List.map_cons, altsKids_cons, List.map_cons, postOf_cons, this]
    simp [LAlt.nodes, builtLRel_node a (hrest a (by simp)), sepR, tks_sp', T, tk, pipeTok, sp, gapToks, GapPiece.tok, tks]

theorem builtLEnt_ok (r : Lossy.Relation) (rest : List Lossy.Relation) (h : ∀ x ∈ r :: rest, validRS x = true) :
    (builtLEnt r rest).ok = true := by
  refine (LEnt.ok_iff _).2 ⟨builtLRel_ok r (h r (by simp)), ?_, rfl⟩
  intro a ha
  simp only [builtLEnt, List.mem_map] at ha
  obtain ⟨x, hx, rfl⟩ := ha
  exact (LAlt.ok_iff _).2 ⟨gapOkL_sp, gapOkL_sp, builtLRel_ok x (h x (by simp [hx]))⟩

/-- a built entry is an operand -/
theorem entOperand_built (r : Lossy.Relation) (rest : List Lossy.Relation) (h : ∀ x ∈ r :: rest, validRS x = true) :
    EntOperand (entryFromLossy (r :: rest)) :=
  ⟨builtLEnt r rest, builtLEnt_ok r rest h, (builtLEnt_node r rest h).symm⟩

/-- an ENTRY node of the parser is an operand -/
theorem entOperand_parsed (r : RelA) (rest : List AltA) (post : Gap) (fl : Follow) (hr : r.ok = true)
    (hrest : ∀ a ∈ rest, a.ok = true) (hp : gapOk post = true) :
    EntOperand (Node.node .ENTRY (altsNodes r rest post fl).1) := by
  obtain ⟨o1, o2, o3, _⟩ := ofAlts_ok r rest post fl hr hrest hp
  refine ⟨⟨(ofAlts r rest post fl).1, (ofAlts r rest post fl).2.1, (ofAlts r rest post fl).2.2.1⟩,
    (LEnt.ok_iff _).2 ⟨o1, o2, o3⟩, ?_⟩
  rw [(ofAlts_kids r rest post fl).1]; rfl

/-- the layout of the field `Relations::from(Vec<Entry>)` builds -/
def builtSegs : List (List Lossy.Relation) → List LSeg
  | [] => []
  | e :: es =>
    (match e with | r :: rest => ⟨[], .ent (builtLEnt r rest), []⟩ | [] => ⟨[], .none, []⟩)
      :: es.map fun x => match x with | r :: rest => ⟨sp, .ent (builtLEnt r rest), []⟩ | [] => ⟨sp, .none, []⟩

theorem built_lkids_later (es : List (List Lossy.Relation)) (h : ∀ e ∈ es, e ≠ [] ∧ ∀ x ∈ e, validRS x = true) :
    postOf sepE (es.map entryFromLossy)
      = (if es.isEmpty then [] else tk commaTok :: lkids (es.map fun x => match x with
          | r :: rest => (⟨sp, .ent (builtLEnt r rest), []⟩ : LSeg) | [] => ⟨sp, .none, []⟩)) := by
  induction es with
  | nil => rfl
  | cons e es ih =>
    have ih' := ih (fun x hx => h x (by simp [hx]))
    obtain ⟨hne, hv⟩ := h e (by simp)
    cases e with
    | nil => exact absurd rfl hne
    | cons r rest =>
      rw [List.map_cons, postOf_cons, ih', List.map_cons, lkids_cons]
      simp only [List.isEmpty_cons, Bool.false_eq_true, ↓reduceIte, List.isEmpty_map]
      simp [LSeg.nodes, LItem.nodes, builtLEnt_node r rest hv, sepE, tks_sp', T, tk, commaTok, gapToks, sp, GapPiece.tok, tks]

/-- (2) the field the constructors build for a valid value is a layout -/
theorem lay_built (rs : List (List Lossy.Relation)) (hv : validRSs rs = true) (f : Field)
    (hf : f.kids = (built rs).children) : Lay f := by
  have hall : ∀ e ∈ rs, e ≠ [] ∧ ∀ x ∈ e, validRS x = true := by
    intro e he
    simp only [validRSs, List.all_eq_true, Bool.and_eq_true, Bool.not_eq_true'] at hv
    obtain ⟨h1, h2⟩ := hv e he
    exact ⟨by intro h; subst h; simp at h1, h2⟩
  refine ⟨builtSegs rs, ?_, ?_⟩
  · intro s hs
    cases rs with
    | nil => simp [builtSegs] at hs
    | cons e es =>
      simp only [builtSegs, List.mem_cons, List.mem_map] at hs
      rcases hs with rfl | ⟨x, hx, rfl⟩
      · obtain ⟨hne, hvx⟩ := hall e (by simp)
        cases e with
        | nil => exact absurd rfl hne
        | cons r rest => exact (LSeg.ok_iff _).2 ⟨rfl, rfl, builtLEnt_ok r rest hvx⟩
      · obtain ⟨hne, hvx⟩ := hall x (by simp [hx])
        cases x with
        | nil => exact absurd rfl hne
        | cons r rest => exact (LSeg.ok_iff _).2 ⟨gapOkL_sp, rfl, builtLEnt_ok r rest hvx⟩
  · rw [hf, built_children]
    cases rs with
    | nil => rfl
    | cons e es =>
      obtain ⟨hne, hvx⟩ := hall e (by simp)
      cases e with
      | nil => exact absurd rfl hne
      | cons r rest =>
        rw [List.map_cons, sepBy_singletons, built_lkids_later es (fun x hx => hall x (by simp [hx]))]
        simp only [builtSegs]
        rw [lkids_cons]
        simp [LSeg.nodes, LItem.nodes, builtLEnt_node r rest hvx, gapToks]

/-! ### histories -/

/-- the operands a call may take for the layout to be kept: names, versions, architectures and profile
    names that are valid, RELATION / ENTRY nodes that are layouts themselves (parsed and built ones are) -/
def IOp.lay : IOp → Prop
  | .setArchqual _ _ aq => isIdent aq = true
  | .setVersion _ _ vc => ∀ c v, vc = some (c, v) → validVersion v = true
  | .dropConstraint _ _ => True
  | .setArchitectures _ _ as => ∀ x ∈ as, validArch x = true
  | .addProfile _ _ g => ∀ x ∈ g, isIdent (profName x) = true
  | .entryPush _ rel => RelOperand rel
  | .entryReplace _ _ rel => RelOperand rel
  | .removeRelation _ _ => True
  | .insert _ e => EntOperand e
  | .push e => EntOperand e
  | .replace _ e => EntOperand e
  | .removeEntry _ => True

/-- (3) every call that returns keeps the layout -/
theorem lay_istep (f f' : Field) (hl : Lay f) (o : IOp) (ho : o.lay) (h : istep f o = .ok f') : Lay f' := by
  unfold istep at h
  cases hres : o.resolve f with
  | none => rw [hres] at h; cases h
  | some op =>
    rw [hres] at h
    have setter : ∀ (i j p q : Nat) (g : RNode → RNode), locate f i j = some (p, q) → KeepsRel g →
        Lay (f.relEdit p q g) := by
      intro i j p q g hloc hg
      obtain ⟨hp, hq⟩ := locate_some hloc
      exact lay_relEdit f hl i j p q hp hq g hg
    cases o with
    | setArchqual i j aq =>
      simp only [IOp.resolve, Option.map_eq_some_iff] at hres
      obtain ⟨⟨p, q⟩, hloc, rfl⟩ := hres
      simp only [step, Outcome.ok.injEq] at h; subst h
      exact setter i j p q _ hloc (keeps_setArchqual aq ho)
    | setVersion i j vc =>
      simp only [IOp.resolve, Option.map_eq_some_iff] at hres
      obtain ⟨⟨p, q⟩, hloc, rfl⟩ := hres
      simp only [step, Outcome.ok.injEq] at h; subst h
      exact setter i j p q _ hloc (keeps_setVersion vc ho)
    | dropConstraint i j =>
      simp only [IOp.resolve, Option.map_eq_some_iff] at hres
      obtain ⟨⟨p, q⟩, hloc, rfl⟩ := hres
      simp only [step, Outcome.ok.injEq] at h; subst h
      exact setter i j p q _ hloc keeps_dropConstraint
    | setArchitectures i j as =>
      simp only [IOp.resolve, Option.map_eq_some_iff] at hres
      obtain ⟨⟨p, q⟩, hloc, rfl⟩ := hres
      simp only [step, Outcome.ok.injEq] at h; subst h
      exact setter i j p q _ hloc (keeps_setArchitectures as ho)
    | addProfile i j g =>
      simp only [IOp.resolve, Option.map_eq_some_iff] at hres
      obtain ⟨⟨p, q⟩, hloc, rfl⟩ := hres
      simp only [step, Outcome.ok.injEq] at h; subst h
      exact setter i j p q _ hloc (keeps_addProfile g ho)
    | entryPush i rel =>
      simp only [IOp.resolve, Option.map_eq_some_iff] at hres
      obtain ⟨p, hp, rfl⟩ := hres
      simp only [step, Outcome.ok.injEq] at h; subst h
      exact lay_entryPushAt f hl i p hp rel ho
    | entryReplace i j rel =>
      simp only [IOp.resolve, Option.map_eq_some_iff] at hres
      obtain ⟨p, hp, rfl⟩ := hres
      simp only [step] at h
      cases hq : nthNode .RELATION (f.entryKids p) j with
      | none => simp [Field.entryReplaceAt, hq] at h
      | some q =>
        obtain ⟨f'', h1, h2⟩ := lay_entryReplaceAt f hl i j p q hp hq rel ho
        rw [h1] at h; simp only [Outcome.ok.injEq] at h; subst h; exact h2
    | removeRelation i j =>
      simp only [IOp.resolve, Option.some.injEq] at hres; subst hres
      simp only [step, Field.removeRelation] at h
      cases hp : nthNode .ENTRY f.kids i with
      | none => rw [hp] at h; cases h
      | some p =>
        rw [hp] at h
        simp only at h
        cases hq : nthNode .RELATION (f.entryKids p) j with
        | none => rw [hq] at h; cases h
        | some q =>
          rw [hq] at h
          obtain ⟨f'', h1, h2⟩ := lay_removeRelationAt f hl i j p q hp hq
          simp only at h
          rw [h1] at h; simp only [Outcome.ok.injEq] at h; subst h; exact h2
    | insert i e =>
      simp only [IOp.resolve, Option.some.injEq] at hres; subst hres
      simp only [step, Outcome.ok.injEq] at h; subst h
      exact lay_insert f hl i e ho
    | push e =>
      simp only [IOp.resolve, Option.some.injEq] at hres; subst hres
      simp only [step, Outcome.ok.injEq] at h; subst h
      exact lay_push f hl e ho
    | replace i e =>
      simp only [IOp.resolve, Option.some.injEq] at hres; subst hres
      simp only [step] at h
      exact lay_replace f f' hl i e ho h
    | removeEntry i =>
      simp only [IOp.resolve, Option.some.injEq] at hres; subst hres
      simp only [step, Field.removeEntry] at h
      cases hp : nthNode .ENTRY f.kids i with
      | none => rw [hp] at h; cases h
      | some p =>
        rw [hp] at h
        obtain ⟨f'', h1, h2⟩ := lay_removeEntryAt f hl i p hp
        simp only at h
        rw [h1] at h; simp only [Outcome.ok.injEq] at h; subst h; exact h2

theorem lay_irun (f f' : Field) (hl : Lay f) (os : List IOp) (ho : ∀ o ∈ os, o.lay) (h : irun f os = .ok f') : Lay f' := by
  induction os generalizing f with
  | nil => simp only [irun, Outcome.ok.injEq] at h; subst h; exact hl
  | cons o os ih =>
    simp only [irun] at h
    cases hs : istep f o with
    | panic m => rw [hs] at h; cases h
    | ok f1 =>
      rw [hs] at h
      exact ih f1 (lay_istep f f1 hl o (ho o (by simp)) hs) (fun x hx => ho x (by simp [hx])) h

/-! ### calls through live handles -/

/-- a call addressed by handle position: the position holds a node of the handle's kind (what `HOk`
    says of every live handle), and the operands are valid -/
def Op.layH (f : Field) : Op → Prop
  | .setArchqual p q aq => ROk f (.at p q) ∧ isIdent aq = true
  | .setVersion p q vc => ROk f (.at p q) ∧ ∀ c v, vc = some (c, v) → validVersion v = true
  | .dropConstraint p q => ROk f (.at p q)
  | .setArchitectures p q as => ROk f (.at p q) ∧ ∀ x ∈ as, validArch x = true
  | .addProfile p q g => ROk f (.at p q) ∧ ∀ x ∈ g, isIdent (profName x) = true
  | .entryPush p rel => EOk f (.at p) ∧ RelOperand rel
  | .entryReplace p _ rel => EOk f (.at p) ∧ RelOperand rel
  | .removeRelationAt p q => ROk f (.at p q)
  | .removeRelation _ _ => True
  | .insert _ e => EntOperand e
  | .push e => EntOperand e
  | .replace _ e => EntOperand e
  | .removeEntry _ => True
  | .removeEntryAt p => EOk f (.at p)

theorem rok_addr {f : Field} {p q : Nat} (h : ROk f (.at p q)) :
    ∃ i j, nthNode .ENTRY f.kids i = some p ∧ nthNode .RELATION (f.entryKids p) j = some q := by
  obtain ⟨e, r, he, hent, hr, hrel⟩ := h
  obtain ⟨_, _, h1, _⟩ := entry_handle_reads f p ⟨e, he, hent⟩
  obtain ⟨_, _, _, _, h2, _⟩ := rel_handle_reads f p q ⟨e, r, he, hent, hr, hrel⟩
  exact ⟨_, _, h1, h2⟩

theorem eok_addr {f : Field} {p : Nat} (h : EOk f (.at p)) : ∃ i, nthNode .ENTRY f.kids i = some p := by
  obtain ⟨_, _, h1, _⟩ := entry_handle_reads f p h
  exact ⟨_, h1⟩

/-- (3) for calls made through live handles -/
theorem lay_step (f f' : Field) (hl : Lay f) (op : Op) (ho : op.layH f) (h : step f op = .ok f') : Lay f' := by
  have setter : ∀ (p q : Nat) (g : RNode → RNode), ROk f (.at p q) → KeepsRel g → Lay (f.relEdit p q g) := by
    intro p q g hr hg
    obtain ⟨i, j, hp, hq⟩ := rok_addr hr
    exact lay_relEdit f hl i j p q hp hq g hg
  cases op with
  | setArchqual p q aq =>
    simp only [step, Outcome.ok.injEq] at h; subst h
    exact setter p q _ ho.1 (keeps_setArchqual aq ho.2)
  | setVersion p q vc =>
    simp only [step, Outcome.ok.injEq] at h; subst h
    exact setter p q _ ho.1 (keeps_setVersion vc ho.2)
  | dropConstraint p q =>
    simp only [step, Outcome.ok.injEq] at h; subst h
    exact setter p q _ ho keeps_dropConstraint
  | setArchitectures p q as =>
    simp only [step, Outcome.ok.injEq] at h; subst h
    exact setter p q _ ho.1 (keeps_setArchitectures as ho.2)
  | addProfile p q g =>
    simp only [step, Outcome.ok.injEq] at h; subst h
    exact setter p q _ ho.1 (keeps_addProfile g ho.2)
  | entryPush p rel =>
    simp only [step, Outcome.ok.injEq] at h; subst h
    obtain ⟨i, hp⟩ := eok_addr ho.1
    exact lay_entryPushAt f hl i p hp rel ho.2
  | entryReplace p j rel =>
    simp only [step] at h
    obtain ⟨i, hp⟩ := eok_addr ho.1
    cases hq : nthNode .RELATION (f.entryKids p) j with
    | none => simp [Field.entryReplaceAt, hq] at h
    | some q =>
      obtain ⟨f'', h1, h2⟩ := lay_entryReplaceAt f hl i j p q hp hq rel ho.2
      rw [h1] at h; simp only [Outcome.ok.injEq] at h; subst h; exact h2
  | removeRelationAt p q =>
    simp only [step] at h
    obtain ⟨i, j, hp, hq⟩ := rok_addr ho
    obtain ⟨f'', h1, h2⟩ := lay_removeRelationAt f hl i j p q hp hq
    rw [h1] at h; simp only [Outcome.ok.injEq] at h; subst h; exact h2
  | removeRelation i j =>
    exact lay_istep f f' hl (.removeRelation i j) trivial (by simpa [istep, IOp.resolve] using h)
  | insert i e =>
    simp only [step, Outcome.ok.injEq] at h; subst h
    exact lay_insert f hl i e ho
  | push e =>
    simp only [step, Outcome.ok.injEq] at h; subst h
    exact lay_push f hl e ho
  | replace i e =>
    simp only [step] at h
    exact lay_replace f f' hl i e ho h
  | removeEntry i =>
    exact lay_istep f f' hl (.removeEntry i) trivial (by simpa [istep, IOp.resolve] using h)
  | removeEntryAt p =>
    simp only [step] at h
    obtain ⟨i, hp⟩ := eok_addr ho
    obtain ⟨f'', h1, h2⟩ := lay_removeEntryAt f hl i p hp
    rw [h1] at h; simp only [Outcome.ok.injEq] at h; subst h; exact h2

/-- every call of the history is made on a live handle position / with valid operands at its time -/
def laysH (f : Field) : List Op → Prop
  | [] => True
  | op :: ops => op.layH f ∧ ∀ f1, step f op = .ok f1 → laysH f1 ops

theorem lay_run (f f' : Field) (hl : Lay f) (ops : List Op) (ho : laysH f ops) (h : run f ops = .ok f') : Lay f' := by
  induction ops generalizing f with
  | nil => simp only [run, Outcome.ok.injEq] at h; subst h; exact hl
  | cons op ops ih =>
    simp only [run] at h
    cases hs : step f op with
    | panic m => rw [hs] at h; cases h
    | ok f1 =>
      rw [hs] at h
      exact ih f1 (lay_step f f1 hl op ho.1 hs) (ho.2 f1 hs) h

/-! ### re-reading a layout -/

/-- no substitution variable among the items -/
def noSubst (s : FieldS) : Bool := s.all ItemS.isAlts

theorem hasSubstvar_items (a : FieldA) : a.hasSubstvar = !(noSubst (itemsA a)) := by
  cases a with
  | mk segs =>
    induction segs with
    | nil => rfl
    | cons s ss ih =>
      have e : itemsA ⟨s :: ss⟩ = (itemA s).toList ++ itemsA ⟨ss⟩ := itemsA_cons s ss
      simp only [FieldA.hasSubstvar, List.any_cons] at ih ⊢
      rw [e, ih]
      cases he : s.entry <;> simp [itemA, he, EntryA.isSubstvar, noSubst, ItemS.isAlts]

/-- (4) a layout prints a well-formed field; reading that text again (substitution variables allowed, or
    none present) reports no error and gives the list model of the tree -/
theorem lay_rereads (f : Field) (hl : Lay f) :
    ∃ a : FieldA, a.WF ∧ f.root.text = a.str ∧ abs f.root = itemsA a
      ∧ ∀ allow : Bool, allow = true ∨ noSubst (abs f.root) = true →
          (readRelaxed f.root.text allow).2 = [] ∧ abs (readRelaxed f.root.text allow).1 = abs f.root := by
  obtain ⟨l, hok, hk⟩ := hl
  obtain ⟨hwf, ht, ha⟩ := lay_reads l hok
  have habs : abs f.root = itemsA (layA l) := by
    show absKids f.kids = _
    rw [hk]; exact ha
  refine ⟨layA l, hwf, by rw [root_text, hk]; exact ht, habs, ?_⟩
  intro allow hallow
  have hsub : allow = true ∨ (layA l).hasSubstvar = false := by
    rcases hallow with h | h
    · exact Or.inl h
    · right; rw [hasSubstvar_items, ← habs, h]; rfl
  obtain ⟨herr, hre⟩ := reread_finish (layA l) hwf allow hsub f.root.text (by rw [root_text, hk]; exact ht)
  exact ⟨herr, by rw [hre, habs]⟩

/-- without substitution variables the strict reader accepts the text -/
theorem lay_strict (f : Field) (hl : Lay f) (hs : noSubst (abs f.root) = true) :
    ∃ t, readStrict f.root.text = .ok t ∧ abs t = abs f.root := by
  obtain ⟨l, hok, hk⟩ := hl
  obtain ⟨hwf, ht, ha⟩ := lay_reads l hok
  have habs : abs f.root = itemsA (layA l) := by
    show absKids f.kids = _
    rw [hk]; exact ha
  have hsub : (layA l).hasSubstvar = false := by rw [hasSubstvar_items, ← habs, hs]; rfl
  refine ⟨(layA l).tree, ?_, ?_⟩
  · rw [root_text, hk, ht]; exact C10_strict (layA l) hwf hsub
  · rw [abs_tree _ hwf, habs]

end Deb822Verif.Rel.Edit
