import Deb822Verif.Lemmas.DebEditDoc
/-!
  Edited documents whose ROOT holds bare tokens (the live result of `Deb822::wrap_and_sort`).

  `Lemmas/DebEditDoc.lean` describes a document under edit as a list of units `EUnit` — one NODE per
  unit. `deb822Wrap` (Model/DebWrap.lean) re-emits the free-standing comment lines as bare
  `COMMENT` / `NEWLINE` tokens under the root, and supplies the terminator of an unterminated
  paragraph as a bare `NEWLINE` token BEHIND the paragraph node. Here:

  * `RUnit` — one unit per root child, nodes (`gap`, `para`) and tokens (`ctok`, `nltok`);
  * `RT` — the layout invariant, a little automaton over the children (state `St`: between
    paragraphs / behind a bare comment token / inside the lines of a paragraph, open or terminated);
    `RInv` = valid lines + `RT`;
  * every edit of `Model/DebEdit.lean` maps `RInv` lists to `RInv` lists (sections "operations");
  * `flat` — the node-only unit list (`EUnit`) printing the same text with the same paragraphs: a
    paragraph absorbs the bare comment lines behind it (that is how a reader sees them), the other
    bare lines become `Gap`s; `RInv us → UWF (flat us)`, so the erasure of `DebEditDoc` applies.
-/
namespace Deb822Verif.Spec
open Deb822Verif Deb Node

/-! ### units -/

inductive RUnit
  | gap (g : Gap)
  | para (b : List LItem)
  /-- a bare COMMENT token `#t` under the root -/
  | ctok (t : Str)
  /-- a bare NEWLINE token under the root -/
  | nltok
  deriving Repr, DecidableEq

def RUnit.node : RUnit → DNode
  | .gap g => g.node
  | .para b => .node .PARAGRAPH (lnodes b)
  | .ctok t => .tok .COMMENT ('#' :: t)
  | .nltok => .tok .NEWLINE ['\n']

def rkids (us : List RUnit) : List DNode := us.map RUnit.node

/-- the paragraph's text lacks its final line terminator -/
def needsB (b : List LItem) : Bool := needsNl (lnodes b)

def RUnit.WF : RUnit → Prop
  | .gap g => g.WF
  | .para b => (∀ i ∈ toPs b, i.WF) ∧ itemsTerm (toPs b) false
  | .ctok t => NoNl t
  | .nltok => True

instance (u : RUnit) : Decidable u.WF :=
  match u with
  | .gap g => show Decidable g.WF from inferInstance
  | .para b => show Decidable ((∀ i ∈ toPs b, i.WF) ∧ itemsTerm (toPs b) false) from inferInstance
  | .ctok t => show Decidable (NoNl t) from inferInstance
  | .nltok => show Decidable True from inferInstance

/-! ### the layout automaton -/

/-- where the text printed so far ends: `g` — between paragraphs (start of the document, behind a
    blank / comment line); `c` — behind a bare comment token between paragraphs, its line not yet
    terminated; `p op` — inside a paragraph (its fields, the bare comment lines behind it), the
    last line terminated (`op = false`) or not -/
inductive St
  | g
  | c
  | p (op : Bool)
  deriving Repr, DecidableEq

def St.next : St → RUnit → St
  | _, .gap _ => .g
  | _, .para b => .p (needsB b)
  | .g, .ctok _ => .c
  | .c, .ctok _ => .c
  | .p _, .ctok _ => .p true
  | .g, .nltok => .g
  | .c, .nltok => .g
  | .p true, .nltok => .p false
  | .p false, .nltok => .g

/-- may unit `x` stand here (`last`: nothing at all follows it) -/
def St.ok : St → RUnit → Bool → Prop
  | s, .gap gp, last =>
    (s = .g ∨ (s = .p false ∧ gp = .blank)) ∧
      (match gp with
       | .blank => True
       | .comment _ nl => nl = true ∨ last = true)
  | s, .para _, _ => s = .g
  | s, .ctok _, _ => s = .g ∨ s = .p false
  | _, .nltok, _ => True

instance (s : St) (x : RUnit) (l : Bool) : Decidable (s.ok x l) :=
  match x with
  | .gap .blank =>
    show Decidable ((s = .g ∨ (s = .p false ∧ Gap.blank = .blank)) ∧ True) from inferInstance
  | .gap (.comment t nl) =>
    show Decidable ((s = .g ∨ (s = .p false ∧ Gap.comment t nl = .blank)) ∧ (nl = true ∨ l = true)) from
      inferInstance
  | .para _ => show Decidable (s = .g) from inferInstance
  | .ctok _ => show Decidable (s = .g ∨ s = .p false) from inferInstance
  | .nltok => show Decidable True from inferInstance

/-- the layout invariant from state `s`; `t`: nothing follows the list -/
def RT : St → List RUnit → Bool → Prop
  | _, [], _ => True
  | s, x :: us, t => s.ok x (us.isEmpty && t) ∧ RT (s.next x) us t

instance RTDec : (s : St) → (us : List RUnit) → (t : Bool) → Decidable (RT s us t)
  | _, [], _ => isTrue trivial
  | s, x :: us, t =>
    have := RTDec (s.next x) us t
    show Decidable (s.ok x (us.isEmpty && t) ∧ RT (s.next x) us t) from inferInstance

/-- **the invariant**: valid lines, valid layout -/
structure RInv (us : List RUnit) : Prop where
  ok : ∀ u ∈ us, u.WF
  term : RT .g us true

theorem rinv_iff (us : List RUnit) : RInv us ↔ ((∀ u ∈ us, u.WF) ∧ RT .g us true) :=
  ⟨fun h => ⟨h.ok, h.term⟩, fun h => ⟨h.1, h.2⟩⟩
instance (us : List RUnit) : Decidable (RInv us) := decidable_of_iff _ (rinv_iff us).symm

theorem RT_append (A B : List RUnit) (t : Bool) : ∀ s : St,
    RT s (A ++ B) t ↔ RT s A (B.isEmpty && t) ∧ RT (A.foldl St.next s) B t := by
  induction A with
  | nil => intro s; simp [RT]
  | cons x A ih =>
    intro s
    simp only [List.cons_append, RT, List.foldl_cons, ih]
    have : ((A ++ B).isEmpty && t) = (A.isEmpty && (B.isEmpty && t)) := by
      cases A <;> simp
    rw [this]
    constructor
    · rintro ⟨h1, h2, h3⟩; exact ⟨⟨h1, h2⟩, h3⟩
    · rintro ⟨⟨h1, h2⟩, h3⟩; exact ⟨h1, h2, h3⟩

/-- `s ≤ s'`: whatever may follow in state `s` may follow in state `s'` -/
def St.le : St → St → Prop
  | .p _, .g => True
  | .p true, .c => True
  | .p true, .p false => True
  | s, s' => s = s'

theorem St.le_refl (s : St) : s.le s := by cases s <;> simp [St.le]


theorem St.ok_mono (s s' : St) (x : RUnit) (l l' : Bool) (h : s.le s') (hl : l = true → l' = true)
    (hok : s.ok x l) : s'.ok x l' := by
  cases x with
  | gap g =>
    obtain ⟨h1, h2⟩ := hok
    constructor
    · rcases h1 with rfl | ⟨rfl, rfl⟩
      · cases s' <;> simp_all [St.le]
      · cases s' with
        | g => exact Or.inl rfl
        | c => simp [St.le] at h
        | p op => simp [St.le] at h; subst h; exact Or.inr ⟨rfl, rfl⟩
    · cases g with
      | blank => trivial
      | comment t nl =>
        rcases h2 with h2 | h2
        · exact Or.inl h2
        · exact Or.inr (hl h2)
  | para b =>
    simp only [St.ok] at hok ⊢
    subst hok
    cases s' <;> simp_all [St.le]
  | ctok t =>
    simp only [St.ok] at hok ⊢
    rcases hok with rfl | rfl
    · cases s' <;> simp_all [St.le]
    · cases s' with
      | g => exact Or.inl rfl
      | c => simp [St.le] at h
      | p op => simp [St.le] at h; subst h; exact Or.inr rfl
  | nltok => trivial

theorem St.next_mono (s s' : St) (x : RUnit) (l : Bool) (h : s.le s') (hok : s.ok x l) :
    (s.next x).le (s'.next x) := by
  cases x with
  | gap g => simp [St.next, St.le]
  | para b => simp only [St.next]; exact St.le_refl _
  | ctok t =>
    simp only [St.ok] at hok
    rcases hok with rfl | rfl
    · cases s' <;> simp_all [St.le, St.next]
    · cases s' with
      | g => simp [St.next, St.le]
      | c => simp [St.le] at h
      | p op => simp [St.le] at h; subst h; simp [St.next, St.le]
  | nltok =>
    cases s with
    | g => cases s' <;> simp_all [St.le, St.next]
    | c => cases s' <;> simp_all [St.le, St.next]
    | p op =>
      cases op <;> cases s' with
      | g => simp [St.next, St.le]
      | c => simp_all [St.le, St.next]
      | p op' => cases op' <;> simp_all [St.le, St.next]

theorem RT_mono (us : List RUnit) : ∀ (s s' : St) (t t' : Bool), s.le s' → (t = true → t' = true) →
    RT s us t → RT s' us t' := by
  induction us with
  | nil => intro _ _ _ _ _ _ _; trivial
  | cons x us ih =>
    intro s s' t t' h ht hrt
    obtain ⟨h1, h2⟩ := hrt
    refine ⟨St.ok_mono s s' x _ _ h ?_ h1, ih _ _ t t' (St.next_mono s s' x _ h h1) ht h2⟩
    intro hl
    simp only [Bool.and_eq_true] at hl ⊢
    exact ⟨hl.1, ht hl.2⟩


/-! ### an open paragraph is one whose last line lacks the terminator -/

theorem conts_term_len (cs : List ContS) :
    ((cs.map ContS.str).flatten).length ≤ (((cs.map ContS.term).map ContS.str).flatten).length ∧
    ((((cs.map ContS.term).map ContS.str).flatten).length = ((cs.map ContS.str).flatten).length →
      ∀ c ∈ cs, c.nl = true) := by
  induction cs with
  | nil => simp
  | cons c cs ih =>
    obtain ⟨ih1, ih2⟩ := ih
    simp only [List.map_cons, List.flatten_cons, List.length_append]
    have hc : c.str.length ≤ c.term.str.length ∧ (c.term.str.length = c.str.length → c.nl = true) := by
      cases hnl : c.nl <;> simp [ContS.str, ContS.term, nlText, hnl]
    refine ⟨by omega, ?_⟩
    intro he x hx
    simp only [List.mem_cons] at hx
    rcases hx with rfl | hx
    · exact hc.2 (by omega)
    · exact ih2 (by omega) x hx

theorem entry_term_len (e : EntryS) :
    e.str.length ≤ e.termE.str.length ∧ (e.termE.str.length = e.str.length → e.AllNl) := by
  obtain ⟨h1, h2⟩ := conts_term_len e.conts
  have hs : ∀ (nl : Bool) (cs : List ContS), (EntryS.str ⟨e.key, e.ws, e.v, nl, cs⟩).length =
      e.key.length + 1 + e.ws.length + e.v.length + (nlText nl).length + ((cs.map ContS.str).flatten).length := by
    intro nl cs; simp [EntryS.str]; omega
  have e1 : e.str = EntryS.str ⟨e.key, e.ws, e.v, e.nl, e.conts⟩ := rfl
  have e2 : e.termE.str = EntryS.str ⟨e.key, e.ws, e.v, true, e.conts.map ContS.term⟩ := rfl
  rw [e1, e2, hs, hs]
  generalize ((e.conts.map ContS.str).flatten).length = A at h1 h2 ⊢
  generalize (((e.conts.map ContS.term).map ContS.str).flatten).length = B at h1 h2 ⊢
  cases hnl : e.nl
  · simp only [nlText, Bool.false_eq_true, ↓reduceIte, List.length_nil, List.length_cons]
    exact ⟨by omega, fun he => by omega⟩
  · simp only [nlText, ↓reduceIte, List.length_nil, List.length_cons]
    exact ⟨by omega, fun he => ⟨hnl, h2 (by omega)⟩⟩

theorem item_term_len (i : LItem) :
    i.toP.str.length ≤ i.term.toP.str.length ∧ (i.term.toP.str.length = i.toP.str.length → i.toP.AllNl) := by
  cases i with
  | comment t nl => cases nl <;> simp [LItem.term, LItem.toP, PItem.str, nlText, PItem.AllNl]
  | entry e => exact entry_term_len e
  | bare k => exact ⟨Nat.le_refl _, fun _ => ⟨rfl, by simp [bareS]⟩⟩

theorem body_term_len (b : List LItem) :
    (bodyStr b).length ≤ (bodyStr (b.map LItem.term)).length ∧
    ((bodyStr (b.map LItem.term)).length = (bodyStr b).length → ∀ i ∈ toPs b, i.AllNl) := by
  induction b with
  | nil => simp [bodyStr, toPs]
  | cons i is ih =>
    obtain ⟨ih1, ih2⟩ := ih
    obtain ⟨h1, h2⟩ := item_term_len i
    simp only [List.map_cons, bodyStr_cons, List.length_append]
    refine ⟨by omega, ?_⟩
    intro he x hx
    simp only [toPs_cons, List.mem_cons] at hx
    rcases hx with rfl | hx
    · exact h2 (by omega)
    · exact ih2 (by omega) x hx

/-- a body that needs no terminator is fully terminated -/
theorem allNl_of_not_needsB (b : List LItem) (h : itemsTerm (toPs b) false) (hn : needsB b = false) :
    ∀ i ∈ toPs b, i.AllNl := by
  have h1 := terminateLastLine_lnodes b h
  rw [terminateLastLine_of_not_needs _ hn] at h1
  have h2 := congrArg textList h1
  rw [textList_lnodes, textList_lnodes] at h2
  exact (body_term_len b).2 (by rw [← h2])

theorem needsB_false_iff (b : List LItem) (h : itemsTerm (toPs b) false) :
    needsB b = false ↔ itemsTerm (toPs b) true :=
  ⟨fun hn => itemsTerm_of_allNl _ _ (allNl_of_not_needsB b h hn),
   fun ht => needsNl_lnodes_allNl b (allNl_of_itemsTerm _ ht)⟩

theorem needsB_nil : needsB [] = false := needsNl_nil0

theorem needsB_term (b : List LItem) : needsB (b.map LItem.term) = false :=
  needsNl_lnodes_allNl _ (body_term_allNl b)

/-- the text of a body whose last line gets terminated -/
theorem bodyStr_term (b : List LItem) (h : itemsTerm (toPs b) false) :
    bodyStr (b.map LItem.term) = bodyStr b ++ (if needsB b then ['\n'] else []) := by
  rw [← textList_lnodes, ← terminateLastLine_lnodes b h, textList_terminateLastLine, textList_lnodes]
  rfl

/-- a field edit never opens a terminated paragraph -/
theorem BodyOp.needsB_mono {f g} (hop : BodyOp f g) (b : List LItem) (h : itemsTerm (toPs b) false)
    (hn : needsB (g b) = true) : needsB b = true := by
  cases hb : needsB b with
  | true => rfl
  | false =>
    have h1 := (needsB_false_iff b h).1 hb
    have h2 := hop.term b true h1
    have h3 := (needsB_false_iff (g b) (itemsTerm_mono _ _ _ (by simp) h2)).2 h2
    rw [h3] at hn; exact absurd hn (by simp)


/-! ### what the model's primitives see of a unit -/

theorem isParaNode_runit (u : RUnit) : isParaNode u.node = true ↔ ∃ b, u = .para b := by
  cases u with
  | gap g => simp [isParaNode, RUnit.node, Gap.node, Node.isNode, Node.kind]
  | para b => simp [isParaNode, RUnit.node, Node.isNode, Node.kind]
  | ctok t => simp [isParaNode, RUnit.node, Node.isNode]
  | nltok => simp [isParaNode, RUnit.node, Node.isNode]

theorem runit_of_para_node (u : RUnit) (cs : List DNode) (h : u.node = .node .PARAGRAPH cs) :
    ∃ b, u = .para b ∧ cs = lnodes b := by
  cases u with
  | gap g => simp [RUnit.node, Gap.node] at h
  | para b => simp only [RUnit.node, Node.node.injEq, true_and] at h; exact ⟨b, rfl, h.symm⟩
  | ctok t => simp [RUnit.node] at h
  | nltok => simp [RUnit.node] at h

theorem isEmptyLine_runit (u : RUnit) :
    (u.node.isNode && u.node.kind == .EMPTY_LINE) = true ↔ ∃ g, u = .gap g := by
  cases u with
  | gap g => simp [RUnit.node, Gap.node, Node.isNode, Node.kind]
  | para b => simp [RUnit.node, Node.isNode, Node.kind]
  | ctok t => simp [RUnit.node, Node.isNode]
  | nltok => simp [RUnit.node, Node.isNode]

def RUnit.isNodeU : RUnit → Bool
  | .gap _ => true
  | .para _ => true
  | _ => false

theorem isNode_runit (u : RUnit) : u.node.isNode = u.isNodeU := by
  cases u <;> simp [RUnit.node, Gap.node, Node.isNode, RUnit.isNodeU]

theorem filter_isNode_runits (us : List RUnit) :
    ((rkids us).filter Node.isNode).length = (us.filter RUnit.isNodeU).length := by
  induction us with
  | nil => rfl
  | cons u us ih =>
    simp only [rkids, List.map_cons, List.filter_cons, isNode_runit] at ih ⊢
    split <;> simp [ih]

theorem convertIndex_runits (us : List RUnit) (idx p : Nat) (h : convertIndex (rkids us) idx = some p) :
    ∃ b, us[p]? = some (.para b) := by
  obtain ⟨q, c, h1, h2, h3⟩ := convertIndexAux_para _ _ _ _ h
  simp only [Nat.zero_add] at h1; subst h1
  simp only [rkids, List.getElem?_map, Option.map_eq_some_iff] at h2
  obtain ⟨u, hu, rfl⟩ := h2
  obtain ⟨b, rfl⟩ := (isParaNode_runit u).1 h3
  exact ⟨b, hu⟩

theorem rkids_append (a b : List RUnit) : rkids (a ++ b) = rkids a ++ rkids b := by simp [rkids]

/-! ### a field edit through a paragraph handle -/

/-- **a field edit through a paragraph handle keeps the invariant** -/
theorem onPara_runits (f : List DNode → List DNode) (g : List LItem → List LItem) (hop : BodyOp f g)
    (us : List RUnit) (hu : RInv us) (d : Doc) (hd : d.kids = rkids us) (h : Nat) :
    ∃ us', (d.onPara h f).kids = rkids us' ∧ RInv us' := by
  unfold Doc.onPara
  split
  · rename_i i hi
    split
    · rename_i cs hk
      rw [hd] at hk
      simp only [rkids, List.getElem?_map, Option.map_eq_some_iff] at hk
      obtain ⟨u, hu1, hu2⟩ := hk
      obtain ⟨b, rfl, rfl⟩ := runit_of_para_node u cs hu2
      obtain ⟨hsplit, hlen⟩ := split_at us i _ hu1
      obtain ⟨hwfb, htb⟩ : (RUnit.para b).WF := hu.ok (.para b) (List.mem_of_getElem? hu1)
      have hterm := hu.term
      rw [hsplit, RT_append] at hterm
      obtain ⟨ht1, ht2, ht3⟩ := hterm
      refine ⟨us.take i ++ .para (g b) :: us.drop (i + 1), ?_, ?_, ?_⟩
      · simp only [hd]
        rw [hop.tree b htb hwfb]
        conv => lhs; rw [hsplit]
        simp only [rkids, List.map_append, List.map_cons, RUnit.node]
        have hlt : i < us.length := (List.getElem?_eq_some_iff.mp hu1).1
        rw [List.set_append_right _ _ (by simp; omega)]
        have h0 : i - min i us.length = 0 := by omega
        simp [h0]
      · intro x hx
        simp only [List.mem_append, List.mem_cons] at hx
        rcases hx with hx | rfl | hx
        · exact hu.ok x (List.mem_of_mem_take hx)
        · exact ⟨hop.wf b hwfb, hop.term b _ htb⟩
        · exact hu.ok x (List.mem_of_mem_drop hx)
      · rw [RT_append]
        refine ⟨ht1, ht2, ?_⟩
        simp only [St.next] at ht3 ⊢
        apply RT_mono _ _ _ _ _ _ (fun h => h) ht3
        cases h1 : needsB b <;> cases h2 : needsB (g b) <;> simp [St.le]
        exact absurd (hop.needsB_mono b htb h2) (by simp [h1])
    · exact ⟨us, hd, hu⟩
  · exact ⟨us, hd, hu⟩


/-! ### `insert_paragraph(i)` at an existing position -/

theorem emptyLine_eq_runit : emptyLine = (RUnit.gap .blank).node := rfl

theorem para_node_count (us : List RUnit) (p : Nat) (b : List LItem) (hp : us[p]? = some (.para b)) :
    ((rkids us).filter Node.isNode).length > 0 := by
  rw [filter_isNode_runits]
  apply List.length_pos_of_mem (a := RUnit.para b)
  exact List.mem_filter.2 ⟨List.mem_of_getElem? hp, rfl⟩

/-- **`insert_paragraph(i)` at an existing position keeps the invariant**: the new (empty) paragraph
    and a blank line are put in front of the i-th paragraph -/
theorem insertAt_runits (us : List RUnit) (hu : RInv us) (d : Doc) (hd : d.kids = rkids us)
    (p : Nat) (b : List LItem) (hp : us[p]? = some (.para b)) :
    (insertEmptyParagraph d (some p)).kids =
        rkids (us.take p ++ [.para [], .gap .blank] ++ us.drop p)
      ∧ RInv (us.take p ++ [.para [], .gap .blank] ++ us.drop p) := by
  obtain ⟨hsplit, hlen⟩ := split_at us p _ hp
  have hlt : p < us.length := (List.getElem?_eq_some_iff.mp hp).1
  have hdrop : us.drop p = .para b :: us.drop (p + 1) := by
    rw [List.drop_eq_getElem_cons hlt]
    have := (List.getElem?_eq_some_iff.mp hp).2
    rw [this]
  constructor
  · have hpos := para_node_count us p b hp
    simp only [insertEmptyParagraph, insertAt, hd, hpos, ↓reduceIte, emptyLine_eq_runit]
    simp [rkids, List.map_take, List.map_drop, RUnit.node, lnodes]
  · have hterm := hu.term
    rw [hsplit, RT_append] at hterm
    obtain ⟨ht1, ht2, ht3⟩ := hterm
    have hsA : List.foldl St.next St.g (us.take p) = .g := ht2
    constructor
    · intro x hx
      simp only [List.mem_append, List.mem_cons, List.not_mem_nil, or_false] at hx
      rcases hx with (hx | rfl | rfl) | hx
      · exact hu.ok x (List.mem_of_mem_take hx)
      · exact ⟨by intro i hi; simp [toPs] at hi, by simp [toPs, itemsTerm]⟩
      · trivial
      · exact hu.ok x (List.mem_of_mem_drop hx)
    · rw [hdrop, List.append_assoc, RT_append]
      refine ⟨by simpa using ht1, ?_⟩
      have h3 : RT St.g (RUnit.para b :: us.drop (p + 1)) true := by
        rw [hsA] at ht3; exact ⟨rfl, ht3⟩
      rw [hsA]
      exact ⟨rfl, ⟨Or.inr ⟨by simp [St.next, needsB_nil], rfl⟩, trivial⟩, h3⟩

/-! ### terminating the document's last line -/

def St.clean : St → Bool
  | .g => true
  | .p false => true
  | _ => false

def Gap.termG : Gap → Gap
  | .blank => .blank
  | .comment t _ => .comment t true

/-- the last unit with its line terminated -/
def RUnit.termU : RUnit → List RUnit
  | .gap g => [.gap g.termG]
  | .para b => [.para (b.map LItem.term)]
  | .ctok t => [.ctok t, .nltok]
  | .nltok => [.nltok]

def termLastU : List RUnit → List RUnit
  | [] => []
  | [x] => x.termU
  | x :: y :: us => x :: termLastU (y :: us)

theorem termLastU_snoc (U : List RUnit) (x : RUnit) : termLastU (U ++ [x]) = U ++ x.termU := by
  induction U with
  | nil => rfl
  | cons u U ih =>
    cases U with
    | nil => simp only [List.cons_append, List.nil_append] at ih ⊢; rw [termLastU, ih]
    | cons v U => simp only [List.cons_append] at ih ⊢; rw [termLastU, ih]

/-- **`terminate_last_line` on the root** of a document satisfying the invariant: the last unit gets
    its terminator — inside it when it is a node, as a NEWLINE token behind it when it is a bare
    comment token. (`last_token()` only looks at the last child: nothing happens behind an empty
    paragraph.) -/
theorem terminateLastLine_runits (us : List RUnit) (hu : RInv us) :
    terminateLastLine (rkids us) = rkids (termLastU us) := by
  rcases Deb.snoc_cases us with rfl | ⟨U, x, rfl⟩
  · exact terminateLastLine_of_not_needs _ needsNl_nil0
  · rw [termLastU_snoc]
    simp only [rkids_append]
    cases x with
    | nltok =>
      apply terminateLastLine_of_not_needs
      rw [needsNl_append, if_neg (by simp [rkids])]
      simp [rkids, RUnit.node, needsNl_lastTok, lastTok, lastTokN]
    | ctok t =>
      have hn : needsNl (rkids U ++ rkids [RUnit.ctok t]) = true := by
        rw [needsNl_append, if_neg (by simp [rkids])]
        simp [rkids, RUnit.node, needsNl_lastTok, lastTok, lastTokN]
      rw [terminateLastLine_of_needs _ hn]
      simp [rkids, RUnit.node, RUnit.termU]
    | gap g =>
      have e1 : rkids [RUnit.gap g] = [Node.node .EMPTY_LINE (g.toks.map tk)] := rfl
      have e2 : rkids (RUnit.gap g).termU = [Node.node .EMPTY_LINE (g.termG.toks.map tk)] := rfl
      rw [e1, e2, terminateLastLine_into, terminateLastLine_toks]
      cases g with
      | blank => simp [Gap.toks, needsT, Gap.termG]
      | comment t nl => cases nl <;> simp [Gap.toks, nlTok, needsT, Gap.termG]
    | para b =>
      have htb : itemsTerm (toPs b) false := (hu.ok (.para b) (by simp)).2
      have e1 : rkids [RUnit.para b] = [Node.node .PARAGRAPH (lnodes b)] := rfl
      have e2 : rkids (RUnit.para b).termU = [Node.node .PARAGRAPH (lnodes (b.map LItem.term))] := rfl
      rw [e1, e2, terminateLastLine_into, terminateLastLine_lnodes b htb]

/-! ### `add_paragraph` -/

theorem tokens_state (U : List RUnit) : ∀ s : St, (U.filter RUnit.isNodeU) = [] → (s = .g ∨ s = .c) →
    (U.foldl St.next s = .g ∨ U.foldl St.next s = .c) := by
  induction U with
  | nil => intro s _ h; exact h
  | cons x U ih =>
    intro s hf hs
    simp only [List.filter_cons] at hf
    cases x with
    | gap g => simp [RUnit.isNodeU] at hf
    | para b => simp [RUnit.isNodeU] at hf
    | ctok t =>
      simp only [RUnit.isNodeU, Bool.false_eq_true, ↓reduceIte] at hf
      apply ih _ hf
      rcases hs with rfl | rfl <;> simp [St.next]
    | nltok =>
      simp only [RUnit.isNodeU, Bool.false_eq_true, ↓reduceIte] at hf
      apply ih _ hf
      rcases hs with rfl | rfl <;> simp [St.next]

theorem Gap.termG_wf (g : Gap) (h : g.WF) : g.termG.WF := by cases g <;> exact h

theorem termU_wf (x : RUnit) (h : x.WF) : ∀ u ∈ x.termU, u.WF := by
  intro u hu
  cases x with
  | gap g => simp only [RUnit.termU, List.mem_singleton] at hu; subst hu; exact Gap.termG_wf g h
  | para b =>
    simp only [RUnit.termU, List.mem_singleton] at hu; subst hu
    exact ⟨body_term_wf b h.1, itemsTerm_of_allNl _ _ (body_term_allNl b)⟩
  | ctok t =>
    simp only [RUnit.termU, List.mem_cons, List.not_mem_nil, or_false] at hu
    rcases hu with rfl | rfl
    · exact h
    · trivial
  | nltok => simp only [RUnit.termU, List.mem_singleton] at hu; subst hu; trivial

/-- the document with its last line terminated: still valid, something may follow, the text ends
    with a complete line — between paragraphs if the root has no child node at all -/
theorem termLastU_spec (us : List RUnit) (hu : RInv us) :
    (∀ u ∈ termLastU us, u.WF) ∧ RT .g (termLastU us) false
    ∧ ((termLastU us).foldl St.next .g).clean = true
    ∧ ((us.filter RUnit.isNodeU) = [] → (termLastU us).foldl St.next .g = .g) := by
  rcases Deb.snoc_cases us with rfl | ⟨U, x, rfl⟩
  · exact ⟨by simp [termLastU], trivial, rfl, fun _ => rfl⟩
  · rw [termLastU_snoc]
    have hterm := hu.term
    rw [RT_append] at hterm
    obtain ⟨ht1, ht2, _⟩ := hterm
    simp only [List.isEmpty_cons, Bool.false_and] at ht1
    generalize hsU : List.foldl St.next St.g U = sU at ht2
    refine ⟨?_, ?_, ?_, ?_⟩
    · intro u hu'
      simp only [List.mem_append] at hu'
      rcases hu' with hu' | hu'
      · exact hu.ok u (by simp [hu'])
      · exact termU_wf x (hu.ok x (by simp)) u hu'
    · rw [RT_append, hsU]
      refine ⟨by cases x <;> simpa [RUnit.termU] using ht1, ?_⟩
      cases x with
      | gap g =>
        refine ⟨⟨?_, ?_⟩, trivial⟩
        · rcases ht2.1 with h | ⟨h, rfl⟩
          · exact Or.inl h
          · exact Or.inr ⟨h, rfl⟩
        · cases g with
          | blank => trivial
          | comment t nl => exact Or.inl rfl
      | para b => exact ⟨ht2, trivial⟩
      | ctok t => exact ⟨ht2, trivial, trivial⟩
      | nltok => exact ⟨trivial, trivial⟩
    · rw [List.foldl_append, hsU]
      cases x with
      | gap g => rfl
      | para b => simp [RUnit.termU, St.next, needsB_term, St.clean]
      | ctok t =>
        simp only [St.ok] at ht2
        rcases ht2 with rfl | rfl <;> rfl
      | nltok => cases sU with
        | g => rfl
        | c => rfl
        | p op => cases op <;> rfl
    · intro hf
      rw [List.filter_append] at hf
      simp only [List.append_eq_nil_iff] at hf
      have hs := tokens_state U .g hf.1 (Or.inl rfl)
      rw [hsU] at hs
      rw [List.foldl_append, hsU]
      cases x with
      | gap g => simp [RUnit.isNodeU] at hf
      | para b => simp [RUnit.isNodeU] at hf
      | ctok t =>
        simp only [St.ok] at ht2
        rcases ht2 with rfl | rfl
        · rfl
        · simp at hs
      | nltok => rcases hs with rfl | rfl <;> rfl

/-- **`add_paragraph` keeps the invariant**: the last line is terminated, a blank line (if the root
    has a child node) and the new empty paragraph are appended at the very end -/
theorem add_runits (us : List RUnit) (hu : RInv us) (d : Doc) (hd : d.kids = rkids us) :
    (insertEmptyParagraph d none).kids =
        rkids (termLastU us ++ (if (us.filter RUnit.isNodeU).length > 0 then [.gap .blank] else [])
          ++ [.para []])
      ∧ RInv (termLastU us ++ (if (us.filter RUnit.isNodeU).length > 0 then [.gap .blank] else [])
          ++ [.para []]) := by
  have htl := terminateLastLine_runits us hu
  obtain ⟨h1, h2, h3, h4⟩ := termLastU_spec us hu
  constructor
  · simp only [insertEmptyParagraph, insertAt, hd, htl, filter_isNode_runits]
    rw [List.take_length, List.drop_length]
    split <;> simp [rkids, RUnit.node, emptyLine_eq_runit, lnodes]
  · have hp : (RUnit.para []).WF := ⟨by intro i hi; simp [toPs] at hi, by simp [toPs, itemsTerm]⟩
    constructor
    · intro x hx
      simp only [List.mem_append, List.mem_singleton] at hx
      rcases hx with (hx | hx) | rfl
      · exact h1 x hx
      · split at hx
        · simp at hx; subst hx; trivial
        · simp at hx
      · exact hp
    · rw [List.append_assoc, RT_append]
      have hne : ∀ l : List RUnit, ((l ++ [RUnit.para []]).isEmpty && true) = false := by
        intro l; cases l <;> rfl
      refine ⟨by rw [hne]; exact h2, ?_⟩
      generalize List.foldl St.next St.g (termLastU us) = sT at h3 h4
      split
      · refine ⟨⟨?_, trivial⟩, rfl, trivial⟩
        cases sT with
        | g => exact Or.inl rfl
        | c => simp [St.clean] at h3
        | p op => cases op <;> simp_all [St.clean]
      · rename_i hf
        have : us.filter RUnit.isNodeU = [] := by
          cases hl : us.filter RUnit.isNodeU with
          | nil => rfl
          | cons a l => rw [hl] at hf; simp at hf
        exact ⟨h4 this, trivial⟩


/-! ### `remove_paragraph(i)` -/

/-- **`remove_paragraph(i)` keeps the invariant**: the paragraph goes, and so does the blank-line
    NODE right behind it (a bare NEWLINE token behind it stays) -/
theorem remove_runits (us : List RUnit) (hu : RInv us) (d : Doc) (hd : d.kids = rkids us) (idx : Nat) :
    ∃ us', (removeParagraph d idx).kids = rkids us' ∧ RInv us' := by
  unfold removeParagraph
  cases hc : convertIndex d.kids idx with
  | none => exact ⟨us, hd, hu⟩
  | some p =>
    rw [hd] at hc
    obtain ⟨b, hp⟩ := convertIndex_runits us idx p hc
    obtain ⟨hsplit, hlen⟩ := split_at us p _ hp
    generalize hpre : us.take p = pre at hsplit hlen
    generalize hpost : us.drop (p + 1) = post at hsplit
    have hterm := hu.term
    rw [hsplit, RT_append] at hterm
    obtain ⟨ht1, ht2, ht3⟩ := hterm
    simp only [List.isEmpty_cons, Bool.false_and] at ht1
    have hsA : List.foldl St.next St.g pre = .g := ht2
    rw [hsA] at ht3
    have hok : ∀ x, x ∈ pre ∨ x ∈ post → x.WF := by
      intro x hx
      apply hu.ok x
      rw [hsplit]; simp only [List.mem_append, List.mem_cons]
      rcases hx with hx | hx
      · exact Or.inl hx
      · exact Or.inr (Or.inr hx)
    have hk1 : d.kids.eraseIdx p = rkids pre ++ rkids post := by
      rw [hd, hsplit, ← hlen]
      simp only [rkids, List.map_append, List.map_cons]
      rw [← List.length_map (f := RUnit.node), eraseIdx_mid]
    simp only [hk1]
    have hget : (rkids pre ++ rkids post)[p]? = (rkids post).head? := by
      rw [← hlen, ← List.length_map (f := RUnit.node)]; exact getElem?_mid _ _
    rw [hget]
    have hpreT : ∀ t, RT .g pre t := fun t => RT_mono pre _ _ _ _ (St.le_refl _) (by simp) ht1
    cases post with
    | nil =>
      exact ⟨pre, by simp [rkids], ⟨fun x hx => hok x (Or.inl hx), hpreT _⟩⟩
    | cons y post' =>
      have hkeep : RInv (pre ++ y :: post') := by
        refine ⟨?_, ?_⟩
        · intro x hx
          simp only [List.mem_append] at hx
          exact hok x hx
        · rw [RT_append]
          refine ⟨hpreT _, ?_⟩
          rw [hsA]
          exact RT_mono _ _ _ _ _ (by simp [St.next, St.le]) (fun h => h) ht3
      by_cases hy : ∃ g, y = .gap g
      · obtain ⟨g, rfl⟩ := hy
        simp only [rkids, List.map_cons, List.head?_cons, RUnit.node, Gap.node, Node.isNode,
          Node.kind, beq_self_eq_true, Bool.and_self, ↓reduceIte]
        refine ⟨pre ++ post', ?_, ⟨?_, ?_⟩⟩
        · rw [← hlen, ← List.length_map (f := RUnit.node), eraseIdx_mid]; simp
        · intro x hx
          simp only [List.mem_append] at hx
          rcases hx with hx | hx
          · exact hok x (Or.inl hx)
          · exact hok x (Or.inr (by simp [hx]))
        · rw [RT_append]
          refine ⟨hpreT _, ?_⟩
          rw [hsA]
          exact ht3.2
      · have hn : (y.node.isNode && y.node.kind == .EMPTY_LINE) = false := by
          cases hh : (y.node.isNode && y.node.kind == .EMPTY_LINE) with
          | false => rfl
          | true => exact absurd ((isEmptyLine_runit y).1 hh) hy
        simp only [rkids, List.map_cons, List.head?_cons, hn, Bool.false_eq_true, ↓reduceIte]
        exact ⟨pre ++ y :: post', by simp [rkids], hkeep⟩

/-! ## edit histories -/

/-- **every edit keeps the invariant** -/
theorem step_runits (us : List RUnit) (hu : RInv us) (d : Doc) (hd : d.kids = rkids us)
    (o : EditOp) (ho : o.Valid) : ∃ us', (step d o).kids = rkids us' ∧ RInv us' := by
  cases o with
  | set h k v => exact onPara_runits _ _ (bodyOp_set k v ho.1 ho.2) us hu d hd h
  | ins h k v => exact onPara_runits _ _ (bodyOp_insert k v ho.1 ho.2) us hu d hd h
  | rm h k => exact onPara_runits _ _ (bodyOp_remove k) us hu d hd h
  | ren h k k' => exact onPara_runits _ _ (bodyOp_rename k k' ho) us hu d hd h
  | addp => exact ⟨_, (add_runits us hu d hd).1, (add_runits us hu d hd).2⟩
  | insp i =>
    simp only [step, insertParagraph]
    cases hc : convertIndex d.kids i with
    | none => exact ⟨_, (add_runits us hu d hd).1, (add_runits us hu d hd).2⟩
    | some p =>
      rw [hd] at hc
      obtain ⟨b, hp⟩ := convertIndex_runits us i p hc
      exact ⟨_, (insertAt_runits us hu d hd p b hp).1, (insertAt_runits us hu d hd p b hp).2⟩
  | rmp i => exact remove_runits us hu d hd i

theorem run_runits (ops : List EditOp) : ∀ (us : List RUnit) (d : Doc), RInv us → d.kids = rkids us →
    (∀ o ∈ ops, o.Valid) → ∃ us', (run d ops).kids = rkids us' ∧ RInv us' := by
  induction ops with
  | nil => intro us d hu hd _; exact ⟨us, hd, hu⟩
  | cons o ops ih =>
    intro us d hu hd hv
    obtain ⟨us1, h1, h2⟩ := step_runits us hu d hd o (hv o (by simp))
    exact ih us1 (step d o) h2 h1 (fun x hx => hv x (by simp [hx]))


/-! ## the node-only view: the `EUnit` list that prints the same text with the same paragraphs

  A reader does not see whether a line is a bare token or sits in a node: a paragraph absorbs the
  bare comment lines behind it (and the bare NEWLINE that terminates its last line), the other bare
  lines are lines between paragraphs. -/

/-- the concrete state: `p b` — inside a paragraph whose lines so far are `b` -/
inductive FS
  | g
  | c (t : Str)
  | p (b : List LItem)
  deriving Repr

def FS.abs : FS → St
  | .g => .g
  | .c _ => .c
  | .p b => .p (needsB b)

/-- what is pending when the document ends, or a node follows -/
def FS.close : FS → List EUnit
  | .g => []
  | .c t => [.gap (.comment t false)]
  | .p b => [.para b]

def FS.next : FS → RUnit → FS
  | _, .gap _ => .g
  | _, .para b => .p b
  | .g, .ctok t => .c t
  | .c _, .ctok t => .c t
  | .p b, .ctok t => .p (b ++ [.comment t false])
  | .g, .nltok => .g
  | .c _, .nltok => .g
  | .p b, .nltok => if needsB b then .p (b.map LItem.term) else .g

def FS.emit : FS → RUnit → List EUnit
  | s, .gap gp => s.close ++ [.gap gp]
  | s, .para _ => s.close
  | .g, .ctok _ => []
  | .c t', .ctok _ => [.gap (.comment t' false)]
  | .p _, .ctok _ => []
  | .g, .nltok => [.gap .blank]
  | .c t, .nltok => [.gap (.comment t true)]
  | .p b, .nltok => if needsB b then [] else [.para b, .gap .blank]

def flat : FS → List RUnit → List EUnit
  | s, [] => s.close
  | s, x :: us => s.emit x ++ flat (s.next x) us

def FS.OK : FS → Prop
  | .g => True
  | .c t => NoNl t
  | .p b => (∀ i ∈ toPs b, i.WF) ∧ itemsTerm (toPs b) false

def FS.str : FS → Str
  | .g => []
  | .c t => '#' :: t
  | .p b => bodyStr b

def FS.content : FS → List (List (Str × Str))
  | .p b => [bodyContent b]
  | _ => []

theorem needsB_snoc_comment (b : List LItem) (t : Str) : needsB (b ++ [.comment t false]) = true := by
  simp only [needsB, lnodes_append]
  rw [needsNl_append, if_neg (by simp [lnodes, LItem.nodes])]
  simp [lnodes, LItem.nodes, nlTok, needsNl_lastTok, lastTok, lastTokN]

theorem FS.abs_next (s : FS) (x : RUnit) : (s.next x).abs = s.abs.next x := by
  cases x with
  | gap gp => cases s <;> rfl
  | para b => cases s <;> rfl
  | ctok t =>
    cases s with
    | g => rfl
    | c t' => rfl
    | p b => simp [FS.next, FS.abs, St.next, needsB_snoc_comment]
  | nltok =>
    cases s with
    | g => rfl
    | c t' => rfl
    | p b =>
      simp only [FS.next, FS.abs]
      cases hb : needsB b <;> simp [FS.abs, St.next, needsB_term]

theorem FS.ok_next (s : FS) (x : RUnit) (l : Bool) (hs : s.OK) (hx : x.WF) (hok : s.abs.ok x l) :
    (s.next x).OK := by
  cases x with
  | gap gp => cases s <;> trivial
  | para b => cases s <;> exact hx
  | ctok t =>
    cases s with
    | g => exact hx
    | c t' => exact hx
    | p b =>
      simp only [FS.abs, St.ok] at hok
      have hnb : needsB b = false := by
        rcases hok with h | h
        · simp at h
        · simpa using h
      have hall := allNl_of_not_needsB b hs.2 hnb
      refine ⟨?_, ?_⟩
      · intro i hi
        simp only [toPs_append, List.mem_append] at hi
        rcases hi with hi | hi
        · exact hs.1 i hi
        · simp only [toPs, List.map_cons, List.map_nil, List.mem_singleton] at hi
          subst hi; exact hx
      · rw [toPs_append, itemsTerm_append]
        exact ⟨itemsTerm_of_allNl _ _ hall, by simp [toPs, LItem.toP, itemsTerm]⟩
  | nltok =>
    cases s with
    | g => trivial
    | c t' => trivial
    | p b =>
      simp only [FS.next]
      split
      · exact ⟨body_term_wf b hs.1, itemsTerm_of_allNl _ _ (body_term_allNl b)⟩
      · trivial

theorem unitsStr_append (a b : List EUnit) : unitsStr (a ++ b) = unitsStr a ++ unitsStr b := by
  simp [unitsStr]

theorem FS.str_close (s : FS) : unitsStr s.close = s.str := by
  cases s <;> simp [FS.close, FS.str, unitsStr, EUnit.str, Gap.str, nlText]

theorem bodyStr_append (a b : List LItem) : bodyStr (a ++ b) = bodyStr a ++ bodyStr b := by
  simp [bodyStr, toPs]

/-- one step prints the same text -/
theorem FS.str_step (s : FS) (x : RUnit) (hs : s.OK) :
    unitsStr (s.emit x) ++ (s.next x).str = s.str ++ x.node.text := by
  cases x with
  | gap gp =>
    simp only [FS.emit, FS.next, unitsStr_append, FS.str_close, FS.str, List.append_nil, RUnit.node,
      text_gap_node]
    simp [unitsStr, EUnit.str]
  | para b =>
    simp only [FS.emit, FS.next, FS.str_close, FS.str, RUnit.node, text_node, textList_lnodes]
  | ctok t =>
    cases s with
    | g => simp [FS.emit, FS.next, FS.str, RUnit.node, unitsStr]
    | c t' => simp [FS.emit, FS.next, FS.str, RUnit.node, unitsStr, EUnit.str, Gap.str, nlText]
    | p b =>
      simp [FS.emit, FS.next, FS.str, RUnit.node, unitsStr, bodyStr_append, bodyStr, toPs, LItem.toP,
        PItem.str, nlText]
  | nltok =>
    cases s with
    | g => simp [FS.emit, FS.next, FS.str, RUnit.node, unitsStr, EUnit.str, Gap.str]
    | c t' => simp [FS.emit, FS.next, FS.str, RUnit.node, unitsStr, EUnit.str, Gap.str, nlText]
    | p b =>
      simp only [FS.emit, FS.next, RUnit.node, text_tok]
      cases hb : needsB b with
      | true =>
        simp only [↓reduceIte, FS.str, unitsStr, List.map_nil, List.flatten_nil, List.nil_append]
        rw [bodyStr_term b hs.2, hb]; rfl
      | false =>
        simp [FS.str, unitsStr, EUnit.str, Gap.str]

theorem flat_str (us : List RUnit) : ∀ (s : FS) (t : Bool), s.OK → (∀ u ∈ us, u.WF) → RT s.abs us t →
    unitsStr (flat s us) = s.str ++ textList (rkids us) := by
  induction us with
  | nil => intro s t _ _ _; simp [flat, FS.str_close, rkids]
  | cons x us ih =>
    intro s t hs hwf hrt
    obtain ⟨hok, hrt'⟩ := hrt
    have hs' := FS.ok_next s x _ hs (hwf x (by simp)) hok
    rw [← FS.abs_next] at hrt'
    have := ih (s.next x) t hs' (fun u hu => hwf u (by simp [hu])) hrt'
    simp only [flat, unitsStr_append, this, rkids, List.map_cons, textList_cons]
    rw [← List.append_assoc, FS.str_step s x hs, List.append_assoc]

/-! content -/

theorem unitsContent_append (a b : List EUnit) : unitsContent (a ++ b) = unitsContent a ++ unitsContent b := by
  simp [unitsContent, List.filterMap_append]

theorem FS.content_close (s : FS) : unitsContent s.close = s.content := by
  cases s <;> simp [FS.close, FS.content, unitsContent, EUnit.body?]

theorem LItem.term_content (i : LItem) : i.term.toP.content = i.toP.content := by
  cases i with
  | comment t nl => rfl
  | entry e =>
    simp [LItem.term, LItem.toP, PItem.content, EntryS.content, EntryS.termE, EntryS.valueLines,
      ContS.term, Function.comp_def]
  | bare k => rfl

theorem bodyContent_term (b : List LItem) : bodyContent (b.map LItem.term) = bodyContent b := by
  induction b with
  | nil => rfl
  | cons i is ih =>
    simp only [bodyContent, toPs, List.map_cons, List.flatten_cons] at ih ⊢
    rw [ih, LItem.term_content]

theorem bodyContent_snoc_comment (b : List LItem) (t : Str) (nl : Bool) :
    bodyContent (b ++ [.comment t nl]) = bodyContent b := by
  simp [bodyContent, toPs, LItem.toP, PItem.content]

/-- the paragraphs a unit contributes -/
def RUnit.content : RUnit → List (List (Str × Str))
  | .para b => [bodyContent b]
  | _ => []

theorem docItems_rkids_cons (x : RUnit) (us : List RUnit) :
    docItems (.node .ROOT (rkids (x :: us))) = x.content ++ docItems (.node .ROOT (rkids us)) := by
  simp only [docItems, paragraphs_def, Node.children, rkids, List.map_cons, List.filter_cons]
  cases x with
  | gap gp =>
    have : isPara (RUnit.gap gp).node = false := by simp [RUnit.node, Gap.node, isPara, Node.isNode, Node.kind]
    simp [this, RUnit.content]
  | para b =>
    have : isPara (Node.node .PARAGRAPH (lnodes b)) = true := by simp [isPara, Node.isNode, Node.kind]
    simp only [RUnit.node, this, ↓reduceIte, List.map_cons, items_node, itemsOf_lnodes, RUnit.content,
      List.cons_append, List.nil_append]
  | ctok t =>
    have : isPara (RUnit.ctok t).node = false := by simp [RUnit.node, isPara, Node.isNode]
    simp [this, RUnit.content]
  | nltok =>
    have : isPara RUnit.nltok.node = false := by simp [RUnit.node, isPara, Node.isNode]
    simp [this, RUnit.content]

theorem FS.content_step (s : FS) (x : RUnit) :
    unitsContent (s.emit x) ++ (s.next x).content = s.content ++ x.content := by
  cases x with
  | gap gp =>
    simp only [FS.emit, FS.next, unitsContent_append, FS.content_close, FS.content, RUnit.content,
      List.append_nil]
    simp [unitsContent, EUnit.body?]
  | para b => simp [FS.emit, FS.next, FS.content_close, FS.content, RUnit.content]
  | ctok t =>
    cases s with
    | g => simp [FS.emit, FS.next, FS.content, RUnit.content, unitsContent]
    | c t' => simp [FS.emit, FS.next, FS.content, RUnit.content, unitsContent, EUnit.body?]
    | p b => simp [FS.emit, FS.next, FS.content, RUnit.content, unitsContent, bodyContent_snoc_comment]
  | nltok =>
    cases s with
    | g => simp [FS.emit, FS.next, FS.content, RUnit.content, unitsContent, EUnit.body?]
    | c t' => simp [FS.emit, FS.next, FS.content, RUnit.content, unitsContent, EUnit.body?]
    | p b =>
      simp only [FS.emit, FS.next]
      cases hb : needsB b <;>
        simp [FS.content, RUnit.content, unitsContent, EUnit.body?, bodyContent_term]

theorem flat_content (us : List RUnit) : ∀ s : FS,
    unitsContent (flat s us) = s.content ++ docItems (.node .ROOT (rkids us)) := by
  induction us with
  | nil =>
    intro s
    simp [flat, FS.content_close, rkids, docItems, paragraphs_def, Node.children]
  | cons x us ih =>
    intro s
    simp only [flat, unitsContent_append, ih, docItems_rkids_cons]
    rw [← List.append_assoc, FS.content_step, List.append_assoc]


/-! the node-only view satisfies the invariant of `DebEditDoc` -/

theorem FS.close_wf (s : FS) (hs : s.OK) : ∀ u ∈ s.close, u.WF := by
  intro u hu
  cases s with
  | g => simp [FS.close] at hu
  | c t => simp only [FS.close, List.mem_singleton] at hu; subst hu; exact hs
  | p b => simp only [FS.close, List.mem_singleton] at hu; subst hu; exact hs.1

theorem FS.emit_wf (s : FS) (x : RUnit) (hs : s.OK) (hx : x.WF) : ∀ u ∈ s.emit x, u.WF := by
  intro u hu
  cases x with
  | gap gp =>
    simp only [FS.emit, List.mem_append, List.mem_singleton] at hu
    rcases hu with hu | rfl
    · exact FS.close_wf s hs u hu
    · exact hx
  | para b => exact FS.close_wf s hs u hu
  | ctok t =>
    cases s with
    | g => simp [FS.emit] at hu
    | c t' => simp only [FS.emit, List.mem_singleton] at hu; subst hu; exact hs
    | p b => simp [FS.emit] at hu
  | nltok =>
    cases s with
    | g => simp only [FS.emit, List.mem_singleton] at hu; subst hu; trivial
    | c t' => simp only [FS.emit, List.mem_singleton] at hu; subst hu; exact hs
    | p b =>
      simp only [FS.emit] at hu
      split at hu
      · simp at hu
      · simp only [List.mem_cons, List.not_mem_nil, or_false] at hu
        rcases hu with rfl | rfl
        · exact hs.1
        · trivial

theorem flat_wf (us : List RUnit) : ∀ (s : FS) (t : Bool), s.OK → (∀ u ∈ us, u.WF) → RT s.abs us t →
    ∀ u ∈ flat s us, u.WF := by
  induction us with
  | nil => intro s t hs _ _; exact FS.close_wf s hs
  | cons x us ih =>
    intro s t hs hwf hrt u hu
    obtain ⟨hok, hrt'⟩ := hrt
    have hs' := FS.ok_next s x _ hs (hwf x (by simp)) hok
    rw [← FS.abs_next] at hrt'
    simp only [flat, List.mem_append] at hu
    rcases hu with hu | hu
    · exact FS.emit_wf s x hs (hwf x (by simp)) u hu
    · exact ih (s.next x) t hs' (fun u hu => hwf u (by simp [hu])) hrt' u hu

theorem FS.close_term (s : FS) (hs : s.OK) : unitsTermN s.close none := by
  cases s with
  | g => trivial
  | c t => exact Or.inr rfl
  | p b => exact ⟨hs.2, Or.inl rfl⟩

/-- a paragraph whose last line is terminated may be followed by a blank line -/
theorem para_blank_term (b : List LItem) (hs : (FS.p b).OK) (hn : needsB b = false) (n : Option EUnit) :
    unitsTermN [.para b, .gap .blank] n := by
  have := (needsB_false_iff b hs.2).1 hn
  exact ⟨⟨by simpa using this, Or.inr rfl⟩, trivial⟩

/-- what one step emits is well laid out in front of whatever the rest emits -/
theorem FS.emit_term (s : FS) (x : RUnit) (us : List RUnit) (hs : s.OK)
    (hok : s.abs.ok x (us.isEmpty && true)) :
    unitsTermN (s.emit x) (nxt (flat (s.next x) us) none) := by
  cases x with
  | gap gp =>
    obtain ⟨h1, h2⟩ := hok
    have hg : follows (.gap gp) (nxt (flat FS.g us) none) := by
      cases gp with
      | blank => trivial
      | comment t nl =>
        rcases h2 with h2 | h2
        · exact Or.inl h2
        · right
          have : us = [] := by simpa using h2
          subst this; rfl
    cases s with
    | g => simpa [FS.emit, FS.close, FS.next, unitsTermN] using hg
    | c t => rcases h1 with h | ⟨h, _⟩ <;> simp [FS.abs] at h
    | p b =>
      rcases h1 with h | ⟨h, rfl⟩
      · simp [FS.abs] at h
      · have hn : needsB b = false := by simpa [FS.abs] using h
        exact para_blank_term b hs hn _
  | para b =>
    have : s.abs = .g := hok
    cases s with
    | g => trivial
    | c t => simp [FS.abs] at this
    | p b' => simp [FS.abs] at this
  | ctok t =>
    cases s with
    | g => trivial
    | c t' =>
      simp only [FS.abs, St.ok] at hok
      rcases hok with h | h <;> simp at h
    | p b => trivial
  | nltok =>
    cases s with
    | g => trivial
    | c t' => exact Or.inl rfl
    | p b =>
      simp only [FS.emit]
      cases hb : needsB b with
      | true => trivial
      | false => exact para_blank_term b hs hb _

theorem flat_term (us : List RUnit) : ∀ (s : FS), s.OK → (∀ u ∈ us, u.WF) → RT s.abs us true →
    unitsTermN (flat s us) none := by
  induction us with
  | nil => intro s hs _ _; exact FS.close_term s hs
  | cons x us ih =>
    intro s hs hwf hrt
    obtain ⟨hok, hrt'⟩ := hrt
    have hs' := FS.ok_next s x _ hs (hwf x (by simp)) hok
    rw [← FS.abs_next] at hrt'
    simp only [flat]
    rw [unitsTermN_append]
    exact ⟨FS.emit_term s x us hs hok, ih (s.next x) hs' (fun u hu => hwf u (by simp [hu])) hrt'⟩

/-- **the node-only view of a document satisfying `RInv`**: it satisfies `UWF`, prints the same
    text and has the same paragraphs with the same fields -/
theorem rinv_flat (us : List RUnit) (hu : RInv us) :
    UWF (flat .g us) ∧ unitsStr (flat .g us) = textList (rkids us)
    ∧ unitsContent (flat .g us) = docItems (.node .ROOT (rkids us)) := by
  refine ⟨⟨flat_wf us .g true trivial hu.ok hu.term, flat_term us .g trivial hu.ok hu.term⟩, ?_, ?_⟩
  · simpa [FS.str] using flat_str us .g true trivial hu.ok hu.term
  · simpa [FS.content] using flat_content us .g

end Deb822Verif.Spec
