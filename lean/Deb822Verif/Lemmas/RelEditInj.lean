import Deb822Verif.Lemmas.RelEditOracle
/-!
  Distinct live handles sit on distinct positions: an invariant of every operation. With it, the id
  the labelled model puts on an element is the id of THE handle sitting there, so the oracle theorem
  speaks about every live handle.
-/
set_option linter.unusedSimpArgs false
set_option linter.unusedVariables false
namespace Deb822Verif.Rel.Edit
open Deb822Verif Rel Node Build Lossy RelSpec

/-- two entry handles are not live on the same position -/
def ESep (r1 r2 : ERef) : Prop := ∀ p, r1 = .at p → r2 ≠ .at p
def RSep (r1 r2 : RRef) : Prop := ∀ p q, r1 = .at p q → r2 ≠ .at p q

/-- no two handles of the field are live on the same node -/
def HInj (f : Field) : Prop :=
  f.ehs.Pairwise (fun h1 h2 => ESep h1.2 h2.2) ∧ f.rhs.Pairwise (fun h1 h2 => RSep h1.2 h2.2)

theorem cut_inj' (a b : Nat) : (Remap.cut a b).Inj := by
  intro p0 p1 p' h0 h1
  simp only [Remap.cut] at h0 h1
  split at h0 <;> (try split at h0) <;> split at h1 <;> (try split at h1) <;>
    simp only [Option.some.injEq, reduceCtorEq] at h0 h1 <;> omega

theorem esep_root (f : Field) (c : Cut) (hinj : c.remap.Inj) (r1 r2 : ERef) (h : ESep r1 r2) :
    ESep (eAfterRoot f c r1) (eAfterRoot f c r2) := by
  intro p h1 h2
  cases r1 with
  | gone t => simp [eAfterRoot] at h1
  | «at» p1 =>
    cases r2 with
    | gone t => simp [eAfterRoot] at h2
    | «at» p2 =>
      simp only [eAfterRoot] at h1 h2
      cases hm1 : c.remap p1 with
      | none => rw [hm1] at h1; cases h1
      | some a =>
        cases hm2 : c.remap p2 with
        | none => rw [hm2] at h2; cases h2
        | some b =>
          rw [hm1] at h1; rw [hm2] at h2
          simp only [ERef.at.injEq] at h1 h2
          subst h1; subst h2
          have := hinj p1 p2 _ hm1 hm2
          subst this
          exact h p1 rfl rfl

theorem rsep_root (f : Field) (c : Cut) (hinj : c.remap.Inj) (r1 r2 : RRef) (h : RSep r1 r2) :
    RSep (rAfterRoot f c r1) (rAfterRoot f c r2) := by
  intro p q h1 h2
  cases r1 with
  | gone t => simp [rAfterRoot] at h1
  | «at» p1 q1 =>
    cases r2 with
    | gone t => simp [rAfterRoot] at h2
    | «at» p2 q2 =>
      simp only [rAfterRoot] at h1 h2
      cases hm1 : c.remap p1 with
      | none => rw [hm1] at h1; cases h1
      | some a =>
        cases hm2 : c.remap p2 with
        | none => rw [hm2] at h2; cases h2
        | some b =>
          rw [hm1] at h1; rw [hm2] at h2
          simp only [RRef.at.injEq] at h1 h2
          obtain ⟨rfl, rfl⟩ := h1
          obtain ⟨rfl, rfl⟩ := h2
          have := hinj p1 p2 _ hm1 hm2
          subst this
          exact h _ _ rfl rfl

theorem rsep_entry (f : Field) (p : Nat) (c : Cut) (lost : Nat → Option Str) (hinj : c.remap.Inj) (r1 r2 : RRef)
    (h : RSep r1 r2) : RSep (rAfterEntry f p c lost r1) (rAfterEntry f p c lost r2) := by
  intro p0 q0 h1 h2
  cases r1 with
  | gone t => simp [rAfterEntry] at h1
  | «at» p1 q1 =>
    cases r2 with
    | gone t => simp [rAfterEntry] at h2
    | «at» p2 q2 =>
      simp only [rAfterEntry] at h1 h2
      by_cases e1 : p1 = p
      · subst e1
        rw [if_pos rfl] at h1
        by_cases e2 : p2 = p1
        · subst e2
          rw [if_pos rfl] at h2
          cases hm1 : c.remap q1 with
          | none => rw [hm1] at h1; cases h1
          | some a =>
            cases hm2 : c.remap q2 with
            | none => rw [hm2] at h2; cases h2
            | some b =>
              rw [hm1] at h1; rw [hm2] at h2
              simp only [RRef.at.injEq] at h1 h2
              obtain ⟨rfl, rfl⟩ := h1
              obtain ⟨_, rfl⟩ := h2
              have := hinj q1 q2 _ hm1 hm2
              subst this
              exact h _ _ rfl rfl
        · rw [if_neg e2] at h2
          simp only [RRef.at.injEq] at h2
          cases hm1 : c.remap q1 with
          | none => rw [hm1] at h1; cases h1
          | some a =>
            rw [hm1] at h1
            simp only [RRef.at.injEq] at h1
            exact e2 (h2.1.trans h1.1.symm)
      · rw [if_neg e1] at h1
        simp only [RRef.at.injEq] at h1
        by_cases e2 : p2 = p
        · subst e2
          rw [if_pos rfl] at h2
          cases hm2 : c.remap q2 with
          | none => rw [hm2] at h2; cases h2
          | some b =>
            rw [hm2] at h2
            simp only [RRef.at.injEq] at h2
            exact e1 (h1.1.trans h2.1.symm)
        · rw [if_neg e2] at h2
          simp only [RRef.at.injEq] at h2
          obtain ⟨rfl, rfl⟩ := h1
          obtain ⟨rfl, rfl⟩ := h2
          exact h _ _ rfl rfl

theorem hinj_rootEdit (f : Field) (c : Cut) (hinj : c.remap.Inj) (h : HInj f) : HInj (f.rootEdit c) := by
  constructor
  · rw [rootEdit_ehs, List.pairwise_map]
    exact h.1.imp (fun hh => esep_root f c hinj _ _ hh)
  · rw [rootEdit_rhs, List.pairwise_map]
    exact h.2.imp (fun hh => rsep_root f c hinj _ _ hh)

theorem hinj_entryEdit (f : Field) (p : Nat) (c : Cut) (lost : Nat → Option Str) (hinj : c.remap.Inj) (h : HInj f) :
    HInj (f.entryEdit p c lost) := by
  constructor
  · exact h.1
  · rw [entryEdit_rhs, List.pairwise_map]
    exact h.2.imp (fun hh => rsep_entry f p c lost hinj _ _ hh)

theorem hinj_relEdit (f : Field) (p q : Nat) (g : RNode → RNode) (h : HInj f) : HInj (f.relEdit p q g) := by
  obtain ⟨h1, h2⟩ := C11h f p q g
  unfold HInj; rw [h1, h2]; exact h

/-! ### the position maps of the operations are injective -/

theorem inj_relationsInsert (cs : List RNode) (i : Nat) (entry : RNode) : (relationsInsert cs i entry).remap.Inj := by
  unfold relationsInsert
  split
  · exact ins_inj _ _
  · split
    · exact ins_inj _ _
    · simp only
      split
      · exact ins_inj _ _
      · exact ins_inj _ _

theorem inj_entryRemove (cs : List RNode) (p : Nat) (c : Cut) (h : entryRemove cs p = .ok c) : c.remap.Inj := by
  obtain ⟨A, B, rfl, _, _⟩ := entryRemove_form cs p c h
  exact cut_inj' _ _

theorem inj_entryPushIn (es : List RNode) (rel : RNode) : (entryPushIn es rel).remap.Inj := by
  unfold entryPushIn
  split <;> exact ins_inj _ _

theorem inj_relationRemoveIn (es : List RNode) (q : Nat) (c : Cut) (h : relationRemoveIn es q = .ok c) : c.remap.Inj := by
  unfold relationRemoveIn at h
  simp only at h
  split at h
  · simp only [Outcome.ok.injEq] at h; rw [← h]; exact cut_inj' _ _
  · split at h
    · split at h
      · simp only [Outcome.ok.injEq] at h; rw [← h]; exact cut_inj' _ _
      · cases h
    · simp only [Outcome.ok.injEq] at h; rw [← h]; exact cut_inj' _ _

/-! ### every operation keeps the handles apart -/

theorem hinj_removeEntryAt (f f' : Field) (p : Nat) (h : HInj f) (hr : f.removeEntryAt p = .ok f') : HInj f' := by
  unfold Field.removeEntryAt at hr
  cases hc : entryRemove f.kids p with
  | panic s => rw [hc] at hr; simp [Outcome.map] at hr
  | ok c =>
    rw [hc] at hr
    simp only [Outcome.map, Outcome.ok.injEq] at hr
    rw [← hr]; exact hinj_rootEdit f c (inj_entryRemove f.kids p c hc) h

theorem hinj_removeRelationAt (f f' : Field) (p q : Nat) (h : HInj f) (hr : f.removeRelationAt p q = .ok f') : HInj f' := by
  unfold Field.removeRelationAt at hr
  cases hc : relationRemoveIn (f.entryKids p) q with
  | panic s => rw [hc] at hr; simp [Outcome.bind] at hr
  | ok c =>
    rw [hc] at hr
    simp only [Outcome.bind] at hr
    have h1 := hinj_entryEdit f p c (fun _ => none) (inj_relationRemoveIn _ q c hc) h
    split at hr
    · exact hinj_removeEntryAt _ f' p h1 hr
    · simp only [Outcome.ok.injEq] at hr; rw [← hr]; exact h1

theorem hinj_step (f f' : Field) (op : Op) (h : HInj f) (hs : step f op = .ok f') : HInj f' := by
  cases op with
  | setArchqual p q aq => simp only [step, Outcome.ok.injEq] at hs; rw [← hs]; exact hinj_relEdit f p q _ h
  | setVersion p q vc => simp only [step, Outcome.ok.injEq] at hs; rw [← hs]; exact hinj_relEdit f p q _ h
  | dropConstraint p q => simp only [step, Outcome.ok.injEq] at hs; rw [← hs]; exact hinj_relEdit f p q _ h
  | setArchitectures p q as => simp only [step, Outcome.ok.injEq] at hs; rw [← hs]; exact hinj_relEdit f p q _ h
  | addProfile p q g => simp only [step, Outcome.ok.injEq] at hs; rw [← hs]; exact hinj_relEdit f p q _ h
  | entryPush p rel =>
    simp only [step, Outcome.ok.injEq] at hs; rw [← hs]
    exact hinj_entryEdit f p _ _ (inj_entryPushIn _ _) h
  | entryReplace p j rel =>
    simp only [step, Field.entryReplaceAt] at hs
    split at hs
    · cases hs
    · cases hc : entryReplaceIn (f.entryKids p) _ rel with
      | panic s => rw [hc] at hs; simp [Outcome.map] at hs
      | ok x =>
        rw [hc] at hs
        simp only [Outcome.map, Outcome.ok.injEq] at hs
        rw [← hs]
        exact hinj_entryEdit _ p _ _ (ins_inj _ _) (hinj_entryEdit f p _ _ (cut_inj' _ _) h)
  | removeRelationAt p q => exact hinj_removeRelationAt f f' p q h hs
  | removeRelation i j =>
    simp only [step, Field.removeRelation] at hs
    split at hs
    · cases hs
    · split at hs
      · cases hs
      · exact hinj_removeRelationAt f f' _ _ h hs
  | insert i entry =>
    simp only [step, Outcome.ok.injEq] at hs; rw [← hs]
    exact hinj_rootEdit f _ (inj_relationsInsert f.kids i entry) h
  | push entry =>
    simp only [step, Outcome.ok.injEq] at hs; rw [← hs]
    exact hinj_rootEdit f _ (inj_relationsInsert f.kids _ entry) h
  | replace i entry =>
    simp only [step, Field.replace] at hs
    split at hs
    · cases hs
    · simp only [Outcome.ok.injEq] at hs; rw [← hs]
      exact hinj_rootEdit _ _ (ins_inj _ _) (hinj_rootEdit f _ (cut_inj' _ _) h)
  | removeEntry i =>
    simp only [step, Field.removeEntry] at hs
    split at hs
    · exact hinj_removeEntryAt f f' _ h hs
    · cases hs
  | removeEntryAt p => exact hinj_removeEntryAt f f' p h hs

theorem hinj_irun (f f' : Field) (os : List IOp) (h : HInj f) (hr : irun f os = .ok f') : HInj f' := by
  induction os generalizing f with
  | nil => simp only [irun, Outcome.ok.injEq] at hr; subst hr; exact h
  | cons o os ih =>
    simp only [irun] at hr
    cases hst : istep f o with
    | panic s => rw [hst] at hr; simp [Outcome.bind] at hr
    | ok f1 =>
      rw [hst] at hr
      simp only [Outcome.bind] at hr
      have h1 : HInj f1 := by
        unfold istep at hst
        cases hres : o.resolve f with
        | none => rw [hres] at hst; cases hst
        | some op => rw [hres] at hst; exact hinj_step f f1 op h hst
      exact ih f1 h1 hr

/-! ### with it, the tag of a position is the id of the handle sitting there -/

theorem find_of_pairwise {α} (l : List (Nat × α)) (P : α → Prop) [DecidablePred P]
    (hp : l.Pairwise (fun a b => P a.2 → ¬ P b.2)) (x : Nat × α) (hx : x ∈ l) (hP : P x.2) :
    l.find? (fun h => decide (P h.2)) = some x := by
  induction l with
  | nil => cases hx
  | cons a l ih =>
    rw [List.pairwise_cons] at hp
    simp only [List.find?_cons]
    rcases List.mem_cons.mp hx with rfl | hx'
    · simp [hP]
    · have hna : ¬ P a.2 := fun ha => hp.1 x hx' ha hP
      simp only [hna, decide_false]
      exact ih hp.2 hx'

theorem tagE_of_handle (f : Field) (h : HInj f) (id p : Nat) (hm : (id, ERef.at p) ∈ f.ehs) : tagE f p = some id := by
  have hp : f.ehs.Pairwise (fun a b => a.2 = ERef.at p → ¬ b.2 = ERef.at p) :=
    h.1.imp (fun hh h1 h2 => hh p h1 h2)
  have := find_of_pairwise f.ehs (fun r => r = ERef.at p) hp (id, ERef.at p) hm rfl
  simp only [tagE, this, Option.map_some]

theorem tagR_of_handle (f : Field) (h : HInj f) (id p q : Nat) (hm : (id, RRef.at p q) ∈ f.rhs) :
    tagR f p q = some id := by
  have hp : f.rhs.Pairwise (fun a b => a.2 = RRef.at p q → ¬ b.2 = RRef.at p q) :=
    h.2.imp (fun hh h1 h2 => hh p q h1 h2)
  have := find_of_pairwise f.rhs (fun r => r = RRef.at p q) hp (id, RRef.at p q) hm rfl
  simp only [tagR, this, Option.map_some]

/-- every live entry handle: the model carries its id on the entry it points at -/
theorem HRel.live_entry {f : Field} {M : LModel} (H : HRel f M) (hi : HInj f) (id p : Nat)
    (hm : (id, ERef.at p) ∈ f.ehs) :
    ∃ i rs e, nthNode .ENTRY f.kids i = some p ∧ Sh.entry? M.tags i = some (some id, rs)
      ∧ f.kids[p]? = some e ∧ S.entry? M.items i = some (relsOf e) := by
  obtain ⟨e, he, hn, hread⟩ := entry_handle_reads f p (H.hok.1 _ hm)
  obtain ⟨pre, e', post, hk, hl, hent, hne, hsh⟩ := shape_split f _ p hn
  refine ⟨(f.kids.take p).countP (isNodeOf .ENTRY), relTags (tagR f p) e'.children, e, hn, ?_, he,
    by rw [← H.items]; exact hread⟩
  rw [← H.tags, hsh, ← hne, Sh.entry?_at, tagE_of_handle f hi id p hm]

/-- every live relation handle: the model carries its id on the alternative it points at -/
theorem HRel.live_rel {f : Field} {M : LModel} (H : HRel f M) (hi : HInj f) (id p q : Nat)
    (hm : (id, RRef.at p q) ∈ f.rhs) :
    ∃ i j t rs, nthNode .ENTRY f.kids i = some p ∧ nthNode .RELATION (f.entryKids p) j = some q
      ∧ Sh.entry? M.tags i = some (t, rs) ∧ rs[j]? = some (some id) := by
  obtain ⟨e, r, he, hent, hr, hrel⟩ := H.hok.2 _ hm
  have hn := nthPos_of_get (isNodeOf .ENTRY) f.kids p e he hent
  obtain ⟨pre, e', post, hk, hl, _, hne, hsh⟩ := shape_split f _ p hn
  have hee : e' = e := by
    have : f.kids[p]? = some e' := by rw [hk, ← hl]; simp
    exact Option.some.inj (this.symm.trans he)
  subst hee
  have hq := nthPos_of_get (isNodeOf .RELATION) e'.children q r hr hrel
  obtain ⟨pre', r', post', hk', hl', _, hjl, hsp⟩ := relTags_split f p e'.children _ q hq
  refine ⟨(f.kids.take p).countP (isNodeOf .ENTRY), (e'.children.take q).countP (isNodeOf .RELATION), tagE f p,
    relTags (tagR f p) e'.children, hn, by rw [entryKids_eq f p e' he]; exact hq,
    by rw [← H.tags, hsh, ← hne, Sh.entry?_at], ?_⟩
  rw [hsp, ← hjl]
  simp [tagR_of_handle f hi id p q hm]

end Deb822Verif.Rel.Edit
