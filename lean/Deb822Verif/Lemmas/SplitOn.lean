import Deb822Verif.Model.Text
/-! `Text.splitOn` on separator-free pieces (shared by several property files). -/
namespace Deb822Verif.Text

theorem splitOn_none (sep : Char) (v : Str) (h : sep ∉ v) : splitOn sep v = [v] := by
  induction v with
  | nil => rfl
  | cons c cs ih =>
    have hc : c ≠ sep := by intro e; apply h; simp [e]
    have hcs : sep ∉ cs := by intro e; apply h; simp [e]
    simp [splitOn, hc, ih hcs]

theorem splitOn_cons (sep : Char) (k v : Str) (h : sep ∉ k) :
    splitOn sep (k ++ sep :: v) = k :: splitOn sep v := by
  induction k with
  | nil => simp [splitOn]
  | cons c cs ih =>
    have hc : c ≠ sep := by intro e; apply h; simp [e]
    have hcs : sep ∉ cs := by intro e; apply h; simp [e]
    simp [splitOn, hc, ih hcs]

end Deb822Verif.Text
