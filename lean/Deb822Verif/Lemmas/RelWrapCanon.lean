import Deb822Verif.Lemmas.RelWrapField
/-!
  The well-formed field (`RelSpec.FieldA`) in canonical layout whose text is what wrap-and-sort
  prints: the entries (`RelSpec.canonEntry`) followed by the substitution variables, joined by `, `.
  Through it the theorems of C10 (the text is read back exactly) apply to the output.
-/
set_option linter.unusedSimpArgs false
set_option linter.unusedVariables false
namespace Deb822Verif.Rel.Wrap
open Deb822Verif Rel Node RelSpec DebVersion Lossy

/-- a substitution variable as structure: `${p0:p1:…}` -/
abbrev SubstA := Str × List Str

def substOf : EntryA → Option SubstA
  | .substvar p ps => some (p, ps)
  | _ => none
def substEntry (x : SubstA) : EntryA := .substvar x.1 x.2
def substTextOf (x : SubstA) : Str := (substEntry x).str

/-- the substitution variables of a field, structured, in order -/
def substA (f : FieldA) : List SubstA := f.segs.filterMap fun s => substOf s.entry

/-- sorted by their text (`sort_by_key(|n| n.text())`) -/
def sortSubstA (l : List SubstA) : List SubstA :=
  l.mergeSort fun a b => leOf strCmp (substTextOf a) (substTextOf b)

/-- canonical layout of a list of entries: nothing before the first, one space before the others -/
def segsOf : List EntryA → List Seg
  | [] => []
  | e :: es => ⟨[], e, []⟩ :: es.map fun x => ⟨sp, x, []⟩

/-- the canonical field: entries, then substitution variables -/
def canonField (V : List (List RV)) (SA : List SubstA) : FieldA :=
  ⟨segsOf (V.map canonEntry ++ SA.map substEntry)⟩

/-- the canonical text of a normalised structure: entries joined by `, `, alternatives by ` | `
    (`entryText`), each relation `name[:archqual] (op version) [archs] <profiles>` with single spaces
    (`Lossy.showRelation`), then the substitution variables -/
def canonText (V : List (List RV)) (S : List Str) : Str :=
  Text.join [',', ' '] (V.map entryText ++ S)

theorem substvars_eq (f : FieldA) : f.substvars = (substA f).map substTextOf := by
  unfold FieldA.substvars substA
  generalize f.segs = ss
  induction ss with
  | nil => rfl
  | cons s ss ih =>
    rw [List.filterMap_cons, List.filterMap_cons, ih]
    cases hs : s.entry <;> simp [EntryA.substText, substOf, substTextOf, substEntry]

theorem sortSubstA_text (l : List SubstA) : (sortSubstA l).map substTextOf = sortStrs (l.map substTextOf) := by
  unfold sortSubstA sortStrs
  exact List.map_mergeSort (s := leOf strCmp) (fun a _ b _ => rfl)

theorem mem_sortSubstA {l : List SubstA} {x : SubstA} : x ∈ sortSubstA l ↔ x ∈ l := List.mem_mergeSort

/-! ### its text -/

theorem segsOf_str (es : List EntryA) :
    (FieldA.mk (segsOf es)).str = Text.join [',', ' '] (es.map EntryA.str) := by
  cases es with
  | nil => rfl
  | cons e es =>
    simp only [FieldA.str, segsOf, List.map_cons, List.map_map]
    have h1 : (Seg.str ⟨[], e, []⟩) = e.str := by simp [Seg.str, gapStr_nil]
    have h2 : (es.map (Seg.str ∘ fun x => (⟨sp, x, []⟩ : Seg))) = (es.map EntryA.str).map ([' '] ++ ·) := by
      simp [List.map_map, Function.comp_def, Seg.str, gapStr_sp, gapStr_nil]
    rw [h1, h2]
    exact join_cons_map [','] [' '] _ _

theorem canonField_str (V : List (List RV)) (SA : List SubstA) :
    (canonField V SA).str = canonText V (SA.map substTextOf) := by
  unfold canonField canonText
  rw [segsOf_str]
  congr 1
  simp only [List.map_append, List.map_map]
  congr 1
  · apply List.map_congr_left
    intro e _
    simp [canonEntry_str, entryText]

/-! ### it is well-formed -/

theorem canonEntry_ok (e : List RV) (hall : ∀ r ∈ e, validR r = true) : (canonEntry e).ok = true := by
  cases e with
  | nil => rfl
  | cons r rs =>
    simp only [canonEntry, EntryA.ok, Bool.and_eq_true, List.all_eq_true, List.mem_map]
    refine ⟨canonRel_ok r (hall r (by simp)), ?_⟩
    rintro a ⟨x, hx, rfl⟩
    simp [AltA.ok, sp_ok, canonRel_ok x (hall x (by simp [hx]))]

theorem segsOf_wf (es : List EntryA) (h : ∀ e ∈ es, e.ok = true) : (FieldA.mk (segsOf es)).WF := by
  simp only [FieldA.WF, FieldA.ok, List.all_eq_true]
  intro s hs
  cases es with
  | nil => simp [segsOf] at hs
  | cons e es =>
    simp only [segsOf, List.mem_cons, List.mem_map] at hs
    rcases hs with rfl | ⟨x, hx, rfl⟩
    · simp [Seg.ok, gapOk, h e (by simp)]
    · simp [Seg.ok, sp_ok, gapOk, h x (by simp [hx])]

/-- a substitution variable is well-formed: identifiers between the colons -/
def substOk (x : SubstA) : Bool := isIdent x.1 && x.2.all isIdent

theorem canonField_wf (V : List (List RV)) (SA : List SubstA)
    (hV : ∀ e ∈ V, ∀ v ∈ e, validR v = true) (hS : ∀ x ∈ SA, substOk x = true) :
    (canonField V SA).WF := by
  apply segsOf_wf
  intro e he
  rcases List.mem_append.1 he with he | he
  · obtain ⟨vs, hvs, rfl⟩ := List.mem_map.1 he
    exact canonEntry_ok vs (hV vs hvs)
  · obtain ⟨x, hx, rfl⟩ := List.mem_map.1 he
    simpa [substEntry, EntryA.ok, substOk] using hS x hx

/-- the substitution variables of a well-formed field are well-formed -/
theorem substA_ok (f : FieldA) (h : f.WF) : ∀ x ∈ substA f, substOk x = true := by
  intro x hx
  simp only [substA, List.mem_filterMap] at hx
  obtain ⟨s, hs, hsx⟩ := hx
  have hok : s.ok = true := by
    have : ∀ s ∈ f.segs, s.ok = true := by simpa [FieldA.WF, FieldA.ok, List.all_eq_true] using h
    exact this s hs
  have hent := ((Seg.ok_iff s).1 hok).2.2.1
  cases hentry : s.entry with
  | empty => simp [hentry, substOf] at hsx
  | alts r rest => simp [hentry, substOf] at hsx
  | substvar p ps =>
    rw [hentry] at hsx hent
    simp only [substOf, Option.some.injEq] at hsx
    subst hsx
    simpa [EntryA.ok, substOk] using hent

/-! ### what it exposes -/

theorem canonEntry_view (e : List RV) (hne : e ≠ []) (hall : ∀ r ∈ e, validR r = true) :
    (canonEntry e).view = some e := by
  cases e with
  | nil => exact absurd rfl hne
  | cons r rs =>
    simp only [canonEntry, EntryA.view, List.map_map, Option.some.injEq, List.cons.injEq]
    refine ⟨canonRel_view r (hall r (by simp)), ?_⟩
    have : ∀ x ∈ rs, ((fun a : AltA => a.rel.view) ∘ fun x => (⟨sp, sp, canonRel x⟩ : AltA)) x = x :=
      fun x hx => canonRel_view x (hall x (by simp [hx]))
    simpa using List.map_congr_left this

theorem segsOf_entries (es : List EntryA) : (segsOf es).map Seg.entry = es := by
  cases es with
  | nil => rfl
  | cons e es => simp [segsOf, List.map_map, Function.comp_def]

theorem filterMap_segsOf {β} (g : EntryA → Option β) (es : List EntryA) :
    (segsOf es).filterMap (fun s => g s.entry) = es.filterMap g := by
  have : (segsOf es).filterMap (fun s => g s.entry) = ((segsOf es).map Seg.entry).filterMap g := by
    rw [List.filterMap_map]; rfl
  rw [this, segsOf_entries]

theorem canonField_view (V : List (List RV)) (SA : List SubstA)
    (hV : ∀ e ∈ V, e ≠ [] ∧ ∀ v ∈ e, validR v = true) : (canonField V SA).view = V := by
  unfold canonField FieldA.view
  rw [filterMap_segsOf EntryA.view, List.filterMap_append]
  have h1 : (V.map canonEntry).filterMap EntryA.view = V :=
    filterMap_eq_self EntryA.view canonEntry V (fun e he => canonEntry_view e (hV e he).1 (hV e he).2)
  have h2 : (SA.map substEntry).filterMap EntryA.view = [] := by
    rw [List.filterMap_map]
    apply List.filterMap_eq_nil_iff.2
    intro x _; rfl
  rw [h1, h2, List.append_nil]

theorem canonField_substA (V : List (List RV)) (SA : List SubstA) : substA (canonField V SA) = SA := by
  unfold canonField substA
  rw [filterMap_segsOf substOf, List.filterMap_append]
  have h1 : (V.map canonEntry).filterMap substOf = [] := by
    rw [List.filterMap_map]
    apply List.filterMap_eq_nil_iff.2
    intro e _; cases e <;> rfl
  have h2 : (SA.map substEntry).filterMap substOf = SA := by
    rw [List.filterMap_map]
    induction SA with
    | nil => rfl
    | cons x xs ih => simp [substOf, substEntry, ih]
  rw [h1, h2, List.nil_append]

theorem canonField_substvars (V : List (List RV)) (SA : List SubstA) :
    (canonField V SA).substvars = SA.map substTextOf := by
  rw [substvars_eq, canonField_substA]

theorem canonField_hasSubstvar (V : List (List RV)) : (canonField V []).hasSubstvar = false := by
  unfold canonField FieldA.hasSubstvar
  simp only [List.map_nil, List.append_nil, List.any_eq_false]
  intro s hs
  have : s.entry ∈ (segsOf (V.map canonEntry)).map Seg.entry := List.mem_map.2 ⟨s, hs, rfl⟩
  rw [segsOf_entries] at this
  obtain ⟨e, _, he⟩ := List.mem_map.1 this
  rw [← he]; cases e <;> simp [canonEntry, EntryA.isSubstvar]

end Deb822Verif.Rel.Wrap
