import Deb822Verif.Lemmas.RelWrapOrder
/-!
  Uniqueness of the sorted form under a total preorder (`PreCmp`).

  A comparator such as `a.cmp(b).then(a.to_string().cmp(&b.to_string()))` is not antisymmetric on
  the elements themselves, but two elements that tie under it print alike.  Hence every sorted
  permutation of a list prints alike (`sorted_perm_map_eq`), in particular like the result of
  `List.mergeSort` (`sorted_unique`) — "any correct sort gives the same list".  When ties are equal
  elements the sorted permutation itself is unique (`sorted_perm_eq`).
-/
namespace Deb822Verif.Rel.Wrap
open Deb822Verif DebVersion
universe u v

theorem const_cons_map_comm {α : Type u} {β : Type v} (sh : α → β) (c : β) (l : List α)
    (h : ∀ x ∈ l, sh x = c) : c :: l.map sh = l.map sh ++ [c] := by
  induction l with
  | nil => rfl
  | cons x xs ih =>
    have hx : sh x = c := h x (by simp)
    simp only [List.map_cons, List.cons_append, hx]
    rw [ih (fun y hy => h y (by simp [hy]))]

/-- **Two sorted permutations of one another print alike**, when elements that tie under the
    comparison print alike. -/
theorem sorted_perm_map_eq {α : Type u} {β : Type v} {cmp : α → α → Ordering} (hc : PreCmp cmp)
    (sh : α → β) :
    ∀ (l₁ l₂ : List α), (∀ a ∈ l₁, ∀ b ∈ l₁, cmp a b = .eq → sh a = sh b) → l₁.Perm l₂ →
      l₁.Pairwise (fun a b => leOf cmp a b = true) → l₂.Pairwise (fun a b => leOf cmp a b = true) →
      l₁.map sh = l₂.map sh := by
  intro l₁
  induction l₁ with
  | nil =>
    intro l₂ _ hp _ _
    rw [List.Perm.nil_eq hp]
  | cons a t ih =>
    intro l₂ htie hp h1 h2
    have ha2 : a ∈ l₂ := hp.subset (by simp)
    obtain ⟨u₁, u₂, rfl⟩ := List.append_of_mem ha2
    have hpt : t.Perm (u₁ ++ u₂) := (hp.trans List.perm_middle).cons_inv
    rw [List.pairwise_append] at h2
    obtain ⟨hu1, hau2, hcross⟩ := h2
    rw [List.pairwise_cons] at hau2 h1
    have hs2 : (u₁ ++ u₂).Pairwise (fun a b => leOf cmp a b = true) :=
      List.pairwise_append.2 ⟨hu1, hau2.2, fun x hx y hy => hcross x hx y (by simp [hy])⟩
    have hih := ih (u₁ ++ u₂) (fun x hx y hy => htie x (by simp [hx]) y (by simp [hy])) hpt h1.2 hs2
    -- everything before `a` in `l₂` ties with `a`
    have htieu : ∀ x ∈ u₁, sh x = sh a := by
      intro x hx
      have hxa : leOf cmp x a = true := hcross x hx a (by simp)
      have hxl : x ∈ a :: t := hp.symm.subset (by simp [hx])
      have hax : leOf cmp a x = true := by
        rcases List.mem_cons.1 hxl with rfl | hxt
        · simp [leOf, hc.refl]
        · exact h1.1 x hxt
      simp only [leOf, bne_iff_ne, ne_eq] at hxa hax
      exact htie x hxl a (by simp) (hc.antisymm hxa hax)
    simp only [List.map_cons, List.map_append, hih]
    rw [← List.cons_append, const_cons_map_comm sh (sh a) u₁ htieu]
    simp

/-- **sort uniqueness**: every sorted permutation of `l` prints like `List.mergeSort` of `l` -/
theorem sorted_unique {α : Type u} {β : Type v} {cmp : α → α → Ordering} (hc : PreCmp cmp) (sh : α → β)
    (l l' : List α) (htie : ∀ a ∈ l, ∀ b ∈ l, cmp a b = .eq → sh a = sh b) (hp : l'.Perm l)
    (hs : l'.Pairwise (fun a b => leOf cmp a b = true)) :
    l'.map sh = (l.mergeSort (leOf cmp)).map sh :=
  sorted_perm_map_eq hc sh l' _
    (fun a ha b hb => htie a (hp.subset ha) b (hp.subset hb))
    (hp.trans (List.mergeSort_perm _ _).symm) hs (pairwise_sort hc l)

/-- when ties are equal elements, the sorted permutation is unique -/
theorem sorted_perm_eq {α : Type u} {cmp : α → α → Ordering} (hc : PreCmp cmp) (l₁ l₂ : List α)
    (htie : ∀ a ∈ l₁, ∀ b ∈ l₁, cmp a b = .eq → a = b) (hp : l₁.Perm l₂)
    (h1 : l₁.Pairwise (fun a b => leOf cmp a b = true))
    (h2 : l₂.Pairwise (fun a b => leOf cmp a b = true)) : l₁ = l₂ := by
  have := sorted_perm_map_eq hc id l₁ l₂ htie hp h1 h2
  simpa using this

/-- a sort of permuted inputs: same output, when ties are equal elements -/
theorem mergeSort_perm_eq {α : Type u} {cmp : α → α → Ordering} (hc : PreCmp cmp) (l₁ l₂ : List α)
    (htie : ∀ a ∈ l₁, ∀ b ∈ l₁, cmp a b = .eq → a = b) (hp : l₁.Perm l₂) :
    l₁.mergeSort (leOf cmp) = l₂.mergeSort (leOf cmp) :=
  sorted_perm_eq hc _ _
    (fun a ha b hb => htie a (List.mem_mergeSort.1 ha) b (List.mem_mergeSort.1 hb))
    (((List.mergeSort_perm _ _).trans hp).trans (List.mergeSort_perm _ _).symm)
    (pairwise_sort hc l₁) (pairwise_sort hc l₂)

/-- a function that returns a sorted permutation of its argument, for the comparison `cmp` -/
def IsSortFor {α : Type u} (cmp : α → α → Ordering) (srt : List α → List α) : Prop :=
  ∀ l, (srt l).Perm l ∧ (srt l).Pairwise (fun a b => leOf cmp a b = true)

theorem isSortFor_mergeSort {α : Type u} {cmp : α → α → Ordering} (hc : PreCmp cmp) :
    IsSortFor cmp (fun l => l.mergeSort (leOf cmp)) :=
  fun l => ⟨List.mergeSort_perm _ _, pairwise_sort hc l⟩

/-! non-vacuity: a comparison with ties that print alike (numbers compared by `n / 2`, printed as `n / 2`) -/
example : [2, 3, 5].map (· / 2) = ([5, 2, 3].mergeSort (leOf fun a b => natCmp (a / 2) (b / 2))).map (· / 2) :=
  sorted_unique (natCmp_pre.comap (· / 2)) (· / 2) [5, 2, 3] [2, 3, 5]
    (fun a _ b _ h => by
      unfold natCmp at h
      (repeat' split at h) <;> simp_all)
    (((List.Perm.swap 5 3 []).cons 2).trans (List.Perm.swap 5 2 [3])) (by decide)

example : [1, 2] = [2, 1].mergeSort (leOf natCmp) :=
  sorted_perm_eq natCmp_pre [1, 2] _
    (fun a _ b _ h => by unfold natCmp at h; (repeat' split at h) <;> simp_all)
    ((List.Perm.swap 2 1 []).trans (List.mergeSort_perm _ _).symm) (by decide) (pairwise_sort natCmp_pre _)

example : [1, 2].mergeSort (leOf natCmp) = [2, 1].mergeSort (leOf natCmp) :=
  mergeSort_perm_eq natCmp_pre _ _
    (fun a _ b _ h => by unfold natCmp at h; (repeat' split at h) <;> simp_all) (List.Perm.swap 2 1 [])

end Deb822Verif.Rel.Wrap
