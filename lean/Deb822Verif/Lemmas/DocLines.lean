import Deb822Verif.Spec.DocGrammar
import Deb822Verif.Spec.DocSDec
import Deb822Verif.Lemmas.DebRejectOrphan
/-!
# The flat line grammar (`Spec.Line`, `render`, `content`) tied to the structured one (`DocS`)

`Spec/DocGrammar.lean` has the line list the generator / oracle of C03 use but no well-formedness
predicate; the driver turns a line list into a `DocS` by the `partial def buildDoc` and checks
`DocS.WF` at run time. Here:

* `Line.Valid`, `LinesWF` — well-formedness of a line list, stated on the lines themselves: every
  line is a legal blank / comment / field / continuation line, and a continuation line directly
  follows a field or continuation line;
* `docOfLines` — a total, structurally recursive version of `buildDoc` (the line list is read from
  the right; `Suf` is the structure of a suffix);
* `docOfLines_spec` — on a well-formed line list it yields a `DocS` that is `WF`, has the rendered
  text and the content of the flat grammar; with a final newline it is `DocTermAll`.
-/
namespace Deb822Verif.Spec
open Deb822Verif Deb

/-! ### well-formed line lists -/

/-- a legal line of the grammar (what it may follow is said by `LinesWF`) -/
def Line.Valid : Line → Prop
  | .blank => True
  | .comment t => NoNl t
  | .field k ws v => ValidKey k ∧ AllIndent ws ∧ ValidFirst v
  | .cont i v => i ≠ [] ∧ AllIndent i ∧ ValidCont v
  | .raw _ => False

instance (l : Line) : Decidable l.Valid := by
  cases l <;> simp only [Line.Valid] <;> exact inferInstance

def Line.isCont : Line → Bool
  | .cont _ _ => true
  | _ => false

/-- a field or continuation line: a continuation line may follow -/
def Line.isValue : Line → Bool
  | .field _ _ _ => true
  | .cont _ _ => true
  | _ => false

/-- `prev` = the line before is a field or continuation line -/
def LinesWFFrom : Bool → List Line → Prop
  | _, [] => True
  | prev, l :: ls => l.Valid ∧ (l.isCont = true → prev = true) ∧ LinesWFFrom l.isValue ls

/-- **well-formed line list**: every line is a legal blank / comment / field / continuation line and
    every continuation line directly follows a field or continuation line (so: not the first line,
    not after a blank line, not after a comment line) -/
def LinesWF (ls : List Line) : Prop := LinesWFFrom false ls

instance linesWFFromDec : (prev : Bool) → (ls : List Line) → Decidable (LinesWFFrom prev ls)
  | _, [] => isTrue trivial
  | prev, l :: ls =>
    have := linesWFFromDec l.isValue ls
    by simp only [LinesWFFrom]; exact inferInstance

instance (ls : List Line) : Decidable (LinesWF ls) := by unfold LinesWF; exact inferInstance

theorem linesWFFrom_append_left (a b : List Line) : ∀ prev, LinesWFFrom prev (a ++ b) → LinesWFFrom prev a := by
  induction a with
  | nil => intro _ _; trivial
  | cons l ls ih =>
    intro prev h
    exact ⟨h.1, h.2.1, ih _ h.2.2⟩

/-- every prefix of a well-formed line list is well-formed -/
theorem LinesWF.prefix {a b : List Line} (h : LinesWF (a ++ b)) : LinesWF a :=
  linesWFFrom_append_left a b false h

theorem LinesWF.take {ls : List Line} (h : LinesWF ls) (i : Nat) : LinesWF (ls.take i) := by
  have : LinesWF (ls.take i ++ ls.drop i) := by rw [List.take_append_drop]; exact h
  exact this.prefix

/-! ### rendering, line by line -/

theorem render_cons (l : Line) (ls : List Line) (fnl : Bool) :
    render (l :: ls) fnl = l.text ++ (nlText (!ls.isEmpty || fnl) ++ render ls fnl) := by
  cases ls with
  | nil => cases fnl <;> simp [render, nlText]
  | cons x xs => simp [render, nlText]

/-- a text rendered from lines, cut between two lines: the lines before (all terminated) and the rest -/
theorem render_append (a b : List Line) (fnl : Bool) (hb : b ≠ []) :
    render (a ++ b) fnl = render a true ++ render b fnl := by
  induction a with
  | nil => simp [render]
  | cons l ls ih =>
    rw [List.cons_append, render_cons, render_cons, ih]
    have : (ls ++ b).isEmpty = false := by cases ls <;> cases b <;> simp_all
    simp [this, nlText]

/-! ### the structure of a suffix of the line list -/

/-- a suffix of the document, read from its first line: continuation lines (of a field before the
    suffix), then comment lines / fields up to the first blank line, then — if there is a blank
    line — blank / comment lines and paragraphs as in `DocS`. Whether leading comment lines belong to
    a paragraph or stand between paragraphs depends on what comes before the suffix. -/
structure Suf where
  conts : List ContS
  items : List PItem
  gaps : List Gap
  paras : List (ParaS × List Gap)

def Suf.empty : Suf := ⟨[], [], [], []⟩

/-- the items at a place where no paragraph is open: comment lines stand alone, the first field
    opens a paragraph that takes all the other items -/
def closeItems : List PItem → List Gap → List (ParaS × List Gap) → List Gap × List (ParaS × List Gap)
  | [], gaps, paras => (gaps, paras)
  | .comment t nl :: is, gaps, paras =>
    (.comment t nl :: (closeItems is gaps paras).1, (closeItems is gaps paras).2)
  | .entry e :: is, gaps, paras => ([], (⟨e, is⟩, gaps) :: paras)

/-- put one line (`nl`: it is LF-terminated) in front of a suffix -/
def Suf.cons (l : Line) (nl : Bool) (s : Suf) : Option Suf :=
  match l, s.conts with
  | .blank, [] =>
    -- an unterminated blank last line is no line at all
    if nl then some ⟨[], [], .blank :: (closeItems s.items s.gaps s.paras).1,
      (closeItems s.items s.gaps s.paras).2⟩ else some s
  | .comment t, [] => some ⟨[], .comment t nl :: s.items, s.gaps, s.paras⟩
  | .field k w v, cs => some ⟨[], .entry ⟨k, w, v, nl, cs⟩ :: s.items, s.gaps, s.paras⟩
  | .cont i v, cs => some ⟨⟨i, v, nl⟩ :: cs, s.items, s.gaps, s.paras⟩
  | _, _ => none

/-- every line is LF-terminated, the last one iff `fnl` -/
def sufOfLines : List Line → Bool → Option Suf
  | [], _ => some Suf.empty
  | l :: ls, fnl => (sufOfLines ls fnl).bind (Suf.cons l (!ls.isEmpty || fnl))

/-- **line list → structured document** (total; what the driver's `partial def buildDoc` computes):
    `none` iff a continuation line stands where there is no field to continue, or there is a `raw`
    line -/
def docOfLines (ls : List Line) (fnl : Bool) : Option DocS :=
  match sufOfLines ls fnl with
  | some ⟨[], items, gaps, paras⟩ => some ⟨(closeItems items gaps paras).1, (closeItems items gaps paras).2⟩
  | _ => none

/-! ### text -/

def contsStr (cs : List ContS) : Str := (cs.map ContS.str).flatten
def itemsStr (is : List PItem) : Str := (is.map PItem.str).flatten
def parasStr (ps : List (ParaS × List Gap)) : Str := (ps.map fun pg => pg.1.str ++ gapsStr pg.2).flatten
def Suf.str (s : Suf) : Str := contsStr s.conts ++ (itemsStr s.items ++ (gapsStr s.gaps ++ parasStr s.paras))

theorem closeItems_str (is : List PItem) (gaps paras) :
    gapsStr (closeItems is gaps paras).1 ++ parasStr (closeItems is gaps paras).2
      = itemsStr is ++ (gapsStr gaps ++ parasStr paras) := by
  induction is with
  | nil => simp [closeItems, itemsStr]
  | cons i is ih =>
    cases i with
    | comment t nl =>
      simp only [closeItems, gapsStr, List.map_cons, List.flatten_cons, Gap.str, itemsStr, PItem.str,
        List.append_assoc, List.cons_append] at ih ⊢
      rw [ih]
    | entry e =>
      simp [closeItems, gapsStr, parasStr, itemsStr, PItem.str, ParaS.str]

theorem Suf.cons_str (l : Line) (nl : Bool) (s s' : Suf) (h : Suf.cons l nl s = some s')
    (hnl : nl = false → s = Suf.empty) : s'.str = l.text ++ (nlText nl ++ s.str) := by
  obtain ⟨conts, items, gaps, paras⟩ := s
  cases l with
  | blank =>
    cases conts with
    | cons c cs => simp [Suf.cons] at h
    | nil =>
      cases nl with
      | true =>
        simp only [Suf.cons, ↓reduceIte, Option.some.injEq] at h
        subst h
        simp only [Suf.str, contsStr, itemsStr, List.map_nil, List.flatten_nil, List.nil_append, gapsStr,
          List.map_cons, List.flatten_cons, Gap.str, Line.text, nlText, ↓reduceIte, List.cons_append]
        have := closeItems_str items gaps paras
        simp only [gapsStr, itemsStr] at this
        rw [this]
      | false =>
        have := hnl rfl
        simp only [Suf.cons, Bool.false_eq_true, ↓reduceIte, Option.some.injEq] at h
        subst h; rw [this]
        simp [Suf.str, Suf.empty, contsStr, itemsStr, gapsStr, parasStr, Line.text, nlText]
  | comment t =>
    cases conts with
    | cons c cs => simp [Suf.cons] at h
    | nil =>
      simp only [Suf.cons, Option.some.injEq] at h
      subst h
      simp [Suf.str, contsStr, itemsStr, PItem.str, Line.text]
  | field k w v =>
    simp only [Suf.cons, Option.some.injEq] at h
    subst h
    simp [Suf.str, contsStr, itemsStr, PItem.str, EntryS.str, Line.text]
  | cont i v =>
    simp only [Suf.cons, Option.some.injEq] at h
    subst h
    simp [Suf.str, contsStr, ContS.str, Line.text]
  | raw t => simp [Suf.cons] at h

/-! ### well-formedness and line termination -/

/-- `parasTerm` (`fin = false`: nothing follows the document) and `parasTermR` (`fin = true`:
    something follows, every line is terminated) in one definition -/
def parasTermF (fin : Bool) : List (ParaS × List Gap) → Prop
  | [] => True
  | [(p, g)] => p.Term (!g.isEmpty || fin) ∧ (g = [] ∨ ∃ g', g = .blank :: g') ∧ gapsTerm g fin
  | (p, g) :: q :: ps => p.Term true ∧ (∃ g', g = .blank :: g') ∧ gapsTerm g true ∧ parasTermF fin (q :: ps)

theorem parasTermF_false : ∀ ps, parasTermF false ps ↔ parasTerm ps
  | [] => Iff.rfl
  | [(p, g)] => by simp [parasTermF, parasTerm]
  | (p, g) :: q :: ps => by simp only [parasTermF, parasTerm, parasTermF_false (q :: ps)]

theorem parasTermF_true : ∀ ps, parasTermF true ps ↔ parasTermR ps
  | [] => Iff.rfl
  | [(p, g)] => by simp [parasTermF, parasTermR]
  | (p, g) :: q :: ps => by simp only [parasTermF, parasTermR, parasTermF_true (q :: ps)]

/-- the invariant of a suffix. `fin`: something follows the document (then every line is terminated) -/
structure SInv (fin : Bool) (s : Suf) : Prop where
  conts_ok : ∀ c ∈ s.conts, c.WF
  items_ok : ∀ i ∈ s.items, i.WF
  gaps_ok : ∀ g ∈ s.gaps, g.WF
  paras_ok : ∀ pg ∈ s.paras, pg.1.WF ∧ ∀ g ∈ pg.2, g.WF
  conts_term : contsTerm s.conts (!s.items.isEmpty || (!s.gaps.isEmpty || fin))
  items_term : itemsTerm s.items (!s.gaps.isEmpty || fin)
  shape : (s.gaps = [] ∧ s.paras = []) ∨ ∃ g', s.gaps = .blank :: g'
  gaps_term : gapsTerm s.gaps (!s.paras.isEmpty || fin)
  paras_term : parasTermF fin s.paras

theorem SInv.empty (fin : Bool) : SInv fin Suf.empty := by
  refine ⟨?_, ?_, ?_, ?_, ?_, ?_, Or.inl ⟨rfl, rfl⟩, ?_, ?_⟩ <;> simp [Suf.empty, contsTerm, itemsTerm, gapsTerm, parasTermF]

theorem closeItems_ok (is : List PItem) (gaps paras) (hi : ∀ i ∈ is, i.WF) (hg : ∀ g ∈ gaps, g.WF)
    (hp : ∀ pg ∈ paras, pg.1.WF ∧ ∀ g ∈ pg.2, g.WF) :
    (∀ g ∈ (closeItems is gaps paras).1, g.WF)
    ∧ ∀ pg ∈ (closeItems is gaps paras).2, pg.1.WF ∧ ∀ g ∈ pg.2, g.WF := by
  induction is with
  | nil => exact ⟨hg, hp⟩
  | cons i is ih =>
    have ih' := ih (fun x hx => hi x (by simp [hx]))
    cases i with
    | comment t nl =>
      refine ⟨?_, ih'.2⟩
      intro g hg'
      simp only [closeItems, List.mem_cons] at hg'
      rcases hg' with rfl | h
      · exact hi (.comment t nl) (by simp)
      · exact ih'.1 g h
    | entry e =>
      refine ⟨by simp [closeItems], ?_⟩
      intro pg hpg
      simp only [closeItems, List.mem_cons] at hpg
      rcases hpg with rfl | h
      · exact ⟨⟨hi (.entry e) (by simp), fun x hx => hi x (by simp [hx])⟩, hg⟩
      · exact hp pg h

theorem closeItems_term (fin : Bool) (is : List PItem) (gaps paras)
    (hit : itemsTerm is (!gaps.isEmpty || fin))
    (hs : (gaps = [] ∧ paras = []) ∨ ∃ g', gaps = .blank :: g')
    (hg : gapsTerm gaps (!paras.isEmpty || fin)) (hp : parasTermF fin paras) :
    gapsTerm (closeItems is gaps paras).1 (!(closeItems is gaps paras).2.isEmpty || fin)
    ∧ parasTermF fin (closeItems is gaps paras).2 := by
  induction is with
  | nil => exact ⟨hg, hp⟩
  | cons i is ih =>
    cases i with
    | comment t nl =>
      obtain ⟨h1, h2⟩ := hit
      have ih' := ih h2
      refine ⟨⟨?_, ih'.1⟩, ih'.2⟩
      rcases h1 with h | ⟨h, hm⟩
      · exact Or.inl h
      · right
        subst h
        simp only [Bool.or_eq_false_iff, Bool.not_eq_eq_eq_not, Bool.not_false, List.isEmpty_iff] at hm
        obtain ⟨hg0, hfin⟩ := hm
        subst hg0
        rcases hs with ⟨_, hp0⟩ | ⟨g', hg'⟩
        · subst hp0; simp [closeItems, hfin]
        · simp at hg'
    | entry e =>
      obtain ⟨h1, h2⟩ := hit
      refine ⟨trivial, ?_⟩
      simp only [closeItems]
      cases paras with
      | nil =>
        simp only [parasTermF, ParaS.Term]
        refine ⟨⟨h1, h2⟩, ?_, by simpa using hg⟩
        rcases hs with ⟨h, _⟩ | h
        · exact Or.inl h
        · exact Or.inr h
      | cons q ps =>
        have hb : ∃ g', gaps = .blank :: g' := by
          rcases hs with ⟨_, h⟩ | h
          · simp at h
          · exact h
        obtain ⟨g', rfl⟩ := hb
        simp only [parasTermF, ParaS.Term]
        refine ⟨by simpa using And.intro h1 h2, ⟨g', rfl⟩, by simpa using hg, hp⟩

theorem Suf.cons_inv (fin : Bool) (l : Line) (nl : Bool) (s s' : Suf) (h : Suf.cons l nl s = some s')
    (hv : l.Valid) (hi : SInv fin s) (hnl : nl = false → s = Suf.empty ∧ fin = false) : SInv fin s' := by
  obtain ⟨conts, items, gaps, paras⟩ := s
  cases l with
  | raw t => simp [Suf.cons] at h
  | blank =>
    cases conts with
    | cons c cs => simp [Suf.cons] at h
    | nil =>
      cases nl with
      | false =>
        simp only [Suf.cons, Bool.false_eq_true, ↓reduceIte, Option.some.injEq] at h
        subst h; exact hi
      | true =>
        simp only [Suf.cons, ↓reduceIte, Option.some.injEq] at h
        subst h
        have hok := closeItems_ok items gaps paras hi.items_ok hi.gaps_ok hi.paras_ok
        have ht := closeItems_term fin items gaps paras hi.items_term hi.shape hi.gaps_term hi.paras_term
        refine ⟨by simp, by simp, ?_, hok.2, trivial, trivial, Or.inr ⟨_, rfl⟩, ht.1, ht.2⟩
        intro g hg
        simp only [List.mem_cons] at hg
        rcases hg with rfl | hg
        · trivial
        · exact hok.1 g hg
  | comment t =>
    cases conts with
    | cons c cs => simp [Suf.cons] at h
    | nil =>
      simp only [Suf.cons, Option.some.injEq] at h
      subst h
      refine ⟨by simp, ?_, hi.gaps_ok, hi.paras_ok, trivial, ⟨?_, hi.items_term⟩, hi.shape, hi.gaps_term,
        hi.paras_term⟩
      · intro i hi'
        simp only [List.mem_cons] at hi'
        rcases hi' with rfl | hi'
        · exact hv
        · exact hi.items_ok i hi'
      · cases nl with
        | true => exact Or.inl rfl
        | false =>
          obtain ⟨he, hf⟩ := hnl rfl
          simp only [Suf.empty, Suf.mk.injEq] at he
          right; simp [he.2.1, he.2.2.1, hf]
  | field k w v =>
    simp only [Suf.cons, Option.some.injEq] at h
    subst h
    refine ⟨by simp, ?_, hi.gaps_ok, hi.paras_ok, trivial, ⟨⟨?_, hi.conts_term⟩, hi.items_term⟩, hi.shape,
      hi.gaps_term, hi.paras_term⟩
    · intro i hi'
      simp only [List.mem_cons] at hi'
      rcases hi' with rfl | hi'
      · exact ⟨hv.1, hv.2.1, hv.2.2, hi.conts_ok⟩
      · exact hi.items_ok i hi'
    · cases nl with
      | true => exact Or.inl rfl
      | false =>
        obtain ⟨he, hf⟩ := hnl rfl
        simp only [Suf.empty, Suf.mk.injEq] at he
        right; simp [he.1, he.2.1, he.2.2.1, hf]
  | cont i v =>
    simp only [Suf.cons, Option.some.injEq] at h
    subst h
    refine ⟨?_, hi.items_ok, hi.gaps_ok, hi.paras_ok, ⟨?_, hi.conts_term⟩, hi.items_term, hi.shape,
      hi.gaps_term, hi.paras_term⟩
    · intro c hc
      simp only [List.mem_cons] at hc
      rcases hc with rfl | hc
      · exact ⟨hv.1, hv.2.1, hv.2.2⟩
      · exact hi.conts_ok c hc
    · cases nl with
      | true => exact Or.inl rfl
      | false =>
        obtain ⟨he, hf⟩ := hnl rfl
        simp only [Suf.empty, Suf.mk.injEq] at he
        right; simp [he.1, he.2.1, he.2.2.1, hf]

/-! ### content -/

/-- one line of `contentAux` -/
def stepAcc : Line → List (List (Str × Str)) → List (Str × List Str) →
    List (List (Str × Str)) × List (Str × List Str)
  | .blank, done, cur => (if cur = [] then done else finishPara cur :: done, [])
  | .comment _, done, cur => (done, cur)
  | .field k _ v, done, cur => (done, (k, if v = [] then [] else [v]) :: cur)
  | .cont _ v, done, cur => (done, pushLine cur v)
  | .raw _, done, cur => (done, cur)

theorem contentAux_cons (l : Line) (ls done cur) :
    contentAux (l :: ls) done cur = contentAux ls (stepAcc l done cur).1 (stepAcc l done cur).2 := by
  cases l <;> rfl

def contsCur (cs : List ContS) (cur : List (Str × List Str)) : List (Str × List Str) :=
  cs.foldl (fun acc c => pushLine acc c.text) cur

def itemsCur : List PItem → List (Str × List Str) → List (Str × List Str)
  | [], cur => cur
  | .comment _ _ :: is, cur => itemsCur is cur
  | .entry e :: is, cur => itemsCur is (contsCur e.conts ((e.key, if e.v = [] then [] else [e.v]) :: cur))

def optPara (cur : List (Str × List Str)) : List (List (Str × Str)) :=
  if cur = [] then [] else [finishPara cur]

/-- what `contentAux` returns on a suffix, in terms of the structure of the suffix -/
def Suf.contentFrom (s : Suf) (done : List (List (Str × Str))) (cur : List (Str × List Str)) :
    List (List (Str × Str)) :=
  done.reverse ++ (optPara (itemsCur s.items (contsCur s.conts cur)) ++ s.paras.map fun pg => pg.1.content)

theorem contsCur_eq (cs : List ContS) (h : ∀ c ∈ cs, c.text ≠ []) (k : Str) (ls : List Str) (cur) :
    contsCur cs ((k, ls) :: cur) = (k, (cs.map ContS.text).reverse ++ ls) :: cur := by
  induction cs generalizing ls with
  | nil => simp [contsCur]
  | cons c cs ih =>
    have hc := h c (by simp)
    have := ih (fun x hx => h x (by simp [hx])) (c.text :: ls)
    simp only [contsCur, List.foldl_cons, pushLine, hc, ↓reduceIte] at this ⊢
    rw [this]; simp

theorem finishPara_cons (x : Str × List Str) (cur) :
    finishPara (x :: cur) = finishPara cur ++ [(x.1, Text.join ['\n'] x.2.reverse)] := by
  simp [finishPara]

theorem entry_cur (e : EntryS) (h : ∀ c ∈ e.conts, c.text ≠ []) (cur) :
    contsCur e.conts ((e.key, if e.v = [] then [] else [e.v]) :: cur) = (e.key, e.valueLines.reverse) :: cur := by
  rw [contsCur_eq e.conts h]
  simp only [EntryS.valueLines, List.reverse_append]
  split <;> simp

theorem entryWF_conts_ne (e : EntryS) (h : e.WF) : ∀ c ∈ e.conts, c.text ≠ [] := by
  intro c hc
  obtain ⟨_, x, xs, hx, _⟩ := (h.conts_ok c hc).text_ok
  rw [hx]; simp

theorem finishPara_itemsCur (is : List PItem) (h : ∀ i ∈ is, i.WF) (cur) :
    finishPara (itemsCur is cur) = finishPara cur ++ (is.map PItem.content).flatten := by
  induction is generalizing cur with
  | nil => simp [itemsCur]
  | cons i is ih =>
    have ih' := ih (fun x hx => h x (by simp [hx]))
    cases i with
    | comment t nl => simpa [itemsCur, PItem.content] using ih' cur
    | entry e =>
      have he : e.WF := h (.entry e) (by simp)
      simp only [itemsCur, entry_cur e (entryWF_conts_ne e he), ih', finishPara_cons, List.map_cons,
        List.flatten_cons, PItem.content, EntryS.content, List.reverse_reverse, List.append_assoc]

theorem itemsCur_ne (is : List PItem) (h : ∀ i ∈ is, i.WF) (cur) (hc : cur ≠ []) : itemsCur is cur ≠ [] := by
  induction is generalizing cur with
  | nil => simpa [itemsCur] using hc
  | cons i is ih =>
    have ih' := ih (fun x hx => h x (by simp [hx]))
    cases i with
    | comment t nl => simpa [itemsCur] using ih' cur hc
    | entry e =>
      have he : e.WF := h (.entry e) (by simp)
      simp only [itemsCur, entry_cur e (entryWF_conts_ne e he)]
      exact ih' _ (by simp)

theorem closeItems_content (is : List PItem) (h : ∀ i ∈ is, i.WF) (gaps paras) :
    ((closeItems is gaps paras).2.map fun pg => pg.1.content)
      = optPara (itemsCur is []) ++ paras.map fun pg => pg.1.content := by
  induction is with
  | nil => simp [closeItems, itemsCur, optPara]
  | cons i is ih =>
    cases i with
    | comment t nl => simpa [closeItems, itemsCur] using ih (fun x hx => h x (by simp [hx]))
    | entry e =>
      have hne := itemsCur_ne (.entry e :: is) h [] 
      have he : e.WF := h (.entry e) (by simp)
      have hne : itemsCur (.entry e :: is) [] ≠ [] := by
        simp only [itemsCur, entry_cur e (entryWF_conts_ne e he)]
        exact itemsCur_ne is (fun x hx => h x (by simp [hx])) _ (by simp)
      have hf := finishPara_itemsCur (.entry e :: is) h []
      simp only [closeItems, List.map_cons, optPara, hne, ↓reduceIte, hf, ParaS.content, PItem.content,
        List.flatten_cons]
      simp [finishPara]

theorem Suf.cons_content (fin : Bool) (l : Line) (nl : Bool) (s s' : Suf) (h : Suf.cons l nl s = some s')
    (hi : SInv fin s) (hnl : nl = false → s = Suf.empty) (done cur) :
    s.contentFrom (stepAcc l done cur).1 (stepAcc l done cur).2 = s'.contentFrom done cur := by
  obtain ⟨conts, items, gaps, paras⟩ := s
  cases l with
  | raw t => simp [Suf.cons] at h
  | blank =>
    cases conts with
    | cons c cs => simp [Suf.cons] at h
    | nil =>
      cases nl with
      | false =>
        have he := hnl rfl
        simp only [Suf.cons, Bool.false_eq_true, ↓reduceIte, Option.some.injEq] at h
        subst h
        simp only [Suf.empty, Suf.mk.injEq] at he
        obtain ⟨_, rfl, rfl, rfl⟩ := he
        simp only [Suf.contentFrom, stepAcc, contsCur, List.foldl_nil, itemsCur, optPara, ↓reduceIte,
          List.map_nil, List.append_nil]
        by_cases hc : cur = [] <;> simp [hc]
      | true =>
        simp only [Suf.cons, ↓reduceIte, Option.some.injEq] at h
        subst h
        simp only [Suf.contentFrom, stepAcc, contsCur, List.foldl_nil, itemsCur,
          closeItems_content items hi.items_ok gaps paras]
        simp only [optPara]
        by_cases hc : cur = [] <;> simp [hc]
  | comment t =>
    cases conts with
    | cons c cs => simp [Suf.cons] at h
    | nil =>
      simp only [Suf.cons, Option.some.injEq] at h
      subst h
      simp [Suf.contentFrom, stepAcc, contsCur, itemsCur]
  | field k w v =>
    simp only [Suf.cons, Option.some.injEq] at h
    subst h
    simp [Suf.contentFrom, stepAcc, contsCur, itemsCur]
  | cont i v =>
    simp only [Suf.cons, Option.some.injEq] at h
    subst h
    simp [Suf.contentFrom, stepAcc, contsCur]

/-! ### the main induction -/

theorem sufOfLines_spec (fin fnl : Bool) (hfin : fin = true → fnl = true) :
    ∀ (ls : List Line) (prev : Bool), LinesWFFrom prev ls →
      ∃ s, sufOfLines ls fnl = some s ∧ (prev = false → s.conts = []) ∧ SInv fin s
        ∧ s.str = render ls fnl ∧ (ls = [] → s = Suf.empty)
        ∧ ∀ done cur, contentAux ls done cur = s.contentFrom done cur := by
  intro ls
  induction ls with
  | nil =>
    intro prev _
    refine ⟨Suf.empty, rfl, fun _ => rfl, SInv.empty fin, by simp [Suf.str, Suf.empty, contsStr, itemsStr, gapsStr, parasStr, render], fun _ => rfl, ?_⟩
    intro done cur
    simp only [contentAux, Suf.contentFrom, Suf.empty, contsCur, List.foldl_nil, itemsCur, optPara,
      List.map_nil, List.append_nil]
    split <;> simp
  | cons l ls ih =>
    intro prev h
    obtain ⟨hv, hc, hrest⟩ := h
    obtain ⟨s, hs, hconts, hinv, hstr, hemp, hcont⟩ := ih l.isValue hrest
    have hnl : (!ls.isEmpty || fnl) = false → s = Suf.empty ∧ fin = false := by
      intro hf
      simp only [Bool.or_eq_false_iff, Bool.not_eq_eq_eq_not, Bool.not_false, List.isEmpty_iff] at hf
      refine ⟨hemp hf.1, ?_⟩
      cases fin with
      | false => rfl
      | true => rw [hfin rfl] at hf; simp at hf
    have hex : ∃ s', Suf.cons l (!ls.isEmpty || fnl) s = some s' ∧ (prev = false → s'.conts = []) := by
      cases l with
      | raw t => exact absurd hv (by simp [Line.Valid])
      | blank => simp [Suf.cons, hconts rfl]; split <;> simp [hconts rfl]
      | comment t => simp [Suf.cons, hconts rfl]
      | field k w v => simp [Suf.cons]
      | cont i v =>
        refine ⟨_, rfl, ?_⟩
        intro hp; rw [hc rfl] at hp; simp at hp
    obtain ⟨s', hs', hconts'⟩ := hex
    refine ⟨s', by simp [sufOfLines, hs, hs'], hconts', Suf.cons_inv fin l _ s s' hs' hv hinv hnl, ?_,
      by simp, ?_⟩
    · rw [Suf.cons_str l _ s s' hs' (fun hf => (hnl hf).1), hstr, render_cons]
    · intro done cur
      rw [contentAux_cons, hcont, Suf.cons_content fin l _ s s' hs' hinv (fun hf => (hnl hf).1)]

/-- **the structured document of a well-formed line list**: it exists, is well-formed (`DocS.WF`), is
    written as `render` writes the lines and has the content the flat grammar assigns -/
theorem docOfLines_spec (ls : List Line) (fnl : Bool) (h : LinesWF ls) :
    ∃ d, docOfLines ls fnl = some d ∧ d.WF ∧ d.str = render ls fnl ∧ d.content = content ls := by
  obtain ⟨s, hs, hconts, hinv, hstr, _, hcont⟩ := sufOfLines_spec false fnl (by simp) ls false h
  obtain ⟨conts, items, gaps, paras⟩ := s
  have hc : conts = [] := hconts rfl
  subst hc
  refine ⟨⟨(closeItems items gaps paras).1, (closeItems items gaps paras).2⟩, by simp [docOfLines, hs], ?_, ?_, ?_⟩
  · have hok := closeItems_ok items gaps paras hinv.items_ok hinv.gaps_ok hinv.paras_ok
    have ht := closeItems_term false items gaps paras hinv.items_term hinv.shape hinv.gaps_term hinv.paras_term
    exact ⟨hok.1, by simpa using ht.1, hok.2, (parasTermF_false _).1 ht.2⟩
  · rw [← hstr]
    have := closeItems_str items gaps paras
    simp only [DocS.str, Suf.str, contsStr, List.map_nil, List.flatten_nil, List.nil_append]
    simpa [parasStr] using this
  · rw [content, hcont]
    simp [DocS.content, Suf.contentFrom, contsCur, closeItems_content items hinv.items_ok gaps paras]

/-- with a final newline every line is LF-terminated -/
theorem docOfLines_termAll (ls : List Line) (h : LinesWF ls) (d : DocS) (hd : docOfLines ls true = some d) :
    DocTermAll d := by
  obtain ⟨s, hs, hconts, hinv, _, _, _⟩ := sufOfLines_spec true true (by simp) ls false h
  obtain ⟨conts, items, gaps, paras⟩ := s
  have hc : conts = [] := hconts rfl
  subst hc
  have : d = ⟨(closeItems items gaps paras).1, (closeItems items gaps paras).2⟩ := by
    simp [docOfLines, hs] at hd; exact hd.symm
  subst this
  have ht := closeItems_term true items gaps paras hinv.items_term hinv.shape hinv.gaps_term hinv.paras_term
  exact ⟨by simpa using ht.1, (parasTermF_true _).1 ht.2⟩

end Deb822Verif.Spec
