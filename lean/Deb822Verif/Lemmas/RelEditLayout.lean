import Deb822Verif.Lemmas.RelEditStruct
/-!
  Layouts of relationship fields that are CLOSED under the editing operations (property C11).

  The tree the parser builds for a well-formed field (`FieldA.tree`) puts every gap at one fixed
  place (inside the RELATION node after a qualifier, in the ENTRY node at end of input, …) and a gap
  is one token per run of blanks. The editing operations do not keep that: `add_profile` on
  `a:any | b` gives `IDENT ARCHQUAL WS WS PROFILES` (two blanks as two tokens), `remove_relation`
  leaves a trailing gap partly inside a RELATION node and partly in its ENTRY, and so on.

  `LSeg` / `lkids` describe the trees that do occur: the same grammar, where
  * a gap is any list of blank / newline tokens (`gapOkL`: adjacent WHITESPACE tokens allowed), and
  * the gap after a relation is split freely between the RELATION node (`LRel.tail`), the ENTRY node
    (`LAlt.gb`, `LEnt.post`) and the root (`LSeg.post`).
  `LSeg.toA` merges the pieces again: every such tree prints a well-formed field of the grammar of
  C10 and `abs` reads that field's items off it (`lay_reads`).
-/
set_option linter.unusedSimpArgs false
set_option linter.unusedVariables false
namespace Deb822Verif.RelSpec
open Deb822Verif Rel Node

/-! ### loose gaps -/

def pieceOk : GapPiece → Bool
  | .nl => true
  | .ws s => !s.isEmpty && s.all isWs

/-- every piece is a newline or a non-empty run of blanks; two runs may be adjacent -/
def gapOkL (g : Gap) : Bool := g.all pieceOk

/-- adjacent runs of blanks merged -/
def normGap : Gap → Gap
  | [] => []
  | .nl :: g => .nl :: normGap g
  | .ws s :: g =>
    match normGap g with
    | .ws t :: g' => .ws (s ++ t) :: g'
    | g' => .ws s :: g'

/-! ### relations with loose gaps in front of their parts -/

def VerPart.okL (v : VerPart) : Bool := gapOkL v.pre && gapOk v.g2 && gapOk v.g3 && gapOk v.g4 && v.ver.ok
def Bracket.okL (b : Bracket) : Bool := gapOkL b.pre && gapOk b.post && b.items.all Item.ok && laterGapsOk b.items

/-- as `RelA.ok`, but the gaps in front of the version, the architecture list and the restriction
    lists (the gaps the setters touch) are loose -/
def RelA.okL (r : RelA) : Bool :=
  isIdent r.name
    && (match r.archqual with | some a => isIdent a | none => true)
    && (match r.version with | some v => VerPart.okL v | none => true)
    && (match r.archs with | some a => Bracket.okL a | none => true)
    && r.profiles.all Bracket.okL

def VerPart.norm (v : VerPart) : VerPart := { v with pre := normGap v.pre }
def Bracket.norm (b : Bracket) : Bracket := { b with pre := normGap b.pre }
def RelA.norm (r : RelA) : RelA :=
  { r with version := r.version.map VerPart.norm, archs := r.archs.map Bracket.norm,
           profiles := r.profiles.map Bracket.norm }

end Deb822Verif.RelSpec

namespace Deb822Verif.Rel.Edit
open Deb822Verif Rel Node Build Lossy RelSpec
open Deb822Verif.Props.C10

theorem gapStr_nil : gapStr [] = [] := rfl
theorem gapStr_cons (p : GapPiece) (g : Gap) : gapStr (p :: g) = p.str ++ gapStr g := by simp [gapStr]
theorem gapStr_append (a b : Gap) : gapStr (a ++ b) = gapStr a ++ gapStr b := by simp [gapStr]

theorem gapStr_normGap (g : Gap) : gapStr (normGap g) = gapStr g := by
  induction g with
  | nil => rfl
  | cons p g ih =>
    cases p with
    | nl => simp only [normGap, gapStr_cons, ih]
    | ws s =>
      simp only [normGap]
      split
      · rename_i t g' h
        rw [h] at ih
        simp only [gapStr_cons, GapPiece.str] at ih ⊢
        rw [← ih]; simp
      · simp only [gapStr_cons, ih]

theorem gapOkL_cons (p : GapPiece) (g : Gap) : gapOkL (p :: g) = (pieceOk p && gapOkL g) := by simp [gapOkL]
theorem gapOkL_append (a b : Gap) : gapOkL (a ++ b) = (gapOkL a && gapOkL b) := by simp [gapOkL]
theorem gapOkL_nil : gapOkL [] = true := rfl
theorem gapOkL_sp : gapOkL sp = true := by decide

theorem gapOk_normGap (g : Gap) (h : gapOkL g = true) : gapOk (normGap g) = true := by
  induction g with
  | nil => rfl
  | cons p g ih =>
    rw [gapOkL_cons, Bool.and_eq_true] at h
    have ih' := ih h.2
    cases p with
    | nl => simp only [normGap, gapOk]; exact ih'
    | ws s =>
      have hs := h.1
      simp only [pieceOk, Bool.and_eq_true, Bool.not_eq_true', List.all_eq_true] at hs
      simp only [normGap]
      split
      · rename_i t g' hn
        rw [hn] at ih'
        simp only [gapOk, Bool.and_eq_true, Bool.not_eq_true', List.all_eq_true] at ih' ⊢
        refine ⟨⟨⟨by cases s <;> simp_all, ?_⟩, ih'.1.2⟩, ih'.2⟩
        intro c hc
        simp only [List.mem_append] at hc
        rcases hc with hc | hc
        · exact hs.2 c hc
        · exact ih'.1.1.2 c hc
      · rename_i hne
        simp only [gapOk, Bool.and_eq_true, Bool.not_eq_true', List.all_eq_true]
        refine ⟨⟨⟨hs.1, hs.2⟩, ?_⟩, ih'⟩
        first
          | trivial
          | (split
             · rename_i t g' hn
               exact absurd hn (hne t g')
             · rfl)

theorem gapOkL_of_ok (g : Gap) (h : gapOk g = true) : gapOkL g = true := by
  induction g with
  | nil => rfl
  | cons p g ih =>
    cases p with
    | nl => simp only [gapOk] at h; rw [gapOkL_cons, ih h]; rfl
    | ws s =>
      simp only [gapOk, Bool.and_eq_true] at h
      rw [gapOkL_cons, ih h.2]
      simp only [pieceOk, Bool.and_eq_true, Bool.and_true]
      exact h.1.1

theorem normGap_nil_iff (g : Gap) : normGap g = [] ↔ g = [] := by
  constructor
  · intro h
    have := congrArg List.length h
    cases g with
    | nil => rfl
    | cons p g =>
      cases p with
      | nl => simp [normGap] at h
      | ws s =>
        simp only [normGap] at h
        split at h <;> simp at h
  · rintro rfl; rfl

/-! ### relations with loose gaps: lemmas -/

theorem VerPart.okL_iff (p : VerPart) : VerPart.okL p = true ↔
    gapOkL p.pre = true ∧ gapOk p.g2 = true ∧ gapOk p.g3 = true ∧ gapOk p.g4 = true ∧ p.ver.ok = true := by
  simp [VerPart.okL, and_assoc]

theorem Bracket.okL_iff (b : Bracket) : Bracket.okL b = true ↔
    gapOkL b.pre = true ∧ gapOk b.post = true ∧ (∀ i ∈ b.items, i.ok = true) ∧ laterGapsOk b.items = true := by
  simp [Bracket.okL, and_assoc]

theorem RelA.okL_iff (r : RelA) : r.okL = true ↔
    isIdent r.name = true ∧ (∀ a, r.archqual = some a → isIdent a = true)
      ∧ (∀ v, r.version = some v → VerPart.okL v = true) ∧ (∀ a, r.archs = some a → Bracket.okL a = true)
      ∧ (∀ p ∈ r.profiles, Bracket.okL p = true) := by
  cases r with
  | mk name aq ver archs profs =>
    cases aq <;> cases ver <;> cases archs <;> simp [RelA.okL, and_assoc]

theorem VerPart.norm_ok (v : VerPart) (h : VerPart.okL v = true) : v.norm.ok = true := by
  obtain ⟨h1, h2, h3, h4, h5⟩ := (VerPart.okL_iff v).1 h
  exact (VerPart.ok_iff _).2 ⟨gapOk_normGap _ h1, h2, h3, h4, h5⟩

theorem Bracket.norm_ok (b : Bracket) (h : Bracket.okL b = true) : b.norm.ok = true := by
  obtain ⟨h1, h2, h3, h4⟩ := (Bracket.okL_iff b).1 h
  exact (Bracket.ok_iff _).2 ⟨gapOk_normGap _ h1, h2, h3, h4⟩

theorem RelA.norm_ok (r : RelA) (h : r.okL = true) : r.norm.ok = true := by
  obtain ⟨h1, h2, h3, h4, h5⟩ := (RelA.okL_iff r).1 h
  refine (RelA.ok_iff _).2 ⟨h1, h2, ?_, ?_, ?_⟩
  · intro v hv
    simp only [RelA.norm, Option.map_eq_some_iff] at hv
    obtain ⟨v0, hv0, rfl⟩ := hv
    exact VerPart.norm_ok v0 (h3 v0 hv0)
  · intro a ha
    simp only [RelA.norm, Option.map_eq_some_iff] at ha
    obtain ⟨a0, ha0, rfl⟩ := ha
    exact Bracket.norm_ok a0 (h4 a0 ha0)
  · intro p hp
    simp only [RelA.norm, List.mem_map] at hp
    obtain ⟨p0, hp0, rfl⟩ := hp
    exact Bracket.norm_ok p0 (h5 p0 hp0)

theorem VerPart.okL_of_ok (v : VerPart) (h : v.ok = true) : VerPart.okL v = true := by
  obtain ⟨h1, h2, h3, h4, h5⟩ := (VerPart.ok_iff v).1 h
  exact (VerPart.okL_iff _).2 ⟨gapOkL_of_ok _ h1, h2, h3, h4, h5⟩

theorem Bracket.okL_of_ok (b : Bracket) (h : b.ok = true) : Bracket.okL b = true := by
  obtain ⟨h1, h2, h3, h4⟩ := (Bracket.ok_iff b).1 h
  exact (Bracket.okL_iff _).2 ⟨gapOkL_of_ok _ h1, h2, h3, h4⟩

theorem RelA.okL_of_ok (r : RelA) (h : r.ok = true) : r.okL = true := by
  obtain ⟨h1, h2, h3, h4, h5⟩ := (RelA.ok_iff r).1 h
  exact (RelA.okL_iff _).2 ⟨h1, h2, fun v hv => VerPart.okL_of_ok v (h3 v hv), fun a ha => Bracket.okL_of_ok a (h4 a ha),
    fun p hp => Bracket.okL_of_ok p (h5 p hp)⟩

theorem VerPart.norm_str (v : VerPart) : v.norm.str = v.str := by
  simp [VerPart.norm, VerPart.str, gapStr_normGap]

theorem Bracket.norm_str (o c : Char) (b : Bracket) : b.norm.str o c = b.str o c := by
  simp [Bracket.norm, Bracket.str, gapStr_normGap]

theorem RelA.norm_str (r : RelA) : r.norm.str = r.str := by
  rw [RelA.str_eq, RelA.str_eq]
  have e1 : verStr r.norm.version = verStr r.version := by
    cases hv : r.version <;> simp [RelA.norm, hv, verStr, VerPart.norm_str]
  have e2 : archStr r.norm.archs = archStr r.archs := by
    cases ha : r.archs <;> simp [RelA.norm, ha, archStr, Bracket.norm_str]
  have e3 : profsStr r.norm.profiles = profsStr r.profiles := by
    simp only [profsStr, RelA.norm, List.map_map]
    congr 1
    apply List.map_congr_left
    intro p _
    exact Bracket.norm_str '<' '>' p
  rw [e1, e2, e3]; rfl

theorem RelA.norm_view (r : RelA) : r.norm.view = r.view := by
  cases r with
  | mk n aq v a ps =>
    cases v <;> cases a <;> simp [RelA.norm, RelA.view, VerPart.norm, Bracket.norm, Function.comp_def]

theorem VerPart.norm_node (v : VerPart) : v.norm.node = v.node := rfl

/-- the record of a RELATION node of a relation with loose gaps -/
theorem recOf_relL (r : RelA) (tail : List Tok) (h : r.okL = true) : recOf (r.node tail) = RelRec.ofLossy r.view := by
  rw [← RelA.norm_view, ← recOf_rel r.norm tail (RelA.norm_ok r h)]
  apply recOf_congr
  · rw [RelA.node_eq', RelA.node_eq']; rfl
  · rw [RelA.node_eq', RelA.node_eq']
    simp only [children_node, cn_cons_tok, cn_append, cn_aqNodes, cn_verNodes, cn_archNodes, cn_profsNodes, cn_tks]
    rfl
  · rw [RelA.node_eq', RelA.node_eq']
    simp only [children_node, cn_cons_tok, cn_append, cn_aqNodes, cn_verNodes, cn_archNodes, cn_profsNodes, cn_tks]
    cases hv : r.version <;> simp [RelA.norm, hv, VerPart.norm_node]
  · rw [RelA.node_eq', RelA.node_eq']
    simp only [children_node, cn_cons_tok, cn_append, cn_aqNodes, cn_verNodes, cn_archNodes, cn_profsNodes, cn_tks]
    cases ha : r.archs <;> simp [RelA.norm, ha, Bracket.norm, archBody, Bracket.body]
  · rw [RelA.node_eq', RelA.node_eq']
    simp only [children_node, cn_cons_tok, cn_append, cn_aqNodes, cn_verNodes, cn_archNodes, cn_profsNodes, cn_tks]
    simp [RelA.norm, Bracket.norm, profBody, Bracket.body, Function.comp_def]

/-! ### the layout: where the gap tokens sit -/

/-- a RELATION node: the relation and the blanks at the end of the node -/
structure LRel where
  r : RelA
  tail : Gap
  deriving Repr, DecidableEq

def LRel.node (x : LRel) : RNode := x.r.node (gapToks x.tail)
def LRel.ok (x : LRel) : Bool := x.r.okL && gapOkL x.tail

/-- a further alternative: blanks, `|`, blanks, RELATION node -/
structure LAlt where
  gb : Gap
  ga : Gap
  x : LRel
  deriving Repr, DecidableEq

def pipeTok : Tok := (.PIPE, ['|'])

def LAlt.nodes (a : LAlt) : List RNode := tks (gapToks a.gb) ++ tk pipeTok :: (tks (gapToks a.ga) ++ [a.x.node])
def LAlt.ok (a : LAlt) : Bool := gapOkL a.gb && gapOkL a.ga && a.x.ok

/-- an ENTRY node: the alternatives and the blanks at the end of the node -/
structure LEnt where
  x : LRel
  rest : List LAlt
  post : Gap
  deriving Repr, DecidableEq

def altsKids (rest : List LAlt) : List RNode := (rest.map LAlt.nodes).flatten

def LEnt.kids (e : LEnt) : List RNode := e.x.node :: (altsKids e.rest ++ tks (gapToks e.post))
def LEnt.node (e : LEnt) : RNode := .node .ENTRY e.kids
def LEnt.ok (e : LEnt) : Bool := e.x.ok && e.rest.all LAlt.ok && gapOkL e.post

inductive LItem
  | ent (e : LEnt)
  | sub (p : Str) (ps : List Str)
  | none
  deriving Repr, DecidableEq

def LItem.nodes : LItem → List RNode
  | .ent e => [e.node]
  | .sub p ps => [Node.node .SUBSTVAR (tks (substvarToks p ps))]
  | .none => []

def LItem.ok : LItem → Bool
  | .ent e => e.ok
  | .sub p ps => isIdent p && ps.all isIdent
  | .none => true

def LItem.isEnt : LItem → Bool
  | .ent _ => true
  | _ => false

def LItem.isNone : LItem → Bool
  | .none => true
  | _ => false

/-- one comma-separated segment at the root: blanks, the item, blanks -/
structure LSeg where
  pre : Gap
  item : LItem
  post : Gap
  deriving Repr, DecidableEq

def LSeg.nodes (s : LSeg) : List RNode := tks (gapToks s.pre) ++ (s.item.nodes ++ tks (gapToks s.post))
def LSeg.ok (s : LSeg) : Bool := gapOkL s.pre && gapOkL s.post && s.item.ok

/-- the children of the root -/
def lkids : List LSeg → List RNode
  | [] => []
  | [s] => s.nodes
  | s :: t :: rest => s.nodes ++ tk commaTok :: lkids (t :: rest)

/-- segments that are all followed by a comma -/
def lkidsC (A : List LSeg) : List RNode := (A.map fun s => s.nodes ++ [tk commaTok]).flatten

theorem lkids_cons (s : LSeg) (ss : List LSeg) :
    lkids (s :: ss) = s.nodes ++ (if ss.isEmpty then [] else tk commaTok :: lkids ss) := by
  cases ss <;> simp [lkids]

theorem lkids_append (A : List LSeg) (s : LSeg) (B : List LSeg) : lkids (A ++ s :: B) = lkidsC A ++ lkids (s :: B) := by
  induction A with
  | nil => simp [lkidsC]
  | cons a A ih =>
    rw [List.cons_append, lkids_cons, ih]
    have : (A ++ s :: B).isEmpty = false := by cases A <;> rfl
    simp [this, lkidsC]

theorem lkidsC_cons (s : LSeg) (A : List LSeg) : lkidsC (s :: A) = s.nodes ++ tk commaTok :: lkidsC A := by
  simp [lkidsC]

theorem lkidsC_append (A B : List LSeg) : lkidsC (A ++ B) = lkidsC A ++ lkidsC B := by simp [lkidsC]

theorem lkids_snoc (A : List LSeg) (s : LSeg) : lkids (A ++ [s]) = lkidsC A ++ s.nodes := by
  rw [lkids_append]; simp [lkids]

/-! ### the field of the grammar a layout prints -/

/-- the alternatives with every gap in one piece: the blanks at the end of a RELATION node go with the
    gap before the next `|`; those of the last one with the trailing gap -/
def altsA (tail : Gap) : List LAlt → Gap → List AltA × Gap
  | [], post => ([], normGap (tail ++ post))
  | a :: as, post =>
    (⟨normGap (tail ++ a.gb), normGap a.ga, a.x.r.norm⟩ :: (altsA a.x.tail as post).1, (altsA a.x.tail as post).2)

def LSeg.toA (s : LSeg) : Seg :=
  match s.item with
  | .ent e => ⟨normGap s.pre, .alts e.x.r.norm (altsA e.x.tail e.rest (e.post ++ s.post)).1,
      (altsA e.x.tail e.rest (e.post ++ s.post)).2⟩
  | .sub p ps => ⟨normGap s.pre, .substvar p ps, normGap s.post⟩
  | .none => ⟨normGap (s.pre ++ s.post), .empty, []⟩

def layA (l : List LSeg) : FieldA := ⟨l.map LSeg.toA⟩

theorem LRel.ok_iff (x : LRel) : x.ok = true ↔ x.r.okL = true ∧ gapOkL x.tail = true := by simp [LRel.ok]
theorem LAlt.ok_iff (a : LAlt) : a.ok = true ↔ gapOkL a.gb = true ∧ gapOkL a.ga = true ∧ a.x.ok = true := by
  simp [LAlt.ok, and_assoc]
theorem LEnt.ok_iff (e : LEnt) : e.ok = true ↔ e.x.ok = true ∧ (∀ a ∈ e.rest, a.ok = true) ∧ gapOkL e.post = true := by
  simp [LEnt.ok, and_assoc]
theorem LSeg.ok_iff (s : LSeg) : s.ok = true ↔ gapOkL s.pre = true ∧ gapOkL s.post = true ∧ s.item.ok = true := by
  simp [LSeg.ok, and_assoc]

theorem altsA_ok (tail : Gap) (rest : List LAlt) (post : Gap) (ht : gapOkL tail = true)
    (hr : ∀ a ∈ rest, a.ok = true) (hp : gapOkL post = true) :
    (∀ a ∈ (altsA tail rest post).1, a.ok = true) ∧ gapOk (altsA tail rest post).2 = true := by
  induction rest generalizing tail with
  | nil =>
    simp only [altsA, List.not_mem_nil, false_implies, implies_true, true_and]
    exact gapOk_normGap _ (by rw [gapOkL_append, ht, hp]; rfl)
  | cons a as ih =>
    obtain ⟨h1, h2, h3⟩ := (LAlt.ok_iff a).1 (hr a (by simp))
    obtain ⟨h4, h5⟩ := (LRel.ok_iff a.x).1 h3
    obtain ⟨i1, i2⟩ := ih a.x.tail h5 (fun b hb => hr b (by simp [hb]))
    simp only [altsA, List.mem_cons]
    refine ⟨?_, i2⟩
    rintro b (rfl | hb)
    · exact (AltA.ok_iff _).2 ⟨gapOk_normGap _ (by rw [gapOkL_append, ht, h1]; rfl), gapOk_normGap _ h2, RelA.norm_ok _ h4⟩
    · exact i1 b hb

theorem LSeg.toA_ok (s : LSeg) (h : s.ok = true) : s.toA.ok = true := by
  obtain ⟨h1, h2, h3⟩ := (LSeg.ok_iff s).1 h
  cases hi : s.item with
  | ent e =>
    rw [hi] at h3
    obtain ⟨e1, e2, e3⟩ := (LEnt.ok_iff e).1 h3
    obtain ⟨x1, x2⟩ := (LRel.ok_iff e.x).1 e1
    obtain ⟨a1, a2⟩ := altsA_ok e.x.tail e.rest (e.post ++ s.post) x2 e2 (by rw [gapOkL_append, e3, h2]; rfl)
    simp only [LSeg.toA, hi]
    refine (Seg.ok_iff _).2 ⟨gapOk_normGap _ h1, a2, ?_, by simp [EntryA.isEmpty]⟩
    simp only [EntryA.ok, Bool.and_eq_true, List.all_eq_true]
    exact ⟨RelA.norm_ok _ x1, a1⟩
  | sub p ps =>
    rw [hi] at h3
    simp only [LSeg.toA, hi]
    exact (Seg.ok_iff _).2 ⟨gapOk_normGap _ h1, gapOk_normGap _ h2, h3, by simp [EntryA.isEmpty]⟩
  | none =>
    simp only [LSeg.toA, hi]
    exact (Seg.ok_iff _).2 ⟨gapOk_normGap _ (by rw [gapOkL_append, h1, h2]; rfl), rfl, rfl, fun _ => rfl⟩

theorem layA_wf (l : List LSeg) (h : ∀ s ∈ l, s.ok = true) : (layA l).WF := by
  rw [layA, segs_wf_iff]
  intro s hs
  simp only [List.mem_map] at hs
  obtain ⟨s0, hs0, rfl⟩ := hs
  exact LSeg.toA_ok s0 (h s0 hs0)

theorem LRel.node_text (x : LRel) : x.node.text = x.r.str ++ gapStr x.tail := by
  simp [LRel.node, RelA.node_text']

theorem altsA_text (tail : Gap) (rest : List LAlt) (post : Gap) :
    gapStr tail ++ textList (altsKids rest) ++ gapStr post
      = ((altsA tail rest post).1.map AltA.str).flatten ++ gapStr (altsA tail rest post).2 := by
  induction rest generalizing tail with
  | nil => simp [altsA, altsKids, gapStr_normGap, gapStr_append]
  | cons a as ih =>
    have := ih a.x.tail
    simp only [altsKids, List.map_cons, List.flatten_cons, textList_append] at this ⊢
    simp only [altsA, List.map_cons, List.flatten_cons, AltA.str, gapStr_normGap, gapStr_append, RelA.norm_str,
      List.append_assoc]
    rw [← this]
    simp [LAlt.nodes, LRel.node_text, tk, pipeTok]

theorem LSeg.toA_str (s : LSeg) : s.toA.str = textList s.nodes := by
  cases hi : s.item with
  | ent e =>
    have := altsA_text e.x.tail e.rest (e.post ++ s.post)
    simp only [LSeg.toA, hi, Seg.str, EntryA.str, LSeg.nodes, LItem.nodes, LEnt.node, LEnt.kids, textList_append,
      textList_cons, text_node, textList_tks, tokText_gapToks, textList_nil, gapStr_normGap, RelA.norm_str,
      LRel.node_text, List.append_assoc, List.append_nil]
    simp only [gapStr_append, List.append_assoc] at this
    rw [← this]
  | sub p ps =>
    have hsv := substvar_text p ps
    rw [textList_tks] at hsv
    simp only [LSeg.toA, hi, Seg.str, LSeg.nodes, LItem.nodes, textList_append, textList_cons, text_node,
      textList_tks, tokText_gapToks, textList_nil, gapStr_normGap, hsv, List.append_assoc, List.append_nil]
  | none =>
    simp [LSeg.toA, hi, Seg.str, EntryA.str, LSeg.nodes, LItem.nodes, gapStr_normGap, gapStr_append, gapStr_nil]

theorem lay_text (l : List LSeg) : textList (lkids l) = (layA l).str := by
  show _ = segsStr (l.map LSeg.toA)
  induction l with
  | nil => rfl
  | cons s ss ih =>
    rw [lkids_cons, List.map_cons, segsStr_cons, textList_append, LSeg.toA_str]
    cases ss with
    | nil => simp
    | cons t ts =>
      simp only [List.isEmpty_cons, Bool.false_eq_true, ↓reduceIte, textList_cons, List.map_cons] at ih ⊢
      rw [ih]; simp [tk, commaTok]

/-! ### what `abs` reads off a layout -/

def LEnt.views (e : LEnt) : List Lossy.Relation := e.x.r.view :: e.rest.map fun a => a.x.r.view

theorem altsA_views (tail : Gap) (rest : List LAlt) (post : Gap) :
    (altsA tail rest post).1.map (fun a => a.rel.view) = rest.map fun a => a.x.r.view := by
  induction rest generalizing tail with
  | nil => rfl
  | cons a as ih => simp [altsA, ih, RelA.norm_view]

theorem cn_altsKids (rest : List LAlt) : cn .RELATION (altsKids rest) = rest.map fun a => a.x.node := by
  induction rest with
  | nil => rfl
  | cons a as ih =>
    simp only [altsKids, List.map_cons, List.flatten_cons, cn_append] at ih ⊢
    rw [ih]
    simp [LAlt.nodes, cn_cons_tok, LRel.node, cn_rel_node]

theorem relsOf_LEnt (e : LEnt) (h : e.ok = true) : relsOf e.node = e.views.map RelRec.ofLossy := by
  obtain ⟨e1, e2, e3⟩ := (LEnt.ok_iff e).1 h
  rw [LEnt.node, relsOf_node, LEnt.kids]
  have : cn .RELATION (e.x.node :: (altsKids e.rest ++ tks (gapToks e.post))) = e.x.node :: e.rest.map fun a => a.x.node := by
    rw [show e.x.node = e.x.r.node (gapToks e.x.tail) from rfl, cn_rel_node]
    simp [cn_altsKids]
  rw [this]
  simp only [LEnt.views, List.map_cons, List.map_map, List.cons.injEq]
  refine ⟨recOf_relL _ _ ((LRel.ok_iff _).1 e1).1, ?_⟩
  apply List.map_congr_left
  intro a ha
  exact recOf_relL _ _ ((LRel.ok_iff _).1 ((LAlt.ok_iff a).1 (e2 a ha)).2.2).1

theorem LSeg.abs_nodes (s : LSeg) (h : s.ok = true) : absKids s.nodes = (itemA s.toA).toList := by
  obtain ⟨h1, h2, h3⟩ := (LSeg.ok_iff s).1 h
  simp only [LSeg.nodes, absKids_append, absKids_tks, List.nil_append, List.append_nil]
  cases hi : s.item with
  | ent e =>
    rw [hi] at h3
    simp only [LItem.nodes, LSeg.toA, hi, itemA]
    rw [absKids_entry _ (by simp [LEnt.node, isNodeOf]), relsOf_LEnt e h3]
    simp [LEnt.views, altsA_views, RelA.norm_view]
  | sub p ps =>
    have hsv := substvar_text p ps
    rw [textList_tks] at hsv
    simp only [LItem.nodes, LSeg.toA, hi, itemA]
    simp [absKids, itemOf, isNodeOf, hsv]
  | none => simp [LItem.nodes, LSeg.toA, hi, itemA, absKids]

theorem lay_abs (l : List LSeg) (h : ∀ s ∈ l, s.ok = true) : absKids (lkids l) = itemsA (layA l) := by
  induction l with
  | nil => rfl
  | cons s ss ih =>
    have ih' := ih (fun x hx => h x (by simp [hx]))
    rw [lkids_cons, absKids_append, LSeg.abs_nodes s (h s (by simp))]
    show _ = itemsA ⟨s.toA :: ss.map LSeg.toA⟩
    rw [itemsA_cons]
    cases ss with
    | nil => simp [absKids, itemsA]
    | cons t ts =>
      simp only [List.isEmpty_cons, Bool.false_eq_true, ↓reduceIte]
      rw [absKids_tk, ih']; rfl

/-- every layout prints a well-formed field of the grammar of C10, and `abs` reads the items of that
    field off the tree -/
theorem lay_reads (l : List LSeg) (h : ∀ s ∈ l, s.ok = true) :
    (layA l).WF ∧ textList (lkids l) = (layA l).str ∧ absKids (lkids l) = itemsA (layA l) :=
  ⟨layA_wf l h, lay_text l, lay_abs l h⟩

/-- the invariant: the root's children are a layout -/
def Lay (f : Field) : Prop := ∃ l : List LSeg, (∀ s ∈ l, s.ok = true) ∧ f.kids = lkids l

/-! ### the tree of the parser is a layout -/

/-- where `altsNodes` (the parser) puts the gaps: the first RELATION node, the further alternatives, the
    blanks at the end of the ENTRY node and the blanks left to the root -/
def ofAlts (r : RelA) (rest : List AltA) (post : Gap) (fl : Follow) : LRel × List LAlt × Gap × Gap :=
  match rest with
  | [] =>
    if r.tailInside fl then (⟨r, post⟩, [], [], [])
    else if fl = .eof then (⟨r, []⟩, [], post, [])
    else (⟨r, []⟩, [], [], post)
  | a :: as =>
    if r.tailInside .pipe then
      (⟨r, a.gb⟩, ⟨[], a.ga, (ofAlts a.rel as post fl).1⟩ :: (ofAlts a.rel as post fl).2.1,
        (ofAlts a.rel as post fl).2.2.1, (ofAlts a.rel as post fl).2.2.2)
    else
      (⟨r, []⟩, ⟨a.gb, a.ga, (ofAlts a.rel as post fl).1⟩ :: (ofAlts a.rel as post fl).2.1,
        (ofAlts a.rel as post fl).2.2.1, (ofAlts a.rel as post fl).2.2.2)

theorem ofAlts_kids (r : RelA) (rest : List AltA) (post : Gap) (fl : Follow) :
    (altsNodes r rest post fl).1
        = (ofAlts r rest post fl).1.node :: (altsKids (ofAlts r rest post fl).2.1 ++ tks (gapToks (ofAlts r rest post fl).2.2.1))
      ∧ (altsNodes r rest post fl).2 = gapToks (ofAlts r rest post fl).2.2.2 := by
  induction rest generalizing r with
  | nil =>
    simp only [altsNodes, ofAlts]
    split
    · simp [LRel.node, altsKids, gapToks]
    · split <;> simp [LRel.node, altsKids, gapToks]
  | cons a as ih =>
    obtain ⟨i1, i2⟩ := ih a.rel
    simp only [altsNodes, ofAlts]
    split
    · refine ⟨?_, i2⟩
      rw [i1]
      simp [LRel.node, altsKids, LAlt.nodes, gapToks, pipeTok]
    · refine ⟨?_, i2⟩
      rw [i1]
      simp [LRel.node, altsKids, LAlt.nodes, gapToks, pipeTok]

theorem ofAlts_ok (r : RelA) (rest : List AltA) (post : Gap) (fl : Follow) (hr : r.ok = true)
    (hrest : ∀ a ∈ rest, a.ok = true) (hp : gapOk post = true) :
    (ofAlts r rest post fl).1.ok = true ∧ (∀ a ∈ (ofAlts r rest post fl).2.1, a.ok = true)
      ∧ gapOkL (ofAlts r rest post fl).2.2.1 = true ∧ gapOkL (ofAlts r rest post fl).2.2.2 = true := by
  have hrL := RelA.okL_of_ok r hr
  have hpL := gapOkL_of_ok post hp
  induction rest generalizing r with
  | nil =>
    simp only [ofAlts]
    split
    · exact ⟨(LRel.ok_iff _).2 ⟨hrL, hpL⟩, by simp, rfl, rfl⟩
    · split
      · exact ⟨(LRel.ok_iff _).2 ⟨hrL, rfl⟩, by simp, hpL, rfl⟩
      · exact ⟨(LRel.ok_iff _).2 ⟨hrL, rfl⟩, by simp, rfl, hpL⟩
  | cons a as ih =>
    obtain ⟨a1, a2, a3⟩ := (AltA.ok_iff a).1 (hrest a (by simp))
    obtain ⟨i1, i2, i3, i4⟩ := ih a.rel a3 (fun b hb => hrest b (by simp [hb])) (RelA.okL_of_ok _ a3)
    simp only [ofAlts]
    split
    · refine ⟨(LRel.ok_iff _).2 ⟨hrL, gapOkL_of_ok _ a1⟩, ?_, i3, i4⟩
      intro b hb
      simp only [List.mem_cons] at hb
      rcases hb with rfl | hb
      · exact (LAlt.ok_iff _).2 ⟨rfl, gapOkL_of_ok _ a2, i1⟩
      · exact i2 b hb
    · refine ⟨(LRel.ok_iff _).2 ⟨hrL, rfl⟩, ?_, i3, i4⟩
      intro b hb
      simp only [List.mem_cons] at hb
      rcases hb with rfl | hb
      · exact (LAlt.ok_iff _).2 ⟨gapOkL_of_ok _ a1, gapOkL_of_ok _ a2, i1⟩
      · exact i2 b hb

def ofSeg (s : Seg) (fl : Follow) : LSeg :=
  match s.entry with
  | .alts r rest =>
    ⟨s.pre, .ent ⟨(ofAlts r rest s.post fl).1, (ofAlts r rest s.post fl).2.1, (ofAlts r rest s.post fl).2.2.1⟩,
      (ofAlts r rest s.post fl).2.2.2⟩
  | .substvar p ps => ⟨s.pre, .sub p ps, s.post⟩
  | .empty => ⟨s.pre, .none, s.post⟩

theorem ofSeg_nodes (s : Seg) (fl : Follow) : s.nodes fl = (ofSeg s fl).nodes := by
  cases he : s.entry with
  | alts r rest =>
    obtain ⟨h1, h2⟩ := ofAlts_kids r rest s.post fl
    simp only [Seg.nodes, he, ofSeg, LSeg.nodes, LItem.nodes, LEnt.node, LEnt.kids]
    rw [h1, h2]; simp
  | substvar p ps => simp [Seg.nodes, he, ofSeg, LSeg.nodes, LItem.nodes]
  | empty => simp [Seg.nodes, he, ofSeg, LSeg.nodes, LItem.nodes]

theorem ofSeg_ok (s : Seg) (fl : Follow) (h : s.ok = true) : (ofSeg s fl).ok = true := by
  obtain ⟨h1, h2, h3, h4⟩ := (Seg.ok_iff s).1 h
  cases he : s.entry with
  | alts r rest =>
    rw [he] at h3
    simp only [EntryA.ok, Bool.and_eq_true, List.all_eq_true] at h3
    obtain ⟨o1, o2, o3, o4⟩ := ofAlts_ok r rest s.post fl h3.1 h3.2 h2
    simp only [ofSeg, he]
    exact (LSeg.ok_iff _).2 ⟨gapOkL_of_ok _ h1, o4, (LEnt.ok_iff _).2 ⟨o1, o2, o3⟩⟩
  | substvar p ps =>
    rw [he] at h3
    simp only [ofSeg, he]
    exact (LSeg.ok_iff _).2 ⟨gapOkL_of_ok _ h1, gapOkL_of_ok _ h2, h3⟩
  | empty =>
    simp only [ofSeg, he]
    exact (LSeg.ok_iff _).2 ⟨gapOkL_of_ok _ h1, gapOkL_of_ok _ h2, rfl⟩

def ofSegs : List Seg → List LSeg
  | [] => []
  | [s] => [ofSeg s .eof]
  | s :: t :: rest => ofSeg s .comma :: ofSegs (t :: rest)

theorem ofSegs_kids (ss : List Seg) : segsNodes ss = lkids (ofSegs ss) := by
  induction ss with
  | nil => rfl
  | cons s ss ih =>
    cases ss with
    | nil => simp [segsNodes, ofSegs, lkids, ofSeg_nodes]
    | cons t ts =>
      simp only [segsNodes, ofSegs] at ih ⊢
      rw [ih, ofSeg_nodes]
      cases h : ofSegs (t :: ts) with
      | nil => cases ts <;> simp [ofSegs] at h
      | cons u us => simp [lkids]

theorem ofSegs_ok (ss : List Seg) (h : ∀ s ∈ ss, s.ok = true) : ∀ x ∈ ofSegs ss, x.ok = true := by
  induction ss with
  | nil => simp [ofSegs]
  | cons s ss ih =>
    cases ss with
    | nil =>
      intro x hx
      simp only [ofSegs, List.mem_singleton] at hx
      subst hx; exact ofSeg_ok s _ (h s (by simp))
    | cons t ts =>
      intro x hx
      simp only [ofSegs, List.mem_cons] at hx
      rcases hx with rfl | hx
      · exact ofSeg_ok s _ (h s (by simp))
      · exact ih (fun y hy => h y (by simp [hy])) x (by simpa [ofSegs] using hx)

/-- (1) the tree the parser builds for a well-formed field is a layout -/
theorem lay_of_tree (a : FieldA) (h : a.WF) (f : Field) (hf : f.kids = a.tree.children) : Lay f :=
  ⟨ofSegs a.segs, ofSegs_ok a.segs ((segs_wf_iff a.segs).1 h), by rw [hf]; exact ofSegs_kids a.segs⟩

end Deb822Verif.Rel.Edit
