import Deb822Verif.Lemmas.DebWrapRereadDocCWrap
/-!
  Wrap-and-sort on well-formed documents with comment lines inside values, output side: the printed
  result of `deb822Wrap` on `DocC.tree` is the text of an explicit well-formed, fully LF-terminated
  `DocC` (`mkDoc`) with the same entry nodes per paragraph — hence (`lex_doc`, `parse_doc` of
  Lemmas/DebWrapRereadDocC{Lex,Parse}.lean) it parses strictly and reads back to the content of the
  returned tree. Analogue of the second half of Lemmas/DebWrapReread.lean.
-/
namespace Deb822Verif.DebC
open Deb822Verif Deb Node Spec

/-! ### the printed result as a well-formed document -/

def cItems (cs : List Str) : List PItemC := cs.map fun t => PItemC.comment t true
def dummyEntry : EntryC := ⟨[], [], [], true, []⟩

/-- comments in front of the first field of a rendered paragraph: on re-reading they are top-level -/
def PG.lead (pg : PG) : List Str := match pg.groups with | [] => [] | x :: _ => x.1
def restItems (xs : List (List Str × EntryC)) : List PItemC :=
  (xs.map fun y => cItems y.1 ++ [PItemC.entry y.2]).flatten
/-- the paragraph as it is re-read: from its first field on; `extra` = comment lines that follow
    the last paragraph of the document without a blank line in between -/
def PG.body (pg : PG) (extra : List Str) : ParaC :=
  match pg.groups with
  | [] => ⟨dummyEntry, []⟩
  | x :: xs => ⟨x.2, restItems xs ++ cItems (pg.trailing ++ extra)⟩

def zlead (z : List Str × PG) : List Str := z.1 ++ z.2.lead

def mkParas : List (List Str × PG) → List Str → List (ParaC × List Gap)
  | [], _ => []
  | [z], tr => [(z.2.body tr, [])]
  | z :: z' :: zs, tr => (z.2.body [], Gap.blank :: cGaps (zlead z')) :: mkParas (z' :: zs) tr

/-- the document the printed result is read as -/
def mkDoc (zs : List (List Str × PG)) (tr : List Str) : DocC :=
  match zs with
  | [] => ⟨cGaps tr, []⟩
  | z :: _ => ⟨cGaps (zlead z), mkParas zs tr⟩

/-! #### tokens -/

theorem itemsToks_append (a b : List PItemC) : itemsToksC (a ++ b) = itemsToksC a ++ itemsToksC b := by
  simp [itemsToksC]

theorem itemsToks_cItems (cs : List Str) : itemsToksC (cItems cs) = cToks cs := by
  induction cs with
  | nil => rfl
  | cons c cs ih =>
    have : cItems (c :: cs) = [PItemC.comment c true] ++ cItems cs := rfl
    rw [this, itemsToks_append, ih]
    simp [itemsToksC, PItemC.toks, nlTok, cToks]

def groupsToks (xs : List (List Str × EntryC)) : List Tok := (xs.map fun y => cToks y.1 ++ y.2.toks).flatten

theorem itemsToks_restItems (xs : List (List Str × EntryC)) : itemsToksC (restItems xs) = groupsToks xs := by
  induction xs with
  | nil => rfl
  | cons y xs ih =>
    have : restItems (y :: xs) = cItems y.1 ++ [PItemC.entry y.2] ++ restItems xs := by simp [restItems]
    rw [this, itemsToks_append, itemsToks_append, ih, itemsToks_cItems]
    simp [groupsToks, itemsToksC, PItemC.toks]

theorem leaves_paraOut (xs : List (List Str × EntryC)) (tr : List Str) :
    leavesList (paraOut (xs.map egrp) (tr.map cTok)) = groupsToks xs ++ cToks tr := by
  unfold paraOut
  rw [leavesList_append, leaves_commentLines]
  congr 1
  induction xs with
  | nil => rfl
  | cons y xs ih =>
    simp only [List.map_cons, List.flatten_cons, leavesList_append, ih, egrp, leaves_commentLines,
      leavesList_cons, leavesList_nil, List.append_nil, EntryC.node, leaves_node, leavesList_map_tk]
    simp [groupsToks]

theorem pg_leaves (pg : PG) (hne : pg.groups ≠ []) : pg.node.leaves = cToks pg.lead ++ (pg.body []).toks := by
  obtain ⟨groups, trailing⟩ := pg
  cases groups with
  | nil => exact absurd rfl hne
  | cons x xs =>
    simp only [PG.node, leaves_node, leaves_paraOut, PG.lead, PG.body, ParaC.toks, itemsToks_append,
      itemsToks_restItems, itemsToks_cItems, List.append_nil]
    simp [groupsToks]

theorem body_toks_extra (pg : PG) (hne : pg.groups ≠ []) (extra : List Str) :
    (pg.body extra).toks = (pg.body []).toks ++ cToks extra := by
  obtain ⟨groups, trailing⟩ := pg
  cases groups with
  | nil => exact absurd rfl hne
  | cons x xs =>
    simp only [PG.body, ParaC.toks, itemsToks_append, itemsToks_cItems, cToks_append, List.append_nil,
      List.append_assoc]

/-! #### the rendered paragraph ends with a line terminator -/

theorem endsNL_entry (e : EntryC) (h : e.TermAll) : EndsNL e.toks := by
  rw [EntryC.toks_eq]
  rcases List.eq_nil_or_concat e.conts with hc | ⟨cs, c, hc⟩
  · refine ⟨(.KEY, e.key) :: (.COLON, [':']) :: (optTok .WHITESPACE e.ws ++ optTok .VALUE e.v), ?_⟩
    simp [EntryC.tailToks, hc, h.1, nlTok, contsToksC]
  · have hcn : c.nl = true := h.2 c (by rw [hc]; simp)
    have : contsToksC e.conts = contsToksC cs ++ [(.INDENT, c.indent), c.tok] ++ [(.NEWLINE, ['\n'])] := by
      rw [hc]
      simp [contsToksC, ContC.toks, hcn, nlTok]
    simp only [EntryC.tailToks, this]
    exact ⟨(.KEY, e.key) :: (.COLON, [':']) :: (optTok .WHITESPACE e.ws ++ optTok .VALUE e.v ++ nlTok e.nl
      ++ contsToksC cs ++ [(.INDENT, c.indent), c.tok]), by simp⟩

theorem endsNL_groups (xs : List (List Str × EntryC)) (hne : xs ≠ []) (h : ∀ x ∈ xs, x.2.TermAll) :
    EndsNL (groupsToks xs) := by
  rcases List.eq_nil_or_concat xs with hc | ⟨ys, y, hc⟩
  · exact absurd hc hne
  · rw [hc]
    have : groupsToks (ys.concat y) = groupsToks ys ++ (cToks y.1 ++ y.2.toks) := by
      simp [groupsToks]
    rw [this]
    exact ((endsNL_entry y.2 (h y (by rw [hc]; simp))).append _).append _

theorem termOf_pg (pg : PG) (hok : pg.OK) : termOf pg.node = [] := by
  have hends : EndsNL pg.node.leaves := by
    simp only [PG.node, leaves_node, leaves_paraOut]
    by_cases ht : pg.trailing = []
    · rw [ht]
      simp only [cToks, List.map_nil, List.flatten_nil, List.append_nil]
      exact endsNL_groups _ hok.ne fun x hx => (hok.entries x hx).2.1
    · exact (endsNL_cToks _ ht).append _
  obtain ⟨a, ha⟩ := hends
  unfold termOf
  cases hl : lastTok pg.node.children with
  | none => rfl
  | some t =>
    have h1 := lastTok_leaves _ _ hl
    have hlv : leavesList pg.node.children = pg.node.leaves := by simp [PG.node, Node.children]
    rw [hlv, ha] at h1
    simp only [List.getLast?_concat, List.getLast?_append, List.getLast?_singleton, Option.some.injEq] at h1
    have : t = (Kind.NEWLINE, ['\n']) := by simpa using h1.symm
    subst this; rfl

/-! #### the token sequence of the result -/

theorem parasToks_cons' (pg : ParaC × List Gap) (ps : List (ParaC × List Gap)) :
    parasToksC (pg :: ps) = pg.1.toks ++ gapsToks pg.2 ++ parasToksC ps := by
  simp [parasToksC]

theorem leaves_docGroup (z : List Str × PG) (hok : z.2.OK) :
    leavesList (docGroup (zgrp z)) = cToks (zlead z) ++ (z.2.body []).toks := by
  simp only [docGroup, zgrp, termOf_pg z.2 hok, List.append_nil, leavesList_append, leaves_commentLines,
    leavesList_cons, leavesList_nil, pg_leaves z.2 hok.ne, zlead, cToks_append, List.append_assoc]

theorem leaves_docOut_cons (z : List Str × PG) (zs : List (List Str × PG)) (tr : List Str)
    (hok : ∀ y ∈ z :: zs, y.2.OK) :
    leavesList (docOut ((z :: zs).map zgrp) (tr.map cTok))
      = cToks (zlead z) ++ parasToksC (mkParas (z :: zs) tr) := by
  unfold docOut
  rw [leavesList_append, leaves_commentLines]
  induction zs generalizing z with
  | nil =>
    simp only [List.map_cons, List.map_nil, joinParas, mkParas, parasToks_cons', parasToksC, List.flatten_nil,
      List.append_nil, gapsToks]
    rw [leaves_docGroup z (hok z (by simp)), body_toks_extra _ (hok z (by simp)).ne tr]
    simp
  | cons z' zs ih =>
    have ih' := ih z' (fun y hy => hok y (by simp [hy]))
    simp only [List.map_cons] at ih' ⊢
    simp only [joinParas, mkParas, parasToks_cons', leavesList_append, leavesList_cons, List.append_assoc]
    rw [leaves_docGroup z (hok z (by simp))]
    have hel : joinParas.emptyLine'.leaves = [(Kind.NEWLINE, ['\n'])] := by
      simp [joinParas.emptyLine']
    rw [hel]
    have hgap : gapsToks (Gap.blank :: cGaps (zlead z')) = (Kind.NEWLINE, ['\n']) :: cToks (zlead z') := by
      have := gapsToks_cGaps (zlead z')
      simp only [gapsToks, List.map_cons, List.flatten_cons, Gap.toks] at this ⊢
      rw [this]; rfl
    rw [hgap]
    simp only [List.append_assoc, List.cons_append, List.nil_append]
    rw [ih']

theorem leaves_docOut (zs : List (List Str × PG)) (tr : List Str) (hok : ∀ y ∈ zs, y.2.OK) :
    leavesList (docOut (zs.map zgrp) (tr.map cTok)) = (mkDoc zs tr).toks := by
  cases zs with
  | nil =>
    simp only [docOut, List.map_nil, joinParas, List.nil_append, leaves_commentLines, mkDoc, DocC.toks,
      gapsToks_cGaps, parasToksC, List.flatten_nil, List.append_nil]
  | cons z zs =>
    rw [leaves_docOut_cons z zs tr hok]
    simp only [mkDoc, DocC.toks, gapsToks_cGaps]

/-! #### well-formedness -/

theorem cItems_wf (cs : List Str) (h : ∀ c ∈ cs, NoNl c) : ∀ i ∈ cItems cs, i.WF := by
  intro i hi
  simp only [cItems, List.mem_map] at hi
  obtain ⟨t, ht, rfl⟩ := hi
  exact h t ht

/-- every item is LF-terminated -/
def ItemsAll (is : List PItemC) : Prop :=
  ∀ i ∈ is, match i with | .comment _ nl => nl = true | .entry e => e.TermAll

theorem itemsTerm_all (is : List PItemC) (h : ItemsAll is) (more : Bool) : itemsTermC is more := by
  induction is with
  | nil => trivial
  | cons i is ih =>
    have ih' := ih fun j hj => h j (by simp [hj])
    have hi := h i (by simp)
    cases i with
    | comment t nl => exact ⟨Or.inl hi, ih'⟩
    | entry e => exact ⟨EntryC.termAll_termM e hi _, ih'⟩

theorem itemsAll_cItems (cs : List Str) : ItemsAll (cItems cs) := by
  intro i hi
  simp only [cItems, List.mem_map] at hi
  obtain ⟨t, _, rfl⟩ := hi
  rfl

theorem itemsAll_append (a b : List PItemC) (ha : ItemsAll a) (hb : ItemsAll b) : ItemsAll (a ++ b) := by
  intro i hi
  simp only [List.mem_append] at hi
  rcases hi with hi | hi
  · exact ha i hi
  · exact hb i hi

theorem restItems_mem (xs : List (List Str × EntryC)) (i : PItemC) (hi : i ∈ restItems xs) :
    ∃ y ∈ xs, i ∈ cItems y.1 ∨ i = .entry y.2 := by
  simp only [restItems, List.mem_flatten, List.mem_map] at hi
  obtain ⟨l, ⟨y, hy, rfl⟩, hil⟩ := hi
  simp only [List.mem_append, List.mem_cons, List.not_mem_nil, or_false] at hil
  exact ⟨y, hy, hil⟩

theorem body_wf_term (pg : PG) (hok : pg.OK) (extra : List Str) (hex : ∀ c ∈ extra, NoNl c) (more : Bool) :
    (pg.body extra).WF ∧ (pg.body extra).Term more := by
  obtain ⟨groups, trailing⟩ := pg
  cases groups with
  | nil => exact absurd rfl hok.ne
  | cons x xs =>
    have hx := hok.entries x (by simp)
    have hxs : ∀ y ∈ xs, y.2.WF ∧ y.2.TermAll ∧ ∀ c ∈ y.1, NoNl c := fun y hy => hok.entries y (by simp [hy])
    have hall : ItemsAll (restItems xs ++ cItems (trailing ++ extra)) := by
      apply itemsAll_append _ _ _ (itemsAll_cItems _)
      intro i hi
      obtain ⟨y, hy, h | rfl⟩ := restItems_mem xs i hi
      · exact itemsAll_cItems _ i h
      · exact (hxs y hy).2.1
    refine ⟨⟨hx.1, ?_⟩, EntryC.termAll_termM _ hx.2.1 _, itemsTerm_all _ hall _⟩
    intro i hi
    simp only [PG.body, List.mem_append] at hi
    rcases hi with hi | hi
    · obtain ⟨y, hy, h | rfl⟩ := restItems_mem xs i hi
      · exact cItems_wf _ (hxs y hy).2.2 i h
      · exact (hxs y hy).1
    · refine cItems_wf _ ?_ i hi
      intro c hc
      simp only [List.mem_append] at hc
      rcases hc with hc | hc
      · exact hok.trailing c hc
      · exact hex c hc

theorem zlead_nonl (z : List Str × PG) (hok : z.2.OK) (hz : ∀ c ∈ z.1, NoNl c) : ∀ c ∈ zlead z, NoNl c := by
  intro c hc
  simp only [zlead, List.mem_append] at hc
  rcases hc with hc | hc
  · exact hz c hc
  · have hne := hok.ne
    cases hg : z.2.groups with
    | nil => exact absurd hg hne
    | cons x xs =>
      simp only [PG.lead, hg] at hc
      exact (hok.entries x (by rw [hg]; simp)).2.2 c hc

theorem mkParas_wf (zs : List (List Str × PG)) (tr : List Str)
    (hok : ∀ z ∈ zs, z.2.OK ∧ ∀ c ∈ z.1, NoNl c) (htr : ∀ c ∈ tr, NoNl c) :
    (∀ pg ∈ mkParas zs tr, pg.1.WF ∧ ∀ g ∈ pg.2, g.WF) ∧ parasTermC (mkParas zs tr) := by
  cases zs with
  | nil => exact ⟨by simp [mkParas], trivial⟩
  | cons z zs =>
    induction zs generalizing z with
    | nil =>
      have hz := hok z (by simp)
      have hb := body_wf_term z.2 hz.1 tr htr false
      simp only [mkParas]
      refine ⟨?_, ?_⟩
      · intro pg hpg
        simp only [List.mem_cons, List.not_mem_nil, or_false] at hpg
        subst hpg
        exact ⟨hb.1, by simp⟩
      · exact ⟨hb.2, Or.inl rfl, trivial⟩
    | cons z' zs ih =>
      have hz := hok z (by simp)
      have hz' := hok z' (by simp)
      have hb := body_wf_term z.2 hz.1 [] (by simp) true
      have ih' := ih z' (fun y hy => hok y (by simp [hy]))
      simp only [mkParas]
      refine ⟨?_, ?_⟩
      · intro pg hpg
        simp only [List.mem_cons] at hpg
        rcases hpg with rfl | hpg
        · refine ⟨hb.1, ?_⟩
          intro g hg
          simp only [List.mem_cons] at hg
          rcases hg with rfl | hg
          · trivial
          · exact cGaps_wf _ (zlead_nonl z' hz'.1 hz'.2) g hg
        · exact ih'.1 pg hpg
      · have hrest : parasTermC (mkParas (z' :: zs) tr) := ih'.2
        cases hm : mkParas (z' :: zs) tr with
        | nil => cases zs <;> simp [mkParas] at hm
        | cons q ps =>
          rw [hm] at hrest
          exact ⟨hb.2, ⟨_, rfl⟩, gapsTerm_cGaps _ _, hrest⟩

theorem mkDoc_wf (zs : List (List Str × PG)) (tr : List Str)
    (hok : ∀ z ∈ zs, z.2.OK ∧ ∀ c ∈ z.1, NoNl c) (htr : ∀ c ∈ tr, NoNl c) : (mkDoc zs tr).WF := by
  cases zs with
  | nil =>
    exact ⟨cGaps_wf _ htr, gapsTerm_cGaps _ _, by simp [mkDoc], trivial⟩
  | cons z zs =>
    have hz := hok z (by simp)
    have := mkParas_wf (z :: zs) tr hok htr
    exact ⟨cGaps_wf _ (zlead_nonl z hz.1 hz.2), gapsTerm_cGaps _ _, this.1, this.2⟩


theorem mkParas_termR (zs : List (List Str × PG)) (tr : List Str)
    (hok : ∀ z ∈ zs, z.2.OK ∧ ∀ c ∈ z.1, NoNl c) (htr : ∀ c ∈ tr, NoNl c) : parasTermCR (mkParas zs tr) := by
  cases zs with
  | nil => trivial
  | cons z zs =>
    induction zs generalizing z with
    | nil =>
      have hz := hok z (by simp)
      exact ⟨(body_wf_term z.2 hz.1 tr htr true).2, Or.inl rfl, trivial⟩
    | cons z' zs ih =>
      have hz := hok z (by simp)
      have hb := body_wf_term z.2 hz.1 [] (by simp) true
      have hrest : parasTermCR (mkParas (z' :: zs) tr) := ih z' (fun y hy => hok y (by simp [hy]))
      simp only [mkParas]
      cases hm : mkParas (z' :: zs) tr with
      | nil => cases zs <;> simp [mkParas] at hm
      | cons q ps =>
        rw [hm] at hrest
        exact ⟨hb.2, ⟨_, rfl⟩, gapsTerm_cGaps _ _, hrest⟩

/-- every line of the printed result is LF-terminated -/
theorem mkDoc_termAll (zs : List (List Str × PG)) (tr : List Str)
    (hok : ∀ z ∈ zs, z.2.OK ∧ ∀ c ∈ z.1, NoNl c) (htr : ∀ c ∈ tr, NoNl c) : (mkDoc zs tr).TermAll := by
  cases zs with
  | nil => exact ⟨gapsTerm_cGaps _ _, trivial⟩
  | cons z zs => exact ⟨gapsTerm_cGaps _ _, mkParas_termR (z :: zs) tr hok htr⟩

/-! #### same fields per paragraph -/

theorem itemEntries_append (a b : List PItemC) : itemEntries (a ++ b) = itemEntries a ++ itemEntries b := by
  induction a with
  | nil => rfl
  | cons i a ih => cases i <;> simp [itemEntries, ih]

theorem itemEntries_cItems (cs : List Str) : itemEntries (cItems cs) = [] := by
  induction cs with
  | nil => rfl
  | cons c cs ih => simpa [cItems, itemEntries] using ih

theorem itemEntries_restItems (xs : List (List Str × EntryC)) : itemEntries (restItems xs) = xs.map (·.2) := by
  induction xs with
  | nil => rfl
  | cons y xs ih =>
    have : restItems (y :: xs) = cItems y.1 ++ [PItemC.entry y.2] ++ restItems xs := by simp [restItems]
    rw [this, itemEntries_append, itemEntries_append, itemEntries_cItems, ih]
    simp [itemEntries]

theorem entries_body (pg : PG) (hne : pg.groups ≠ []) (extra : List Str) :
    entries (pg.body extra).node = entries pg.node := by
  obtain ⟨groups, trailing⟩ := pg
  have h2 : entries (PG.node ⟨groups, trailing⟩) = (groups.map egrp).map (·.2) := by
    apply entries_paraOut
    · intro w hw
      simp only [List.mem_map] at hw
      obtain ⟨x, _, rfl⟩ := hw
      exact cTok_trivs _
    · intro w hw
      simp only [List.mem_map] at hw
      obtain ⟨x, _, rfl⟩ := hw
      rfl
    · exact cTok_trivs _
  cases groups with
  | nil => exact absurd rfl hne
  | cons x xs =>
    rw [h2, entries_para]
    simp only [PG.body, itemEntries_append, itemEntries_restItems, itemEntries_cItems, List.append_nil,
      List.map_cons, List.map_map, egrp]
    rfl

theorem items_body (pg : PG) (hne : pg.groups ≠ []) (extra : List Str) :
    items (pg.body extra).node = items pg.node := by
  simp only [items, entries_body pg hne extra]

theorem mkParas_items (zs : List (List Str × PG)) (tr : List Str) (hok : ∀ z ∈ zs, z.2.OK) :
    (mkParas zs tr).map (fun pg => items pg.1.node) = zs.map (fun z => items z.2.node) := by
  cases zs with
  | nil => rfl
  | cons z zs =>
    induction zs generalizing z with
    | nil => simp [mkParas, items_body z.2 (hok z (by simp)).ne]
    | cons z' zs ih =>
      have := ih z' (fun y hy => hok y (by simp [hy]))
      simp only [mkParas, List.map_cons, items_body z.2 (hok z (by simp)).ne] at this ⊢
      rw [this]

theorem mkDoc_items (zs : List (List Str × PG)) (tr : List Str) (hok : ∀ z ∈ zs, z.2.OK) :
    docItems (mkDoc zs tr).tree = zs.map (fun z => items z.2.node) := by
  simp only [docItems, paragraphs_tree, List.map_map]
  cases zs with
  | nil => rfl
  | cons z zs => exact mkParas_items (z :: zs) tr hok

theorem mkParas_entries (zs : List (List Str × PG)) (tr : List Str) (hok : ∀ z ∈ zs, z.2.OK) :
    (mkParas zs tr).map (fun pg => entries pg.1.node) = zs.map (fun z => entries z.2.node) := by
  cases zs with
  | nil => rfl
  | cons z zs =>
    induction zs generalizing z with
    | nil => simp [mkParas, entries_body z.2 (hok z (by simp)).ne]
    | cons z' zs ih =>
      have := ih z' (fun y hy => hok y (by simp [hy]))
      simp only [mkParas, List.map_cons, entries_body z.2 (hok z (by simp)).ne] at this ⊢
      rw [this]

/-- the re-read document has, paragraph by paragraph, exactly the ENTRY nodes of the rendered
    paragraphs (same tokens: value lines, comment lines inside values, indentation) -/
theorem mkDoc_entries (zs : List (List Str × PG)) (tr : List Str) (hok : ∀ z ∈ zs, z.2.OK) :
    (paragraphs (mkDoc zs tr).tree).map entries = zs.map (fun z => entries z.2.node) := by
  simp only [paragraphs_tree, List.map_map]
  cases zs with
  | nil => rfl
  | cons z zs => exact mkParas_entries (z :: zs) tr hok

theorem paragraphs_docOut (zs : List (List Str × PG)) (tr : List Str) :
    paragraphs (.node .ROOT (docOut (zs.map zgrp) (tr.map cTok))) = zs.map (fun z => z.2.node) := by
  rw [paragraphs_of_groups]
  have : rootGroups (.node .ROOT (docOut (zs.map zgrp) (tr.map cTok))) = (zs.map zgrp, tr.map cTok) := by
    apply groupRoot_docOut
    · intro w hw
      simp only [List.mem_map] at hw
      obtain ⟨z, _, rfl⟩ := hw
      exact cTok_trivs _
    · intro w hw
      simp only [List.mem_map] at hw
      obtain ⟨z, _, rfl⟩ := hw
      rfl
    · exact cTok_trivs _
  rw [this]
  simp [zgrp]

/-! #### the text -/

/-- the blank lines of `mkDoc`: the lead has none, every paragraph but the last is followed by
    exactly one (then only comment lines), the last by nothing -/
theorem mkDoc_shape (zs : List (List Str × PG)) (tr : List Str) :
    (∃ cs, (mkDoc zs tr).lead = cGaps cs)
      ∧ ∀ pg ∈ (mkDoc zs tr).paras, pg.2 = [] ∨ ∃ cs, pg.2 = Gap.blank :: cGaps cs := by
  have hp : ∀ zs : List (List Str × PG), ∀ pg ∈ mkParas zs tr, pg.2 = [] ∨ ∃ cs, pg.2 = Gap.blank :: cGaps cs := by
    intro zs
    cases zs with
    | nil => simp [mkParas]
    | cons z zs =>
      induction zs generalizing z with
      | nil => intro pg hpg; simp only [mkParas, List.mem_cons, List.not_mem_nil, or_false] at hpg; subst hpg; exact Or.inl rfl
      | cons z' zs ih =>
        intro pg hpg
        simp only [mkParas, List.mem_cons] at hpg
        rcases hpg with rfl | hpg
        · exact Or.inr ⟨_, rfl⟩
        · exact ih z' pg hpg
  cases zs with
  | nil => exact ⟨⟨tr, rfl⟩, by simp [mkDoc]⟩
  | cons z zs => exact ⟨⟨_, rfl⟩, hp (z :: zs)⟩

/-- **strict re-read**: wrap-and-sort of (the tree of) a well-formed document succeeds; its printed
    text is the text of the well-formed document `d'`, which has the same fields per paragraph as
    the returned tree — the same ENTRY nodes, hence the same `(name, value)` items -/
theorem deb822Wrap_reread (cfg : WrapCfg) (ele ple : Option (DNode → DNode → Bool)) (d : DocC)
    (hwf : d.WF) (hc : IndentOK cfg) :
    ∃ (root' : DNode) (d' : DocC),
      deb822Wrap ple (some (paragraphWrap cfg ele none)) d.tree = some root'
      ∧ d'.WF ∧ d'.TermAll ∧ root'.text = d'.str ∧ root'.leaves = d'.toks
      ∧ docItems d'.tree = docItems root'
      ∧ (paragraphs root').length = d.paras.length
      ∧ (∃ cs, d'.lead = cGaps cs)
      ∧ (∀ pg ∈ d'.paras, pg.2 = [] ∨ ∃ cs, pg.2 = Gap.blank :: cGaps cs)
      ∧ (paragraphs d'.tree).map entries = (paragraphs root').map entries := by
  obtain ⟨zs, tr, hzs, htr, hlen, hres⟩ := deb822Wrap_doc cfg ele ple d hwf hc
  have hok : ∀ z ∈ zs, z.2.OK := fun z hz => (hzs z hz).1
  have hd' := mkDoc_wf zs tr hzs htr
  have hleaves : (Node.node Kind.ROOT (docOut (zs.map zgrp) (tr.map cTok))).leaves = (mkDoc zs tr).toks := by
    rw [leaves_node]; exact leaves_docOut zs tr hok
  refine ⟨_, mkDoc zs tr, hres, hd', mkDoc_termAll zs tr hzs htr, ?_, hleaves, ?_, ?_, (mkDoc_shape zs tr).1,
    (mkDoc_shape zs tr).2, ?_⟩
  · rw [← tokText_leaves, hleaves, tokText_docToks _ hd']
  · rw [mkDoc_items zs tr hok]
    simp only [docItems, paragraphs_docOut, List.map_map]
    rfl
  · rw [paragraphs_docOut, List.length_map, hlen]
  · rw [mkDoc_entries zs tr hok, paragraphs_docOut, List.map_map]
    rfl

/-- **strict re-read, paragraph level** (`Paragraph::wrap_and_sort`): the reformatted paragraph prints
    as the text of a well-formed, fully terminated one-paragraph document `d'` (comments sorted in
    front of the first field are top-level comments of `d'`) with the same ENTRY nodes -/
theorem paragraphWrap_reread (cfg : WrapCfg) (le : Option (DNode → DNode → Bool)) (p : ParaC) (more : Bool)
    (hwf : p.WF) (ht : p.Term more) (hc : IndentOK cfg) :
    ∃ (p' : DNode) (d' : DocC),
      paragraphWrap cfg le none p.node = some p'
      ∧ d'.WF ∧ d'.TermAll ∧ p'.text = d'.str ∧ p'.leaves = d'.toks
      ∧ docItems d'.tree = [items p']
      ∧ (paragraphs d'.tree).map entries = [entries p']
      ∧ d'.paras.length = 1 := by
  obtain ⟨pg, hok, hres⟩ := paragraphWrap_para cfg le p more hwf ht hc
  have hzs : ∀ z ∈ [(([] : List Str), pg)], z.2.OK ∧ ∀ c ∈ z.1, NoNl c := by
    intro z hz
    simp only [List.mem_cons, List.not_mem_nil, or_false] at hz
    subst hz
    exact ⟨hok, by simp⟩
  have hoks : ∀ z ∈ [(([] : List Str), pg)], z.2.OK := fun z hz => (hzs z hz).1
  have hd' := mkDoc_wf [([], pg)] [] hzs (by simp)
  have hleaves : pg.node.leaves = (mkDoc [([], pg)] []).toks := by
    rw [pg_leaves pg hok.ne]
    have h1 : gapsToks (cGaps pg.lead) = cToks pg.lead := gapsToks_cGaps _
    simp only [mkDoc, DocC.toks, zlead, mkParas, parasToksC, List.nil_append, h1, List.map_cons, List.map_nil,
      List.flatten_cons, List.flatten_nil, List.append_nil]
    simp [gapsToks]
  refine ⟨pg.node, mkDoc [([], pg)] [], hres, hd', mkDoc_termAll _ _ hzs (by simp), ?_, hleaves, ?_, ?_, rfl⟩
  · rw [← tokText_leaves, hleaves, tokText_docToks _ hd']
  · rw [mkDoc_items _ _ hoks]; rfl
  · rw [mkDoc_entries _ _ hoks]; rfl

end Deb822Verif.DebC
