import Deb822Verif.Lemmas.DocLines
/-!
# The seven kinds of LF-free lines

`lineClass` computes the kind of a line from its characters; each kind is also given as a predicate
on the text (`CommentLine`, `WsOnlyLine`, `IndentedLine`, `FieldLine`, `SpacedColonLine`, `BadLine`
from `Lemmas/DebReject`). `lineClass_iff`: on an LF/CR-free line the computed kind is `k` iff the
predicate of `k` holds — hence the seven predicates are pairwise exclusive and exhaustive.
-/
namespace Deb822Verif.Deb
open Deb822Verif Spec

/-! ### takeWhile / dropWhile -/

theorem mem_takeWhile_true {α} (p : α → Bool) (l : List α) : ∀ x ∈ l.takeWhile p, p x = true := by
  induction l with
  | nil => simp
  | cons a l ih =>
    intro x hx
    rw [List.takeWhile_cons] at hx
    split at hx
    · simp only [List.mem_cons] at hx
      rcases hx with rfl | hx
      · assumption
      · exact ih x hx
    · simp at hx

theorem headFails_dropWhile {α} (p : α → Bool) (l : List α) : HeadFails p (l.dropWhile p) := by
  induction l with
  | nil => intro x hx; simp at hx
  | cons a l ih =>
    rw [List.dropWhile_cons]
    split
    · exact ih
    · intro x hx; simp at hx; subst hx; simpa using ‹¬p a = true›

theorem all_of_dropWhile_nil {α} (p : α → Bool) (l : List α) (h : l.dropWhile p = []) :
    ∀ x ∈ l, p x = true := by
  have := List.takeWhile_append_dropWhile (p := p) (l := l)
  rw [h, List.append_nil] at this
  intro x hx
  rw [← this] at hx
  exact mem_takeWhile_true p l x hx

theorem dropWhile_all {α} (p : α → Bool) (l : List α) (h : ∀ x ∈ l, p x = true) : l.dropWhile p = [] := by
  have := dropWhile_app p l [] h (by intro x hx; simp at hx)
  simpa using this

theorem headFails_nil {α} (p : α → Bool) : HeadFails p ([] : List α) := by intro x hx; simp at hx

theorem headFails_cons {α} (p : α → Bool) (a : α) (l : List α) (h : p a = false) : HeadFails p (a :: l) := by
  intro x hx; simp at hx; subst hx; exact h

theorem indent_not_keyChar (c : Char) (h : isIndent c = true) : isKeyChar c = false := by
  cases hk : isKeyChar c
  · rfl
  · have := keyChar_not_indent c hk; simp_all

theorem initialKeyChar_keyChar (c : Char) (h : isInitialKeyChar c = true) : isKeyChar c = true := by
  simp [isInitialKeyChar] at h; exact h.2

/-! ### the kinds -/

inductive LineClass
  | empty | comment | wsOnly | indented | field | spacedColon | bad
  deriving DecidableEq, Repr

/-- the kind of a line, computed from its characters -/
def lineClass : Str → LineClass
  | [] => .empty
  | c :: cs =>
    if c = '#' then .comment
    else if isIndent c then (if cs.dropWhile isIndent = [] then .wsOnly else .indented)
    else if isInitialKeyChar c then
      if (cs.dropWhile isKeyChar).head? = some ':' then .field
      else if ((cs.dropWhile isKeyChar).dropWhile isIndent).head? = some ':' then .spacedColon
      else .bad
    else .bad

/-- `#…` -/
def CommentLine (l : Str) : Prop := ∃ t, l = '#' :: t
/-- one or more spaces / tabs and nothing else -/
def WsOnlyLine (l : Str) : Prop := l ≠ [] ∧ AllIndent l
/-- spaces / tabs, then text (continuation line, orphan continuation line, indented `#…`) -/
def IndentedLine (l : Str) : Prop :=
  ∃ ws c cs, l = ws ++ c :: cs ∧ ws ≠ [] ∧ AllIndent ws ∧ isIndent c = false
/-- `name ':' …` -/
def FieldLine (l : Str) : Prop := ∃ k r, l = k ++ ':' :: r ∧ ValidKey k
/-- `name` spaces / tabs `':' …` — not a field of the stated grammar, accepted by the lossless reader -/
def SpacedColonLine (l : Str) : Prop :=
  ∃ k ws r, l = k ++ (ws ++ ':' :: r) ∧ ValidKey k ∧ ws ≠ [] ∧ AllIndent ws

/-- the predicate of a kind -/
def LineClass.Holds : LineClass → Str → Prop
  | .empty, l => l = []
  | .comment, l => CommentLine l
  | .wsOnly, l => WsOnlyLine l
  | .indented, l => IndentedLine l
  | .field, l => FieldLine l
  | .spacedColon, l => SpacedColonLine l
  | .bad, l => BadLine l

/-! ### from the predicate to the computed kind -/

theorem lineClass_of_comment (l : Str) (h : CommentLine l) : lineClass l = .comment := by
  obtain ⟨t, rfl⟩ := h; simp [lineClass]

theorem indent_ne_hash (c : Char) (h : isIndent c = true) : c ≠ '#' := by
  intro e; subst e; simp [isIndent] at h

theorem lineClass_of_wsOnly (l : Str) (h : WsOnlyLine l) : lineClass l = .wsOnly := by
  obtain ⟨hne, hall⟩ := h
  cases l with
  | nil => exact absurd rfl hne
  | cons c cs =>
    have hc : isIndent c = true := hall c (by simp)
    have hd := dropWhile_all isIndent cs (fun x hx => hall x (by simp [hx]))
    simp [lineClass, indent_ne_hash c hc, hc, hd]

theorem lineClass_of_indented (l : Str) (h : IndentedLine l) : lineClass l = .indented := by
  obtain ⟨ws, c, cs, rfl, hne, hall, hc⟩ := h
  cases ws with
  | nil => exact absurd rfl hne
  | cons w ws =>
    have hw : isIndent w = true := hall w (by simp)
    have hd := dropWhile_app isIndent ws (c :: cs) (fun x hx => hall x (by simp [hx]))
      (headFails_cons _ _ _ hc)
    simp [lineClass, indent_ne_hash w hw, hw, hd]

theorem lineClass_of_field (l : Str) (h : FieldLine l) : lineClass l = .field := by
  obtain ⟨k, r, rfl, c, cs, rfl, hc, hh, hcs⟩ := h
  have hk := initialKeyChar_keyChar c hc
  have hd := dropWhile_app isKeyChar cs (':' :: r) hcs (headFails_cons _ _ _ colon_not_keyChar)
  simp [lineClass, hh, keyChar_not_indent c hk, hc, hd]

theorem lineClass_of_spacedColon (l : Str) (h : SpacedColonLine l) : lineClass l = .spacedColon := by
  obtain ⟨k, ws, r, rfl, ⟨c, cs, rfl, hc, hh, hcs⟩, hne, hall⟩ := h
  have hk := initialKeyChar_keyChar c hc
  cases ws with
  | nil => exact absurd rfl hne
  | cons w ws =>
    have hw : isIndent w = true := hall w (by simp)
    have hd := dropWhile_app isKeyChar cs (w :: ws ++ ':' :: r) hcs
      (headFails_cons _ _ _ (indent_not_keyChar w hw))
    have hd2 := dropWhile_app isIndent (w :: ws) (':' :: r) hall (headFails_cons _ _ _ (by decide))
    have hwc : w ≠ ':' := indent_not_colon w hw
    simp only [List.cons_append] at hd hd2
    simp [lineClass, hh, keyChar_not_indent c hk, hc, hd, hd2, hwc]

theorem lineClass_of_bad (l : Str) (h : BadLine l) : lineClass l = .bad := by
  rcases h.shape with ⟨cs, rfl⟩ | ⟨c, cs, rfl, hk, hi, hh, hc⟩ | ⟨k, ws, r, rfl, ⟨c, cs, rfl, hc, hh, hcs⟩, hws, hkf, hif, hcolon⟩
  · simp [lineClass, isIndent, isInitialKeyChar, isKeyChar]
  · simp [lineClass, hh, hi, hk]
  · have hk := initialKeyChar_keyChar c hc
    have hd := dropWhile_app isKeyChar cs (ws ++ r) hcs hkf
    have hd2 := dropWhile_app isIndent ws r hws hif
    have h1 : (ws ++ r).head? ≠ some ':' := by
      cases ws with
      | nil => intro e; exact hcolon ':' (by simpa using e) rfl
      | cons w ws' =>
        have := indent_not_colon w (hws w (by simp))
        simpa using this
    have h2 : r.head? ≠ some ':' := fun e => hcolon ':' e rfl
    have hi := keyChar_not_indent c hk
    simp only [List.cons_append, lineClass, hh, ↓reduceIte, hi, Bool.false_eq_true, hc, hd, hd2, h1, h2]

theorem lineClass_of_holds (k : LineClass) (l : Str) (h : k.Holds l) : lineClass l = k := by
  cases k with
  | empty => simp only [LineClass.Holds] at h; subst h; rfl
  | comment => exact lineClass_of_comment l h
  | wsOnly => exact lineClass_of_wsOnly l h
  | indented => exact lineClass_of_indented l h
  | field => exact lineClass_of_field l h
  | spacedColon => exact lineClass_of_spacedColon l h
  | bad => exact lineClass_of_bad l h

/-! ### the predicate of the computed kind holds -/

theorem lineClass_holds (l : Str) (hn : NoNl l) : (lineClass l).Holds l := by
  cases l with
  | nil => simp [lineClass, LineClass.Holds]
  | cons c cs =>
    by_cases hh : c = '#'
    · subst hh; simp only [lineClass, ↓reduceIte, LineClass.Holds]; exact ⟨cs, rfl⟩
    by_cases hi : isIndent c = true
    · by_cases hd : cs.dropWhile isIndent = []
      · simp only [lineClass, hh, ↓reduceIte, hi, hd, LineClass.Holds]
        refine ⟨by simp, ?_⟩
        intro x hx
        simp only [List.mem_cons] at hx
        rcases hx with rfl | hx
        · exact hi
        · exact all_of_dropWhile_nil isIndent cs hd x hx
      · simp only [lineClass, hh, ↓reduceIte, hi, hd, LineClass.Holds]
        cases hdc : cs.dropWhile isIndent with
        | nil => exact absurd hdc hd
        | cons d ds =>
          refine ⟨c :: cs.takeWhile isIndent, d, ds, ?_, by simp, ?_, ?_⟩
          · rw [List.cons_append, ← hdc, List.takeWhile_append_dropWhile]
          · intro x hx
            simp only [List.mem_cons] at hx
            rcases hx with rfl | hx
            · exact hi
            · exact mem_takeWhile_true _ _ x hx
          · have := headFails_dropWhile isIndent cs
            rw [hdc] at this
            exact this d (by simp)
    have hi' : isIndent c = false := by simpa using hi
    by_cases hk : isInitialKeyChar c = true
    · have hkey : ValidKey (c :: cs.takeWhile isKeyChar) :=
        ⟨c, _, rfl, hk, hh, mem_takeWhile_true _ _⟩
      have hsplit : c :: cs = (c :: cs.takeWhile isKeyChar) ++ cs.dropWhile isKeyChar := by
        rw [List.cons_append, List.takeWhile_append_dropWhile]
      by_cases h1 : (cs.dropWhile isKeyChar).head? = some ':'
      · simp only [lineClass, hh, ↓reduceIte, hi', Bool.false_eq_true, hk, h1, LineClass.Holds]
        cases hr : cs.dropWhile isKeyChar with
        | nil => rw [hr] at h1; simp at h1
        | cons x r =>
          rw [hr] at h1; simp at h1; subst h1
          exact ⟨_, r, by rw [← hr]; exact hsplit, hkey⟩
      by_cases h2 : ((cs.dropWhile isKeyChar).dropWhile isIndent).head? = some ':'
      · simp only [lineClass, hh, ↓reduceIte, hi', Bool.false_eq_true, hk, h1, h2, LineClass.Holds]
        cases hr : (cs.dropWhile isKeyChar).dropWhile isIndent with
        | nil => rw [hr] at h2; simp at h2
        | cons x r =>
          rw [hr] at h2; simp at h2; subst h2
          refine ⟨_, (cs.dropWhile isKeyChar).takeWhile isIndent, r, ?_, hkey, ?_, mem_takeWhile_true _ _⟩
          · rw [← hr, List.takeWhile_append_dropWhile]; exact hsplit
          · intro he
            have := List.takeWhile_append_dropWhile (p := isIndent) (l := cs.dropWhile isKeyChar)
            rw [he, List.nil_append, hr] at this
            rw [← this] at h1
            simp at h1
      · simp only [lineClass, hh, ↓reduceIte, hi', Bool.false_eq_true, hk, h1, h2, LineClass.Holds]
        refine ⟨hn, Or.inr (Or.inr ⟨_, (cs.dropWhile isKeyChar).takeWhile isIndent,
          (cs.dropWhile isKeyChar).dropWhile isIndent, ?_, hkey, mem_takeWhile_true _ _, ?_,
          headFails_dropWhile _ _, ?_⟩)⟩
        · rw [List.takeWhile_append_dropWhile]; exact hsplit
        · rw [List.takeWhile_append_dropWhile]; exact headFails_dropWhile _ _
        · intro x hx e; subst e; exact h2 hx
    · have hk' : isInitialKeyChar c = false := by simpa using hk
      simp only [lineClass, hh, ↓reduceIte, hi', Bool.false_eq_true, hk', LineClass.Holds]
      refine ⟨hn, ?_⟩
      by_cases hc : c = ':'
      · subst hc; exact Or.inl ⟨cs, rfl⟩
      · exact Or.inr (Or.inl ⟨c, cs, rfl, hk', hi', hh, hc⟩)

/-- **the kind of an LF/CR-free line**: the computed kind is `k` iff the predicate of `k` holds -/
theorem lineClass_iff (l : Str) (hn : NoNl l) (k : LineClass) : lineClass l = k ↔ k.Holds l :=
  ⟨fun h => h ▸ lineClass_holds l hn, lineClass_of_holds k l⟩

/-- no line is of two kinds (no hypothesis on the line) -/
theorem lineClass_unique (l : Str) (k k' : LineClass) (h : k.Holds l) (h' : k'.Holds l) : k = k' := by
  rw [← lineClass_of_holds k l h, ← lineClass_of_holds k' l h']

/-! ### the kinds and the lines of the grammar -/

/-- a field line of the grammar (`Line.field` with valid parts) is exactly an LF/CR-free `FieldLine` -/
theorem fieldLine_iff (l : Str) :
    (FieldLine l ∧ NoNl l) ↔ ∃ k ws v, (Line.field k ws v).Valid ∧ l = (Line.field k ws v).text := by
  constructor
  · rintro ⟨⟨k, r, rfl, hk⟩, hn⟩
    refine ⟨k, r.takeWhile isIndent, r.dropWhile isIndent, ⟨hk, mem_takeWhile_true _ _, ?_, ?_⟩, ?_⟩
    · intro x hx
      apply hn x
      have : x ∈ r := by
        rw [← List.takeWhile_append_dropWhile (p := isIndent) (l := r)]
        exact List.mem_append_right _ hx
      simp [this]
    · exact headFails_dropWhile isIndent r
    · simp [Line.text, List.takeWhile_append_dropWhile]
  · rintro ⟨k, ws, v, ⟨hk, hws, hv⟩, rfl⟩
    refine ⟨⟨k, ws ++ v, rfl, hk⟩, ?_⟩
    intro x hx
    simp only [Line.text, List.mem_append, List.mem_cons] at hx
    rcases hx with hx | rfl | hx | hx
    · obtain ⟨c, cs, rfl, hc, _, hcs⟩ := hk
      simp only [List.mem_cons] at hx
      rcases hx with rfl | hx
      · exact keyChar_not_newline _ (initialKeyChar_keyChar _ hc)
      · exact keyChar_not_newline _ (hcs x hx)
    · decide
    · exact indent_not_newline x (hws x hx)
    · exact hv.1 x hx

/-- a continuation line of the grammar (`Line.cont` with valid parts) is exactly an `OrphanLine` -/
theorem contLine_iff (l : Str) :
    OrphanLine l ↔ ∃ i v, (Line.cont i v).Valid ∧ l = (Line.cont i v).text := by
  constructor
  · rintro ⟨hn, ws, c, cs, rfl, hne, hall, hc, hh⟩
    exact ⟨ws, c :: cs, ⟨hne, hall, fun x hx => hn x (by simp only [List.mem_append]; exact Or.inr hx),
      c, cs, rfl, hc, hh⟩, rfl⟩
  · rintro ⟨i, v, ⟨hne, hall, hn, c, cs, rfl, hc, hh⟩, rfl⟩
    refine ⟨?_, i, c, cs, rfl, hne, hall, hc, hh⟩
    intro x hx
    simp only [Line.text, List.mem_append] at hx
    rcases hx with hx | hx
    · exact indent_not_newline x (hall x hx)
    · exact hn x hx

/-- an indented line is a continuation-shaped line or an indented `#…` line -/
theorem indentedLine_iff (l : Str) (hn : NoNl l) :
    IndentedLine l ↔ (OrphanLine l ∨ ∃ ws t, l = ws ++ '#' :: t ∧ ws ≠ [] ∧ AllIndent ws) := by
  constructor
  · rintro ⟨ws, c, cs, rfl, hne, hall, hc⟩
    by_cases hh : c = '#'
    · subst hh; exact Or.inr ⟨ws, cs, rfl, hne, hall⟩
    · exact Or.inl ⟨hn, ws, c, cs, rfl, hne, hall, hc, hh⟩
  · rintro (⟨_, ws, c, cs, rfl, hne, hall, hc, _⟩ | ⟨ws, t, rfl, hne, hall⟩)
    · exact ⟨ws, c, cs, rfl, hne, hall, hc⟩
    · exact ⟨ws, '#', t, rfl, hne, hall, by decide⟩

/-- **the legal lines**: a text is the text of some valid line of the grammar iff it is empty, a comment
    line, a field line or a continuation-shaped line (and LF/CR-free) -/
theorem validLine_iff (l : Str) :
    (∃ ln : Line, ln.Valid ∧ l = ln.text) ↔
      (NoNl l ∧ (l = [] ∨ CommentLine l ∨ FieldLine l ∨ OrphanLine l)) := by
  constructor
  · rintro ⟨ln, hv, rfl⟩
    cases ln with
    | raw t => exact absurd hv (by simp [Line.Valid])
    | blank => exact ⟨by intro x hx; simp [Line.text] at hx, Or.inl rfl⟩
    | comment t =>
      refine ⟨?_, Or.inr (Or.inl ⟨t, rfl⟩)⟩
      intro x hx
      simp only [Line.text, List.mem_cons] at hx
      rcases hx with rfl | hx
      · decide
      · exact hv x hx
    | field k ws v =>
      have := (fieldLine_iff _).2 ⟨k, ws, v, hv, rfl⟩
      exact ⟨this.2, Or.inr (Or.inr (Or.inl this.1))⟩
    | cont i v =>
      have := (contLine_iff _).2 ⟨i, v, hv, rfl⟩
      exact ⟨this.noNl, Or.inr (Or.inr (Or.inr this))⟩
  · rintro ⟨hn, rfl | ⟨t, rfl⟩ | hf | ho⟩
    · exact ⟨.blank, trivial, rfl⟩
    · exact ⟨.comment t, fun x hx => hn x (by simp [hx]), rfl⟩
    · obtain ⟨k, ws, v, hv, rfl⟩ := (fieldLine_iff _).1 ⟨hf, hn⟩
      exact ⟨_, hv, rfl⟩
    · obtain ⟨i, v, hv, rfl⟩ := (contLine_iff _).1 ho
      exact ⟨_, hv, rfl⟩

end Deb822Verif.Deb
