import Deb822Verif.Model.DebLossy
/-!
# Work count of the lossy deb822 reader (`src/lossy.rs:251-370`)

Instrumented twins of the functions of `Model/DebLossy.lean`: each returns the model's result
*and* the number of loop-body executions ("iterations") of the Rust loops it stands for:

| twin          | Rust loop(s) counted                                                     |
|---------------|--------------------------------------------------------------------------|
| `firstLineC`  | `for (k, t) in tokens.by_ref()` (lossy.rs:292-302)                        |
| `contLineC`   | the inner `loop { match tokens.peek() … }` (lossy.rs:309-334); the round  |
|               | that `break`s on `KEY` / end of input consumes no token and is counted    |
| `contLinesC`  | `while peek == INDENT` (307-335) + its inner loops                        |
| `skipCommentC`| `for (k, _) in tokens.by_ref()` (347-351)                                 |
| `fieldValueC` | `while peek == WHITESPACE` (288-290) + the three above                    |
| `loopC`       | `while let Some((k, t)) = tokens.next()` (260-362) + everything inside    |

`*_fst`: the first component is the model function (so the twin runs the same branches).
`*_cost`: iterations + tokens left ≤ tokens given.  The only non-consuming rounds are the final
round of the inner continuation loop (`KEY` / end of input); each field pays for at most one of
them with its `COLON`, which is consumed outside any loop.
-/
namespace Deb822Verif.Deb.Lossy
open Deb822Verif Deb

/-- tokens left over by a sub-reader (0 when it failed) -/
def restLen {α} : Except Err (α × List Tok) → Nat
  | .ok (_, r) => r.length
  | .error _ => 0

@[simp] theorem restLen_ok {α} (a : α) (r : List Tok) : restLen (.ok (a, r) : Except Err _) = r.length := rfl
@[simp] theorem restLen_error {α} (e : Err) : restLen (.error e : Except Err (α × List Tok)) = 0 := rfl

/-! ### first line -/

def firstLineC (val : Str) : List Tok → Except Err (Str × List Tok) × Nat
  | [] => (.ok (val, []), 0)
  | (k, t) :: ts =>
    if k = .VALUE then ((firstLineC t ts).1, (firstLineC t ts).2 + 1)
    else if k = .NEWLINE then (.ok (val, ts), 1)
    else (.error .UnexpectedToken, 1)

theorem firstLineC_fst (val ts) : (firstLineC val ts).1 = firstLine val ts := by
  induction ts generalizing val with
  | nil => rfl
  | cons t ts ih =>
    obtain ⟨k, s⟩ := t
    simp only [firstLineC, firstLine]
    split
    · exact ih _
    · split <;> rfl

/-- every round of the `for` loop consumes its token -/
theorem firstLineC_cost (val ts) :
    (firstLineC val ts).2 + restLen (firstLine val ts) ≤ ts.length := by
  induction ts generalizing val with
  | nil => simp [firstLineC, firstLine]
  | cons t ts ih =>
    obtain ⟨k, s⟩ := t
    simp only [firstLineC, firstLine]
    split
    · have := ih s; simp only [List.length_cons]; omega
    · split <;> simp <;> omega

/-! ### one continuation line -/

def contLineC (acc : Str) : List Tok → Except Err (Str × List Tok) × Nat
  | [] => (.ok (acc, []), 1)
  | (k, t) :: ts =>
    if k = .VALUE then ((contLineC (acc ++ t) ts).1, (contLineC (acc ++ t) ts).2 + 1)
    else if k = .COMMENT then ((contLineC acc ts).1, (contLineC acc ts).2 + 1)
    else if k = .NEWLINE then (.ok (acc ++ ['\n'], ts), 1)
    else if k = .KEY then (.ok (acc, (k, t) :: ts), 1)
    else (.error .UnexpectedToken, 1)

theorem contLineC_fst (acc ts) : (contLineC acc ts).1 = contLine acc ts := by
  induction ts generalizing acc with
  | nil => rfl
  | cons t ts ih =>
    obtain ⟨k, s⟩ := t
    simp only [contLineC, contLine]
    split
    · exact ih _
    · split
      · exact ih _
      · split
        · rfl
        · split <;> rfl

/-- the next token is not an INDENT (so the `while peek == INDENT` loop stops) -/
def NoIndentHead : List Tok → Prop
  | [] => True
  | (k, _) :: _ => k ≠ .INDENT

/-- the inner loop: every round consumes a token, except a last round that stops at `KEY` or at
    the end of the input — and then no INDENT follows -/
theorem contLineC_cost_ok (acc ts v r) (h : contLine acc ts = .ok (v, r)) :
    (contLineC acc ts).2 + r.length ≤ ts.length ∨
    ((contLineC acc ts).2 + r.length = ts.length + 1 ∧ NoIndentHead r) := by
  induction ts generalizing acc with
  | nil =>
    simp [contLine] at h
    obtain ⟨rfl, rfl⟩ := h
    right; simp [contLineC, NoIndentHead]
  | cons t ts ih =>
    obtain ⟨k, s⟩ := t
    simp only [contLine] at h
    simp only [contLineC]
    split at h
    · rename_i hk
      simp only [if_pos hk, List.length_cons]
      rcases ih _ h with h1 | h1
      · left; omega
      · right; exact ⟨by omega, h1.2⟩
    · rename_i hk
      split at h
      · rename_i hk2
        simp only [if_neg hk, if_pos hk2, List.length_cons]
        rcases ih _ h with h1 | h1
        · left; omega
        · right; exact ⟨by omega, h1.2⟩
      · rename_i hk2
        split at h
        · rename_i hk3
          simp at h
          obtain ⟨_, rfl⟩ := h
          left; simp [if_neg hk, if_neg hk2, if_pos hk3]; omega
        · rename_i hk3
          split at h
          · rename_i hk4
            simp at h
            obtain ⟨_, rfl⟩ := h
            right
            simp only [if_neg hk, if_neg hk2, if_neg hk3, if_pos hk4, NoIndentHead, List.length_cons]
            exact ⟨by omega, by simp [hk4]⟩
          · simp at h

theorem contLineC_cost_err (acc ts e) (h : contLine acc ts = .error e) :
    (contLineC acc ts).2 ≤ ts.length := by
  induction ts generalizing acc with
  | nil => simp [contLine] at h
  | cons t ts ih =>
    obtain ⟨k, s⟩ := t
    simp only [contLine] at h
    simp only [contLineC]
    split at h
    · rename_i hk
      simp only [if_pos hk, List.length_cons]
      have := ih _ h; omega
    · rename_i hk
      split at h
      · rename_i hk2
        simp only [if_neg hk, if_pos hk2, List.length_cons]
        have := ih _ h; omega
      · rename_i hk2
        split at h
        · simp at h
        · rename_i hk3
          split at h
          · simp at h
          · rename_i hk4
            simp [if_neg hk, if_neg hk2, if_neg hk3, if_neg hk4]

/-! ### all continuation lines -/

def contLinesC (acc : Str) (ts : List Tok) : Except Err (Str × List Tok) × Nat :=
  match ts with
  | [] => (.ok (acc, []), 0)
  | (k, t) :: ts' =>
    if k = .INDENT then
      match h : contLineC acc ts' with
      | (.error e, n) => (.error e, n + 1)
      | (.ok (acc', rest), n) => ((contLinesC acc' rest).1, (contLinesC acc' rest).2 + n + 1)
    else (.ok (acc, (k, t) :: ts'), 0)
termination_by ts.length
decreasing_by
  have h1 : contLine acc ts' = .ok (acc', rest) := by rw [← contLineC_fst, h]
  have := contLine_len _ _ _ _ h1
  simp; omega

theorem contLinesC_fst (acc ts) : (contLinesC acc ts).1 = contLines acc ts := by
  fun_induction contLinesC acc ts
  case case1 acc => simp [contLines]
  case case2 acc t ts e n h =>
    have h1 : contLine acc ts = .error e := by rw [← contLineC_fst, h]
    rw [contLines]; simp only [if_true]
    split
    · rename_i h2; rw [h1] at h2; cases h2; rfl
    · rename_i h2; rw [h1] at h2; cases h2
  case case3 acc t ts acc' rest n h ih =>
    have h1 : contLine acc ts = .ok (acc', rest) := by rw [← contLineC_fst, h]
    rw [contLines]; simp only [if_true]
    split
    · rename_i h2; rw [h1] at h2; cases h2
    · rename_i h2; rw [h1] at h2; cases h2; exact ih
  case case4 acc k t ts h => rw [contLines]; simp [h]

theorem contLinesC_noIndent (acc ts) (h : NoIndentHead ts) : contLinesC acc ts = (.ok (acc, ts), 0) := by
  cases ts with
  | nil => simp [contLinesC]
  | cons t ts =>
    obtain ⟨k, s⟩ := t
    simp only [NoIndentHead] at h
    rw [contLinesC]; simp [h]

/-- `while peek == INDENT`: iterations (outer and inner) + tokens left ≤ tokens + 1 -/
theorem contLinesC_cost (acc ts) :
    (contLinesC acc ts).2 + restLen (contLines acc ts) ≤ ts.length + 1 := by
  rw [← contLinesC_fst]
  fun_induction contLinesC acc ts
  case case1 acc => simp
  case case2 acc t ts e n h =>
    have h1 : contLine acc ts = .error e := by rw [← contLineC_fst, h]
    have := contLineC_cost_err _ _ _ h1
    rw [h] at this
    simp at this ⊢; omega
  case case3 acc t ts acc' rest n h ih =>
    have h1 : contLine acc ts = .ok (acc', rest) := by rw [← contLineC_fst, h]
    have h2 := contLineC_cost_ok _ _ _ _ h1
    rw [h] at h2
    simp only [List.length_cons] at h2 ⊢
    rcases h2 with h2 | ⟨h2, h3⟩
    · omega
    · rw [contLinesC_noIndent _ _ h3] at ih ⊢
      simp at ih ⊢; omega
  case case4 acc k t ts h => simp

/-! ### comment line -/

def skipCommentC : List Tok → List Tok × Nat
  | [] => ([], 0)
  | (k, _) :: ts => if k = .NEWLINE then (ts, 1) else ((skipCommentC ts).1, (skipCommentC ts).2 + 1)

theorem skipCommentC_fst (ts) : (skipCommentC ts).1 = skipComment ts := by
  induction ts with
  | nil => rfl
  | cons t ts ih => obtain ⟨k, s⟩ := t; simp only [skipCommentC, skipComment]; split <;> simp [ih]

theorem skipCommentC_cost (ts) : (skipCommentC ts).2 + (skipComment ts).length = ts.length := by
  induction ts with
  | nil => rfl
  | cons t ts ih =>
    obtain ⟨k, s⟩ := t; simp only [skipCommentC, skipComment]; split <;> simp <;> omega

/-! ### a field -/

def fieldValueC (ts : List Tok) : Except Err (Str × List Tok) × Nat :=
  match ts with
  | [] => (.error .UnexpectedEof, 0)
  | (k, _) :: ts1 =>
    if k = .COLON then
      match firstLineC [] (ts1.dropWhile fun t => t.1 = .WHITESPACE) with
      | (.error e, n1) => (.error e, (ts1.takeWhile fun t => t.1 = .WHITESPACE).length + n1)
      | (.ok (v, ts3), n1) =>
        match contLinesC (v ++ ['\n']) ts3 with
        | (.error e, n2) => (.error e, (ts1.takeWhile fun t => t.1 = .WHITESPACE).length + n1 + n2)
        | (.ok (v2, ts4), n2) =>
          (.ok (trimNl v2, ts4), (ts1.takeWhile fun t => t.1 = .WHITESPACE).length + n1 + n2)
    else (.error .UnexpectedToken, 0)

theorem fieldValueC_fst (ts) : (fieldValueC ts).1 = fieldValue ts := by
  cases ts with
  | nil => rfl
  | cons t ts1 =>
    obtain ⟨k, s⟩ := t
    simp only [fieldValueC, fieldValue]
    split
    · have a := firstLineC_fst [] (ts1.dropWhile fun t => t.1 = .WHITESPACE)
      split
      · rename_i h; rw [h] at a; simp only at a; rw [← a]
      · rename_i v ts3 n1 h; rw [h] at a; simp only at a; rw [← a]
        simp only
        have b := contLinesC_fst (v ++ ['\n']) ts3
        split
        · rename_i h2; rw [h2] at b; simp only at b; rw [← b]
        · rename_i h2; rw [h2] at b; simp only at b; rw [← b]
    · rfl

theorem takeWhile_dropWhile_length {α} (p : α → Bool) (l : List α) :
    (l.takeWhile p).length + (l.dropWhile p).length = l.length := by
  rw [← List.length_append, List.takeWhile_append_dropWhile]

/-- a field: iterations + tokens left ≤ tokens (the COLON pays for the one non-consuming round) -/
theorem fieldValueC_cost (ts) : (fieldValueC ts).2 + restLen (fieldValue ts) ≤ ts.length := by
  cases ts with
  | nil => simp [fieldValueC, fieldValue]
  | cons t ts1 =>
    obtain ⟨k, s⟩ := t
    have hw := takeWhile_dropWhile_length (fun t : Tok => decide (t.1 = Kind.WHITESPACE)) ts1
    simp only [fieldValueC, fieldValue]
    split
    · have a := firstLineC_fst [] (ts1.dropWhile fun t => t.1 = .WHITESPACE)
      have ca := firstLineC_cost [] (ts1.dropWhile fun t => t.1 = .WHITESPACE)
      split
      · rename_i h; rw [h] at a ca; simp only at a ca; rw [← a] at ca ⊢
        simp at ca ⊢; omega
      · rename_i v ts3 n1 h; rw [h] at a ca; simp only at a ca; rw [← a] at ca ⊢
        simp only [restLen_ok] at ca ⊢
        have b := contLinesC_fst (v ++ ['\n']) ts3
        have cb := contLinesC_cost (v ++ ['\n']) ts3
        split
        · rename_i h2; rw [h2] at b cb; simp only at b cb; rw [← b] at cb ⊢
          simp at cb ⊢; omega
        · rename_i h2; rw [h2] at b cb; simp only at b cb; rw [← b] at cb ⊢
          simp at cb ⊢; omega
    · simp

/-! ### the main loop -/

def loopC (paras : Doc) (cur : Para) (ts : List Tok) : Except Err Doc × Nat :=
  match ts with
  | [] => (.ok (flush paras cur), 0)
  | (k, t) :: ts' =>
    match k with
    | .EMPTY_LINE | .PARAGRAPH | .ROOT | .ENTRY => (.error .Unreachable, 1)
    | .INDENT | .COLON | .ERROR => (.error .UnexpectedToken, 1)
    | .WHITESPACE => ((loopC paras cur ts').1, (loopC paras cur ts').2 + 1)
    | .KEY =>
      match h : fieldValueC ts' with
      | (.error e, n) => (.error e, n + 1)
      | (.ok (v, rest), n) =>
        ((loopC paras (cur ++ [(t, v)]) rest).1, (loopC paras (cur ++ [(t, v)]) rest).2 + n + 1)
    | .VALUE => (.error .UnexpectedToken, 1)
    | .COMMENT =>
      ((loopC paras cur (skipCommentC ts').1).1,
       (loopC paras cur (skipCommentC ts').1).2 + (skipCommentC ts').2 + 1)
    | .NEWLINE => ((loopC (flush paras cur) [] ts').1, (loopC (flush paras cur) [] ts').2 + 1)
termination_by ts.length
decreasing_by
  · simp
  · have h1 : fieldValue ts' = .ok (v, rest) := by rw [← fieldValueC_fst, h]
    have := fieldValue_len _ _ _ h1; simp; omega
  all_goals first
    | (simp; done)
    | (have := skipComment_len ts'; rw [skipCommentC_fst]; simp; omega)
theorem loopC_fst (paras cur ts) : (loopC paras cur ts).1 = loop paras cur ts := by
  fun_induction loopC paras cur ts
  case case10 paras cur t ts e n h =>
    have h1 : fieldValue ts = .error e := by rw [← fieldValueC_fst, h]
    rw [loop]; simp only
    split
    · rename_i h2; rw [h1] at h2; cases h2; rfl
    · rename_i h2; rw [h1] at h2; cases h2
  case case11 paras cur t ts v rest n h ih =>
    have h1 : fieldValue ts = .ok (v, rest) := by rw [← fieldValueC_fst, h]
    rw [loop]; simp only
    split
    · rename_i h2; rw [h1] at h2; cases h2
    · rename_i h2; rw [h1] at h2; cases h2; exact ih
  case case13 paras cur t ts ih => rw [loop]; simp only; rw [← skipCommentC_fst]; exact ih
  all_goals first | (rw [loop]; done) | (rw [loop]; assumption)

/-- the whole reader: iterations of all its loops ≤ tokens -/
theorem loopC_cost (paras cur ts) : (loopC paras cur ts).2 ≤ ts.length := by
  fun_induction loopC paras cur ts
  case case10 paras cur t ts e n h =>
    have h1 : fieldValue ts = .error e := by rw [← fieldValueC_fst, h]
    have := fieldValueC_cost ts
    rw [h, h1] at this; simp at this ⊢; omega
  case case11 paras cur t ts v rest n h ih =>
    have h1 : fieldValue ts = .ok (v, rest) := by rw [← fieldValueC_fst, h]
    have := fieldValueC_cost ts
    rw [h, h1] at this; simp at this ⊢; omega
  case case13 paras cur t ts ih =>
    have := skipCommentC_cost ts
    simp only [skipCommentC_fst] at ih ⊢
    simp only [List.length_cons]; omega
  all_goals (simp only [List.length_cons, List.length_nil]; omega)

/-! ### entry points -/

/-- `lossy::Deb822::from_str` with its iteration count -/
def readC (s : Str) : Except Err Doc × Nat := loopC [] [] (lex s)

theorem readC_fst (s : Str) : (readC s).1 = read s := loopC_fst _ _ _

/-- `lossy::Paragraph::from_str` (one call of `Deb822::from_str`, then a match on the vector) -/
def readParaC (s : Str) : Except Err Para × Nat :=
  (match (readC s).1 with
   | .error _ => .error .ExpectedEof
   | .ok [] => .error .UnexpectedEof
   | .ok [p] => .ok p
   | .ok _ => .error .ExpectedEof, (readC s).2)

theorem readParaC_fst (s : Str) : (readParaC s).1 = readPara s := by
  simp only [readParaC, readPara, readC_fst]
  rcases read s with e | (_ | ⟨p, _ | _⟩) <;> rfl

end Deb822Verif.Deb.Lossy
