import Deb822Verif.Lemmas.RelCanonField
import Deb822Verif.Props.C09
import Deb822Verif.Lemmas.SplitOn
/-! The conversion `lossy::Relation → lossless::Relation` (through `RelationBuilder`) on valid values:
    the tree it builds is the tree the parser builds for the canonical text, hence its text and the
    conversion back (C14, stage 2). -/
set_option linter.unusedSimpArgs false
set_option linter.unusedVariables false
namespace Deb822Verif.Rel.Build
open Deb822Verif Rel Node Lossy RelSpec

/-! ### the tree that is built -/

def aqPart (aq : Option Str) : List RNode :=
  match aq with
  | some a => [Node.node .ARCHQUAL [T .COLON ":", .tok .IDENT a]]
  | none => []

def verPart (v : Option (VC × Version)) : List RNode :=
  match v with
  | some (c, ver) => [T .WHITESPACE " ", versionNode c ver]
  | none => []

/-- an empty list is "no list" for `set_architectures` -/
def archPart (a : Option (List Str)) : List RNode :=
  match a with
  | some (x :: xs) => [T .WHITESPACE " ", architecturesNode (x :: xs)]
  | _ => []

def profsPart (ps : List (List BuildProfile)) : List RNode :=
  (ps.map fun p => [T .WHITESPACE " ", profilesNode p]).flatten

/-- children of the RELATION node `RelationBuilder::build` produces -/
def builtChildren (r : Lossy.Relation) : List RNode :=
  .tok .IDENT r.name :: (aqPart r.archqual ++ (verPart r.version
    ++ (archPart r.architectures ++ profsPart r.profiles)))

@[simp] theorem kind_tok (k : Kind) (t : Str) : (Node.tok k t).kind = k := rfl
@[simp] theorem kind_node (k : Kind) (cs : List RNode) : (Node.node k cs).kind = k := rfl
@[simp] theorem isNode_tok (k : Kind) (t : Str) : (Node.tok k t).isNode = false := rfl
@[simp] theorem isNode_node (k : Kind) (cs : List RNode) : (Node.node k cs).isNode = true := rfl
@[simp] theorem children_node (k : Kind) (cs : List RNode) : (Node.node k cs).children = cs := rfl
@[simp] theorem architecturesNode_kind (as : List Str) : (architecturesNode as).kind = .ARCHITECTURES := rfl
@[simp] theorem architecturesNode_isNode (as : List Str) : (architecturesNode as).isNode = true := rfl
@[simp] theorem profilesNode_kind (p : List BuildProfile) : (profilesNode p).kind = .PROFILES := rfl
@[simp] theorem profilesNode_isNode (p : List BuildProfile) : (profilesNode p).isNode = true := rfl
@[simp] theorem versionNode_kind (c : VC) (v : Version) : (versionNode c v).kind = .VERSION := rfl
@[simp] theorem versionNode_isNode (c : VC) (v : Version) : (versionNode c v).isNode = true := rfl

/-- no PROFILES node among the children -/
def noProf (cs : List RNode) : Prop := ∀ c ∈ cs, (c.isNode && c.kind == Kind.PROFILES) = false

theorem lastNodeIdx_none (cs : List RNode) (h : noProf cs) : lastNodeIdx .PROFILES cs = none := by
  have : (cs.reverse.findIdx? fun c => c.isNode && c.kind == Kind.PROFILES) = none := by
    rw [List.findIdx?_eq_none_iff]
    intro c hc
    exact h c (by simpa using hc)
  simp [lastNodeIdx, this]

theorem lastNodeIdx_snoc (cs : List RNode) (n : RNode) (h : (n.isNode && n.kind == Kind.PROFILES) = true) :
    lastNodeIdx .PROFILES (cs ++ [n]) = some cs.length := by
  simp [lastNodeIdx, List.reverse_append, List.findIdx?_cons, h]

theorem addProfile_end (k : Kind) (cs : List RNode) (p : List BuildProfile)
    (h : noProf cs ∨ ∃ xs n, cs = xs ++ [n] ∧ (n.isNode && n.kind == Kind.PROFILES) = true) :
    addProfile (.node k cs) p = .node k (cs ++ [T .WHITESPACE " ", profilesNode p]) := by
  have hins : ∀ l new : List RNode, insertAt l l.length new = l ++ new := by
    intro l new; simp [insertAt]
  rcases h with h | ⟨xs, n, rfl, hn⟩
  · simp only [addProfile, onChildren, children_node, kind_node, lastNodeIdx_none cs h, hins]
  · have hl : xs.length + 1 = (xs ++ [n]).length := by simp
    simp only [addProfile, onChildren, children_node, kind_node, lastNodeIdx_snoc xs n hn, hl, hins]

theorem foldl_addProfile (k : Kind) (cs : List RNode) (ps : List (List BuildProfile)) (h : noProf cs) :
    ps.foldl addProfile (.node k cs) = .node k (cs ++ profsPart ps) := by
  have gen : ∀ (ps : List (List BuildProfile)) (ds : List RNode),
      (noProf ds ∨ ∃ xs n, ds = xs ++ [n] ∧ (n.isNode && n.kind == Kind.PROFILES) = true) →
      ps.foldl addProfile (.node k ds) = .node k (ds ++ profsPart ps) := by
    intro ps
    induction ps with
    | nil => intro ds _; simp [profsPart]
    | cons p ps ih =>
      intro ds hd
      rw [List.foldl_cons, addProfile_end k ds p hd,
        ih _ (Or.inr ⟨ds ++ [T .WHITESPACE " "], profilesNode p, by simp, rfl⟩)]
      simp [profsPart]
  exact gen ps cs (Or.inl h)

theorem toLossless_eq (r : Lossy.Relation) : toLossless r = .node .RELATION (builtChildren r) := by
  cases r with
  | mk name aq archs ver profs =>
    have hC0 : ∀ (C0 : List RNode), noProf C0 →
        profs.foldl addProfile (.node .RELATION C0) = .node .RELATION (C0 ++ profsPart profs) :=
      fun C0 h => foldl_addProfile _ C0 profs h
    have key : ∀ (as : List Str),
        (RelationBuilder.build ⟨name, ver, aq, as, profs⟩)
          = .node .RELATION (.tok .IDENT name :: (aqPart aq ++ (verPart ver
              ++ (archPart (some as) ++ profsPart profs)))) := by
      intro as
      cases as with
      | nil =>
        cases aq <;> rcases ver with _ | ⟨c, v⟩ <;>
          (simp only [RelationBuilder.build, relationNew, Build.setArchqual, Build.setArchitectures,
            onChildren, nodeIdx, elemIdx, afterName, insertAt, replaceAt, aqPart, verPart, archPart,
            List.isEmpty_nil, ↓reduceIte]
           simp [List.findIdx?_cons, T]
           rw [hC0 _ (by intro c hc; simp at hc; rcases hc with rfl | rfl | rfl | rfl <;> rfl)]
           simp)
      | cons a rest =>
        cases aq <;> rcases ver with _ | ⟨c, v⟩ <;>
          (simp only [RelationBuilder.build, relationNew, Build.setArchqual, Build.setArchitectures,
            onChildren, nodeIdx, elemIdx, afterName, insertAt, replaceAt, aqPart, verPart, archPart,
            List.isEmpty_cons, Bool.false_eq_true, ↓reduceIte]
           simp [List.findIdx?_cons, T]
           rw [hC0 _ (by intro c hc; simp at hc; rcases hc with rfl | rfl | rfl | rfl | rfl | rfl <;> rfl)]
           simp)
    cases archs with
    | some as =>
      rcases ver with _ | ⟨c, v⟩ <;> cases aq <;>
        simpa [toLossless, RelationBuilder.new, RelationBuilder.setVersionConstraint,
          RelationBuilder.setArchqual, RelationBuilder.setArchitectures, RelationBuilder.setProfiles,
          builtChildren] using key as
    | none =>
      have := key []
      rcases ver with _ | ⟨c, v⟩ <;> cases aq <;>
        simpa [toLossless, RelationBuilder.new, RelationBuilder.setVersionConstraint,
          RelationBuilder.setArchqual, RelationBuilder.setArchitectures, RelationBuilder.setProfiles,
          builtChildren, archPart] using this

/-! ### it is the tree of the canonical relation -/

theorem sepBy_cons (sep : List RNode) (x : List RNode) (xs : List (List RNode)) :
    sepBy sep (x :: xs) = x ++ (xs.map (sep ++ ·)).flatten := by
  induction xs generalizing x with
  | nil => simp [sepBy]
  | cons y ys ih => simp [sepBy, ih y, List.append_assoc]


theorem constraintToks_tks (c : VC) : constraintToks c = tks (opToks c) := by
  cases c <;> simp [constraintToks, VC.display, opToks, tks, tk]

/-- `IDENT first (COLON IDENT)*` as `version_tokens` writes it -/
theorem sepBy_colon (p : Str) (ps : List Str) :
    sepBy [T .COLON ":"] ((p :: ps).map fun q => [Node.tok .IDENT q])
      = tks ((.IDENT, p) :: colonTail ps) := by
  rw [List.map_cons, sepBy_cons]
  induction ps with
  | nil => simp [tk]
  | cons q qs ih => simp [tk, T] at ih ⊢; exact ih

theorem versionTokens_valid (v : Version) (h : validVersion v = true) :
    versionTokens v = tks (versionAOf v).toks := by
  obtain ⟨hok, _⟩ := (validVersion_iff v).1 h
  obtain ⟨hb, _, he⟩ := (VersionA.ok_iff _).1 hok
  cases v with
  | mk ep up rev =>
    cases ep with
    | none =>
      have e1 : (Version.mk none up rev).display = (versionAOf ⟨none, up, rev⟩).body := by
        cases rev <;> simp [Version.display, versionAOf]
      simp only [versionTokens, Option.isSome_none, Bool.false_eq_true, ↓reduceIte]
      rw [e1]; simp [VersionA.toks, VersionA.first, VersionA.more, versionAOf, tks, tk]
    | some e =>
      have hd := (he (toString e).toList (by simp [versionAOf])).1
      have hnc : ':' ∉ (toString e).toList := by
        intro hc
        have : isAsciiDigit ':' = true := by
          have := hd
          simp only [isDigits, Bool.and_eq_true, List.all_eq_true] at this
          exact this.2 ':' hc
        exact absurd this (by decide)
      have e1 : (Version.mk (some e) up rev).display
          = (toString e).toList ++ ':' :: (versionAOf ⟨some e, up, rev⟩).body := by
        cases rev <;> simp [Version.display, versionAOf]
      simp only [versionTokens, e1, Text.splitOn_cons _ _ _ hnc, Option.isSome_some, ↓reduceIte,
        sepBy_colon]
      simp [VersionA.toks, VersionA.first, VersionA.more, versionAOf]

theorem versionNode_valid (c : VC) (v : Version) (h : validVersion v = true) :
    versionNode c v = (⟨sp, [], c, sp, versionAOf v, []⟩ : VerPart).node := by
  simp [versionNode, VerPart.node, constraintToks_tks, versionTokens_valid v h, gapToks, sp,
    GapPiece.tok, tks, tk, T]

theorem archToks_item (g : Gap) (a : Str) : tks (archItem g a).toks = tks (gapToks g) ++ archToks a := by
  unfold archItem archToks
  split <;> simp [Item.toks, tks, tk, T]

theorem termToks_item (g : Gap) (p : BuildProfile) : tks (profItem g p).toks = tks (gapToks g) ++ termToks p := by
  cases p <;> simp [profItem, Item.toks, termToks, tks, tk, T]

theorem canonItems_tks {α} (mk : Gap → α → Item) (toks : α → List RNode)
    (h : ∀ g x, tks (mk g x).toks = tks (gapToks g) ++ toks x) (xs : List α) :
    tks (itemsToks (canonItems mk xs)) = sepBy [T .WHITESPACE " "] (xs.map toks) := by
  cases xs with
  | nil => rfl
  | cons x rest =>
    rw [List.map_cons, sepBy_cons]
    simp only [canonItems, itemsToks, List.map_cons, List.flatten_cons, tks_append, h, List.map_map]
    have : ∀ l : List α, tks ((l.map (Item.toks ∘ mk sp)).flatten)
        = ((l.map toks).map ([T .WHITESPACE " "] ++ ·)).flatten := by
      intro l
      induction l with
      | nil => rfl
      | cons y ys ih =>
        simp only [List.map_cons, List.flatten_cons, tks_append, Function.comp, h, ih]
        simp [gapToks, sp, GapPiece.tok, tks, tk, T]
    rw [this]
    simp [gapToks, tks]

theorem profsPart_canon (profs : List (List BuildProfile)) :
    profsPart profs = profsNodes (profs.map fun g => (⟨sp, canonItems profItem g, []⟩ : Bracket)) := by
  induction profs with
  | nil => rfl
  | cons p ps ih =>
    have := canonItems_tks profItem termToks termToks_item p
    simp only [profsPart, List.map_cons, List.flatten_cons, profsNodes_cons] at ih ⊢
    rw [ih]
    simp only [profilesNode, profBody, Bracket.body, tks_cons, tks_append, this]
    simp [gapToks, sp, GapPiece.tok, tks, tk, T]

/-- the builder produces exactly the tree the parser produces for the canonical text -/
theorem toLossless_canon (r : Lossy.Relation) (h : validRS r = true) :
    toLossless r = (canonRel r).node [] := by
  obtain ⟨_, _, h3, h4, _⟩ := (validRS_iff r).1 h
  rw [toLossless_eq, RelA.node_eq']
  cases r with
  | mk name aq archs ver profs =>
    simp only [builtChildren, canonRel, Node.node.injEq, true_and, tks_nil, List.append_nil]
    congr 1
    have e1 : aqPart aq = aqNodes aq := by cases aq <;> rfl
    have e2 : verPart ver = verNodes (ver.map fun (c, v) => (⟨sp, [], c, sp, versionAOf v, []⟩ : VerPart)) := by
      rcases ver with _ | ⟨c, v⟩
      · rfl
      · simp [verPart, verNodes, versionNode_valid c v (h3 c v rfl), gapToks, sp, GapPiece.tok, tks, tk, T]
    have e3 : archPart archs = archNodes (archs.map fun as => (⟨sp, canonItems archItem as, []⟩ : Bracket)) := by
      cases archs with
      | none => rfl
      | some as =>
        cases as with
        | nil => exact absurd rfl (h4 [] rfl).1
        | cons a rest =>
          have := canonItems_tks archItem archToks archToks_item (a :: rest)
          simp only [archPart, archNodes, Option.map_some, architecturesNode, archBody, Bracket.body,
            tks_cons, tks_append, this]
          simp [gapToks, sp, GapPiece.tok, tks, tk, T]
    have e4 := profsPart_canon profs
    rw [e1, e2, e3, e4]

/-! ### text and conversion back -/

/-- the RELATION node of a well-formed relation prints as the relation is written -/
theorem RelA.node_text (r : RelA) (hr : r.ok = true) : (r.node []).text = r.str := by
  have hpr := parseRelation_rel r [] [] (Or.inl rfl)
  have e0 : gapToks [] = [] := rfl
  simp only [e0, List.nil_append, List.append_nil, ite_self] at hpr
  have hok := parseRelation_ok r.toks
  rw [hpr] at hok
  simp only [PR.Ok, leavesList_cons, leavesList_nil, List.append_nil] at hok
  have hlex : lex r.str = r.toks := by simpa [lex_nil] using lex_rel r [] hr (headFails_nil _)
  rw [← tokText_leaves, hok, ← hlex]
  exact Deb822Verif.Props.C09.lex_text r.str

/-- the lossless form prints the same text as the lossy one -/
theorem toLossless_text (r : Lossy.Relation) (h : validRS r = true) :
    (toLossless r).text = showRelation r := by
  rw [toLossless_canon r h, RelA.node_text _ (canonRel_ok r (validR_of_validRS h)), canonRel_str]

/-- converting back gives the original value -/
theorem toLossless_back (r : Lossy.Relation) (h : validRS r = true) : toLossy (toLossless r) = .ok r := by
  rw [toLossless_canon r h]
  simp [toLossy, accRelation_rel (canonRel r) [] (canonRel_ok r (validR_of_validRS h)), canonRel_view r (validR_of_validRS h)]

/-! ### entries -/

theorem textList_flatten_map (f : α → List RNode) (xs : List α) :
    textList (xs.map f).flatten = (xs.map fun x => textList (f x)).flatten := by
  induction xs with
  | nil => rfl
  | cons x xs ih => simp [ih]

theorem collect_ok {α β} (f : α → Outcome β) (g : α → β) (l : List α) (h : ∀ x ∈ l, f x = .ok (g x)) :
    collect f l = .ok (l.map g) := by
  induction l with
  | nil => rfl
  | cons x xs ih =>
    simp [collect, h x (by simp), ih (fun y hy => h y (by simp [hy])), Outcome.bind, Outcome.map]

theorem sepBy_singletons_text (sep : List RNode) (ts : List RNode) :
    textList (sepBy sep (ts.map fun r => [r])) = Text.join (textList sep) (ts.map Node.text) := by
  cases ts with
  | nil => rfl
  | cons t rest =>
    have := flatten_cons_map (textList sep) t.text (rest.map Node.text)
    rw [List.map_cons, sepBy_cons]
    simp only [textList_append, textList_cons, textList_nil, List.append_nil, List.map_map,
      textList_flatten_map]
    simp [Function.comp_def, ← this]


/-- the entry built from lossy relations prints them separated by ` | ` -/
theorem entry_text (e : List Lossy.Relation) (h : ∀ r ∈ e, validRS r = true) :
    (entryFromLossy e).text = Text.join [' ', '|', ' '] (e.map showRelation) := by
  have : ((e.map toLossless).map Node.text) = e.map showRelation := by
    rw [List.map_map]
    exact List.map_congr_left fun r hr => toLossless_text r (h r hr)
  have hs := sepBy_singletons_text [T .WHITESPACE " ", T .PIPE "|", T .WHITESPACE " "] (e.map toLossless)
  rw [this] at hs
  simpa [entryFromLossy, entryFromRelations, inject, T] using hs

theorem cn_sepBy_singletons (k : Kind) (sep : List Tok) (ts : List RNode)
    (hts : ∀ t ∈ ts, t.isNode = true ∧ t.kind = k) :
    cn k (sepBy (tks sep) (ts.map fun r => [r])) = ts := by
  cases ts with
  | nil => rfl
  | cons t rest =>
    rw [List.map_cons, sepBy_cons]
    have h1 : cn k [t] = [t] := by
      obtain ⟨a, b⟩ := hts t (by simp)
      simp [cn, a, b]
    have : ∀ l : List RNode, (∀ x ∈ l, x.isNode = true ∧ x.kind = k) →
        cn k ((l.map fun r => [r]).map (tks sep ++ ·)).flatten = l := by
      intro l hl
      induction l with
      | nil => rfl
      | cons x xs ih =>
        obtain ⟨a, b⟩ := hl x (by simp)
        have hx : cn k [x] = [x] := by simp [cn, a, b]
        simp only [List.map_cons, List.flatten_cons, cn_append, cn_tks, List.nil_append, hx,
          ih (fun y hy => hl y (by simp [hy]))]
        rfl
    rw [cn_append, h1, this rest (fun x hx => hts x (by simp [hx]))]
    rfl


/-- converting the built entry back gives the original relations -/
theorem entry_back (e : List Lossy.Relation) (h : ∀ r ∈ e, validRS r = true) :
    entryToLossy (entryFromLossy e) = .ok e := by
  have hrel : relations (entryFromLossy e) = e.map toLossless := by
    simp only [relations, entryFromLossy, entryFromRelations, inject, childNodes_node]
    have : [T .WHITESPACE " ", T .PIPE "|", T .WHITESPACE " "]
        = tks [(.WHITESPACE, [' ']), (.PIPE, ['|']), (.WHITESPACE, [' '])] := rfl
    rw [this]
    exact cn_sepBy_singletons .RELATION _ _ (by
      intro t ht
      simp only [List.mem_map] at ht
      obtain ⟨r, _, rfl⟩ := ht
      rw [toLossless_eq]; exact ⟨rfl, rfl⟩)
  rw [entryToLossy, hrel]
  have : ∀ l : List Lossy.Relation, (∀ r ∈ l, validRS r = true) →
      collect toLossy (l.map toLossless) = .ok l := by
    intro l h2
    induction l with
    | nil => rfl
    | cons r rs ih =>
      simp [collect, toLossless_back r (h2 r (by simp)),
        ih (fun x hx => h2 x (by simp [hx])), Outcome.bind, Outcome.map]
  exact this e h

end Deb822Verif.Rel.Build
