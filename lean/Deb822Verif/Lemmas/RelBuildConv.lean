import Deb822Verif.Lemmas.RelCanonField
/-! The conversion `lossy::Relation → lossless::Relation` (through `RelationBuilder`) on valid values
    outside the regions of the open findings F-C14-1 / F-C14-2: the tree it builds, its text, and
    the conversion back (C14, stage 2). -/
set_option linter.unusedSimpArgs false
set_option linter.unusedVariables false
namespace Deb822Verif.Rel.Build
open Deb822Verif Rel Node Lossy RelSpec

/-! ### the tree that is built -/

def aqPart (aq : Option Str) : List RNode :=
  match aq with
  | some a => [Node.node .ARCHQUAL [T .COLON ":", .tok .IDENT a]]
  | none => []

def verPart (v : Option (VC × Version)) : List RNode :=
  match v with
  | some (c, ver) =>
    [T .WHITESPACE " ",
     .node .VERSION [T .L_PARENS "(", .node .CONSTRAINT (constraintToks c), T .WHITESPACE " ",
       .tok .IDENT ver.display, T .R_PARENS ")"]]
  | none => []

def profPart (ps : List (List BuildProfile)) : List RNode :=
  match ps with
  | [p] => [T .WHITESPACE " ", profilesNode p]
  | _ => []

/-- children of the RELATION node `RelationBuilder::build` produces -/
def builtChildren (r : Lossy.Relation) (as : List Str) : List RNode :=
  .tok .IDENT r.name :: (aqPart r.archqual ++ (verPart r.version
    ++ ([T .WHITESPACE " ", architecturesNode as] ++ profPart r.profiles)))

@[simp] theorem kind_tok (k : Kind) (t : Str) : (Node.tok k t).kind = k := rfl
@[simp] theorem kind_node (k : Kind) (cs : List RNode) : (Node.node k cs).kind = k := rfl
@[simp] theorem isNode_tok (k : Kind) (t : Str) : (Node.tok k t).isNode = false := rfl
@[simp] theorem isNode_node (k : Kind) (cs : List RNode) : (Node.node k cs).isNode = true := rfl
@[simp] theorem children_node (k : Kind) (cs : List RNode) : (Node.node k cs).children = cs := rfl
@[simp] theorem architecturesNode_kind (as : List Str) : (architecturesNode as).kind = .ARCHITECTURES := rfl
@[simp] theorem architecturesNode_isNode (as : List Str) : (architecturesNode as).isNode = true := rfl
@[simp] theorem profilesNode_kind (p : List BuildProfile) : (profilesNode p).kind = .PROFILES := rfl
@[simp] theorem profilesNode_isNode (p : List BuildProfile) : (profilesNode p).isNode = true := rfl

theorem toLossless_ok (r : Lossy.Relation) (as : List Str) (ha : r.architectures = some as)
    (hp : r.profiles.length ≤ 1) :
    toLossless r = .ok ⟨.node .RELATION (builtChildren r as), false⟩ := by
  cases r with
  | mk name aq archs ver profs =>
    simp only at ha hp; subst ha
    have hprofs : profs = [] ∨ ∃ p, profs = [p] := by
      cases profs with
      | nil => exact Or.inl rfl
      | cons p ps =>
        cases ps with
        | nil => exact Or.inr ⟨p, rfl⟩
        | cons q qs => simp at hp
    rcases hprofs with rfl | ⟨p, rfl⟩ <;> cases aq <;> rcases ver with _ | ⟨c, v⟩ <;>
      simp [toLossless, RelationBuilder.new, RelationBuilder.setVersionConstraint,
        RelationBuilder.setArchqual, RelationBuilder.setArchitectures, RelationBuilder.setProfiles,
        RelationBuilder.build, RelationBuilder.addProfiles, relationNew, Build.setArchqual,
        Build.setArchitectures, Build.addProfile, spliceRoot, nodeIdx, elemIdx, afterName, insertAt,
        replaceAt, Outcome.bind, builtChildren, aqPart, verPart, profPart, List.findIdx?_cons, T]

/-! ### its text -/

theorem sepBy_cons (sep : List RNode) (x : List RNode) (xs : List (List RNode)) :
    sepBy sep (x :: xs) = x ++ (xs.map (sep ++ ·)).flatten := by
  induction xs generalizing x with
  | nil => simp [sepBy]
  | cons y ys ih => simp [sepBy, ih y, List.append_assoc]

theorem textList_flatten_map (f : α → List RNode) (xs : List α) :
    textList (xs.map f).flatten = (xs.map fun x => textList (f x)).flatten := by
  induction xs with
  | nil => rfl
  | cons x xs ih => simp [ih]

theorem constraintToks_text (c : VC) : textList (constraintToks c) = c.display := by
  cases c <;> simp [constraintToks, VC.display]

theorem architecturesNode_text (as : List Str) :
    (architecturesNode as).text = '[' :: (Text.join [' '] as ++ [']']) := by
  cases as with
  | nil => simp [architecturesNode, sepBy, Text.join, T]
  | cons a rest =>
    have := flatten_cons_map [' '] a rest
    simp only [architecturesNode, List.map_cons, sepBy_cons, text_node, textList_cons, text_tok, T,
      textList_append, List.map_map, textList_flatten_map]
    simp [Function.comp_def, ← this]

theorem termToks_text (p : BuildProfile) : textList (termToks p) = showProfile p := by
  cases p <;> simp [termToks, showProfile, T]

theorem profilesNode_eq (p : List BuildProfile) :
    profilesNode p = .node .PROFILES (T .L_ANGLE "<" :: (sepBy [T .WHITESPACE " "] (p.map termToks) ++ [T .R_ANGLE ">"])) := rfl

theorem profilesNode_text (p : List BuildProfile) :
    (profilesNode p).text = '<' :: (Text.join [' '] (p.map showProfile) ++ ['>']) := by
  rw [profilesNode_eq]
  cases p with
  | nil => simp [sepBy, Text.join, T]
  | cons a rest =>
    have := flatten_cons_map [' '] (showProfile a) (rest.map showProfile)
    simp only [List.map_cons, sepBy_cons, text_node, textList_cons, text_tok, T, textList_append,
      List.map_map, textList_flatten_map, termToks_text]
    simp [Function.comp_def, termToks_text, ← this]

/-- the lossless form prints the same text as the lossy one -/
theorem built_text (r : Lossy.Relation) (as : List Str) (ha : r.architectures = some as)
    (hp : r.profiles.length ≤ 1) :
    (Node.node Kind.RELATION (builtChildren r as)).text = showRelation r := by
  cases r with
  | mk name aq archs ver profs =>
    simp only at ha hp; subst ha
    have hprofs : profs = [] ∨ ∃ p, profs = [p] := by
      cases profs with
      | nil => exact Or.inl rfl
      | cons p ps =>
        cases ps with
        | nil => exact Or.inr ⟨p, rfl⟩
        | cons q qs => simp at hp
    rcases hprofs with rfl | ⟨p, rfl⟩ <;> cases aq <;> rcases ver with _ | ⟨c, v⟩ <;>
      simp [builtChildren, aqPart, verPart, profPart, showRelation, T, constraintToks_text,
        architecturesNode_text, profilesNode_text]

/-! ### converting back -/

theorem archStep_sep (as : List Str) (acc : List Str) :
    (sepBy [T .WHITESPACE " "] (as.map fun a => [Node.tok .IDENT a])).foldl archStep (false, acc)
      = (false, acc ++ as) := by
  cases as with
  | nil => simp [sepBy]
  | cons a rest =>
    rw [List.map_cons, sepBy_cons, List.foldl_append]
    have h1 : [Node.tok Kind.IDENT a].foldl archStep (false, acc) = (false, acc ++ [a]) := by
      simp [archStep]
    rw [h1]
    have : ∀ (l : List Str) (acc' : List Str),
        ((l.map fun a => [Node.tok Kind.IDENT a]).map ([T .WHITESPACE " "] ++ ·)).flatten.foldl archStep (false, acc')
          = (false, acc' ++ l) := by
      intro l
      induction l with
      | nil => intro acc'; simp
      | cons b bs ih =>
        intro acc'
        simp only [List.map_cons, List.flatten_cons, List.foldl_append, List.foldl_cons, List.foldl_nil]
        have e1 : archStep (false, acc') (T .WHITESPACE " ") = (false, acc') := by simp [archStep, T]
        have e2 : archStep (false, acc') (Node.tok Kind.IDENT b) = (false, acc' ++ [b]) := by simp [archStep]
        rw [e1, e2, ih]; simp
    rw [this]; simp

theorem architectures_built (as : List Str) :
    ((architecturesNode as).children.foldl archStep (false, [])).2 = as := by
  simp only [architecturesNode, Node.children, List.foldl_cons, List.foldl_append]
  have e1 : archStep (false, []) (T .L_BRACKET "[") = (false, []) := by simp [archStep, T]
  rw [e1, archStep_sep]
  simp [archStep, T]

theorem parse_disabled (n : Str) : BuildProfile.parse ('!' :: n) = .Disabled n := rfl

theorem termFold (p : BuildProfile) (hp : isIdent (profName p) = true) (ret : List BuildProfile) :
    ∃ cur, (termToks p).foldl profileStep (ret, []) = (ret, cur) ∧ cur ≠ []
      ∧ BuildProfile.parse cur.flatten = p := by
  cases p with
  | Enabled n =>
    exact ⟨[n], by simp [termToks, profileStep, Node.kind, Node.text], by simp,
      by simpa using parse_ident_profile n hp⟩
  | Disabled n =>
    exact ⟨[['!'], n], by simp [termToks, profileStep, Node.kind, Node.text, T], by simp,
      by simp [BuildProfile.parse]⟩

theorem profileStep_wsTok (st : List BuildProfile × List Str) :
    profileStep st (T .WHITESPACE " ") = (flush st, []) := by
  simpa [tk, T] using profileStep_ws st (.WHITESPACE, [' ']) rfl

theorem profileGroup_built (p : List BuildProfile) (hp : ∀ x ∈ p, isIdent (profName x) = true) :
    profileGroup (profilesNode p) = p := by
  rw [profilesNode_eq]
  simp only [profileGroup, Node.children, List.foldl_cons, List.foldl_append, List.foldl_nil]
  have e1 : profileStep ([], []) (T .L_ANGLE "<") = ([], []) := by simp [profileStep, Node.kind, T]
  have e2 : ∀ st, profileStep st (T .R_ANGLE ">") = st := by intro st; simp [profileStep, Node.kind, T]
  have hfl : ∀ st : List BuildProfile × List Str,
      (if !st.2.isEmpty then BuildProfile.parse st.2.flatten :: st.1 else st.1) = flush st := by
    intro st; simp only [flush]; cases st.2.isEmpty <;> simp
  rw [e1, e2, hfl]
  cases p with
  | nil => simp [sepBy, flush]
  | cons a rest =>
    rw [List.map_cons, sepBy_cons, List.foldl_append]
    obtain ⟨cur, hc, hne, hpa⟩ := termFold a (hp a (by simp)) []
    rw [hc]
    have : ∀ (l : List BuildProfile) (st : List BuildProfile × List Str),
        (∀ x ∈ l, isIdent (profName x) = true) →
        flush (((l.map termToks).map ([T .WHITESPACE " "] ++ ·)).flatten.foldl profileStep st)
          = l.reverse ++ flush st := by
      intro l
      induction l with
      | nil => intro st _; simp
      | cons b bs ih =>
        intro st hb
        simp only [List.map_cons, List.flatten_cons, List.foldl_append, List.foldl_cons, List.foldl_nil]
        rw [profileStep_wsTok]
        obtain ⟨cur', hc', hne', hpb⟩ := termFold b (hb b (by simp)) (flush st)
        rw [hc', ih _ (fun x hx => hb x (by simp [hx]))]
        have : flush (flush st, cur') = b :: flush st := by
          cases cur' with
          | nil => exact absurd rfl hne'
          | cons c cs => simp [flush, ← hpb]
        rw [this]; simp
    rw [this rest _ (fun x hx => hp x (by simp [hx]))]
    have : flush (([] : List BuildProfile), cur) = [a] := by
      cases cur with
      | nil => exact absurd rfl hne
      | cons c cs => simp [flush, ← hpa]
    rw [this]; simp

theorem validVersion_parse (v : Version) (h : validVersion v = true) : Version.parse v.display = some v := by
  obtain ⟨hok, hval⟩ := (validVersion_iff v).1 h
  have := Version.parse_written (versionAOf v) hok
  rwa [versionAOf_str, hval] at this

theorem validVersion_display_ne (v : Version) (h : validVersion v = true) : v.display ≠ [] := by
  obtain ⟨hok, _⟩ := (validVersion_iff v).1 h
  obtain ⟨hb, _⟩ := (VersionA.ok_iff _).1 hok
  obtain ⟨hne, _⟩ := (isIdent_iff _).1 hb
  rw [← versionAOf_str]
  intro e
  cases hep : (versionAOf v).epoch <;> simp [VersionA.str, hep] at e
  exact hne e

/-- converting the built tree back gives the original value -/
theorem built_back (r : Lossy.Relation) (as : List Str) (ha : r.architectures = some as)
    (hp : r.profiles.length ≤ 1) (hv : validR r = true) :
    toLossy (.node .RELATION (builtChildren r as)) = .ok r := by
  obtain ⟨h1, h2, h3, h4, h5⟩ := (validR_iff r).1 hv
  cases r with
  | mk name aq archs ver profs =>
    simp only at ha hp h3 h5; subst ha
    have hprofs : profs = [] ∨ ∃ p, profs = [p] := by
      cases profs with
      | nil => exact Or.inl rfl
      | cons p ps =>
        cases ps with
        | nil => exact Or.inr ⟨p, rfl⟩
        | cons q qs => simp at hp
    have harch := architectures_built as
    have base : ∀ (x : Lossy.Relation), True := fun _ => trivial
    rcases hprofs with rfl | ⟨p, rfl⟩
    · rcases ver with _ | ⟨c, v⟩
      · cases aq <;>
          simp [toLossy, accRelation, Rel.name, archqual, version, architectures, profiles, firstChildNode,
            childNodes, firstIdentTok, versionText, builtChildren, aqPart, verPart, profPart, T, harch]
      · have hpv := validVersion_parse v (h3 c v rfl)
        have hne := validVersion_display_ne v (h3 c v rfl)
        cases aq <;>
          simp [toLossy, accRelation, Rel.name, archqual, version, architectures, profiles, firstChildNode,
            childNodes, firstIdentTok, versionText, builtChildren, aqPart, verPart, profPart, T, harch, constraintToks_text, VC.parse_display,
            hpv, hne]
    · have hpg := profileGroup_built p (h5 p (by simp))
      rcases ver with _ | ⟨c, v⟩
      · cases aq <;>
          simp [toLossy, accRelation, Rel.name, archqual, version, architectures, profiles, firstChildNode,
            childNodes, firstIdentTok, versionText, builtChildren, aqPart, verPart, profPart, T, harch, hpg]
      · have hpv := validVersion_parse v (h3 c v rfl)
        have hne := validVersion_display_ne v (h3 c v rfl)
        cases aq <;>
          simp [toLossy, accRelation, Rel.name, archqual, version, architectures, profiles, firstChildNode,
            childNodes, firstIdentTok, versionText, builtChildren, aqPart, verPart, profPart, T, harch, constraintToks_text, VC.parse_display,
            hpv, hne, hpg]


/-! ### entries -/

theorem collect_ok {α β} (f : α → Outcome β) (g : α → β) (l : List α) (h : ∀ x ∈ l, f x = .ok (g x)) :
    collect f l = .ok (l.map g) := by
  induction l with
  | nil => rfl
  | cons x xs ih =>
    simp [collect, h x (by simp), ih (fun y hy => h y (by simp [hy])), Outcome.bind, Outcome.map]

/-- a relation outside the trigger regions of F-C14-1 / F-C14-2 -/
def convOk (r : Lossy.Relation) : Prop := trigNoArchs r = false ∧ trigManyProfiles r = false

/-- the tree `toLossless` builds for such a relation -/
def builtTree (r : Lossy.Relation) : RNode :=
  .node .RELATION (builtChildren r (r.architectures.getD []))

theorem convOk_data {r : Lossy.Relation} (h : convOk r) :
    ∃ as, r.architectures = some as ∧ r.profiles.length ≤ 1 := by
  obtain ⟨ha, hp⟩ := h
  cases hx : r.architectures with
  | none => simp [trigNoArchs, hx] at ha
  | some as => exact ⟨as, rfl, by simp [trigManyProfiles] at hp; omega⟩

theorem toLossless_built (r : Lossy.Relation) (h : convOk r) : toLossless r = .ok ⟨builtTree r, false⟩ := by
  obtain ⟨as, ha, hp⟩ := convOk_data h
  simp [builtTree, ha, toLossless_ok r as ha hp]

theorem builtTree_text (r : Lossy.Relation) (h : convOk r) : (builtTree r).text = showRelation r := by
  obtain ⟨as, ha, hp⟩ := convOk_data h
  simp only [builtTree, ha, Option.getD_some]
  exact built_text r as ha hp

theorem builtTree_back (r : Lossy.Relation) (h : convOk r) (hv : validR r = true) :
    toLossy (builtTree r) = .ok r := by
  obtain ⟨as, ha, hp⟩ := convOk_data h
  simp only [builtTree, ha, Option.getD_some]
  exact built_back r as ha hp hv

theorem entryFromLossy_ok (e : List Lossy.Relation) (h : ∀ r ∈ e, convOk r) :
    entryFromLossy e = .ok (entryFromRelations (e.map builtTree)) := by
  have := collect_ok (fun r => (toLossless r).map (·.tree)) builtTree e
    (fun r hr => by simp [toLossless_built r (h r hr), Outcome.map])
  rw [entryFromLossy, this]; rfl

theorem sepBy_singletons_text (sep : List RNode) (ts : List RNode) :
    textList (sepBy sep (ts.map fun r => [r])) = Text.join (textList sep) (ts.map Node.text) := by
  cases ts with
  | nil => rfl
  | cons t rest =>
    have := flatten_cons_map (textList sep) t.text (rest.map Node.text)
    rw [List.map_cons, sepBy_cons]
    simp only [textList_append, textList_cons, textList_nil, List.append_nil, List.map_map,
      textList_flatten_map]
    simp [Function.comp_def, ← this]

/-- the entry built from lossy relations prints them separated by ` | ` -/
theorem entry_text (e : List Lossy.Relation) (h : ∀ r ∈ e, convOk r) :
    (entryFromRelations (e.map builtTree)).tree.text = Text.join [' ', '|', ' '] (e.map showRelation) := by
  have : ((e.map builtTree).map Node.text) = e.map showRelation := by
    rw [List.map_map]
    exact List.map_congr_left fun r hr => builtTree_text r (h r hr)
  have hs := sepBy_singletons_text [T .WHITESPACE " ", T .COMMA "|", T .WHITESPACE " "] (e.map builtTree)
  rw [this] at hs
  simpa [entryFromRelations, inject, T] using hs

theorem cn_sepBy_singletons (k : Kind) (sep : List Tok) (ts : List RNode)
    (hts : ∀ t ∈ ts, t.isNode = true ∧ t.kind = k) :
    cn k (sepBy (tks sep) (ts.map fun r => [r])) = ts := by
  cases ts with
  | nil => rfl
  | cons t rest =>
    rw [List.map_cons, sepBy_cons]
    have h1 : cn k [t] = [t] := by
      obtain ⟨a, b⟩ := hts t (by simp)
      simp [cn, a, b]
    have : ∀ l : List RNode, (∀ x ∈ l, x.isNode = true ∧ x.kind = k) →
        cn k ((l.map fun r => [r]).map (tks sep ++ ·)).flatten = l := by
      intro l hl
      induction l with
      | nil => rfl
      | cons x xs ih =>
        obtain ⟨a, b⟩ := hl x (by simp)
        have hx : cn k [x] = [x] := by simp [cn, a, b]
        simp only [List.map_cons, List.flatten_cons, cn_append, cn_tks, List.nil_append, hx,
          ih (fun y hy => hl y (by simp [hy]))]
        rfl
    rw [cn_append, h1, this rest (fun x hx => hts x (by simp [hx]))]
    rfl

/-- converting the built entry back gives the original relations -/
theorem entry_back (e : List Lossy.Relation) (h : ∀ r ∈ e, convOk r) (hv : ∀ r ∈ e, validR r = true) :
    entryToLossy (entryFromRelations (e.map builtTree)).tree = .ok e := by
  have hrel : relations (entryFromRelations (e.map builtTree)).tree = e.map builtTree := by
    simp only [relations, entryFromRelations, inject, childNodes_node]
    have : [T .WHITESPACE " ", T .COMMA "|", T .WHITESPACE " "]
        = tks [(.WHITESPACE, [' ']), (.COMMA, ['|']), (.WHITESPACE, [' '])] := rfl
    rw [this]
    exact cn_sepBy_singletons .RELATION _ _ (by
      intro t ht
      simp only [List.mem_map] at ht
      obtain ⟨r, _, rfl⟩ := ht
      exact ⟨rfl, rfl⟩)
  rw [entryToLossy, hrel]
  have : ∀ l : List Lossy.Relation, (∀ r ∈ l, convOk r) → (∀ r ∈ l, validR r = true) →
      collect toLossy (l.map builtTree) = .ok l := by
    intro l h1 h2
    induction l with
    | nil => rfl
    | cons r rs ih =>
      simp [collect, builtTree_back r (h1 r (by simp)) (h2 r (by simp)),
        ih (fun x hx => h1 x (by simp [hx])) (fun x hx => h2 x (by simp [hx])), Outcome.bind, Outcome.map]
  exact this e h hv

end Deb822Verif.Rel.Build
