import Deb822Verif.Model.DebWrap
/-!
  Entry-level lemmas about the wrap-and-sort model (`Model/DebWrap.lean`): what `rebuild_value`
  keeps, what `entryWrap` keeps, and the field list of `paragraphWrap` (moved here from
  Props/C07.lean so that the paragraph / document level lemma files can use them).
-/
namespace Deb822Verif.Deb
open Deb822Verif Node

/-- the VALUE token texts among a list of nodes -/
def valuesOf (ns : List DNode) : List Str := (ns.filter (isTokOf .VALUE)).map tokTextOf
def valuesOfToks (ts : List Tok) : List Str := (ts.filter fun t => t.1 == .VALUE).map (·.2)

theorem valuesOf_append (a b : List DNode) : valuesOf (a ++ b) = valuesOf a ++ valuesOf b := by
  simp [valuesOf]

theorem valuesOf_map_tk (ts : List Tok) : valuesOf (ts.map tk) = valuesOfToks ts := by
  induction ts with
  | nil => rfl
  | cons t ts ih =>
    simp only [List.map_cons, valuesOf, valuesOfToks, List.filter_cons, isTokOf] at ih ⊢
    by_cases h : t.1 = .VALUE <;> simp [h, tokTextOf, ih]

theorem valuesOfToks_strip (ts : List Tok) : valuesOfToks (rbStrip ts) = valuesOfToks ts := by
  unfold rbStrip
  induction ts with
  | nil => rfl
  | cons t ts ih =>
    simp only [List.dropWhile_cons]
    split
    · rename_i h
      have hv : (t.1 == Kind.VALUE) = false := by
        simp only [Bool.or_eq_true, beq_iff_eq] at h
        rcases h with h | h <;> simp [h]
      rw [ih]
      simp [valuesOfToks, List.filter_cons, hv]
    · rfl

theorem go_values (indentation : Nat) (ts : List Tok) (lastNl : Bool) :
    valuesOf (rbGo indentation ts lastNl).1 = valuesOfToks ts := by
  induction ts generalizing lastNl with
  | nil => simp [rbGo, valuesOf, valuesOfToks]
  | cons t ts ih =>
    simp only [rbGo, valuesOf_append, ih]
    have h1 : valuesOf (if lastNl = true then [Node.tok Kind.INDENT (List.replicate indentation ' ')] else []) = [] := by
      split <;> simp [valuesOf, isTokOf]
    rw [h1]
    simp only [valuesOf, valuesOfToks, List.filter_cons, isTokOf, List.nil_append]
    by_cases h : t.1 = .VALUE <;> simp [h, tokTextOf]

theorem valuesOf_close (b : Bool) : valuesOf (rbClose b) = [] := by
  cases b <;> simp [rbClose, valuesOf, isTokOf]

/-- `rebuild_value` keeps exactly the VALUE tokens of its input, in order: re-indentation, the
    one-liner / multi-line layout choice and the leading newline touch nothing else -/
theorem rebuildValue_values (ts : List Tok) (keyLen ind : Nat) (imm : Bool) (mx : Option Nat) :
    valuesOf (rebuildValue ts keyLen ind imm mx) = valuesOfToks ts := by
  unfold rebuildValue
  split
  · rw [valuesOf_append, valuesOf_map_tk]; simp [valuesOf, isTokOf]
  · split
    · rw [List.cons_append, show ∀ x : List DNode, valuesOf (Node.tok Kind.NEWLINE ['\n'] :: x) = valuesOf x from
        fun x => by simp [valuesOf, isTokOf]]
      rw [valuesOf_append, go_values, valuesOf_close, valuesOfToks_strip]; simp
    · rw [List.cons_append, show ∀ x : List DNode, valuesOf (Node.tok Kind.WHITESPACE [' '] :: x) = valuesOf x from
        fun x => by simp [valuesOf, isTokOf]]
      rw [valuesOf_append, go_values, valuesOf_close, valuesOfToks_strip]; simp

/-- every INDENT token `rebuild_value` emits is exactly `ind` spaces -/
theorem go_indents (indentation : Nat) (ts : List Tok) (lastNl : Bool)
    (h : ∀ t ∈ ts, t.1 ≠ .INDENT) :
    ∀ n ∈ (rbGo indentation ts lastNl).1, n.kind = .INDENT →
      n = Node.tok .INDENT (List.replicate indentation ' ') := by
  induction ts generalizing lastNl with
  | nil => simp [rbGo]
  | cons t ts ih =>
    intro n hn hk
    simp only [rbGo, List.mem_append, List.mem_cons, List.not_mem_nil, or_false] at hn
    rcases hn with (hn | hn) | hn
    · split at hn <;> simp_all
    · subst hn; exact absurd hk (by simpa [Node.kind] using h t (by simp))
    · exact ih _ (fun x hx => h x (by simp [hx])) n hn hk

theorem close_no_indent (b : Bool) : ∀ n ∈ rbClose b, n.kind ≠ .INDENT := by
  cases b <;> simp [rbClose, Node.kind]

/-- continuation lines are indented by exactly the requested width (multi-line layout) -/
theorem rebuildValue_indent (ts : List Tok) (keyLen ind : Nat) (imm : Bool)
    (h : ∀ t ∈ ts, t.1 ≠ .INDENT) :
    ∀ n ∈ rebuildValue ts keyLen ind imm none, n.kind = .INDENT →
      n = Node.tok .INDENT (List.replicate ind ' ') := by
  intro n hn hk
  have hs : ∀ t ∈ rbStrip ts, t.1 ≠ .INDENT := fun t ht => h t ((List.dropWhile_sublist _).subset ht)
  unfold rebuildValue at hn
  simp only [rbFits, Bool.false_and, Bool.false_eq_true, ↓reduceIte] at hn
  split at hn
  all_goals
    simp only [List.cons_append, List.mem_cons, List.mem_append] at hn
    rcases hn with hn | hn | hn
    · subst hn; simp [Node.kind] at hk
    · exact go_indents ind _ _ hs n hn hk
    · exact absurd hk (close_no_indent _ n hn)

/-! ### entry level: without a formatter the key and the value read back unchanged -/

theorem allTokens_eq {cs : List DNode} {ts : List Tok} (h : allTokens cs = some ts) : cs = ts.map tk := by
  induction cs generalizing ts with
  | nil => simp [allTokens] at h; subst h; rfl
  | cons c cs ih =>
    cases c with
    | tok k t =>
      simp only [allTokens, Option.map_eq_some_iff] at h
      obtain ⟨ts', h1, h2⟩ := h
      subst h2
      simp [ih h1]
    | node k cs' => simp [allTokens] at h

theorem filter_dropTrailing (f q : DNode → Bool) (l : List DNode) (h : ∀ c, q c = true → f c = false) :
    (dropTrailing q l).filter f = l.filter f := by
  unfold dropTrailing
  have hl : l = (l.reverse.dropWhile q).reverse ++ (l.reverse.takeWhile q).reverse := by
    have := List.takeWhile_append_dropWhile (p := q) (l := l.reverse)
    have h2 := congrArg List.reverse this
    simp only [List.reverse_append, List.reverse_reverse] at h2
    exact h2.symm
  conv => rhs; rw [hl]
  rw [List.filter_append]
  have : (l.reverse.takeWhile q).reverse.filter f = [] := by
    apply List.filter_eq_nil_iff.2
    intro c hc
    have hc' : c ∈ l.reverse.takeWhile q := by simpa using hc
    have hall := List.all_takeWhile (p := q) (l := l.reverse)
    have := List.all_eq_true.1 hall c hc'
    simp [h c this]
  rw [this, List.append_nil]

theorem valuesOf_content (cs : List DNode) : valuesOf (ewContent cs) = valuesOf cs := by
  unfold valuesOf ewContent
  rw [filter_dropTrailing]
  · rw [List.filter_filter]
    congr 1
    apply List.filter_congr
    intro c _
    cases c with
    | tok k t => by_cases h : k = .VALUE <;> simp [isTokOf, contentKinds, Node.kind, h]
    | node k cs' => simp [isTokOf]
  · intro c hc
    cases c with
    | tok k t =>
      simp only [Node.kind, Bool.or_eq_true, beq_iff_eq] at hc
      rcases hc with hc | hc <;> simp [isTokOf, hc]
    | node k cs' => simp [isTokOf]

theorem heads_values (cs : List DNode) : valuesOf (cs.filterMap headOf) = [] := by
  induction cs with
  | nil => rfl
  | cons c cs ih =>
    simp only [List.filterMap_cons]
    cases hh : headOf c with
    | none => simpa using ih
    | some x =>
      have : isTokOf .VALUE x = false := by
        unfold headOf at hh
        split at hh <;> simp at hh <;> (subst hh; simp [isTokOf])
      simp only [valuesOf, List.filter_cons, this] at ih ⊢
      simpa using ih

theorem heads_key (cs : List DNode) :
    (cs.filterMap headOf).find? (isTokOf .KEY) = cs.find? (isTokOf .KEY) := by
  induction cs with
  | nil => rfl
  | cons c cs ih =>
    simp only [List.filterMap_cons, List.find?_cons]
    cases c with
    | tok k t =>
      by_cases hk : k = .KEY
      · subst hk; simp [headOf, isTokOf]
      · by_cases hc : k = .COLON
        · subst hc
          have e : (Kind.COLON == Kind.KEY) = false := rfl
          simp [headOf, isTokOf, ih, e]
        · have : headOf (Node.tok k t) = none := by
            unfold headOf; split <;> simp_all
          have e : (k == Kind.KEY) = false := by simp [hk]
          simp [this, isTokOf, e, ih]
    | node k cs' =>
      by_cases hc : k = .COLON
      · subst hc; simp [headOf, isTokOf, ih]
      · have : headOf (Node.node k cs') = none := by
          unfold headOf; split <;> simp_all
        simp [this, isTokOf, ih]

theorem go_no_key (ind : Nat) (ts : List Tok) (b : Bool) (h : ∀ t ∈ ts, t.1 ≠ .KEY) :
    (rbGo ind ts b).1.find? (isTokOf .KEY) = none := by
  induction ts generalizing b with
  | nil => simp [rbGo]
  | cons t ts ih =>
    have ht : t.1 ≠ .KEY := h t (by simp)
    simp only [rbGo, List.find?_append]
    have h1 : (if b = true then [Node.tok Kind.INDENT (List.replicate ind ' ')] else []).find? (isTokOf .KEY) = none := by
      split <;> simp [isTokOf]
    simp [h1, isTokOf, ht, ih _ (fun x hx => h x (by simp [hx]))]

theorem rebuildValue_no_key (ts : List Tok) (kl ind : Nat) (imm : Bool) (mx : Option Nat)
    (h : ∀ t ∈ ts, t.1 ≠ .KEY) : (rebuildValue ts kl ind imm mx).find? (isTokOf .KEY) = none := by
  have hs : ∀ t ∈ rbStrip ts, t.1 ≠ .KEY := fun t ht => h t ((List.dropWhile_sublist _).subset ht)
  have hc : ∀ b, (rbClose b).find? (isTokOf .KEY) = none := by
    intro b; cases b <;> simp [rbClose, isTokOf]
  unfold rebuildValue
  split
  · simp only [List.find?_append]
    have : (ts.map tk).find? (isTokOf .KEY) = none := by
      apply List.find?_eq_none.2
      intro x hx
      simp only [List.mem_map] at hx
      obtain ⟨t, ht, rfl⟩ := hx
      simp [isTokOf, h t ht]
    simp [this, isTokOf]
  · split <;> simp [List.find?_cons, List.find?_append, isTokOf, go_no_key _ _ _ hs, hc]

/-- **entry level, no formatter**: whatever the indentation, empty-first-line setting and width
    limit, the reformatted entry has the same key and exactly the same value lines -/
theorem entryWrap_content (cfg : WrapCfg) (e e' : DNode) (h : entryWrap cfg none e = some e') :
    entryKey e' = entryKey e ∧ entryValue e' = entryValue e := by
  unfold entryWrap at h
  split at h
  · simp at h
  · split at h
    · simp at h
    · split at h
      · simp at h
      · rename_i ts hts
        simp only [Option.some.injEq] at h
        subst h
        simp only [ewTokens] at hts
        have hcontent := allTokens_eq hts
        have hvals := valuesOf_content e.children
        have hnokey : ∀ t ∈ ts, t.1 ≠ .KEY := by
          intro t ht hk
          have hm : tk t ∈ ts.map tk := List.mem_map_of_mem ht
          rw [← hcontent] at hm
          have h1 := (List.dropWhile_sublist _).subset (List.mem_reverse.1 (by simpa [ewContent, dropTrailing] using hm))
          have h2 := (List.mem_filter.1 (List.mem_reverse.1 h1)).2
          simp [contentKinds, Node.kind, hk] at h2
        constructor
        · simp only [entryKey, Node.children, List.find?_append, heads_key,
            rebuildValue_no_key _ _ _ _ _ hnokey, Option.or_none]
        · simp only [entryValue, Node.children]
          have : ∀ l : List DNode, (l.filter (isTokOf .VALUE)).map tokTextOf = valuesOf l := fun _ => rfl
          rw [this, this, valuesOf_append, heads_values, rebuildValue_values, List.nil_append,
            ← valuesOf_map_tk, ← hcontent]
          exact congrArg _ hvals

/-! ### paragraph level: every field kept, in the original or the requested order -/

def isEntryNode (c : DNode) : Bool := c.isNode && c.kind == .ENTRY
def isTriviaNode (c : DNode) : Bool := c.kind == .ERROR || c.kind == .COMMENT

/-- (key, value) of an entry, when it has a key -/
def kv (e : DNode) : Option (Str × Str) := (entryKey e).map fun k => (k, entryValue e)

theorem groupBy_units (cs cur : List DNode) :
    (groupBy isEntryNode isTriviaNode cs cur).1.map (·.2) = cs.filter isEntryNode := by
  induction cs generalizing cur with
  | nil => simp [groupBy]
  | cons c cs ih =>
    simp only [groupBy]
    by_cases h : isEntryNode c = true
    · simp [h, ih]
    · have h' : isEntryNode c = false := by simpa using h
      simp only [h', Bool.false_eq_true, ↓reduceIte, List.filter_cons]
      split <;> exact ih _

theorem mapM'_map {α β} (f : α → Option β) (l : List α) (r : List β) (h : mapM' f l = some r) :
    l.map f = r.map some := by
  induction l generalizing r with
  | nil => simp [mapM'] at h; subst h; rfl
  | cons a as ih =>
    simp only [mapM'] at h
    cases ha : f a with
    | none => simp [ha] at h
    | some b =>
      cases hs : mapM' f as with
      | none => simp [ha, hs] at h
      | some bs =>
        simp [ha, hs] at h; subst h
        simp [ha, ih bs hs]

theorem entryWrap_isEntry (cfg fmt e e') (h : entryWrap cfg fmt e = some e') : isEntryNode e' = true := by
  unfold entryWrap at h
  repeat' split at h
  all_goals first
    | (simp at h; done)
    | (simp at h; subst h; simp [isEntryNode, Node.isNode, Node.kind])

theorem withNewlines_no_entry (ts : List Tok) : (withNewlines ts).filter isEntryNode = [] := by
  induction ts with
  | nil => rfl
  | cons t ts ih =>
    simp only [withNewlines, List.filter_append, ih, List.append_nil]
    split <;> simp [isEntryNode, Node.isNode]

/-- the fields of a reformatted paragraph, without a value formatter: exactly the fields of the
    original — in the original order when no order is requested, otherwise a permutation of them
    (and `List.mergeSort` output, i.e. sorted for a total preorder) -/
theorem paragraphWrap_fields (cfg : WrapCfg) (le : Option (DNode → DNode → Bool)) (p p' : DNode)
    (h : paragraphWrap cfg le none p = some p') :
    ∃ es' : List DNode,
      (p'.children.filter isEntryNode) = es'
      ∧ (match le with
         | none => es'.map kv = (p.children.filter isEntryNode).map kv
         | some f => ∃ ws : List (List DNode × DNode),
             ws.map (fun x => kv x.2) = (p.children.filter isEntryNode).map kv
             ∧ es' = (ws.mergeSort fun a b => f a.2 b.2).map (·.2)) := by
  unfold paragraphWrap at h
  simp only at h
  split at h
  · simp at h
  · rename_i wrapped hw
    split at h
    · rename_i groups trailing hg ht
      simp only [Option.some.injEq] at h
      subst h
      -- the wrapped entries keep key and value
      have hmap := mapM'_map _ _ _ hw
      have hkv : wrapped.map (fun x => kv x.2) =
          (p.children.filter isEntryNode).map kv := by
        rw [← groupBy_units p.children []]
        have : ∀ (l : List (List DNode × DNode)) (r : List (List DNode × DNode)),
            l.map (fun pe => match entryWrap cfg none pe.2 with
              | some e' => some (pe.1, e') | none => none) = r.map some →
            r.map (fun x => kv x.2) = (l.map (·.2)).map kv := by
          intro l
          induction l with
          | nil => intro r hr; cases r <;> simp_all
          | cons a l ih =>
            intro r hr
            cases r with
            | nil => simp at hr
            | cons b r =>
              simp only [List.map_cons, List.cons.injEq] at hr ⊢
              obtain ⟨h1, h2⟩ := hr
              refine ⟨?_, ih r h2⟩
              split at h1
              · rename_i e' he
                simp at h1; subst h1
                have := entryWrap_content cfg a.2 e' he
                simp [kv, this.1, this.2]
              · simp at h1
        exact this _ _ hmap
      -- the entry nodes of the result are the (sorted) wrapped entries
      have hres : ∀ (es : List (List DNode × DNode)) (gs : List (List DNode)),
          (∀ x ∈ es, isEntryNode x.2 = true) →
          mapM' (fun (pe : List DNode × DNode) =>
            match allTokens pe.1 with
            | some pre => some (withNewlines pre ++ [pe.2])
            | none => none) es = some gs →
          gs.flatten.filter isEntryNode = es.map (·.2) := by
        intro es
        induction es with
        | nil => intro gs _ hgs; simp [mapM'] at hgs; subst hgs; rfl
        | cons a es ih =>
          intro gs hall hgs
          simp only [mapM'] at hgs
          split at hgs
          · rename_i b bs hb hbs
            simp at hgs; subst hgs
            split at hb
            · rename_i pre hpre
              simp at hb; subst hb
              simp only [List.flatten_cons, List.filter_append, withNewlines_no_entry,
                List.nil_append, List.filter_cons, hall a (by simp), ↓reduceIte, List.filter_nil,
                List.map_cons, List.cons_append, List.cons.injEq, true_and]
              exact ih bs (fun x hx => hall x (by simp [hx])) hbs
            · simp at hb
          · simp at hgs
      have hwall : ∀ x ∈ wrapped, isEntryNode x.2 = true := by
        intro x hx
        have hx' : some x ∈ wrapped.map some := List.mem_map_of_mem hx
        rw [← hmap] at hx'
        simp only [List.mem_map] at hx'
        obtain ⟨pe, _, hpe⟩ := hx'
        split at hpe
        · rename_i e' he
          simp at hpe; subst hpe
          exact entryWrap_isEntry _ _ _ _ he
        · simp at hpe
      refine ⟨_, rfl, ?_⟩
      have hchildren : ∀ (k : Kind) (cs : List DNode), (Node.node k cs).children = cs := fun _ _ => rfl
      simp only [hchildren, List.filter_append, withNewlines_no_entry, List.append_nil]
      cases le with
      | none =>
        simp only at hg ⊢
        rw [hres wrapped groups hwall hg]
        simpa [Function.comp_def] using hkv
      | some f =>
        simp only at hg ⊢
        refine ⟨wrapped, hkv, ?_⟩
        apply hres _ _ _ hg
        intro x hx
        exact hwall x ((List.mergeSort_perm wrapped _).subset hx)
    · simp at h

end Deb822Verif.Deb
