import Deb822Verif.Lemmas.RelEditZip
import Deb822Verif.Props.C10
/-!
  Re-reading after a relation setter on ANY well-formed field: the edited tree prints the text of a
  well-formed field (the original with the relation, and possibly the gap after it, exchanged) whose
  items are the list-model result; hence (C10) the text parses without error to the same list model.
-/
set_option linter.unusedSimpArgs false
set_option linter.unusedVariables false
namespace Deb822Verif.Rel.Edit
open Deb822Verif Rel Node Build Lossy RelSpec
open Deb822Verif.Props.C10

/-! ### the exchanged field is well-formed and has the expected items -/

theorem setAlt_ok (post : Gap) (r : RelA) (rest : List AltA) (j : Nat) (r' : RelA) (g' : Gap)
    (hr : r.ok = true) (hrest : ∀ a ∈ rest, a.ok = true) (hp : gapOk post = true)
    (hr' : r'.ok = true) (hg' : gapOk g' = true) :
    (setAlt post r rest j r' g').1.ok = true ∧ (∀ a ∈ (setAlt post r rest j r' g').2.1, a.ok = true)
      ∧ gapOk (setAlt post r rest j r' g').2.2 = true := by
  induction rest generalizing r j with
  | nil => cases j <;> simp [setAlt, hr, hr', hp, hg']
  | cons a as ih =>
    have ha := (AltA.ok_iff a).1 (hrest a (by simp))
    cases j with
    | zero =>
      refine ⟨hr', ?_, hp⟩
      intro x hx
      simp only [setAlt, List.mem_cons] at hx
      rcases hx with rfl | hx
      · exact (AltA.ok_iff _).2 ⟨hg', ha.2.1, ha.2.2⟩
      · exact hrest x (by simp [hx])
    | succ j =>
      obtain ⟨h1, h2, h3⟩ := ih a.rel j ha.2.2 (fun x hx => hrest x (by simp [hx]))
      refine ⟨hr, ?_, h3⟩
      intro x hx
      simp only [setAlt, List.mem_cons] at hx
      rcases hx with rfl | hx
      · exact (AltA.ok_iff _).2 ⟨ha.1, ha.2.1, h1⟩
      · exact h2 x hx

theorem setSegs_ok (ss : List Seg) (i j : Nat) (r' : RelA) (g' : Gap) (h : ∀ s ∈ ss, s.ok = true)
    (hr' : r'.ok = true) (hg' : gapOk g' = true) : ∀ s ∈ setSegs ss i j r' g', s.ok = true := by
  induction ss generalizing i with
  | nil => intro s hs; cases hs
  | cons s ss ih =>
    have hs0 := h s (by simp)
    have ih' := fun i => ih i (fun x hx => h x (by simp [hx]))
    simp only [setSegs]
    split
    · rename_i r rest he
      intro x hx
      simp only [List.mem_cons] at hx
      rcases hx with rfl | hx
      · obtain ⟨h1, h2, h3, h4⟩ := (Seg.ok_iff s).1 hs0
        rw [he] at h3
        simp only [EntryA.ok, Bool.and_eq_true, List.all_eq_true] at h3
        obtain ⟨a1, a2, a3⟩ := setAlt_ok s.post r rest j r' g' h3.1 h3.2 h2 hr' hg'
        rw [Seg.ok_iff]
        refine ⟨h1, a3, ?_, ?_⟩
        · simp only [EntryA.ok, Bool.and_eq_true, List.all_eq_true]; exact ⟨a1, a2⟩
        · intro hh; simp [EntryA.isEmpty] at hh
      · exact h x (by simp [hx])
    · intro x hx
      simp only [List.mem_cons] at hx
      rcases hx with rfl | hx
      · exact hs0
      · exact ih' _ x hx
    · intro x hx
      simp only [List.mem_cons] at hx
      rcases hx with rfl | hx
      · exact hs0
      · exact ih' _ x hx

theorem setSegs_substvar (ss : List Seg) (i j : Nat) (r' : RelA) (g' : Gap) :
    (setSegs ss i j r' g').any (fun s => s.entry.isSubstvar) = ss.any (fun s => s.entry.isSubstvar) := by
  induction ss generalizing i with
  | nil => rfl
  | cons s ss ih =>
    simp only [setSegs]
    split
    · rename_i r rest he; simp [he, EntryA.isSubstvar]
    · simp [ih]
    · simp [ih]

def viewsOf (r : RelA) (rest : List AltA) : List Lossy.Relation := r.view :: rest.map fun a => a.rel.view

theorem setAlt_views (fl : Follow) (post : Gap) (r : RelA) (rest : List AltA) (j : Nat) (r' : RelA) (g' : Gap)
    (rj : RelA) (gj : Gap) (flj : Follow) (h : altAt fl post r rest j = some (rj, gj, flj))
    (G : RelRec → RelRec) (hG : RelRec.ofLossy r'.view = G (RelRec.ofLossy rj.view)) :
    (viewsOf (setAlt post r rest j r' g').1 (setAlt post r rest j r' g').2.1).map RelRec.ofLossy
      = ((viewsOf r rest).map RelRec.ofLossy).modify j G := by
  induction rest generalizing r j with
  | nil =>
    cases j with
    | succ j => simp [altAt] at h
    | zero =>
      simp only [altAt, Option.some.injEq, Prod.mk.injEq] at h
      obtain ⟨rfl, _, _⟩ := h
      simp [setAlt, viewsOf, hG]
  | cons a as ih =>
    cases j with
    | zero =>
      simp only [altAt, Option.some.injEq, Prod.mk.injEq] at h
      obtain ⟨rfl, _, _⟩ := h
      simp [setAlt, viewsOf, hG]
    | succ j =>
      simp only [altAt] at h
      have := ih a.rel j h
      simp only [viewsOf, List.map_cons] at this ⊢
      simp only [setAlt, List.map_cons, List.modify_succ_cons, List.cons.injEq, true_and]
      exact this

theorem itemsA_cons (s : Seg) (ss : List Seg) : itemsA ⟨s :: ss⟩ = (itemA s).toList ++ itemsA ⟨ss⟩ := by
  simp only [itemsA, List.filterMap_cons]
  cases itemA s <;> rfl

theorem itemsA_setSegs (ss : List Seg) (i j : Nat) (r' : RelA) (g' : Gap) (rj : RelA) (gj : Gap) (flj : Follow)
    (h : relAtSegs ss i j = some (rj, gj, flj))
    (G : RelRec → RelRec) (hG : RelRec.ofLossy r'.view = G (RelRec.ofLossy rj.view)) :
    itemsA ⟨setSegs ss i j r' g'⟩ = S.modRel (itemsA ⟨ss⟩) i j G := by
  induction ss generalizing i with
  | nil => simp [relAtSegs] at h
  | cons s ss ih =>
    cases he : s.entry with
    | alts r rest =>
      cases i with
      | zero =>
        simp only [relAtSegs, he] at h
        have hv := setAlt_views (flOf ss) s.post r rest j r' g' rj gj flj h G hG
        simp only [setSegs, he]
        rw [itemsA_cons, itemsA_cons]
        simp only [itemA, he, Option.toList_some, List.singleton_append, S.modRel, S.modEntry, S.updEntry]
        simp only [viewsOf] at hv
        rw [hv]
      | succ i' =>
        simp only [relAtSegs, he] at h
        simp only [setSegs, he]
        rw [itemsA_cons, itemsA_cons, ih i' h]
        simp [itemA, he, S.modRel, S.modEntry, S.updEntry]
    | substvar p ps =>
      simp only [relAtSegs, he] at h
      simp only [setSegs, he]
      rw [itemsA_cons, itemsA_cons, ih i h]
      simp [itemA, he, S.modRel, S.modEntry, S.updEntry]
    | empty =>
      simp only [relAtSegs, he] at h
      simp only [setSegs, he]
      rw [itemsA_cons, itemsA_cons, ih i h]
      simp [itemA, he, S.modRel, S.modEntry, S.updEntry]


/-- what a setter must do to the text of a RELATION node of the grammar: with the part of the
    following gap that stays outside the node, the result is the text of a well-formed relation `r'`
    followed by a well-formed gap `g'`, and `r'` reads as the setter's list-model effect -/
structure NodeSpec (g : RNode → RNode) (G : RelRec → RelRec) (r : RelA) (gp : Gap) (fl : Follow)
    (r' : RelA) (g' : Gap) : Prop where
  ok : r'.ok = true
  gok : gapOk g' = true
  text : (g (r.node (tailOf r gp fl))).text ++ outOf r gp fl = r'.str ++ gapStr g'
  view : RelRec.ofLossy r'.view = G (RelRec.ofLossy r.view)

/-- the general re-read theorem for a relation setter with a `NodeSpec` -/
theorem reread_setter (a : FieldA) (hwf : a.WF) (allow : Bool) (ha : allow = true ∨ a.hasSubstvar = false)
    (i j : Nat) (rj : RelA) (gj : Gap) (flj : Follow) (h : relAtSegs a.segs i j = some (rj, gj, flj))
    (g : RNode → RNode) (G : RelRec → RelRec) (r' : RelA) (g' : Gap) (hs : NodeSpec g G rj gj flj r' g')
    (f : Field) (hf : f.kids = a.tree.children) :
    ∃ p q, nthNode .ENTRY f.kids i = some p ∧ nthNode .RELATION (f.entryKids p) j = some q
      ∧ (FieldA.mk (setSegs a.segs i j r' g')).WF
      ∧ (f.relEdit p q g).root.text = (FieldA.mk (setSegs a.segs i j r' g')).str
      ∧ (readRelaxed (f.relEdit p q g).root.text allow).2 = []
      ∧ abs (readRelaxed (f.relEdit p q g).root.text allow).1 = S.modRel (abs f.root) i j G := by
  obtain ⟨pre, pre', post', post, L, R, hk, hc, hc', ht, hstr⟩ := segs_zip a.segs i j rj gj flj h
  have hkids : f.kids = pre ++ Node.node .ENTRY (pre' ++ rj.node (tailOf rj gj flj) :: post') :: post := by
    rw [hf]; exact hk
  have hp : nthNode .ENTRY f.kids i = some pre.length := by
    rw [hkids, ← hc]; exact nthPos_split pre _ post rfl
  have hek := entryKids_split f pre _ post hkids
  have hq : nthNode .RELATION (f.entryKids pre.length) j = some pre'.length := by
    rw [hek, ← hc']; exact nthPos_split pre' _ post' rfl
  have hok : ∀ s ∈ a.segs, s.ok = true := by simpa [FieldA.WF, FieldA.ok, List.all_eq_true] using hwf
  have hwf' : (FieldA.mk (setSegs a.segs i j r' g')).WF := by
    simp only [FieldA.WF, FieldA.ok, List.all_eq_true]
    exact setSegs_ok a.segs i j r' g' hok hs.ok hs.gok
  have hsub : (FieldA.mk (setSegs a.segs i j r' g')).hasSubstvar = a.hasSubstvar := setSegs_substvar a.segs i j r' g'
  have htext : (f.relEdit pre.length pre'.length g).root.text = (FieldA.mk (setSegs a.segs i j r' g')).str := by
    have hk' : (f.relEdit pre.length pre'.length g).kids
        = pre ++ Node.node .ENTRY (pre' ++ g (rj.node (tailOf rj gj flj)) :: post') :: post := by
      simp only [Field.relEdit, hkids, getElem?_split, children_node, replaceAt_split, kind_node]
      simp
    rw [root_text, hk', ht]
    show _ = segsStr (setSegs a.segs i j r' g')
    rw [hstr]
    have := hs.text
    calc L ++ (g (rj.node (tailOf rj gj flj))).text ++ outOf rj gj flj ++ R
        = L ++ ((g (rj.node (tailOf rj gj flj))).text ++ outOf rj gj flj) ++ R := by simp
      _ = L ++ (r'.str ++ gapStr g') ++ R := by rw [this]
      _ = L ++ r'.str ++ gapStr g' ++ R := by simp
  obtain ⟨e, _, _⟩ := C10_lossless _ hwf' allow (by rw [hsub]; exact ha)
  refine ⟨pre.length, pre'.length, hp, hq, hwf', htext, ?_, ?_⟩
  · rw [htext, e]
  · rw [htext, e]
    show abs (FieldA.mk (setSegs a.segs i j r' g')).tree = _
    rw [abs_tree _ hwf', itemsA_setSegs a.segs i j r' g' rj gj flj h G hs.view]
    have : abs f.root = itemsA a := by
      show absKids f.kids = _
      rw [hf]; exact abs_tree a hwf
    rw [this]


/-! ### the converse: an address in the tree is an alternative of the grammar -/

theorem altAt_isSome (fl : Follow) (post : Gap) (r : RelA) (rest : List AltA) (j : Nat) (h : j < rest.length + 1) :
    (altAt fl post r rest j).isSome = true := by
  induction rest generalizing r j with
  | nil => cases j <;> simp [altAt] at h ⊢
  | cons a as ih =>
    cases j with
    | zero => simp [altAt]
    | succ j => simp only [altAt]; exact ih a.rel j (by simpa using h)

theorem relAt_isSome (ss : List Seg) (i j : Nat) (rs : List RelRec) (h : S.entry? (itemsA ⟨ss⟩) i = some rs)
    (hj : j < rs.length) : (relAtSegs ss i j).isSome = true := by
  induction ss generalizing i with
  | nil => simp [itemsA, S.entry?] at h
  | cons s ss ih =>
    rw [itemsA_cons] at h
    cases he : s.entry with
    | alts r rest =>
      simp only [itemA, he, Option.toList_some, List.singleton_append] at h
      cases i with
      | zero =>
        simp only [S.entry?, Option.some.injEq] at h
        subst h
        simp only [relAtSegs, he]
        exact altAt_isSome _ _ r rest j (by simpa using hj)
      | succ i' =>
        simp only [S.entry?] at h
        simp only [relAtSegs, he]
        exact ih i' h
    | substvar p ps =>
      simp only [itemA, he, Option.toList_some, List.singleton_append, S.entry?] at h
      simp only [relAtSegs, he]
      exact ih i h
    | empty =>
      simp only [itemA, he, Option.toList_none, List.nil_append] at h
      simp only [relAtSegs, he]
      exact ih i h

/-- what `get_entry(i)` / `get_relation(j)` find in the tree of a well-formed field is an alternative of
    the grammar -/
theorem relAt_of_addr (a : FieldA) (hwf : a.WF) (f : Field) (hf : f.kids = a.tree.children) (i j p q : Nat)
    (hp : nthNode .ENTRY f.kids i = some p) (hq : nthNode .RELATION (f.entryKids p) j = some q) :
    ∃ rj gj flj, relAtSegs a.segs i j = some (rj, gj, flj) := by
  obtain ⟨pre, e, post, hk, hl, he, hcnt, hne, habs⟩ := abs_split hp
  subst hl
  rw [entryKids_split f pre e post hk] at hq
  obtain ⟨pre', r, post', hk', hl', hr, hcnt'⟩ := nthPos_some hq
  have hlen : j < (relsOf e).length := by
    rw [relsOf_eq, List.length_map, cn_length_countP, hk', List.countP_append, List.countP_cons, hcnt', hr]
    simp
  have hentry : S.entry? (itemsA a) i = some (relsOf e) := by
    have : absKids f.kids = itemsA a := by rw [hf]; exact abs_tree a hwf
    rw [← this, habs, ← hne, S.entry?_at]
  have := relAt_isSome a.segs i j (relsOf e) hentry hlen
  cases hra : relAtSegs a.segs i j with
  | none => rw [hra] at this; cases this
  | some x => exact ⟨x.1, x.2.1, x.2.2, rfl⟩

end Deb822Verif.Rel.Edit
