import Deb822Verif.Lemmas.DebWrapRereadDocCLex
import Deb822Verif.Lemmas.DebParseDoc
/-!
  Parser inversion for documents with comment lines inside values (`Spec/DocC.lean`): the token list
  of a well-formed `DocC` parses, without error, to exactly `DocC.tree`. The analogue of `parse_doc`
  (Lemmas/DebParseDoc.lean); the only new case is the continuation loop of `parse_entry` on
  `INDENT COMMENT NEWLINE?` (the comment is consumed by `skip_ws` and stays inside the ENTRY).
-/
namespace Deb822Verif.DebC
open Deb822Verif Deb Node Spec

/-- token-level termination of continuation lines: a missing NEWLINE only at the very end -/
def contsTermT : List ContC → List Tok → Prop
  | [], _ => True
  | c :: cs, rest => (c.nl = true ∨ (cs = [] ∧ rest = [])) ∧ contsTermT cs rest

theorem contsTermT_of (cs : List ContC) (more : Bool) (rest : List Tok) (h : contsTermCM cs more)
    (hm : more = false → rest = []) : contsTermT cs rest := by
  induction cs with
  | nil => trivial
  | cons c cs ih =>
    obtain ⟨h1, h2⟩ := h
    refine ⟨?_, ih h2⟩
    rcases h1 with h | ⟨ha, hb⟩
    · exact Or.inl h
    · exact Or.inr ⟨ha, hm hb⟩

theorem headNot_valuePart (v : Str) (nl : Bool) (cs : List ContC) (rest : List Tok)
    (h : nl = true ∨ (cs = [] ∧ rest = [])) :
    HeadNot [.WHITESPACE, .COMMENT] (optTok .VALUE v ++ nlTok nl ++ contsToksC cs ++ rest) := by
  intro t ht
  unfold optTok at ht
  split at ht
  · cases nl with
    | true => simp [nlTok] at ht; subst ht; simp
    | false =>
      rcases h with h | ⟨h1, h2⟩
      · simp at h
      · subst h1 h2; simp [nlTok, contsToksC] at ht
  · simp at ht; subst ht; simp

/-- the value/continuation loop of `parse_entry` on
    `vals NEWLINE? (INDENT (VALUE | COMMENT) NEWLINE?)*` -/
theorem entryLines_conts (cs : List ContC) (hwf : ∀ c ∈ cs, c.WF) :
    ∀ (v : Str) (nl : Bool) (rest : List Tok),
    (nl = true ∨ (cs = [] ∧ rest = [])) → contsTermT cs rest →
    HeadNot [.INDENT] rest →
    entryLines (optTok .VALUE v ++ nlTok nl ++ contsToksC cs ++ rest) =
      ⟨(optTok .VALUE v ++ nlTok nl ++ contsToksC cs).map tk, [], rest⟩ := by
  induction cs with
  | nil =>
    intro v nl rest hnl _ hrest
    cases nl with
    | false =>
      rcases hnl with h | ⟨_, h⟩
      · simp at h
      · subst h
        have hb := bumpVals_optVal v [] (headNot_nil _)
        simp only [nlTok, contsToksC, List.map_nil, List.flatten_nil, List.append_nil,
          Bool.false_eq_true, ↓reduceIte] at hb ⊢
        rw [entryLines_of_nil _ _ hb]
    | true =>
      simp only [nlTok, contsToksC, List.map_nil, List.flatten_nil, List.append_nil, ↓reduceIte,
        List.append_assoc, List.cons_append, List.nil_append]
      cases rest with
      | nil =>
        have hb := bumpVals_optVal v [(.NEWLINE, ['\n'])] (headNot_cons _ _ _ (by simp))
        rw [entryLines_of_one _ _ _ hb]; simp [nlNodes_nl, nlErrs_nl]
      | cons i r3 =>
        have hb := bumpVals_optVal v ((.NEWLINE, ['\n']) :: i :: r3) (headNot_cons _ _ _ (by simp))
        have hi : i.1 ≠ .INDENT := by simpa using hrest i (by simp)
        rw [entryLines_of_stop _ _ _ _ _ hb hi]; simp [nlNodes_nl, nlErrs_nl]
  | cons c cs ih =>
    intro v nl rest hnl hterm hrest
    have hnl' : nl = true := by
      rcases hnl with h | ⟨h, _⟩
      · exact h
      · simp at h
    subst hnl'
    obtain ⟨hc, hcs⟩ := hterm
    have hcw := hwf c (by simp)
    have ih' := ih (fun x hx => hwf x (by simp [hx]))
    have hin : optTok .VALUE v ++ nlTok true ++ contsToksC (c :: cs) ++ rest =
        optTok .VALUE v ++ (.NEWLINE, ['\n']) :: (.INDENT, c.indent) ::
          (c.tok :: (nlTok c.nl ++ contsToksC cs ++ rest)) := by
      simp [nlTok, contsToksC_cons, ContC.toks]
    have hb := bumpVals_optVal v ((.NEWLINE, ['\n']) :: (.INDENT, c.indent) ::
          (c.tok :: (nlTok c.nl ++ contsToksC cs ++ rest))) (headNot_cons _ _ _ (by simp))
    rw [hin, entryLines_of_indent _ _ _ _ _ hb rfl]
    cases hi : c.isC with
    | false =>
      have htk : c.tok = (.VALUE, c.text) := by simp [ContC.tok, ContC.kind, hi]
      have hsk : skipWs (c.tok :: (nlTok c.nl ++ contsToksC cs ++ rest)) =
          ([], c.tok :: (nlTok c.nl ++ contsToksC cs ++ rest)) := by
        rw [htk]; exact skipWs_stop _ (headNot_cons _ _ _ (by simp))
      rw [hsk]
      have hrec := ih' c.text c.nl rest hc hcs hrest
      have hct : optTok .VALUE c.text = [(.VALUE, c.text)] := by simp [optTok, contC_text_ne c hcw]
      rw [hct] at hrec
      simp only [List.cons_append, List.nil_append, List.append_assoc] at hrec ⊢
      rw [htk, hrec]
      simp [nlNodes_nl, nlErrs_nl, contsToksC_cons, ContC.toks, nlTok, htk]
    | true =>
      have htk : c.tok = (.COMMENT, c.text) := by simp [ContC.tok, ContC.kind, hi]
      have hstop := skipWs_stop (nlTok c.nl ++ contsToksC cs ++ rest) (by
        have := headNot_valuePart [] c.nl cs rest hc
        simpa [optTok] using this)
      have hsk : skipWs (c.tok :: (nlTok c.nl ++ contsToksC cs ++ rest)) =
          ([tk c.tok], nlTok c.nl ++ contsToksC cs ++ rest) := by
        rw [htk]
        rw [show skipWs ((Kind.COMMENT, c.text) :: (nlTok c.nl ++ contsToksC cs ++ rest))
            = (tk (Kind.COMMENT, c.text) :: (skipWs (nlTok c.nl ++ contsToksC cs ++ rest)).1,
               (skipWs (nlTok c.nl ++ contsToksC cs ++ rest)).2) from by
          rw [skipWs]; simp, hstop]
      rw [hsk]
      have hrec := ih' [] c.nl rest hc hcs hrest
      simp only [optTok, ↓reduceIte, List.nil_append] at hrec
      rw [hrec]
      simp [nlNodes_nl, nlErrs_nl, contsToksC_cons, ContC.toks, nlTok]

/-- token-level termination of an entry -/
def EntryC.TermT (e : EntryC) (rest : List Tok) : Prop :=
  (e.nl = true ∨ (e.conts = [] ∧ rest = [])) ∧ contsTermT e.conts rest

theorem entryBody_entry (e : EntryC) (rest : List Tok) (hwf : ∀ c ∈ e.conts, c.WF)
    (hterm : EntryC.TermT e rest) (hrest : HeadNot [.INDENT] rest) :
    entryBody (e.toks ++ rest) = ⟨[e.node], [], rest⟩ := by
  obtain ⟨h1, h2⟩ := hterm
  have hk : keyPart (e.toks ++ rest) =
      ⟨[tk (.KEY, e.key)], [], (.COLON, [':']) :: (optTok .WHITESPACE e.ws ++
        (optTok .VALUE e.v ++ nlTok e.nl ++ contsToksC e.conts ++ rest))⟩ := by
    simp only [EntryC.toks, EntryC.tailToks, List.cons_append, keyPart, ↓reduceIte]
    rw [skipWs_stop _ (headNot_cons _ _ _ (by simp))]
    simp
  have hc : colonPart ((.COLON, [':']) :: (optTok .WHITESPACE e.ws ++
        (optTok .VALUE e.v ++ nlTok e.nl ++ contsToksC e.conts ++ rest))) =
      ⟨tk (.COLON, [':']) :: (optTok .WHITESPACE e.ws).map tk, [],
        optTok .VALUE e.v ++ nlTok e.nl ++ contsToksC e.conts ++ rest⟩ := by
    simp only [colonPart, ↓reduceIte]
    rw [skipWs_optWs _ _ (headNot_valuePart e.v e.nl e.conts rest h1)]
  have hl := entryLines_conts e.conts hwf e.v e.nl rest h1 h2 hrest
  simp only [entryBody, hk, hc, hl]
  simp [EntryC.node, EntryC.toks, EntryC.tailToks]

theorem parseEntry_entry (e : EntryC) (rest : List Tok) (hwf : ∀ c ∈ e.conts, c.WF)
    (hterm : EntryC.TermT e rest) (hrest : HeadNot [.INDENT] rest) :
    parseEntry (e.toks ++ rest) = ⟨[e.node], [], rest⟩ := by
  have hcl : commentLoop (e.toks ++ rest) = ⟨[], [], e.toks ++ rest, false⟩ := by
    apply commentLoop_notComment
    simp only [EntryC.toks, List.cons_append]
    exact headNot_cons _ _ _ (by simp)
  have hep : endsParagraph (e.toks ++ rest) = false := by
    simp [EntryC.toks, endsParagraph]
  simp only [parseEntry, hcl, hep, entryBody_entry e rest hwf hterm hrest]
  simp

/-- token-level termination of paragraph items -/
def itemsTermT : List PItemC → List Tok → Prop
  | [], _ => True
  | .comment _ nl :: is, rest => (nl = true ∨ (is = [] ∧ rest = [])) ∧ itemsTermT is rest
  | .entry e :: is, rest => EntryC.TermT e (itemsToksC is ++ rest) ∧ itemsTermT is rest

theorem itemsToks_cons (i : PItemC) (is) : itemsToksC (i :: is) = i.toks ++ itemsToksC is := by
  simp [itemsToksC]
theorem itemsNodes_cons (i : PItemC) (is) : itemsNodesC (i :: is) = i.nodes ++ itemsNodesC is := by
  simp [itemsNodesC]

theorem headNot_items (is : List PItemC) (rest : List Tok) (hr : HeadNot [.INDENT] rest) :
    HeadNot [.INDENT] (itemsToksC is ++ rest) := by
  cases is with
  | nil => simpa [itemsToksC] using hr
  | cons i is =>
    cases i with
    | comment t nl => simp only [itemsToks_cons, PItemC.toks, List.cons_append]; exact headNot_cons _ _ _ (by simp)
    | entry e => simp only [itemsToks_cons, PItemC.toks, EntryC.toks, List.cons_append]; exact headNot_cons _ _ _ (by simp)

/-- the paragraph loop over the items of a paragraph; what follows ends the paragraph -/
theorem paraLoop_items (is : List PItemC) (rest : List Tok)
    (hwf : ∀ i ∈ is, ∀ e, i = .entry e → ∀ c ∈ e.conts, c.WF)
    (hterm : itemsTermT is rest) (hrest : endsParagraph rest = true) :
    paraLoop (itemsToksC is ++ rest) = ⟨itemsNodesC is, [], rest⟩ := by
  have hri : HeadNot [.INDENT] rest := by
    intro t ht
    cases rest with
    | nil => simp at ht
    | cons x xs => simp at ht; subst ht; simp [endsParagraph] at hrest; simp [hrest]
  induction is with
  | nil =>
    simp only [itemsToksC, List.map_nil, List.flatten_nil, List.nil_append, itemsNodesC]
    cases rest with
    | nil => exact paraLoop_nil
    | cons t ts => exact paraLoop_newline t ts (by simpa [endsParagraph] using hrest)
  | cons i is ih =>
    have hrec := fun ht => ih (fun x hx => hwf x (by simp [hx])) ht
    cases i with
    | comment t nl =>
      obtain ⟨h1, h2⟩ := hterm
      cases nl with
      | true =>
        simp only [itemsToks_cons, PItemC.toks, nlTok, ↓reduceIte, List.cons_append, List.nil_append,
          itemsNodes_cons, PItemC.nodes, List.map_cons, List.map_nil]
        rw [paraLoop_comment, hrec h2]
      | false =>
        rcases h1 with h | ⟨ha, hb⟩
        · simp at h
        · subst ha hb
          simp only [itemsToksC, PItemC.toks, nlTok, List.map_cons, List.map_nil, List.flatten_cons,
            List.flatten_nil, List.append_nil, Bool.false_eq_true, ↓reduceIte, itemsNodesC, PItemC.nodes]
          rw [paraLoop_step _ _ (by simp), parseEntry_comment_eof]
          simp [paraLoop_nil]
    | entry e =>
      obtain ⟨h1, h2⟩ := hterm
      have hwf' := hwf (.entry e) (by simp) e rfl
      simp only [itemsToks_cons, PItemC.toks, List.append_assoc, itemsNodes_cons, PItemC.nodes]
      have hpe := parseEntry_entry e (itemsToksC is ++ rest) hwf' h1 (headNot_items is rest hri)
      rw [paraLoop_step' _ (by simp [EntryC.toks, endsParagraph]), hpe, hrec h2]
      simp

/-! ### from the document-level termination predicates to the token-level ones -/

theorem EntryC.termT_of (e : EntryC) (more : Bool) (rest : List Tok) (h : e.TermM more)
    (hm : more = false → rest = []) : EntryC.TermT e rest := by
  obtain ⟨h1, h2⟩ := h
  refine ⟨?_, contsTermT_of e.conts more rest h2 hm⟩
  rcases h1 with h | ⟨ha, hb⟩
  · exact Or.inl h
  · exact Or.inr ⟨ha, hm hb⟩

theorem itemsTermT_of (is : List PItemC) (more : Bool) (rest : List Tok) (h : itemsTermC is more)
    (hm : more = false → rest = []) : itemsTermT is rest := by
  induction is with
  | nil => trivial
  | cons i is ih =>
    cases i with
    | comment t nl =>
      obtain ⟨h1, h2⟩ := h
      refine ⟨?_, ih h2⟩
      rcases h1 with h | ⟨ha, hb⟩
      · exact Or.inl h
      · exact Or.inr ⟨ha, hm hb⟩
    | entry e =>
      obtain ⟨h1, h2⟩ := h
      refine ⟨EntryC.termT_of e _ _ h1 ?_, ih h2⟩
      intro hf
      simp only [Bool.or_eq_false_iff, Bool.not_eq_eq_eq_not, Bool.not_false, List.isEmpty_iff] at hf
      rw [hf.1, hm hf.2]; simp [itemsToksC]

/-- a whole paragraph -/
theorem paraLoop_para (p : ParaC) (more : Bool) (rest : List Tok) (hwf : p.WF) (hterm : p.Term more)
    (hm : more = false → rest = []) (hrest : endsParagraph rest = true) :
    paraLoop (p.toks ++ rest) = ⟨p.first.node :: itemsNodesC p.rest, [], rest⟩ := by
  have hne : ∀ i ∈ PItemC.entry p.first :: p.rest, ∀ e, i = .entry e → ∀ c ∈ e.conts, c.WF := by
    intro i hi e he c hc
    have hewf : e.WF := by
      simp only [List.mem_cons] at hi
      rcases hi with h | h
      · rw [h] at he; cases he; exact hwf.first_ok
      · have := hwf.rest_ok i h; rw [he] at this; exact this
    exact hewf.conts_ok c hc
  have ht : itemsTermT (PItemC.entry p.first :: p.rest) rest := by
    obtain ⟨h1, h2⟩ := hterm
    refine ⟨EntryC.termT_of _ _ _ h1 ?_, itemsTermT_of _ _ _ h2 hm⟩
    intro hf
    simp only [Bool.or_eq_false_iff, Bool.not_eq_eq_eq_not, Bool.not_false, List.isEmpty_iff] at hf
    rw [hf.1, hm hf.2]; simp [itemsToksC]
  have := paraLoop_items (PItemC.entry p.first :: p.rest) rest hne ht hrest
  simpa [itemsToks_cons, itemsNodes_cons, PItemC.toks, PItemC.nodes, ParaC.toks] using this

/-! ### the root loop -/

theorem parasToks_cons (pg : ParaC × List Gap) (ps) :
    parasToksC (pg :: ps) = pg.1.toks ++ (gapsToks pg.2 ++ parasToksC ps) := by
  simp [parasToksC]

theorem parasNodes_cons (pg : ParaC × List Gap) (ps) :
    parasNodesC (pg :: ps) = pg.1.node :: (pg.2.map Gap.node ++ parasNodesC ps) := by
  simp [parasNodesC]

theorem para_toks_head (p : ParaC) (rest : List Tok) :
    ∃ r, p.toks ++ rest = (.KEY, p.first.key) :: r := by
  simp [ParaC.toks, EntryC.toks]

theorem rootLoop_doc (ps : List (ParaC × List Gap)) : ∀ (g0 : List Gap),
    (∀ pg ∈ ps, pg.1.WF) → parasTermC ps → gapsTermT g0 (parasToksC ps) →
    rootLoop (gapsToks g0 ++ parasToksC ps) = ⟨g0.map Gap.node ++ parasNodesC ps, [], []⟩ := by
  induction ps with
  | nil =>
    intro g0 _ _ hg
    simp only [parasToksC, List.map_nil, List.flatten_nil, List.append_nil, parasNodesC] at hg ⊢
    cases g0 with
    | nil => simpa [gapsToks] using rootLoop_nil
    | cons g gs =>
      have hs := skipWsNl_gaps (g :: gs) [] hg (headNot_nil _)
      simp only [List.append_nil] at hs
      exact rootLoop_of_nil _ (by simpa using gapsToks_ne g gs []) _ hs
  | cons pg ps ih =>
    obtain ⟨p, g⟩ := pg
    intro g0 hwf hterm hg
    obtain ⟨r, hr⟩ := para_toks_head p (gapsToks g ++ parasToksC ps)
    have hne : gapsToks g0 ++ parasToksC ((p, g) :: ps) ≠ [] := by
      rw [parasToks_cons]; simp only [hr]; simp
    have hs := skipWsNl_gaps g0 (parasToksC ((p, g) :: ps)) hg (by
      rw [parasToks_cons]; simp only [hr]; exact headNot_cons _ _ _ (by simp))
    -- what follows the paragraph ends it; and its termination flags
    have hpl : paraLoop (p.toks ++ (gapsToks g ++ parasToksC ps)) =
        ⟨p.first.node :: itemsNodesC p.rest, [], gapsToks g ++ parasToksC ps⟩ ∧
        gapsTermT g (parasToksC ps) ∧ parasTermC ps := by
      cases ps with
      | nil =>
        obtain ⟨h1, h2, h3⟩ := hterm
        refine ⟨?_, ?_, trivial⟩
        · apply paraLoop_para p (!g.isEmpty) _ (hwf (p, g) (by simp)) h1
          · intro hf; simp at hf; subst hf; simp [gapsToks, parasToksC]
          · rcases h2 with h | ⟨g', h⟩
            · subst h; simp [gapsToks, parasToksC, endsParagraph]
            · subst h; simp [gapsToks, Gap.toks, endsParagraph]
        · exact gapsTermT_of g false _ h3 (fun _ => by simp [parasToksC])
      | cons q ps' =>
        obtain ⟨h1, ⟨g', h2⟩, h3, h4⟩ := hterm
        refine ⟨?_, ?_, h4⟩
        · apply paraLoop_para p true _ (hwf (p, g) (by simp)) h1 (by simp)
          subst h2; simp [gapsToks, Gap.toks, endsParagraph]
        · exact gapsTermT_of g true _ h3 (by simp)
    obtain ⟨hpl, hgt, hpt⟩ := hpl
    have hrec := ih g (fun x hx => hwf x (by simp [hx])) hpt hgt
    rw [parasToks_cons] at hs hne ⊢
    simp only [hr] at hs hpl hne ⊢
    rw [rootLoop_of_cons _ hne _ _ _ hs, hpl, hrec]
    simp [parasNodes_cons, ParaC.node]

/-- **Parser inversion** for documents with comment lines inside values: the token list parses,
    without error, to exactly `DocC.tree`. -/
theorem parse_doc (d : DocC) (h : d.WF) : parseTokens d.toks = ⟨d.tree, []⟩ := by
  have hg : gapsTermT d.lead (parasToksC d.paras) := by
    apply gapsTermT_of d.lead _ _ h.lead_term
    intro hf; simp at hf; rw [hf]; simp [parasToksC]
  have := rootLoop_doc d.paras d.lead (fun pg hpg => (h.paras_ok pg hpg).1) h.paras_term hg
  simp [parseTokens, DocC.toks, DocC.tree, this]

/-- lexer and parser together -/
theorem parse_str (d : DocC) (h : d.WF) : parse d.str = ⟨d.tree, []⟩ := by
  unfold parse; rw [lex_doc d h, parse_doc d h]

end Deb822Verif.DebC
