import Deb822Verif.Lemmas.RelLexField
import Deb822Verif.Spec.DocSDec
/-!
  A relationship field written in a deb822 document, and the value the deb822 reader hands out.

  In the document the field `Key:` is followed by the text of the relationship field in some layout
  `f : FieldA` — whitespace after the colon, continuation lines behind their indentation.  What
  `Paragraph::get` returns is that text with the whitespace after the colon, an empty first line and
  the indentation of every continuation line REMOVED (`EntryS.valueLines` joined by `\n`).
  This file shows that the removal is a change of layout only:

  * `dd` — the removal as a function on texts (`dedentStr = dd .lead`);
  * `dd_rawValue` — on the text of a well-formed deb822 field it computes the value of the field;
  * `FieldA.docForm` — the same removal on the gaps of a relationship field, `dedentStr_field :
    dedentStr f.str = f.docForm.str`;
  * `docForm_wf`, `docForm_view`, `docForm_substvars` — the result is a well-formed field with the
    same entries, alternatives, names, versions, architectures, profiles, substitution variables.
-/
namespace Deb822Verif.RelSpec
open Deb822Verif Rel

/-! ### on texts -/

/-- where the scan is: before the first kept character; directly behind a kept newline (or in the
    indentation that follows it); inside a line -/
inductive DSt
  | lead | nl | mid
  deriving DecidableEq, Repr

/-- drop the leading newlines / spaces / tabs, and the spaces / tabs behind every kept newline -/
def dd : DSt → Str → Str
  | _, [] => []
  | .lead, c :: cs => if c = '\n' then dd .lead cs else if Deb.isIndent c then dd .lead cs else c :: dd .mid cs
  | .nl, c :: cs => if c = '\n' then c :: dd .nl cs else if Deb.isIndent c then dd .nl cs else c :: dd .mid cs
  | .mid, c :: cs => if c = '\n' then c :: dd .nl cs else c :: dd .mid cs

def dedentStr (s : Str) : Str := dd .lead s

/-- the characters that are dropped at a line start -/
def isDropStart (c : Char) : Bool := c == '\n' || Deb.isIndent c

/-- "a kept character that is not a newline comes next, or nothing" -/
abbrev SS (rest : Str) : Prop := HeadFails isDropStart rest

theorem dd_mid_solid (x r : Str) (h : ∀ c ∈ x, c ≠ '\n') : dd .mid (x ++ r) = x ++ dd .mid r := by
  induction x with
  | nil => rfl
  | cons c cs ih =>
    have hc : c ≠ '\n' := h c (by simp)
    simp only [List.cons_append, dd, hc, ↓reduceIte]
    rw [ih (fun d hd => h d (by simp [hd]))]

theorem dd_ss (σ : DSt) (rest : Str) (h : SS rest) : dd σ rest = dd .mid rest := by
  cases rest with
  | nil => cases σ <;> rfl
  | cons c r =>
    have := h c rfl
    simp only [isDropStart, Bool.or_eq_false_iff, beq_eq_false_iff_ne] at this
    cases σ <;> simp [dd, this.1, this.2]

/-- a run of space / tab / CR behind a newline: its leading spaces and tabs go -/
theorem dd_nl_ws (s r : Str) (h : ∀ c ∈ s, c ≠ '\n') :
    dd .nl (s ++ r) = if s.all Deb.isIndent then dd .nl r else s.dropWhile Deb.isIndent ++ dd .mid r := by
  induction s with
  | nil => simp
  | cons c cs ih =>
    have hc : c ≠ '\n' := h c (by simp)
    have ih := ih (fun d hd => h d (by simp [hd]))
    cases hi : Deb.isIndent c with
    | true => simp only [List.cons_append, dd, hc, ↓reduceIte, hi, List.all_cons, Bool.true_and, List.dropWhile_cons, ih]
    | false =>
      simp only [List.cons_append, dd, hc, ↓reduceIte, hi, List.all_cons, Bool.false_and, Bool.false_eq_true,
        List.dropWhile_cons]
      rw [dd_mid_solid cs r (fun d hd => h d (by simp [hd]))]

theorem dd_lead_ws (s r : Str) (h : ∀ c ∈ s, c ≠ '\n') :
    dd .lead (s ++ r) = if s.all Deb.isIndent then dd .lead r else s.dropWhile Deb.isIndent ++ dd .mid r := by
  induction s with
  | nil => simp
  | cons c cs ih =>
    have hc : c ≠ '\n' := h c (by simp)
    have ih := ih (fun d hd => h d (by simp [hd]))
    cases hi : Deb.isIndent c with
    | true => simp only [List.cons_append, dd, hc, ↓reduceIte, hi, List.all_cons, Bool.true_and, List.dropWhile_cons, ih]
    | false =>
      simp only [List.cons_append, dd, hc, ↓reduceIte, hi, List.all_cons, Bool.false_and, Bool.false_eq_true,
        List.dropWhile_cons]
      rw [dd_mid_solid cs r (fun d hd => h d (by simp [hd]))]

/-! ### on gaps -/

/-- the removal on a gap; `b`: the gap starts directly behind a newline -/
def ddGap : Bool → Gap → Gap
  | _, [] => []
  | _, .nl :: g => .nl :: ddGap true g
  | false, .ws s :: g => .ws s :: ddGap false g
  | true, .ws s :: g =>
    if s.all Deb.isIndent then ddGap true g else .ws (s.dropWhile Deb.isIndent) :: ddGap false g

/-- a gap inside the field (it starts behind a token) -/
def dedentGap (g : Gap) : Gap := ddGap false g

/-- the gap at the very start of the field -/
def leadGap : Gap → Gap
  | [] => []
  | .nl :: g => leadGap g
  | .ws s :: g => if s.all Deb.isIndent then leadGap g else .ws (s.dropWhile Deb.isIndent) :: ddGap false g

theorem ws_no_nl {s : Str} (h : ∀ c ∈ s, isWs c = true) : ∀ c ∈ s, c ≠ '\n' := by
  intro c hc e
  subst e
  exact absurd (h _ hc) (by decide)

def stOf (b : Bool) : DSt := if b then .nl else .mid

theorem dd_gap (g : Gap) (b : Bool) (rest : Str) (hg : gapOk g = true) (hr : SS rest) :
    dd (stOf b) (gapStr g ++ rest) = gapStr (ddGap b g) ++ dd .mid rest := by
  induction g generalizing b with
  | nil => simpa [gapStr, ddGap] using dd_ss _ rest hr
  | cons x g ih =>
    cases x with
    | nl =>
      have := ih true (gapOk_cons_nl hg)
      simp only [gapStr, List.map_cons, List.flatten_cons, GapPiece.str, List.cons_append, List.nil_append,
        stOf, ↓reduceIte] at this ⊢
      cases b <;> simp [dd, ddGap, this, gapStr, GapPiece.str]
    | ws s =>
      obtain ⟨_, hs, hg', _⟩ := gapOk_cons_ws hg
      have hn := ws_no_nl hs
      cases b with
      | false =>
        have := ih false hg'
        simp only [stOf, Bool.false_eq_true, ↓reduceIte] at this
        simp only [gapStr, List.map_cons, List.flatten_cons, GapPiece.str, List.append_assoc, stOf,
          Bool.false_eq_true, ↓reduceIte, ddGap] at this ⊢
        rw [dd_mid_solid s _ hn, this]
      | true =>
        have h1 := ih true hg'
        have h2 := ih false hg'
        simp only [stOf, Bool.false_eq_true, ↓reduceIte, gapStr] at h1 h2
        simp only [gapStr, List.map_cons, List.flatten_cons, GapPiece.str, List.append_assoc, stOf,
          ↓reduceIte, ddGap]
        rw [dd_nl_ws s _ hn]
        split
        · exact h1
        · simp only [List.map_cons, List.flatten_cons, GapPiece.str, List.append_assoc]
          rw [h2]

theorem dd_dedentGap (g : Gap) (rest : Str) (hg : gapOk g = true) (hr : SS rest) :
    dd .mid (gapStr g ++ rest) = gapStr (dedentGap g) ++ dd .mid rest := dd_gap g false rest hg hr

theorem dd_leadGap (g : Gap) (rest : Str) (hg : gapOk g = true) (hr : SS rest) :
    dd .lead (gapStr g ++ rest) = gapStr (leadGap g) ++ dd .mid rest := by
  induction g with
  | nil => simpa [gapStr, leadGap] using dd_ss _ rest hr
  | cons x g ih =>
    cases x with
    | nl =>
      have := ih (gapOk_cons_nl hg)
      simp only [gapStr] at this
      simp [gapStr, GapPiece.str, dd, leadGap, this]
    | ws s =>
      obtain ⟨_, hs, hg', _⟩ := gapOk_cons_ws hg
      have hn := ws_no_nl hs
      have h1 := ih hg'
      have h2 := dd_gap g false rest hg' hr
      simp only [stOf, Bool.false_eq_true, ↓reduceIte, gapStr] at h1 h2
      simp only [gapStr, List.map_cons, List.flatten_cons, GapPiece.str, List.append_assoc, leadGap]
      rw [dd_lead_ws s _ hn]
      split
      · exact h1
      · simp only [List.map_cons, List.flatten_cons, GapPiece.str, List.append_assoc]
        rw [h2]

/-- `g` does not start with a whitespace run -/
def NoWsHead (g : Gap) : Prop := ∀ s' g', g ≠ .ws s' :: g'

theorem noWsHead_ddGap (g : Gap) (b : Bool) (h : NoWsHead g) : NoWsHead (ddGap b g) := by
  cases g with
  | nil => intro s' g' e; simp [ddGap] at e
  | cons x g =>
    cases x with
    | nl => intro s' g' e; cases b <;> simp [ddGap] at e
    | ws s => exact absurd rfl (h s g)

theorem dropWhile_nil_all (p : Char → Bool) (s : Str) (h : s.dropWhile p = []) : s.all p = true := by
  induction s with
  | nil => rfl
  | cons c cs ih =>
    cases hp : p c with
    | true => simp only [List.dropWhile_cons, hp, ↓reduceIte] at h; simp [hp, ih h]
    | false => simp [List.dropWhile_cons, hp] at h

theorem dropWhile_indent_ws (s : Str) (hs : ∀ c ∈ s, isWs c = true) (hne : s.all Deb.isIndent = false) :
    (s.dropWhile Deb.isIndent).isEmpty = false ∧ (s.dropWhile Deb.isIndent).all isWs = true := by
  refine ⟨?_, ?_⟩
  · cases h : s.dropWhile Deb.isIndent with
    | cons _ _ => rfl
    | nil =>
      have : s.all Deb.isIndent = true := dropWhile_nil_all _ s h
      rw [this] at hne; cases hne
  · simp only [List.all_eq_true]
    intro c hc
    exact hs c ((List.dropWhile_sublist _).subset hc)

theorem gapOk_ws_cons (s : Str) (g : Gap) (h1 : s.isEmpty = false) (h2 : s.all isWs = true)
    (h3 : NoWsHead g) (h4 : gapOk g = true) : gapOk (.ws s :: g) = true := by
  cases g with
  | nil => simp [gapOk, h1, h2]
  | cons x g =>
    cases x with
    | nl => simpa [gapOk, h1, h2] using h4
    | ws s' => exact absurd rfl (h3 s' g)

theorem gapOk_ddGap (g : Gap) (b : Bool) (hg : gapOk g = true) : gapOk (ddGap b g) = true := by
  induction g generalizing b with
  | nil => simp [ddGap, gapOk]
  | cons x g ih =>
    cases x with
    | nl =>
      have := ih true (gapOk_cons_nl hg)
      cases b <;> simpa [ddGap, gapOk] using this
    | ws s =>
      obtain ⟨hne, hs, hg', hnw⟩ := gapOk_cons_ws hg
      have hse : s.isEmpty = false := by cases s with | nil => exact absurd rfl hne | cons _ _ => rfl
      have hsa : s.all isWs = true := by simpa [List.all_eq_true] using hs
      cases b with
      | false =>
        simp only [ddGap]
        exact gapOk_ws_cons s _ hse hsa (noWsHead_ddGap g false hnw) (ih false hg')
      | true =>
        simp only [ddGap]
        split
        · exact ih true hg'
        · rename_i hall
          have hall' : s.all Deb.isIndent = false := by simpa using hall
          obtain ⟨d1, d2⟩ := dropWhile_indent_ws s hs hall'
          exact gapOk_ws_cons _ _ d1 d2 (noWsHead_ddGap g false hnw) (ih false hg')

theorem gapOk_dedentGap (g : Gap) (hg : gapOk g = true) : gapOk (dedentGap g) = true := gapOk_ddGap g false hg

theorem gapOk_leadGap (g : Gap) (hg : gapOk g = true) : gapOk (leadGap g) = true := by
  induction g with
  | nil => simp [leadGap, gapOk]
  | cons x g ih =>
    cases x with
    | nl => simpa [leadGap] using ih (gapOk_cons_nl hg)
    | ws s =>
      obtain ⟨_, hs, hg', hnw⟩ := gapOk_cons_ws hg
      simp only [leadGap]
      split
      · exact ih hg'
      · rename_i hall
        have hall' : s.all Deb.isIndent = false := by simpa using hall
        obtain ⟨d1, d2⟩ := dropWhile_indent_ws s hs hall'
        exact gapOk_ws_cons _ _ d1 d2 (noWsHead_ddGap g false hnw) (gapOk_ddGap g false hg')

theorem isEmpty_dedentGap (g : Gap) : (dedentGap g).isEmpty = g.isEmpty := by
  cases g with
  | nil => rfl
  | cons x g => cases x <;> simp [dedentGap, ddGap]

theorem dedentGap_nil : dedentGap [] = [] := rfl

/-! ### on the parts of a field -/

def VerPart.dedent (p : VerPart) : VerPart :=
  { p with pre := dedentGap p.pre, g2 := dedentGap p.g2, g3 := dedentGap p.g3, g4 := dedentGap p.g4 }

def Item.dedent (i : Item) : Item := { i with gap := dedentGap i.gap }

def Bracket.dedent (b : Bracket) : Bracket :=
  { pre := dedentGap b.pre, items := b.items.map Item.dedent, post := dedentGap b.post }

def RelA.dedent (r : RelA) : RelA :=
  { r with version := r.version.map VerPart.dedent, archs := r.archs.map Bracket.dedent,
           profiles := r.profiles.map Bracket.dedent }

def AltA.dedent (a : AltA) : AltA := ⟨dedentGap a.gb, dedentGap a.ga, a.rel.dedent⟩

def EntryA.dedent : EntryA → EntryA
  | .alts r rest => .alts r.dedent (rest.map AltA.dedent)
  | .substvar p ps => .substvar p ps
  | .empty => .empty

/-- `φ` treats the gap in front of the segment -/
def Seg.dedentWith (φ : Gap → Gap) (s : Seg) : Seg := ⟨φ s.pre, s.entry.dedent, dedentGap s.post⟩

/-- the layout the deb822 reader hands out: nothing in front of the first entry, no spaces or
    tabs behind a newline -/
def FieldA.docForm (f : FieldA) : FieldA :=
  match f.segs with
  | [] => ⟨[]⟩
  | s :: ss => ⟨s.dedentWith leadGap :: ss.map (Seg.dedentWith dedentGap)⟩

/-! "starts with a kept character" -/

theorem identChar_not_drop {c : Char} (h : isIdentChar c = true) : isDropStart c = false := by
  have h1 := identChar_not_ws h
  simp only [isDropStart, Bool.or_eq_false_iff, beq_eq_false_iff_ne, Deb.isIndent]
  refine ⟨?_, ?_⟩
  · intro e; subst e; revert h; decide
  · simp only [isWs, Bool.or_eq_false_iff, beq_eq_false_iff_ne, ne_eq] at h1
    simp only [Bool.or_eq_false_iff, beq_eq_false_iff_ne, ne_eq]
    exact ⟨h1.1.1, h1.1.2⟩

theorem identChar_ne_nl {c : Char} (h : isIdentChar c = true) : c ≠ '\n' := by
  intro e; subst e; revert h; decide

theorem ident_solid {s : Str} (h : isIdent s = true) : ∀ c ∈ s, c ≠ '\n' :=
  fun c hc => identChar_ne_nl (((isIdent_iff s).1 h).2 c hc)

theorem ss_ident (s rest : Str) (hs : isIdent s = true) : SS (s ++ rest) := by
  cases s with
  | nil => simp [isIdent] at hs
  | cons c cs => exact headFails_cons _ _ _ (identChar_not_drop (((isIdent_iff _).1 hs).2 c (by simp)))

theorem version_solid (v : VersionA) (hv : v.ok = true) : ∀ c ∈ v.str, c ≠ '\n' := by
  obtain ⟨hf, hm, he⟩ := (VersionA.ok_iff v).1 hv
  intro c hc
  cases hep : v.epoch with
  | none =>
    simp only [VersionA.str, hep, List.nil_append] at hc
    have hfb : v.first = v.body := by simp [VersionA.first, hep]
    rw [hfb] at hf
    exact ident_solid hf c hc
  | some e =>
    simp only [VersionA.str, hep, List.mem_append, List.mem_singleton] at hc
    rcases hc with (hc | hc) | hc
    · exact ident_solid (isIdent_of_digits (he e hep).1) c hc
    · subst hc; decide
    · -- a character of the body: a colon or a character of one of the pieces between the colons
      have hmore : v.more = Text.splitOn ':' v.body := by simp [VersionA.more, hep]
      have h1 : c ∈ (':' :: v.body) := List.mem_cons_of_mem _ hc
      rw [← splitOn_flatten ':' v.body] at h1
      simp only [List.mem_flatten, List.mem_map] at h1
      obtain ⟨l, ⟨q, hq, rfl⟩, hcl⟩ := h1
      rcases List.mem_cons.1 hcl with rfl | hcq
      · decide
      · exact ident_solid (hm q (hmore ▸ hq)) c hcq

theorem ss_version (v : VersionA) (rest : Str) (hv : v.ok = true) : SS (v.str ++ rest) := by
  obtain ⟨hf, _, he⟩ := (VersionA.ok_iff v).1 hv
  cases hep : v.epoch with
  | none =>
    have hfb : v.first = v.body := by simp [VersionA.first, hep]
    rw [hfb] at hf
    simpa [VersionA.str, hep] using ss_ident _ rest hf
  | some e =>
    simpa [VersionA.str, hep] using ss_ident e (':' :: (v.body ++ rest)) (isIdent_of_digits (he e hep).1)

theorem op_solid (op : VC) : ∀ c ∈ op.display, c ≠ '\n' := by cases op <;> decide

theorem ss_op (op : VC) (rest : Str) : SS (op.display ++ rest) := by
  cases op <;> exact headFails_cons _ _ _ (by decide)

theorem dd_mid_char (c : Char) (r : Str) (h : c ≠ '\n') : dd .mid (c :: r) = c :: dd .mid r := by
  simp [dd, h]

/-! the removal, part by part -/

theorem dd_verPart (p : VerPart) (rest : Str) (hp : p.ok = true) :
    dd .mid (p.str ++ rest) = p.dedent.str ++ dd .mid rest := by
  obtain ⟨h1, h2, h3, h4, hv⟩ := (VerPart.ok_iff p).1 hp
  simp only [VerPart.str, VerPart.dedent, List.append_assoc, List.cons_append, List.nil_append]
  rw [dd_dedentGap _ _ h1 (headFails_cons _ _ _ (by decide)), dd_mid_char '(' _ (by decide),
    dd_dedentGap _ _ h2 (ss_op _ _), dd_mid_solid _ _ (op_solid p.op),
    dd_dedentGap _ _ h3 (ss_version _ _ hv), dd_mid_solid _ _ (version_solid _ hv),
    dd_dedentGap _ _ h4 (headFails_cons _ _ _ (by decide)), dd_mid_char ')' _ (by decide)]

theorem item_text_solid (i : Item) (hn : isIdent i.name = true) : ∀ c ∈ i.text, c ≠ '\n' := by
  intro c hc
  simp only [Item.text, List.mem_append] at hc
  rcases hc with hc | hc
  · split at hc
    · simp only [List.mem_singleton] at hc; subst hc; decide
    · simp at hc
  · exact ident_solid hn c hc

theorem ss_item_text (i : Item) (rest : Str) (hn : isIdent i.name = true) : SS (i.text ++ rest) := by
  cases hneg : i.neg with
  | true => simpa [Item.text, hneg] using (headFails_cons isDropStart '!' (i.name ++ rest) (by decide))
  | false => simpa [Item.text, hneg] using ss_ident _ rest hn

theorem Item.dedent_text (i : Item) : i.dedent.text = i.text := rfl

theorem dd_item (i : Item) (rest : Str) (hi : i.ok = true) :
    dd .mid (i.str ++ rest) = i.dedent.str ++ dd .mid rest := by
  obtain ⟨hg, hn⟩ := (Item.ok_iff i).1 hi
  simp only [Item.str, List.append_assoc, Item.dedent_text]
  rw [dd_dedentGap _ _ hg (ss_item_text i rest hn), dd_mid_solid _ _ (item_text_solid i hn)]
  rfl

theorem dd_items (is : List Item) (rest : Str) (hok : ∀ i ∈ is, i.ok = true) :
    dd .mid ((is.map Item.str).flatten ++ rest) = ((is.map Item.dedent).map Item.str).flatten ++ dd .mid rest := by
  induction is with
  | nil => rfl
  | cons i is ih =>
    simp only [List.map_cons, List.flatten_cons, List.append_assoc]
    rw [dd_item i _ (hok i (by simp)), ih (fun j hj => hok j (by simp [hj]))]

theorem dd_bracket (o c : Char) (b : Bracket) (rest : Str) (hb : b.ok = true)
    (ho : isDropStart o = false) (hc : isDropStart c = false) :
    dd .mid (b.str o c ++ rest) = b.dedent.str o c ++ dd .mid rest := by
  obtain ⟨h1, h2, h4, _⟩ := (Bracket.ok_iff b).1 hb
  have ho' : o ≠ '\n' := by intro e; subst e; simp [isDropStart] at ho
  have hc' : c ≠ '\n' := by intro e; subst e; simp [isDropStart] at hc
  simp only [Bracket.str, Bracket.dedent, List.append_assoc, List.cons_append, List.nil_append]
  rw [dd_dedentGap _ _ h1 (headFails_cons _ _ _ ho), dd_mid_char o _ ho', dd_items _ _ h4,
    dd_dedentGap _ _ h2 (headFails_cons _ _ _ hc), dd_mid_char c _ hc']

theorem dd_profs (ps : List Bracket) (rest : Str) (h : ∀ p ∈ ps, p.ok = true) :
    dd .mid (profsStr ps ++ rest) = profsStr (ps.map Bracket.dedent) ++ dd .mid rest := by
  induction ps with
  | nil => rfl
  | cons p ps ih =>
    simp only [profsStr, List.map_cons, List.flatten_cons, List.append_assoc] at ih ⊢
    rw [dd_bracket '<' '>' p _ (h p (by simp)) (by decide) (by decide), ih (fun q hq => h q (by simp [hq]))]

theorem RelA.dedent_str_eq (r : RelA) :
    r.dedent.str = r.name ++ (aqStr r.archqual ++ (verStr (r.version.map VerPart.dedent)
      ++ (archStr (r.archs.map Bracket.dedent) ++ profsStr (r.profiles.map Bracket.dedent)))) := by
  rw [RelA.str_eq]; rfl

theorem dd_rel (r : RelA) (rest : Str) (hr : r.ok = true) :
    dd .mid (r.str ++ rest) = r.dedent.str ++ dd .mid rest := by
  obtain ⟨hn, haq, hv, ha, hp⟩ := (RelA.ok_iff r).1 hr
  rw [RelA.str_eq, RelA.dedent_str_eq]
  simp only [List.append_assoc]
  rw [dd_mid_solid _ _ (ident_solid hn)]
  congr 1
  have e1 : dd .mid (aqStr r.archqual ++ (verStr r.version ++ (archStr r.archs ++ (profsStr r.profiles ++ rest))))
      = aqStr r.archqual ++ dd .mid (verStr r.version ++ (archStr r.archs ++ (profsStr r.profiles ++ rest))) := by
    cases haq' : r.archqual with
    | none => rfl
    | some a =>
      simp only [aqStr, List.cons_append]
      rw [dd_mid_char ':' _ (by decide), dd_mid_solid _ _ (ident_solid (haq a haq'))]
  have e2 : dd .mid (verStr r.version ++ (archStr r.archs ++ (profsStr r.profiles ++ rest)))
      = verStr (r.version.map VerPart.dedent) ++ dd .mid (archStr r.archs ++ (profsStr r.profiles ++ rest)) := by
    cases hv' : r.version with
    | none => rfl
    | some v => simp only [verStr, Option.map_some]; exact dd_verPart v _ (hv v hv')
  have e3 : dd .mid (archStr r.archs ++ (profsStr r.profiles ++ rest))
      = archStr (r.archs.map Bracket.dedent) ++ dd .mid (profsStr r.profiles ++ rest) := by
    cases ha' : r.archs with
    | none => rfl
    | some a =>
      simp only [archStr, Option.map_some]
      exact dd_bracket '[' ']' a _ (ha a ha') (by decide) (by decide)
  rw [e1, e2, e3, dd_profs _ _ hp]

theorem ss_rel (r : RelA) (rest : Str) (hr : r.ok = true) : SS (r.str ++ rest) := by
  obtain ⟨hn, _⟩ := (RelA.ok_iff r).1 hr
  rw [RelA.str_eq]
  simp only [List.append_assoc]
  exact ss_ident _ _ hn

theorem dd_alt (a : AltA) (rest : Str) (ha : a.ok = true) :
    dd .mid (a.str ++ rest) = a.dedent.str ++ dd .mid rest := by
  obtain ⟨h1, h2, hr⟩ := (AltA.ok_iff a).1 ha
  simp only [AltA.str, AltA.dedent, List.append_assoc, List.cons_append]
  rw [dd_dedentGap _ _ h1 (headFails_cons _ _ _ (by decide)), dd_mid_char '|' _ (by decide),
    dd_dedentGap _ _ h2 (ss_rel _ _ hr), dd_rel _ _ hr]

theorem dd_alts (as : List AltA) (rest : Str) (h : ∀ a ∈ as, a.ok = true) :
    dd .mid ((as.map AltA.str).flatten ++ rest) = ((as.map AltA.dedent).map AltA.str).flatten ++ dd .mid rest := by
  induction as with
  | nil => rfl
  | cons a as ih =>
    simp only [List.map_cons, List.flatten_cons, List.append_assoc]
    rw [dd_alt a _ (h a (by simp)), ih (fun b hb => h b (by simp [hb]))]

theorem substvar_solid (p : Str) (ps : List Str) (hp : isIdent p = true) (hps : ∀ q ∈ ps, isIdent q = true) :
    ∀ c ∈ (EntryA.substvar p ps).str, c ≠ '\n' := by
  intro c hc
  simp only [EntryA.str, List.mem_cons, List.mem_append, List.mem_flatten, List.mem_map,
    List.mem_singleton] at hc
  rcases hc with rfl | rfl | (hc | ⟨l, ⟨q, hq, rfl⟩, hc⟩) | hc
  · decide
  · decide
  · exact ident_solid hp c hc
  · simp only [List.mem_cons] at hc
    rcases hc with rfl | hc
    · decide
    · exact ident_solid (hps q hq) c hc
  · simp only [List.not_mem_nil, or_false] at hc
    subst hc; decide

theorem EntryA.ok_alts (r : RelA) (rest : List AltA) (h : (EntryA.alts r rest).ok = true) :
    r.ok = true ∧ ∀ a ∈ rest, a.ok = true := by
  simpa [EntryA.ok, List.all_eq_true] using h

theorem EntryA.ok_substvar (p : Str) (ps : List Str) (h : (EntryA.substvar p ps).ok = true) :
    isIdent p = true ∧ ∀ q ∈ ps, isIdent q = true := by
  simpa [EntryA.ok, List.all_eq_true] using h

theorem dd_entry (e : EntryA) (rest : Str) (he : e.ok = true) :
    dd .mid (e.str ++ rest) = e.dedent.str ++ dd .mid rest := by
  cases e with
  | empty => rfl
  | substvar p ps =>
    obtain ⟨hp, hps⟩ := EntryA.ok_substvar p ps he
    exact dd_mid_solid _ _ (substvar_solid p ps hp hps)
  | alts r as =>
    obtain ⟨hr, has⟩ := EntryA.ok_alts r as he
    simp only [EntryA.str, EntryA.dedent, List.append_assoc]
    rw [dd_rel r _ hr, dd_alts as _ has]

/-- what follows the gap in front of a segment -/
theorem ss_entry (e : EntryA) (rest : Str) (he : e.ok = true) (hne : e.isEmpty = false) : SS (e.str ++ rest) := by
  cases e with
  | empty => simp [EntryA.isEmpty] at hne
  | substvar p ps => exact headFails_cons _ _ _ (by decide)
  | alts r as =>
    obtain ⟨hr, _⟩ := EntryA.ok_alts r as he
    simp only [EntryA.str, List.append_assoc]
    exact ss_rel _ _ hr

theorem dd_seg_body (s : Seg) (rest : Str) (hs : s.ok = true) (hr : SS rest) :
    dd .mid (s.entry.str ++ (gapStr s.post ++ rest))
      = s.entry.dedent.str ++ (gapStr (dedentGap s.post) ++ dd .mid rest) := by
  obtain ⟨_, h2, h3, _⟩ := (Seg.ok_iff s).1 hs
  rw [dd_entry _ _ h3, dd_dedentGap _ _ h2 hr]

/-- the text behind the gap in front of a segment starts with a kept character (or is empty) -/
theorem ss_seg_body (s : Seg) (rest : Str) (hs : s.ok = true) (hr : SS rest) :
    SS (s.entry.str ++ (gapStr s.post ++ rest)) := by
  obtain ⟨_, _, h3, h4⟩ := (Seg.ok_iff s).1 hs
  cases hemp : s.entry.isEmpty with
  | false => exact ss_entry _ _ h3 hemp
  | true =>
    have hpost : s.post = [] := h4 hemp
    have he : s.entry = .empty := by cases h : s.entry <;> simp [h, EntryA.isEmpty] at hemp; rfl
    simpa [he, hpost, EntryA.str, gapStr] using hr

theorem Seg.dedentWith_str (φ : Gap → Gap) (s : Seg) :
    (s.dedentWith φ).str = gapStr (φ s.pre) ++ (s.entry.dedent.str ++ gapStr (dedentGap s.post)) := by
  simp [Seg.dedentWith, Seg.str]

theorem dd_seg (s : Seg) (rest : Str) (hs : s.ok = true) (hr : SS rest) :
    dd .mid (s.str ++ rest) = (s.dedentWith dedentGap).str ++ dd .mid rest := by
  obtain ⟨h1, _, _, _⟩ := (Seg.ok_iff s).1 hs
  rw [Seg.dedentWith_str]
  simp only [Seg.str, List.append_assoc]
  rw [dd_dedentGap _ _ h1 (ss_seg_body s rest hs hr), dd_seg_body s rest hs hr]

theorem dd_lead_seg (s : Seg) (rest : Str) (hs : s.ok = true) (hr : SS rest) :
    dd .lead (s.str ++ rest) = (s.dedentWith leadGap).str ++ dd .mid rest := by
  obtain ⟨h1, _, _, _⟩ := (Seg.ok_iff s).1 hs
  rw [Seg.dedentWith_str]
  simp only [Seg.str, List.append_assoc]
  rw [dd_leadGap _ _ h1 (ss_seg_body s rest hs hr), dd_seg_body s rest hs hr]

theorem join_comma_cons (x : Str) (y : Str) (ys : List Str) :
    Text.join [','] (x :: y :: ys) = x ++ ',' :: Text.join [','] (y :: ys) := by
  simp [Text.join]

theorem dd_segs (ss : List Seg) (h : ∀ s ∈ ss, s.ok = true) :
    dd .mid (Text.join [','] (ss.map Seg.str))
      = Text.join [','] ((ss.map (Seg.dedentWith dedentGap)).map Seg.str) := by
  induction ss with
  | nil => rfl
  | cons s ss ih =>
    cases ss with
    | nil =>
      have := dd_seg s [] (h s (by simp)) (headFails_nil _)
      simpa [Text.join, dd] using this
    | cons t ts =>
      have ih := ih (fun x hx => h x (by simp [hx]))
      simp only [List.map_cons, join_comma_cons] at ih ⊢
      rw [dd_seg s _ (h s (by simp)) (headFails_cons _ _ _ (by decide)), dd_mid_char ',' _ (by decide), ih]

/-- **the removal on the text of a well-formed field is the text of its `docForm`** -/
theorem dedentStr_field (f : FieldA) (h : f.WF) : dedentStr f.str = f.docForm.str := by
  have hok : ∀ s ∈ f.segs, s.ok = true := by
    simpa [FieldA.WF, FieldA.ok, List.all_eq_true] using h
  unfold dedentStr FieldA.str FieldA.docForm
  cases hsegs : f.segs with
  | nil => rfl
  | cons s ss =>
    rw [hsegs] at hok
    cases ss with
    | nil =>
      have := dd_lead_seg s [] (hok s (by simp)) (headFails_nil _)
      simpa [Text.join, dd, FieldA.str] using this
    | cons t ts =>
      have h2 := dd_segs (t :: ts) (fun x hx => hok x (by simp [hx]))
      simp only [List.map_cons, join_comma_cons, FieldA.str] at h2 ⊢
      rw [dd_lead_seg s _ (hok s (by simp)) (headFails_cons _ _ _ (by decide)), dd_mid_char ',' _ (by decide), h2]

/-! ### the result is a well-formed field … -/

theorem VerPart.dedent_ok (p : VerPart) (h : p.ok = true) : p.dedent.ok = true := by
  obtain ⟨h1, h2, h3, h4, hv⟩ := (VerPart.ok_iff p).1 h
  exact (VerPart.ok_iff _).2 ⟨gapOk_dedentGap _ h1, gapOk_dedentGap _ h2, gapOk_dedentGap _ h3,
    gapOk_dedentGap _ h4, hv⟩

theorem Item.dedent_ok (i : Item) (h : i.ok = true) : i.dedent.ok = true := by
  obtain ⟨hg, hn⟩ := (Item.ok_iff i).1 h
  exact (Item.ok_iff _).2 ⟨gapOk_dedentGap _ hg, hn⟩

theorem laterGapsOk_dedent (is : List Item) (h : laterGapsOk is = true) :
    laterGapsOk (is.map Item.dedent) = true := by
  cases is with
  | nil => rfl
  | cons i is =>
    simp only [laterGapsOk, List.map_cons, List.all_map, List.all_eq_true] at h ⊢
    intro j hj
    have := h j hj
    simpa [Item.dedent, isEmpty_dedentGap] using this

theorem Bracket.dedent_ok (b : Bracket) (h : b.ok = true) : b.dedent.ok = true := by
  obtain ⟨h1, h2, h3, h4⟩ := (Bracket.ok_iff b).1 h
  refine (Bracket.ok_iff _).2 ⟨gapOk_dedentGap _ h1, gapOk_dedentGap _ h2, ?_, laterGapsOk_dedent _ h4⟩
  intro i hi
  simp only [Bracket.dedent, List.mem_map] at hi
  obtain ⟨j, hj, rfl⟩ := hi
  exact Item.dedent_ok j (h3 j hj)

theorem RelA.dedent_ok (r : RelA) (h : r.ok = true) : r.dedent.ok = true := by
  obtain ⟨hn, haq, hv, ha, hp⟩ := (RelA.ok_iff r).1 h
  refine (RelA.ok_iff _).2 ⟨hn, haq, ?_, ?_, ?_⟩
  · intro v hv'
    simp only [RelA.dedent, Option.map_eq_some_iff] at hv'
    obtain ⟨w, hw, rfl⟩ := hv'
    exact VerPart.dedent_ok w (hv w hw)
  · intro a ha'
    simp only [RelA.dedent, Option.map_eq_some_iff] at ha'
    obtain ⟨w, hw, rfl⟩ := ha'
    exact Bracket.dedent_ok w (ha w hw)
  · intro p hp'
    simp only [RelA.dedent, List.mem_map] at hp'
    obtain ⟨w, hw, rfl⟩ := hp'
    exact Bracket.dedent_ok w (hp w hw)

theorem AltA.dedent_ok (a : AltA) (h : a.ok = true) : a.dedent.ok = true := by
  obtain ⟨h1, h2, hr⟩ := (AltA.ok_iff a).1 h
  exact (AltA.ok_iff _).2 ⟨gapOk_dedentGap _ h1, gapOk_dedentGap _ h2, RelA.dedent_ok _ hr⟩

theorem EntryA.dedent_ok (e : EntryA) (h : e.ok = true) : e.dedent.ok = true := by
  cases e with
  | empty => rfl
  | substvar p ps => exact h
  | alts r as =>
    obtain ⟨hr, has⟩ := EntryA.ok_alts r as h
    simp only [EntryA.dedent, EntryA.ok, Bool.and_eq_true, List.all_eq_true]
    refine ⟨RelA.dedent_ok r hr, ?_⟩
    intro a ha
    simp only [List.mem_map] at ha
    obtain ⟨b, hb, rfl⟩ := ha
    exact AltA.dedent_ok b (has b hb)

theorem EntryA.dedent_isEmpty (e : EntryA) : e.dedent.isEmpty = e.isEmpty := by cases e <;> rfl

theorem Seg.dedentWith_ok (φ : Gap → Gap) (hφ : ∀ g, gapOk g = true → gapOk (φ g) = true)
    (s : Seg) (h : s.ok = true) : (s.dedentWith φ).ok = true := by
  obtain ⟨h1, h2, h3, h4⟩ := (Seg.ok_iff s).1 h
  refine (Seg.ok_iff _).2 ⟨hφ _ h1, gapOk_dedentGap _ h2, EntryA.dedent_ok _ h3, ?_⟩
  intro he
  simp only [Seg.dedentWith, EntryA.dedent_isEmpty] at he ⊢
  rw [h4 he]; rfl

theorem docForm_wf (f : FieldA) (h : f.WF) : f.docForm.WF := by
  have hok : ∀ s ∈ f.segs, s.ok = true := by
    simpa [FieldA.WF, FieldA.ok, List.all_eq_true] using h
  unfold FieldA.docForm
  cases hsegs : f.segs with
  | nil => simp [FieldA.WF, FieldA.ok]
  | cons s ss =>
    rw [hsegs] at hok
    simp only [FieldA.WF, FieldA.ok, List.all_cons, Bool.and_eq_true, List.all_map, List.all_eq_true]
    refine ⟨Seg.dedentWith_ok _ gapOk_leadGap s (hok s (by simp)), ?_⟩
    intro t ht
    exact Seg.dedentWith_ok _ gapOk_dedentGap t (hok t (by simp [ht]))

/-! ### … with the same content -/

theorem Item.dedent_profile (i : Item) : i.dedent.profile = i.profile := rfl

theorem RelA.dedent_view (r : RelA) : r.dedent.view = r.view := by
  cases r with
  | mk name aq ver archs profs =>
    simp only [RelA.view, RelA.dedent, Lossy.Relation.mk.injEq, true_and]
    refine ⟨?_, ?_, ?_⟩
    · cases archs with
      | none => rfl
      | some a => simp [Bracket.dedent, Item.dedent_text]
    · cases ver with
      | none => rfl
      | some v => rfl
    · simp [Bracket.dedent, Item.dedent_profile]

theorem EntryA.dedent_view (e : EntryA) : e.dedent.view = e.view := by
  cases e with
  | empty => rfl
  | substvar p ps => rfl
  | alts r as => simp [EntryA.dedent, EntryA.view, RelA.dedent_view, AltA.dedent]

theorem EntryA.dedent_substText (e : EntryA) : e.dedent.substText = e.substText := by cases e <;> rfl
theorem EntryA.dedent_isSubstvar (e : EntryA) : e.dedent.isSubstvar = e.isSubstvar := by cases e <;> rfl

theorem docForm_segs (f : FieldA) :
    f.docForm.segs.map (·.entry) = f.segs.map fun s => s.entry.dedent := by
  unfold FieldA.docForm
  cases f.segs with
  | nil => rfl
  | cons s ss => simp [Seg.dedentWith]

theorem filterMap_entry {β} (φ : EntryA → Option β) (ss : List Seg) :
    ss.filterMap (fun s => φ s.entry) = (ss.map (·.entry)).filterMap φ := by
  rw [List.filterMap_map]; rfl

theorem docForm_view (f : FieldA) : f.docForm.view = f.view := by
  simp only [FieldA.view]
  rw [filterMap_entry EntryA.view, filterMap_entry EntryA.view, docForm_segs]
  simp only [List.filterMap_map]
  congr 1
  funext s
  exact EntryA.dedent_view s.entry

theorem docForm_substvars (f : FieldA) : f.docForm.substvars = f.substvars := by
  simp only [FieldA.substvars]
  rw [filterMap_entry EntryA.substText, filterMap_entry EntryA.substText, docForm_segs]
  simp only [List.filterMap_map]
  congr 1
  funext s
  exact EntryA.dedent_substText s.entry

theorem docForm_hasSubstvar (f : FieldA) : f.docForm.hasSubstvar = f.hasSubstvar := by
  have e : ∀ ss : List Seg, (ss.any fun s => s.entry.isSubstvar) = (ss.map (·.entry)).any EntryA.isSubstvar := by
    intro ss; rw [List.any_map]; rfl
  simp only [FieldA.hasSubstvar]
  rw [e, e, docForm_segs]
  simp only [List.any_map]
  congr 1
  funext s
  exact EntryA.dedent_isSubstvar s.entry

/-! ### the deb822 side: the value of a field is the removal applied to its text -/

open Spec in
/-- the text of a field between its colon and the end of its last line -/
def rawValue (e : EntryS) : Str :=
  e.ws ++ e.v ++ (e.conts.map fun c => '\n' :: (c.indent ++ c.text)).flatten

theorem dd_lead_indent (ws r : Str) (h : Spec.AllIndent ws) : dd .lead (ws ++ r) = dd .lead r := by
  induction ws with
  | nil => rfl
  | cons c cs ih =>
    have hc : Deb.isIndent c = true := h c (by simp)
    have hn : c ≠ '\n' := by intro e; subst e; revert hc; decide
    simp only [List.cons_append, dd, hn, ↓reduceIte, hc]
    exact ih (fun d hd => h d (by simp [hd]))

theorem dd_nl_indent (ws r : Str) (h : Spec.AllIndent ws) : dd .nl (ws ++ r) = dd .nl r := by
  induction ws with
  | nil => rfl
  | cons c cs ih =>
    have hc : Deb.isIndent c = true := h c (by simp)
    have hn : c ≠ '\n' := by intro e; subst e; revert hc; decide
    simp only [List.cons_append, dd, hn, ↓reduceIte, hc]
    exact ih (fun d hd => h d (by simp [hd]))

theorem noNl_solid {x : Str} (h : Spec.NoNl x) : ∀ c ∈ x, c ≠ '\n' := by
  intro c hc e
  subst e
  exact absurd (h _ hc) (by decide)

/-- a line text that starts with a kept character: it is kept as it is, from any state -/
theorem dd_line (σ : DSt) (c : Char) (cs r : Str) (hi : Deb.isIndent c = false) (hn : Spec.NoNl (c :: cs)) :
    dd σ (c :: cs ++ r) = c :: cs ++ dd .mid r := by
  have hc : c ≠ '\n' := noNl_solid hn c (by simp)
  have hcs : ∀ d ∈ cs, d ≠ '\n' := fun d hd => noNl_solid hn d (by simp [hd])
  cases σ <;> simp [dd, hc, hi, dd_mid_solid cs r hcs]

open Spec in
theorem dd_conts (cs : List ContS) (h : ∀ c ∈ cs, c.WF) :
    dd .mid ((cs.map fun c => '\n' :: (c.indent ++ c.text)).flatten)
      = (cs.map fun c => '\n' :: c.text).flatten := by
  induction cs with
  | nil => rfl
  | cons c cs ih =>
    obtain ⟨_, h2, ⟨h3, a, as, hta, hai, _⟩⟩ := h c (by simp)
    have ih := ih (fun d hd => h d (by simp [hd]))
    simp only [List.map_cons, List.flatten_cons, List.cons_append, List.append_assoc]
    rw [dd_mid_char_nl, dd_nl_indent _ _ h2, hta]
    rw [hta] at h3
    rw [dd_line .nl a as _ hai h3, ih]
where
  dd_mid_char_nl (r : Str) : dd .mid ('\n' :: r) = '\n' :: dd .nl r := by simp [dd]

theorem join_nl_cons (x : Str) (xs : List Str) :
    Text.join ['\n'] (x :: xs) = x ++ (xs.map fun t => '\n' :: t).flatten := by
  induction xs generalizing x with
  | nil => simp [Text.join]
  | cons y ys ih => simp [Text.join, ih y]

open Spec in
/-- **the value of a well-formed deb822 field is the removal applied to its text** -/
theorem dd_rawValue (e : EntryS) (h : e.WF) : dedentStr (rawValue e) = Text.join ['\n'] e.valueLines := by
  obtain ⟨_, hws, hv, hc⟩ := h
  unfold dedentStr rawValue EntryS.valueLines
  rw [List.append_assoc, dd_lead_indent _ _ hws]
  cases hev : e.v with
  | cons a as =>
    rw [hev] at hv
    have hai : Deb.isIndent a = false := hv.2 a rfl
    rw [dd_line .lead a as _ hai hv.1, dd_conts _ hc]
    simp only [List.cons_ne_nil, ↓reduceIte, List.singleton_append, List.map_map]
    rw [join_nl_cons]; simp [Function.comp_def]
  | nil =>
    simp only [List.nil_append, ↓reduceIte]
    cases hcs : e.conts with
    | nil => rfl
    | cons c cs =>
      rw [hcs] at hc
      obtain ⟨_, h2, ⟨h3, a, as, hta, hai, _⟩⟩ := hc c (by simp)
      simp only [List.map_cons, List.flatten_cons, List.cons_append, List.append_assoc]
      have e1 : dd .lead ('\n' :: (c.indent ++ (c.text ++ (cs.map fun c => '\n' :: (c.indent ++ c.text)).flatten)))
          = dd .lead (c.indent ++ (c.text ++ (cs.map fun c => '\n' :: (c.indent ++ c.text)).flatten)) := by
        simp [dd]
      rw [e1, dd_lead_indent _ _ h2, hta]
      rw [hta] at h3
      rw [dd_line .lead a as _ hai h3, dd_conts _ (fun d hd => hc d (by simp [hd])), join_nl_cons]
      simp [Function.comp_def]

/-! ### `rawValue` is the text that stands in the document -/

/-- is the last line of the field LF-terminated -/
def lastNl : Bool → List Spec.ContS → Bool
  | b, [] => b
  | _, c :: cs => lastNl c.nl cs

open Spec in
theorem conts_str_raw (b : Bool) (cs : List ContS) (more : Bool) (hb : b = true ∨ cs = [])
    (ht : contsTerm cs more) :
    nlText b ++ (cs.map ContS.str).flatten
      = (cs.map fun c => '\n' :: (c.indent ++ c.text)).flatten ++ nlText (lastNl b cs) := by
  induction cs generalizing b with
  | nil => simp [lastNl]
  | cons c cs ih =>
    have hb' : b = true := by rcases hb with h | h; exact h; cases h
    obtain ⟨h1, h2⟩ := ht
    have := ih c.nl (by rcases h1 with h | h; exact Or.inl h; exact Or.inr h.1) h2
    subst hb'
    have e1 : nlText true = ['\n'] := rfl
    simp only [e1, List.map_cons, List.flatten_cons, ContS.str, List.append_assoc,
      List.cons_append, List.nil_append, lastNl]
    rw [this]

open Spec in
/-- in a document (every line but possibly the very last one LF-terminated, `EntryS.Term`) a field
    is written `key` `:` `rawValue` and the terminator of its last line -/
theorem EntryS.str_rawValue (e : EntryS) (more : Bool) (ht : e.Term more) :
    e.str = e.key ++ ':' :: (rawValue e ++ nlText (lastNl e.nl e.conts)) := by
  obtain ⟨h1, h2⟩ := ht
  have := conts_str_raw e.nl e.conts more (by rcases h1 with h | h; exact Or.inl h; exact Or.inr h.1) h2
  simp only [EntryS.str, rawValue, List.append_assoc, List.cons_append]
  rw [this]

/-! ### non-vacuity -/

/-- ` a (>= 1),\n\tb [x\n  !y] |\n c,\n ${v:W}` — gaps with newlines before an entry, inside a
    bracket and after `|` -/
def exDedent : FieldA :=
  ⟨[ ⟨[.ws [' ']], .alts ⟨['a'], none,
        some ⟨[.ws [' ']], [], .GreaterThanEqual, [.ws [' ']], ⟨none, ['1']⟩, []⟩, none, []⟩ [], []⟩,
     ⟨[.nl, .ws ['\t']], .alts ⟨['b'], none, none,
        some ⟨[.ws [' ']], [⟨[], false, ['x']⟩, ⟨[.nl, .ws [' ', ' ']], true, ['y']⟩], []⟩, []⟩
        [⟨[.ws [' ']], [.nl, .ws [' ']], ⟨['c'], none, none, none, []⟩⟩], []⟩,
     ⟨[.nl, .ws [' ']], .substvar ['v'] [['W']], []⟩ ]⟩

example : exDedent.WF := by decide +kernel
example : exDedent.str = " a (>= 1),\n\tb [x\n  !y] |\n c,\n ${v:W}".toList := by decide +kernel
example : dedentStr exDedent.str = "a (>= 1),\nb [x\n!y] |\nc,\n${v:W}".toList := by decide +kernel
example : exDedent.docForm.str = "a (>= 1),\nb [x\n!y] |\nc,\n${v:W}".toList := by decide +kernel

/-- a field whose first line is empty -/
def exEntry : Spec.EntryS :=
  { key := ['D'], ws := [' '], v := [], nl := true,
    conts := [⟨[' '], "a (>= 1),".toList, true⟩, ⟨['\t'], "b".toList, false⟩] }

example : exEntry.WF ∧ exEntry.Term false := by constructor <;> decide
example : rawValue exEntry = " \n a (>= 1),\n\tb".toList ∧ exEntry.str = "D: \n a (>= 1),\n\tb".toList := by decide
example : dedentStr (rawValue exEntry) = "a (>= 1),\nb".toList := by decide

end Deb822Verif.RelSpec
