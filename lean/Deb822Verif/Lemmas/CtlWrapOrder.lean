import Deb822Verif.Model.CtlWrap
import Deb822Verif.Lemmas.DebWrapDoc
/-!
  `ctlParaLe` — the paragraph order of `Control::wrap_and_sort` — is a total preorder.
-/
namespace Deb822Verif.Ctl
open Deb822Verif Deb

theorem strLe_refl : ∀ a : Str, strLe a a = true
  | [] => rfl
  | a :: as => by simp [strLe, strLe_refl as]

theorem strLe_total : ∀ a b : Str, (strLe a b || strLe b a) = true
  | [], _ => by simp [strLe]
  | _ :: _, [] => by simp [strLe]
  | a :: as, b :: bs => by
    simp only [strLe]
    by_cases h1 : a.toNat < b.toNat
    · simp [h1]
    · by_cases h2 : a.toNat > b.toNat
      · have : b.toNat < a.toNat := h2
        simp [this]
      · have h3 : ¬ b.toNat < a.toNat := h2
        have h4 : ¬ b.toNat > a.toNat := h1
        simp only [h1, h2, h3, h4, ↓reduceIte]
        exact strLe_total as bs

theorem strLe_trans : ∀ a b c : Str, strLe a b = true → strLe b c = true → strLe a c = true
  | [], _, _, _, _ => by simp [strLe]
  | _ :: _, [], _, h, _ => by simp [strLe] at h
  | _ :: _, _ :: _, [], _, h => by simp [strLe] at h
  | a :: as, b :: bs, c :: cs, h1, h2 => by
    simp only [strLe] at h1 h2 ⊢
    by_cases hab : a.toNat < b.toNat
    · by_cases hbc : b.toNat < c.toNat
      · have : a.toNat < c.toNat := Nat.lt_trans hab hbc
        simp [this]
      · by_cases hcb : b.toNat > c.toNat
        · simp [hbc, hcb] at h2
        · have : b.toNat = c.toNat := by omega
          have : a.toNat < c.toNat := by omega
          simp [this]
    · by_cases hba : a.toNat > b.toNat
      · simp [hab, hba] at h1
      · simp only [hab, hba, ↓reduceIte] at h1
        have hab' : a.toNat = b.toNat := by omega
        by_cases hbc : b.toNat < c.toNat
        · have : a.toNat < c.toNat := by omega
          simp [this]
        · by_cases hcb : b.toNat > c.toNat
          · simp [hbc, hcb] at h2
          · simp only [hbc, hcb, ↓reduceIte] at h2
            have h5 : ¬ a.toNat < c.toNat := by omega
            have h6 : ¬ a.toNat > c.toNat := by omega
            simp only [h5, h6, ↓reduceIte]
            exact strLe_trans as bs cs h1 h2

theorem optLe_total (a b : Option Str) : (optLe a b || optLe b a) = true := by
  cases a <;> cases b <;> simp [optLe, strLe_total]

theorem optLe_trans (a b c : Option Str) (h1 : optLe a b = true) (h2 : optLe b c = true) : optLe a c = true := by
  cases a <;> cases b <;> cases c <;> simp_all [optLe]
  exact strLe_trans _ _ _ h1 h2

/-- the sort key of a paragraph: its `Source` and `Package` values -/
def ctlKey (p : DNode) : Option Str × Option Str := (Deb.get p kSource, Deb.get p kPackage)

/-- the order on keys: paragraphs with a `Source` first, by that name; the others by `Package`
    (a missing `Package` first) -/
def keyLe : Option Str × Option Str → Option Str × Option Str → Bool
  | (some x, _), (some y, _) => strLe x y
  | (some _, _), (none, _) => true
  | (none, _), (some _, _) => false
  | (none, p), (none, q) => optLe p q

theorem ctlParaLe_key (a b : DNode) : ctlParaLe a b = keyLe (ctlKey a) (ctlKey b) := by
  unfold ctlParaLe ctlKey
  cases Deb.get a kSource <;> cases Deb.get b kSource <;> rfl

theorem keyLe_total (a b : Option Str × Option Str) : (keyLe a b || keyLe b a) = true := by
  obtain ⟨a1, a2⟩ := a
  obtain ⟨b1, b2⟩ := b
  cases a1 <;> cases b1 <;> simp [keyLe, strLe_total, optLe_total]

theorem keyLe_trans (a b c : Option Str × Option Str) (h1 : keyLe a b = true) (h2 : keyLe b c = true) :
    keyLe a c = true := by
  obtain ⟨a1, a2⟩ := a
  obtain ⟨b1, b2⟩ := b
  obtain ⟨c1, c2⟩ := c
  cases a1 <;> cases b1 <;> cases c1 <;> simp_all [keyLe]
  · exact optLe_trans _ _ _ h1 h2
  · exact strLe_trans _ _ _ h1 h2

/-- **`Control::wrap_and_sort`'s paragraph order is a total preorder** -/
theorem ctlParaLe_pre : TotalPreorder ctlParaLe := by
  refine ⟨?_, ?_⟩
  · intro a b c h1 h2
    rw [ctlParaLe_key] at h1 h2 ⊢
    exact keyLe_trans _ _ _ h1 h2
  · intro a b
    rw [ctlParaLe_key, ctlParaLe_key]
    exact keyLe_total _ _

theorem ctlParaLe_ok : OrderOK (some ctlParaLe) := by
  intro f hf
  simp only [Option.some.injEq] at hf
  subst hf
  exact ctlParaLe_pre

end Deb822Verif.Ctl
