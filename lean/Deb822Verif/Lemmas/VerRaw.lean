import Deb822Verif.Model.DebVersionRaw
import Deb822Verif.Lemmas.VerChunks
/-!
  The byte-index twin `cmpPartB` / `compareB` (Model/DebVersionRaw.lean) against `cmpPartO` /
  `compareO` (Model/DebVersion.lean): equal on ASCII strings — in particular on every value
  `Version::from_str` returns (`validV`) — because there a character index is a byte offset.
-/
namespace Deb822Verif.DebVersion
open Deb822Verif.Rel (Version isAsciiDigit digitsVal isUpstreamChar isRevChar isAsciiAlnum)

/-- all characters are ASCII (one byte each in UTF-8) -/
def asciiS (s : Str) : Prop := ∀ c ∈ s, c.toNat < 128

theorem utf8Size_ascii {c : Char} (h : c.toNat < 128) : c.utf8Size = 1 := by
  have h' : c.val.toNat < 128 := h
  unfold Char.utf8Size
  have : c.val ≤ 127 := by
    rw [UInt32.le_iff_toNat_le]
    have : (127 : UInt32).toNat = 127 := rfl
    omega
  simp [this]

theorem asciiS_cons {c : Char} {cs : Str} (h : asciiS (c :: cs)) : c.toNat < 128 ∧ asciiS cs :=
  ⟨h c (by simp), fun x hx => h x (by simp [hx])⟩

/-- on ASCII text the byte offset "length of the run" cuts off exactly the run -/
theorem splitBytes_takeWhile (q : Char → Bool) (s : Str) (hs : asciiS s) :
    splitBytes (s.takeWhile q).length s = some (s.takeWhile q, s.dropWhile q) := by
  induction s with
  | nil => simp [splitBytes]
  | cons c cs ih =>
    obtain ⟨hc, hcs⟩ := asciiS_cons hs
    by_cases hq : q c = true
    · rw [List.takeWhile_cons_of_pos hq, List.dropWhile_cons_of_pos hq]
      simp only [splitBytes, List.length_cons, utf8Size_ascii hc]
      rw [if_neg (by omega), if_pos (by omega)]
      have : (cs.takeWhile q).length + 1 - 1 = (cs.takeWhile q).length := by omega
      rw [this, ih hcs]
      rfl
    · rw [List.takeWhile_cons_of_neg hq, List.dropWhile_cons_of_neg hq]
      simp [splitBytes]

theorem utf8Len_ascii (s : Str) (hs : asciiS s) : Text.utf8Len s = s.length := by
  induction s with
  | nil => rfl
  | cons c cs ih =>
    obtain ⟨hc, hcs⟩ := asciiS_cons hs
    simp only [Text.utf8Len, List.map_cons, List.sum_cons, List.length_cons, utf8Size_ascii hc] at ih ⊢
    rw [ih hcs]; omega

/-- on ASCII text `chars().position(p).unwrap_or(len())` is the length of the run before the first `p` -/
theorem posOrLen_ascii (p : Char → Bool) (s : Str) (hs : asciiS s) :
    posOrLen p s = (s.takeWhile fun c => !p c).length := by
  induction s with
  | nil => rfl
  | cons c cs ih =>
    obtain ⟨hc, hcs⟩ := asciiS_cons hs
    have ih' := ih hcs
    unfold posOrLen at ih' ⊢
    by_cases hp : p c = true
    · simp [List.findIdx?_cons, hp]
    · have hp' : p c = false := by simpa using hp
      simp only [List.findIdx?_cons, hp', Bool.false_eq_true, if_false, Bool.not_false,
        List.takeWhile_cons_of_pos, List.length_cons]
      cases hf : List.findIdx? p cs with
      | none =>
        rw [hf] at ih'
        simp only [Option.map_none]
        rw [utf8Len_ascii _ hs, ← ih', utf8Len_ascii _ hcs]
        simp
      | some i =>
        rw [hf] at ih'
        simp only [Option.map_some]
        simp only at ih'
        omega

theorem cutB_ascii (p : Char → Bool) (s : Str) (hs : asciiS s) :
    cutB p s = some (s.takeWhile (fun c => !p c), s.dropWhile (fun c => !p c)) := by
  unfold cutB
  rw [posOrLen_ascii p s hs]
  exact splitBytes_takeWhile _ s hs

theorem asciiS_dropWhile {q : Char → Bool} {s : Str} (hs : asciiS s) : asciiS (s.dropWhile q) :=
  fun c hc => hs c ((List.dropWhile_sublist q).subset hc)

theorem not_nonDig : (fun c => !(fun c => !isAsciiDigit c) c) = isAsciiDigit := by
  funext c; simp

theorem ndRun_any (s : Str) : (ndRun s).any isAsciiDigit = false := by
  rw [List.any_eq_false]
  intro c hc
  simp [ndRun_all s c hc]

/-- **on ASCII strings the byte-index twin is `cmpPartO`** -/
theorem cmpPartB_ascii (a b : Str) (ha : asciiS a) (hb : asciiS b) : cmpPartB a b = cmpPartO a b := by
  generalize hn : a.length + b.length = n
  induction n using Nat.strongRecOn generalizing a b with
  | _ n ih =>
    rw [cmpPartB]
    split
    · rename_i he
      obtain ⟨rfl, rfl⟩ := he
      exact cmpPartO_nil.symm
    · rename_i hne
      rw [cmpPartO_unfold a b hne]
      have ca := cutB_ascii isAsciiDigit a ha
      have cb := cutB_ascii isAsciiDigit b hb
      have hra : asciiS (ndRest a) := asciiS_dropWhile ha
      have hrb : asciiS (ndRest b) := asciiS_dropWhile hb
      have ca2 := cutB_ascii (fun c => !isAsciiDigit c) (ndRest a) hra
      have cb2 := cutB_ascii (fun c => !isAsciiDigit c) (ndRest b) hrb
      rw [not_nonDig] at ca2 cb2
      have hlt : (dgRest a).length + (dgRest b).length < n := by
        subst hn
        have la := dgRest_length_le a
        have lb := dgRest_length_le b
        by_cases h : a = []
        · have hb' : b ≠ [] := fun e => hne ⟨h, e⟩
          have := dgRest_length_lt hb'
          omega
        · have := dgRest_length_lt h
          omega
      have hrec := ih _ hlt (dgRest a) (dgRest b) (asciiS_dropWhile hra) (asciiS_dropWhile hrb) rfl
      split
      · rename_i h; rw [ca] at h; cases h
      · rename_i pa h
        rw [ca] at h
        simp only [Option.some.injEq] at h
        subst h
        split
        · rename_i h; rw [cb] at h; cases h
        · rename_i pb h
          rw [cb] at h
          simp only [Option.some.injEq] at h
          subst h
          have e1 : (List.takeWhile (fun c => !isAsciiDigit c) a) = ndRun a := rfl
          have e2 : (List.takeWhile (fun c => !isAsciiDigit c) b) = ndRun b := rfl
          have e3 : (List.dropWhile (fun c => !isAsciiDigit c) a) = ndRest a := rfl
          have e4 : (List.dropWhile (fun c => !isAsciiDigit c) b) = ndRest b := rfl
          simp only [e1, e2, e3, e4, ndRun_any, Bool.or_self, Bool.false_eq_true, if_false]
          simp only [chunkCmpO, hdChunk]
          cases hnd : nonDigitCmp (ndRun a) (ndRun b) with
          | lt => rfl
          | gt => rfl
          | eq =>
            simp only
            split
            · rename_i h; rw [e3, ca2] at h; cases h
            · rename_i qa h
              rw [e3, ca2] at h
              simp only [Option.some.injEq] at h
              subst h
              split
              · rename_i h; rw [e4, cb2] at h; cases h
              · rename_i qb h
                rw [e4, cb2] at h
                simp only [Option.some.injEq] at h
                subst h
                have f1 : List.takeWhile isAsciiDigit (ndRest a) = dgRun a := rfl
                have f2 : List.takeWhile isAsciiDigit (ndRest b) = dgRun b := rfl
                have f3 : List.dropWhile isAsciiDigit (ndRest a) = dgRest a := rfl
                have f4 : List.dropWhile isAsciiDigit (ndRest b) = dgRest b := rfl
                simp only [f1, f2, f3, f4]
                cases parseI32 (dgRun a) with
                | panic s => rfl
                | ok x =>
                  cases parseI32 (dgRun b) with
                  | panic s => rfl
                  | ok y =>
                    simp only
                    cases natCmp x y with
                    | lt => rfl
                    | gt => rfl
                    | eq => simp only; exact hrec

/-! ### the values `Version::from_str` returns -/

/-- version characters only: upstream part over `[A-Za-z0-9.+:~-]`, revision over `[A-Za-z0-9+.~]`
    (the classes of the `Version::from_str` regex) -/
def validV (v : Version) : Bool :=
  v.upstream.all isUpstreamChar && v.revision.all (·.all isRevChar)

theorem revChar_ascii {c : Char} (h : isRevChar c = true) : c.toNat < 128 := by
  simp only [isRevChar, isAsciiAlnum, Bool.or_eq_true, Bool.and_eq_true, decide_eq_true_eq, beq_iff_eq] at h
  rcases h with ((h | rfl) | rfl) | rfl
  · omega
  · decide
  · decide
  · decide

theorem upstreamChar_ascii {c : Char} (h : isUpstreamChar c = true) : c.toNat < 128 := by
  simp only [isUpstreamChar, Bool.or_eq_true, beq_iff_eq] at h
  rcases h with (h | rfl) | rfl
  · exact revChar_ascii h
  · decide
  · decide

theorem validV_upstream {v : Version} (h : validV v = true) : asciiS v.upstream := by
  simp only [validV, Bool.and_eq_true, List.all_eq_true] at h
  exact fun c hc => upstreamChar_ascii (h.1 c hc)

theorem validV_rev {v : Version} (h : validV v = true) : asciiS (revOf v) := by
  simp only [validV, Bool.and_eq_true] at h
  unfold revOf
  cases hr : v.revision with
  | none => intro c hc; simp at hc; subst hc; decide
  | some r =>
    have := h.2
    rw [hr] at this
    simp only [Option.all_some, List.all_eq_true] at this
    exact fun c hc => revChar_ascii (this c hc)

/-- **on version characters the byte-index twin of `Version::cmp` is `compareO`** -/
theorem compareB_valid (v w : Version) (hv : validV v = true) (hw : validV w = true) :
    compareB v w = compareO v w := by
  unfold compareB compareO
  rw [cmpPartB_ascii _ _ (validV_upstream hv) (validV_upstream hw),
    cmpPartB_ascii _ _ (validV_rev hv) (validV_rev hw)]
  split
  · rfl
  · cases cmpPartO v.upstream w.upstream with
    | panic s => rfl
    | ok o => cases o <;> rfl

theorem matchUpstreamRev_valid {s u : Str} {r : Option Str} (h : Rel.matchUpstreamRev s = some (u, r)) :
    validV ⟨none, u, r⟩ = true := by
  unfold Rel.matchUpstreamRev at h
  split at h
  · simp at h
  · rename_i hs
    have hall : s.all isUpstreamChar = true := by
      simp only [Bool.or_eq_true, Bool.not_eq_true', not_or, Bool.not_eq_true, Bool.not_eq_false] at hs
      exact hs.2
    split at h
    · simp at h; obtain ⟨rfl, rfl⟩ := h
      simp [validV, hall]
    · rename_i b a hsplit
      split at h
      · rename_i hc
        simp at h; obtain ⟨rfl, rfl⟩ := h
        have hs' := Rel.splitLastDash_eq hsplit
        rw [hs'] at hall
        simp only [List.all_append, Bool.and_eq_true] at hall
        simp only [Bool.and_eq_true] at hc
        simp [validV, hall.1, hc.2]
      · simp at h; obtain ⟨rfl, rfl⟩ := h
        simp [validV, hall]

/-- **every value `Version::from_str` returns has version characters only** -/
theorem parse_valid {s : Str} {v : Version} (h : Version.parse s = some v) : validV v = true := by
  unfold Version.parse at h
  split at h
  · rename_i r he
    unfold Version.epochAlt at he
    split at he
    · rename_i rest hd
      split at he
      · simp at he
      · split at he
        · simp at he
        · rename_i u rv hm
          split at he
          · simp only [Option.some.injEq] at he
            subst he
            simp only [Option.some.injEq] at h
            subst h
            have := matchUpstreamRev_valid hm
            simpa [validV] using this
          · simp only [Option.some.injEq] at he
            subst he
            simp at h
    · simp at he
  · split at h
    · simp at h
    · rename_i u r hm
      simp only [Option.some.injEq] at h
      subst h
      exact matchUpstreamRev_valid hm

end Deb822Verif.DebVersion
