import Deb822Verif.Lemmas.DebWrapDoc
import Deb822Verif.Lemmas.DebContentDoc
/-!
  Wrap-and-sort on well-formed documents (`Spec/DocS.lean`), entry level: the reformatted field of
  a well-formed `EntryS` is the node of an explicit well-formed, fully terminated `EntryS`.
-/
namespace Deb822Verif.Deb
open Deb822Verif Node Spec

/-- the settings are inside the property's domain: an indentation of at least one column -/
def IndentOK (cfg : WrapCfg) : Prop := cfg.indentation ≠ .spaces 0

/-- value lines as VALUE tokens separated by NEWLINE tokens -/
def joinNL : List Str → List Tok
  | [] => []
  | [t] => [(.VALUE, t)]
  | t :: u :: ts => (.VALUE, t) :: (.NEWLINE, ['\n']) :: joinNL (u :: ts)

def indOf (cfg : WrapCfg) (e : EntryS) : Nat :=
  match cfg.indentation with
  | .spaces n => n
  | .fieldNameLength => utf8Len e.key

def mkCont (ind : Nat) (t : Str) : ContS := ⟨List.replicate ind ' ', t, true⟩

end Deb822Verif.Deb

namespace Deb822Verif.Spec
open Deb822Verif Deb Node

/-- the content tokens `Entry::wrap_and_sort` collects from a well-formed field (trailing
    whitespace and newlines stripped) -/
def EntryS.cts (e : EntryS) : List Tok :=
  if e.conts = [] then (if e.v = [] then [] else optTok .WHITESPACE e.ws ++ [(.VALUE, e.v)])
  else optTok .WHITESPACE e.ws ++ optTok .VALUE e.v ++ (.NEWLINE, ['\n']) :: joinNL (e.conts.map ContS.text)

/-- wrap-and-sort of one field, on the specification side -/
def EntryS.wrap (cfg : WrapCfg) (e : EntryS) : EntryS :=
  if rbFits e.cts (utf8Len e.key) cfg.maxLineLengthOneLiner && e.conts.isEmpty then
    { key := e.key, ws := if e.v = [] then [] else e.ws, v := e.v, nl := true, conts := [] }
  else if cfg.immediateEmptyLine && !e.conts.isEmpty && !(e.v.head? == some '#') then
    { key := e.key, ws := [], v := [], nl := true, conts := e.valueLines.map (mkCont (indOf cfg e)) }
  else
    match e.valueLines with
    | [] => { key := e.key, ws := [' '], v := [], nl := true, conts := [] }
    | l :: ls => { key := e.key, ws := [' '], v := l, nl := true, conts := ls.map (mkCont (indOf cfg e)) }

/-- the tokens after `KEY` `COLON` -/
def EntryS.tailToks (e : EntryS) : List Tok :=
  optTok .WHITESPACE e.ws ++ optTok .VALUE e.v ++ nlTok e.nl ++ contsToks e.conts

theorem EntryS.toks_eq (e : EntryS) : e.toks = (.KEY, e.key) :: (.COLON, [':']) :: e.tailToks := rfl

end Deb822Verif.Spec

namespace Deb822Verif.Deb
open Deb822Verif Node Spec

/-! ### token kinds of a field -/

theorem mem_optTok {k : Kind} {s : Str} {t : Tok} (h : t ∈ optTok k s) : t = (k, s) := by
  unfold optTok at h; split at h <;> simp at h; exact h

theorem mem_nlTok {b : Bool} {t : Tok} (h : t ∈ nlTok b) : t = (.NEWLINE, ['\n']) := by
  unfold nlTok at h; split at h <;> simp at h; exact h

theorem mem_contsToks {cs : List ContS} {t : Tok} (h : t ∈ contsToks cs) :
    t.1 = .INDENT ∨ t.1 = .VALUE ∨ t.1 = .NEWLINE := by
  simp only [contsToks, List.mem_flatten, List.mem_map] at h
  obtain ⟨l, ⟨c, _, rfl⟩, ht⟩ := h
  simp only [ContS.toks, List.mem_cons] at ht
  rcases ht with rfl | rfl | ht
  · exact Or.inl rfl
  · exact Or.inr (Or.inl rfl)
  · rw [mem_nlTok ht]; exact Or.inr (Or.inr rfl)

theorem mem_tailToks {e : EntryS} {t : Tok} (h : t ∈ e.tailToks) :
    t.1 = .WHITESPACE ∨ t.1 = .VALUE ∨ t.1 = .NEWLINE ∨ t.1 = .INDENT := by
  simp only [EntryS.tailToks, List.mem_append] at h
  rcases h with ((h | h) | h) | h
  · rw [mem_optTok h]; exact Or.inl rfl
  · rw [mem_optTok h]; exact Or.inr (Or.inl rfl)
  · rw [mem_nlTok h]; exact Or.inr (Or.inr (Or.inl rfl))
  · rcases mem_contsToks h with h | h | h
    · exact Or.inr (Or.inr (Or.inr h))
    · exact Or.inr (Or.inl h)
    · exact Or.inr (Or.inr (Or.inl h))

theorem tail_heads (e : EntryS) : (e.tailToks.map tk).filterMap headOf = [] := by
  apply List.filterMap_eq_nil_iff.2
  intro c hc
  simp only [List.mem_map] at hc
  obtain ⟨t, ht, rfl⟩ := hc
  rcases mem_tailToks ht with h | h | h | h <;> simp [headOf, h]

theorem node_badKinds (e : EntryS) : ewBadKinds e.node.children = false := by
  apply Bool.eq_false_iff.2
  intro h
  simp only [ewBadKinds, EntryS.node, Node.children, List.any_eq_true, List.mem_map] at h
  obtain ⟨c, ⟨t, ht, rfl⟩, hk⟩ := h
  rw [EntryS.toks_eq] at ht
  simp only [List.mem_cons] at ht
  rcases ht with rfl | rfl | ht
  · simp [Node.kind] at hk
  · simp [Node.kind] at hk
  · rcases mem_tailToks ht with h | h | h | h <;> simp [Node.kind, h] at hk

theorem node_heads (e : EntryS) :
    e.node.children.filterMap headOf = [Node.tok .KEY e.key, Node.tok .COLON [':']] := by
  simp only [EntryS.node, Node.children, EntryS.toks_eq, List.map_cons, List.filterMap_cons, headOf, tail_heads]

theorem node_indent (cfg : WrapCfg) (e : EntryS) : ewIndent cfg e.node.children = indOf cfg e := by
  unfold ewIndent indOf
  cases cfg.indentation with
  | spaces n => rfl
  | fieldNameLength =>
    simp only [EntryS.node, Node.children, EntryS.toks_eq, List.map_cons, List.find?_cons,
      isTokOf, beq_self_eq_true, Option.map_some, tokTextOf]

theorem node_keyLen (e : EntryS) : ewKeyLen e.node = utf8Len e.key := by
  simp only [ewKeyLen, entryKey_node]

theorem indOf_pos (cfg : WrapCfg) (e : EntryS) (hc : IndentOK cfg) (hk : ValidKey e.key) : indOf cfg e ≠ 0 := by
  unfold indOf
  cases h : cfg.indentation with
  | spaces n =>
    intro hn
    simp only at hn
    subst hn
    exact hc h
  | fieldNameLength =>
    obtain ⟨c, cs, hkey, _⟩ := hk
    simp only [hkey, utf8Len, Text.utf8Len, List.map_cons, List.sum_cons]
    have := Char.utf8Size_pos c
    omega

/-! ### the content tokens -/

theorem dropTrailing_append_all (q : DNode → Bool) (a b : List DNode) (hb : ∀ x ∈ b, q x = true) :
    dropTrailing q (a ++ b) = dropTrailing q a := by
  unfold dropTrailing
  rw [List.reverse_append, List.dropWhile_append_of_pos (by simpa using hb)]

theorem dropTrailing_all (q : DNode → Bool) (b : List DNode) (hb : ∀ x ∈ b, q x = true) :
    dropTrailing q b = [] := by
  have := dropTrailing_append_all q [] b hb
  simpa [dropTrailing] using this

/-- the VALUE / NEWLINE tokens of the continuation lines -/
def contsContent (cs : List ContS) : List Tok := (cs.map fun c => (Kind.VALUE, c.text) :: nlTok c.nl).flatten

theorem filter_content_conts (cs : List ContS) :
    ((contsToks cs).map tk).filter contentKinds = (contsContent cs).map tk := by
  induction cs with
  | nil => rfl
  | cons c cs ih =>
    have e1 : contsToks (c :: cs) = c.toks ++ contsToks cs := by simp [contsToks]
    have e2 : contsContent (c :: cs) = ((Kind.VALUE, c.text) :: nlTok c.nl) ++ contsContent cs := by
      simp [contsContent]
    rw [e1, e2, List.map_append, List.filter_append, ih, List.map_append]
    congr 1
    cases hn : c.nl <;> simp [ContS.toks, hn, nlTok, List.filter_cons, contentKinds, Node.kind]

theorem filter_content_tail (e : EntryS) :
    (e.tailToks.map tk).filter contentKinds
      = (optTok .WHITESPACE e.ws ++ optTok .VALUE e.v ++ nlTok e.nl ++ contsContent e.conts).map tk := by
  have hfs : ∀ ts : List Tok, (∀ t ∈ ts, contentKinds (tk t) = true) →
      (ts.map tk).filter contentKinds = ts.map tk := by
    intro ts h
    apply List.filter_eq_self.2
    intro c hc
    simp only [List.mem_map] at hc
    obtain ⟨t, ht, rfl⟩ := hc
    exact h t ht
  simp only [EntryS.tailToks, List.map_append, List.filter_append, filter_content_conts]
  rw [hfs _ (fun t ht => by rw [mem_optTok ht]; rfl), hfs _ (fun t ht => by rw [mem_optTok ht]; rfl),
    hfs _ (fun t ht => by rw [mem_nlTok ht]; rfl)]

theorem joinNL_cons (t : Str) (u : List Str) (hu : u ≠ []) :
    joinNL (t :: u) = (.VALUE, t) :: (.NEWLINE, ['\n']) :: joinNL u := by
  cases u with
  | nil => exact absurd rfl hu
  | cons a r => rfl

theorem contsContent_join (cs : List ContS) (more : Bool) (ht : contsTerm cs more) (hne : cs ≠ []) :
    ∃ b, contsContent cs = joinNL (cs.map ContS.text) ++ nlTok b := by
  induction cs with
  | nil => exact absurd rfl hne
  | cons c cs ih =>
    cases cs with
    | nil => exact ⟨c.nl, by simp [contsContent, joinNL]⟩
    | cons c' r =>
      have hnl : c.nl = true := by
        rcases ht.1 with h | h
        · exact h
        · simp at h
      obtain ⟨b, hb⟩ := ih ht.2 (by simp)
      refine ⟨b, ?_⟩
      have e2 : contsContent (c :: c' :: r) = ((Kind.VALUE, c.text) :: nlTok c.nl) ++ contsContent (c' :: r) := by
        simp [contsContent]
      rw [e2, hb, hnl]
      simp [nlTok, joinNL]

theorem noTrail_append_value (a : List Tok) (t : Str) : NoTrail (a ++ [(.VALUE, t)]) := by
  intro x hx
  rw [List.getLast?_concat] at hx
  cases hx; rfl

theorem joinNL_last (L : List Str) (hL : L ≠ []) : ∃ a t, joinNL L = a ++ [(.VALUE, t)] := by
  induction L with
  | nil => exact absurd rfl hL
  | cons l r ih =>
    cases r with
    | nil => exact ⟨[], l, rfl⟩
    | cons u r' =>
      obtain ⟨a, t, h⟩ := ih (by simp)
      exact ⟨(.VALUE, l) :: (.NEWLINE, ['\n']) :: a, t, by simp [joinNL, h]⟩

theorem nlTok_nlws (b : Bool) : ∀ x ∈ (nlTok b).map tk, nlwsN x = true := by
  intro x hx
  simp only [List.mem_map] at hx
  obtain ⟨t, ht, rfl⟩ := hx
  rw [mem_nlTok ht]; rfl

theorem optWS_nlws (ws : Str) : ∀ x ∈ (optTok .WHITESPACE ws).map tk, nlwsN x = true := by
  intro x hx
  simp only [List.mem_map] at hx
  obtain ⟨t, ht, rfl⟩ := hx
  rw [mem_optTok ht]; rfl

/-- what `Entry::wrap_and_sort` collects from a well-formed field -/
theorem node_content (e : EntryS) (more : Bool) (ht : e.Term more) :
    ewContent e.node.children = e.cts.map tk := by
  have hkc : ([(Kind.KEY, e.key), (Kind.COLON, [':'])].map tk).filter contentKinds = [] := rfl
  have h0 : ewContent e.node.children = dropTrailing nlwsN
      ((optTok .WHITESPACE e.ws ++ optTok .VALUE e.v ++ nlTok e.nl ++ contsContent e.conts).map tk) := by
    simp only [ewContent, EntryS.node, Node.children, EntryS.toks_eq]
    rw [show ((Kind.KEY, e.key) :: (Kind.COLON, [':']) :: e.tailToks)
        = [(Kind.KEY, e.key), (Kind.COLON, [':'])] ++ e.tailToks from rfl,
      List.map_append, List.filter_append, hkc, List.nil_append, filter_content_tail]
  rw [h0]
  unfold EntryS.cts
  by_cases hc : e.conts = []
  · simp only [hc, contsContent, List.map_nil, List.flatten_nil, List.append_nil, ↓reduceIte]
    by_cases hv : e.v = []
    · simp only [hv, optTok, ↓reduceIte, List.append_nil, List.map_nil]
      apply dropTrailing_all
      intro x hx
      simp only [List.map_append, List.mem_append] at hx
      rcases hx with hx | hx
      · exact optWS_nlws e.ws x hx
      · exact nlTok_nlws _ x hx
    · simp only [hv, ↓reduceIte]
      rw [List.map_append, dropTrailing_append_all _ _ _ (nlTok_nlws _)]
      rw [show optTok Kind.VALUE e.v = [(Kind.VALUE, e.v)] from by simp [optTok, hv]]
      exact dropTrailing_map_tk _ (noTrail_append_value _ _)
  · simp only [hc, ↓reduceIte]
    have hnl : e.nl = true := by
      rcases ht.1 with h | h
      · exact h
      · exact absurd h.1 hc
    obtain ⟨b, hb⟩ := contsContent_join e.conts more ht.2 hc
    obtain ⟨a, t, hj⟩ := joinNL_last (e.conts.map ContS.text) (by simpa using hc)
    rw [hb, hnl, ← List.append_assoc, List.map_append, dropTrailing_append_all _ _ _ (nlTok_nlws _)]
    rw [show nlTok true = [(Kind.NEWLINE, ['\n'])] from rfl]
    rw [show optTok Kind.WHITESPACE e.ws ++ optTok Kind.VALUE e.v ++ [(Kind.NEWLINE, ['\n'])]
          ++ joinNL (List.map ContS.text e.conts)
        = optTok Kind.WHITESPACE e.ws ++ optTok Kind.VALUE e.v ++ (Kind.NEWLINE, ['\n'])
          :: joinNL (List.map ContS.text e.conts) from by simp]
    apply dropTrailing_map_tk
    rw [hj]
    have := noTrail_append_value (optTok Kind.WHITESPACE e.ws ++ optTok Kind.VALUE e.v ++ (Kind.NEWLINE, ['\n']) :: a) t
    simpa using this

theorem allTokens_map_tk (ts : List Tok) : allTokens (ts.map tk) = some ts := by
  induction ts with
  | nil => rfl
  | cons t r ih => simp [allTokens, ih]

/-- first half: `entryWrap` on a well-formed field is `rebuild_value` of its content tokens -/
theorem entryWrap_node_eq (cfg : WrapCfg) (e : EntryS) (more : Bool) (hwf : e.WF) (ht : e.Term more)
    (hc : IndentOK cfg) :
    entryWrap cfg none e.node = some (.node .ENTRY (Node.tok .KEY e.key :: Node.tok .COLON [':'] ::
      rebuildValue e.cts (utf8Len e.key) (indOf cfg e) cfg.immediateEmptyLine cfg.maxLineLengthOneLiner)) := by
  unfold entryWrap
  rw [node_badKinds, node_indent]
  simp only [Bool.false_eq_true, ↓reduceIte, indOf_pos cfg e hc hwf.key_ok, ewTokens, node_content e more ht,
    allTokens_map_tk, node_heads, node_keyLen]
  rfl


/-! ### `rebuild_value` on the content tokens of a well-formed field -/

theorem hasNewline_append (a b : List Tok) : rbHasNewline (a ++ b) = (rbHasNewline a || rbHasNewline b) := by
  simp [rbHasNewline]

theorem hasNewline_optTok (k : Kind) (hk : k ≠ .NEWLINE) (s : Str) : rbHasNewline (optTok k s) = false := by
  unfold optTok; split <;> simp [rbHasNewline, hk]

theorem cts_hasNewline (e : EntryS) : rbHasNewline e.cts = !e.conts.isEmpty := by
  unfold EntryS.cts
  by_cases hc : e.conts = []
  · simp only [hc, ↓reduceIte, List.isEmpty_nil, Bool.not_true]
    split
    · rfl
    · rw [hasNewline_append, hasNewline_optTok _ (by simp)]; rfl
  · have : e.conts.isEmpty = false := by simpa [List.isEmpty_iff] using hc
    simp only [hc, ↓reduceIte, this, Bool.not_false]
    rw [hasNewline_append]
    simp [rbHasNewline]

theorem strip_optWS (ws : Str) (r : List Tok) : rbStrip (optTok .WHITESPACE ws ++ r) = rbStrip r := by
  unfold optTok; split
  · rfl
  · exact rbStrip_cons_pos _ _ (by rfl)

theorem strip_joinNL (L : List Str) : rbStrip (joinNL L) = joinNL L := by
  cases L with
  | nil => rfl
  | cons l r =>
    cases r with
    | nil => exact rbStrip_cons_neg _ _ (by rfl)
    | cons u r' => exact rbStrip_cons_neg _ _ (by rfl)

theorem cts_strip (e : EntryS) : rbStrip e.cts = joinNL e.valueLines := by
  unfold EntryS.cts EntryS.valueLines
  by_cases hc : e.conts = []
  · simp only [hc, ↓reduceIte, List.map_nil, List.append_nil]
    by_cases hv : e.v = []
    · simp only [hv, ↓reduceIte]; rfl
    · simp only [hv, ↓reduceIte]
      rw [strip_optWS]; exact rbStrip_cons_neg _ _ (by rfl)
  · simp only [hc, ↓reduceIte]
    have hne : e.conts.map ContS.text ≠ [] := by simpa using hc
    by_cases hv : e.v = []
    · simp only [hv, optTok, ↓reduceIte, List.append_nil, List.nil_append]
      rw [show (if e.ws = [] then [] else [(Kind.WHITESPACE, e.ws)]) = optTok .WHITESPACE e.ws from rfl,
        strip_optWS, rbStrip_cons_pos _ _ (by rfl), strip_joinNL]
    · simp only [hv, ↓reduceIte, List.append_assoc]
      rw [strip_optWS, show optTok Kind.VALUE e.v = [(Kind.VALUE, e.v)] from by simp [optTok, hv]]
      rw [List.singleton_append, List.singleton_append, joinNL_cons _ _ hne]
      exact rbStrip_cons_neg _ _ (by rfl)

theorem firstIsHash_optWS (ws : Str) (r : List Tok) :
    rbFirstIsHash (optTok .WHITESPACE ws ++ r) = rbFirstIsHash r := by
  unfold optTok; split
  · rfl
  · exact firstIsHash_cons_pos _ _ (by rfl)

theorem firstIsHash_value (t : Str) (r : List Tok) : rbFirstIsHash ((.VALUE, t) :: r) = (t.head? == some '#') := by
  simp [rbFirstIsHash, rbFirstIsComment, List.find?_cons]

theorem firstIsComment_none (ts : List Tok) (h : ∀ t ∈ ts, t.1 ≠ .COMMENT) : rbFirstIsComment ts = false := by
  unfold rbFirstIsComment
  split
  · rename_i t ht
    have := List.mem_of_find?_eq_some ht
    simp [h t this]
  · rfl

theorem mem_joinNL {L : List Str} {t : Tok} (h : t ∈ joinNL L) : t.1 = .VALUE ∨ t.1 = .NEWLINE := by
  induction L with
  | nil => simp [joinNL] at h
  | cons l r ih =>
    cases r with
    | nil =>
      simp only [joinNL, List.mem_cons, List.not_mem_nil, or_false] at h
      subst h; exact Or.inl rfl
    | cons u r' =>
      simp only [joinNL, List.mem_cons] at h
      rcases h with rfl | rfl | h
      · exact Or.inl rfl
      · exact Or.inr rfl
      · exact ih h

theorem cts_comment (e : EntryS) : rbFirstIsComment e.cts = false := by
  apply firstIsComment_none
  intro t ht
  unfold EntryS.cts at ht
  split at ht
  · split at ht
    · simp at ht
    · simp only [List.mem_append, List.mem_cons, List.not_mem_nil, or_false] at ht
      rcases ht with ht | rfl
      · rw [mem_optTok ht]; simp
      · simp
  · simp only [List.mem_append, List.mem_cons] at ht
    rcases ht with (ht | ht) | rfl | ht
    · rw [mem_optTok ht]; simp
    · rw [mem_optTok ht]; simp
    · simp
    · rcases mem_joinNL ht with h | h <;> simp [h]

theorem cts_hash (e : EntryS) (hwf : e.WF) (hc : e.conts ≠ []) :
    rbFirstIsHash e.cts = (e.v.head? == some '#') := by
  unfold EntryS.cts
  simp only [hc, ↓reduceIte, List.append_assoc]
  rw [firstIsHash_optWS]
  by_cases hv : e.v = []
  · simp only [hv, optTok, ↓reduceIte, List.nil_append]
    rw [firstIsHash_cons_pos _ _ (by rfl)]
    cases hcs : e.conts with
    | nil => exact absurd hcs hc
    | cons c cs =>
      have hcw := (hwf.conts_ok c (by rw [hcs]; simp)).text_ok
      obtain ⟨_, x, xs, hx, _, hne⟩ := hcw
      have : joinNL (List.map ContS.text (c :: cs)) = (.VALUE, c.text) :: (joinNL (List.map ContS.text (c :: cs))).tail := by
        cases cs <;> rfl
      rw [this, firstIsHash_value, hx]
      simp [hne]
  · rw [show optTok Kind.VALUE e.v = [(Kind.VALUE, e.v)] from by simp [optTok, hv]]
    exact firstIsHash_value _ _

theorem contsToks_cons (c : ContS) (cs : List ContS) : contsToks (c :: cs) = c.toks ++ contsToks cs := by
  simp [contsToks]

/-- continuation lines come out as INDENT VALUE NEWLINE, every one terminated -/
theorem go_joinNL_true (ind : Nat) (L : List Str) (hL : L ≠ []) :
    (rbGo ind (joinNL L) true).1 ++ rbClose (rbGo ind (joinNL L) true).2
      = (contsToks (L.map (mkCont ind))).map tk := by
  induction L with
  | nil => exact absurd rfl hL
  | cons l r ih =>
    cases r with
    | nil => rfl
    | cons u r' =>
      have := ih (by simp)
      have e1 : (Kind.NEWLINE == Kind.NEWLINE) = true := rfl
      have e2 : (Kind.VALUE == Kind.NEWLINE) = false := rfl
      simp only [joinNL, rbGo, e1, e2, List.append_assoc]
      rw [show joinNL (u :: r') = joinNL (u :: r') from rfl] at this
      rw [this]
      simp [mkCont, ContS.toks, nlTok, contsToks_cons]

theorem go_joinNL_false (ind : Nat) (l : Str) (L : List Str) :
    (rbGo ind (joinNL (l :: L)) false).1 ++ rbClose (rbGo ind (joinNL (l :: L)) false).2
      = ((Kind.VALUE, l) :: (Kind.NEWLINE, ['\n']) :: contsToks (L.map (mkCont ind))).map tk := by
  cases L with
  | nil => rfl
  | cons u r =>
    have := go_joinNL_true ind (u :: r) (by simp)
    have e1 : (Kind.NEWLINE == Kind.NEWLINE) = true := rfl
    have e2 : (Kind.VALUE == Kind.NEWLINE) = false := rfl
    simp only [joinNL, rbGo, e1, e2, List.append_assoc]
    rw [this]
    simp

theorem wrap_key (cfg : WrapCfg) (e : EntryS) : (e.wrap cfg).key = e.key := by
  unfold EntryS.wrap
  split
  · rfl
  · split
    · rfl
    · split <;> rfl

/-- second half: the rebuilt value is the token sequence of `EntryS.wrap` -/
theorem rebuildValue_cts (cfg : WrapCfg) (e : EntryS) (hwf : e.WF) :
    rebuildValue e.cts (utf8Len e.key) (indOf cfg e) cfg.immediateEmptyLine cfg.maxLineLengthOneLiner
      = (e.wrap cfg).tailToks.map tk := by
  unfold rebuildValue EntryS.wrap
  rw [cts_hasNewline, cts_strip, cts_comment, Bool.false_or]
  by_cases hA : (rbFits e.cts (utf8Len e.key) cfg.maxLineLengthOneLiner && e.conts.isEmpty) = true
  · have hA' : (rbFits e.cts (utf8Len e.key) cfg.maxLineLengthOneLiner && !!e.conts.isEmpty) = true := by
      simpa using hA
    simp only [hA, hA', ↓reduceIte]
    have hc : e.conts = [] := by
      simp only [Bool.and_eq_true, List.isEmpty_iff] at hA; exact hA.2
    simp only [EntryS.tailToks, EntryS.cts, hc, ↓reduceIte, contsToks, List.map_nil, List.flatten_nil, List.append_nil]
    by_cases hv : e.v = []
    · simp [hv, optTok, nlTok]
    · simp [hv, optTok, nlTok]
  · have hA' : ¬(rbFits e.cts (utf8Len e.key) cfg.maxLineLengthOneLiner && !!e.conts.isEmpty) = true := by
      simpa using hA
    simp only [hA, hA', ↓reduceIte]
    by_cases hc : e.conts = []
    · -- single line that does not fit (or no width limit)
      have hie : e.conts.isEmpty = true := by simp [hc]
      simp only [hie, Bool.not_true, Bool.and_false, Bool.false_and, Bool.false_eq_true, ↓reduceIte]
      simp only [EntryS.valueLines, hc, List.map_nil, List.append_nil]
      by_cases hv : e.v = []
      · simp only [hv, ↓reduceIte]
        rfl
      · simp only [hv, ↓reduceIte]
        rw [List.cons_append, go_joinNL_false]
        simp [EntryS.tailToks, optTok, hv, nlTok, contsToks]
    · have hie : e.conts.isEmpty = false := by simpa [List.isEmpty_iff] using hc
      rw [cts_hash e hwf hc]
      simp only [hie, Bool.not_false, Bool.and_true]
      by_cases hB : (cfg.immediateEmptyLine && !(e.v.head? == some '#')) = true
      · simp only [hB, ↓reduceIte]
        have hL : e.valueLines ≠ [] := by
          simp only [EntryS.valueLines]
          intro h
          have := (List.append_eq_nil_iff.1 h).2
          exact hc (by simpa using this)
        rw [List.cons_append, go_joinNL_true _ _ hL]
        simp [EntryS.tailToks, optTok, nlTok]
      · simp only [hB, Bool.false_eq_true, ↓reduceIte]
        cases hL : e.valueLines with
        | nil =>
          exfalso
          simp only [EntryS.valueLines] at hL
          have := (List.append_eq_nil_iff.1 hL).2
          exact hc (by simpa using this)
        | cons l ls =>
          simp only
          rw [List.cons_append, go_joinNL_false]
          have hl : l ≠ [] := by
            simp only [EntryS.valueLines] at hL
            by_cases hv : e.v = []
            · simp only [hv, ↓reduceIte, List.nil_append] at hL
              cases hcs : e.conts with
              | nil => exact absurd hcs hc
              | cons c cs =>
                rw [hcs] at hL
                simp only [List.map_cons, List.cons.injEq] at hL
                obtain ⟨_, x, xs, hx, _⟩ := (hwf.conts_ok c (by rw [hcs]; simp)).text_ok
                rw [← hL.1, hx]; simp
            · simp only [hv, ↓reduceIte, List.singleton_append, List.cons.injEq] at hL
              rw [← hL.1]; exact hv
          simp [EntryS.tailToks, optTok, hl, nlTok]

/-- **a well-formed field is reformatted to the node of `EntryS.wrap`** (no formatter, indentation
    of at least one column) -/
theorem entryWrap_node (cfg : WrapCfg) (e : EntryS) (more : Bool) (hwf : e.WF) (ht : e.Term more)
    (hc : IndentOK cfg) : entryWrap cfg none e.node = some (e.wrap cfg).node := by
  rw [entryWrap_node_eq cfg e more hwf ht hc, rebuildValue_cts cfg e hwf]
  simp only [EntryS.node, EntryS.toks_eq, wrap_key, List.map_cons]


/-! ### the reformatted field is well formed and fully terminated -/

theorem valueLines_mem (e : EntryS) (t : Str) (h : t ∈ e.valueLines) :
    (t = e.v ∧ e.v ≠ []) ∨ ∃ c ∈ e.conts, t = c.text := by
  simp only [EntryS.valueLines, List.mem_append, List.mem_map] at h
  rcases h with h | ⟨c, hc, rfl⟩
  · split at h
    · simp at h
    · rename_i hv
      simp only [List.mem_cons, List.not_mem_nil, or_false] at h
      exact Or.inl ⟨h, hv⟩
  · exact Or.inr ⟨c, hc, rfl⟩

theorem valueLines_tail_mem (e : EntryS) (l : Str) (ls : List Str) (h : e.valueLines = l :: ls) (t : Str)
    (ht : t ∈ ls) : ∃ c ∈ e.conts, t = c.text := by
  simp only [EntryS.valueLines] at h
  split at h
  · simp only [List.nil_append] at h
    have : t ∈ e.conts.map ContS.text := by rw [h]; simp [ht]
    simp only [List.mem_map] at this
    obtain ⟨c, hc, rfl⟩ := this
    exact ⟨c, hc, rfl⟩
  · simp only [List.singleton_append, List.cons.injEq] at h
    have : t ∈ e.conts.map ContS.text := by rw [h.2]; exact ht
    simp only [List.mem_map] at this
    obtain ⟨c, hc, rfl⟩ := this
    exact ⟨c, hc, rfl⟩

theorem validFirst_of_cont (t : Str) (h : ValidCont t) : ValidFirst t := by
  obtain ⟨hn, c, cs, rfl, hi, _⟩ := h
  refine ⟨hn, ?_⟩
  intro x hx
  simp only [List.head?_cons, Option.some.injEq] at hx
  subst hx; exact hi

theorem mkCont_wf (ind : Nat) (t : Str) (hind : ind ≠ 0) (ht : ValidCont t) : (mkCont ind t).WF := by
  refine ⟨?_, ?_, ht⟩
  · cases ind with
    | zero => exact absurd rfl hind
    | succ n => simp [mkCont, List.replicate_succ]
  · intro c hc
    simp only [mkCont, List.mem_replicate] at hc
    rw [hc.2]; rfl

theorem validFirst_nil : ValidFirst [] := ⟨by intro c hc; simp at hc, by intro c hc; simp at hc⟩

theorem allIndent_space : AllIndent [' '] := by
  intro c hc
  simp only [List.mem_cons, List.not_mem_nil, or_false] at hc
  subst hc; rfl

theorem allIndent_nil : AllIndent [] := by intro c hc; simp at hc

theorem wrap_wf (cfg : WrapCfg) (e : EntryS) (hwf : e.WF) (hc : IndentOK cfg) : (e.wrap cfg).WF := by
  have hind := indOf_pos cfg e hc hwf.key_ok
  unfold EntryS.wrap
  split
  · refine ⟨hwf.key_ok, ?_, hwf.v_ok, by simp⟩
    simp only
    split
    · exact allIndent_nil
    · exact hwf.ws_ok
  · split
    · rename_i hB
      refine ⟨hwf.key_ok, allIndent_nil, validFirst_nil, ?_⟩
      intro c hcm
      simp only [List.mem_map] at hcm
      obtain ⟨t, ht, rfl⟩ := hcm
      apply mkCont_wf _ _ hind
      rcases valueLines_mem e t ht with ⟨rfl, hv⟩ | ⟨c, hcc, rfl⟩
      · obtain ⟨hn, hh⟩ := hwf.v_ok
        cases hv' : e.v with
        | nil => exact absurd hv' hv
        | cons x xs =>
          refine ⟨by rw [← hv']; exact hn, x, xs, rfl, hh x (by simp [hv']), ?_⟩
          intro hx
          simp [hv', hx] at hB
      · exact (hwf.conts_ok c hcc).text_ok
    · split
      · exact ⟨hwf.key_ok, allIndent_space, validFirst_nil, by simp⟩
      · rename_i l ls hL
        refine ⟨hwf.key_ok, allIndent_space, ?_, ?_⟩
        · rcases valueLines_mem e l (by rw [hL]; simp) with ⟨rfl, _⟩ | ⟨c, hcc, rfl⟩
          · exact hwf.v_ok
          · exact validFirst_of_cont _ (hwf.conts_ok c hcc).text_ok
        · intro c hcm
          simp only [List.mem_map] at hcm
          obtain ⟨t, ht, rfl⟩ := hcm
          obtain ⟨c, hcc, rfl⟩ := valueLines_tail_mem e l ls hL t ht
          exact mkCont_wf _ _ hind (hwf.conts_ok c hcc).text_ok

end Deb822Verif.Deb

namespace Deb822Verif.Spec
/-- every line of the field is LF-terminated -/
def EntryS.TermAll (e : EntryS) : Prop := e.nl = true ∧ ∀ c ∈ e.conts, c.nl = true
end Deb822Verif.Spec

namespace Deb822Verif.Deb
open Deb822Verif Node Spec

theorem contsTerm_all (cs : List ContS) (h : ∀ c ∈ cs, c.nl = true) (more : Bool) : contsTerm cs more := by
  induction cs with
  | nil => trivial
  | cons c cs ih => exact ⟨Or.inl (h c (by simp)), ih fun x hx => h x (by simp [hx])⟩

theorem termAll_term (e : EntryS) (h : e.TermAll) (more : Bool) : e.Term more :=
  ⟨Or.inl h.1, contsTerm_all _ h.2 more⟩

theorem wrap_termAll (cfg : WrapCfg) (e : EntryS) : (e.wrap cfg).TermAll := by
  have hm : ∀ (ind : Nat) (L : List Str), ∀ c ∈ L.map (mkCont ind), c.nl = true := by
    intro ind L c hc
    simp only [List.mem_map] at hc
    obtain ⟨t, _, rfl⟩ := hc; rfl
  unfold EntryS.wrap
  split
  · exact ⟨rfl, by simp⟩
  · split
    · exact ⟨rfl, hm _ _⟩
    · split
      · exact ⟨rfl, by simp⟩
      · exact ⟨rfl, hm _ _⟩

/-- the reformatted field reads back to the same (name, value) -/
theorem wrap_valueLines (cfg : WrapCfg) (e : EntryS) (hwf : e.WF) : (e.wrap cfg).valueLines = e.valueLines := by
  unfold EntryS.wrap
  split
  · rename_i hA
    have hc : e.conts = [] := by
      simp only [Bool.and_eq_true, List.isEmpty_iff] at hA; exact hA.2
    simp [EntryS.valueLines, hc]
  · split
    · simp [EntryS.valueLines, mkCont, Function.comp_def]
    · split
      · rename_i hL; rw [hL]; rfl
      · rename_i l ls hL
        have hl : l ≠ [] := by
          rcases valueLines_mem e l (by rw [hL]; simp) with ⟨rfl, hv⟩ | ⟨c, hcc, rfl⟩
          · exact hv
          · obtain ⟨_, x, xs, hx, _⟩ := (hwf.conts_ok c hcc).text_ok
            rw [hx]; simp
        rw [hL]
        simp [EntryS.valueLines, hl, mkCont, Function.comp_def]

end Deb822Verif.Deb
