import Deb822Verif.Model.Pgp
import Deb822Verif.Lemmas.Text
/-!
# Character-level lemmas about `Text.lines` / `Text.unlinesNL` (used by Props/C19Bytes.lean)

* `lines (unlinesNL ls ++ t) = ls ++ lines t` for `LineOK` lines, `lines` of a text without `\n`,
  `lines t ≠ []` for `t ≠ []`;
* every prefix of `unlinesNL ls` is some complete lines followed by a prefix of the next line;
* for CR-free text, `lines` is inverted by `unlinesNL` up to one final `\n`.
Core Lean only.
-/
namespace Deb822Verif.Text

/-! ### `lines` of appended / unterminated text -/

theorem lines_unlinesNL_append (ls : List Str) (h : ∀ l ∈ ls, LineOK l) (t : Str) :
    lines (unlinesNL ls ++ t) = ls ++ lines t := by
  induction ls with
  | nil => simp [unlinesNL]
  | cons l ls ih =>
    have h1 : LineOK l := h l (by simp)
    have h2 : ∀ x ∈ ls, LineOK x := fun x hx => h x (by simp [hx])
    have : unlinesNL (l :: ls) ++ t = l ++ '\n' :: (unlinesNL ls ++ t) := by simp [unlinesNL]
    rw [this, lines_line_cons l _ h1, ih h2]; rfl

theorem rawLines_ne_nil (t : Str) (ht : t ≠ []) : rawLines t ≠ [] := by
  cases t with
  | nil => exact absurd rfl ht
  | cons c cs =>
    unfold rawLines
    split
    · simp
    · split <;> simp

/-- a non-empty text has at least one line (terminated or not, CR or not) -/
theorem lines_ne_nil (t : Str) (ht : t ≠ []) : lines t ≠ [] := by
  have := rawLines_ne_nil t ht
  simpa [lines] using this

theorem rawLines_no_nl (u : Str) (h : '\n' ∉ u) (hne : u ≠ []) : rawLines u = [(u, false)] := by
  induction u with
  | nil => exact absurd rfl hne
  | cons c cs ih =>
    have hc : c ≠ '\n' := by intro e; apply h; simp [e]
    have hcs : '\n' ∉ cs := by intro e; apply h; simp [e]
    cases cs with
    | nil => simp [rawLines, hc]
    | cons d ds =>
      have := ih hcs (by simp)
      simp only [rawLines, hc, ↓reduceIte] at this ⊢
      rw [this]

/-- the lines of a text without `\n`: none if it is empty, else the text itself (a trailing `\r`
    is kept: the line is unterminated) -/
theorem lines_no_nl (u : Str) (h : '\n' ∉ u) : lines u = if u = [] then [] else [u] := by
  by_cases hu : u = []
  · subst hu; simp [lines, rawLines]
  · simp [lines, rawLines_no_nl u h hu, hu]

/-- complete `LineOK` lines followed by an unterminated tail -/
theorem lines_unlinesNL_tail (ls : List Str) (h : ∀ l ∈ ls, LineOK l) (u : Str) (hu : '\n' ∉ u) :
    lines (unlinesNL ls ++ u) = ls ++ (if u = [] then [] else [u]) := by
  rw [lines_unlinesNL_append ls h, lines_no_nl u hu]

/-! ### prefixes -/

theorem prefix_append_cases {α} (t l r : List α) (h : t <+: l ++ r) :
    t <+: l ∨ ∃ t', t = l ++ t' ∧ t' <+: r := by
  induction l generalizing t with
  | nil => right; exact ⟨t, by simp, by simpa using h⟩
  | cons x xs ih =>
    cases t with
    | nil => left; exact List.nil_prefix
    | cons y ys =>
      rw [List.cons_append, List.cons_prefix_cons] at h
      obtain ⟨e, h'⟩ := h
      subst e
      rcases ih ys h' with a | ⟨t', e, a⟩
      · left; rw [List.cons_prefix_cons]; exact ⟨rfl, a⟩
      · right; exact ⟨t', by simp [e], a⟩

theorem no_nl_of_prefix {u l : Str} (hu : u <+: l) (h : '\n' ∉ l) : '\n' ∉ u := by
  intro hm
  obtain ⟨v, rfl⟩ := hu
  exact h (List.mem_append_left _ hm)

theorem eq_of_prefix_length {α} {u l : List α} (hu : u <+: l) (h : l.length ≤ u.length) : u = l := by
  obtain ⟨v, rfl⟩ := hu
  have : v = [] := by
    cases v with
    | nil => rfl
    | cons a as => simp at h; omega
  simp [this]

theorem prefix_length_lt {α} {u l : List α} (hu : u <+: l) (h : u ≠ l) : u.length < l.length := by
  have := hu.length_le
  by_cases c : l.length ≤ u.length
  · exact absurd (eq_of_prefix_length hu c) h
  · omega

/-- every prefix of `unlinesNL ls` is either all of it, or some complete lines followed by a
    prefix of the next line (without its `\n`) -/
theorem prefix_unlinesNL (ls : List Str) (t : Str) (h : t <+: unlinesNL ls) :
    t = unlinesNL ls ∨ ∃ a l b u, ls = a ++ l :: b ∧ u <+: l ∧ t = unlinesNL a ++ u := by
  induction ls generalizing t with
  | nil =>
    left
    have : unlinesNL ([] : List Str) = [] := by simp [unlinesNL]
    rw [this] at h ⊢
    exact List.prefix_nil.1 h
  | cons l ls ih =>
    have e : unlinesNL (l :: ls) = l ++ ('\n' :: unlinesNL ls) := by simp [unlinesNL]
    rw [e] at h
    rcases prefix_append_cases t l _ h with a | ⟨t', rfl, a⟩
    · right; exact ⟨[], l, ls, t, by simp, a, by simp [unlinesNL]⟩
    · cases t' with
      | nil => right; exact ⟨[], l, ls, l, by simp, List.prefix_refl l, by simp [unlinesNL]⟩
      | cons c t'' =>
        rw [List.cons_prefix_cons] at a
        obtain ⟨rfl, a⟩ := a
        rcases ih t'' a with rfl | ⟨a', l', b, u, rfl, hu, rfl⟩
        · left; rw [e]
        · right
          exact ⟨l :: a', l', b, u, by simp, hu, by simp [unlinesNL]⟩

/-- where the element `l` of `a ++ l :: b = xs ++ ys` sits: in `xs` or in `ys` -/
theorem append_cons_eq_append {α} (a : List α) (l : α) (b xs ys : List α) (h : a ++ l :: b = xs ++ ys) :
    (∃ c, xs = a ++ l :: c ∧ b = c ++ ys) ∨ (∃ c, a = xs ++ c ∧ ys = c ++ l :: b) := by
  rcases List.append_eq_append_iff.1 h with ⟨a', e1, e2⟩ | ⟨c', e1, e2⟩
  · cases a' with
    | nil => right; exact ⟨[], by simp [e1], by simpa using e2.symm⟩
    | cons x xs' =>
      simp only [List.cons_append, List.cons.injEq] at e2
      left; exact ⟨xs', by rw [e1, e2.1], e2.2⟩
  · right; exact ⟨c', e1, e2⟩

/-! ### lengths -/

@[simp] theorem unlinesNL_nil : unlinesNL ([] : List Str) = [] := by simp [unlinesNL]

theorem unlinesNL_cons (l : Str) (ls : List Str) : unlinesNL (l :: ls) = l ++ '\n' :: unlinesNL ls := by
  simp [unlinesNL]

theorem length_unlinesNL_cons (l : Str) (ls : List Str) :
    (unlinesNL (l :: ls)).length = l.length + 1 + (unlinesNL ls).length := by
  simp [unlinesNL_cons]; omega

theorem length_unlinesNL_append (a b : List Str) :
    (unlinesNL (a ++ b)).length = (unlinesNL a).length + (unlinesNL b).length := by
  simp [unlinesNL_append]

/-! ### CR-free text: `unlinesNL` inverts `lines` up to one final `\n` -/

theorem rawLines_mem_chars (s : Str) : ∀ p ∈ rawLines s, ∀ c ∈ p.1, c ∈ s ∧ c ≠ '\n' := by
  induction s with
  | nil => simp [rawLines]
  | cons c cs ih =>
    intro p hp x hx
    unfold rawLines at hp
    split at hp
    · simp only [List.mem_cons] at hp
      rcases hp with rfl | hp
      · simp at hx
      · have := ih p hp x hx
        exact ⟨by simp [this.1], this.2⟩
    · rename_i hc
      split at hp
      · simp only [List.mem_cons, List.not_mem_nil, or_false] at hp
        subst hp
        simp only [List.mem_cons, List.not_mem_nil, or_false] at hx
        subst hx
        exact ⟨by simp, hc⟩
      · rename_i l t ls hr
        simp only [List.mem_cons] at hp
        rcases hp with rfl | hp
        · simp only [List.mem_cons] at hx
          rcases hx with rfl | hx
          · exact ⟨by simp, hc⟩
          · have := ih (l, t) (by simp [hr]) x hx
            exact ⟨by simp [this.1], this.2⟩
        · have := ih p (by simp [hr, hp]) x hx
          exact ⟨by simp [this.1], this.2⟩

theorem stripCR_of_no_cr (l : Str) (h : '\r' ∉ l) : stripCR l = l := by
  apply stripCR_of_ok
  intro e
  exact h (List.mem_of_getLast? e)

/-- for CR-free text the lines are the raw pieces -/
theorem lines_of_no_cr (s : Str) (h : '\r' ∉ s) : lines s = (rawLines s).map (·.1) := by
  unfold lines
  apply List.map_congr_left
  intro p hp
  split
  · apply stripCR_of_no_cr
    intro hm
    exact h (rawLines_mem_chars s p hp _ hm).1
  · rfl

/-- every line of a CR-free text is `LineOK` -/
theorem lines_ok_of_no_cr (s : Str) (h : '\r' ∉ s) : ∀ l ∈ lines s, LineOK l := by
  intro l hl
  rw [lines_of_no_cr s h] at hl
  obtain ⟨p, hp, rfl⟩ := List.mem_map.1 hl
  constructor
  · intro hm; exact (rawLines_mem_chars s p hp _ hm).2 rfl
  · intro e
    exact h (rawLines_mem_chars s p hp _ (List.mem_of_getLast? e)).1

theorem unlinesNL_rawLines (s : Str) :
    s = unlinesNL ((rawLines s).map (·.1)) ∨ s ++ ['\n'] = unlinesNL ((rawLines s).map (·.1)) := by
  induction s with
  | nil => left; simp [rawLines]
  | cons c cs ih =>
    unfold rawLines
    split
    · rename_i hc
      subst hc
      simp only [List.map_cons, unlinesNL_cons, List.nil_append, List.cons_append, List.cons.injEq, true_and]
      exact ih
    · split
      · rename_i hr
        have : cs = [] := by
          by_cases hcs : cs = []
          · exact hcs
          · exact absurd hr (rawLines_ne_nil cs hcs)
        subst this
        right; simp [unlinesNL]
      · rename_i l t ls hr
        rw [hr] at ih
        simp only [List.map_cons, unlinesNL_cons, List.cons_append, List.cons.injEq, true_and] at ih ⊢
        exact ih

/-- a CR-free text is its lines re-joined with `\n`, except possibly for the final `\n` -/
theorem unlinesNL_lines_of_no_cr (s : Str) (h : '\r' ∉ s) :
    s = unlinesNL (lines s) ∨ s ++ ['\n'] = unlinesNL (lines s) := by
  rw [lines_of_no_cr s h]
  exact unlinesNL_rawLines s

end Deb822Verif.Text

/-! ### non-vacuity of the lemmas' hypotheses -/
namespace Deb822Verif.Text

example : lines (unlinesNL ["ab".toList, []] ++ "c\r".toList) = ["ab".toList, [], "c\r".toList] := by
  rw [lines_unlinesNL_append _ (by
    intro l hl; simp at hl
    rcases hl with rfl | rfl <;> constructor <;> decide)]
  decide
example : lines ['\r'] ≠ [] := lines_ne_nil _ (by decide)
example : lines "ab\r".toList = ["ab\r".toList] := by rw [lines_no_nl _ (by decide)]; decide
example : "ab\nc".toList = unlinesNL ["ab".toList, "cd".toList] ∨
    ∃ a l b u, ["ab".toList, "cd".toList] = a ++ l :: b ∧ u <+: l ∧ "ab\nc".toList = unlinesNL a ++ u :=
  prefix_unlinesNL _ _ (by decide)
example : ∀ l ∈ lines "a\nb".toList, LineOK l := lines_ok_of_no_cr _ (by decide)
example : "a\nb".toList = unlinesNL (lines "a\nb".toList) ∨ "a\nb".toList ++ ['\n'] = unlinesNL (lines "a\nb".toList) :=
  unlinesNL_lines_of_no_cr _ (by decide)
/-- the CR-freeness hypothesis of `unlinesNL_lines_of_no_cr` is needed -/
example : ¬ ("a\r\n".toList = unlinesNL (lines "a\r\n".toList) ∨
    "a\r\n".toList ++ ['\n'] = unlinesNL (lines "a\r\n".toList)) := by decide

end Deb822Verif.Text
