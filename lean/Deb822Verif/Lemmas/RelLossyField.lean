import Deb822Verif.Lemmas.RelAccessField
/-! The lossy relation reader on a well-formed, substvar-free field: it yields exactly
    `FieldA.view` (C10, stage 4). -/
set_option linter.unusedSimpArgs false
set_option linter.unusedVariables false
namespace Deb822Verif.Rel
open Deb822Verif Node RelSpec Lossy

/-! ### token level: one relation -/

theorem eatWs_ws (ws x : List Tok) (hws : ∀ t ∈ ws, isWsKind t.1 = true) (hx : NoWs x) :
    eatWs (ws ++ x) = x := by
  induction ws with
  | nil =>
    cases x with
    | nil => rfl
    | cons t r =>
      have := hx t (by simp)
      simp only [isWsKind, Bool.or_eq_false_iff, beq_eq_false_iff_ne] at this
      simp [eatWs, this.1, this.2]
  | cons w ws ih =>
    have hw := hws w (by simp)
    simp only [isWsKind, Bool.or_eq_true, beq_iff_eq] at hw
    simp [eatWs, hw, ih (fun t ht => hws t (by simp [ht]))]

theorem eatWs_gap (g : Gap) (x : List Tok) (hx : NoWs x) : eatWs (gapToks g ++ x) = x :=
  eatWs_ws _ _ (gapToks_ws g) hx

theorem eatWs_noWs (x : List Tok) (hx : NoWs x) : eatWs x = x := by
  simpa using eatWs_ws [] x (by simp) hx

theorem eatWs_idem (x : List Tok) : eatWs (eatWs x) = eatWs x := by
  induction x with
  | nil => rfl
  | cons t r ih =>
    by_cases h : t.1 = .WHITESPACE ∨ t.1 = .NEWLINE
    · simp [eatWs, h, ih]
    · simp [eatWs, h]

theorem constraintSpan_op (op : VC) (more : List Tok)
    (hm : ∀ t, more.head? = some t → t.1 ≠ .L_ANGLE ∧ t.1 ≠ .R_ANGLE ∧ t.1 ≠ .EQUAL) :
    constraintSpan (opToks op ++ more) = (op.display, more) := by
  have hstop : constraintSpan more = ([], more) := by
    cases more with
    | nil => simp [constraintSpan]
    | cons t r =>
      obtain ⟨a, b, c⟩ := hm t (by simp)
      simp [constraintSpan, a, b, c]
  cases op <;> simp [opToks, constraintSpan, hstop, VC.display]

/-- the version tokens followed by a gap and `)` -/
theorem versionSpan_ver (v : VersionA) (g : Gap) (more : List Tok) :
    versionSpan (v.toks ++ (gapToks g ++ (.R_PARENS, [')']) :: more))
      = .ok (v.str, gapToks g ++ (.R_PARENS, [')']) :: more) := by
  have hstop : versionSpan (gapToks g ++ (Kind.R_PARENS, [')']) :: more)
      = .ok ([], gapToks g ++ (Kind.R_PARENS, [')']) :: more) := by
    cases g with
    | nil => simp [gapToks, versionSpan]
    | cons p g => cases p <;> simp [gapToks, GapPiece.tok, versionSpan]
  have key : ∀ qs : List Str, versionSpan (colonTail qs ++ (gapToks g ++ (Kind.R_PARENS, [')']) :: more))
      = .ok ((qs.map fun q => ':' :: q).flatten, gapToks g ++ (Kind.R_PARENS, [')']) :: more) := by
    intro qs
    induction qs with
    | nil => simpa using hstop
    | cons q qs ih => simp [versionSpan, ih]
  rw [VersionA.str_eq]
  simp [VersionA.toks, versionSpan, key]

/-- the version block (its leading gap already eaten) -/
theorem readVersion_ver (v : VerPart) (more : List Tok) (hv : v.ok = true) :
    readVersion (vbody v ++ more) = .ok (some (v.op, v.ver.value), more) := by
  have hvok : v.ver.ok = true := ((VerPart.ok_iff v).1 hv).2.2.2.2
  have e1 : vbody v ++ more = (.L_PARENS, ['(']) ::
      (gapToks v.g2 ++ (opToks v.op ++ (gapToks v.g3 ++ (v.ver.toks ++ (gapToks v.g4 ++ (.R_PARENS, [')']) :: more))))) := by
    simp [vbody, VerPart.inner]
  have s2 := eatWs_gap v.g2 (opToks v.op ++ (gapToks v.g3 ++ (v.ver.toks ++ (gapToks v.g4 ++ (Kind.R_PARENS, [')']) :: more))))
    (opToks_noWs _ _)
  have c := constraintSpan_op v.op (gapToks v.g3 ++ (v.ver.toks ++ (gapToks v.g4 ++ (Kind.R_PARENS, [')']) :: more)))
    (gap_head_not (P := fun k => k ≠ .L_ANGLE ∧ k ≠ .R_ANGLE ∧ k ≠ .EQUAL) _ _ (by decide) (by decide) (by
      intro t ht
      simp [VersionA.toks] at ht; subst ht; simp))
  have s3 := eatWs_gap v.g3 (v.ver.toks ++ (gapToks v.g4 ++ (Kind.R_PARENS, [')']) :: more)) (verToks_noWs _ _)
  have s4 := eatWs_gap v.g4 ((Kind.R_PARENS, [')']) :: more) (noWs_cons _ _ rfl)
  rw [e1]
  simp [readVersion, s2, c, VC.parse_display, s3, versionSpan_ver, Version.parse_written _ hvok, s4]

theorem readVersion_none (x : List Tok) (h : ∀ t, x.head? = some t → t.1 ≠ .L_PARENS) :
    readVersion x = .ok (none, x) := by
  cases x with
  | nil => rfl
  | cons t r => simp [readVersion, h t (by simp)]

theorem lossy_archLoop_ws (ws x : List Tok) (hws : ∀ t ∈ ws, isWsKind t.1 = true) :
    Lossy.archLoop (ws ++ x) = Lossy.archLoop x := by
  induction ws with
  | nil => rfl
  | cons w ws ih =>
    have hw := hws w (by simp)
    simp only [isWsKind, Bool.or_eq_true, beq_iff_eq] at hw
    have h1 : w.1 ≠ .IDENT := by rcases hw with h | h <;> simp [h]
    have h2 : w.1 ≠ .NOT := by rcases hw with h | h <;> simp [h]
    simp only [List.cons_append]
    rw [Lossy.archLoop_cons]
    simp [h1, h2, hw, ih (fun t ht => hws t (by simp [ht]))]

/-- the architecture loop -/
theorem lossy_archLoop_items (is : List Item) (post : Gap) (more : List Tok) :
    Lossy.archLoop (itemsToks is ++ (gapToks post ++ (.R_BRACKET, [']']) :: more))
      = .ok (is.map Item.text, more) := by
  induction is with
  | nil =>
    simp only [itemsToks, List.map_nil, List.flatten_nil, List.nil_append]
    rw [lossy_archLoop_ws _ _ (gapToks_ws post), Lossy.archLoop_cons]
    simp
  | cons i is ih =>
    simp only [itemsToks, List.map_cons, List.flatten_cons, List.append_assoc] at ih ⊢
    cases hn : i.neg with
    | false =>
      simp only [Item.toks, hn, Bool.false_eq_true, ↓reduceIte, List.append_nil, List.append_assoc,
        List.cons_append, List.nil_append]
      rw [lossy_archLoop_ws _ _ (gapToks_ws i.gap), Lossy.archLoop_cons]
      simp [ih, Item.text, hn]
    | true =>
      simp only [Item.toks, hn, ↓reduceIte, List.append_assoc, List.cons_append, List.nil_append]
      rw [lossy_archLoop_ws _ _ (gapToks_ws i.gap), Lossy.archLoop_cons]
      simp [ih, Item.text, hn]

theorem readArchs_archs (a : Bracket) (more : List Tok) :
    readArchs (archBody a ++ more) = .ok (some (a.items.map Item.text), more) := by
  have := lossy_archLoop_items a.items a.post more
  simp [readArchs, archBody, Bracket.body, this]

theorem readArchs_none (x : List Tok) (h : ∀ t, x.head? = some t → t.1 ≠ .L_BRACKET) :
    readArchs x = .ok (none, x) := by
  cases x with
  | nil => rfl
  | cons t r => simp [readArchs, h t (by simp)]

theorem profTerms_ws (ws x : List Tok) (hws : ∀ t ∈ ws, isWsKind t.1 = true) :
    profTerms (ws ++ x) = profTerms x := by
  induction ws with
  | nil => rfl
  | cons w ws ih =>
    have hw := hws w (by simp)
    simp only [isWsKind, Bool.or_eq_true, beq_iff_eq] at hw
    have h1 : w.1 ≠ .IDENT := by rcases hw with h | h <;> simp [h]
    have h2 : w.1 ≠ .NOT := by rcases hw with h | h <;> simp [h]
    simp only [List.cons_append]
    rw [profTerms_cons]
    simp [h1, h2, hw, ih (fun t ht => hws t (by simp [ht]))]

/-- one restriction list -/
theorem profTerms_items (is : List Item) (post : Gap) (more : List Tok) :
    profTerms (itemsToks is ++ (gapToks post ++ (.R_ANGLE, ['>']) :: more))
      = .ok (is.map Item.profile, more) := by
  induction is with
  | nil =>
    simp only [itemsToks, List.map_nil, List.flatten_nil, List.nil_append]
    rw [profTerms_ws _ _ (gapToks_ws post), profTerms_cons]
    simp
  | cons i is ih =>
    simp only [itemsToks, List.map_cons, List.flatten_cons, List.append_assoc] at ih ⊢
    cases hn : i.neg with
    | false =>
      simp only [Item.toks, hn, Bool.false_eq_true, ↓reduceIte, List.append_nil, List.append_assoc,
        List.cons_append, List.nil_append]
      rw [profTerms_ws _ _ (gapToks_ws i.gap), profTerms_cons]
      simp [ih, Item.profile, hn]
    | true =>
      simp only [Item.toks, hn, ↓reduceIte, List.append_assoc, List.cons_append, List.nil_append]
      rw [profTerms_ws _ _ (gapToks_ws i.gap), profTerms_cons]
      simp [ih, Item.profile, hn]

theorem profBody_noWs (p : Bracket) (x : List Tok) : NoWs (profBody p ++ x) := by
  rw [profBody, Bracket.body, List.cons_append]; exact noWs_cons _ _ rfl

theorem eatWs_profsToks_head (ps : List Bracket) :
    ∀ t, (eatWs (profsToks ps)).head? = some t → t.1 = .L_ANGLE := by
  cases ps with
  | nil => intro t ht; simp [profsToks, eatWs] at ht
  | cons p ps =>
    rw [profsToks_cons, eatWs_gap _ _ (profBody_noWs _ _)]
    intro t ht
    simp [profBody, Bracket.body] at ht; subst ht; rfl

theorem lossy_profilesLoop_groups (ps : List Bracket) :
    Lossy.profilesLoop (eatWs (profsToks ps)) = .ok (ps.map fun g => g.items.map Item.profile, []) := by
  induction ps with
  | nil => simp [profsToks, eatWs, Lossy.profilesLoop]
  | cons p ps ih =>
    rw [profsToks_cons, eatWs_gap _ _ (profBody_noWs _ _)]
    have hb : profBody p ++ profsToks ps
        = (.L_ANGLE, ['<']) :: (itemsToks p.items ++ (gapToks p.post ++ (.R_ANGLE, ['>']) :: profsToks ps)) := by
      simp [profBody, Bracket.body]
    have hg := profTerms_items p.items p.post (profsToks ps)
    rw [hb, Lossy.profilesLoop]
    simp only [↓reduceIte]
    split
    · rename_i e hh; rw [hg] at hh; simp at hh
    · rename_i gs r2 hh
      rw [hg] at hh; simp at hh; obtain ⟨rfl, rfl⟩ := hh
      simp [ih]

/-- C10 stage 4, token level: the lossy relation reader on the tokens of a well-formed relation -/
theorem readRelationToks_rel (r : RelA) (hr : r.ok = true) :
    readRelationToks r.toks = .ok r.view := by
  obtain ⟨h1, h2, h3, h4, h5⟩ := (RelA.ok_iff r).1 hr
  rw [RelA.toks_eq]
  cases r with
  | mk name aq v a ps =>
  simp only at h1 h2 h3 h4 h5
  have P3 := lossy_profilesLoop_groups ps
  have H3 := eatWs_profsToks_head ps
  -- architectures
  have A2 : ∃ Y, readArchs (eatWs (archToks a ++ profsToks ps)) = .ok (a.map fun b => b.items.map Item.text, Y)
      ∧ eatWs Y = eatWs (profsToks ps) := by
    cases a with
    | none =>
      refine ⟨eatWs (profsToks ps), ?_, eatWs_idem _⟩
      simp only [archToks, List.nil_append, Option.map_none]
      exact readArchs_none _ (fun t ht e => by have := H3 t ht; rw [this] at e; cases e)
    | some b =>
      refine ⟨profsToks ps, ?_, rfl⟩
      simp only [archToks, List.append_assoc, Option.map_some]
      rw [eatWs_gap _ _ (by rw [archBody, Bracket.body, List.cons_append]; exact noWs_cons _ _ rfl),
        readArchs_archs b _]
  have H2 : ∀ t, (eatWs (archToks a ++ profsToks ps)).head? = some t → t.1 = .L_BRACKET ∨ t.1 = .L_ANGLE := by
    cases a with
    | none => intro t ht; exact Or.inr (H3 t (by simpa [archToks] using ht))
    | some b =>
      simp only [archToks, List.append_assoc]
      rw [eatWs_gap _ _ (by rw [archBody, Bracket.body, List.cons_append]; exact noWs_cons _ _ rfl)]
      intro t ht; simp [archBody, Bracket.body] at ht; subst ht; exact Or.inl rfl
  -- version
  have V1 : ∃ Y, readVersion (eatWs (verToks v ++ (archToks a ++ profsToks ps)))
        = .ok (v.map fun w => (w.op, w.ver.value), Y)
      ∧ eatWs Y = eatWs (archToks a ++ profsToks ps) := by
    cases v with
    | none =>
      refine ⟨eatWs (archToks a ++ profsToks ps), ?_, eatWs_idem _⟩
      simp only [verToks, List.nil_append, Option.map_none]
      exact readVersion_none _ (fun t ht e => by rcases H2 t ht with h | h <;> (rw [h] at e; cases e))
    | some w =>
      refine ⟨archToks a ++ profsToks ps, ?_, rfl⟩
      simp only [verToks, VerPart.toks_eq, List.append_assoc, Option.map_some]
      rw [eatWs_gap _ _ (by rw [vbody, List.cons_append]; exact noWs_cons _ _ rfl),
        readVersion_ver w _ (h3 w rfl)]
  have H1 : ∀ t, (eatWs (verToks v ++ (archToks a ++ profsToks ps))).head? = some t → t.1 ≠ .COLON := by
    cases v with
    | none =>
      intro t ht e
      rcases H2 t (by simpa [verToks] using ht) with h | h <;> (rw [h] at e; cases e)
    | some w =>
      simp only [verToks, VerPart.toks_eq, List.append_assoc]
      rw [eatWs_gap _ _ (by rw [vbody, List.cons_append]; exact noWs_cons _ _ rfl)]
      intro t ht; simp [vbody] at ht; subst ht; simp
  obtain ⟨Y2, hV, hY2⟩ := V1
  obtain ⟨Y3, hA, hY3⟩ := A2
  -- qualifier
  have A0 : ∃ Y, readArchqual (eatWs (aqToks aq ++ (verToks v ++ (archToks a ++ profsToks ps)))) = .ok (aq, Y)
      ∧ eatWs Y = eatWs (verToks v ++ (archToks a ++ profsToks ps)) := by
    cases aq with
    | some q =>
      refine ⟨_, ?_, rfl⟩
      simp [aqToks, eatWs, readArchqual]
    | none =>
      refine ⟨eatWs (verToks v ++ (archToks a ++ profsToks ps)), ?_, eatWs_idem _⟩
      simp only [aqToks, List.nil_append]
      cases hx : eatWs (verToks v ++ (archToks a ++ profsToks ps)) with
      | nil => rfl
      | cons t rest =>
        have := H1 t (by rw [hx]; rfl)
        simp [readArchqual, this]
  obtain ⟨Y1, hQ, hY1⟩ := A0
  simp only [readRelationToks, readName, ↓reduceIte, hQ, hY1, hV, hY2, hA, hY3, P3, eatWs, RelA.view]

/-! ### character level: `split(',')`, `split('|')`, `trim()` -/

theorem splitOn_clean (sep : Char) (a : Str) (h : sep ∉ a) : Text.splitOn sep a = [a] := by
  induction a with
  | nil => rfl
  | cons c cs ih =>
    have hc : c ≠ sep := fun e => h (by simp [e])
    have hcs : sep ∉ cs := fun e => h (by simp [e])
    simp [Text.splitOn, hc, ih hcs]

theorem splitOn_sep (sep : Char) (a rest : Str) (h : sep ∉ a) :
    Text.splitOn sep (a ++ sep :: rest) = a :: Text.splitOn sep rest := by
  induction a with
  | nil => simp [Text.splitOn]
  | cons c cs ih =>
    have hc : c ≠ sep := fun e => h (by simp [e])
    have hcs : sep ∉ cs := fun e => h (by simp [e])
    simp [Text.splitOn, hc, ih hcs]

/-- characters that are neither `,` nor `|` -/
def okStr (s : Str) : Bool := s.all fun c => c != ',' && c != '|'

theorem okStr_append (a b : Str) : okStr (a ++ b) = (okStr a && okStr b) := by simp [okStr]
theorem okStr_cons (c : Char) (s : Str) : okStr (c :: s) = ((c != ',' && c != '|') && okStr s) := by
  simp [okStr]
theorem okStr_nil : okStr [] = true := rfl

theorem okStr_not_mem {s : Str} (h : okStr s = true) : ',' ∉ s ∧ '|' ∉ s := by
  simp only [okStr, List.all_eq_true, Bool.and_eq_true, bne_iff_ne] at h
  exact ⟨fun e => (h _ e).1 rfl, fun e => (h _ e).2 rfl⟩

theorem okStr_ident {s : Str} (h : isIdent s = true) : okStr s = true := by
  obtain ⟨_, hall⟩ := (isIdent_iff s).1 h
  simp only [okStr, List.all_eq_true, Bool.and_eq_true, bne_iff_ne]
  intro c hc
  have := hall c hc
  constructor <;> (intro e; rw [e] at this; exact absurd this (by decide))

theorem okStr_gap {g : Gap} (h : gapOk g = true) : okStr (gapStr g) = true := by
  induction g with
  | nil => rfl
  | cons p g ih =>
    cases p with
    | nl =>
      have e : gapStr (.nl :: g) = '\n' :: gapStr g := rfl
      rw [e, okStr_cons, ih (gapOk_cons_nl h)]; rfl
    | ws s =>
      obtain ⟨_, hs, hg', _⟩ := gapOk_cons_ws h
      have e : gapStr (.ws s :: g) = s ++ gapStr g := rfl
      rw [e, okStr_append, ih hg', Bool.and_true]
      simp only [okStr, List.all_eq_true, Bool.and_eq_true, bne_iff_ne]
      intro c hc
      have hw := hs c hc
      constructor <;> (intro e; rw [e] at hw; exact absurd hw (by decide))

theorem okStr_op (op : VC) : okStr op.display = true := by cases op <;> rfl

theorem okStr_version (v : VersionA) (hv : v.ok = true) : okStr v.str = true := by
  obtain ⟨hb, hm, _⟩ := (VersionA.ok_iff v).1 hv
  have key : ∀ qs : List Str, (∀ q ∈ qs, isIdent q = true) → okStr (qs.map fun q => ':' :: q).flatten = true := by
    intro qs hqs
    induction qs with
    | nil => rfl
    | cons q qs ih =>
      simp [okStr_append, okStr_cons, okStr_ident (hqs q (by simp)), ih (fun x hx => hqs x (by simp [hx]))]
  rw [VersionA.str_eq, okStr_append, okStr_ident hb, key _ hm]; rfl

theorem okStr_verPart (p : VerPart) (hp : p.ok = true) : okStr p.str = true := by
  obtain ⟨h1, h2, h3, h4, hv⟩ := (VerPart.ok_iff p).1 hp
  simp [VerPart.str, okStr_append, okStr_cons, okStr_gap h1, okStr_gap h2, okStr_gap h3, okStr_gap h4,
    okStr_op, okStr_version _ hv, okStr_nil]

theorem okStr_items (is : List Item) (h : ∀ i ∈ is, i.ok = true) : okStr (is.map Item.str).flatten = true := by
  induction is with
  | nil => rfl
  | cons i is ih =>
    obtain ⟨hg, hn⟩ := (Item.ok_iff i).1 (h i (by simp))
    have := ih (fun j hj => h j (by simp [hj]))
    cases hneg : i.neg <;>
      simp [Item.str, Item.text, hneg, okStr_append, okStr_cons, okStr_gap hg, okStr_ident hn, this, okStr_nil]

theorem okStr_bracket (o c : Char) (b : Bracket) (hb : b.ok = true)
    (ho : (o != ',' && o != '|') = true) (hc : (c != ',' && c != '|') = true) : okStr (b.str o c) = true := by
  obtain ⟨h1, h2, h4, _⟩ := (Bracket.ok_iff b).1 hb
  simp [Bracket.str, okStr_append, okStr_cons, okStr_gap h1, okStr_gap h2, okStr_items _ h4, ho, hc, okStr_nil]

theorem okStr_rel (r : RelA) (hr : r.ok = true) : okStr r.str = true := by
  obtain ⟨h1, h2, h3, h4, h5⟩ := (RelA.ok_iff r).1 hr
  rw [RelA.str_eq]
  have e1 : okStr (aqStr r.archqual) = true := by
    cases ha : r.archqual with
    | none => rfl
    | some a => simp [aqStr, okStr_cons, okStr_ident (h2 a ha)]
  have e2 : okStr (verStr r.version) = true := by
    cases hv : r.version with
    | none => rfl
    | some v => exact okStr_verPart v (h3 v hv)
  have e3 : okStr (archStr r.archs) = true := by
    cases ha : r.archs with
    | none => rfl
    | some a => exact okStr_bracket '[' ']' a (h4 a ha) (by decide) (by decide)
  have e4 : okStr (profsStr r.profiles) = true := by
    have : ∀ ps : List Bracket, (∀ p ∈ ps, p.ok = true) → okStr (profsStr ps) = true := by
      intro ps hps
      induction ps with
      | nil => rfl
      | cons p ps ih =>
        simp only [profsStr, List.map_cons, List.flatten_cons, okStr_append] at ih ⊢
        rw [okStr_bracket '<' '>' p (hps p (by simp)) (by decide) (by decide),
          ih (fun q hq => hps q (by simp [hq]))]; rfl
    exact this _ h5
  simp [okStr_append, okStr_ident h1, e1, e2, e3, e4]

/-! trimming -/

theorem ws_isWhitespace {c : Char} (h : isWs c = true) : Text.isWhitespace c = true := by
  simp only [isWs, Bool.or_eq_true, beq_iff_eq] at h
  rcases h with (rfl | rfl) | rfl <;> decide

theorem gap_allWhitespace {g : Gap} (h : gapOk g = true) : ∀ c ∈ gapStr g, Text.isWhitespace c = true := by
  induction g with
  | nil => intro c hc; simp [gapStr] at hc
  | cons p g ih =>
    cases p with
    | nl =>
      intro c hc
      simp only [gapStr, List.map_cons, List.flatten_cons, GapPiece.str, List.mem_append,
        List.mem_singleton] at hc
      rcases hc with rfl | hc
      · decide
      · exact ih (gapOk_cons_nl h) c hc
    | ws s =>
      obtain ⟨_, hs, hg', _⟩ := gapOk_cons_ws h
      intro c hc
      simp only [gapStr, List.map_cons, List.flatten_cons, GapPiece.str, List.mem_append] at hc
      rcases hc with hc | hc
      · exact ws_isWhitespace (hs c hc)
      · exact ih hg' c hc

/-- a text that starts and ends with a non-whitespace character -/
def Solid (s : Str) : Prop :=
  (∃ c t, s = c :: t ∧ Text.isWhitespace c = false) ∧ (∃ i c, s = i ++ [c] ∧ Text.isWhitespace c = false)

theorem trim_solid (g1 g2 : Gap) (s : Str) (h1 : gapOk g1 = true) (h2 : gapOk g2 = true) (hs : Solid s) :
    Text.trim (gapStr g1 ++ (s ++ gapStr g2)) = s := by
  obtain ⟨⟨c, t, e1, hc⟩, ⟨i, d, e2, hd⟩⟩ := hs
  have hstart : Text.trimStart (gapStr g1 ++ (s ++ gapStr g2)) = s ++ gapStr g2 := by
    unfold Text.trimStart
    exact dropWhile_app _ _ _ (gap_allWhitespace h1) (by rw [e1]; exact headFails_cons _ _ _ hc)
  have hend : Text.trimEnd (s ++ gapStr g2) = s := by
    unfold Text.trimEnd
    have : (s ++ gapStr g2).reverse = (gapStr g2).reverse ++ (d :: i.reverse) := by
      rw [e2]; simp
    rw [this, dropWhile_app _ _ _ (fun x hx => gap_allWhitespace h2 x (by simpa using hx))
      (headFails_cons _ _ _ hd), e2]
    simp
  simp [Text.trim, hstart, hend]

theorem trim_gap (g : Gap) (h : gapOk g = true) : Text.trim (gapStr g) = [] := by
  have : Text.trimStart (gapStr g) = [] := by
    unfold Text.trimStart
    have := dropWhile_app Text.isWhitespace (gapStr g) [] (gap_allWhitespace h) (headFails_nil _)
    simpa using this
  simp [Text.trim, this, Text.trimEnd]

theorem identChar_not_whitespace {c : Char} (h : isIdentChar c = true) : Text.isWhitespace c = false := by
  cases hw : Text.isWhitespace c with
  | false => rfl
  | true =>
    exfalso
    simp only [Text.isWhitespace, Bool.or_eq_true, Bool.and_eq_true, decide_eq_true_eq, beq_iff_eq] at hw
    simp only [isIdentChar, isAsciiAlnum, Bool.or_eq_true, Bool.and_eq_true, decide_eq_true_eq,
      beq_iff_eq] at h
    have hn : c.toNat = 45 ∨ c.toNat = 46 ∨ c.toNat = 43 ∨ c.toNat = 126 ∨ (48 ≤ c.toNat ∧ c.toNat ≤ 57)
        ∨ (65 ≤ c.toNat ∧ c.toNat ≤ 90) ∨ (97 ≤ c.toNat ∧ c.toNat ≤ 122) := by
      rcases h with (((h | h) | h) | h) | h
      · rcases h with (h | h) | h
        · exact Or.inr (Or.inr (Or.inr (Or.inr (Or.inl h))))
        · exact Or.inr (Or.inr (Or.inr (Or.inr (Or.inr (Or.inl h)))))
        · exact Or.inr (Or.inr (Or.inr (Or.inr (Or.inr (Or.inr h)))))
      · exact Or.inl (by rw [h]; rfl)
      · exact Or.inr (Or.inl (by rw [h]; rfl))
      · exact Or.inr (Or.inr (Or.inl (by rw [h]; rfl)))
      · exact Or.inr (Or.inr (Or.inr (Or.inl (by rw [h]; rfl))))
    omega

/-- ends with a non-whitespace character -/
def EndsSolid (s : Str) : Prop := ∃ i c, s = i ++ [c] ∧ Text.isWhitespace c = false

theorem endsSolid_append (a b : Str) (h : EndsSolid b) : EndsSolid (a ++ b) := by
  obtain ⟨i, c, e, hc⟩ := h
  exact ⟨a ++ i, c, by rw [e]; simp, hc⟩

theorem endsSolid_ident (s : Str) (h : isIdent s = true) : EndsSolid s := by
  obtain ⟨hne, hall⟩ := (isIdent_iff s).1 h
  have := List.dropLast_concat_getLast hne
  refine ⟨s.dropLast, s.getLast hne, this.symm, identChar_not_whitespace (hall _ (List.getLast_mem hne))⟩

theorem endsSolid_rel (r : RelA) (hr : r.ok = true) : EndsSolid r.str := by
  obtain ⟨h1, h2, _, _, _⟩ := (RelA.ok_iff r).1 hr
  rw [RelA.str_eq]
  -- from the right: the last present part decides
  have key : ∀ (a b : Str), (b = [] → EndsSolid a) → (b ≠ [] → EndsSolid b) → EndsSolid (a ++ b) := by
    intro a b h1 h2
    by_cases hb : b = []
    · subst hb; simpa using h1 rfl
    · exact endsSolid_append a b (h2 hb)
  have eprofs : profsStr r.profiles ≠ [] → EndsSolid (profsStr r.profiles) := by
    intro _
    have : ∀ ps : List Bracket, ps ≠ [] → EndsSolid (profsStr ps) := by
      intro ps hps
      induction ps with
      | nil => exact absurd rfl hps
      | cons p ps ih =>
        simp only [profsStr, List.map_cons, List.flatten_cons]
        cases ps with
        | nil =>
          simp only [List.map_nil, List.flatten_nil, List.append_nil, Bracket.str]
          exact ⟨gapStr p.pre ++ '<' :: ((p.items.map Item.str).flatten ++ gapStr p.post), '>',
            by simp [List.append_assoc], by decide⟩
        | cons q qs => exact endsSolid_append _ _ (ih (by simp))
    cases hps : r.profiles with
    | nil => simp [hps, profsStr] at *
    | cons p ps => exact this _ (by simp)
  have earch : archStr r.archs ≠ [] → EndsSolid (archStr r.archs) := by
    intro hne
    cases ha : r.archs with
    | none => simp [ha, archStr] at hne
    | some a =>
      exact ⟨gapStr a.pre ++ '[' :: ((a.items.map Item.str).flatten ++ gapStr a.post), ']',
        by simp [archStr, Bracket.str, List.append_assoc], by decide⟩
  have ever : verStr r.version ≠ [] → EndsSolid (verStr r.version) := by
    intro hne
    cases hv : r.version with
    | none => simp [hv, verStr] at hne
    | some v =>
      exact ⟨gapStr v.pre ++ '(' :: (gapStr v.g2 ++ (v.op.display ++ (gapStr v.g3 ++ (v.ver.str ++ gapStr v.g4)))),
        ')', by simp [verStr, VerPart.str, List.append_assoc], by decide⟩
  have eaq : aqStr r.archqual ≠ [] → EndsSolid (aqStr r.archqual) := by
    intro hne
    cases ha : r.archqual with
    | none => simp [ha, aqStr] at hne
    | some a => exact endsSolid_append [':'] a (endsSolid_ident a (h2 a ha))
  refine key _ _ (fun e1 => ?_) (fun hne => ?_)
  · exact endsSolid_ident _ h1
  · -- aq ++ ver ++ arch ++ profs nonempty
    refine key _ _ (fun e2 => eaq (by simpa [e2] using hne)) (fun hne2 => ?_)
    refine key _ _ (fun e3 => ever (by simpa [e3] using hne2)) (fun hne3 => ?_)
    exact key _ _ (fun e4 => earch (by simpa [e4] using hne3)) eprofs

theorem solid_rel (r : RelA) (hr : r.ok = true) : Solid r.str := by
  refine ⟨?_, endsSolid_rel r hr⟩
  obtain ⟨h1, _⟩ := (RelA.ok_iff r).1 hr
  obtain ⟨hne, hall⟩ := (isIdent_iff _).1 h1
  rw [RelA.str_eq]
  cases hn : r.name with
  | nil => exact absurd hn hne
  | cons c t =>
    exact ⟨c, _, rfl, identChar_not_whitespace (hall c (by simp [hn]))⟩


/-! ### entries and the whole field -/

theorem mapM_ok_of_forall {α β ε} (f : α → Except ε β) (g : α → β) (l : List α)
    (h : ∀ x ∈ l, f x = .ok (g x)) : l.mapM f = .ok (l.map g) := by
  induction l with
  | nil => rfl
  | cons a as ih =>
    have h1 := h a (by simp)
    have h2 := ih (fun x hx => h x (by simp [hx]))
    simp [List.mapM_cons, h1, h2, bind, Except.bind, pure, Except.pure]

/-- the pieces `split('|')` cuts an entry into: each relation with the gaps around it -/
def altPieces (g1 : Gap) (r : RelA) : List AltA → List Str
  | [] => [gapStr g1 ++ (r.str ++ gapStr [])]
  | a :: as => (gapStr g1 ++ (r.str ++ gapStr a.gb)) :: altPieces a.ga a.rel as

theorem altsStr_cons (a : AltA) (as : List AltA) :
    altsStr (a :: as) = gapStr a.gb ++ '|' :: (gapStr a.ga ++ (a.rel.str ++ altsStr as)) := by
  simp [altsStr, AltA.str]

theorem splitOn_alts (g1 : Gap) (r : RelA) (as : List AltA) (hg : gapOk g1 = true) (hr : r.ok = true)
    (has : ∀ a ∈ as, a.ok = true) :
    Text.splitOn '|' (gapStr g1 ++ (r.str ++ altsStr as)) = altPieces g1 r as := by
  induction as generalizing g1 r with
  | nil =>
    have : '|' ∉ gapStr g1 ++ (r.str ++ gapStr []) := by
      have := okStr_not_mem (s := gapStr g1 ++ (r.str ++ gapStr [])) (by
        simp [okStr_append, okStr_gap hg, okStr_rel r hr, show gapStr [] = [] from rfl, okStr_nil])
      exact this.2
    simpa [altsStr, altPieces, gapStr] using splitOn_clean '|' _ this
  | cons a as ih =>
    obtain ⟨h1, h2, h3⟩ := (AltA.ok_iff a).1 (has a (by simp))
    have hn : '|' ∉ gapStr g1 ++ (r.str ++ gapStr a.gb) :=
      (okStr_not_mem (s := gapStr g1 ++ (r.str ++ gapStr a.gb)) (by
        simp [okStr_append, okStr_gap hg, okStr_rel r hr, okStr_gap h1])).2
    have := splitOn_sep '|' _ (gapStr a.ga ++ (a.rel.str ++ altsStr as)) hn
    rw [altsStr_cons]
    simp only [List.append_assoc] at this ⊢
    rw [this, ih a.ga a.rel h2 h3 (fun b hb => has b (by simp [hb]))]
    rfl

theorem readAlt_piece (g1 g2 : Gap) (r : RelA) (h1 : gapOk g1 = true) (h2 : gapOk g2 = true)
    (hr : r.ok = true) :
    readAlt (gapStr g1 ++ (r.str ++ gapStr g2)) = .ok r.view := by
  have ht := trim_solid g1 g2 r.str h1 h2 (solid_rel r hr)
  have hne : (r.str).isEmpty = false := by
    obtain ⟨⟨c, t, e, _⟩, _⟩ := solid_rel r hr
    rw [e]; rfl
  have hlex : lex r.str = r.toks := by
    have := lex_rel r [] hr (headFails_nil _)
    simpa [lex_nil] using this
  simp [readAlt, ht, hne, Lossy.readRelation, hlex, readRelationToks_rel r hr]

theorem mapM_altPieces (g1 : Gap) (r : RelA) (as : List AltA) (hg : gapOk g1 = true)
    (hr : r.ok = true) (has : ∀ a ∈ as, a.ok = true) :
    (altPieces g1 r as).mapM readAlt = .ok (r.view :: as.map fun a => a.rel.view) := by
  induction as generalizing g1 r with
  | nil =>
    have := readAlt_piece g1 [] r hg rfl hr
    simp [altPieces, List.mapM_cons, this, bind, Except.bind, pure, Except.pure]
  | cons a as ih =>
    obtain ⟨h1, h2, h3⟩ := (AltA.ok_iff a).1 (has a (by simp))
    have hp := readAlt_piece g1 a.gb r hg h1 hr
    have := ih a.ga a.rel h2 h3 (fun b hb => has b (by simp [hb]))
    simp [altPieces, List.mapM_cons, hp, this, bind, Except.bind, pure, Except.pure]

theorem endsSolid_alts (r : RelA) (as : List AltA) (hr : r.ok = true) (has : ∀ a ∈ as, a.ok = true) :
    EndsSolid (r.str ++ altsStr as) := by
  induction as generalizing r with
  | nil => simpa [altsStr] using endsSolid_rel r hr
  | cons a as ih =>
    obtain ⟨_, _, h3⟩ := (AltA.ok_iff a).1 (has a (by simp))
    rw [altsStr_cons]
    have := ih a.rel h3 (fun b hb => has b (by simp [hb]))
    have e : r.str ++ (gapStr a.gb ++ '|' :: (gapStr a.ga ++ (a.rel.str ++ altsStr as)))
        = (r.str ++ (gapStr a.gb ++ '|' :: gapStr a.ga)) ++ (a.rel.str ++ altsStr as) := by simp
    rw [e]; exact endsSolid_append _ _ this

/-- an entry the lossy reader must handle: not a substitution variable -/
def segLossyOk (s : Seg) : Prop := s.entry.isSubstvar = false

theorem readEntry_seg (s : Seg) (hs : s.ok = true) (hl : segLossyOk s) :
    Lossy.readEntry s.str = .ok s.entry.view := by
  obtain ⟨h1, h2, h3, h4⟩ := (Seg.ok_iff s).1 hs
  cases he : s.entry with
  | empty =>
    have hpost : s.post = [] := h4 (by simp [he, EntryA.isEmpty])
    simp [Lossy.readEntry, Seg.str, he, EntryA.str, hpost, gapStr, EntryA.view]
    have := trim_gap s.pre h1
    simp only [gapStr] at this
    simp [this]
  | substvar p ps => have := hl; simp [segLossyOk, he, EntryA.isSubstvar] at this
  | alts r as =>
    rw [he] at h3
    simp only [EntryA.ok, Bool.and_eq_true, List.all_eq_true] at h3
    have estr : (EntryA.alts r as).str = r.str ++ altsStr as := by simp [EntryA.str, altsStr]
    have hsolid : Solid (r.str ++ altsStr as) := by
      refine ⟨?_, endsSolid_alts r as h3.1 h3.2⟩
      obtain ⟨⟨c, t, e, hc⟩, _⟩ := solid_rel r h3.1
      exact ⟨c, t ++ altsStr as, by rw [e]; rfl, hc⟩
    have ht := trim_solid s.pre s.post _ h1 h2 hsolid
    have hne : (r.str ++ altsStr as).isEmpty = false := by
      obtain ⟨⟨c, t, e, _⟩, _⟩ := hsolid
      rw [e]; rfl
    have hsplit := splitOn_alts [] r as rfl h3.1 h3.2
    simp only [gapStr, List.map_nil, List.flatten_nil, List.nil_append] at hsplit
    have hm := mapM_altPieces [] r as rfl h3.1 h3.2
    simp only [List.append_assoc] at ht
    simp only [Lossy.readEntry, Seg.str, he, estr, List.append_assoc, ht, hne, Bool.false_eq_true, ↓reduceIte,
      hsplit, hm, EntryA.view]

theorem noComma_seg (s : Seg) (hs : s.ok = true) : ',' ∉ s.str := by
  obtain ⟨h1, h2, h3, _⟩ := (Seg.ok_iff s).1 hs
  have g1 := (okStr_not_mem (okStr_gap h1)).1
  have g2 := (okStr_not_mem (okStr_gap h2)).1
  have he : ',' ∉ s.entry.str := by
    cases hen : s.entry with
    | empty => simp [EntryA.str]
    | substvar p ps =>
      rw [hen] at h3
      simp only [EntryA.ok, Bool.and_eq_true, List.all_eq_true] at h3
      have hp := (okStr_not_mem (okStr_ident h3.1)).1
      have : ∀ qs : List Str, (∀ q ∈ qs, isIdent q = true) → ',' ∉ (qs.map fun q => ':' :: q).flatten := by
        intro qs hqs
        induction qs with
        | nil => simp
        | cons q qs ih =>
          have hq := (okStr_not_mem (okStr_ident (hqs q (by simp)))).1
          have := ih (fun x hx => hqs x (by simp [hx]))
          simp [hq, this]
      have hps := this ps h3.2
      simp [EntryA.str, hp, hps]
    | alts r as =>
      rw [hen] at h3
      simp only [EntryA.ok, Bool.and_eq_true, List.all_eq_true] at h3
      have hr := (okStr_not_mem (okStr_rel r h3.1)).1
      have : ∀ bs : List AltA, (∀ b ∈ bs, b.ok = true) → ',' ∉ (bs.map AltA.str).flatten := by
        intro bs hbs
        induction bs with
        | nil => simp
        | cons b bs ih =>
          obtain ⟨b1, b2, b3⟩ := (AltA.ok_iff b).1 (hbs b (by simp))
          have c1 := (okStr_not_mem (okStr_gap b1)).1
          have c2 := (okStr_not_mem (okStr_gap b2)).1
          have c3 := (okStr_not_mem (okStr_rel b.rel b3)).1
          have := ih (fun x hx => hbs x (by simp [hx]))
          simp [AltA.str, c1, c2, c3, this]
      have has := this as h3.2
      simp [EntryA.str, hr, has]
  simp [Seg.str, g1, g2, he]

theorem splitOn_segs (s : Seg) (ss : List Seg) (h : ∀ x ∈ s :: ss, x.ok = true) :
    Text.splitOn ',' (segsStr (s :: ss)) = (s :: ss).map Seg.str := by
  induction ss generalizing s with
  | nil => simpa [segsStr, Text.join] using splitOn_clean ',' _ (noComma_seg s (h s (by simp)))
  | cons t ts ih =>
    have := splitOn_sep ',' s.str (segsStr (t :: ts)) (noComma_seg s (h s (by simp)))
    have ih' := ih t (fun x hx => h x (List.mem_cons_of_mem _ hx))
    simp only [segsStr, List.map_cons, Text.join, List.singleton_append, List.append_assoc,
      List.cons_append, List.nil_append] at this ih' ⊢
    rw [this, ih']

theorem view_nil_of_str_nil (f : FieldA) (h : f.WF) (he : f.str = []) : f.view = [] := by
  have ht : f.toks = [] := by rw [← lex_field f h, he, lex_nil]
  have : ∀ s ∈ f.segs, s.entry.view = none := by
    intro s hs
    cases hsegs : f.segs with
    | nil => rw [hsegs] at hs; simp at hs
    | cons a as =>
      cases as with
      | cons b bs => simp [FieldA.toks, hsegs, segsToks, commaTok] at ht
      | nil =>
        rw [hsegs] at hs; simp at hs; subst hs
        simp only [FieldA.toks, hsegs, segsToks, Seg.toks, List.append_eq_nil_iff] at ht
        cases hen : s.entry with
        | empty => rfl
        | substvar p ps => rfl
        | alts r as => rw [hen] at ht; simp [EntryA.toks, RelA.toks] at ht
  simp only [FieldA.view]
  rw [List.filterMap_eq_nil_iff]
  exact this

/-- C10 stage 4: the lossy reader on a well-formed, substvar-free field -/
theorem readRelations_field (f : FieldA) (h : f.WF) (hs : f.hasSubstvar = false) :
    Lossy.readRelations f.str = .ok f.view := by
  have hok : ∀ s ∈ f.segs, s.ok = true := by
    simpa [FieldA.WF, FieldA.ok, List.all_eq_true] using h
  have hseg : ∀ s ∈ f.segs, segLossyOk s := by
    intro s hm
    have := hs
    simp only [FieldA.hasSubstvar, List.any_eq_false] at this
    simpa [segLossyOk] using this s hm
  by_cases hemp : f.str = []
  · simp [Lossy.readRelations, hemp, view_nil_of_str_nil f h hemp]
  · have hne : f.str.isEmpty = false := by cases hstr : f.str <;> simp [hstr] at hemp ⊢
    cases hsegs : f.segs with
    | nil => simp [FieldA.str, hsegs, Text.join] at hemp
    | cons s ss =>
      rw [hsegs] at hok hseg
      have hsplit := splitOn_segs s ss hok
      have hstr : f.str = segsStr (s :: ss) := by simp [FieldA.str, segsStr, hsegs]
      have hmap : ((s :: ss).map Seg.str).mapM Lossy.readEntry = .ok ((s :: ss).map fun x => x.entry.view) := by
        have : ∀ (l : List Seg), (∀ x ∈ l, x.ok = true) → (∀ x ∈ l, segLossyOk x) →
            (l.map Seg.str).mapM Lossy.readEntry = .ok (l.map fun x => x.entry.view) := by
          intro l h1 h2
          induction l with
          | nil => rfl
          | cons a as ih =>
            have e1 := readEntry_seg a (h1 a (by simp)) (h2 a (by simp))
            have e2 := ih (fun x hx => h1 x (by simp [hx])) (fun x hx => h2 x (by simp [hx]))
            simp [List.mapM_cons, e1, e2, bind, Except.bind, pure, Except.pure]
        exact this _ hok hseg
      simp only [Lossy.readRelations, hne, Bool.false_eq_true, ↓reduceIte, hstr ▸ hsplit]
      rw [hstr] at hne
      simp only [hstr, hsplit, hmap, FieldA.view, hsegs]
      have : ∀ l : List Seg, List.filterMap id (l.map fun x => x.entry.view) = l.filterMap fun x => x.entry.view := by
        intro l; rw [List.filterMap_map]; rfl
      exact congrArg Except.ok (this (s :: ss))

end Deb822Verif.Rel
