import Deb822Verif.Lemmas.DebTokAgree
import Deb822Verif.Spec.DocS
/-!
  What the lossless reader can return for an ARBITRARY accepted text: every field name is a valid
  key, every value is the `\n`-join of VALUE-token texts that are non-empty, free of line
  terminators, do not start with space/tab, and — from the second one on — do not start with `#`.
  Proved from the lexer model (`Ly`, a suffix-closed token invariant) through the parser model.
-/
namespace Deb822Verif.Deb
open Deb822Verif Node Spec

/-- a value line as the lexer produces it -/
def LineP (x : Str) : Prop :=
  x ≠ [] ∧ (∀ c ∈ x, isNewline c = false) ∧ (∀ c, x.head? = some c → isIndent c = false)

def NoHash (x : Str) : Prop := x.head? ≠ some '#'

/-- `b`: a KEY token was seen on the current line (the lexer's `start_of_line` is false) -/
def TokOK (b : Bool) (t : Tok) : Prop :=
  (t.1 = .VALUE → LineP t.2 ∧ (b = false → NoHash t.2)) ∧ (t.1 = .KEY → ValidKey t.2)

def nextFlag (b : Bool) (k : Kind) : Bool :=
  if k = .KEY then true else if k = .NEWLINE ∨ k = .COMMENT then false else b

def Ly (b : Bool) : List Tok → Prop
  | [] => True
  | t :: ts => TokOK b t ∧ Ly (nextFlag b t.1) ts

theorem mem_takeWhile_key (rest : Str) : ∀ c ∈ rest.takeWhile isKeyChar, isKeyChar c = true := by
  induction rest with
  | nil => intro c h; simp at h
  | cons a rest ih =>
    intro c h
    simp only [List.takeWhile_cons] at h
    split at h
    · rename_i ha
      simp only [List.mem_cons] at h
      rcases h with rfl | h
      · exact ha
      · exact ih c h
    · simp at h

theorem lexStep_flag (st : LexState) (c : Char) (rest : Str) :
    (!(lexStep st c rest).2.1.sol) = nextFlag (!st.sol) (lexStep st c rest).1.1 := by
  unfold lexStep nextFlag
  (repeat' split) <;> simp_all

theorem tokOK_other (b : Bool) (k : Kind) (x : Str) (h1 : k ≠ .VALUE) (h2 : k ≠ .KEY) : TokOK b (k, x) :=
  ⟨fun h => absurd h h1, fun h => absurd h h2⟩

theorem lexStep_tokOK (st : LexState) (c : Char) (rest : Str) : TokOK (!st.sol) (lexStep st c rest).1 := by
  unfold lexStep
  split
  · exact tokOK_other _ _ _ (by decide) (by decide)
  · split
    · exact tokOK_other _ _ _ (by decide) (by decide)
    · rename_i hnl
      split
      · split <;> exact tokOK_other _ _ _ (by decide) (by decide)
      · rename_i hind
        split
        · exact tokOK_other _ _ _ (by decide) (by decide)
        · rename_i hcom
          split
          · rename_i hkey
            refine ⟨fun h => by simp at h, fun _ => ?_⟩
            simp only [Bool.and_eq_true, beq_iff_eq] at hkey
            refine ⟨c, rest.takeWhile isKeyChar, rfl, hkey.1.1, ?_, mem_takeWhile_key rest⟩
            intro hc
            apply hcom
            simp [hc, hkey.1.2]
          · split
            · refine ⟨fun _ => ⟨⟨by simp, ?_, ?_⟩, ?_⟩, fun h => by simp at h⟩
              · intro x hx
                simp only [List.mem_cons] at hx
                rcases hx with rfl | hx
                · simpa using hnl
                · exact mem_takeWhile_notNl rest x hx
              · intro x hx
                simp only [List.head?_cons, Option.some.injEq] at hx
                subst hx; simpa using hind
              · intro hs
                simp only [NoHash, List.head?_cons, ne_eq, Option.some.injEq]
                intro hc
                apply hcom
                simp only [Bool.not_eq_eq_eq_not, Bool.not_false] at hs
                simp [hc, hs]
            · exact tokOK_other _ _ _ (by decide) (by decide)

theorem lexAux_ly (st : LexState) (input : Str) : Ly (!st.sol) (lexAux st input) := by
  fun_induction lexAux st input with
  | case1 => trivial
  | case2 st c rest r ih =>
    refine ⟨lexStep_tokOK st c rest, ?_⟩
    rw [← lexStep_flag]
    exact ih

theorem lex_ly (s : Str) : Ly false (lex s) := lexAux_ly initState s

theorem Ly_suffix (a c : List Tok) (b : Bool) (h : Ly b (a ++ c)) : ∃ b', Ly b' c := by
  induction a generalizing b with
  | nil => exact ⟨b, h⟩
  | cons t a ih => exact ih _ h.2

theorem Ly_of_suffix {nodes : List DNode} {rest ts : List Tok} (h : leavesList nodes ++ rest = ts)
    {b : Bool} (hl : Ly b ts) : ∃ b', Ly b' rest := by
  rw [← h] at hl; exact Ly_suffix _ _ _ hl

theorem Lx_of_suffix {nodes : List DNode} {rest ts : List Tok} (h : leavesList nodes ++ rest = ts)
    {p : Kind} (hl : Lx p ts) : Lx .KEY rest := by
  rw [← h] at hl; exact Lx_append_right _ _ hl

/-! ### value lines of an entry -/

def GoodLines (L : List Str) : Prop := (∀ l ∈ L, LineP l) ∧ ∀ l ∈ L.tail, NoHash l

def GoodField (f : Str × Str) : Prop :=
  ValidKey f.1 ∧ ∃ L, f.2 = Text.join ['\n'] L ∧ GoodLines L

theorem nextFlag_other (b : Bool) (k : Kind) (h1 : k ≠ .KEY) (h2 : k ≠ .NEWLINE) (h3 : k ≠ .COMMENT) :
    nextFlag b k = b := by simp [nextFlag, h1, h2, h3]

/-- `skip_ws`: WHITESPACE and COMMENT tokens; a flag that was false stays false -/
theorem skipWs_spec (ts : List Tok) (b : Bool) (h : Ly b ts) :
    valTexts (skipWs ts).1 = [] ∧ ∃ b', Ly b' (skipWs ts).2 ∧ (b = false → b' = false) := by
  induction ts generalizing b with
  | nil => exact ⟨rfl, b, trivial, id⟩
  | cons t ts ih =>
    unfold skipWs
    split
    · rename_i hk
      obtain ⟨h1, b', h2, h3⟩ := ih _ h.2
      refine ⟨?_, b', h2, ?_⟩
      · have : t.1 ≠ .VALUE := by rcases hk with hk | hk <;> rw [hk] <;> decide
        simp only []
        rw [valTexts_other _ _ this]; exact h1
      · intro hb
        apply h3
        rcases hk with hk | hk
        · rw [hk, nextFlag_other _ _ (by decide) (by decide) (by decide)]; exact hb
        · rw [hk]; simp [nextFlag]
    · exact ⟨rfl, b, h, id⟩

/-- `bumpVals`: blanks and at most one VALUE token (a VALUE ends its line) -/
theorem bumpVals_spec (ts : List Tok) (b : Bool) (p : Kind) (h : Ly b ts) (hx : Lx p ts) :
    (valTexts (bumpVals ts).1 = [] ∨ ∃ x, valTexts (bumpVals ts).1 = [x] ∧ LineP x ∧ (b = false → NoHash x))
    ∧ Ly b (bumpVals ts).2 := by
  induction ts generalizing p with
  | nil => exact ⟨Or.inl rfl, trivial⟩
  | cons t ts ih =>
    unfold bumpVals
    split
    · rename_i hk
      rcases hk with hk | hk
      · -- WHITESPACE
        have hf : nextFlag b t.1 = b := by rw [hk]; exact nextFlag_other _ _ (by decide) (by decide) (by decide)
        have h2 := h.2
        rw [hf] at h2
        obtain ⟨h3, h4⟩ := ih _ h2 (Lx_tail hx)
        refine ⟨?_, h4⟩
        simp only []
        rw [valTexts_other _ _ (by rw [hk]; decide)]
        exact h3
      · -- VALUE: the next token is NEWLINE or nothing, so the run stops here
        have hf : nextFlag b t.1 = b := by rw [hk]; exact nextFlag_other _ _ (by decide) (by decide) (by decide)
        have h2 := h.2
        rw [hf] at h2
        obtain ⟨k, x⟩ := t
        simp only at hk
        subst hk
        have hstop : bumpVals ts = ([], ts) := by
          rcases Lx_after_value hx with rfl | ⟨n, r, rfl, hn⟩
          · rfl
          · unfold bumpVals; simp [hn]
        have hv := h.1.1 rfl
        refine ⟨Or.inr ⟨x, ?_, hv.1, hv.2⟩, by rw [hstop]; exact h2⟩
        simp only [hstop]
        simp [valTexts_value]
    · exact ⟨Or.inl rfl, h⟩

theorem valTexts_nlNodes (t : Tok) (h : t.1 = .NEWLINE) : valTexts (nlNodes t) = [] := by
  rw [nlNodes_of_nl t h]; exact valTexts_other t [] (by rw [h]; decide)

theorem entryLines_spec (ts : List Tok) : ∀ (b : Bool) (p : Kind), Ly b ts → Lx p ts →
    (entryLines ts).errs = [] →
    (∀ l ∈ valTexts (entryLines ts).nodes, LineP l)
    ∧ (∀ l ∈ (valTexts (entryLines ts).nodes).tail, NoHash l)
    ∧ (b = false → ∀ l ∈ valTexts (entryLines ts).nodes, NoHash l) := by
  fun_induction entryLines ts
  next x h =>
    intro b p hl hx _
    obtain ⟨h1, _⟩ := bumpVals_spec x b p hl hx
    rcases h1 with h1 | ⟨y, h1, h2, h3⟩
    · simp [h1]
    · simp only [h1, List.mem_singleton, List.tail_cons, List.not_mem_nil, forall_eq, false_imp_iff,
        implies_true, true_and]
      exact ⟨h2, h3⟩
  next x t h =>
    intro b p hl hx he
    have ht : t.1 = .NEWLINE := by
      apply Classical.byContradiction; intro hn; exact nlErrs_of_not_nl t hn he
    obtain ⟨h1, _⟩ := bumpVals_spec x b p hl hx
    simp only [valTexts_append, valTexts_nlNodes t ht, List.append_nil]
    rcases h1 with h1 | ⟨y, h1, h2, h3⟩
    · simp [h1]
    · simp only [h1, List.mem_singleton, List.tail_cons, List.not_mem_nil, forall_eq, false_imp_iff,
        implies_true, true_and]
      exact ⟨h2, h3⟩
  next x t i r3 h hi ih =>
    intro b p hl hx he
    have he1 : nlErrs t = [] := (List.append_eq_nil_iff.1 he).1
    have he2 : (entryLines (skipWs r3).2).errs = [] := (List.append_eq_nil_iff.1 he).2
    have ht : t.1 = .NEWLINE := by
      apply Classical.byContradiction; intro hn; exact nlErrs_of_not_nl t hn he1
    obtain ⟨h1, hrest⟩ := bumpVals_spec x b p hl hx
    rw [h] at hrest
    -- flags: NEWLINE resets, INDENT keeps, skip_ws keeps a false flag
    have hl1 : Ly false (i :: r3) := by
      have := hrest.2; rw [ht] at this; simpa [nextFlag] using this
    have hl2 : Ly false r3 := by
      have := hl1.2; rw [hi, nextFlag_other _ _ (by decide) (by decide) (by decide)] at this; exact this
    obtain ⟨hs1, b', hs2, hs3⟩ := skipWs_spec r3 false hl2
    have hb' : b' = false := hs3 rfl
    subst hb'
    have hxr : Lx .KEY (skipWs r3).2 := by
      have e1 := bumpVals_leaves x
      rw [h] at e1
      have : Lx .KEY (t :: i :: r3) := Lx_of_suffix e1 hx
      have : Lx .KEY r3 := Lx_weaken (Lx_tail (Lx_tail this))
      exact Lx_of_suffix (skipWs_leaves r3) this
    obtain ⟨r1, r2, r3'⟩ := ih false .KEY hs2 hxr he2
    have r3'' := r3' rfl
    have hi' : valTexts [tk i] = [] := valTexts_other i [] (by rw [hi]; decide)
    simp only [valTexts_append, valTexts_nlNodes t ht, hi', hs1, List.append_nil, List.nil_append]
    rcases h1 with h1 | ⟨y, h1, h2, h3⟩
    · simp only [h1, List.nil_append]
      exact ⟨r1, r2, fun _ => r3''⟩
    · simp only [h1, List.singleton_append, List.mem_cons, List.tail_cons]
      refine ⟨?_, r3'', ?_⟩
      · intro l hl'; rcases hl' with rfl | hl'
        · exact h2
        · exact r1 l hl'
      · intro hb l hl'; rcases hl' with rfl | hl'
        · exact h3 hb
        · exact r3'' l hl'
  next x t i r3 h hi =>
    intro b p hl hx he
    have ht : t.1 = .NEWLINE := by
      apply Classical.byContradiction; intro hn; exact nlErrs_of_not_nl t hn he
    obtain ⟨h1, _⟩ := bumpVals_spec x b p hl hx
    simp only [valTexts_append, valTexts_nlNodes t ht, List.append_nil]
    rcases h1 with h1 | ⟨y, h1, h2, h3⟩
    · simp [h1]
    · simp only [h1, List.mem_singleton, List.tail_cons, List.not_mem_nil, forall_eq, false_imp_iff,
        implies_true, true_and]
      exact ⟨h2, h3⟩

/-! ### entries, paragraphs, the document -/

theorem pItems_skipNodes (ns : List DNode) (h : ∀ n ∈ ns, isEntry n = false) : pItems ns = [] := by
  simp only [pItems]
  have : ns.filter isEntry = [] := List.filter_eq_nil_iff.2 (fun n hn => by simp [h n hn])
  rw [this]; rfl

theorem isEntry_tk (t : Tok) : isEntry (tk t) = false := by simp [isEntry, tk, Node.isNode]

theorem isEntry_nlNodes (t : Tok) : ∀ n ∈ nlNodes t, isEntry n = false := by
  intro n hn
  unfold nlNodes at hn
  split at hn
  · simp at hn; subst hn; exact isEntry_tk t
  · simp at hn; subst hn; simp [isEntry, Node.isNode, Node.kind]

theorem commentLoop_noEntry : ∀ ts, ∀ n ∈ (commentLoop ts).nodes, isEntry n = false
  | [] => by simp [commentLoop]
  | [t] => by
    intro n hn
    simp only [commentLoop] at hn
    split at hn
    · simp at hn; subst hn; exact isEntry_tk t
    · simp at hn
  | t :: m :: ts => by
    intro n hn
    simp only [commentLoop] at hn
    split at hn
    · simp only [List.mem_cons, List.mem_append] at hn
      rcases hn with rfl | hn | hn
      · exact isEntry_tk t
      · exact isEntry_nlNodes m n hn
      · exact commentLoop_noEntry ts n hn
    · simp at hn

/-- an error-free `parse_entry` body yields one ENTRY with a valid key and good value lines -/
theorem entryBody_spec (ts : List Tok) (b : Bool) (p : Kind) (hl : Ly b ts) (hx : Lx p ts)
    (he : (entryBody ts).errs = []) :
    ∃ f, pItems (entryBody ts).nodes = [f] ∧ GoodField f := by
  simp only [entryBody] at he
  have he1 : (keyPart ts).errs = [] := (List.append_eq_nil_iff.1 (List.append_eq_nil_iff.1 he).1).1
  have he2 : (colonPart (keyPart ts).rest).errs = [] := (List.append_eq_nil_iff.1 (List.append_eq_nil_iff.1 he).1).2
  have he3 := (List.append_eq_nil_iff.1 he).2
  cases ts with
  | nil => simp [keyPart] at he1
  | cons t ts1 =>
    by_cases hk : t.1 = .KEY
    · obtain ⟨kk, kx⟩ := t
      simp only at hk
      subst hk
      have hkey : ValidKey kx := hl.1.2 rfl
      have hl1 : Ly true ts1 := by have := hl.2; simpa [nextFlag] using this
      obtain ⟨v1, b2, hl2, _⟩ := skipWs_spec ts1 true hl1
      have hkp : keyPart ((Kind.KEY, kx) :: ts1) = ⟨tk (.KEY, kx) :: (skipWs ts1).1, [], (skipWs ts1).2⟩ := by
        simp [keyPart]
      rw [hkp] at he2 he3
      simp only at he2 he3
      cases hrest : (skipWs ts1).2 with
      | nil => rw [hrest] at he2; simp [colonPart] at he2
      | cons c ts3 =>
        rw [hrest] at he2 he3 hl2
        by_cases hc : c.1 = .COLON
        · have hcp : colonPart (c :: ts3) = ⟨tk c :: (skipWs ts3).1, [], (skipWs ts3).2⟩ := by
            simp [colonPart, hc]
          rw [hcp] at he3
          simp only at he3
          have hl3 : Ly b2 ts3 := by
            have := hl2.2; rw [hc, nextFlag_other _ _ (by decide) (by decide) (by decide)] at this; exact this
          obtain ⟨v2, b4, hl4, _⟩ := skipWs_spec ts3 b2 hl3
          have hx4 : Lx .KEY (skipWs ts3).2 := by
            have e1 : Lx .KEY ts1 := Lx_weaken (Lx_tail hx)
            have e2 : Lx .KEY (c :: ts3) := by rw [← hrest]; exact Lx_of_suffix (skipWs_leaves ts1) e1
            exact Lx_of_suffix (skipWs_leaves ts3) (Lx_weaken (Lx_tail e2))
          obtain ⟨g1, g2, _⟩ := entryLines_spec (skipWs ts3).2 b4 .KEY hl4 hx4 he3
          refine ⟨(kx, Text.join ['\n'] (valTexts (entryLines (skipWs ts3).2).nodes)), ?_,
            hkey, _, rfl, g1, g2⟩
          simp only [entryBody, hkp, hrest, hcp, List.cons_append]
          rw [pItems_entry]
          have hcv : valTexts (tk c :: ((skipWs ts3).1 ++ (entryLines (skipWs ts3).2).nodes))
              = valTexts (entryLines (skipWs ts3).2).nodes := by
            rw [valTexts_other _ _ (by rw [hc]; decide), valTexts_append, v2]; rfl
          simp only [List.append_assoc, List.cons_append]
          rw [valTexts_other (.KEY, kx) _ (by simp), valTexts_append, v1, List.nil_append, hcv]
          rfl
        · simp [colonPart, hc] at he2
    · simp [keyPart, hk] at he1

theorem parseEntry_spec (ts : List Tok) (b : Bool) (p : Kind) (hl : Ly b ts) (hx : Lx p ts)
    (he : (parseEntry ts).errs = []) : ∀ f ∈ pItems (parseEntry ts).nodes, GoodField f := by
  simp only [parseEntry] at he ⊢
  split
  · rename_i hc
    simp only [hc, ↓reduceIte] at he
    rw [pItems_skipNodes _ (commentLoop_noEntry ts)]
    simp
  · rename_i hc
    simp only [hc, Bool.false_eq_true, ↓reduceIte] at he
    have he2 := (List.append_eq_nil_iff.1 he).2
    obtain ⟨b', hl'⟩ := Ly_of_suffix (commentLoop_leaves ts) hl
    have hx' := Lx_of_suffix (commentLoop_leaves ts) hx
    obtain ⟨f, hf, hg⟩ := entryBody_spec _ b' .KEY hl' hx' he2
    rw [pItems_append, pItems_skipNodes _ (commentLoop_noEntry ts), hf]
    simp [hg]

theorem paraLoop_spec (ts : List Tok) : ∀ (b : Bool) (p : Kind), Ly b ts → Lx p ts →
    (paraLoop ts).errs = [] → ∀ f ∈ pItems (paraLoop ts).nodes, GoodField f := by
  fun_induction paraLoop ts
  case case1 => intro b p _ _ _ f hf; simp at hf
  case case2 => intro b p _ _ _ f hf; simp at hf
  case case3 t ts' hn e r ih =>
    intro b p hl hx he f hf
    have he1 : e.errs = [] := (List.append_eq_nil_iff.1 he).1
    have he2 : r.errs = [] := (List.append_eq_nil_iff.1 he).2
    rw [pItems_append, List.mem_append] at hf
    rcases hf with hf | hf
    · exact parseEntry_spec _ b p hl hx he1 f hf
    · obtain ⟨b', hl'⟩ := Ly_of_suffix (parseEntry_leaves (t :: ts')) hl
      exact ih b' .KEY hl' (Lx_of_suffix (parseEntry_leaves (t :: ts')) hx) he2 f hf

/-- a paragraph that starts with a token which is neither blank nor a comment has a first field -/
theorem paraLoop_nonempty (t : Tok) (ts : List Tok) (b : Bool) (p : Kind) (hl : Ly b (t :: ts))
    (hx : Lx p (t :: ts)) (hb : isBlankStart t.1 = false) (he : (paraLoop (t :: ts)).errs = []) :
    pItems (paraLoop (t :: ts)).nodes ≠ [] := by
  have hn : t.1 ≠ .NEWLINE := by intro e; rw [e] at hb; simp [isBlankStart] at hb
  have hc : t.1 ≠ .COMMENT := by intro e; rw [e] at hb; simp [isBlankStart] at hb
  unfold paraLoop at he ⊢
  simp only [hn, ↓reduceDIte] at he ⊢
  have he1 := (List.append_eq_nil_iff.1 he).1
  have hend : endsParagraph (t :: ts) = false := by simp [endsParagraph, hn]
  simp only [parseEntry, commentLoop_id t ts hc, hend, Bool.false_eq_true, Bool.or_self, ↓reduceIte,
    List.nil_append] at he1 ⊢
  obtain ⟨f, hf, _⟩ := entryBody_spec (t :: ts) b p hl hx he1
  rw [pItems_append, hf]
  simp

theorem isPara_emptyLine (x : List DNode) : isPara (.node .EMPTY_LINE x) = false := by
  simp [isPara, Node.isNode, Node.kind]

theorem skipWsNl_noPara (ts : List Tok) : dItems (skipWsNl ts).1 = [] := by
  fun_induction skipWsNl ts
  case case1 => rfl
  case case2 t ts' hb b r ih => rw [dItems_empty]; exact ih
  case case3 => rfl

theorem dItems_append (a b : List DNode) : dItems (a ++ b) = dItems a ++ dItems b := by
  simp [dItems]

theorem rootLoop_spec (ts : List Tok) : ∀ (b : Bool) (p : Kind), Ly b ts → Lx p ts →
    (rootLoop ts).errs = [] →
    ∀ para ∈ dItems (rootLoop ts).nodes, para ≠ [] ∧ ∀ f ∈ para, GoodField f := by
  fun_induction rootLoop ts
  case case1 => intro b p _ _ _ para h; simp at h
  case case2 t0 ts0 s h =>
    intro b p _ _ _ para hp
    simp only [s] at hp
    rw [skipWsNl_noPara] at hp; simp at hp
  case case3 t0 ts0 s t r h p q ih =>
    intro b pk hl hx he para hp
    have he1 : p.errs = [] := (List.append_eq_nil_iff.1 he).1
    have he2 : q.errs = [] := (List.append_eq_nil_iff.1 he).2
    have hleaves := skipWsNl_leaves (t0 :: ts0)
    simp only [s] at h
    rw [h] at hleaves
    obtain ⟨b1, hl1⟩ := Ly_of_suffix hleaves hl
    have hx1 := Lx_of_suffix hleaves hx
    have hbs := skipWsNl_head (t0 :: ts0) t r h
    simp only [dItems_append, s, skipWsNl_noPara, List.nil_append, dItems_para, dItems_nil,
      List.singleton_append, List.mem_cons] at hp
    rcases hp with rfl | hp
    · exact ⟨paraLoop_nonempty t r b1 .KEY hl1 hx1 hbs he1, paraLoop_spec _ b1 .KEY hl1 hx1 he1⟩
    · obtain ⟨b2, hl2⟩ := Ly_of_suffix (paraLoop_leaves (t :: r)) hl1
      exact ih b2 .KEY hl2 (Lx_of_suffix (paraLoop_leaves (t :: r)) hx1) he2 para hp

/-- **what the lossless reader returns**: for every text `Deb822::from_str` accepts, every paragraph
    has at least one field, every field name is a valid key and every value is a join of good lines -/
theorem readStrict_fields (s : Str) (t : DNode) (h : readStrict s = .ok t) :
    ∀ para ∈ docItems t, para ≠ [] ∧ ∀ f ∈ para, GoodField f := by
  unfold readStrict at h
  split at h
  · rename_i he
    simp only [Except.ok.injEq] at h
    subst h
    have he' : (rootLoop (lex s)).errs = [] := by simpa [parse, parseTokens] using he
    have := rootLoop_spec (lex s) false .NEWLINE (lex_ly s) (lex_lx s) he'
    simpa [parse, parseTokens, docItems_root] using this
  · simp at h

end Deb822Verif.Deb
