import Deb822Verif.Lemmas.DebWrapSpecC
/-!
  Fields with comment lines inside the value, continued: the reformatted field (`EntryC.wrap`) is well
  formed, fully terminated, has the same lines; its text lexes to its tokens and `parse_entry` builds
  its node from them without error — comment lines stay comment lines, value lines stay value lines.
-/
namespace Deb822Verif.Deb
open Deb822Verif Node Spec

/-! ### the reformatted field -/

theorem mkContK_tok (ind : Nat) (t : Tok) (h : LineTok t) : (mkContK ind t).tok = t := by
  obtain ⟨k, s⟩ := t
  rcases h with h | h <;> simp only at h <;> subst h <;> rfl

theorem lineToks_props (e : EntryC) (hwf : e.WF) : ∀ t ∈ e.lineToks,
    (t.1 = .COMMENT → ∃ t', t.2 = '#' :: t' ∧ NoNl t')
    ∧ (t.1 = .VALUE → (t = (.VALUE, e.v) ∧ e.v ≠ []) ∨ ValidCont t.2) := by
  intro t ht
  simp only [EntryC.lineToks, List.mem_append, List.mem_map] at ht
  rcases ht with ht | ⟨c, hc, rfl⟩
  · split at ht
    · simp at ht
    · rename_i hv
      simp only [List.mem_cons, List.not_mem_nil, or_false] at ht
      subst ht
      exact ⟨fun h => by simp at h, fun _ => Or.inl ⟨rfl, hv⟩⟩
  · have hcw := (hwf.conts_ok c hc).text_ok
    cases hi : c.isC with
    | true =>
      rw [hi] at hcw
      simp only [↓reduceIte] at hcw
      exact ⟨fun _ => hcw, fun h => by simp [ContC.tok, ContC.kind, hi] at h⟩
    | false =>
      rw [hi] at hcw
      simp only [Bool.false_eq_true, ↓reduceIte] at hcw
      exact ⟨fun h => by simp [ContC.tok, ContC.kind, hi] at h, fun _ => Or.inr hcw⟩

theorem lineToks_tail_mem (e : EntryC) (l : Tok) (ls : List Tok) (h : e.lineToks = l :: ls) (t : Tok)
    (ht : t ∈ ls) : ∃ c ∈ e.conts, t = c.tok := by
  simp only [EntryC.lineToks] at h
  split at h
  · simp only [List.nil_append] at h
    have : t ∈ e.conts.map ContC.tok := by rw [h]; simp [ht]
    simp only [List.mem_map] at this
    obtain ⟨c, hc, rfl⟩ := this
    exact ⟨c, hc, rfl⟩
  · simp only [List.singleton_append, List.cons.injEq] at h
    have : t ∈ e.conts.map ContC.tok := by rw [h.2]; exact ht
    simp only [List.mem_map] at this
    obtain ⟨c, hc, rfl⟩ := this
    exact ⟨c, hc, rfl⟩

theorem mkContK_wf (ind : Nat) (t : Tok) (hind : ind ≠ 0)
    (hc : t.1 = .COMMENT → ∃ t', t.2 = '#' :: t' ∧ NoNl t') (hv : t.1 ≠ .COMMENT → ValidCont t.2) :
    (mkContK ind t).WF := by
  refine ⟨?_, ?_, ?_⟩
  · cases ind with
    | zero => exact absurd rfl hind
    | succ n => simp [mkContK, List.replicate_succ]
  · intro c hcm
    simp only [mkContK, List.mem_replicate] at hcm
    rw [hcm.2]; rfl
  · simp only [mkContK]
    by_cases hk : t.1 = .COMMENT
    · simp only [hk, beq_self_eq_true, ↓reduceIte]; exact hc hk
    · have : (t.1 == Kind.COMMENT) = false := by simpa using hk
      simp only [this, Bool.false_eq_true, ↓reduceIte]; exact hv hk

theorem wrapC_props (cfg : WrapCfg) (e : EntryC) (hwf : e.WF) (hc : IndentOK cfg) :
    (e.wrap cfg).WF ∧ (e.wrap cfg).TermAll ∧ (e.wrap cfg).lineToks = e.lineToks
      ∧ (e.firstIsComment = true → (e.wrap cfg).ws = [] ∧ (e.wrap cfg).v = []) := by
  have hind := indOfC_pos cfg e hc hwf.key_ok
  have hline := lineToks_line e
  have hprops := lineToks_props e hwf
  have hm : ∀ (L : List Tok), ∀ c ∈ L.map (mkContK (indOfC cfg e)), c.nl = true := by
    intro L c hcm
    simp only [List.mem_map] at hcm
    obtain ⟨t, _, rfl⟩ := hcm; rfl
  have hmapTok : ∀ L : List Tok, (∀ t ∈ L, LineTok t) → (L.map (mkContK (indOfC cfg e))).map ContC.tok = L := by
    intro L hL
    rw [List.map_map]
    conv => rhs; rw [← List.map_id L]
    apply List.map_congr_left
    intro t ht
    exact mkContK_tok _ t (hL t ht)
  unfold EntryC.wrap
  split
  · rename_i hA
    have hcn : e.conts = [] := by
      simp only [Bool.and_eq_true, List.isEmpty_iff] at hA; exact hA.2
    refine ⟨⟨hwf.key_ok, ?_, hwf.v_ok, by simp⟩, ⟨rfl, by simp⟩, by simp [EntryC.lineToks, hcn], ?_⟩
    · simp only; split
      · exact allIndent_nil
      · exact hwf.ws_ok
    · intro hfc
      have : e.lineToks = (if e.v = [] then [] else [(Kind.VALUE, e.v)]) := by simp [EntryC.lineToks, hcn]
      unfold EntryC.firstIsComment at hfc
      rw [this] at hfc
      split at hfc <;> simp [headIsComment] at hfc
  · split
    · rename_i hB
      refine ⟨⟨hwf.key_ok, allIndent_nil, validFirst_nil, ?_⟩, ⟨rfl, hm _⟩, ?_, fun _ => ⟨rfl, rfl⟩⟩
      · intro c hcm
        simp only [List.mem_map] at hcm
        obtain ⟨t, ht, rfl⟩ := hcm
        refine mkContK_wf _ t hind (hprops t ht).1 ?_
        intro hk
        have htv : t.1 = .VALUE := by
          rcases hline t ht with h | h
          · exact h
          · exact absurd h hk
        rcases (hprops t ht).2 htv with ⟨rfl, hv⟩ | h
        · -- the first-line text: it does not start with `#` here, and no comment comes first
          have hfc : e.firstIsComment = false := by
            simp [EntryC.firstIsComment, EntryC.lineToks, hv, headIsComment]
          rw [hfc, Bool.false_or] at hB
          obtain ⟨hn, hh⟩ := hwf.v_ok
          cases hv' : e.v with
          | nil => exact absurd hv' hv
          | cons x xs =>
            refine ⟨by rw [← hv']; exact hn, x, xs, rfl, hh x (by simp [hv']), ?_⟩
            intro hx
            simp [hv', hx] at hB
        · exact h
      · simp only [EntryC.lineToks, ↓reduceIte, List.nil_append]
        exact hmapTok _ hline
    · rename_i hB
      have hfc : e.firstIsComment = false := by
        cases h : e.firstIsComment with
        | false => rfl
        | true => rw [h] at hB; simp at hB
      split
      · rename_i hL
        exact ⟨⟨hwf.key_ok, allIndent_space, validFirst_nil, by simp⟩, ⟨rfl, by simp⟩,
          by rw [hL]; rfl, fun h => by rw [hfc] at h; cases h⟩
      · rename_i l ls hL
        have hl' : ∀ t ∈ l :: ls, LineTok t := by rw [← hL]; exact hline
        have hlv : l.1 = .VALUE := by
          rcases hl' l (by simp) with h1 | h1
          · exact h1
          · simp [EntryC.firstIsComment, headIsComment, hL, h1] at hfc
        have hlm : l ∈ e.lineToks := by rw [hL]; simp
        have hvf : ValidFirst l.2 ∧ l.2 ≠ [] := by
          rcases (hprops l hlm).2 hlv with ⟨h, hv⟩ | h
          · rw [h]; exact ⟨hwf.v_ok, hv⟩
          · refine ⟨validFirst_of_cont _ h, ?_⟩
            obtain ⟨_, x, xs, hx, _⟩ := h
            rw [hx]; simp
        refine ⟨⟨hwf.key_ok, allIndent_space, hvf.1, ?_⟩, ⟨rfl, hm _⟩, ?_, fun h => by rw [hfc] at h; cases h⟩
        · intro c hcm
          simp only [List.mem_map] at hcm
          obtain ⟨t, ht, rfl⟩ := hcm
          have htm : t ∈ e.lineToks := by rw [hL]; simp [ht]
          refine mkContK_wf _ t hind (hprops t htm).1 ?_
          intro hk
          have htv : t.1 = .VALUE := by
            rcases hline t htm with h | h
            · exact h
            · exact absurd h hk
          obtain ⟨c, hcm', rfl⟩ := lineToks_tail_mem e l ls hL t ht
          have hcw := (hwf.conts_ok c hcm').text_ok
          have hnc : c.isC = false := by
            cases hi : c.isC with
            | false => rfl
            | true => simp [ContC.tok, ContC.kind, hi] at htv
          rw [hnc] at hcw
          exact hcw
        · simp only [EntryC.lineToks, hvf.2, ↓reduceIte, List.singleton_append, List.map_cons]
          rw [hmapTok ls (fun t ht => hl' t (by simp [ht]))]
          obtain ⟨lk, lt⟩ := l
          simp only at hlv
          subst hlv
          exact hL.symm


/-! ### the text of a fully terminated field with comment lines lexes to its tokens -/

/-- an indented comment line up to its terminator -/
theorem lex_indentComment (ind t tail : Str) (hi : ind ≠ []) (hia : AllIndent ind) (ht : NoNl t)
    (he : LineEnd tail) :
    lexAux initState (ind ++ ('#' :: t) ++ tail) =
      (.INDENT, ind) :: (.COMMENT, '#' :: t) :: lexAux { sol := true, colon := 0, indent := ind.length } tail := by
  cases ind with
  | nil => exact absurd rfl hi
  | cons w ws =>
    have hw : isIndent w = true := hia w (by simp)
    have hws : ∀ x ∈ ws, isIndent x = true := fun x hx => hia x (by simp [hx])
    have hft : HeadFails isIndent ('#' :: t ++ tail) := by
      intro x hx; simp at hx; subst hx; decide
    rw [List.append_assoc, List.cons_append, lexAux_cons,
      step_indent w ws _ initState rfl hw hws hft]
    simp only [initState, List.cons.injEq, true_and]
    rw [List.cons_append, lexAux_cons, step_comment t tail _ rfl ht he]

theorem lex_contsC (cs : List ContC) (rest : Str) (hwf : ∀ c ∈ cs, c.WF) (hnl : ∀ c ∈ cs, c.nl = true) :
    lexAux initState ((cs.map ContC.str).flatten ++ rest) = contsToksC cs ++ lexAux initState rest := by
  induction cs with
  | nil => simp [contsToksC]
  | cons c cs ih =>
    have hc := hwf c (by simp)
    have hcn := hnl c (by simp)
    have he := lineEnd_nlText c.nl ((cs.map ContC.str).flatten ++ rest) (Or.inl hcn)
    have ih' := ih (fun x hx => hwf x (by simp [hx])) (fun x hx => hnl x (by simp [hx]))
    simp only [List.map_cons, List.flatten_cons, ContC.str, List.append_assoc, contsToksC_cons]
    cases hi : c.isC with
    | false =>
      have htx := hc.text_ok
      rw [hi] at htx
      simp only [Bool.false_eq_true, ↓reduceIte] at htx
      have := lex_contLine c.indent c.text (nlText c.nl ++ ((cs.map ContC.str).flatten ++ rest))
        hc.indent_ne hc.indent_ok htx he
      simp only [List.append_assoc] at this
      rw [this, lex_nlText _ _ _ (Or.inl hcn), ih']
      simp [ContC.toks, ContC.tok, ContC.kind, hi]
    | true =>
      have htx := hc.text_ok
      rw [hi] at htx
      simp only [↓reduceIte] at htx
      obtain ⟨t, hte, htn⟩ := htx
      have := lex_indentComment c.indent t (nlText c.nl ++ ((cs.map ContC.str).flatten ++ rest))
        hc.indent_ne hc.indent_ok htn he
      simp only [List.append_assoc] at this
      rw [hte, this, lex_nlText _ _ _ (Or.inl hcn), ih']
      simp [ContC.toks, ContC.tok, ContC.kind, hi, hte]

theorem lex_entryC (e : EntryC) (rest : Str) (hwf : e.WF) (hterm : e.TermAll) :
    lexAux initState (e.str ++ rest) = e.toks ++ lexAux initState rest := by
  have he := lineEnd_nlText e.nl ((e.conts.map ContC.str).flatten ++ rest) (Or.inl hterm.1)
  have := lex_fieldLine e.key e.ws e.v (nlText e.nl ++ ((e.conts.map ContC.str).flatten ++ rest))
    hwf.key_ok hwf.ws_ok hwf.v_ok he
  simp only [EntryC.str, List.append_assoc, List.cons_append] at this ⊢
  rw [this, lex_nlText _ _ _ (Or.inl hterm.1), lex_contsC e.conts rest hwf.conts_ok hterm.2]
  simp [EntryC.toks, EntryC.tailToks]

/-! ### `parse_entry` builds its node from these tokens -/

theorem contC_text_ne (c : ContC) (h : c.WF) : c.text ≠ [] := by
  have := h.text_ok
  cases hi : c.isC with
  | true => rw [hi] at this; simp only [↓reduceIte] at this; obtain ⟨t, ht, _⟩ := this; rw [ht]; simp
  | false =>
    rw [hi] at this; simp only [Bool.false_eq_true, ↓reduceIte] at this
    obtain ⟨_, x, xs, hx, _⟩ := this; rw [hx]; simp

theorem entryLines_contsC (cs : List ContC) (hwf : ∀ c ∈ cs, c.WF) (hnl : ∀ c ∈ cs, c.nl = true) :
    ∀ (v : Str) (rest : List Tok), HeadNot [.INDENT] rest →
    entryLines (optTok .VALUE v ++ (.NEWLINE, ['\n']) :: (contsToksC cs ++ rest)) =
      ⟨(optTok .VALUE v ++ (.NEWLINE, ['\n']) :: contsToksC cs).map tk, [], rest⟩ := by
  induction cs with
  | nil =>
    intro v rest hrest
    simp only [contsToksC, List.map_nil, List.flatten_nil, List.nil_append]
    cases rest with
    | nil =>
      have hb := bumpVals_optVal v [(.NEWLINE, ['\n'])] (headNot_cons _ _ _ (by simp))
      rw [entryLines_of_one _ _ _ hb]; simp [nlNodes_nl, nlErrs_nl]
    | cons i r3 =>
      have hb := bumpVals_optVal v ((.NEWLINE, ['\n']) :: i :: r3) (headNot_cons _ _ _ (by simp))
      have hi : i.1 ≠ .INDENT := by simpa using hrest i (by simp)
      rw [entryLines_of_stop _ _ _ _ _ hb hi]; simp [nlNodes_nl, nlErrs_nl]
  | cons c cs ih =>
    intro v rest hrest
    have hc := hwf c (by simp)
    have hcn := hnl c (by simp)
    have ih' := ih (fun x hx => hwf x (by simp [hx])) (fun x hx => hnl x (by simp [hx]))
    have hin : optTok .VALUE v ++ (.NEWLINE, ['\n']) :: (contsToksC (c :: cs) ++ rest) =
        optTok .VALUE v ++ (.NEWLINE, ['\n']) :: (.INDENT, c.indent) ::
          (c.tok :: ((.NEWLINE, ['\n']) :: (contsToksC cs ++ rest))) := by
      simp [contsToksC_cons, ContC.toks, hcn, nlTok]
    have hb := bumpVals_optVal v ((.NEWLINE, ['\n']) :: (.INDENT, c.indent) ::
          (c.tok :: ((.NEWLINE, ['\n']) :: (contsToksC cs ++ rest)))) (headNot_cons _ _ _ (by simp))
    rw [hin, entryLines_of_indent _ _ _ _ _ hb rfl]
    cases hi : c.isC with
    | false =>
      have htk : c.tok = (.VALUE, c.text) := by simp [ContC.tok, ContC.kind, hi]
      have hsk : skipWs (c.tok :: ((.NEWLINE, ['\n']) :: (contsToksC cs ++ rest))) =
          ([], c.tok :: ((.NEWLINE, ['\n']) :: (contsToksC cs ++ rest))) := by
        rw [htk]; exact skipWs_stop _ (headNot_cons _ _ _ (by simp))
      rw [hsk]
      have hrec := ih' c.text rest hrest
      have hct : optTok .VALUE c.text = [(.VALUE, c.text)] := by simp [optTok, contC_text_ne c hc]
      rw [hct] at hrec
      simp only [List.singleton_append] at hrec
      rw [htk, hrec]
      simp [nlNodes_nl, nlErrs_nl, contsToksC_cons, ContC.toks, hcn, nlTok, htk]
    | true =>
      have htk : c.tok = (.COMMENT, c.text) := by simp [ContC.tok, ContC.kind, hi]
      have hsk : skipWs (c.tok :: ((.NEWLINE, ['\n']) :: (contsToksC cs ++ rest))) =
          ([tk c.tok], (.NEWLINE, ['\n']) :: (contsToksC cs ++ rest)) := by
        rw [htk]
        have h2 := skipWs_stop ((Kind.NEWLINE, ['\n']) :: (contsToksC cs ++ rest)) (headNot_cons _ _ _ (by simp))
        rw [show skipWs ((Kind.COMMENT, c.text) :: ((Kind.NEWLINE, ['\n']) :: (contsToksC cs ++ rest)))
            = (tk (Kind.COMMENT, c.text) :: (skipWs ((Kind.NEWLINE, ['\n']) :: (contsToksC cs ++ rest))).1,
               (skipWs ((Kind.NEWLINE, ['\n']) :: (contsToksC cs ++ rest))).2) from by
          rw [skipWs]; simp, h2]
      rw [hsk]
      have hrec := ih' [] rest hrest
      simp only [optTok, ↓reduceIte, List.nil_append] at hrec
      rw [hrec]
      simp [nlNodes_nl, nlErrs_nl, contsToksC_cons, ContC.toks, hcn, nlTok]

theorem parseEntry_entryC (e : EntryC) (rest : List Tok) (hwf : e.WF) (hterm : e.TermAll)
    (hrest : HeadNot [.INDENT] rest) :
    parseEntry (e.toks ++ rest) = ⟨[e.node], [], rest⟩ := by
  have hvp : HeadNot [.WHITESPACE, .COMMENT] (optTok .VALUE e.v ++ (.NEWLINE, ['\n']) :: (contsToksC e.conts ++ rest)) := by
    intro t ht
    unfold optTok at ht
    split at ht
    · simp at ht; subst ht; simp
    · simp at ht; subst ht; simp
  have htoks : e.toks ++ rest = (.KEY, e.key) :: (.COLON, [':']) :: (optTok .WHITESPACE e.ws ++
        (optTok .VALUE e.v ++ (.NEWLINE, ['\n']) :: (contsToksC e.conts ++ rest))) := by
    simp [EntryC.toks, EntryC.tailToks, hterm.1, nlTok]
  have hk : keyPart (e.toks ++ rest) =
      ⟨[tk (.KEY, e.key)], [], (.COLON, [':']) :: (optTok .WHITESPACE e.ws ++
        (optTok .VALUE e.v ++ (.NEWLINE, ['\n']) :: (contsToksC e.conts ++ rest)))⟩ := by
    rw [htoks]
    simp only [keyPart, ↓reduceIte]
    rw [skipWs_stop _ (headNot_cons _ _ _ (by simp))]
  have hc : colonPart ((.COLON, [':']) :: (optTok .WHITESPACE e.ws ++
        (optTok .VALUE e.v ++ (.NEWLINE, ['\n']) :: (contsToksC e.conts ++ rest)))) =
      ⟨tk (.COLON, [':']) :: (optTok .WHITESPACE e.ws).map tk, [],
        optTok .VALUE e.v ++ (.NEWLINE, ['\n']) :: (contsToksC e.conts ++ rest)⟩ := by
    simp only [colonPart, ↓reduceIte]
    rw [skipWs_optWs _ _ hvp]
  have hl := entryLines_contsC e.conts hwf.conts_ok hterm.2 e.v rest hrest
  have hbody : entryBody (e.toks ++ rest) = ⟨[e.node], [], rest⟩ := by
    simp only [entryBody, hk, hc, hl]
    simp [EntryC.node, EntryC.toks, EntryC.tailToks, hterm.1, nlTok]
  have hcl : commentLoop (e.toks ++ rest) = ⟨[], [], e.toks ++ rest, false⟩ := by
    apply commentLoop_notComment
    rw [htoks]
    exact headNot_cons _ _ _ (by simp)
  have hep : endsParagraph (e.toks ++ rest) = false := by
    rw [htoks]; simp [endsParagraph]
  simp only [parseEntry, hcl, hep, hbody]
  simp

theorem nodeC_text (e : EntryC) : e.node.leaves = e.toks := by
  simp [EntryC.node, leavesList_map_tk]


/-- a document that consists of one fully terminated field with comment lines parses, without error,
    to one paragraph holding the node of that field -/
theorem parse_entryC (e : EntryC) (hwf : e.WF) (hterm : e.TermAll) :
    parse e.str = ⟨.node .ROOT [.node .PARAGRAPH [e.node]], []⟩ := by
  have hlex : lex e.str = e.toks := by
    have := lex_entryC e [] hwf hterm
    simpa [lex, lexAux_nil] using this
  have hpe : parseEntry e.toks = ⟨[e.node], [], []⟩ := by
    have := parseEntry_entryC e [] hwf hterm (headNot_nil _)
    simpa using this
  have htoks : e.toks = (.KEY, e.key) :: (.COLON, [':']) :: e.tailToks := rfl
  have hpl : paraLoop e.toks = ⟨[e.node], [], []⟩ := by
    rw [paraLoop_step' e.toks (by rw [htoks]; simp [endsParagraph]), hpe]
    simp [paraLoop_nil]
  have hsk : skipWsNl e.toks = ([], e.toks) := by
    apply skipWsNl_stop
    rw [htoks]; exact headNot_cons _ _ _ (by simp)
  unfold parse parseTokens
  rw [hlex]
  have := rootLoop_of_cons e.toks (by rw [htoks]; simp) [] (.KEY, e.key) ((.COLON, [':']) :: e.tailToks)
    (by rw [hsk]; rfl)
  rw [← htoks] at this
  rw [this, hpl]
  simp [rootLoop_nil]

end Deb822Verif.Deb
