import Deb822Verif.Model.Codec
import Deb822Verif.Props.C18
/-!
  Key-sorted association lists as the canonical form of a `HashMap<String, String>` and
  `Codec.mapInsert` (`HashMap::insert`) on them: inserting the entries of a canonical map in ANY
  order rebuilds it.  (Same lemmas as in Props/C16.lean, kept here so that C15 does not depend on
  the generated tables C16 pins.)
-/
namespace Deb822Verif.EnvMap
open Deb822Verif Deb822Verif.Codec

/-- the map in canonical form: keys strictly increasing (code-point order = Rust `String` order) -/
def KeySorted (m : List (Str × Str)) : Prop := m.Pairwise (fun p q => Codec.strLt p.1 q.1 = true)

theorem char_eq_of_toNat (a b : Char) (h : a.toNat = b.toNat) : a = b :=
  Char.ext (UInt32.toNat_inj.mp h)

theorem strLt_trans (a b c : Str) (h1 : strLt a b = true) (h2 : strLt b c = true) : strLt a c = true := by
  induction a generalizing b c with
  | nil =>
    cases b with
    | nil => simp [strLt] at h1
    | cons y ys => cases c <;> simp [strLt] at h2 ⊢
  | cons x xs ih =>
    cases b with
    | nil => simp [strLt] at h1
    | cons y ys =>
      cases c with
      | nil => simp [strLt] at h2
      | cons z zs =>
        simp only [strLt] at h1 h2 ⊢
        by_cases hxy : x.toNat < y.toNat
        · by_cases hyz : y.toNat < z.toNat
          · have : x.toNat < z.toNat := by omega
            simp [this]
          · by_cases hzy : z.toNat < y.toNat
            · simp [hyz, hzy] at h2
            · have : x.toNat < z.toNat := by omega
              simp [this]
        · by_cases hyx : y.toNat < x.toNat
          · simp [hxy, hyx] at h1
          · simp only [hxy, hyx, ↓reduceIte] at h1
            by_cases hyz : y.toNat < z.toNat
            · have : x.toNat < z.toNat := by omega
              simp [this]
            · by_cases hzy : z.toNat < y.toNat
              · simp [hyz, hzy] at h2
              · simp only [hyz, hzy, ↓reduceIte] at h2
                have h3 : ¬ x.toNat < z.toNat := by omega
                have h4 : ¬ z.toNat < x.toNat := by omega
                simp only [h3, h4, ↓reduceIte]
                exact ih ys zs h1 h2

theorem strLt_total (a b : Str) (h1 : strLt a b = false) (h2 : a ≠ b) : strLt b a = true := by
  induction a generalizing b with
  | nil =>
    cases b with
    | nil => exact absurd rfl h2
    | cons y ys => simp [strLt] at h1
  | cons x xs ih =>
    cases b with
    | nil => simp [strLt]
    | cons y ys =>
      simp only [strLt] at h1 ⊢
      by_cases hxy : x.toNat < y.toNat
      · simp [hxy] at h1
      · by_cases hyx : y.toNat < x.toNat
        · simp [hyx]
        · simp only [hxy, hyx, ↓reduceIte] at h1 ⊢
          have hc : x = y := char_eq_of_toNat x y (by omega)
          subst hc
          exact ih ys h1 (fun e => h2 (by rw [e]))

theorem mem_mapInsert (k v : Str) (m : List (Str × Str)) (q : Str × Str) (h : q ∈ mapInsert k v m) :
    q = (k, v) ∨ q ∈ m := by
  induction m with
  | nil => simp [mapInsert] at h; left; exact h
  | cons p r ih =>
    simp only [mapInsert] at h
    split at h
    · simp only [List.mem_cons] at h ⊢
      rcases h with h | h
      · left; exact h
      · right; right; exact h
    · split at h
      · simp only [List.mem_cons] at h ⊢
        rcases h with h | h | h
        · left; exact h
        · right; left; exact h
        · right; right; exact h
      · simp only [List.mem_cons] at h ⊢
        rcases h with h | h
        · right; left; exact h
        · rcases ih h with h | h
          · left; exact h
          · right; right; exact h

theorem mapInsert_sorted (k v : Str) (m : List (Str × Str)) (h : KeySorted m) : KeySorted (mapInsert k v m) := by
  induction m with
  | nil => simp [mapInsert, KeySorted]
  | cons p r ih =>
    have hp := List.pairwise_cons.1 h
    simp only [mapInsert]
    split
    · rename_i hk
      apply List.pairwise_cons.2
      exact ⟨fun q hq => by simpa [hk] using hp.1 q hq, hp.2⟩
    · rename_i hk
      split
      · rename_i hlt
        apply List.pairwise_cons.2
        refine ⟨?_, h⟩
        intro q hq
        simp only [List.mem_cons] at hq
        rcases hq with rfl | hq
        · exact hlt
        · exact strLt_trans _ _ _ hlt (hp.1 q hq)
      · rename_i hlt
        apply List.pairwise_cons.2
        refine ⟨?_, ih hp.2⟩
        intro q hq
        rcases mem_mapInsert k v r q hq with rfl | hq
        · exact strLt_total k p.1 (by simpa using hlt) hk
        · exact hp.1 q hq

theorem mapInsert_perm (k v : Str) (m : List (Str × Str)) (h : k ∉ m.map (·.1)) :
    List.Perm (mapInsert k v m) ((k, v) :: m) := by
  induction m with
  | nil => simp [mapInsert]
  | cons p r ih =>
    simp only [List.map_cons, List.mem_cons, not_or] at h
    simp only [mapInsert, h.1, ↓reduceIte]
    split
    · exact List.Perm.refl _
    · exact (List.Perm.cons p (ih h.2)).trans (List.Perm.swap _ _ _)

def insAll (acc : List (Str × Str)) (ps : List (Str × Str)) : List (Str × Str) :=
  ps.foldl (fun a p => mapInsert p.1 p.2 a) acc

theorem insAll_spec (ps acc : List (Str × Str)) (hs : KeySorted acc) (hn : (ps.map (·.1)).Nodup)
    (hd : ∀ p ∈ ps, p.1 ∉ acc.map (·.1)) :
    KeySorted (insAll acc ps) ∧ List.Perm (insAll acc ps) (ps ++ acc) := by
  induction ps generalizing acc with
  | nil => exact ⟨hs, List.Perm.refl _⟩
  | cons p r ih =>
    simp only [List.map_cons, List.nodup_cons] at hn
    have hp := hd p (by simp)
    have hperm := mapInsert_perm p.1 p.2 acc hp
    have hd' : ∀ q ∈ r, q.1 ∉ (mapInsert p.1 p.2 acc).map (·.1) := by
      intro q hq hmem
      simp only [List.mem_map] at hmem
      obtain ⟨e, he, hek⟩ := hmem
      rcases mem_mapInsert _ _ _ e he with rfl | he'
      · apply hn.1; simp only [List.mem_map]; exact ⟨q, hq, hek.symm⟩
      · exact hd q (by simp [hq]) (by simp only [List.mem_map]; exact ⟨e, he', hek⟩)
    obtain ⟨h1, h2⟩ := ih (mapInsert p.1 p.2 acc) (mapInsert_sorted _ _ _ hs) hn.2 hd'
    refine ⟨h1, ?_⟩
    show List.Perm (insAll (mapInsert p.1 p.2 acc) r) (p :: r ++ acc)
    refine h2.trans ?_
    have : List.Perm (r ++ mapInsert p.1 p.2 acc) (r ++ (p.1, p.2) :: acc) := List.Perm.append_left r hperm
    refine this.trans ?_
    simpa using (List.perm_middle (a := p) (l₁ := r) (l₂ := acc))

theorem mapSorted_nodup (m : List (Str × Str)) (h : KeySorted m) : (m.map (·.1)).Nodup := by
  induction m with
  | nil => simp
  | cons p r ih =>
    have hp := List.pairwise_cons.1 h
    simp only [List.map_cons, List.nodup_cons]
    refine ⟨?_, ih hp.2⟩
    intro hm
    simp only [List.mem_map] at hm
    obtain ⟨q, hq, hqk⟩ := hm
    have := hp.1 q hq
    rw [hqk, Props.C18.strLt_irrefl] at this
    simp at this

/-- inserting the entries of a canonical map in any order rebuilds it -/
theorem insAll_perm_eq (m ps : List (Str × Str)) (hm : KeySorted m) (hp : List.Perm ps m) : insAll [] ps = m := by
  have hn : (ps.map (·.1)).Nodup := (hp.map (·.1)).nodup_iff.2 (mapSorted_nodup m hm)
  obtain ⟨h1, h2⟩ := insAll_spec ps [] (by simp [KeySorted]) hn (by simp)
  simp only [List.append_nil] at h2
  have key := @List.Perm.eq_of_pairwise (Str × Str) (fun p q => strLt p.1 q.1 = true) (insAll [] ps) m
    (by
      intro a b _ _ hab hba
      rw [Props.C18.strLt_asymm _ _ hab] at hba
      simp at hba) h1 hm (h2.trans hp)
  exact key

end Deb822Verif.EnvMap
